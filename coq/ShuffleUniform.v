(* ShuffleUniform: the counting side of C07 for the shuffle generators: the Fisher-Yates map from admissible coin
   vectors to index vectors is injective, its domain has n! elements and its values are permutations of 0..n-1. *)
From Coq Require Import ZArith NArith List Bool Lia ZifyBool Permutation FinFun Arith.
From LT Require Import SamplerModel SamplerLemmas ShuffleModel ShuffleLemmas.
Import ListNotations.
Local Open Scope N_scope.

(* coin c_j of iteration i + j is below n - (i + j): exactly what tmcg_mpz_srandom_mod(n - i) delivers *)
Fixpoint admissible (k i n : nat) (cs : list N) : Prop :=
  match k, cs with
  | O, [] => True
  | S k', c :: cs' => c < N.of_nat (n - i) /\ admissible k' (S i) n cs'
  | _, _ => False
  end.

(* all admissible coin vectors *)
Fixpoint all_coins (k i n : nat) : list (list N) :=
  match k with
  | O => [[]]
  | S k' => flat_map (fun c => map (cons c) (all_coins k' (S i) n)) (iota (n - i))
  end.

(* ---- the loop over the coin stream = drawing the coins, then the pure algorithm -------------------------- *)
Theorem fy_loop_coins n : forall k i pi s pi' s', fy_loop k i n pi s = Ret (pi', s') ->
  exists cs, draw_coins k i n s = Ret (cs, s') /\ admissible k i n cs /\ fy_coins k i pi cs = Some pi'.
Proof.
  induction k as [|k IH]; intros i pi s pi' s'; cbn [fy_loop draw_coins].
  - intros E. injection E as <- <-. exists []. cbn. auto.
  - destruct (random_mod _ s) as [[c r]| | | | |] eqn:R; cbn [bind fst snd]; try discriminate.
    destruct (swap_idx pi i _) as [pi1| | | | |] eqn:Sw; cbn [bind]; try discriminate.
    intros E. apply IH in E. destruct E as (cs & D & A & F). exists (c :: cs).
    rewrite D. cbn [bind fst snd admissible fy_coins]. rewrite Sw. apply random_mod_range in R. tauto.
Qed.

Theorem coins_fy_loop n : forall k i pi s cs pi' s', draw_coins k i n s = Ret (cs, s') -> fy_coins k i pi cs = Some pi' ->
  fy_loop k i n pi s = Ret (pi', s').
Proof.
  induction k as [|k IH]; intros i pi s cs pi' s'; cbn [fy_loop draw_coins].
  - intros E. injection E as <- <-. cbn. intros E. now injection E as <-.
  - destruct (random_mod _ s) as [[c r]| | | | |] eqn:R; cbn [bind fst snd]; try discriminate.
    destruct (draw_coins k (S i) n r) as [[cs0 s0]| | | | |] eqn:D; cbn [bind fst snd]; try discriminate.
    intros E. injection E as <- <-. cbn [fy_coins].
    destruct (swap_idx pi i _) as [pi1| | | | |] eqn:Sw; try discriminate. cbn [bind]. intros F. eapply IH; eassumption.
Qed.

Lemma draw_coins_admissible n : forall k i s cs s', draw_coins k i n s = Ret (cs, s') -> admissible k i n cs.
Proof.
  induction k as [|k IH]; intros i s cs s'; cbn [draw_coins].
  - intros E. injection E as <- <-. exact I.
  - destruct (random_mod _ s) as [[c r]| | | | |] eqn:R; cbn [bind fst snd]; try discriminate.
    destruct (draw_coins k (S i) n r) as [[cs0 s0]| | | | |] eqn:D; cbn [bind fst snd]; try discriminate.
    intros E. injection E as <- <-. cbn. apply random_mod_range in R. apply IH in D. tauto.
Qed.

(* ---- the pure algorithm ---------------------------------------------------------------------------------------- *)
Lemma fy_coins_keeps : forall k i pi cs r, fy_coins k i pi cs = Some r ->
  length r = length pi /\ Permutation pi r /\ forall p, (p < i)%nat -> nth_error r p = nth_error pi p.
Proof.
  induction k as [|k IH]; intros i pi [|c cs] r; cbn [fy_coins]; try discriminate.
  - intros E. injection E as <-. auto.
  - destruct (swap_idx pi i _) as [pi1| | | | |] eqn:Sw; try discriminate. intros E. apply IH in E.
    destruct E as (L & P & K). pose proof (swap_idx_perm _ _ _ _ Sw) as P1. apply swap_idx_nth in Sw. destruct Sw as (L1 & _ & _ & T).
    split; [congruence|]. split; [eapply Permutation_trans; eassumption|].
    intros p Hp. rewrite K by lia. rewrite T. unfold transp.
    destruct (Nat.eqb_spec p i); [lia|]. destruct (Nat.eqb_spec p (i + N.to_nat c)); [lia | reflexivity].
Qed.

Lemma fy_coins_total n : forall k i pi cs, length pi = n -> (i + k + 1 = n)%nat -> admissible k i n cs ->
  exists r, fy_coins k i pi cs = Some r.
Proof.
  induction k as [|k IH]; intros i pi [|c cs] L Hk A; cbn [admissible] in A; try contradiction; cbn [fy_coins].
  - eauto.
  - destruct A as (Hc & A). destruct (swap_idx_total pi i (i + N.to_nat c)) as (pi1 & Sw); try lia.
    rewrite Sw. apply IH; [|lia|assumption]. apply swap_idx_nth in Sw. destruct Sw as (L1 & _). congruence.
Qed.

(* different admissible coin vectors give different results (the array has no repeated entries) *)
Theorem fy_coins_inj n : forall k i pi cs cs' r, NoDup pi -> length pi = n -> (i + k + 1 = n)%nat ->
  admissible k i n cs -> admissible k i n cs' -> fy_coins k i pi cs = Some r -> fy_coins k i pi cs' = Some r -> cs = cs'.
Proof.
  induction k as [|k IH]; intros i pi [|c cs] [|c' cs'] r ND L Hk A A'; cbn [admissible] in A, A'; try contradiction;
    [reflexivity|]. cbn [fy_coins].
  destruct A as (Hc & A). destruct A' as (Hc' & A').
  destruct (swap_idx pi i (i + N.to_nat c)) as [pi1| | | | |] eqn:Sw; try discriminate.
  destruct (swap_idx pi i (i + N.to_nat c')) as [pi1'| | | | |] eqn:Sw'; try discriminate.
  intros F F'.
  pose proof (fy_coins_keeps _ _ _ _ _ F) as (_ & _ & K). pose proof (fy_coins_keeps _ _ _ _ _ F') as (_ & _ & K').
  pose proof (swap_idx_nth _ _ _ _ Sw) as (L1 & _ & _ & T). pose proof (swap_idx_nth _ _ _ _ Sw') as (L1' & _ & _ & T').
  assert (E : nth_error pi (i + N.to_nat c) = nth_error pi (i + N.to_nat c')).
  { specialize (K i ltac:(lia)). specialize (K' i ltac:(lia)). rewrite T in K. rewrite T' in K'.
    unfold transp in K, K'. rewrite Nat.eqb_refl in K, K'. congruence. }
  apply (proj1 (NoDup_nth_error pi) ND) in E; [|lia].
  assert (c = c') by lia. subst c'. rewrite Sw in Sw'. injection Sw' as <-.
  f_equal. eapply (IH (S i) pi1); try eassumption; try lia.
  eapply Permutation_NoDup; [eapply swap_idx_perm; exact Sw | exact ND].
Qed.

(* ---- the domain: n! coin vectors ---------------------------------------------------------------------------- *)
Lemma all_coins_in n : forall k i cs, In cs (all_coins k i n) <-> admissible k i n cs.
Proof.
  induction k as [|k IH]; intros i cs; cbn [all_coins admissible].
  - destruct cs; cbn; intuition; discriminate.
  - rewrite in_flat_map. split.
    + intros (c & Hc & Hin). apply in_map_iff in Hin. destruct Hin as (t & <- & Ht). apply in_iota in Hc. apply IH in Ht. auto.
    + destruct cs as [|c t]; [tauto|]. intros (Hc & A). exists c. split; [now apply in_iota|]. apply in_map. now apply IH.
Qed.

Lemma NoDup_app_intro {A} (a b : list A) : NoDup a -> NoDup b -> (forall x, In x a -> ~ In x b) -> NoDup (a ++ b).
Proof.
  induction a as [|x a IH]; intros Na Nb D; [exact Nb|]. inversion Na; subst. cbn. constructor.
  - rewrite in_app_iff. intros [H|H]; [contradiction|]. apply (D x); [now left | assumption].
  - apply IH; auto. intros y Hy. apply D. now right.
Qed.

Lemma NoDup_cons_product {A} (xs : list A) (L : list (list A)) : NoDup xs -> NoDup L ->
  NoDup (flat_map (fun c => map (cons c) L) xs).
Proof.
  intros Nx NL. induction Nx as [|x xs Hx Nx IH]; [constructor|]. cbn. apply NoDup_app_intro.
  - apply Injective_map_NoDup; [|assumption]. intros a b E. now injection E.
  - exact IH.
  - intros l Hl Hl'. apply in_map_iff in Hl. destruct Hl as (t & <- & _).
    apply in_flat_map in Hl'. destruct Hl' as (c & Hc & Hin). apply in_map_iff in Hin. destruct Hin as (t' & E & _).
    injection E as -> _. contradiction.
Qed.

Lemma all_coins_NoDup n : forall k i, NoDup (all_coins k i n).
Proof.
  induction k as [|k IH]; intros i; cbn [all_coins]; [repeat constructor; auto|].
  apply NoDup_cons_product; [apply NoDup_iota | apply IH].
Qed.

Lemma length_cons_product {A} (xs : list A) (L : list (list A)) :
  length (flat_map (fun c => map (cons c) L) xs) = (length xs * length L)%nat.
Proof. induction xs as [|x xs IH]; [reflexivity|]. cbn. rewrite app_length, map_length, IH. reflexivity. Qed.

Lemma all_coins_length n : forall k i, (i + k + 1 = n)%nat -> length (all_coins k i n) = fact (n - i).
Proof.
  induction k as [|k IH]; intros i Hk; cbn [all_coins].
  - replace (n - i)%nat with 1%nat by lia. reflexivity.
  - rewrite length_cons_product, iota_length, IH by lia.
    replace (n - i)%nat with (S (n - S i)) at 2 by lia. cbn [fact]. replace (n - i)%nat with (S (n - S i)) by lia. reflexivity.
Qed.

Lemma NoDup_map_inj_in {A B} (f : A -> B) (l : list A) :
  NoDup l -> (forall x y, In x l -> In y l -> f x = f y -> x = y) -> NoDup (map f l).
Proof.
  induction 1 as [|x l Hx Nl IH]; intros Inj; [constructor|]. cbn. constructor.
  - intros Hin. apply in_map_iff in Hin. destruct Hin as (y & E & Hy).
    assert (y = x) by (apply Inj; [now right | now left | assumption]). subst. contradiction.
  - apply IH. intros a b Ha Hb. apply Inj; now right.
Qed.

(* uniform independent coins give the uniform distribution on the n! results:
   the n! admissible coin vectors are mapped injectively to permutations of 0..n-1 *)
Theorem fisher_yates_uniform n : (1 <= n)%nat ->
  let dom := all_coins (n - 1) 0 n in
  length dom = fact n /\ NoDup dom /\ (forall cs, In cs dom <-> admissible (n - 1) 0 n cs) /\
  (forall cs, In cs dom -> exists pi, fisher_yates n cs = Some pi /\ Permutation (iota n) pi) /\
  (forall cs cs', In cs dom -> In cs' dom -> fisher_yates n cs = fisher_yates n cs' -> cs = cs') /\
  NoDup (map (fisher_yates n) dom) /\ length (map (fisher_yates n) dom) = fact n.
Proof.
  intros Hn dom.
  assert (Hlen : length dom = fact n).
  { unfold dom. rewrite all_coins_length by lia. now rewrite Nat.sub_0_r. }
  assert (Hinj : forall cs cs', In cs dom -> In cs' dom -> fisher_yates n cs = fisher_yates n cs' -> cs = cs').
  { intros cs cs' Hc Hc' E. apply all_coins_in in Hc, Hc'. unfold fisher_yates in E.
    destruct (fy_coins_total n (n - 1) 0 (iota n) cs (iota_length n) ltac:(lia) Hc) as (r & F).
    eapply (fy_coins_inj n (n - 1) 0 (iota n)); try eassumption; try lia.
    - apply NoDup_iota.
    - apply iota_length.
    - congruence. }
  split; [exact Hlen|]. split; [apply all_coins_NoDup|]. split; [apply all_coins_in|]. split.
  - intros cs Hc. apply all_coins_in in Hc.
    destruct (fy_coins_total n (n - 1) 0 (iota n) cs (iota_length n) ltac:(lia) Hc) as (r & F).
    exists r. split; [exact F|]. apply fy_coins_keeps in F. tauto.
  - split; [exact Hinj|]. split; [apply NoDup_map_inj_in; [apply all_coins_NoDup | exact Hinj] | now rewrite map_length].
Qed.

(* what the real generator returns is the pure algorithm applied to the coins the sampler delivered *)
Theorem random_permutation_fast_coins n s pi s' : random_permutation_fast n s = Ret (pi, s') ->
  exists cs, draw_coins (n - 1) 0 n s = Ret (cs, s') /\ admissible (n - 1) 0 n cs /\ fisher_yates n cs = Some pi.
Proof.
  destruct n; cbn [random_permutation_fast]; [discriminate|]. intros E. apply fy_loop_coins in E.
  unfold fisher_yates. replace (S n - 1)%nat with n by lia. exact E.
Qed.

(* ---- surjectivity: every permutation of 0..n-1 is produced by (exactly one) admissible coin vector ---------- *)
Lemma perm_agree_prefix {A} : forall (l l' : list A) m, Permutation l l' -> length l = S m ->
  (forall p, (p < m)%nat -> nth_error l p = nth_error l' p) -> l = l'.
Proof.
  induction l as [|x t IH]; intros l' m P L H; [discriminate|].
  destruct l' as [|x' t']; [apply Permutation_sym, Permutation_nil in P; discriminate|].
  destruct m as [|m].
  - destruct t; [|discriminate]. apply Permutation_length_1_inv in P. now symmetry.
  - pose proof (H O ltac:(lia)) as H0. cbn in H0. injection H0 as <-.
    f_equal. apply (IH t' m).
    + eapply Permutation_cons_inv. exact P.
    + cbn in L. lia.
    + intros p Hp. apply (H (S p)). lia.
Qed.

Theorem fy_coins_surj n : forall k i pi target, length pi = n -> (i + k + 1 = n)%nat -> NoDup pi -> Permutation pi target ->
  (forall p, (p < i)%nat -> nth_error target p = nth_error pi p) ->
  exists cs, admissible k i n cs /\ fy_coins k i pi cs = Some target.
Proof.
  induction k as [|k IH]; intros i pi target L Hk ND P Hpre.
  - exists []. split; [exact I|]. cbn. f_equal. apply (perm_agree_prefix pi target i P); [lia|].
    intros p Hp. symmetry. now apply Hpre.
  - assert (Lt : length target = n) by (apply Permutation_length in P; congruence).
    assert (NDt : NoDup target) by (eapply Permutation_NoDup; eassumption).
    destruct (nth_error target i) as [y|] eqn:Ey; [|apply nth_error_None in Ey; lia].
    assert (Hy : In y pi) by (eapply Permutation_in; [apply Permutation_sym; exact P | eapply nth_error_In; exact Ey]).
    apply In_nth_error in Hy. destruct Hy as (j & Ej).
    assert (Lj : (j < n)%nat) by (rewrite <- L; apply nth_error_Some; congruence).
    assert (Hj : (i <= j)%nat).
    { destruct (le_lt_dec i j) as [|Hlt]; [assumption|]. exfalso.
      pose proof (Hpre j Hlt) as E. rewrite Ej, <- Ey in E.
      apply (proj1 (NoDup_nth_error target) NDt) in E; lia. }
    destruct (swap_idx_total pi i j ltac:(lia) ltac:(lia)) as (pi1 & Sw).
    pose proof (swap_idx_perm _ _ _ _ Sw) as P1. pose proof (swap_idx_nth _ _ _ _ Sw) as (L1 & _ & _ & T).
    destruct (IH (S i) pi1 target) as (cs & A & F); try lia.
    + eapply Permutation_NoDup; eassumption.
    + eapply Permutation_trans; [apply Permutation_sym; exact P1 | exact P].
    + intros p Hp. rewrite T. unfold transp. destruct (Nat.eqb_spec p i) as [->|NE].
      * congruence.
      * destruct (Nat.eqb_spec p j); [lia|]. apply Hpre. lia.
    + exists (N.of_nat (j - i) :: cs). split.
      * cbn [admissible]. split; [lia | exact A].
      * cbn [fy_coins]. replace (i + N.to_nat (N.of_nat (j - i)))%nat with j by lia. now rewrite Sw.
Qed.

Theorem fisher_yates_surj n target : (1 <= n)%nat -> Permutation (iota n) target ->
  exists cs, admissible (n - 1) 0 n cs /\ fisher_yates n cs = Some target.
Proof.
  intros Hn P. apply fy_coins_surj; try assumption.
  - apply iota_length.
  - lia.
  - apply NoDup_iota.
  - intros p Hp. lia.
Qed.
