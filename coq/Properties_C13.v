(* C13 -- Point-to-point channels deliver intact, in order, exactly once.
   Property theorems only: each is closed by `exact <lemma>` and followed by Print Assumptions.
   The model (AioModel.v) is one link of aiounicast_select / aiounicast_nonblock; MAC and cipher are the record P : prims,
   idealised by prims_ok P (MAC has fixed length; decrypt inverts encrypt on a handle with the same history; the cipher
   is length preserving).  Unforgeability appears as the premise `no_forgery` about the byte stream under attack. *)
From Coq Require Import ZArith NArith List Bool Lia.
From LT Require Import gen_Consts CodecModel AioModel AioLemmas AioRoundtrip AioIntegrity AioProgress AioTheorems.
Import ListNotations.
Local Open Scope Z_scope.

(* however the transport splits, coalesces or delays the byte stream and whenever Receive is called: what has been
   delivered, followed by what the receiver state and the unread bytes still mean, is what the concatenated stream means *)
Theorem C13_frag_invariance : forall P c nonce evs os st pipe, (0 < blklen P)%nat ->
  run P c nonce rstate0 [] evs = (os, st, pipe) ->
  stream_deliveries P c nonce rstate0 (fed evs) = delivered os ++ stream_deliveries P c nonce st pipe.
Proof. exact frag_invariance. Qed.
Print Assumptions C13_frag_invariance.

Theorem C13_frag_same_stream : forall P c nonce evs1 evs2 os1 st1 p1 os2 st2 p2, (0 < blklen P)%nat ->
  fed evs1 = fed evs2 ->
  run P c nonce rstate0 [] evs1 = (os1, st1, p1) -> run P c nonce rstate0 [] evs2 = (os2, st2, p2) ->
  delivered os1 ++ stream_deliveries P c nonce st1 p1 = delivered os2 ++ stream_deliveries P c nonce st2 p2.
Proof. exact frag_same_stream. Qed.
Print Assumptions C13_frag_same_stream.

(* every sequence of integers accepted for sending (send_all = Some ...: Send returned true for each), every mode
   {auth} x {encr} x {chunked} x {select, nonblock}, every fragmentation and call schedule: delivered so far ++ still
   to come = the sequence sent -- unchanged, in order, exactly once *)
Theorem C13_channel_roundtrip : forall P c iv ms w sst evs os st pipe,
  prims_ok P -> length iv = blklen P ->
  send_all P c iv (sstate0 c iv) ms = Some (w, sst) ->
  fed evs = w ->
  run P c iv rstate0 [] evs = (os, st, pipe) ->
  delivered os ++ stream_deliveries P c iv st pipe = ms.
Proof. exact channel_roundtrip. Qed.
Print Assumptions C13_channel_roundtrip.

(* ... and when the receiver has read everything and holds no complete record, all of them HAVE been delivered *)
Theorem C13_roundtrip_complete : forall P c iv ms w sst evs os st,
  prims_ok P -> length iv = blklen P ->
  send_all P c iv (sstate0 c iv) ms = Some (w, sst) ->
  fed evs = w ->
  run P c iv rstate0 [] evs = (os, st, []) ->
  first_record (eff_maclen P c) (r_buf st) = None ->
  delivered os = ms.
Proof. exact roundtrip_complete. Qed.
Print Assumptions C13_roundtrip_complete.

(* progress: keep calling Receive -- after more than mu = 3|pipe| + |buf| + flag further calls nothing is left undelivered,
   unless the receive buffer is full of bytes without a complete record while more wait ("read buffer exceeded") *)
Theorem C13_eventually_settled : forall P c nonce evs os st pipe n os2 st2 p2, (0 < blklen P)%nat ->
  run P c nonce rstate0 [] evs = (os, st, pipe) ->
  (mu st pipe < n)%nat ->
  run P c nonce st pipe (repeat Call n) = (os2, st2, p2) ->
  stream_deliveries P c nonce st2 p2 = [] \/ stuck st2 p2.
Proof. exact eventually_settled. Qed.
Print Assumptions C13_eventually_settled.

(* ... hence every accepted sequence IS delivered completely, exactly once, in order, after any fragmentation *)
Theorem C13_roundtrip_eventually : forall P c iv ms w sst evs os st pipe n os2 st2 p2,
  prims_ok P -> length iv = blklen P ->
  send_all P c iv (sstate0 c iv) ms = Some (w, sst) ->
  fed evs = w ->
  run P c iv rstate0 [] evs = (os, st, pipe) ->
  (mu st pipe < n)%nat ->
  run P c iv st pipe (repeat Call n) = (os2, st2, p2) ->
  delivered os ++ delivered os2 = ms \/ stuck st2 p2.
Proof. exact roundtrip_eventually. Qed.
Print Assumptions C13_roundtrip_eventually.

Theorem C13_stream_roundtrip : forall P c iv ms w sst,
  prims_ok P -> length iv = blklen P ->
  send_all P c iv (sstate0 c iv) ms = Some (w, sst) ->
  stream_deliveries P c iv rstate0 w = ms.
Proof. exact stream_roundtrip. Qed.
Print Assumptions C13_stream_roundtrip.

(* a negative integer cannot be represented with the length-hiding offset: Send refuses it on an encrypted link
   (None = returns false, nothing on the wire, sender state unchanged; /repo a02a2e8) -- so every integer ACCEPTED there
   is non-negative and the round-trip theorems above need no sign premise *)
Theorem C13_negative_encrypted_refused : forall P c iv st m, encr c = true -> m < 0 -> send P c iv st m = None.
Proof. exact negative_encrypted_refused. Qed.
Print Assumptions C13_negative_encrypted_refused.

Theorem C13_accepted_nonnegative : forall P c iv ms st w st', encr c = true ->
  send_all P c iv st ms = Some (w, st') -> Forall (fun m => 0 <= m) ms.
Proof. exact accepted_nonnegative. Qed.
Print Assumptions C13_accepted_nonnegative.

(* a delivery under authentication needs the tag MAC(line || newline || sequence number) on the wire *)
Theorem C13_accept_needs_tag : forall P c nonce k line tag m k', auth c = true ->
  process_record P c nonce k line tag = (Deliver m, k') ->
  tag = mac P (line ++ c_nl :: encode62 (k_sqn k)).
Proof. exact accept_needs_tag. Qed.
Print Assumptions C13_accept_needs_tag.

(* line || newline || number determines the line and the number (the MAC input binds the sequence number) *)
Theorem C13_mac_input_injective : forall a b x y, Forall (fun c => c <> c_nl) a -> Forall (fun c => c <> c_nl) b ->
  a ++ c_nl :: x = b ++ c_nl :: y -> a = b /\ x = y.
Proof. exact app_nl_inj. Qed.
Print Assumptions C13_mac_input_injective.

(* integrity, every mode with authentication: for ANY bytes s behind the IV that contain no MAC forgery (no_forgery:
   every (line, tag) in s whose tag verifies for some sequence number was computed by the sender for that number),
   and any schedule, the values delivered are a prefix of the values sent: nothing modified, inserted, replayed,
   reordered, and nothing delivered after a removed message.  The IV of a CFB link must be intact (it is not covered by
   the MAC, see C13_iv_tamper in docs/C13.md); on a CTR link any block may stand in its place. *)
Theorem C13_channel_integrity : forall P c iv iv' ms recs s evs os st pipe,
  prims_ok P -> length iv = blklen P -> length iv' = blklen P -> (ctr_mode c = false -> iv' = iv) ->
  auth c = true ->
  trace P c iv (sstate0 c iv) ms recs -> no_forgery P 1 recs s ->
  fed evs = (if encr c then iv' else []) ++ s ->
  run P c iv rstate0 [] evs = (os, st, pipe) ->
  delivered os = firstn (length (delivered os)) ms.
Proof. exact channel_integrity. Qed.
Print Assumptions C13_channel_integrity.

Theorem C13_stream_integrity : forall P c iv iv' ms recs s,
  prims_ok P -> length iv = blklen P -> length iv' = blklen P -> (ctr_mode c = false -> iv' = iv) ->
  auth c = true ->
  trace P c iv (sstate0 c iv) ms recs -> no_forgery P 1 recs s ->
  exists n, stream_deliveries P c iv rstate0 ((if encr c then iv' else []) ++ s) = firstn n ms.
Proof. exact stream_integrity. Qed.
Print Assumptions C13_stream_integrity.

(* the trace premise is satisfiable for every accepted session *)
Theorem C13_trace_exists : forall P c iv, prims_ok P -> forall ms st w st', 0 <= s_chunk st ->
  send_all P c iv st ms = Some (w, st') -> exists recs, trace P c iv st ms recs.
Proof. exact trace_exists. Qed.
Print Assumptions C13_trace_exists.

(* ---- non-vacuity: primitives meeting prims_ok, accepted sessions in the modes, a complete run ------------------ *)
Definition toy_key (h : chist) : N :=     (* depends on the most recent operation only, like a CFB register *)
  match h with
  | OpIV x :: _ | OpCtr x :: _ | OpData x :: _ => (fold_left N.add x 1) mod 256
  | [] => 1
  end%N.
Definition toyP : prims :=
  {| maclen := 2; mac := fun x => [(N.of_nat (length x)) mod 256; (fold_left N.add x 7) mod 256]%N; blklen := 2;
     c_enc := fun h p => map (fun b => if (b <? 256)%N then ((b + toy_key h) mod 256)%N else b) p;
     c_dec := fun h p => map (fun b => if (b <? 256)%N then ((b + 256 - toy_key h) mod 256)%N else b) p |}.

Example C13_nonvacuous_prims : prims_ok toyP.
Proof.
  assert (K : forall h, (toy_key h < 256)%N).
  { intros h. unfold toy_key. destruct h as [|[x|x|x] r]; try (apply N.mod_lt; discriminate). reflexivity. }
  constructor.
  - cbn. lia.
  - reflexivity.
  - intros h p F. cbn [toyP c_enc c_dec]. rewrite map_map. rewrite <- (map_id p) at 2. apply map_ext_in.
    intros b Hb. unfold isbytes in F. rewrite Forall_forall in F. specialize (F b Hb). specialize (K h).
    destruct (N.ltb_spec b 256); [|lia].
    destruct (N.ltb_spec ((b + toy_key h) mod 256) 256) as [_|X]; [|pose proof (N.mod_lt (b + toy_key h) 256); lia].
    destruct (N.ltb_spec (b + toy_key h) 256).
    + rewrite (N.mod_small (b + toy_key h)) by assumption.
      replace (b + toy_key h + 256 - toy_key h)%N with (b + 1 * 256)%N by lia.
      rewrite N.mod_add by discriminate. now apply N.mod_small.
    + replace ((b + toy_key h) mod 256)%N with (b + toy_key h - 256)%N
        by (apply N.mod_unique with 1%N; lia).
      replace (b + toy_key h - 256 + 256 - toy_key h)%N with b by lia. now apply N.mod_small.
  - intros h p. cbn. apply map_length.
  - intros h p F. cbn [toyP c_enc]. unfold isbytes in *. rewrite Forall_forall in *. intros x Hx.
    apply in_map_iff in Hx. destruct Hx as [b [<- Hb]]. specialize (F b Hb).
    destruct (N.ltb_spec b 256); [apply N.mod_lt; discriminate|lia].
Qed.

Definition cfg_of (a e ch nb : bool) : cfg := {| auth := a; encr := e; chunked := ch; nonblock := nb |}.
Definition toy_wire (c : cfg) (ms : list Z) : bytes :=
  match send_all toyP c [3; 9]%N (sstate0 c [3; 9]%N) ms with Some (w, _) => w | None => [] end.
Definition toy_msgs : list Z := [0; 5; 2 ^ 256; 4242424242].

(* the sessions are accepted in stream, chunked and nonblock modes with authentication and encryption ... *)
Example C13_nonvacuous_accept :
  forall c, In c [cfg_of true true false false; cfg_of true true true false; cfg_of true true true true; cfg_of true false false false] ->
  exists w sst, send_all toyP c [3; 9]%N (sstate0 c [3; 9]%N) toy_msgs = Some (w, sst).
Proof. intros c H. cbn [In] in H. destruct H as [<-|[<-|[<-|[<-|[]]]]]; vm_compute; eauto. Qed.

(* ... and a schedule that splits inside the IV and inside a tag delivers them all and ends settled *)
Example C13_example_run :
  forall c, In c [cfg_of true true false false; cfg_of true true true false; cfg_of false true false true; cfg_of true false false false] ->
  let w := toy_wire c toy_msgs in
  let '(os, st, pipe) := run toyP c [3; 9]%N rstate0 []
         ([Feed (firstn 1 w); Call; Call; Feed (firstn 60 (skipn 1 w)); Call; Call; Feed (skipn 61 w)] ++ repeat Call 12) in
  delivered os = toy_msgs /\ pipe = [] /\ r_buf st = [].
Proof. intros c H. cbn [In] in H. destruct H as [<-|[<-|[<-|[<-|[]]]]]; vm_compute; auto. Qed.

(* negative integers are accepted and delivered on a link without encryption, refused with it *)
Example C13_negative_plain_accepted :
  let c := cfg_of true false false false in
  delivered (fst (fst (run toyP c [3; 9]%N rstate0 [] ([Feed (toy_wire c [-5; 7])] ++ repeat Call 6)))) = [-5; 7].
Proof. vm_compute. reflexivity. Qed.
Example C13_negative_encrypted_refused_example :
  send toyP (cfg_of true true false false) [3; 9]%N (sstate0 (cfg_of true true false false) [3; 9]%N) (-5) = None.
Proof. vm_compute. reflexivity. Qed.
