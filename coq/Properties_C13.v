(* C13 -- Point-to-point channels deliver intact, in order, exactly once.
   Property theorems only: each is closed by `exact <lemma>` and followed by Print Assumptions.
   The model (AioModel.v) is one link of aiounicast_select / aiounicast_nonblock; MAC and cipher are the record P : prims,
   idealised by prims_ok P (MAC has fixed length; decrypt inverts encrypt on a handle with the same history; the cipher
   is length preserving).  Unforgeability appears as the premise `no_forgery` about the byte stream under attack. *)
From Coq Require Import ZArith NArith List Bool Lia.
From LT Require Import gen_Consts CodecModel AioModel AioLemmas AioRoundtrip AioIntegrity AioProgress AioFits AioTheorems AioToy.
Import ListNotations.
Local Open Scope Z_scope.

(* however the transport splits, coalesces or delays the byte stream and whenever Receive is called: what has been
   delivered, followed by what the receiver state and the unread bytes still mean, is what the concatenated stream means *)
Theorem C13_frag_invariance : forall P c nonce evs os st pipe, (0 < blklen P)%nat ->
  run P c nonce rstate0 [] evs = (os, st, pipe) ->
  stream_deliveries P c nonce rstate0 (fed evs) = delivered os ++ stream_deliveries P c nonce st pipe.
Proof. exact frag_invariance. Qed.
Print Assumptions C13_frag_invariance.

Theorem C13_frag_same_stream : forall P c nonce evs1 evs2 os1 st1 p1 os2 st2 p2, (0 < blklen P)%nat ->
  fed evs1 = fed evs2 ->
  run P c nonce rstate0 [] evs1 = (os1, st1, p1) -> run P c nonce rstate0 [] evs2 = (os2, st2, p2) ->
  delivered os1 ++ stream_deliveries P c nonce st1 p1 = delivered os2 ++ stream_deliveries P c nonce st2 p2.
Proof. exact frag_same_stream. Qed.
Print Assumptions C13_frag_same_stream.

(* every sequence of integers accepted for sending (send_all = Some ...: Send returned true for each), every mode
   {auth} x {encr} x {chunked} x {select, nonblock}, every fragmentation and call schedule: delivered so far ++ still
   to come = the sequence sent -- unchanged, in order, exactly once *)
Theorem C13_channel_roundtrip : forall P c iv ms w sst evs os st pipe,
  prims_ok P -> length iv = blklen P ->
  send_all P c iv (sstate0 c iv) ms = Some (w, sst) ->
  fed evs = w ->
  run P c iv rstate0 [] evs = (os, st, pipe) ->
  delivered os ++ stream_deliveries P c iv st pipe = ms.
Proof. exact channel_roundtrip. Qed.
Print Assumptions C13_channel_roundtrip.

(* ... and when the receiver has read everything and holds no complete record, all of them HAVE been delivered *)
Theorem C13_roundtrip_complete : forall P c iv ms w sst evs os st,
  prims_ok P -> length iv = blklen P ->
  send_all P c iv (sstate0 c iv) ms = Some (w, sst) ->
  fed evs = w ->
  run P c iv rstate0 [] evs = (os, st, []) ->
  first_record (eff_maclen P c) (r_buf st) = None ->
  delivered os = ms.
Proof. exact roundtrip_complete. Qed.
Print Assumptions C13_roundtrip_complete.

(* progress: keep calling Receive -- after more than mu = 3|pipe| + |buf| + flag further calls nothing is left undelivered,
   unless the receive buffer is full of bytes without a complete record while more wait ("read buffer exceeded") *)
Theorem C13_eventually_settled : forall P c nonce evs os st pipe n os2 st2 p2, (0 < blklen P)%nat ->
  run P c nonce rstate0 [] evs = (os, st, pipe) ->
  (mu st pipe < n)%nat ->
  run P c nonce st pipe (repeat Call n) = (os2, st2, p2) ->
  stream_deliveries P c nonce st2 p2 = [] \/ stuck P c st2 p2.
Proof. exact eventually_settled. Qed.
Print Assumptions C13_eventually_settled.

(* an honest stream never gets there: every record an accepted Send writes is at most rec_bound P bytes
   (Send refuses integers with 2*size >= buf_in_size; 3465 <= 4096 for HMAC-SHA256 / AES), so the bytes buffered without a
   complete record are always a proper prefix of one record -- link_fits P is the numeric side condition *)
Theorem C13_record_fits : forall P c iv,
  (forall x, length (mac P x) = maclen P) -> (forall h p, length (c_enc P h p) = length p) ->
  (forall h p, isbytes p -> isbytes (c_enc P h p)) ->
  forall st m w st', 0 <= s_chunk st -> send P c iv st m = Some (w, st') ->
  blen w <= (if encr c && negb (s_iv_sent st) then blen iv else 0) + rec_bound P.
Proof. exact send_len. Qed.
Print Assumptions C13_record_fits.

Theorem C13_honest_never_stuck : forall P c iv ms w sst evs os st pipe,
  prims_ok P -> link_fits P -> length iv = blklen P ->
  send_all P c iv (sstate0 c iv) ms = Some (w, sst) ->
  fed evs = w ->
  run P c iv rstate0 [] evs = (os, st, pipe) ->
  ~ stuck P c st pipe.
Proof. exact honest_never_stuck. Qed.
Print Assumptions C13_honest_never_stuck.

(* ... hence every accepted sequence IS delivered: completely, exactly once, in order, after any fragmentation and any
   call pattern, once Receive has been called more than mu times after the last byte arrived *)
Theorem C13_roundtrip_eventually : forall P c iv ms w sst evs os st pipe n os2 st2 p2,
  prims_ok P -> link_fits P -> length iv = blklen P ->
  send_all P c iv (sstate0 c iv) ms = Some (w, sst) ->
  fed evs = w ->
  run P c iv rstate0 [] evs = (os, st, pipe) ->
  (mu st pipe < n)%nat ->
  run P c iv st pipe (repeat Call n) = (os2, st2, p2) ->
  delivered os ++ delivered os2 = ms.
Proof. exact roundtrip_eventually. Qed.
Print Assumptions C13_roundtrip_eventually.

Theorem C13_stream_roundtrip : forall P c iv ms w sst,
  prims_ok P -> length iv = blklen P ->
  send_all P c iv (sstate0 c iv) ms = Some (w, sst) ->
  stream_deliveries P c iv rstate0 w = ms.
Proof. exact stream_roundtrip. Qed.
Print Assumptions C13_stream_roundtrip.

(* a negative integer cannot be represented with the length-hiding offset: Send refuses it on an encrypted link
   (None = returns false, nothing on the wire, sender state unchanged; /repo a02a2e8) -- so every integer ACCEPTED there
   is non-negative and the round-trip theorems above need no sign premise *)
Theorem C13_negative_encrypted_refused : forall P c iv st m, encr c = true -> m < 0 -> send P c iv st m = None.
Proof. exact negative_encrypted_refused. Qed.
Print Assumptions C13_negative_encrypted_refused.

Theorem C13_accepted_nonnegative : forall P c iv ms st w st', encr c = true ->
  send_all P c iv st ms = Some (w, st') -> Forall (fun m => 0 <= m) ms.
Proof. exact accepted_nonnegative. Qed.
Print Assumptions C13_accepted_nonnegative.

(* a delivery under authentication needs the tag MAC(line || newline || sequence number) on the wire *)
Theorem C13_accept_needs_tag : forall P c nonce k line tag m k', auth c = true ->
  process_record P c nonce k line tag = (Deliver m, k') ->
  tag = mac P (line ++ c_nl :: encode62 (k_sqn k)).
Proof. exact accept_needs_tag. Qed.
Print Assumptions C13_accept_needs_tag.

(* line || newline || number determines the line and the number (the MAC input binds the sequence number) *)
Theorem C13_mac_input_injective : forall a b x y, Forall (fun c => c <> c_nl) a -> Forall (fun c => c <> c_nl) b ->
  a ++ c_nl :: x = b ++ c_nl :: y -> a = b /\ x = y.
Proof. exact app_nl_inj. Qed.
Print Assumptions C13_mac_input_injective.

(* integrity, every mode with authentication: for ANY bytes s behind the IV that contain no MAC forgery (no_forgery:
   every (line, tag) in s whose tag verifies for some sequence number was computed by the sender for that number),
   and any schedule, the values delivered are a prefix of the values sent: nothing modified, inserted, replayed,
   reordered, and nothing delivered after a removed message.  The IV of a CFB link must be intact (it is not covered by
   the MAC: C13_integrity_iv_tamper_refuted below); on a CTR link any block may stand in its place. *)
Theorem C13_channel_integrity : forall P c iv iv' ms recs s evs os st pipe,
  prims_ok P -> length iv = blklen P -> length iv' = blklen P -> (ctr_mode c = false -> iv' = iv) ->
  auth c = true ->
  trace P c iv (sstate0 c iv) ms recs -> no_forgery P 1 recs s ->
  fed evs = (if encr c then iv' else []) ++ s ->
  run P c iv rstate0 [] evs = (os, st, pipe) ->
  delivered os = firstn (length (delivered os)) ms.
Proof. exact channel_integrity. Qed.
Print Assumptions C13_channel_integrity.

Theorem C13_stream_integrity : forall P c iv iv' ms recs s,
  prims_ok P -> length iv = blklen P -> length iv' = blklen P -> (ctr_mode c = false -> iv' = iv) ->
  auth c = true ->
  trace P c iv (sstate0 c iv) ms recs -> no_forgery P 1 recs s ->
  exists n, stream_deliveries P c iv rstate0 ((if encr c then iv' else []) ++ s) = firstn n ms.
Proof. exact stream_integrity. Qed.
Print Assumptions C13_stream_integrity.

(* links without encryption have no IV: integrity with no premise about one *)
Theorem C13_channel_integrity_auth_only : forall P c iv ms recs evs os st pipe,
  prims_ok P -> auth c = true -> encr c = false ->
  trace P c iv (sstate0 c iv) ms recs -> no_forgery P 1 recs (fed evs) ->
  run P c iv rstate0 [] evs = (os, st, pipe) ->
  delivered os = firstn (length (delivered os)) ms.
Proof. exact channel_integrity_auth_only. Qed.
Print Assumptions C13_channel_integrity_auth_only.

(* the 'IV intact' premise of C13_channel_integrity cannot be dropped on an encrypted stream-mode link (known finding
   tamper-iv): "only the IV block replaced, every record untouched => deliveries are a prefix of what was sent" is
   REFUTED; witness (toy cipher with a CFB-like register, sent 5,7,9, IV [3;9] -> [4;9]): delivered 7,9 -- the first
   message is dropped unnoticed, the later ones are delivered *)
Theorem C13_integrity_iv_tamper_refuted : ~ iv_free_integrity.
Proof. exact iv_tamper_refuted. Qed.
Print Assumptions C13_integrity_iv_tamper_refuted.

Theorem C13_iv_tamper_witness :
  send_all toyP toy_c [3; 9]%N (sstate0 toy_c [3; 9]%N) [5; 7; 9] <> None /\
  stream_deliveries toyP toy_c [3; 9]%N rstate0 ([3; 9]%N ++ skipn 2 toy_w) = [5; 7; 9] /\
  stream_deliveries toyP toy_c [3; 9]%N rstate0 ([4; 9]%N ++ skipn 2 toy_w) = [7; 9].
Proof. exact iv_tamper_witness. Qed.
Print Assumptions C13_iv_tamper_witness.

(* the trace premise is satisfiable for every accepted session *)
Theorem C13_trace_exists : forall P c iv, prims_ok P -> forall ms st w st', 0 <= s_chunk st ->
  send_all P c iv st ms = Some (w, st') -> exists recs, trace P c iv st ms recs.
Proof. exact trace_exists. Qed.
Print Assumptions C13_trace_exists.

(* ---- non-vacuity: primitives meeting prims_ok and link_fits (AioToy.v), accepted sessions in the modes, a complete run -- *)
Example C13_nonvacuous_prims : prims_ok toyP /\ link_fits toyP.
Proof. exact (conj toy_prims_ok toy_link_fits). Qed.
Definition toy_wire (c : cfg) (ms : list Z) : bytes :=
  match send_all toyP c [3; 9]%N (sstate0 c [3; 9]%N) ms with Some (w, _) => w | None => [] end.
Definition toy_msgs : list Z := [0; 5; 2 ^ 256; 4242424242].

(* the sessions are accepted in stream, chunked and nonblock modes with authentication and encryption ... *)
Example C13_nonvacuous_accept :
  forall c, In c [cfg_of true true false false; cfg_of true true true false; cfg_of true true true true; cfg_of true false false false] ->
  exists w sst, send_all toyP c [3; 9]%N (sstate0 c [3; 9]%N) toy_msgs = Some (w, sst).
Proof. intros c H. cbn [In] in H. destruct H as [<-|[<-|[<-|[<-|[]]]]]; vm_compute; eauto. Qed.

(* ... and a schedule that splits inside the IV and inside a tag delivers them all and ends settled *)
Example C13_example_run :
  forall c, In c [cfg_of true true false false; cfg_of true true true false; cfg_of false true false true; cfg_of true false false false] ->
  let w := toy_wire c toy_msgs in
  let '(os, st, pipe) := run toyP c [3; 9]%N rstate0 []
         ([Feed (firstn 1 w); Call; Call; Feed (firstn 60 (skipn 1 w)); Call; Call; Feed (skipn 61 w)] ++ repeat Call 12) in
  delivered os = toy_msgs /\ pipe = [] /\ r_buf st = [].
Proof. intros c H. cbn [In] in H. destruct H as [<-|[<-|[<-|[<-|[]]]]]; vm_compute; auto. Qed.

(* negative integers are accepted and delivered on a link without encryption, refused with it *)
Example C13_negative_plain_accepted :
  let c := cfg_of true false false false in
  delivered (fst (fst (run toyP c [3; 9]%N rstate0 [] ([Feed (toy_wire c [-5; 7])] ++ repeat Call 6)))) = [-5; 7].
Proof. vm_compute. reflexivity. Qed.
Example C13_negative_encrypted_refused_example :
  send toyP (cfg_of true true false false) [3; 9]%N (sstate0 (cfg_of true true false false) [3; 9]%N) (-5) = None.
Proof. vm_compute. reflexivity. Qed.
