From Coq Require Import Extraction ExtrOcamlBasic.
From LT Require Import Zbase CodecModel CheckGroupModel OtModel.
(* encode62 is extracted only because ocaml/drvcore.ml refers to the extracted type of N *)
Extraction "model.ml" encode62 choose_n_first choose_2_first choose_opt_first send_n send_2 send_opt choose_second curious is_elem.
