(* VtmfModel -- Gallina model of the discrete-log card encoding (C01): BarnettSmartVTMF_dlog (+ _GroupQR, which
   only changes how exponents are drawn) and the VTMF_Card overloads of SchindelhauerTMCG.  Definitions only.
   The powers are the C09 models of src/mpz_spowm.cc; both fixed-base tables have mpz_sizeinbase(q,2) entries
   (BarnettSmartVTMF_dlog.cc:118,143,645; _GroupQR.cc:77,104).  A thrown exception / failed assert is `inr`. *)
From Coq Require Import ZArith List Bool.
From LT Require Import Zbase PowmModel.
Import ListNotations.
Local Open Scope Z_scope.

Record group : Type := { gp : Z; gq : Z; gg : Z }.

Definition res (A : Type) : Type := (A + outcome)%type.     (* inl value | inr the exception (never Ok) *)
Definition of_outcome (o : outcome) : res Z := match o with Ok r => inl r | e => inr e end.
Definition rbind {A B} (r : res A) (f : A -> res B) : res B := match r with inl a => f a | inr e => inr e end.

Definition table_of (G : group) (base : Z) : res (list Z) :=
  match fpowm_precompute base (gp G) (bitlen (gq G)) with Some t => inl t | None => inr ThrowZeroMod end.

(* fixed-base power on the table of `base`: side-channel protected (fspowm) or plain (fpowm) *)
Definition tpow (G : group) (protect : bool) (base e : Z) : res Z :=
  rbind (table_of G base) (fun tab =>
    of_outcome (if protect then fspowm tab base e (gp G) else fpowm tab base e (gp G))).

(* BarnettSmartVTMF_dlog::IndexElement, :270-275 *)
Definition index_element_tab (G : group) (tab : list Z) (i : Z) : res Z :=
  of_outcome (fpowm_ui tab (gg G) i (gp G)).
Definition index_element (G : group) (i : Z) : res Z :=
  rbind (table_of G (gg G)) (fun tab => index_element_tab G tab i).

(* KeyGenerationProtocol_GenerateKey :277-291: h_i = g^x_i (fspowm) *)
Definition key_share (G : group) (x : Z) : res Z := tpow G true (gg G) x.

(* KeyGenerationProtocol_UpdateKey :389-391: h := h * h_j mod p, starting from the own share *)
Definition common_key (G : group) (own : Z) (others : list Z) : Z :=
  fold_left (fun h hj => (h * hj) mod gp G) others own.

(* VerifiableMaskingProtocol_Mask :899-909 with the masking value r made explicit *)
Definition mask (G : group) (h m r : Z) : res (Z * Z) :=
  rbind (tpow G true (gg G) r) (fun c1 =>
  rbind (tpow G true h r) (fun e2 => inl (c1, (e2 * m) mod gp G))).

(* VerifiableRemaskingProtocol_Remask :979-998 (TMCG_MaskCard for VTMF_Card, SchindelhauerTMCG.cc:853-859) *)
Definition remask (G : group) (h : Z) (protect : bool) (c : Z * Z) (r : Z) : res (Z * Z) :=
  rbind (tpow G protect (gg G) r) (fun e1 =>
  rbind (tpow G protect h r) (fun e2 => inl ((e1 * fst c) mod gp G, (e2 * snd c) mod gp G))).

(* d_i = c_1^x_i by the constant-time power  :1063,1075 *)
Definition dec_share (G : group) (c1 x : Z) : res Z := of_outcome (spowm c1 x (gp G)).

(* Verify_Initialize, then Verify_Update for every received share: d := d * d_j mod p  :1075,1104-1105 *)
Definition dec_accumulate (G : group) (d_own : Z) (ds : list Z) : Z :=
  fold_left (fun d dj => (d * dj) mod gp G) ds d_own.

(* Verify_Finalize :1117-1126: assert(mpz_invert) -- asserts are on in the verified build *)
Definition dec_finalize (G : group) (d c2 : Z) : res Z :=
  match invm d (gp G) with
  | Some i => inl ((i * c2) mod gp G)
  | None => inr ThrowInvert
  end.

(* TMCG_TypeOfCard(VTMF_Card) SchindelhauerTMCG.cc:1079-1099: first t < 2^w with g^t = m, else 2^w.
   The lazily filled message_space only caches index_element. *)
Fixpoint find_type (G : group) (tab : list Z) (m : Z) (n : nat) (t : Z) (sentinel : Z) : res Z :=
  match n with
  | O => inl sentinel
  | S n' => rbind (index_element_tab G tab t) (fun e => if m =? e then inl t else find_type G tab m n' (t + 1) sentinel)
  end.

(* (the g-table is the member fpowm_table_g of the instance: built once) *)
Definition type_of_message (G : group) (w : nat) (m : Z) : res Z :=
  rbind (table_of G (gg G)) (fun tab => find_type G tab m (Nat.pow 2 w) 0 (2 ^ Z.of_nat w)).

(* TMCG_CreateOpenCard(VTMF_Card) :728-741 *)
Definition create_open_card (G : group) (T : Z) : res (Z * Z) :=
  rbind (index_element G T) (fun e => inl (1, e)).

(* TMCG_CreatePrivateCard(VTMF_Card) :820-831 *)
Definition create_private_card (G : group) (h T r : Z) : res (Z * Z) :=
  rbind (index_element G T) (fun e => mask G h e r).

Fixpoint remask_chain (G : group) (h : Z) (c : Z * Z) (chain : list (Z * bool)) : res (Z * Z) :=
  match chain with
  | [] => inl c
  | (r, protect) :: tl => rbind (remask G h protect c r) (fun c' => remask_chain G h c' tl)
  end.

Fixpoint map_res {A B} (f : A -> res B) (l : list A) : res (list B) :=
  match l with
  | [] => inl []
  | a :: tl => rbind (f a) (fun b => rbind (map_res f tl) (fun bs => inl (b :: bs)))
  end.

(* one complete run: k = 1 + length others players with secret keys x_own :: others; the card of type T is
   created open, masked along `chain`, and opened by the first player with the shares of the players in
   `contributing` (a sublist of `others`; all of them = the honest run) *)
Definition open_run (G : group) (w : nat) (x_own : Z) (others contributing : list Z) (T : Z)
                    (chain : list (Z * bool)) : res Z :=
  rbind (key_share G x_own) (fun h_own =>
  rbind (map_res (key_share G) others) (fun hs =>
  let h := common_key G h_own hs in
  rbind (create_open_card G T) (fun c0 =>
  rbind (remask_chain G h c0 chain) (fun c =>
  rbind (dec_share G (fst c) x_own) (fun d_own =>
  rbind (map_res (dec_share G (fst c)) contributing) (fun ds =>
  rbind (dec_finalize G (dec_accumulate G d_own ds) (snd c)) (fun m =>
  type_of_message G w m))))))).

(* ---- Verify_Update with the verdict of its checks made explicit ------------------------------------------------
   VerifiableDecryptionProtocol_Verify_Update :1086-1125: the stream is parsed, the key looked up, CheckElement and
   CP_Verify run (their verdict is the boolean; the proofs themselves are C03's subject) and ONLY THEN d := d*d_j mod p.
   A rejected update returns false and leaves d alone. *)
Definition dec_update (G : group) (d : Z) (att : Z * bool) : bool * Z :=
  if snd att then (true, (d * fst att) mod gp G) else (false, d).

Definition dec_attempts (G : group) (d_own : Z) (atts : list (Z * bool)) : Z :=
  fold_left (fun d a => snd (dec_update G d a)) atts d_own.

(* what is offered to the opener: the correct share of the player with key x (accepted), or anything else (rejected) *)
Inductive attempt : Type := Good (x : Z) | Bad (dj : Z).

Definition offer (G : group) (c1 : Z) (a : attempt) : res (Z * bool) :=
  match a with
  | Good x => rbind (dec_share G c1 x) (fun s => inl (s, true))
  | Bad dj => inl (dj, false)
  end.

Definition goods (atts : list attempt) : list Z :=
  flat_map (fun a => match a with Good x => [x] | Bad _ => [] end) atts.

(* open_run with an arbitrary interleaving of rejected and accepted update attempts *)
Definition open_run_att (G : group) (w : nat) (x_own : Z) (others : list Z) (atts : list attempt) (T : Z)
                        (chain : list (Z * bool)) : res Z :=
  rbind (key_share G x_own) (fun h_own =>
  rbind (map_res (key_share G) others) (fun hs =>
  let h := common_key G h_own hs in
  rbind (create_open_card G T) (fun c0 =>
  rbind (remask_chain G h c0 chain) (fun c =>
  rbind (dec_share G (fst c) x_own) (fun d_own =>
  rbind (map_res (offer G (fst c)) atts) (fun offered =>
  rbind (dec_finalize G (dec_attempts G d_own offered) (snd c)) (fun m =>
  type_of_message G w m))))))).
