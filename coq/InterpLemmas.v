(* InterpLemmas -- proofs about InterpModel (C09). *)
From Coq Require Import ZArith Znumtheory Lia List Bool ZifyBool.
From LT Require Import Zbase PowmModel PowmLemmas InterpModel.
Import ListNotations.
Local Open Scope Z_scope.

(* one point: the constant polynomial *)
Theorem interpolate_one (a b q : Z) : 1 < q ->
  interpolate [(a, b)] q = IpOk [b mod q] /\ peval [b mod q] a q = b mod q.
Proof.
  intros Hq. unfold interpolate. destruct (Z.eqb_spec q 0); [lia|].
  cbn [ip_loop ip_step horner fold_right snd].
  rewrite invm_1 by lia. cbn [res_add app]. rewrite Z.sub_0_r, Z.mul_1_l, Zmod_mod.
  split; [reflexivity|]. cbn [peval fold_right]. rewrite Z.mul_0_l, Z.add_0_l. apply Zmod_mod.
Qed.
