(* InterpLemmas -- proofs about InterpModel (C09): the incremental interpolation returns a polynomial through
   all points (soundness for every modulus q > 1), succeeds for pairwise distinct abscissae modulo a prime,
   and returns false when two abscissae collide. *)
From Coq Require Import ZArith Znumtheory Lia List Bool ZifyBool Setoid Morphisms.
From LT Require Import Zbase PowmModel PowmLemmas InterpModel.
Import ListNotations.
Local Open Scope Z_scope.

(* ---- congruence modulo q as a setoid -------------------------------------------------------------------- *)
Definition cong (q a b : Z) : Prop := a mod q = b mod q.

#[local] Instance cong_equiv (q : Z) : Equivalence (cong q).
Proof. split; unfold cong; [intros x; reflexivity|intros x y H; now symmetry|intros x y z H1 H2; now rewrite H1]. Qed.
#[local] Instance cong_add (q : Z) : Proper (cong q ==> cong q ==> cong q) Z.add.
Proof. intros a a' Ha b b' Hb. unfold cong in *. now rewrite Zplus_mod, Ha, Hb, <- Zplus_mod. Qed.
#[local] Instance cong_mul (q : Z) : Proper (cong q ==> cong q ==> cong q) Z.mul.
Proof. intros a a' Ha b b' Hb. unfold cong in *. now rewrite Zmult_mod, Ha, Hb, <- Zmult_mod. Qed.
#[local] Instance cong_sub (q : Z) : Proper (cong q ==> cong q ==> cong q) Z.sub.
Proof. intros a a' Ha b b' Hb. unfold cong in *. now rewrite Zminus_mod, Ha, Hb, <- Zminus_mod. Qed.
Lemma cong_mod (q a : Z) : cong q (a mod q) a.
Proof. unfold cong. apply Zmod_mod. Qed.
Lemma cong_eq (q a b : Z) : a = b -> cong q a b.
Proof. intros ->. reflexivity. Qed.
#[global] Typeclasses Opaque cong.
Global Opaque cong.

(* un-reduced evaluation: init * x^n + sum cs[i] x^i *)
Definition ev (init x : Z) (cs : list Z) : Z := fold_right (fun c t => t * x + c) init cs.

Lemma horner_ev (q init x : Z) (cs : list Z) : cong q (horner init x q cs) (ev init x cs).
Proof.
  induction cs as [|c cs IH]; cbn [horner ev fold_right]; [reflexivity|].
  fold (horner init x q cs) (ev init x cs). rewrite !cong_mod. now rewrite IH.
Qed.

Lemma peval_ev (q x : Z) (f : list Z) : cong q (peval f x q) (ev 0 x f).
Proof.
  induction f as [|c f IH]; cbn [peval ev fold_right]; [reflexivity|].
  fold (peval f x q) (ev 0 x f). rewrite cong_mod. now rewrite IH.
Qed.

Lemma ev_app_last (init x c : Z) (cs : list Z) : ev init x (cs ++ [c]) = ev (init * x + c) x cs.
Proof. unfold ev. now rewrite fold_right_app. Qed.

(* res[i] += prod[i] * c, res[k] = c *)
Lemma ev_res_add (q c x : Z) : forall res prod, length res = length prod ->
  cong q (ev c x (res_add q c res prod)) (ev 0 x res + c * ev 1 x prod).
Proof.
  induction res as [|r rt IH]; intros [|pr pt] L; cbn [length] in L; try discriminate.
  - cbn [res_add ev fold_right]. apply cong_eq. ring.
  - cbn [res_add ev fold_right]. fold (ev c x (res_add q c rt pt)) (ev 0 x rt) (ev 1 x pt).
    rewrite !cong_mod. rewrite IH by lia. apply cong_eq. ring.
Qed.

Lemma ev_pshift (q t x : Z) : forall old prev,
  cong q (ev 1 x (pshift t q prev old)) ((x + t) * ev 1 x old + prev).
Proof.
  induction old as [|c tl IH]; intros prev; cbn [pshift ev fold_right].
  - rewrite cong_mod. apply cong_eq. ring.
  - fold (ev 1 x (pshift t q c tl)) (ev 1 x tl). rewrite !cong_mod. rewrite IH. apply cong_eq. ring.
Qed.

Lemma ev_prod_next (q a x : Z) (prod : list Z) :
  cong q (ev 1 x (prod_next a q prod)) ((x - a) * ev 1 x prod).
Proof.
  destruct prod as [|c0 tl]; cbn [prod_next ev fold_right].
  - apply cong_eq. ring.
  - fold (ev 1 x (pshift (- a) q c0 tl)) (ev 1 x tl). rewrite cong_mod, ev_pshift. apply cong_eq. ring.
Qed.

Lemma res_add_length (q c : Z) : forall res prod, length res = length prod -> length (res_add q c res prod) = length res.
Proof.
  induction res as [|r rt IH]; intros [|pr pt] L; cbn [length] in L; try discriminate; [reflexivity|].
  cbn [res_add length]. now rewrite IH by lia.
Qed.

Lemma pshift_length (t q : Z) : forall old prev, length (pshift t q prev old) = S (length old).
Proof. induction old as [|c tl IH]; intros prev; cbn [pshift length]; [reflexivity|]. now rewrite IH. Qed.

Lemma prod_next_length (a q : Z) (prod : list Z) : length (prod_next a q prod) = S (length prod).
Proof. destruct prod as [|c0 tl]; cbn [prod_next length]; [reflexivity|]. now rewrite pshift_length. Qed.

(* ---- the invariant of the main loop (processed points newest first) ---------------------------------------- *)
Definition zprod (x : Z) (done : list (Z * Z)) : Z := fold_right (fun ab acc => acc * (x - fst ab)) 1 done.

Lemma zprod_zero (a b : Z) (done : list (Z * Z)) : In (a, b) done -> zprod a done = 0.
Proof.
  induction done as [|[a' b'] tl IH]; intros H; [contradiction|]. cbn [zprod fold_right fst]. fold (zprod a tl).
  destruct H as [H|H]; [inversion H; lia|]. rewrite IH by assumption. lia.
Qed.

Section Loop.
  Variable q : Z.
  Hypothesis Hq : 1 < q.

  Definition inv (done : list (Z * Z)) (st : list Z * list Z) : Prop :=
    length (fst st) = length done /\ length (snd st) = length done /\
    (forall x, cong q (ev 1 x (fst st)) (zprod x done)) /\
    (forall a b, In (a, b) done -> cong q (ev 0 a (snd st)) b).

  Lemma step_inv (done : list (Z * Z)) (st st' : list Z * list Z) (a b : Z) :
    inv done st -> ip_step q st (a, b) = Some st' -> inv ((a, b) :: done) st'.
  Proof.
    destruct st as [prod res]. intros (L1 & L2 & HP & HR) E. cbn [fst snd] in *.
    unfold ip_step in E. destruct (invm (horner 1 a q prod) q) as [i|] eqn:EI; [|discriminate].
    inversion E; subst st'; clear E. unfold inv. cbn [fst snd].
    apply invm_some in EI. destruct EI as (_ & _ & HI).
    assert (HI' : cong q (ev 1 a prod * i) 1).
    { transitivity (horner 1 a q prod * i); [now rewrite horner_ev|].
      assert (X : (horner 1 a q prod * i) mod q = 1 mod q) by exact HI.
      Transparent cong. exact X. Opaque cong. }
    split; [rewrite prod_next_length; cbn [length]; lia|].
    split; [rewrite app_length, res_add_length by lia; cbn [length]; lia|].
    split.
    - intros x. rewrite ev_prod_next. cbn [zprod fold_right fst]. fold (zprod x done). rewrite HP. apply cong_eq. ring.
    - intros a' b' [H|H].
      + inversion H; subst a' b'; clear H.
        rewrite ev_app_last, Z.mul_0_l, Z.add_0_l. rewrite ev_res_add by lia.
        rewrite !cong_mod. rewrite horner_ev.
        transitivity (ev 0 a res + (b - ev 0 a res) * (ev 1 a prod * i)); [apply cong_eq; ring|].
        rewrite HI'. apply cong_eq. ring.
      + rewrite ev_app_last, Z.mul_0_l, Z.add_0_l. rewrite ev_res_add by lia.
        rewrite HP. rewrite (zprod_zero a' b' done H). rewrite (HR a' b' H). apply cong_eq. ring.
  Qed.

  Lemma loop_inv : forall pts done st f, inv done st -> ip_loop q st pts = Some f ->
    exists prod, inv (rev pts ++ done) (prod, f).
  Proof.
    induction pts as [|[a b] tl IH]; intros done st f Hinv E; cbn [ip_loop] in E.
    - inversion E. exists (fst st). cbn [rev app]. destruct st; exact Hinv.
    - destruct (ip_step q st (a, b)) as [st'|] eqn:ES; [|discriminate].
      destruct (IH ((a, b) :: done) st' f (step_inv done st st' a b Hinv ES) E) as [prod H].
      exists prod. cbn [rev]. now rewrite <- app_assoc.
  Qed.

  Lemma inv_nil : inv [] ([], []).
  Proof.
    split; [reflexivity|]. split; [reflexivity|]. split; [intros x; reflexivity|intros a b []].
  Qed.

  (* soundness: whatever is returned passes through every point, has as many coefficients as points *)
  Theorem interpolate_sound (pts : list (Z * Z)) (f : list Z) : interpolate pts q = IpOk f ->
    length f = length pts /\ forall a b, In (a, b) pts -> peval f a q = b mod q.
  Proof.
    unfold interpolate. destruct pts as [|pt tl] eqn:EP; [discriminate|]. rewrite <- EP. clear EP pt tl.
    destruct (Z.eqb_spec q 0); [lia|].
    destruct (ip_loop q ([], []) pts) as [f'|] eqn:EL; [|discriminate].
    intros E; inversion E; subst f'; clear E.
    destruct (loop_inv pts [] ([], []) f inv_nil EL) as [prod (L1 & L2 & HP & HR)].
    rewrite app_nil_r in *. cbn [fst snd] in *. split; [now rewrite L2, rev_length|].
    intros a b Hin. specialize (HR a b (proj1 (in_rev pts (a, b)) Hin)).
    assert (C : cong q (peval f a q) b) by (now rewrite peval_ev).
    assert (R : peval f a q mod q = peval f a q).
    { destruct f as [|c f']; cbn [peval fold_right]; [apply Z.mod_0_l; lia|apply Zmod_mod]. }
    rewrite <- R. Transparent cong. exact C. Opaque cong.
  Qed.
End Loop.

(* ---- completeness for distinct abscissae modulo a prime, and the collision case ---------------------------- *)
Transparent cong.
Lemma cong_iff (q a b : Z) : cong q a b <-> a mod q = b mod q.
Proof. reflexivity. Qed.
Global Opaque cong.

Section Complete.
  Variable q : Z.
  Hypothesis Pq : prime q.
  Let Hq : 1 < q. Proof. pose proof (prime_ge_2 _ Pq). lia. Qed.

  Lemma cong_gcd (x y : Z) : cong q x y -> Z.gcd x q = Z.gcd y q.
  Proof.
    intros H. apply cong_iff in H. rename H into E.
    transitivity (Z.gcd (x mod q) q); [rewrite Z.gcd_mod by lia; apply Z.gcd_comm|].
    rewrite E. rewrite Z.gcd_mod by lia. apply Z.gcd_comm.
  Qed.

  Lemma zprod_unit (a : Z) (done : list (Z * Z)) :
    (forall a' b', In (a', b') done -> (a - a') mod q <> 0) -> Z.gcd (zprod a done) q = 1.
  Proof.
    induction done as [|[a' b'] tl IH]; intros H; cbn [zprod fold_right fst].
    - apply Z.gcd_1_l.
    - fold (zprod a tl). apply Zgcd_1_rel_prime. apply rel_prime_sym. apply rel_prime_mult.
      + apply rel_prime_sym. apply Zgcd_1_rel_prime. apply IH. intros x y Hin. apply (H x y). now right.
      + apply prime_rel_prime; [assumption|]. intros D. apply (H a' b'); [now left|].
        apply Z.mod_divide; [lia|assumption].
  Qed.

  Lemma zprod_collide (a a' b' : Z) (done : list (Z * Z)) : In (a', b') done -> (a - a') mod q = 0 ->
    cong q (zprod a done) 0.
  Proof.
    induction done as [|[x y] tl IH]; intros Hin Hc; [contradiction|]. cbn [zprod fold_right fst]. fold (zprod a tl).
    destruct Hin as [E|Hin].
    - inversion E; subst x y. assert (C : cong q (a - a') 0).
      { apply cong_iff. rewrite Hc. now rewrite Z.mod_0_l by lia. }
      rewrite C. apply cong_eq. ring.
    - rewrite (IH Hin Hc). apply cong_eq. ring.
  Qed.

  (* pairwise distinct abscissae modulo the prime q: every round finds its inverse *)
  Definition fresh (a : Z) (done : list (Z * Z)) : Prop := forall a' b', In (a', b') done -> (a - a') mod q <> 0.

  Lemma loop_complete : forall pts done st, inv q done st ->
    (forall pre a b post, pts = pre ++ (a, b) :: post -> fresh a (rev pre ++ done)) ->
    exists f, ip_loop q st pts = Some f.
  Proof.
    induction pts as [|[a b] tl IH]; intros done st Hinv Hf; cbn [ip_loop]; [eauto|].
    destruct st as [prod res].
    assert (Fa : fresh a done) by (apply (Hf [] a b tl); reflexivity).
    destruct Hinv as (L1 & L2 & HP & HR). cbn [fst snd] in *.
    assert (G : Z.gcd (horner 1 a q prod) q = 1).
    { rewrite (cong_gcd _ (zprod a done)); [now apply zprod_unit|]. rewrite horner_ev. apply HP. }
    destruct (invm_coprime (horner 1 a q prod) q ltac:(lia) G) as [i Ei].
    destruct (ip_step q (prod, res) (a, b)) as [st'|] eqn:ES.
    - apply (IH ((a, b) :: done) st').
      + apply (step_inv q done (prod, res) st' a b); [repeat split; assumption|assumption].
      + intros pre a0 b0 post E. specialize (Hf ((a, b) :: pre) a0 b0 post). cbn [app rev] in Hf.
        rewrite <- app_assoc in Hf. cbn [app] in Hf. apply Hf. now rewrite E.
    - unfold ip_step in ES. rewrite Ei in ES. discriminate.
  Qed.

  Theorem interpolate_complete (pts : list (Z * Z)) : pts <> [] ->
    (forall pre a b post, pts = pre ++ (a, b) :: post -> fresh a pre) ->
    exists f, interpolate pts q = IpOk f.
  Proof.
    intros NE Hf. unfold interpolate. destruct pts as [|pt tl] eqn:EP; [contradiction|]. rewrite <- EP in *. clear EP pt tl NE.
    destruct (Z.eqb_spec q 0); [lia|].
    destruct (loop_complete pts [] ([], []) (inv_nil q)) as [f E].
    - intros pre a b post Ep a' b' Hin. rewrite app_nil_r in Hin. apply in_rev in Hin. now apply (Hf pre a b post Ep a' b').
    - rewrite E. eauto.
  Qed.

  (* a colliding abscissa: the routine returns false *)
  Lemma loop_collision : forall pre done st a b post a' b', inv q done st ->
    In (a', b') (rev pre ++ done) -> (a - a') mod q = 0 ->
    ip_loop q st (pre ++ (a, b) :: post) = None.
  Proof.
    induction pre as [|[x y] pre IH]; intros done st a b post a' b' Hinv Hin Hc; cbn [app ip_loop].
    - cbn [rev app] in Hin. destruct st as [prod res]. destruct Hinv as (L1 & L2 & HP & HR). cbn [fst snd] in *.
      assert (G : Z.gcd (horner 1 a q prod) q <> 1).
      { rewrite (cong_gcd _ 0).
        - rewrite Z.gcd_0_l. lia.
        - rewrite horner_ev, HP. now apply (zprod_collide a a' b'). }
      apply invm_none in G; [|lia]. unfold ip_step. now rewrite G.
    - destruct (ip_step q st (x, y)) as [st'|] eqn:ES; [|reflexivity].
      apply (IH ((x, y) :: done) st' a b post a' b'); [now apply (step_inv q done st st' x y)| |assumption].
      cbn [rev] in Hin. now rewrite <- app_assoc in Hin.
  Qed.

  Theorem interpolate_collision (pre post : list (Z * Z)) (a b a' b' : Z) :
    In (a', b') pre -> (a - a') mod q = 0 -> interpolate (pre ++ (a, b) :: post) q = IpFalse.
  Proof.
    intros Hin Hc. unfold interpolate.
    destruct (pre ++ (a, b) :: post) as [|pt tl] eqn:EP; [destruct pre; discriminate|]. rewrite <- EP. clear EP pt tl.
    destruct (Z.eqb_spec q 0); [lia|].
    rewrite (loop_collision pre [] ([], []) a b post a' b' (inv_nil q)); [reflexivity| |assumption].
    rewrite app_nil_r. now apply in_rev in Hin.
  Qed.
End Complete.
