(* C12 -- Untrusted input never corrupts memory or kills the process.
   Partial by nature: these theorems cover the modelled index / length logic of the receiving side (for ALL inputs);
   memory safety of the process itself is explored by sanitizer-backed testing (harness/c12.cc).
   Property theorems only: each is closed by `exact <lemma>` and followed by Print Assumptions. *)
From Coq Require Import ZArith NArith List Lia.
From LT Require Import gen_Consts gen_Tables CodecModel PgpLenModel PgpLenLemmas PgpLenCodecLemmas.
Import ListNotations.
Local Open Scope N_scope.

(* ---- OpenPGP packet length headers: the header lies inside the input ------------------------------------- *)
Theorem C12_length_header_within : forall inp nf lt hl len part,
  packet_length_decode inp nf lt = LenOk hl len part -> (1 <= hl <= length inp)%nat /\ (hl <= 5)%nat.
Proof. exact length_decode_within. Qed.
Print Assumptions C12_length_header_within.

Theorem C12_partial_length_consumes_one : forall inp nf lt hl len,
  packet_length_decode inp nf lt = LenOk hl len true -> hl = 1%nat /\ nf = true.
Proof. exact length_decode_partial. Qed.
Print Assumptions C12_partial_length_consumes_one.

(* ---- packet framing (PacketDecode / PacketBodyExtract): consumed part is a prefix, strictly shorter rest ----- *)
Theorem C12_packet_frame_within : forall inp tag nf indet body rest cur,
  packet_decode_frame inp = FrameOk tag nf indet body rest cur ->
  cur ++ rest = inp /\ (length rest < length inp)%nat /\ (length body <= length inp)%nat.
Proof. exact frame_prefix_ok. Qed.
Print Assumptions C12_packet_frame_within.

Theorem C12_packet_frame_error_within : forall inp rest cur,
  packet_decode_frame inp = FrameErr rest cur -> cur ++ rest = inp.
Proof. exact frame_prefix_err. Qed.
Print Assumptions C12_packet_frame_error_within.

(* termination: every iteration of the partial-length loop consumes at least one octet, so length(input)+1
   iterations always suffice (the model never runs out of fuel) *)
Theorem C12_packet_frame_terminates : forall inp, packet_decode_frame inp <> FrameFuel.
Proof. exact frame_fuel_suffices. Qed.
Print Assumptions C12_packet_frame_terminates.

Theorem C12_body_extract_terminates : forall inp, packet_body_extract inp <> None.
Proof. exact body_extract_total. Qed.
Print Assumptions C12_body_extract_terminates.

Theorem C12_body_extract_bounded : forall inp r body,
  packet_body_extract inp = Some (r, body) -> (length body <= length inp)%nat.
Proof. exact body_extract_bounded. Qed.
Print Assumptions C12_body_extract_bounded.

(* ---- MPIs ------------------------------------------------------------------------------------------------------ *)
Theorem C12_mpi_within : forall inp s c v s', mpi_decode inp s = MpiOk c v s' -> (2 <= c <= length inp)%nat.
Proof. exact mpi_within. Qed.
Print Assumptions C12_mpi_within.

Theorem C12_mpi_value_fits : forall inp s c v s', Forall (fun b => b < 256) inp ->
  mpi_decode inp s = MpiOk c v s' -> v < 2 ^ (8 * N.of_nat (c - 2)).
Proof. exact mpi_value_bound. Qed.
Print Assumptions C12_mpi_value_fits.

(* ---- signature sub-packets --------------------------------------------------------------------------------------- *)
Theorem C12_subpacket_header_within : forall inp hl len crit ty,
  subpacket_header inp = SubOk hl len crit ty -> (2 <= hl <= length inp)%nat.
Proof. exact subpacket_header_inside. Qed.
Print Assumptions C12_subpacket_header_within.

(* the body slice lies inside the input -- only when headlen + len does not wrap in uint32_t *)
Theorem C12_subpacket_slice_within_partial : forall inp hl len crit ty,
  subpacket_header inp = SubOk hl len crit ty -> N.of_nat hl + len < 4294967296 -> N.of_nat hl + len <= lenN inp.
Proof. exact subpacket_within_partial. Qed.
Print Assumptions C12_subpacket_slice_within_partial.

(* the full statement is false for the code as it is: a five-octet length of 0xFFFFFFFF passes the size test *)
Theorem C12_subpacket_slice_within_refuted :
  exists inp, Forall (fun b => b < 256) inp /\ sub_slice_inside inp (subpacket_header inp) = false.
Proof. exact subpacket_within_refuted. Qed.
Print Assumptions C12_subpacket_slice_within_refuted.

(* ---- Radix-64 -------------------------------------------------------------------------------------------------------- *)
Theorem C12_radix64_index_in_table : forall b,
  not_radix64 b = false \/ b = 61 -> char_index b < N.of_nat (length src_fRadix64).
Proof. exact radix64_index_in_table. Qed.
Print Assumptions C12_radix64_index_in_table.

Theorem C12_radix64_decode_total : forall s, radix64_decode s <> None.
Proof. exact radix64_decode_total. Qed.
Print Assumptions C12_radix64_decode_total.

Theorem C12_radix64_decode_bounded : forall s o,
  radix64_decode s = Some o -> (length o <= 3 * Nat.div (length s + 3) 4)%nat.
Proof. exact radix64_decode_length. Qed.
Print Assumptions C12_radix64_decode_bounded.

(* ---- importers of cards, stacks and stack secrets: dimensions and indices of whatever was imported ------------------ *)
Theorem C12_import_card_dimensions : forall s c, import_tcard s = Some c ->
  (1 <= length c <= Z.to_nat TMCG_MAX_PLAYERS)%nat /\
  exists w, (1 <= w <= Z.to_nat TMCG_MAX_TYPEBITS)%nat /\ Forall (fun row => length row = w) c.
Proof. exact import_tcard_dims. Qed.
Print Assumptions C12_import_card_dimensions.

Theorem C12_import_stack_size : forall s st,
  import_vstack [] s = Some st -> (1 <= length st <= Z.to_nat TMCG_MAX_CARDS)%nat.
Proof. exact import_vstack_size. Qed.
Print Assumptions C12_import_stack_size.

Theorem C12_import_stacksecret_indices : forall s ss, import_vstacksecret [] s = Some ss ->
  (1 <= length ss <= Z.to_nat TMCG_MAX_CARDS)%nat /\ Forall (fun p => fst p < N.of_nat (length ss)) ss.
Proof. exact import_vstacksecret_indices. Qed.
Print Assumptions C12_import_stacksecret_indices.

(* cut-and-choose verifier: a received secret that passed the size guard indexes only inside the stacks *)
Theorem C12_mixstack_indices_in_range : forall (s : list (Z * Z)) text ss,
  import_vstacksecret [] text = Some ss -> mix_guard s ss = true -> mix_indices_ok s ss = true.
Proof. exact mix_indices_in_range. Qed.
Print Assumptions C12_mixstack_indices_in_range.

(* ... and without the guard (the tree before fix 517d04b) it does not *)
Theorem C12_mixstack_without_guard_refuted : exists (s : list (Z * Z)) text ss,
  import_vstacksecret [] text = Some ss /\ mix_guard s ss = false /\ mix_indices_ok s ss = false.
Proof. exact mix_guard_needed_refuted. Qed.
Print Assumptions C12_mixstack_without_guard_refuted.

(* ---- non-vacuity ------------------------------------------------------------------------------------------------------ *)
(* a literal-data packet (new format, tag 11) with one 512-octet partial chunk and a final chunk of 2 octets *)
Example C12_nonvacuous_partial_frame :
  exists body rest cur, packet_decode_frame ([203; 233] ++ repeat 7 512 ++ [2; 1; 2; 99]) = FrameOk 11 true false body rest cur
                        /\ length body = 514%nat /\ rest = [99].
Proof. eexists _, _, _. split; [vm_compute; reflexivity|split; reflexivity]. Qed.
Example C12_nonvacuous_mpi : mpi_decode [0; 9; 1; 255; 7] 0 = MpiOk 4 511 265.
Proof. reflexivity. Qed.
Example C12_nonvacuous_subpacket : subpacket_header [5; 130; 1; 2; 3; 4; 9] = SubOk 2 4 true 2.
Proof. reflexivity. Qed.
Example C12_nonvacuous_radix64 : radix64_decode [84; 87; 70; 117] = Some [77; 97; 110].
Proof. vm_compute. reflexivity. Qed.
Example C12_nonvacuous_stacksecret :
  import_vstacksecret [] (export_vstacksecret [(1, 7%Z); (0, 8%Z)]) = Some [(1, 7%Z); (0, 8%Z)].
Proof. vm_compute. reflexivity. Qed.
