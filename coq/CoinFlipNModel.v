(* CoinFlipNModel: the decision structure of the n-party coin flip at one party (definitions only).
     JareckiLysyanskayaRVSS::Share        JareckiLysyanskayaASTC.cc:426-804   (complaints, answers, Qual, adoption of revealed shares)
     JareckiLysyanskayaEDCF::Flip         :1110-1258                          (openings, complaints, sum over Qual)
     JareckiLysyanskayaRVSS::Reconstruct  :889-1039                           (own share first, verified shares, Lagrange at 0)
   A party's view consists of broadcast data (commitments, complaint counts, answers, openings, reconstruction shares) and of
   its private shares.  Indices are 0-based, abscissae are index + 1.  Time-outs are outside the model: a missing message is
   an input `None`. *)
From Coq Require Import ZArith List Bool.
From LT Require Import gen_Consts Zbase VssModel CoinFlipModel.
Import ListNotations.
Local Open Scope Z_scope.

(* prod_k C_k^(x^k) mod p  (…:584-591, 722-728, 951-957) *)
Fixpoint cm_prod (p : Z) (cm : list Z) (x xk : Z) : Z :=
  match cm with
  | [] => 1 mod p
  | c :: r => (powm c xk p * cm_prod p r x (xk * x)) mod p
  end.

(* does the pair (alpha, hatalpha) match the commitments at abscissa x?  (range test as at the call sites: |.| < q).
   None = an exception of the fixed-base power *)
Definition share_matches (G : group) (cm : list Z) (x : Z) (sh : Z * Z) : option bool :=
  if (Z.abs (fst sh) >=? gq G) || (Z.abs (snd sh) >=? gq G) then Some false else
  match commit G (fst sh) (snd sh) with
  | None => None
  | Some lhs => Some (lhs =? cm_prod (gp G) cm x 1)
  end.
Definition matches (G : group) (cm : list Z) (x : Z) (sh : Z * Z) : bool :=
  match share_matches G cm x sh with Some true => true | _ => false end.

(* ---- RVSS::Share: what party i knows about dealer j after the resolution phase ------------------------------------ *)
Record dealer_view := mkDealer {
  d_cm : list Z;                       (* C_jk, broadcast *)
  d_recv : option (Z * Z);             (* the private share received from j (None: receiving failed) *)
  d_ncompl : Z;                        (* number of parties that broadcast a complaint against j (own complaint included) *)
  d_answers : list (Z * (Z * Z))       (* the answers (who, alpha, hatalpha) j broadcast before its end marker *)
}.

(* own complaint against j in step 1(b): no share, out of range (replaced by 0 and complained), or check failed *)
Definition my_complaint (G : group) (i : Z) (d : dealer_view) : bool :=
  match d_recv d with
  | None => true
  | Some sh => negb (matches G (d_cm d) (i + 1) sh)
  end.

(* step 1(c) as coded: j is disqualified iff it has more than t complaints or one of its answers does not verify.
   NOTE: nothing requires that a complaint was answered at all (finding nparty-unanswered-complaint). *)
Definition dealer_qualified (G : group) (t : Z) (d : dealer_view) : bool :=
  (d_ncompl d <=? t) && forallb (fun a => matches G (d_cm d) (fst a + 1) (snd a)) (d_answers d).

(* the private share party i holds afterwards: the last verified answer addressed to i, otherwise what it received *)
Definition final_share (G : group) (i : Z) (d : dealer_view) : option (Z * Z) :=
  fold_left (fun cur a => if (fst a =? i) && matches G (d_cm d) (fst a + 1) (snd a) then Some (snd a) else cur)
            (d_answers d) (d_recv d).

(* was every own complaint answered?  (what the code does NOT check) *)
Definition answered (i : Z) (d : dealer_view) : bool := existsb (fun a => fst a =? i) (d_answers d).

(* ---- Flip + Reconstruct: a member of Qual as seen by party i ------------------------------------------------------- *)
Record member := mkMember {
  m_idx : Z;                           (* index j of the member *)
  m_cm : list Z;                       (* its commitments *)
  m_open : opening;                    (* C_j0 and the broadcast opening (a_j, hata_j), CoinFlipModel.opening *)
  m_own : Z * Z;                       (* party i's own private share of j's polynomial (used unchecked) *)
  m_shares : list (Z * (Z * Z))        (* (k, share) broadcast in Reconstruct by the other members k of Qual, in Qual order *)
}.

(* the interpolation points Reconstruct uses for member j at party i: own share first, then the verified shares of the
   parties that are not themselves complaint targets, at most t+1 in total; None = not enough shares *)
Definition recon_points (G : group) (t i : Z) (targets : list Z) (mb : member) : option (list (Z * Z)) :=
  let good := filter (fun ks => negb (existsb (Z.eqb (fst ks)) targets) && negb (fst ks =? i) &&
                                matches G (m_cm mb) (fst ks + 1) (snd ks)) (m_shares mb) in
  let all := (i + 1, fst (m_own mb)) :: map (fun ks => (fst ks + 1, fst (snd ks))) good in
  if Z.of_nat (length all) <=? t then None else Some (firstn (Z.to_nat (t + 1)) all).

Definition flipN_member_value (G : group) (t i : Z) (targets : list Z) (mb : member) : option Z :=
  match flipN_complaint G (m_open mb) with
  | None => None
  | Some false => Some (fst (fst (recv_values (gq G) (m_open mb))))
  | Some true => match recon_points G t i targets mb with
                 | None => None
                 | Some pts => lagrange0 (gq G) pts
                 end
  end.

(* the complaint targets of the opening phase *)
Definition flipN_targets (G : group) (mbs : list member) : option (list Z) :=
  fold_right (fun mb acc => match flipN_complaint G (m_open mb), acc with
                            | Some c, Some l => Some (if c then m_idx mb :: l else l)
                            | _, _ => None end) (Some []) mbs.

(* the coin party i outputs from its view of the members of Qual (own index included: its own opening matches);
   None = Flip returns false / throws *)
Definition flipN_party (G : group) (t i : Z) (mbs : list member) : option Z :=
  match flipN_targets G mbs with
  | None => None
  | Some targets =>
    if Z.of_nat (length targets) >? t then None else
    let vals := map (flipN_member_value G t i targets) mbs in
    if forallb (fun v => match v with Some _ => true | None => false end) vals
    then Some (flipN_sum (gq G) (map (fun v => match v with Some z => z | None => 0 end) vals))
    else None
  end.

(* ---- the complaint list of Flip step 3 (…ASTC.cc:1170-1232): complaints are pushed in arrival order (delivery loop: missing or
   out-of-range openings; check loop: openings that do not match), then std::sort, std::unique, resize ------------------------ *)
Fixpoint ins_sorted (x : Z) (l : list Z) : list Z :=
  match l with [] => [x] | y :: r => if x <=? y then x :: l else y :: ins_sorted x r end.
Definition sort_z (l : list Z) : list Z := fold_right ins_sorted [] l.
Fixpoint uniq_adj (l : list Z) : list Z :=        (* std::unique: removes adjacent duplicates *)
  match l with
  | [] => []
  | x :: r => match r with [] => [x] | y :: _ => if x =? y then uniq_adj r else x :: uniq_adj r end
  end.
Definition complaint_set (raw : list Z) : list Z := uniq_adj (sort_z raw).
