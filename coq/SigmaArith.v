(* SigmaArith: facts about the arithmetic helpers of SigmaPrim / Zbase used by the C03 and C08 proofs:
   correctness of invm (extended Euclid with bit-length fuel), exponent arithmetic in a subgroup whose
   generator satisfies g^q = 1 (q need not be prime here), and correctness of the fixed-base table walk. *)
From Coq Require Import ZArith Znumtheory Lia List Bool ZifyBool.
From LT Require Import Zbase gen_Consts SigmaPrim.
Import ListNotations.
Local Open Scope Z_scope.

(* ---- invm ------------------------------------------------------------------------------------ *)
Lemma egcd_fuel_bezout a p : forall f r0 r1 s0 s1 g s,
  (exists k, r0 = s0 * a + k * p) -> (exists k, r1 = s1 * a + k * p) ->
  egcd_fuel f r0 r1 s0 s1 = (g, s) -> exists k, g = s * a + k * p.
Proof.
  induction f as [|f IH]; intros r0 r1 s0 s1 g s H0 H1 E; cbn [egcd_fuel] in E.
  - inversion E; subst. assumption.
  - destruct (r1 =? 0) eqn:Z1.
    + inversion E; subst. assumption.
    + eapply IH; [exact H1| |exact E].
      destruct H0 as [k0 K0], H1 as [k1 K1]. exists (k0 - (r0 / r1) * k1). rewrite K0 at 1. rewrite K1 at 2. ring.
Qed.

Lemma invm_sound a p x : invm a p = Some x -> 0 <= x < p /\ (a * x) mod p = 1 mod p.
Proof.
  unfold invm. destruct (p <=? 0) eqn:Hp; [discriminate|]. assert (0 < p) by lia.
  destruct (egcd_fuel _ _ _ _ _) as [g s] eqn:E.
  destruct (g =? 1) eqn:G1.
  - intros X; inversion X; subst x. split; [apply Z.mod_pos_bound; lia|].
    apply egcd_fuel_bezout with (a := a) (p := p) in E.
    + destruct E as [k K]. assert (g = 1) by lia. subst g.
      rewrite Zmult_mod_idemp_r. replace (a * s) with (1 + (- k) * p) by lia.
      now rewrite Z.mod_add by lia.
    + exists (- (a / p)). pose proof (Z.div_mod a p ltac:(lia)). lia.
    + exists 1. lia.
  - destruct (p =? 1) eqn:P1; [|discriminate].
    intros X; inversion X; subst x. assert (p = 1) by lia. subst p. split; [lia|]. now rewrite !Z.mod_1_r.
Qed.

Lemma egcd_fuel_gcd : forall n r0 r1 s0 s1, 0 <= r1 < r0 -> r0 * r1 < 2 ^ (Z.of_nat n - 1) ->
  fst (egcd_fuel n r0 r1 s0 s1) = Z.gcd r0 r1.
Proof.
  induction n as [|n IH]; intros r0 r1 s0 s1 R M.
  - cbn in M. nia.
  - cbn [egcd_fuel]. destruct (r1 =? 0) eqn:Z1.
    + assert (r1 = 0) by lia. subst r1. cbn [fst]. rewrite Z.gcd_0_r. lia.
    + assert (r1 <> 0) by lia.
      replace (r0 - r0 / r1 * r1) with (r0 mod r1) by (rewrite Z.mod_eq by lia; ring).
      pose proof (Z.mod_pos_bound r0 r1 ltac:(lia)) as B.
      rewrite IH.
      * rewrite Z.gcd_comm. rewrite Z.gcd_mod by lia. apply Z.gcd_comm.
      * lia.
      * replace (Z.of_nat (S n) - 1) with (Z.of_nat n) in M by lia.
        destruct n as [|n]; [cbn in M; nia|].
        replace (Z.of_nat (S n) - 1) with (Z.of_nat n) by lia.
        replace (Z.of_nat (S n)) with (Z.succ (Z.of_nat n)) in M by lia.
        rewrite Z.pow_succ_r in M by lia.
        pose proof (Z.div_mod r0 r1 ltac:(lia)) as DM.
        assert (1 <= r0 / r1) by (apply Z.div_le_lower_bound; lia).
        assert (r1 + r0 mod r1 <= r0) by nia.
        nia.
Qed.

Lemma invm_complete a b p : 1 < p -> (a * b) mod p = 1 -> exists x, invm a p = Some x.
Proof.
  intros Hp Hab. unfold invm. destruct (p <=? 0) eqn:P0; [lia|].
  set (F := (2 * Z.to_nat (Z.log2_up p + 1))%nat).
  assert (L0 : 0 <= Z.log2_up p) by apply Z.log2_up_nonneg.
  assert (FZ : Z.of_nat F = 2 * Z.log2_up p + 2) by (unfold F; lia).
  pose proof (Z.mod_pos_bound a p ltac:(lia)) as Ba.
  assert (G : fst (egcd_fuel (S F) (a mod p) p 1 0) = 1).
  { cbn [egcd_fuel]. destruct (p =? 0) eqn:Pz; [lia|].
    rewrite (Z.div_small (a mod p) p) by lia.
    replace (a mod p - 0 * p) with (a mod p) by lia.
    assert (A0 : a mod p <> 0).
    { intros Z0. rewrite <- Zmult_mod_idemp_l, Z0 in Hab. rewrite Z.mul_0_l, Z.mod_0_l in Hab by lia. lia. }
    rewrite egcd_fuel_gcd.
    - (* gcd p (a mod p) divides a*b - k*p = 1 *)
      pose proof (Z.gcd_divide_l p (a mod p)) as D1. pose proof (Z.gcd_divide_r p (a mod p)) as D2.
      pose proof (Z.gcd_nonneg p (a mod p)) as GN.
      set (d := Z.gcd p (a mod p)) in *.
      assert (Da : (d | a)).
      { rewrite (Z.div_mod a p) by lia. apply Z.divide_add_r; [|assumption]. now apply Z.divide_mul_l. }
      assert (D1' : (d | 1)).
      { replace 1 with (a * b - p * ((a * b) / p)).
        - apply Z.divide_sub_r; [now apply Z.divide_mul_l|now apply Z.divide_mul_l].
        - pose proof (Z.div_mod (a * b) p ltac:(lia)). lia. }
      apply Z.divide_1_r_nonneg in D1'; assumption.
    - lia.
    - rewrite FZ. replace (2 * Z.log2_up p + 2 - 1) with (Z.log2_up p + Z.log2_up p + 1) by lia.
      pose proof (Z.log2_up_spec p Hp) as [_ LU].
      rewrite !Z.pow_add_r, Z.pow_1_r by lia. nia. }
  fold F. destruct (egcd_fuel (S F) (a mod p) p 1 0) as [g s]. cbn [fst] in G. subst g.
  cbn. eauto.
Qed.

Lemma inverse_unique p a x y : 0 < p -> (a * x) mod p = 1 mod p -> (a * y) mod p = 1 mod p ->
  x mod p = y mod p.
Proof.
  intros Hp Hx Hy.
  assert (E1 : (x * (a * y)) mod p = x mod p).
  { rewrite <- Zmult_mod_idemp_r, Hy, Zmult_mod_idemp_r. now rewrite Z.mul_1_r. }
  assert (E2 : (y * (a * x)) mod p = y mod p).
  { rewrite <- Zmult_mod_idemp_r, Hx, Zmult_mod_idemp_r. now rewrite Z.mul_1_r. }
  rewrite <- E1, <- E2. f_equal. ring.
Qed.

(* the value mpz_invert returns is THE inverse: any residue y with a*y = 1 equals it *)
Lemma invm_eq a y p : 1 < p -> 0 <= y < p -> (a * y) mod p = 1 -> invm a p = Some y.
Proof.
  intros Hp Hy Hay. destruct (invm_complete a y p Hp Hay) as [x Hx]. rewrite Hx. f_equal.
  destruct (invm_sound _ _ _ Hx) as [Bx Ex].
  assert (x mod p = y mod p).
  { apply (inverse_unique p a); [lia|assumption|]. rewrite Hay. symmetry. apply Z.mod_1_l. lia. }
  rewrite !Z.mod_small in H by lia. assumption.
Qed.

(* ---- exponents in a subgroup with g^q = 1 ------------------------------------------------------ *)
Section Cyclic.
  Variables p q g : Z.
  Hypothesis Hp : 1 < p.
  Hypothesis Hq : 0 < q.
  Hypothesis Hgq : powm g q p = 1.

  Lemma cyc_pow_q : g ^ q mod p = 1.
  Proof. rewrite <- powm_spec by lia. exact Hgq. Qed.

  Lemma cyc_pow_mult (w : Z) : 0 <= w -> g ^ (w * q) mod p = 1.
  Proof.
    intros Hw. rewrite Z.mul_comm, Z.pow_mul_r by lia.
    rewrite <- pow_mod_base by lia. rewrite cyc_pow_q. rewrite Z.pow_1_l by lia. apply Z.mod_1_l. lia.
  Qed.

  Lemma cyc_pow_mod (e : Z) : 0 <= e -> g ^ e mod p = g ^ (e mod q) mod p.
  Proof.
    intros He. rewrite (Z.div_mod e q) at 1 by lia.
    pose proof (Z.mod_pos_bound e q Hq). assert (0 <= e / q) by (apply Z.div_pos; lia).
    rewrite Z.pow_add_r by nia.
    rewrite Zmult_mod. rewrite (Z.mul_comm q). rewrite cyc_pow_mult by assumption.
    rewrite Z.mul_1_l. apply Zmod_mod.
  Qed.

  Lemma powm_cong (a b : Z) : 0 <= a -> 0 <= b -> a mod q = b mod q -> powm g a p = powm g b p.
  Proof.
    intros Ha Hb E. rewrite !powm_spec by lia. rewrite (cyc_pow_mod a), (cyc_pow_mod b) by assumption.
    now rewrite E.
  Qed.

  (* the heart of every Schnorr-style completeness proof: g^(w - c*x mod q) * (g^x)^c = g^w *)
  Lemma schnorr_identity (x c w : Z) : 0 <= x -> 0 <= c -> 0 <= w ->
    (powm g ((- (c * x) + w) mod q) p * powm (powm g x p) c p) mod p = powm g w p.
  Proof.
    intros Hx Hc Hw.
    pose proof (Z.mod_pos_bound (- (c * x) + w) q Hq) as B.
    rewrite <- powm_mul by lia. rewrite <- powm_add by nia.
    apply powm_cong; [nia|lia|].
    rewrite Zplus_mod_idemp_l. f_equal. ring.
  Qed.

  (* the variant the interactive verifier uses: g^(r + x*c mod q) * ((g^x)^c)^-1 = g^r *)
  Lemma powm_nonzero (e : Z) : 0 <= e -> 0 < powm g e p < p.
  Proof.
    intros He. pose proof (powm_range g e p ltac:(lia) He) as R.
    assert (powm g e p <> 0); [|lia]. intros Z0.
    (* g^e * g^((q-1)*e) = g^(q*e) = 1 *)
    assert (X : (powm g e p * powm g ((q - 1) * e) p) mod p = 1).
    { rewrite <- powm_add by nia. replace (e + (q - 1) * e) with (e * q) by ring.
      rewrite powm_spec by nia. apply cyc_pow_mult. lia. }
    rewrite Z0 in X. rewrite Z.mul_0_l, Z.mod_0_l in X by lia. lia.
  Qed.

  Lemma powm_inverse (e : Z) : 0 <= e -> invm (powm g e p) p = Some (powm g ((q - 1) * e) p).
  Proof.
    intros He. apply invm_eq; [lia|apply powm_range; nia|].
    rewrite <- powm_add by nia. replace (e + (q - 1) * e) with (e * q) by ring.
    rewrite powm_spec by nia. apply cyc_pow_mult. lia.
  Qed.
End Cyclic.

(* any element passing CheckElement is invertible, and generates a subgroup with a^q = 1 *)
Lemma check_element_spec G a : check_element G a = true <-> 0 < a < gp G /\ powm a (gq G) (gp G) = 1.
Proof. unfold check_element. rewrite !andb_true_iff. lia. Qed.

Lemma element_invertible p q a : 1 < p -> 0 < q -> powm a q p = 1 -> exists i, invm a p = Some i.
Proof.
  intros Hp Hq E. apply (invm_complete a (a ^ (q - 1)) p Hp).
  rewrite <- Z.pow_succ_r by lia. replace (Z.succ (q - 1)) with q by lia.
  rewrite <- powm_spec by lia. exact E.
Qed.

(* ---- the fixed-base table walk ------------------------------------------------------------------- *)
Lemma fpowm_pos_spec p : 0 < p -> forall e cur idx t res,
  (idx + Pos.size_nat e <= t)%nat ->
  fpowm_pos cur idx t e res p = (res * cur ^ Zpos e) mod p.
Proof.
  intros Hp. induction e as [e IH|e IH|]; intros cur idx t res Hs; cbn [fpowm_pos Pos.size_nat] in *.
  - assert (Hi : (idx <? t)%nat = true) by (apply Nat.ltb_lt; lia). rewrite Hi.
    rewrite IH by lia.
    transitivity ((res * cur * (cur * cur) ^ Z.pos e) mod p).
    + rewrite Zmult_mod. rewrite Zmod_mod. rewrite pow_mod_base by lia. now rewrite <- Zmult_mod.
    + f_equal. rewrite Pos2Z.inj_xI. replace (2 * Z.pos e + 1) with (1 + 2 * Z.pos e) by lia.
      rewrite Z.pow_add_r, Z.pow_1_r, Z.pow_mul_r, Z.pow_2_r by lia. ring.
  - rewrite IH by lia.
    transitivity ((res * (cur * cur) ^ Z.pos e) mod p).
    + rewrite Zmult_mod. rewrite pow_mod_base by lia. now rewrite <- Zmult_mod.
    + f_equal. rewrite Pos2Z.inj_xO. rewrite Z.pow_mul_r, Z.pow_2_r by lia. ring.
  - assert (Hi : (idx <? t)%nat = true) by (apply Nat.ltb_lt; lia). rewrite Hi.
    now rewrite Z.pow_1_r.
Qed.

Lemma size_nat_log2 e : Z.of_nat (Pos.size_nat e) = Z.log2 (Zpos e) + 1.
Proof.
  induction e as [e IH|e IH|]; cbn [Pos.size_nat]; [| |reflexivity].
  - rewrite Nat2Z.inj_succ, IH. rewrite Pos2Z.inj_xI. rewrite Z.log2_succ_double by lia. lia.
  - rewrite Nat2Z.inj_succ, IH. rewrite Pos2Z.inj_xO. rewrite Z.log2_double by lia. lia.
Qed.

Lemma sizeinbase2_pos x : 1 <= sizeinbase2 x.
Proof. unfold sizeinbase2. destruct (x =? 0); [lia|]. pose proof (Z.log2_nonneg (Z.abs x)). lia. Qed.

Lemma sizeinbase2_mono x y : 0 <= x <= y -> sizeinbase2 x <= sizeinbase2 y.
Proof.
  intros H. unfold sizeinbase2. destruct (x =? 0) eqn:X0; destruct (y =? 0) eqn:Y0; try lia.
  - pose proof (Z.log2_nonneg (Z.abs y)). lia.
  - rewrite !Z.abs_eq by lia. pose proof (Z.log2_le_mono x y ltac:(lia)). lia.
Qed.

(* exponents below q never leave the valid part of the table *)
Lemma fpowm_loop_spec b q x p : 1 < p -> 0 < q -> 0 <= x < q -> sizeinbase2 q <= TMCG_MAX_FPOWM_T ->
  fpowm_loop (precompute b q) x p = powm b x p.
Proof.
  intros Hp Hq Hx Hs. unfold fpowm_loop. rewrite Z.abs_eq by lia.
  destruct x as [|e|e]; [cbn; rewrite Z.mod_1_l; lia| |lia].
  cbn [precompute ft_base ft_t]. rewrite fpowm_pos_spec; [|lia|].
  - rewrite Z.mul_1_l. cbn [powm]. now rewrite powm_pos_spec by lia.
  - assert (Z.of_nat (Pos.size_nat e) <= Z.min (sizeinbase2 q) TMCG_MAX_FPOWM_T); [|lia].
    rewrite size_nat_log2. pose proof (sizeinbase2_mono (Z.pos e) q ltac:(lia)) as M.
    unfold sizeinbase2 at 1 in M. cbn [Z.eqb Z.abs] in M. lia.
Qed.

Lemma size_small x q : 0 <= x < q -> sizeinbase2 q <= TMCG_MAX_FPOWM_T -> (TMCG_MAX_FPOWM_T <? sizeinbase2 x) = false.
Proof. intros Hx Hs. pose proof (sizeinbase2_mono x q ltac:(lia)). lia. Qed.

Lemma fpowm_spec b q x p : 1 < p -> 0 < q -> 0 <= x < q -> sizeinbase2 q <= TMCG_MAX_FPOWM_T ->
  fpowm (precompute b q) b x p = Some (powm b x p).
Proof.
  intros Hp Hq Hx Hs. unfold fpowm. cbn [precompute ft_base]. rewrite Z.eqb_refl. cbn [negb].
  rewrite (size_small x q) by assumption.
  change (mkFtable b (Z.to_nat (Z.min (sizeinbase2 q) TMCG_MAX_FPOWM_T))) with (precompute b q).
  rewrite fpowm_loop_spec by assumption.
  destruct (x <? 0) eqn:X; [lia|reflexivity].
Qed.

Lemma fspowm_spec b q x p : 1 < p -> 0 < q -> powm b q p = 1 -> 0 <= x < q -> sizeinbase2 q <= TMCG_MAX_FPOWM_T ->
  fspowm (precompute b q) b x p = Some (powm b x p).
Proof.
  intros Hp Hq Hb Hx Hs. unfold fspowm. cbn [precompute ft_base]. rewrite Z.eqb_refl. cbn [negb].
  rewrite (size_small x q) by assumption.
  change (mkFtable b (Z.to_nat (Z.min (sizeinbase2 q) TMCG_MAX_FPOWM_T))) with (precompute b q).
  rewrite fpowm_loop_spec by assumption.
  rewrite (powm_inverse p q b Hp Hq Hb x) by lia.
  destruct (x <? 0) eqn:X; [lia|].
  rewrite Z.mod_small; [reflexivity|apply powm_range; lia].
Qed.

Lemma spowm_spec b q x p : 1 < p -> Z.odd p = true -> 0 < q -> powm b q p = 1 -> 0 <= x ->
  spowm b x p = Some (powm b x p).
Proof.
  intros Hp Hodd Hq Hb Hx. unfold spowm. rewrite <- Z.negb_odd, Hodd. cbn [negb].
  destruct (x =? 0) eqn:X0.
  - assert (x = 0) by lia. subst x.
    rewrite (powm_inverse p q b Hp Hq Hb 1) by lia. cbn [Z.ltb Z.compare]. cbn [powm]. reflexivity.
  - rewrite Z.abs_eq by lia. rewrite (powm_inverse p q b Hp Hq Hb x) by lia.
    destruct (x <? 0) eqn:X; [lia|]. rewrite Z.mod_small; [reflexivity|apply powm_range; lia].
Qed.
