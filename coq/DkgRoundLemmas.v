(* DkgRoundLemmas: proofs about the sharing phase of GJKR-DKG as modelled in DkgRoundModel.
   - qual_view_is_global / qual_agreement: every honest party computes the QUAL that is a function of the broadcast values only
   - own_complaint_counts / justified_complaints_disqualify: the > t rule, the party's own complaint included
   - final_pair_consistent, shares_consistent: the pairs an honest party ends with match the commitments of the QUAL members
   - dkg_key: y = g^F(0) and any t+1 key shares interpolate to F(0) *)
From Coq Require Import ZArith Znumtheory Lia List Bool ZifyBool FinFun.
From LT Require Import Zbase VssModel VssLemmas VssLagrange DkgModel DkgLemmas DkgRoundModel.
Import ListNotations.
Local Open Scope Z_scope.

(* ---- parties ------------------------------------------------------------------------------------------- *)
Lemma in_parties n j : In j (parties n) <-> 0 <= j < n.
Proof.
  unfold parties. rewrite in_map_iff. split.
  - intros (k & <- & Hk). apply in_seq in Hk. lia.
  - intros H. exists (Z.to_nat j). split; [lia|]. apply in_seq. lia.
Qed.
Lemma NoDup_parties n : NoDup (parties n).
Proof.
  unfold parties. apply Injective_map_NoDup; [|apply seq_NoDup].
  intros a b H. lia.
Qed.
Lemma length_parties n : length (parties n) = Z.to_nat n.
Proof. unfold parties. now rewrite map_length, seq_length. Qed.

Lemma zsum_ext f1 f2 l : (forall j, In j l -> f1 j = f2 j) -> zsum f1 l = zsum f2 l.
Proof.
  induction l as [|a l IH]; intros H; cbn [zsum fold_right]; [reflexivity|].
  fold (zsum f1 l). fold (zsum f2 l). rewrite IH by (intros; apply H; now right). rewrite (H a) by now left. reflexivity.
Qed.

Lemma memz_In w l : memz w l = true <-> In w l.
Proof.
  unfold memz. rewrite existsb_exists. split.
  - intros (x & Hx & E). apply Z.eqb_eq in E. now subst.
  - intros H. exists w. split; [assumption|apply Z.eqb_refl].
Qed.
Lemma memz_ext w l1 l2 : (forall x, In x l1 <-> In x l2) -> memz w l1 = memz w l2.
Proof.
  intros H. destruct (memz w l1) eqn:E1, (memz w l2) eqn:E2; try reflexivity.
  - apply memz_In in E1. apply H in E1. apply memz_In in E1. congruence.
  - apply memz_In in E2. apply H in E2. apply memz_In in E2. congruence.
Qed.

Lemma who_of_small v : 0 <= v < 2 ^ 64 -> who_of v = v.
Proof. intros H. unfold who_of. rewrite Z.abs_eq by lia. apply Z.mod_small. lia. Qed.

(* ---- an honest party's own complaint stream is read back as exactly its complaint list --------------------- *)
Lemma scan_own n : 0 <= n < 2 ^ 64 -> forall l fuel acc bad,
  (forall v, In v l -> 0 <= v < n) -> NoDup l -> (forall v, In v l -> ~ In v acc) -> (length l < fuel)%nat ->
  scan_dkg fuel n (l ++ [n]) acc bad = (rev l ++ acc, bad).
Proof.
  intros Hn. induction l as [|v l IH]; intros fuel acc bad Hr Hnd Hdis Hf.
  - destruct fuel; [cbn in Hf; lia|]. cbn [app scan_dkg rev]. rewrite who_of_small by lia.
    destruct (Z.ltb_spec n n); [lia|reflexivity].
  - destruct fuel; [cbn in Hf; lia|]. cbn [app scan_dkg].
    assert (Hv : 0 <= v < n) by (apply Hr; now left). rewrite who_of_small by lia.
    destruct (Z.ltb_spec v n); [|lia].
    destruct (memz v acc) eqn:M.
    + apply memz_In in M. exfalso. apply (Hdis v); [now left|assumption].
    + inversion Hnd as [|? ? Hnotin Hnd']; subst.
      rewrite IH.
      * cbn [rev]. rewrite <- app_assoc. reflexivity.
      * intros; apply Hr; now right.
      * assumption.
      * intros x Hx [E|Hin]; [subst; contradiction|]. apply (Hdis x); [now right|assumption].
      * cbn [length] in Hf. lia.
Qed.

Section Agreement.
  Variables (p q g h n t i : Z) (B : list bcast) (P : list (option (Z * Z))).
  Hypothesis Hn : 0 <= n < 2 ^ 64.
  Hypothesis Hi : 0 <= i < n.
  (* P_i broadcast what the code broadcasts: its complaint list followed by the end marker *)
  Hypothesis Hown : b_compl (getB B i) = dkg_own_stream p q g h n i B P.

  Let mine := dkg_mine p q g h n i B P.

  Lemma mine_props : (forall v, In v mine -> 0 <= v < n) /\ NoDup mine /\ (length mine <= Z.to_nat n)%nat.
  Proof.
    unfold mine, dkg_mine. split; [|split].
    - intros v Hv. apply filter_In in Hv. destruct Hv as [Hv _]. now apply in_parties.
    - apply NoDup_filter. apply NoDup_parties.
    - rewrite <- length_parties. apply filter_len_le.
  Qed.

  Lemma own_scan : scan_dkg (S (Z.to_nat n)) n (b_compl (getB B i)) [] false = (rev mine ++ [], false).
  Proof.
    rewrite Hown. unfold dkg_own_stream. fold mine. destruct mine_props as (H1 & H2 & H3).
    apply scan_own; try assumption; [intros v _ []|lia].
  Qed.

  Lemma own_accused w : memz w (accused n (b_compl (getB B i))) = memz w mine.
  Proof.
    unfold accused. rewrite own_scan. cbn [fst]. apply memz_ext. intros x. rewrite app_nil_r. symmetry. apply in_rev.
  Qed.
  Lemma own_not_bad : bad_stream n (b_compl (getB B i)) = false.
  Proof. unfold bad_stream. now rewrite own_scan. Qed.

  (* the counters of P_i are the global counters *)
  Lemma cnt_view_glob w : cnt_view p q g h n i B P w = cnt_glob n B w.
  Proof.
    unfold cnt_view, cnt_view_m, cnt_glob. apply zsum_ext. intros j _.
    destruct (Z.eqb_spec j i) as [->|]; [|reflexivity]. fold mine. now rewrite own_accused.
  Qed.
End Agreement.

(* the flag of the answer check does not depend on who evaluates it *)
Lemma ans_flag_indep p q g h n Cj : forall fuel res bad i1 i2 sg1 ta1 sg2 ta2,
  fst (fst (ans_go fuel p q g h n i1 Cj res bad sg1 ta1)) = fst (fst (ans_go fuel p q g h n i2 Cj res bad sg2 ta2)).
Proof.
  induction fuel as [|f IH]; intros res bad i1 i2 sg1 ta1 sg2 ta2; cbn [ans_go]; [reflexivity|].
  destruct res as [|w r1]; [reflexivity|]. destruct (n <=? who_of w); [reflexivity|].
  destruct r1 as [|fv [|bv r3]]; try reflexivity.
  destruct (share_okb _ _ _ _ _ _ _); [|apply IH].
  destruct (who_of w =? i1), (who_of w =? i2); apply IH.
Qed.

(* QUAL as computed by an honest party is the function qual_glob of the broadcast values *)
Theorem qual_view_is_global p q g h n t i B P :
  0 <= n < 2 ^ 64 -> 0 <= i < n ->
  b_compl (getB B i) = dkg_own_stream p q g h n i B P ->
  ans_glob p q g h n B i = false ->            (* its own published answers pass the public check (honest dealer) *)
  qual_view p q g h n t i B P = qual_glob p q g h n t B.
Proof.
  intros Hn Hi Hown Hans. unfold qual_view, qual_view_m, qual_glob. apply filter_ext_in. intros j Hj. f_equal.
  unfold disq_view_m, disq_glob. fold (cnt_view p q g h n i B P j). rewrite cnt_view_glob by assumption.
  destruct (Z.eqb_spec j i) as [->|Hne].
  - rewrite (own_not_bad p q g h n i B P) by assumption. rewrite Hans. now rewrite orb_false_r.
  - f_equal. unfold ans_of, ans_glob, viewC. destruct (Z.eqb_spec j i); [contradiction|]. apply ans_flag_indep.
Qed.

(* C15 agreement on the qualified set: two honest parties that received the same broadcasts (agreement of the broadcast layer,
   C14) compute the same QUAL, whatever they received point-to-point *)
Theorem qual_agreement p q g h n t i1 i2 B P1 P2 :
  0 <= n < 2 ^ 64 -> 0 <= i1 < n -> 0 <= i2 < n ->
  b_compl (getB B i1) = dkg_own_stream p q g h n i1 B P1 -> b_compl (getB B i2) = dkg_own_stream p q g h n i2 B P2 ->
  ans_glob p q g h n B i1 = false -> ans_glob p q g h n B i2 = false ->
  qual_view p q g h n t i1 B P1 = qual_view p q g h n t i2 B P2.
Proof. intros. rewrite !qual_view_is_global by assumption. reflexivity. Qed.

(* ---- the disqualification rule ----------------------------------------------------------------------------- *)
Lemma disq_not_in_qual p q g h n t i B P j : disq_view p q g h n t i B P j = true -> ~ In j (qual_view p q g h n t i B P).
Proof. intros D H. unfold disq_view in D. unfold qual_view, qual_view_m in H. apply filter_In in H. destruct H as [_ H]. rewrite D in H. discriminate. Qed.

(* more than t complaints (as counted by P_i) disqualify, for every party including P_i itself *)
Theorem too_many_complaints_disqualify p q g h n t i B P j :
  t < cnt_view p q g h n i B P j -> ~ In j (qual_view p q g h n t i B P).
Proof.
  intros H. apply disq_not_in_qual. unfold disq_view, disq_view_m. fold (cnt_view p q g h n i B P j). destruct (j =? i); [lia|].
  destruct (Z.ltb_spec t (cnt_view p q g h n i B P j)); [|lia]. now rewrite orb_true_r.
Qed.

Lemma zsum_nonneg f l : (forall j, 0 <= f j) -> 0 <= zsum f l.
Proof. intros H. induction l as [|a l IH]; cbn [zsum fold_right]; [lia|]. fold (zsum f l). specialize (H a). lia. Qed.
Lemma zsum_split f l a : NoDup l -> In a l -> zsum f l = f a + zsum (fun j => if j =? a then 0 else f j) l.
Proof.
  induction l as [|b l IH]; intros Hnd Hin; [contradiction|]. inversion Hnd as [|? ? Hnotin Hnd']; subst.
  cbn [zsum fold_right]. fold (zsum f l). fold (zsum (fun j => if j =? a then 0 else f j) l).
  destruct Hin as [->|Hin].
  - rewrite Z.eqb_refl. rewrite (zsum_ext (fun j => if j =? a then 0 else f j) f l); [lia|].
    intros j Hj. destruct (Z.eqb_spec j a); [subst; contradiction|reflexivity].
  - destruct (Z.eqb_spec b a) as [->|]; [contradiction|]. rewrite (IH Hnd' Hin). lia.
Qed.

(* the party's own complaint counts: cnt = [P_i complains about w] + number of OTHER parties that named w *)
Theorem own_complaint_counts p q g h n i B P w : 0 <= i < n ->
  cnt_view p q g h n i B P w =
  b2z (memz w (dkg_mine p q g h n i B P)) + zsum (fun j => if j =? i then 0 else b2z (memz w (acc_of n B j))) (parties n).
Proof.
  intros Hi. unfold cnt_view, cnt_view_m. rewrite (zsum_split _ (parties n) i (NoDup_parties n)) by now apply in_parties.
  rewrite Z.eqb_refl. f_equal. apply zsum_ext. intros j _. destruct (j =? i); reflexivity.
Qed.

(* > t justified complaints: P_i's own complaint together with t complaints of other parties disqualifies the dealer *)
Theorem justified_complaints_disqualify p q g h n t i B P w : 0 <= i < n -> 0 <= w < n ->
  dkg_complains p q g h i B P w = true ->
  t <= zsum (fun j => if j =? i then 0 else b2z (memz w (acc_of n B j))) (parties n) ->
  ~ In w (qual_view p q g h n t i B P).
Proof.
  intros Hi Hw Hc Ht. apply too_many_complaints_disqualify. rewrite own_complaint_counts by assumption.
  assert (M : memz w (dkg_mine p q g h n i B P) = true).
  { apply memz_In. unfold dkg_mine. apply filter_In. split; [now apply in_parties|assumption]. }
  rewrite M. cbn [b2z]. lia.
Qed.

(* ---- consistency of the pairs an honest party ends with ---------------------------------------------------------- *)
(* does the answer stream contain a triple for P_i (read before the end marker)? *)
Fixpoint ans_mentions (fuel : nat) (n i : Z) (res : list Z) : bool :=
  match fuel with
  | O => false
  | S f => match res with
           | w :: _ :: _ :: r3 => if n <=? who_of w then false else (who_of w =? i) || ans_mentions f n i r3
           | _ => false
           end
  end.

Lemma ans_bad_sticky p q g h n i Cj : forall fuel res sg ta, fst (fst (ans_go fuel p q g h n i Cj res true sg ta)) = true.
Proof.
  induction fuel as [|f IH]; intros res sg ta; cbn [ans_go]; [reflexivity|].
  destruct res as [|w r1]; [reflexivity|]. destruct (n <=? who_of w); [reflexivity|].
  destruct r1 as [|fv [|bv r3]]; try reflexivity. cbn [orb].
  destruct (share_okb _ _ _ _ _ _ _); [|apply IH]. destruct (who_of w =? i); apply IH.
Qed.

Lemma ans_own_pair p q g h n i Cj : forall fuel res bad sg ta,
  fst (fst (ans_go fuel p q g h n i Cj res bad sg ta)) = false ->
  ans_mentions fuel n i res = true \/ share_okb p g h Cj (i + 1) sg ta = true ->
  share_okb p g h Cj (i + 1) (snd (fst (ans_go fuel p q g h n i Cj res bad sg ta))) (snd (ans_go fuel p q g h n i Cj res bad sg ta)) = true.
Proof.
  induction fuel as [|f IH]; intros res bad sg ta E H; cbn [ans_go ans_mentions] in *.
  - destruct H as [H|H]; [discriminate|exact H].
  - destruct res as [|w r1]; [discriminate|].
    destruct (n <=? who_of w) eqn:Wn.
    { cbn [fst snd] in *. destruct r1 as [|fv [|bv r3]]; destruct H as [H|H]; try discriminate; exact H. }
    destruct r1 as [|fv [|bv r3]]; try discriminate.
    destruct (share_okb p g h Cj (who_of w + 1) _ _) eqn:S.
    + destruct (Z.eqb_spec (who_of w) i) as [Ei|Ei].
      * apply IH; [exact E|]. right. rewrite <- Ei. exact S.
      * apply IH; [exact E|]. destruct H as [H|H]; [left; exact H|right; exact H].
    + rewrite ans_bad_sticky in E. discriminate.
Qed.

(* the pair of a qualified dealer that P_i holds satisfies equation (4), provided P_i had no reason to complain or the dealer's
   answer stream contains a pair for P_i.  (The code does not check that every complaint was answered: see the refuted statement.) *)
Theorem final_pair_consistent p q g h n t i B P j : 0 <= j < n ->
  In j (qual_view p q g h n t i B P) ->
  dkg_complains p q g h i B P j = false \/ (j <> i /\ ans_mentions (S (Z.to_nat n)) n i (b_ans (getB B j)) = true) ->
  share_okb p g h (viewC p q i j B) (i + 1) (fst (final_pair p q g h n t i B P j)) (snd (final_pair p q g h n t i B P j)) = true.
Proof.
  intros Hj Hq H. unfold qual_view, qual_view_m in Hq. apply filter_In in Hq. destruct Hq as [_ Hq]. apply negb_true_iff in Hq.
  assert (Hok : dkg_complains p q g h i B P j = false ->
                share_okb p g h (viewC p q i j B) (i + 1) (fst (rx_pair q (getP P j))) (snd (rx_pair q (getP P j))) = true).
  { unfold dkg_complains. intros C. apply orb_false_elim in C. destruct C as [C _]. now apply negb_false_iff in C. }
  unfold final_pair, final_pair_m, disq_view_m in *. fold (cnt_view p q g h n i B P j) in *. destruct (Z.eqb_spec j i) as [->|Hne].
  - cbn [orb]. destruct H as [H|[H _]]; [now apply Hok|congruence].
  - cbn [orb]. apply orb_false_elim in Hq. destruct Hq as [Hq Hans]. apply orb_false_elim in Hq. destruct Hq as [_ Hc]. rewrite Hc.
    unfold ans_of in *. apply ans_own_pair; [exact Hans|].
    destruct H as [H|[_ H]]; [right; now apply Hok|left; exact H].
Qed.

(* REFUTED as a statement without the premise on the answers: a dealer that gives P_i a wrong pair and then broadcasts only the end
   marker stays in QUAL (one complaint, t = 1) and P_i keeps the inconsistent pair.  Witness: p = 23, q = 11, g = 2, h = 3, n = 3, t = 1;
   P_1's view, dealer P_0 (f = 5 + 4z, f' = 2 + 7z) sends (3, 5) instead of (2, 5); P_1 and P_2 are honest dealers. *)
Definition wit_B : list bcast :=
  [ mkB (commits 23 2 3 [5; 4] [2; 7]) [3] [3];
    mkB (commits 23 2 3 [1; 2] [3; 4]) [0; 3] [3];
    mkB (commits 23 2 3 [6; 1] [0; 9]) [3] [3] ].
Definition wit_P : list (option (Z * Z)) :=
  [ Some (3, 5); Some (poly_eval 11 [1; 2] 2, poly_eval 11 [3; 4] 2); Some (poly_eval 11 [6; 1] 2, poly_eval 11 [0; 9] 2) ].
Theorem shares_consistent_unconditional_refuted :
  In 0 (qual_view 23 11 2 3 3 1 1 wit_B wit_P) /\ dkg_defined 23 11 2 3 3 1 1 wit_B wit_P = true /\
  b_compl (getB wit_B 1) = dkg_own_stream 23 11 2 3 3 1 wit_B wit_P /\
  share_okb 23 2 3 (viewC 23 11 1 0 wit_B) 2 (fst (final_pair 23 11 2 3 3 1 1 wit_B wit_P 0)) (snd (final_pair 23 11 2 3 3 1 1 wit_B wit_P 0)) = false.
Proof. repeat split; vm_compute; auto. Qed.

(* ---- the aggregated form: g^x_i h^x'_i = prod_{j in QUAL} prod_k C_jk^((i+1)^k) ----------------------------------- *)
Section Aggregate.
  Variables p q g h : Z.
  Hypothesis Hp : 1 < p.
  Hypothesis Hq : prime q.
  Hypothesis Hg : powm g q p = 1.
  Hypothesis Hh : powm h q p = 1.
  Let q_pos : 1 < q. Proof. destruct Hq. lia. Qed.

  Lemma agg_fold (x : Z) (Cs : Z -> list Z) (s s' : Z -> Z) (qual : list Z) :
    (forall j, In j qual -> 0 <= s j /\ 0 <= s' j /\ share_ok p g h (Cs j) x (s j) (s' j) = Some true) ->
    0 <= fold_right (fun j a => s j + a) 0 qual /\ 0 <= fold_right (fun j a => s' j + a) 0 qual /\
    (g ^ (fold_right (fun j a => s j + a) 0 qual) * h ^ (fold_right (fun j a => s' j + a) 0 qual)) mod p =
    fold_right (fun j a => (rhs_prod p (Cs j) x * a) mod p) (1 mod p) qual.
  Proof.
    induction qual as [|j r IH]; intros H; cbn [fold_right].
    - repeat split; try lia; try reflexivity.
    - destruct (IH (fun j' Hj => H j' (or_intror Hj))) as (N1 & N2 & E). destruct (H j (or_introl eq_refl)) as (S1 & S2 & Ok).
      repeat split; try lia.
      unfold share_ok, epow in Ok. destruct (Z.ltb_spec (s j) 0); [lia|]. destruct (Z.ltb_spec (s' j) 0); [lia|].
      injection Ok as Ok. apply Z.eqb_eq in Ok. rewrite !powm_spec in Ok by lia.
      rewrite <- Zmult_mod in Ok. rewrite <- E. rewrite <- Ok. rewrite <- Zmult_mod.
      rewrite !Z.pow_add_r by lia. f_equal. ring.
  Qed.

  Lemma nthz_map_parties (f : Z -> Z) n j : 0 <= j < n -> nthz (map f (parties n)) j = f j.
  Proof.
    intros Hj. unfold nthz, parties. rewrite map_map.
    rewrite (nth_indep _ 0 (f (Z.of_nat 0))) by (rewrite map_length, seq_length; lia).
    rewrite (map_nth (fun k => f (Z.of_nat k)) (seq 0 (Z.to_nat n)) 0%nat). rewrite seq_nth by lia. f_equal. lia.
  Qed.

  (* every honest party's key share matches the public commitments of the qualified dealers *)
  Theorem shares_consistent n t i B P :
    0 <= i ->
    (forall j, In j (qual_view p q g h n t i B P) ->
       0 <= fst (final_pair p q g h n t i B P j) /\ 0 <= snd (final_pair p q g h n t i B P j) /\
       share_ok p g h (viewC p q i j B) (i + 1) (fst (final_pair p q g h n t i B P j)) (snd (final_pair p q g h n t i B P j)) = Some true) ->
    (powm g (fst (view_x p q g h n t i B P)) p * powm h (snd (view_x p q g h n t i B P)) p) mod p =
    fold_right (fun j a => (rhs_prod p (viewC p q i j B) (i + 1) * a) mod p) (1 mod p) (qual_view p q g h n t i B P).
  Proof.
    intros Hi H. set (Q := qual_view p q g h n t i B P) in *.
    assert (HQ : forall j, In j Q -> 0 <= j < n).
    { intros j Hj. unfold Q, qual_view, qual_view_m in Hj. apply filter_In in Hj. destruct Hj as [Hj _]. now apply in_parties. }
    destruct (agg_fold (i + 1) (fun j => viewC p q i j B) (fun j => fst (final_pair p q g h n t i B P j))
                (fun j => snd (final_pair p q g h n t i B P j)) Q H) as (N1 & N2 & E).
    rewrite <- E.
    change (view_x p q g h n t i B P) with
      (sum_qual q Q (map (fun j => fst (final_pair p q g h n t i B P j)) (parties n)),
       sum_qual q Q (map (fun j => snd (final_pair p q g h n t i B P j)) (parties n))).
    cbn [fst snd].
    pose proof (sum_qual_range q Q (map (fun j => fst (final_pair p q g h n t i B P j)) (parties n)) ltac:(lia)) as R1.
    pose proof (sum_qual_range q Q (map (fun j => snd (final_pair p q g h n t i B P j)) (parties n)) ltac:(lia)) as R2.
    rewrite !powm_spec by lia.
    assert (F : forall (f : Z -> Z), fold_right (fun j a => nthz (map f (parties n)) j + a) 0 Q = fold_right (fun j a => f j + a) 0 Q).
    { intros f. clear - HQ. induction Q as [|j r IH]; [reflexivity|]. cbn [fold_right].
      rewrite IH by (intros; apply HQ; now right). rewrite nthz_map_parties by (apply HQ; now left). reflexivity. }
    rewrite <- (Z.mod_small (sum_qual q Q (map (fun j => fst (final_pair p q g h n t i B P j)) (parties n))) q) by lia.
    rewrite <- (Z.mod_small (sum_qual q Q (map (fun j => snd (final_pair p q g h n t i B P j)) (parties n))) q) by lia.
    unfold sum_qual. rewrite !sum_qual_gen by lia. rewrite !Z.add_0_l. rewrite !F.
    rewrite Zmult_mod. rewrite (pow_red_g p q g Hp Hq Hg) by assumption. rewrite (pow_red_h p q h Hp Hq Hh) by assumption.
    rewrite !Z.mod_mod by lia. symmetry. apply Zmult_mod.
  Qed.
End Aggregate.

(* ---- the key: y = g^F(0), and any t+1 key shares interpolate to F(0) = log_g y ------------------------------------- *)
Theorem dkg_key p q g P qual ys tdeg pts r :
  1 < p -> prime q -> powm g q p = 1 -> qual <> [] ->
  (forall j, In j qual -> Forall (fun c => 0 <= c) (P j) /\ (length (P j) <= tdeg)%nat /\ nthz ys j = powm g (hd 0 (P j)) p) ->
  (tdeg <= length pts)%nat -> NoDup (map fst pts) ->
  (forall x y, In (x, y) pts -> 0 <= x < q /\ exists s, y = sum_qual q qual s /\ forall j, In j qual -> nthz s j mod q = poly_eval q (P j) x) ->
  lagrange0 q pts = Some r ->
  powm g r p = dkg_y p qual ys.
Proof.
  intros Hp Hq Hg Hne HP Hlen Hnd Hpts E.
  rewrite (dkg_subsets_same_secret q P qual tdeg pts r Hq) by (try assumption; intros j Hj; apply HP; assumption).
  symmetry. apply (dkg_pubkey p q g Hp Hq Hg); [assumption|]. intros j Hj. destruct (HP j Hj) as (A & _ & C). now split.
Qed.
