(* C15 -- Secret sharing and distributed key generation are consistent.
   Property theorems only: each is closed by `exact <lemma>` and followed by Print Assumptions.
   Group hypotheses appear as premises: p > 1, q prime, g (and h) of order dividing q modulo p (what CheckGroup establishes).
   Timing (time-outs) is outside the model: a stream that ends early models a failed delivery. *)
From Coq Require Import ZArith Znumtheory List Lia.
From LT Require Import Zbase VssModel VssLemmas VssLagrange DkgModel DkgLemmas DkgRoundModel DkgRoundLemmas.
Import ListNotations.
Local Open Scope Z_scope.

(* an honest dealer's share pair passes the check g^s h^t = prod A_k^(x^k) of every recipient *)
Theorem C15_share_check_honest : forall p q g h, 1 < p -> prime q -> powm g q p = 1 -> powm h q p = 1 ->
  forall a b x, a <> [] -> length a = length b -> Forall (fun c => 0 <= c) a -> Forall (fun c => 0 <= c) b -> 0 <= x ->
  share_ok p g h (commits p g h a b) x (poly_eval q a x) (poly_eval q b x) = Some true.
Proof. exact share_check_honest. Qed.
Print Assumptions C15_share_check_honest.

(* Lagrange reconstruction (the formula of PedersenVSS::Reconstruct and GJKR-DKG::Reconstruct), general in the number of
   points: ANY set of points with distinct abscissae on a polynomial with at most that many coefficients reconstructs f(0).
   Soundness form: the formula may only fail by a failing modular inversion (which the code reports as an error). *)
Theorem C15_lagrange_ok_sound : forall q cs pts r, prime q -> (length cs <= length pts)%nat -> NoDup (map fst pts) ->
  (forall x y, In (x, y) pts -> 0 <= x < q /\ y mod q = poly_eval q cs x) ->
  lagrange0 q pts = Some r -> r = poly_eval q cs 0.
Proof. exact lagrange0_sound. Qed.
Print Assumptions C15_lagrange_ok_sound.

(* one and the same secret: two sets of shares of the same sharing reconstruct the same value *)
Theorem C15_same_secret : forall q cs pts1 pts2 r1 r2, prime q ->
  (length cs <= length pts1)%nat -> (length cs <= length pts2)%nat -> NoDup (map fst pts1) -> NoDup (map fst pts2) ->
  (forall x y, In (x, y) pts1 -> 0 <= x < q /\ y mod q = poly_eval q cs x) ->
  (forall x y, In (x, y) pts2 -> 0 <= x < q /\ y mod q = poly_eval q cs x) ->
  lagrange0 q pts1 = Some r1 -> lagrange0 q pts2 = Some r2 -> r1 = r2.
Proof. exact lagrange0_same_secret. Qed.
Print Assumptions C15_same_secret.

(* Feldman commitments C_k = g^a_k determine the shares: whoever passes g^s = prod C_k^(x^k) holds f(x) modulo q *)
Theorem C15_feldman_unique : forall p q g, 1 < p -> prime q -> powm g q p = 1 ->
  forall a x s, g mod p <> 1 -> a <> [] -> Forall (fun c => 0 <= c) a -> 0 <= x -> 0 <= s ->
  powm g s p = rhs_prod p (fcommits p g a) x -> s mod q = poly_eval q a x.
Proof. exact feldman_unique. Qed.
Print Assumptions C15_feldman_unique.

(* share matches the public verification value: g^f(x) = prod (g^a_k)^(x^k) *)
Theorem C15_feldman_honest : forall p q g, 1 < p -> prime q -> powm g q p = 1 ->
  forall a x, a <> [] -> Forall (fun c => 0 <= c) a -> 0 <= x ->
  powm g (poly_eval q a x) p = rhs_prod p (fcommits p g a) x.
Proof. exact feldman_honest. Qed.
Print Assumptions C15_feldman_honest.

(* decision rules of the receiver, as equivalences against the model of PedersenVSS::Share(dealer) *)
Theorem C15_complaint_rule : forall p q g h As x s t c, recv_complaint p q g h As x s t = Some c ->
  (c = true <-> (in_range q s = false \/ in_range q t = false \/ forallb (check_element p q) As = false \/
                 share_ok p g h As x (zero_unless (in_range q s) s) (zero_unless (in_range q t) t) = Some false)).
Proof. exact complaint_rule. Qed.
Print Assumptions C15_complaint_rule.

Theorem C15_inconsistent_share_complains : forall p q g h As x s t,
  in_range q s = true -> in_range q t = true -> share_ok p g h As x s t = Some false ->
  recv_complaint p q g h As x s t = Some true.
Proof. exact inconsistent_share_complains. Qed.
Print Assumptions C15_inconsistent_share_complains.

Theorem C15_disqualified_rule : forall t c, disqualified t c = true <-> t < c.
Proof. exact disqualified_rule. Qed.
Print Assumptions C15_disqualified_rule.

Theorem C15_too_many_complaints_reject : forall p q g h n t i d As s tt streams res own,
  recv_complaint p q g h As (i + 1) s tt = Some own ->
  t < (if own then 1 else 0) + Z.of_nat (length (complaints_from n d streams)) ->
  exists sg ta, vss_receive p q g h n t i d As s tt streams res = Some {| vo_ret := false; vo_sigma := sg; vo_tau := ta |}.
Proof. exact too_many_complaints_reject. Qed.
Print Assumptions C15_too_many_complaints_reject.

(* the public resolution accepts exactly the dealer streams that answer every complaint, in order, with a valid pair *)
Theorem C15_resolve_rule : forall p q g h n i As from res sg ta, Forall (fun j => j < n) from ->
  ((exists sg' ta', resolve p q g h n i As from res false sg ta = Some (false, sg', ta')) <-> answered p q g h As from res).
Proof. exact resolve_rule. Qed.
Print Assumptions C15_resolve_rule.

(* a dealer that is accepted after complaints has published consistent pairs for all of them, the receiver's own included *)
Theorem C15_accept_means_answered : forall p q g h n t i d As s tt streams res own sg ta,
  i < n -> Forall (fun js => fst js < n) streams ->
  recv_complaint p q g h As (i + 1) s tt = Some own ->
  vss_receive p q g h n t i d As s tt streams res = Some {| vo_ret := true; vo_sigma := sg; vo_tau := ta |} ->
  answered p q g h As (recv_from n d i own streams) res \/ recv_from n d i own streams = [].
Proof. exact accept_means_answered. Qed.
Print Assumptions C15_accept_means_answered.

(* qualification is a function of broadcast values only: the verdict depends on the sorted list of complaining parties (every
   complaint, the receiver's own included, is broadcast) and on the dealer's broadcast answer, not on who evaluates it *)
Theorem C15_vss_verdict_from_broadcasts : forall p q g h n t i1 i2 d As s1 t1 s2 t2 streams1 streams2 res o1 o2 c1 c2,
  recv_complaint p q g h As (i1 + 1) s1 t1 = Some c1 -> recv_complaint p q g h As (i2 + 1) s2 t2 = Some c2 ->
  recv_from n d i1 c1 streams1 = recv_from n d i2 c2 streams2 ->
  vss_receive p q g h n t i1 d As s1 t1 streams1 res = Some o1 ->
  vss_receive p q g h n t i2 d As s2 t2 streams2 res = Some o2 -> vo_ret o1 = vo_ret o2.
Proof. exact verdict_from_broadcasts. Qed.
Print Assumptions C15_vss_verdict_from_broadcasts.

(* "disqualified or forced to publish consistent ones" (holds since fix 3258c3f in /repo; it was refuted on the tree before):
   a receiver that complained and accepts the dealer ends with a pair that matches the commitments ... *)
Theorem C15_complainer_corrected : forall p q g h n t i d As s tt streams res o,
  recv_complaint p q g h As (i + 1) s tt = Some true ->
  vss_receive p q g h n t i d As s tt streams res = Some o -> vo_ret o = true ->
  share_ok p g h As (i + 1) (vo_sigma o) (vo_tau o) = Some true.
Proof. exact complainer_corrected. Qed.
Print Assumptions C15_complainer_corrected.

(* ... and so does every accepting receiver that did not complain: each honest party's share matches the public values *)
Theorem C15_noncomplainer_consistent : forall p q g h n t i d As s tt streams res o,
  recv_complaint p q g h As (i + 1) s tt = Some false ->
  vss_receive p q g h n t i d As s tt streams res = Some o -> vo_ret o = true ->
  share_ok p g h As (i + 1) (vo_sigma o) (vo_tau o) = Some true.
Proof. exact noncomplainer_consistent. Qed.
Print Assumptions C15_noncomplainer_consistent.

(* key generation: every key share is the value of the joint polynomial F = sum_{j in QUAL} f_j ... *)
Theorem C15_dkg_share_joint : forall q P qual s x, 0 < q ->
  (forall j, In j qual -> nthz s j mod q = poly_eval q (P j) x) ->
  sum_qual q qual s = poly_eval q (joint P qual) x.
Proof. exact dkg_share_joint. Qed.
Print Assumptions C15_dkg_share_joint.

(* ... so any t+1 (or more) key shares reconstruct one and the same secret F(0) ... *)
Theorem C15_dkg_subsets_same_secret : forall q P qual tdeg pts r, prime q ->
  (forall j, In j qual -> (length (P j) <= tdeg)%nat) -> (tdeg <= length pts)%nat -> NoDup (map fst pts) ->
  (forall x y, In (x, y) pts -> 0 <= x < q /\ exists s, y = sum_qual q qual s /\ forall j, In j qual -> nthz s j mod q = poly_eval q (P j) x) ->
  lagrange0 q pts = Some r -> r = poly_eval q (joint P qual) 0.
Proof. exact dkg_subsets_same_secret. Qed.
Print Assumptions C15_dkg_subsets_same_secret.

(* ... whose public image is the key y = prod_{j in QUAL} g^z_j *)
Theorem C15_dkg_pubkey : forall p q g, 1 < p -> prime q -> powm g q p = 1 -> forall P qual ys, qual <> [] ->
  (forall j, In j qual -> Forall (fun c => 0 <= c) (P j) /\ nthz ys j = powm g (hd 0 (P j)) p) ->
  dkg_y p qual ys = powm g (poly_eval q (joint P qual) 0) p.
Proof. exact dkg_pubkey. Qed.
Print Assumptions C15_dkg_pubkey.

(* refresh: adding the shares of a sharing of zero yields shares of F + Z, which has the same secret; shares change *)
Theorem C15_refresh_preserves : forall q F Zp x, 0 < q -> hd 0 Zp = 0 ->
  refresh_share q (poly_eval q F x) (poly_eval q Zp x) = poly_eval q (padd F Zp) x /\
  poly_eval q (padd F Zp) 0 = poly_eval q F 0.
Proof. exact refresh_preserves. Qed.
Print Assumptions C15_refresh_preserves.

Theorem C15_refresh_changes : forall q x z, 0 < q -> 0 <= x < q -> z mod q <> 0 -> refresh_share q x z <> x.
Proof. exact refresh_changes. Qed.
Print Assumptions C15_refresh_changes.

(* ---- GJKR new-DKG, sharing phase as a round function (DkgRoundModel: the local computation of P_i from the broadcasts B of all
   parties and the pairs P it received point-to-point; deviating parties' messages are inputs) ------------------------------------ *)

(* QUAL computed by an honest party is a function of the broadcast values only ... *)
Theorem C15_qual_function_of_broadcasts : forall p q g h n t i B P,
  0 <= n < 2 ^ 64 -> 0 <= i < n ->
  b_compl (getB B i) = dkg_own_stream p q g h n i B P ->      (* P_i broadcast its complaint list and the end marker, as the code does *)
  ans_glob p q g h n B i = false ->                           (* its own published answers pass the public check (honest dealer) *)
  qual_view p q g h n t i B P = qual_glob p q g h n t B.
Proof. exact qual_view_is_global. Qed.
Print Assumptions C15_qual_function_of_broadcasts.

(* ... hence all honest parties agree on QUAL, given agreement of the broadcast layer (C14): the same B at both parties *)
Theorem C15_qual_agreement : forall p q g h n t i1 i2 B P1 P2,
  0 <= n < 2 ^ 64 -> 0 <= i1 < n -> 0 <= i2 < n ->
  b_compl (getB B i1) = dkg_own_stream p q g h n i1 B P1 -> b_compl (getB B i2) = dkg_own_stream p q g h n i2 B P2 ->
  ans_glob p q g h n B i1 = false -> ans_glob p q g h n B i2 = false ->
  qual_view p q g h n t i1 B P1 = qual_view p q g h n t i2 B P2.
Proof. exact qual_agreement. Qed.
Print Assumptions C15_qual_agreement.

(* the disqualification rule: more than t complaints, where the party's own complaint counts like everybody else's *)
Theorem C15_too_many_complaints_disqualify : forall p q g h n t i B P j,
  t < cnt_view p q g h n i B P j -> ~ In j (qual_view p q g h n t i B P).
Proof. exact too_many_complaints_disqualify. Qed.
Print Assumptions C15_too_many_complaints_disqualify.

Theorem C15_own_complaint_counts : forall p q g h n i B P w, 0 <= i < n ->
  cnt_view p q g h n i B P w =
  b2z (memz w (dkg_mine p q g h n i B P)) + zsum (fun j => if j =? i then 0 else b2z (memz w (acc_of n B j))) (parties n).
Proof. exact own_complaint_counts. Qed.
Print Assumptions C15_own_complaint_counts.

Theorem C15_justified_complaints_disqualify : forall p q g h n t i B P w, 0 <= i < n -> 0 <= w < n ->
  dkg_complains p q g h i B P w = true ->
  t <= zsum (fun j => if j =? i then 0 else b2z (memz w (acc_of n B j))) (parties n) ->
  ~ In w (qual_view p q g h n t i B P).
Proof. exact justified_complaints_disqualify. Qed.
Print Assumptions C15_justified_complaints_disqualify.

(* the pair of a qualified dealer that an honest party ends with satisfies equation (4) - PARTIAL: under the premise that the party had
   no reason to complain or the dealer's answers contain a pair for it (the code never checks that every complaint was answered) *)
Theorem C15_dkg_final_pair_consistent_partial : forall p q g h n t i B P j, 0 <= j < n ->
  In j (qual_view p q g h n t i B P) ->
  dkg_complains p q g h i B P j = false \/ (j <> i /\ ans_mentions (S (Z.to_nat n)) n i (b_ans (getB B j)) = true) ->
  share_okb p g h (viewC p q i j B) (i + 1) (fst (final_pair p q g h n t i B P j)) (snd (final_pair p q g h n t i B P j)) = true.
Proof. exact final_pair_consistent. Qed.
Print Assumptions C15_dkg_final_pair_consistent_partial.

(* the full statement (without that premise) is REFUTED on the model of the code as it is: a dealer that sends P_1 a wrong pair and answers
   the complaint with the end marker only stays qualified and P_1 keeps the inconsistent pair (n = 3, t = 1, p = 23, q = 11) *)
Theorem C15_dkg_shares_consistent_unconditional_refuted :
  In 0 (qual_view 23 11 2 3 3 1 1 wit_B wit_P) /\ dkg_defined 23 11 2 3 3 1 1 wit_B wit_P = true /\
  b_compl (getB wit_B 1) = dkg_own_stream 23 11 2 3 3 1 wit_B wit_P /\
  share_okb 23 2 3 (viewC 23 11 1 0 wit_B) 2 (fst (final_pair 23 11 2 3 3 1 1 wit_B wit_P 0)) (snd (final_pair 23 11 2 3 3 1 1 wit_B wit_P 0)) = false.
Proof. exact shares_consistent_unconditional_refuted. Qed.
Print Assumptions C15_dkg_shares_consistent_unconditional_refuted.

(* for every honest j: g^x_j h^x'_j = prod_{i in QUAL} prod_k C_ik^((j+1)^k), given the per-dealer consistency above *)
Theorem C15_dkg_shares_consistent : forall p q g h, 1 < p -> prime q -> powm g q p = 1 -> powm h q p = 1 ->
  forall n t i B P, 0 <= i ->
  (forall j, In j (qual_view p q g h n t i B P) ->
     0 <= fst (final_pair p q g h n t i B P j) /\ 0 <= snd (final_pair p q g h n t i B P j) /\
     share_ok p g h (viewC p q i j B) (i + 1) (fst (final_pair p q g h n t i B P j)) (snd (final_pair p q g h n t i B P j)) = Some true) ->
  (powm g (fst (view_x p q g h n t i B P)) p * powm h (snd (view_x p q g h n t i B P)) p) mod p =
  fold_right (fun j a => (rhs_prod p (viewC p q i j B) (i + 1) * a) mod p) (1 mod p) (qual_view p q g h n t i B P).
Proof. exact shares_consistent. Qed.
Print Assumptions C15_dkg_shares_consistent.

(* the key: y = prod_{i in QUAL} A_i0 is g to the secret that any t+1 (or more) key shares interpolate to, when the extraction values
   A_i0 = g^z_i of all QUAL members are consistent with their polynomials (as published, or as recomputed after reconstruction) *)
Theorem C15_dkg_key : forall p q g P qual ys tdeg pts r,
  1 < p -> prime q -> powm g q p = 1 -> qual <> [] ->
  (forall j, In j qual -> Forall (fun c => 0 <= c) (P j) /\ (length (P j) <= tdeg)%nat /\ nthz ys j = powm g (hd 0 (P j)) p) ->
  (tdeg <= length pts)%nat -> NoDup (map fst pts) ->
  (forall x y, In (x, y) pts -> 0 <= x < q /\ exists s, y = sum_qual q qual s /\ forall j, In j qual -> nthz s j mod q = poly_eval q (P j) x) ->
  lagrange0 q pts = Some r ->
  powm g r p = dkg_y p qual ys.
Proof. exact dkg_key. Qed.
Print Assumptions C15_dkg_key.

(* non-vacuity: a concrete group and sharing meeting the hypotheses; the formulas compute what they should *)
Example C15_nonvacuous_group : powm 2 11 23 = 1 /\ powm 3 11 23 = 1 /\ 2 mod 23 <> 1.
Proof. repeat split; try reflexivity. discriminate. Qed.
Example C15_nonvacuous_sharing :
  share_ok 23 2 3 (commits 23 2 3 [5; 4] [2; 7]) 2 (poly_eval 11 [5; 4] 2) (poly_eval 11 [2; 7] 2) = Some true /\
  lagrange0 11 [(1, poly_eval 11 [5; 4] 1); (3, poly_eval 11 [5; 4] 3)] = Some 5 /\
  lagrange0 11 [(2, poly_eval 11 [5; 4] 2); (3, poly_eval 11 [5; 4] 3)] = Some 5 /\
  interpolate 11 [(1, poly_eval 11 [5; 4] 1); (3, poly_eval 11 [5; 4] 3)] = Some [5; 4].
Proof. repeat split; vm_compute; reflexivity. Qed.
(* a wrong pair (3,5) is sent to receiver 1, it complains, the dealer publishes (2,5): accepted with the corrected pair *)
Example C15_nonvacuous_corrected :
  recv_complaint 23 11 2 3 (commits 23 2 3 [5; 4] [2; 7]) 2 3 5 = Some true /\
  vss_receive 23 11 2 3 3 1 1 0 (commits 23 2 3 [5; 4] [2; 7]) 3 5 [(2, [3])] [1; 2; 5] = Some {| vo_ret := true; vo_sigma := 2; vo_tau := 5 |}.
Proof. split; vm_compute; reflexivity. Qed.
Example C15_nonvacuous_answered : answered 23 11 2 3 (commits 23 2 3 [5; 4] [2; 7]) [2] [2; poly_eval 11 [5; 4] 3; poly_eval 11 [2; 7] 3].
Proof. constructor; try reflexivity. constructor. Qed.

(* the round function on a concrete run (three parties, one wrong pair, complaint answered): P_1 and the observer agree on QUAL *)
Example C15_nonvacuous_round :
  let B := [ mkB (commits 23 2 3 [5; 4] [2; 7]) [3] [1; 2; 5; 3];
             mkB (commits 23 2 3 [1; 2] [3; 4]) [0; 3] [3];
             mkB (commits 23 2 3 [6; 1] [0; 9]) [3] [3] ] in
  dkg_view 23 11 2 3 3 1 1 B wit_P = Some ([0; 1; 2], ((2 + poly_eval 11 [1; 2] 2 + poly_eval 11 [6; 1] 2) mod 11, (5 + poly_eval 11 [3; 4] 2 + poly_eval 11 [0; 9] 2) mod 11)) /\
  qual_glob 23 11 2 3 3 1 B = [0; 1; 2] /\ b_compl (getB B 1) = dkg_own_stream 23 11 2 3 3 1 B wit_P /\ ans_glob 23 11 2 3 3 B 1 = false.
Proof. repeat split; vm_compute; reflexivity. Qed.
