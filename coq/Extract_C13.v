From Coq Require Import Extraction ExtrOcamlBasic.
From LT Require Import CodecModel AioModel.
Extraction "model.ml" send send_all send_array sstate0 rstate0 recv_call run delivered fed stream_deliveries
  array_take sizeinbase62 buf_in_size hide_length array_delimiter.
