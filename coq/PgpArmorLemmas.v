(* C19 -- ASCII armor: the decoder model (ArmorDecode as implemented, std::string::find semantics) applied to
   what the encoder model emits.  Round trip for all non-empty data, refusal of the empty block, of a wrong
   checksum, of a missing blank line and of a nested block. *)
From Coq Require Import ZArith NArith List Bool Lia ZifyBool ZifyN.
From LT Require Import gen_Consts gen_Tables PgpCodecModel PgpCodecLemmas.
Import ListNotations.
Local Open Scope N_scope.

(* ---------- searching in a text whose prefix is known ---------- *)
Fixpoint pfx (pat A : list N) : option bool :=
  match pat, A with
  | [], _ => Some true
  | p :: pr, c :: ar => if p =? c then pfx pr ar else Some false
  | _ :: _, [] => None
  end.

Lemma pfx_sound pat A b X : pfx pat A = Some b -> prefix_at pat (A ++ X) = b.
Proof.
  revert A. induction pat as [|p pr IH]; intros A H.
  - cbn in H. inversion H. reflexivity.
  - destruct A as [|c ar]; [discriminate|]. cbn [pfx] in H. cbn [app prefix_at].
    destruct (p =? c); [|inversion H; reflexivity]. cbn [andb]. now apply IH.
Qed.

(* Some (Some p): first occurrence at p, inside A; Some None: no occurrence starts inside A; None: undecided *)
Fixpoint scan (pat A : list N) (pos : nat) : option (option nat) :=
  match A with
  | [] => Some None
  | c :: ar => match pfx pat A with
               | Some true => Some (Some pos)
               | Some false => scan pat ar (S pos)
               | None => None
               end
  end.

Lemma find_aux_step pat c r pos : prefix_at pat (c :: r) = false ->
  find_from_aux pat (c :: r) pos = find_from_aux pat r (S pos).
Proof. intro H. cbn [find_from_aux]. now rewrite H. Qed.

Lemma find_aux_hit pat s pos : prefix_at pat s = true -> find_from_aux pat s pos = Some pos.
Proof. intro H. destruct s; cbn [find_from_aux]; now rewrite H. Qed.

Lemma scan_found pat A pos p X : scan pat A pos = Some (Some p) -> find_from_aux pat (A ++ X) pos = Some p.
Proof.
  revert pos. induction A as [|c ar IH]; intros pos H; [discriminate|].
  cbn [scan] in H. destruct (pfx pat (c :: ar)) as [[|]|] eqn:E; try discriminate.
  - inversion H; subst. apply find_aux_hit. now apply pfx_sound.
  - cbn [app]. rewrite find_aux_step by (change (c :: ar ++ X) with ((c :: ar) ++ X); now apply pfx_sound). now apply IH.
Qed.

Lemma scan_notin pat A pos X : scan pat A pos = Some None ->
  find_from_aux pat (A ++ X) pos = find_from_aux pat X (pos + length A).
Proof.
  revert pos. induction A as [|c ar IH]; intros pos H.
  - cbn. now rewrite Nat.add_0_r.
  - cbn [scan] in H. destruct (pfx pat (c :: ar)) as [[|]|] eqn:E; try discriminate.
    cbn [app]. rewrite find_aux_step by (change (c :: ar ++ X) with ((c :: ar) ++ X); now apply pfx_sound).
    rewrite IH by assumption. cbn [length]. f_equal. lia.
Qed.

(* a stretch of text that does not contain the first character of the pattern *)
Lemma find_skip_free p pr M X pos : Forall (fun x => x <> p) M ->
  find_from_aux (p :: pr) (M ++ X) pos = find_from_aux (p :: pr) X (pos + length M).
Proof.
  revert pos. induction M as [|c M IH]; intros pos H.
  - cbn. now rewrite Nat.add_0_r.
  - inversion_clear H as [|? ? Hc HM]. cbn [app].
    rewrite find_aux_step by (cbn [prefix_at]; replace (p =? c) with false by lia; reflexivity).
    rewrite IH by assumption. cbn [length]. f_equal. lia.
Qed.

Lemma find_skip_free' pat p M X pos : hd_error pat = Some p -> Forall (fun x => x <> p) M ->
  find_from_aux pat (M ++ X) pos = find_from_aux pat X (pos + length M).
Proof. destruct pat as [|q pr]; [discriminate|]. cbn. intro H. inversion H; subst. apply find_skip_free. Qed.

Lemma find_shift pat s pos : find_from_aux pat s pos = option_map (fun k => (pos + k)%nat) (find_from_aux pat s 0).
Proof.
  revert pos. induction s as [|c r IH]; intro pos; cbn [find_from_aux].
  - destruct (prefix_at pat []); cbn; [now rewrite Nat.add_0_r|reflexivity].
  - destruct (prefix_at pat (c :: r)); cbn [option_map]; [now rewrite Nat.add_0_r|].
    rewrite (IH (S pos)), (IH 1%nat). destruct (find_from_aux pat r 0); cbn [option_map]; [f_equal; lia|reflexivity].
Qed.

Lemma find_from_0 pat s : find_from pat s 0 = find_from_aux pat s 0.
Proof. unfold find_from. cbn. reflexivity. Qed.

Lemma find_from_skip pat A X n : (n <= length A)%nat ->
  find_from pat (A ++ X) n = find_from_aux pat (skipn n A ++ X) n.
Proof.
  intro H. unfold find_from. rewrite app_length.
  replace (length A + length X <? n)%nat with false by lia.
  rewrite skipn_app. replace (n - length A)%nat with 0%nat by lia. reflexivity.
Qed.

(* ---------- the decoder, given where its searches land ---------- *)
Lemma armor_decode_run s t spos epos rpos cpos :
  armor_detect armor_types s = Some t ->
  find_from (strip_blanks (armor_begin t)) (strip_blanks s) 0 = Some spos ->
  find_from (strip_blanks (armor_end t)) (strip_blanks s) 0 = Some epos ->
  find_from [LF; LF] (strip_blanks s) spos = Some rpos ->
  find_from [LF; PAD] (strip_blanks s) spos = Some cpos ->
  find_from dashes (strip_blanks s) (spos + 33) = Some epos ->
  (spos + 24 < rpos)%nat -> (rpos + 2 < cpos)%nat -> (cpos + 6 < epos)%nat ->
  armor_decode s =
    let dec := radix64_decode (substr (strip_blanks s) (rpos + 2) (cpos - rpos - 2)) in
    if octets_eqb (crc24_encode dec) (substr (strip_blanks s) (cpos + 1) 5) then ArmOk t dec else ArmBadChecksum.
Proof.
  intros Hd Hs He Hr Hc Hn L1 L2 L3. unfold armor_decode. rewrite Hd. cbv zeta. rewrite Hs, He, Hr, Hc, Hn.
  rewrite Nat.eqb_refl. cbn [negb].
  replace (spos + 24 <? rpos)%nat with true by lia. replace (rpos + 2 <? cpos)%nat with true by lia.
  replace (cpos + 6 <? epos)%nat with true by lia. cbn [andb]. reflexivity.
Qed.

(* ---------- shape of the radix-64 text ---------- *)
Definition plainb (c : N) : bool :=
  negb (c =? 45) && negb (c =? 10) && negb (c =? 13) && negb (c =? 32) && negb (c =? 9).

Lemma r64_char_plain v : v < 64 -> plainb (r64_char v) = true /\ r64_char v <> PAD.
Proof.
  intro H.
  pose proof (forall_below 64 (fun v => plainb (r64_char v) && negb (r64_char v =? PAD)) eq_refl v H) as F.
  cbv beta in F. apply andb_true_iff in F as [F1 F2]. split; [assumption|]. unfold PAD in *. lia.
Qed.

Lemma plain_PAD : plainb PAD = true. Proof. reflexivity. Qed.

Lemma r64_chars_plain l : octets l -> Forall (fun c => plainb c = true) (r64_chars l).
Proof.
  unfold octets, octet. induction l as [|a|a b|a b c r IH] using list_ind3; intros H; cbn [r64_chars].
  - constructor.
  - inversion_clear H. repeat constructor; try apply plain_PAD; apply r64_char_plain; lia.
  - inversion_clear H as [|? ? Ha H']. inversion_clear H' as [|? ? Hb _].
    repeat constructor; try apply plain_PAD; apply r64_char_plain; lia.
  - inversion_clear H as [|? ? Ha H']. inversion_clear H' as [|? ? Hb H'']. inversion_clear H'' as [|? ? Hc Hr].
    repeat constructor; try (apply r64_char_plain; lia). now apply IH.
Qed.

(* no pad at a position that is a multiple of four *)
Lemma r64_chars_pad_pos l : octets l -> forall j, (j mod 4 = 0)%nat -> (j < length (r64_chars l))%nat ->
  nth j (r64_chars l) 0 <> PAD.
Proof.
  unfold octets, octet. induction l as [|a|a b|a b c r IH] using list_ind3; intros H j Hj Hl; cbn [r64_chars] in *.
  - cbn in Hl. lia.
  - inversion_clear H. cbn [length] in Hl. assert (j = 0%nat) by (destruct j as [|[|[|[|j]]]]; cbn in Hj; try lia; lia).
    subst. cbn [nth]. apply r64_char_plain. lia.
  - inversion_clear H. cbn [length] in Hl. assert (j = 0%nat) by (destruct j as [|[|[|[|j]]]]; cbn in Hj; try lia; lia).
    subst. cbn [nth]. apply r64_char_plain. lia.
  - inversion_clear H as [|? ? Ha H']. inversion_clear H' as [|? ? Hb H'']. inversion_clear H'' as [|? ? Hc Hr].
    destruct j as [|[|[|[|j]]]]; try (cbn in Hj; lia).
    + cbn [nth]. apply r64_char_plain. lia.
    + cbn [nth]. apply IH; [assumption| |cbn [length] in Hl; lia].
      replace (S (S (S (S j)))) with (j + 1 * 4)%nat in Hj by lia. now rewrite Nat.mod_add in Hj by lia.
Qed.

Fixpoint lines (fuel mc : nat) (l : list N) : list N :=
  match fuel with
  | O => l
  | S f => if (length l <=? mc)%nat then l else firstn mc l ++ LF :: lines f mc (skipn mc l)
  end.

Lemma strip_plain l : Forall (fun c => plainb c = true) l -> strip_blanks l = l.
Proof.
  induction 1 as [|c l Hc _ IH]; [reflexivity|]. unfold strip_blanks in *. cbn [filter]. rewrite IH.
  unfold plainb, is_blank in *. replace (negb ((c =? 32) || (c =? 9) || (c =? 13))) with true by lia. reflexivity.
Qed.

Lemma Forall_firstn {A} (P : A -> Prop) n l : Forall P l -> Forall P (firstn n l).
Proof. revert n. induction l; intros [|n] H; cbn; try constructor; inversion_clear H; auto. Qed.
Lemma Forall_skipn {A} (P : A -> Prop) n l : Forall P l -> Forall P (skipn n l).
Proof. revert n. induction l; intros [|n] H; cbn; auto. inversion_clear H; auto. Qed.

Lemma strip_wrap fuel mc l : Forall (fun c => plainb c = true) l -> strip_blanks (wrap_lines fuel mc l) = lines fuel mc l.
Proof.
  revert l. induction fuel as [|f IH]; intros l H; cbn [wrap_lines lines]; [now apply strip_plain|].
  destruct (length l <=? mc)%nat; [now apply strip_plain|].
  unfold strip_blanks. rewrite filter_app. cbn [filter]. cbn [is_blank CR LF N.eqb Pos.eqb orb negb].
  fold (strip_blanks (firstn mc l)). fold (strip_blanks (wrap_lines f mc (skipn mc l))).
  rewrite strip_plain by now apply Forall_firstn. rewrite IH by now apply Forall_skipn. reflexivity.
Qed.

Lemma lines_free c fuel mc l : c <> LF -> Forall (fun x => x <> c) l -> Forall (fun x => x <> c) (lines fuel mc l).
Proof.
  intro Hc. revert l. induction fuel as [|f IH]; intros l H; cbn [lines]; [assumption|].
  destruct (length l <=? mc)%nat; [assumption|].
  apply Forall_app. split; [now apply Forall_firstn|]. constructor; [congruence|]. apply IH. now apply Forall_skipn.
Qed.

Lemma wrap_free c fuel mc l : c <> LF -> c <> CR -> Forall (fun x => x <> c) l -> Forall (fun x => x <> c) (wrap_lines fuel mc l).
Proof.
  intros Hc Hc'. revert l. induction fuel as [|f IH]; intros l H; cbn [wrap_lines]; [assumption|].
  destruct (length l <=? mc)%nat; [assumption|].
  apply Forall_app. split; [now apply Forall_firstn|]. constructor; [congruence|]. constructor; [congruence|].
  apply IH. now apply Forall_skipn.
Qed.

Lemma lines_head fuel mc l d : mc <> 0%nat -> hd d (lines fuel mc l) = hd d l.
Proof.
  intro Hm. destruct fuel as [|f]; cbn [lines]; [reflexivity|].
  destruct (Nat.leb_spec (length l) mc); [reflexivity|].
  destruct mc as [|m]; [congruence|]. destruct l; [cbn in *; lia|reflexivity].
Qed.

Lemma lines_nonempty fuel mc l : l <> [] -> lines fuel mc l <> [].
Proof.
  intro H. destruct fuel as [|f]; cbn [lines]; [assumption|].
  destruct (length l <=? mc)%nat; [assumption|]. destruct (firstn mc l); discriminate.
Qed.

Definition good (x : N) (mc : nat) (l : list N) : Prop :=
  forall j, (j < length l)%nat -> (j mod mc = 0)%nat -> nth j l 0 <> x.

Lemma good_skipn x mc l : mc <> 0%nat -> good x mc l -> good x mc (skipn mc l).
Proof.
  intros Hm G j Hj Hmod. rewrite skipn_length in Hj.
  replace (nth j (skipn mc l) 0) with (nth (mc + j) l 0).
  - apply G; [lia|]. replace (mc + j)%nat with (j + 1 * mc)%nat by lia. now rewrite Nat.mod_add.
  - rewrite <- (firstn_skipn mc l) at 1. rewrite app_nth2; rewrite firstn_length; [f_equal; lia|lia].
Qed.

(* no line of the text starts with x, no line is empty: "LF x" does not occur in it *)
Lemma find_lf_lines x fuel mc l X pos : mc <> 0%nat -> Forall (fun c => c <> LF) l -> good x mc l ->
  find_from_aux [LF; x] (lines fuel mc l ++ X) pos = find_from_aux [LF; x] X (pos + length (lines fuel mc l)).
Proof.
  intros Hm. revert l pos. induction fuel as [|f IH]; intros l pos Hl G; cbn [lines].
  - now apply find_skip_free.
  - destruct (Nat.leb_spec (length l) mc) as [Hle|Hgt]; [now apply find_skip_free|].
    rewrite <- app_assoc. rewrite find_skip_free by now apply Forall_firstn.
    cbn [app].
    assert (Hne : skipn mc l <> []).
    { intro E. apply (f_equal (@length N)) in E. rewrite skipn_length in E. cbn in E. lia. }
    assert (Hh : hd 0 (lines f mc (skipn mc l) ++ X) <> x).
    { pose proof (lines_nonempty f mc _ Hne) as Hn. pose proof (lines_head f mc (skipn mc l) 0 Hm) as Hh.
      destruct (lines f mc (skipn mc l)) as [|c0 r0] eqn:E; [congruence|]. cbn [app hd] in *. rewrite Hh.
      destruct (skipn mc l) as [|s0 sr] eqn:E2; [congruence|]. cbn [hd].
      replace s0 with (nth mc l 0).
      - apply G; [lia|]. now apply Nat.mod_same.
      - rewrite <- (firstn_skipn mc l). rewrite app_nth2; rewrite firstn_length; [|lia].
        replace (mc - Nat.min mc (length l))%nat with 0%nat by lia. now rewrite E2. }
    rewrite find_aux_step.
    2:{ cbn [prefix_at]. rewrite N.eqb_refl. cbn [andb].
        destruct (lines f mc (skipn mc l) ++ X) as [|c0 r0]; [reflexivity|]. cbn [hd] in Hh.
        replace (x =? c0) with false by lia. reflexivity. }
    rewrite IH by (try apply Forall_skipn; try apply good_skipn; assumption).
    f_equal. rewrite !app_length. cbn [length]. lia.
Qed.

(* ---------- the emitted text ---------- *)
Definition head_g (sep : bool) (ty : armor_type) : list N := armor_begin ty ++ crlf ++ (if sep then crlf else []).
Definition head_s (ty : armor_type) : list N := head_g true ty.
Definition tail_s (ty : armor_type) : list N := crlf ++ armor_end ty ++ crlf.
Definition txt (ty : armor_type) (R C : list N) : list N := head_s ty ++ (R ++ crlf ++ C) ++ tail_s ty.
Definition bw (ty : armor_type) : list N := strip_blanks (armor_begin ty).
Definition ew (ty : armor_type) : list N := strip_blanks (armor_end ty).

Lemma armor_encode_txt ty data :
  armor_encode (Some ty) None [] data = txt ty (radix64_encode true data) (crc24_encode data).
Proof. unfold armor_encode, txt, head_s, head_g, tail_s. cbn [app]. now rewrite <- !app_assoc. Qed.

Definition dashfree (l : list N) : Prop := Forall (fun x => x <> 45) l.

Lemma plain_dashfree l : Forall (fun c => plainb c = true) l -> dashfree l.
Proof. unfold dashfree. apply Forall_impl. intros c H. unfold plainb in H. lia. Qed.
Lemma plain_nolf l : Forall (fun c => plainb c = true) l -> Forall (fun x => x <> LF) l.
Proof. apply Forall_impl. intros c H. unfold plainb, LF in *. lia. Qed.

Lemma strip_app a b : strip_blanks (a ++ b) = strip_blanks a ++ strip_blanks b.
Proof. apply filter_app. Qed.

Lemma strip_txt ty R C : Forall (fun c => plainb c = true) C ->
  strip_blanks (txt ty R C) = (bw ty ++ [LF; LF]) ++ (strip_blanks R ++ LF :: C) ++ (LF :: ew ty ++ [LF]).
Proof.
  intro HC. unfold txt, head_s, head_g, tail_s, bw, ew. rewrite !strip_app. rewrite (strip_plain C HC).
  change (strip_blanks crlf) with [LF]. reflexivity.
Qed.

(* per type facts, decided by evaluation *)
Lemma fact_begin ty : scan (bw ty) (bw ty ++ [LF; LF]) 0 = Some (Some 0%nat).
Proof. destruct ty; vm_compute; reflexivity. Qed.
Lemma fact_end_head ty : scan (ew ty) (bw ty ++ [LF; LF]) 0 = Some None.
Proof. destruct ty; vm_compute; reflexivity. Qed.
Lemma fact_end_tail ty : find_from_aux (ew ty) (LF :: ew ty ++ [LF]) 0 = Some 1%nat.
Proof. destruct ty; vm_compute; reflexivity. Qed.
Lemma fact_sep ty : scan [LF; LF] (bw ty ++ [LF; LF]) 0 = Some (Some (length (bw ty))).
Proof. destruct ty; vm_compute; reflexivity. Qed.
Lemma fact_chk ty : scan [LF; PAD] (bw ty) 0 = Some None.
Proof. destruct ty; vm_compute; reflexivity. Qed.
Lemma fact_len ty : (25 <= length (bw ty) <= 33)%nat.
Proof. destruct ty; vm_compute; lia. Qed.
Lemma fact_ew ty : exists r, ew ty = 45 :: r.
Proof. destruct ty; eexists; vm_compute; reflexivity. Qed.
Lemma fact_dash_tail ty : find_from_aux dashes (LF :: ew ty ++ [LF]) 0 = Some 1%nat.
Proof. destruct ty; vm_compute; reflexivity. Qed.

Definition same_type (a b : armor_type) : bool :=
  match a, b with
  | ArmMessage, ArmMessage | ArmSignature, ArmSignature | ArmPrivateKey, ArmPrivateKey
  | ArmPublicKey, ArmPublicKey | ArmFile, ArmFile => true
  | _, _ => false
  end.

(* detection on the unstripped text *)
Lemma detect_gen sep ty M : dashfree M -> armor_detect armor_types (head_g sep ty ++ M ++ tail_s ty) = Some ty.
Proof.
  intro HM. unfold dashfree in HM.
  assert (B : forall t', find_from (armor_begin t') (head_g sep ty ++ M ++ tail_s ty) 0 =
                         if same_type t' ty then Some 0%nat else None).
  { intro t'. rewrite find_from_0. destruct sep, t', ty; cbn [same_type];
      first [ rewrite (scan_found _ (head_g _ _) 0 0) by (vm_compute; reflexivity); reflexivity
            | rewrite (scan_notin _ (head_g _ _) 0) by (vm_compute; reflexivity);
              rewrite (find_skip_free' _ 45 M) by (try assumption; vm_compute; reflexivity);
              rewrite find_shift;
              match goal with |- option_map _ ?f = _ => replace f with (@None nat) by (vm_compute; reflexivity) end;
              reflexivity ]. }
  assert (E : exists e, find_from (armor_end ty) (head_g sep ty ++ M ++ tail_s ty) 0 = Some (S e)).
  { rewrite find_from_0. rewrite (scan_notin _ (head_g sep ty) 0) by (destruct sep, ty; vm_compute; reflexivity).
    destruct ty; rewrite (find_skip_free' _ 45 M) by (try assumption; vm_compute; reflexivity); rewrite find_shift;
      match goal with |- exists e, option_map _ ?f = _ => replace f with (Some 2%nat) by (vm_compute; reflexivity) end;
      cbn [option_map]; eexists; f_equal; rewrite Nat.add_succ_r; reflexivity. }
  destruct E as [e E].
  unfold armor_types.
  destruct ty; cbn [armor_detect]; rewrite ?B; cbn [same_type];
    rewrite E; reflexivity.
Qed.

Lemma detect_txt ty M : dashfree M -> armor_detect armor_types (head_s ty ++ M ++ tail_s ty) = Some ty.
Proof. apply detect_gen. Qed.

(* ---------- the radix-64 part of the block ---------- *)
Lemma mc_value : radix64_mc = 64%nat. Proof. vm_compute. reflexivity. Qed.

Definition Rw (data : list N) : list N := lines (length (r64_chars data)) radix64_mc (r64_chars data).

Lemma strip_radix data : octets data -> strip_blanks (radix64_encode true data) = Rw data.
Proof.
  intro H. unfold radix64_encode, Rw. rewrite mc_value. cbn [Nat.eqb].
  apply strip_wrap. now apply r64_chars_plain.
Qed.

Lemma radix_dashfree data : octets data -> dashfree (radix64_encode true data).
Proof.
  intro H. unfold radix64_encode. rewrite mc_value. cbn [Nat.eqb].
  apply wrap_free; [discriminate|discriminate|]. apply plain_dashfree. now apply r64_chars_plain.
Qed.

Lemma Rw_dashfree data : octets data -> dashfree (Rw data).
Proof. intro H. apply lines_free; [discriminate|]. apply plain_dashfree. now apply r64_chars_plain. Qed.

Lemma r64_chars_head data : octets data -> data <> [] -> exists v r, v < 64 /\ r64_chars data = r64_char v :: r.
Proof.
  unfold octets, octet. intros H Hn. destruct data as [|a [|b [|c r]]]; [congruence| | |]; cbn [r64_chars];
    inversion_clear H as [|? ? Ha H']; exists (a / 4); eexists; (split; [lia|reflexivity]).
Qed.

Lemma Rw_head data : octets data -> data <> [] -> exists v r, v < 64 /\ Rw data = r64_char v :: r.
Proof.
  intros H Hn. destruct (r64_chars_head data H Hn) as [v [r [Hv E]]].
  assert (Hm : radix64_mc <> 0%nat) by (rewrite mc_value; discriminate).
  pose proof (lines_head (length (r64_chars data)) radix64_mc (r64_chars data) 0 Hm) as Hh.
  pose proof (lines_nonempty (length (r64_chars data)) radix64_mc (r64_chars data)) as Hne.
  fold (Rw data) in Hh, Hne. destruct (Rw data) as [|c0 r0]; [exfalso; apply Hne; [rewrite E; discriminate|reflexivity]|].
  rewrite E in Hh. cbn [hd] in Hh. subst. exists v, r0. now split.
Qed.

Lemma Rw_find x data X pos : octets data -> (x = LF \/ x = PAD) ->
  find_from_aux [LF; x] (Rw data ++ X) pos = find_from_aux [LF; x] X (pos + length (Rw data)).
Proof.
  intros H Hx. unfold Rw. apply find_lf_lines.
  - rewrite mc_value. discriminate.
  - apply plain_nolf. now apply r64_chars_plain.
  - intros j Hj Hmod. destruct Hx as [->| ->].
    + pose proof (plain_nolf _ (r64_chars_plain data H)) as F. rewrite Forall_forall in F. apply F. now apply nth_In.
    + apply r64_chars_pad_pos; [assumption| |assumption]. rewrite mc_value in Hmod.
      apply Nat.mod_divides in Hmod; [|discriminate]. destruct Hmod as [k ->].
      replace (64 * k)%nat with (16 * k * 4)%nat by lia. now apply Nat.mod_mul.
Qed.

Lemma strip_idem_keep l : filter r64_keep (strip_blanks l) = filter r64_keep l.
Proof.
  induction l as [|c l IH]; [reflexivity|]. unfold strip_blanks in *. cbn [filter].
  destruct (is_blank c) eqn:E; cbn [negb filter].
  - rewrite IH. replace (r64_keep c) with false; [reflexivity|].
    unfold is_blank in E. symmetry.
    destruct (N.eqb_spec c 32) as [->|]; [reflexivity|]. destruct (N.eqb_spec c 9) as [->|]; [reflexivity|].
    destruct (N.eqb_spec c 13) as [->|]; [reflexivity|]. discriminate.
  - now rewrite IH.
Qed.

Lemma Rw_decode data : octets data -> radix64_decode (Rw data) = data.
Proof.
  intro H. rewrite <- (strip_radix data H). unfold radix64_decode. rewrite strip_idem_keep.
  apply (radix64_roundtrip true data H).
Qed.

Lemma crc_line_shape data : exists c1 c2 c3 c4,
  crc24_encode data = [PAD; c1; c2; c3; c4] /\ Forall (fun c => plainb c = true) [c1; c2; c3; c4].
Proof.
  unfold crc24_encode. destruct (crc24_octets_ok data) as [Ho _].
  pose proof (r64_chars_plain _ Ho) as Hp.
  unfold radix64_encode. rewrite mc_value. cbn [Nat.eqb]. unfold crc24_octets, be3 in *. cbn [r64_chars] in *.
  rewrite wrap_short by (cbn; lia). do 4 eexists. split; [reflexivity|]. exact Hp.
Qed.

(* ---------- the decoder on an encoder-shaped block with an arbitrary checksum line ---------- *)
Lemma substr_mid (a b c : list N) : substr (a ++ b ++ c) (length a) (length b) = b.
Proof. now apply substr_app_exact. Qed.

Theorem armor_decode_block : forall ty data c1 c2 c3 c4, octets data -> data <> [] ->
  Forall (fun c => plainb c = true) [c1; c2; c3; c4] ->
  armor_decode (txt ty (radix64_encode true data) [PAD; c1; c2; c3; c4]) =
    if octets_eqb (crc24_encode data) [PAD; c1; c2; c3; c4] then ArmOk ty data else ArmBadChecksum.
Proof.
  intros ty data c1 c2 c3 c4 Ho Hne Hc.
  set (C := [PAD; c1; c2; c3; c4]).
  assert (HC : Forall (fun c => plainb c = true) C) by (constructor; [reflexivity|assumption]).
  set (R := radix64_encode true data).
  assert (Hs : strip_blanks (txt ty R C) = (bw ty ++ [LF; LF]) ++ (Rw data ++ LF :: C) ++ (LF :: ew ty ++ [LF])).
  { rewrite strip_txt by assumption. unfold R. now rewrite strip_radix. }
  set (hb := length (bw ty)). set (n := length (Rw data)).
  pose proof (fact_len ty) as Hlen. fold hb in Hlen.
  destruct (Rw_head data Ho Hne) as [v0 [r0 [Hv0 ERw]]].
  assert (Hn : (1 <= n)%nat) by (unfold n; rewrite ERw; cbn; lia).
  assert (Mfree : Forall (fun x => x <> 45) (Rw data ++ LF :: C)).
  { apply Forall_app. split; [apply Rw_dashfree; assumption|]. constructor; [discriminate|]. now apply plain_dashfree. }
  destruct (fact_ew ty) as [er Eew].
  (* epos *)
  assert (Hepos : find_from (ew ty) (strip_blanks (txt ty R C)) 0 = Some (hb + 2 + (n + 6) + 1)%nat).
  { rewrite Hs, find_from_0. rewrite scan_notin by apply fact_end_head.
    rewrite (find_skip_free' _ 45) by (try assumption; rewrite Eew; reflexivity).
    rewrite find_shift, fact_end_tail. cbn [option_map]. f_equal.
    rewrite !app_length. unfold C. cbn [length]. fold hb n. lia. }
  rewrite (armor_decode_run _ ty 0 (hb + 2 + (n + 6) + 1) hb (hb + 2 + n)).
  - (* result *)
    cbv zeta. rewrite Hs.
    replace (hb + 2 + n - hb - 2)%nat with n by lia.
    replace (substr ((bw ty ++ [LF; LF]) ++ (Rw data ++ LF :: C) ++ LF :: ew ty ++ [LF]) (hb + 2) n) with (Rw data).
    2:{ rewrite <- (app_assoc (Rw data)). symmetry. replace (hb + 2)%nat with (length (bw ty ++ [LF; LF])) by (rewrite app_length; cbn; reflexivity).
        apply substr_mid. }
    replace (substr ((bw ty ++ [LF; LF]) ++ (Rw data ++ LF :: C) ++ LF :: ew ty ++ [LF]) (hb + 2 + n + 1) 5) with C.
    2:{ symmetry.
        replace ((bw ty ++ [LF; LF]) ++ (Rw data ++ LF :: C) ++ LF :: ew ty ++ [LF])
          with (((bw ty ++ [LF; LF]) ++ Rw data ++ [LF]) ++ C ++ (LF :: ew ty ++ [LF]))
          by (rewrite <- !app_assoc; cbn [app]; reflexivity).
        replace (hb + 2 + n + 1)%nat with (length ((bw ty ++ [LF; LF]) ++ Rw data ++ [LF])) by (rewrite !app_length; cbn [length]; fold hb n; lia).
        apply (substr_mid _ C). }
    rewrite Rw_decode by assumption. reflexivity.
  - apply detect_txt. unfold R. apply Forall_app. split; [now apply radix_dashfree|].
    constructor; [discriminate|]. constructor; [discriminate|]. now apply plain_dashfree.
  - fold (bw ty). rewrite Hs, find_from_0. now rewrite (scan_found _ _ _ _ _ (fact_begin ty)).
  - exact Hepos.
  - rewrite Hs, find_from_0. now rewrite (scan_found _ _ _ _ _ (fact_sep ty)).
  - (* checksum line *)
    rewrite Hs, find_from_0. rewrite <- !app_assoc.
    rewrite scan_notin by apply fact_chk. cbn [app]. rewrite ERw. cbn [app].
    rewrite find_aux_step by reflexivity.
    rewrite find_aux_step.
    2:{ cbn [prefix_at]. rewrite N.eqb_refl. cbn [andb]. destruct (r64_char_plain v0 Hv0) as [_ Hp].
        replace (PAD =? r64_char v0) with false by lia. reflexivity. }
    change (r64_char v0 :: r0 ++ LF :: C ++ LF :: ew ty ++ [LF]) with ((r64_char v0 :: r0) ++ LF :: C ++ LF :: ew ty ++ [LF]).
    rewrite <- ERw. rewrite Rw_find by (try assumption; now right).
    rewrite find_aux_hit by reflexivity. f_equal. fold hb n. lia.
  - (* nested check *)
    rewrite Hs. rewrite app_assoc.
    rewrite find_from_skip by (rewrite !app_length; unfold C; cbn [length]; fold hb n; lia).
    assert (Hfree : Forall (fun x => x <> 45) (skipn 33 ((bw ty ++ [LF; LF]) ++ Rw data ++ LF :: C))).
    { rewrite <- app_assoc. rewrite skipn_app. rewrite (skipn_all2 (bw ty)) by (fold hb; lia). cbn [app].
      apply Forall_skipn. constructor; [discriminate|]. constructor; [discriminate|]. assumption. }
    rewrite (find_skip_free' _ 45) by (try assumption; reflexivity).
    rewrite find_shift, fact_dash_tail. cbn [option_map]. f_equal.
    rewrite skipn_length, !app_length. unfold C. cbn [length]. fold hb n. lia.
  - lia.
  - lia.
  - lia.
Qed.

Lemma octets_eqb_refl a : octets_eqb a a = true.
Proof. induction a; cbn; [reflexivity|]. now rewrite N.eqb_refl. Qed.
Lemma octets_eqb_true a b : octets_eqb a b = true -> a = b.
Proof.
  revert b. induction a as [|x a IH]; intros [|y b] H; cbn in H; try discriminate; [reflexivity|].
  apply andb_true_iff in H as [H1 H2]. apply N.eqb_eq in H1. apply IH in H2. now subst.
Qed.

(* every non-empty octet string survives armoring, for every block type *)
Theorem armor_roundtrip : forall ty data, octets data -> data <> [] ->
  armor_decode (armor_encode (Some ty) None [] data) = ArmOk ty data.
Proof.
  intros ty data Ho Hne. rewrite armor_encode_txt.
  destruct (crc_line_shape data) as [c1 [c2 [c3 [c4 [E Hp]]]]]. rewrite E.
  rewrite armor_decode_block by assumption. rewrite E. now rewrite octets_eqb_refl.
Qed.

(* ... but the block emitted for the empty string is refused: the decoder wants at least one data character *)
Theorem armor_roundtrip_empty_refuted : forall ty, armor_decode (armor_encode (Some ty) None [] []) = ArmBadLayout.
Proof. destruct ty; vm_compute; reflexivity. Qed.

(* any other well-formed checksum line is refused *)
Theorem armor_rejects_wrong_checksum : forall ty data c1 c2 c3 c4, octets data -> data <> [] ->
  Forall (fun c => plainb c = true) [c1; c2; c3; c4] -> [PAD; c1; c2; c3; c4] <> crc24_encode data ->
  armor_decode (txt ty (radix64_encode true data) [PAD; c1; c2; c3; c4]) = ArmBadChecksum.
Proof.
  intros ty data c1 c2 c3 c4 Ho Hne Hp Hd. rewrite armor_decode_block by assumption.
  destruct (octets_eqb (crc24_encode data) [PAD; c1; c2; c3; c4]) eqn:E; [|reflexivity].
  apply octets_eqb_true in E. congruence.
Qed.

(* the same data under a different (wrong) checksum: changed data with the old checksum line is refused *)
Corollary armor_rejects_changed_data : forall ty d1 d2, octets d1 -> octets d2 -> d2 <> [] ->
  crc24_encode d1 <> crc24_encode d2 ->
  armor_decode (txt ty (radix64_encode true d2) (crc24_encode d1)) = ArmBadChecksum.
Proof.
  intros ty d1 d2 H1 H2 Hne Hd. destruct (crc_line_shape d1) as [c1 [c2 [c3 [c4 [E Hp]]]]]. rewrite E in *.
  now apply armor_rejects_wrong_checksum.
Qed.

(* no blank line between header line and data *)
Lemma fact_nosep ty : scan [LF; LF] (bw ty) 0 = Some None.
Proof. destruct ty; vm_compute; reflexivity. Qed.
Lemma fact_begin1 ty : scan (bw ty) (bw ty ++ [LF]) 0 = Some (Some 0%nat).
Proof. destruct ty; vm_compute; reflexivity. Qed.
Lemma fact_nosep_tail ty : find_from_aux [LF; LF] (LF :: ew ty ++ [LF]) 0 = None.
Proof. destruct ty; vm_compute; reflexivity. Qed.

Theorem armor_rejects_missing_separator : forall ty data, octets data -> data <> [] ->
  armor_decode (head_g false ty ++ (radix64_encode true data ++ crlf ++ crc24_encode data) ++ tail_s ty) = ArmNoSeparator.
Proof.
  intros ty data Ho Hne.
  destruct (crc_line_shape data) as [c1 [c2 [c3 [c4 [E Hp]]]]]. rewrite E.
  set (C := [PAD; c1; c2; c3; c4]).
  assert (HC : Forall (fun c => plainb c = true) C) by (constructor; [reflexivity|assumption]).
  assert (Hs : strip_blanks (head_g false ty ++ (radix64_encode true data ++ crlf ++ C) ++ tail_s ty)
               = (bw ty ++ [LF]) ++ (Rw data ++ LF :: C) ++ (LF :: ew ty ++ [LF])).
  { unfold head_g, tail_s, bw, ew. rewrite !strip_app. rewrite (strip_plain C HC), strip_radix by assumption.
    change (strip_blanks crlf) with [LF]. change (strip_blanks []) with (@nil N). now rewrite app_nil_r. }
  destruct (Rw_head data Ho Hne) as [v0 [r0 [Hv0 ERw]]].
  unfold armor_decode. rewrite detect_gen.
  2:{ apply Forall_app. split; [now apply radix_dashfree|].
      constructor; [discriminate|]. constructor; [discriminate|]. now apply plain_dashfree. }
  cbv zeta. fold (bw ty). rewrite Hs. rewrite find_from_0.
  rewrite (scan_found _ _ _ _ _ (fact_begin1 ty)).
  rewrite find_from_0. rewrite <- !app_assoc.
  rewrite scan_notin by apply fact_nosep. cbn [app]. rewrite ERw. cbn [app].
  rewrite find_aux_step.
  2:{ cbn [prefix_at]. rewrite N.eqb_refl. cbn [andb]. destruct (r64_char_plain v0 Hv0) as [Hp0 _].
      unfold plainb in Hp0. replace (LF =? r64_char v0) with false by (unfold LF; lia). reflexivity. }
  change (r64_char v0 :: r0 ++ LF :: C ++ LF :: ew ty ++ [LF]) with ((r64_char v0 :: r0) ++ LF :: C ++ LF :: ew ty ++ [LF]).
  rewrite <- ERw. rewrite Rw_find by (try assumption; now left).
  rewrite find_aux_step by reflexivity.
  rewrite (find_skip_free LF [LF] C) by (now apply plain_nolf).
  rewrite find_shift, fact_nosep_tail. reflexivity.
Qed.

(* ---------- a complete block nested inside another one ---------- *)
Lemma fact_nested ty : exists p,
  scan dashes (skipn 33 ((bw ty ++ [LF; LF]) ++ (bw ty ++ [LF; LF]))) 33 = Some (Some p) /\
  (p < 2 * (length (bw ty) + 2))%nat.
Proof. destruct ty; eexists; (split; [vm_compute; reflexivity|vm_compute; lia]). Qed.
Lemma fact_end_tail_scan ty : scan (ew ty) (LF :: ew ty ++ [LF]) 0 = Some (Some 1%nat).
Proof. destruct ty; vm_compute; reflexivity. Qed.

Lemma scan_shift pat A pos : scan pat A pos = option_map (option_map (fun k => (pos + k)%nat)) (scan pat A 0).
Proof.
  revert pos. induction A as [|c ar IH]; intro pos; cbn [scan]; [reflexivity|].
  destruct (pfx pat (c :: ar)) as [[|]|]; cbn [option_map]; [now rewrite Nat.add_0_r| |reflexivity].
  rewrite (IH (S pos)), (IH 1%nat). destruct (scan pat ar 0) as [[k|]|]; cbn [option_map]; try reflexivity.
  do 2 f_equal. lia.
Qed.

Lemma detect_nested ty M2 M : dashfree M2 -> dashfree M ->
  armor_detect armor_types (head_s ty ++ (head_s ty ++ M2 ++ tail_s ty) ++ M ++ tail_s ty) = Some ty.
Proof.
  intros H2 HM. unfold dashfree in *.
  assert (B : forall t', find_from (armor_begin t') (head_s ty ++ (head_s ty ++ M2 ++ tail_s ty) ++ M ++ tail_s ty) 0 =
                         if same_type t' ty then Some 0%nat else None).
  { intro t'. rewrite find_from_0. rewrite <- !app_assoc. destruct t', ty; cbn [same_type];
      first [ rewrite (scan_found _ (head_s _) 0 0) by (vm_compute; reflexivity); reflexivity
            | rewrite (scan_notin _ (head_s _) 0) by (vm_compute; reflexivity);
              rewrite (scan_notin _ (head_s _)) by (rewrite scan_shift; vm_compute; reflexivity);
              rewrite (find_skip_free' _ 45 M2) by (try assumption; vm_compute; reflexivity);
              rewrite (scan_notin _ (tail_s _)) by (rewrite scan_shift; vm_compute; reflexivity);
              rewrite (find_skip_free' _ 45 M) by (try assumption; vm_compute; reflexivity);
              rewrite find_shift;
              match goal with |- option_map _ ?f = _ => replace f with (@None nat) by (vm_compute; reflexivity) end;
              reflexivity ]. }
  assert (E : exists e, find_from (armor_end ty) (head_s ty ++ (head_s ty ++ M2 ++ tail_s ty) ++ M ++ tail_s ty) 0 = Some (S e)).
  { rewrite find_from_0. rewrite <- !app_assoc.
    rewrite (scan_notin _ (head_s ty) 0) by (destruct ty; vm_compute; reflexivity).
    rewrite (scan_notin _ (head_s ty)) by (rewrite scan_shift; destruct ty; vm_compute; reflexivity).
    rewrite (find_skip_free' _ 45 M2) by (try assumption; destruct ty; vm_compute; reflexivity).
    rewrite find_shift.
    rewrite (scan_found _ (tail_s ty) 0 2) by (destruct ty; vm_compute; reflexivity).
    cbn [option_map]. eexists. f_equal. rewrite Nat.add_succ_r. reflexivity. }
  destruct E as [e E].
  unfold armor_types.
  destruct ty; cbn [armor_detect]; rewrite ?B; cbn [same_type];
    rewrite E; reflexivity.
Qed.

Theorem armor_rejects_nested : forall ty d1 d2, octets d1 -> octets d2 ->
  armor_decode (head_s ty ++ armor_encode (Some ty) None [] d2
                ++ (radix64_encode true d1 ++ crlf ++ crc24_encode d1) ++ tail_s ty) = ArmNested.
Proof.
  intros ty d1 d2 H1 H2. rewrite armor_encode_txt. unfold txt.
  destruct (crc_line_shape d1) as [a1 [a2 [a3 [a4 [E1 P1]]]]].
  destruct (crc_line_shape d2) as [b1 [b2 [b3 [b4 [E2 P2]]]]]. rewrite E1, E2.
  set (C1 := [PAD; a1; a2; a3; a4]). set (C2 := [PAD; b1; b2; b3; b4]).
  assert (HC1 : Forall (fun c => plainb c = true) C1) by (constructor; [reflexivity|assumption]).
  assert (HC2 : Forall (fun c => plainb c = true) C2) by (constructor; [reflexivity|assumption]).
  set (M1 := radix64_encode true d1 ++ crlf ++ C1). set (M2 := radix64_encode true d2 ++ crlf ++ C2).
  assert (F1 : dashfree M1).
  { apply Forall_app. split; [now apply radix_dashfree|]. constructor; [discriminate|]. constructor; [discriminate|]. now apply plain_dashfree. }
  assert (F2 : dashfree M2).
  { apply Forall_app. split; [now apply radix_dashfree|]. constructor; [discriminate|]. constructor; [discriminate|]. now apply plain_dashfree. }
  set (Hw := bw ty ++ [LF; LF]). set (Tw := LF :: ew ty ++ [LF]).
  set (W1 := Rw d1 ++ LF :: C1). set (W2 := Rw d2 ++ LF :: C2).
  assert (G1 : Forall (fun x => x <> 45) W1).
  { apply Forall_app. split; [now apply Rw_dashfree|]. constructor; [discriminate|]. now apply plain_dashfree. }
  assert (G2 : Forall (fun x => x <> 45) W2).
  { apply Forall_app. split; [now apply Rw_dashfree|]. constructor; [discriminate|]. now apply plain_dashfree. }
  assert (Hs : strip_blanks (head_s ty ++ (head_s ty ++ M2 ++ tail_s ty) ++ M1 ++ tail_s ty)
               = Hw ++ (Hw ++ W2 ++ Tw) ++ W1 ++ Tw).
  { unfold head_s, head_g, tail_s, M1, M2, Hw, Tw, W1, W2, bw, ew. cbv beta iota. rewrite !strip_app.
    rewrite (strip_plain C1 HC1), (strip_plain C2 HC2), !strip_radix by assumption.
    change (strip_blanks crlf) with [LF]. repeat (rewrite <- !app_assoc; cbn [app]). reflexivity. }
  destruct (fact_ew ty) as [er Eew].
  pose proof (fact_len ty) as Hlen. set (hb := length (bw ty)) in *.
  assert (HlenHw : length Hw = (hb + 2)%nat) by (unfold Hw; rewrite app_length; reflexivity).
  set (w := Hw ++ (Hw ++ W2 ++ Tw) ++ W1 ++ Tw) in *.
  assert (Es : find_from (bw ty) w 0 = Some 0%nat).
  { unfold w. rewrite find_from_0. unfold Hw at 1. now rewrite (scan_found _ _ _ _ _ (fact_begin ty)). }
  assert (Ee : find_from (ew ty) w 0 = Some (hb + 2 + (hb + 2) + length W2 + 1)%nat).
  { unfold w. rewrite find_from_0. rewrite <- !app_assoc. unfold Hw at 1. rewrite scan_notin by apply fact_end_head.
    unfold Hw at 1. rewrite scan_notin by (rewrite scan_shift, fact_end_head; reflexivity).
    rewrite (find_skip_free' _ 45 W2) by (try assumption; rewrite Eew; reflexivity).
    rewrite find_shift. unfold Tw at 1.
    rewrite (scan_found _ _ _ _ _ (fact_end_tail_scan ty)). cbn [option_map]. f_equal.
    rewrite !app_length. cbn [length]. fold hb. lia. }
  assert (Er : find_from [LF; LF] w 0 = Some hb).
  { unfold w. rewrite find_from_0. unfold Hw at 1. now rewrite (scan_found _ _ _ _ _ (fact_sep ty)). }
  destruct (fact_nested ty) as [p [Hp Hlt]]. fold hb in Hlt.
  assert (En : find_from dashes w (0 + 33) = Some p).
  { unfold w. cbn [Nat.add]. rewrite <- !app_assoc. rewrite (app_assoc Hw Hw).
    rewrite find_from_skip by (rewrite app_length, HlenHw; lia).
    unfold Hw. now rewrite (scan_found _ _ _ _ _ Hp). }
  unfold armor_decode. rewrite detect_nested by assumption. cbv zeta. fold (bw ty) (ew ty). rewrite Hs.
  rewrite Es, Ee, Er, En.
  replace (p =? hb + 2 + (hb + 2) + length W2 + 1)%nat with false by lia. reflexivity.
Qed.
