From Coq Require Import Extraction ExtrOcamlBasic.
From LT Require Import SamplerModel ShuffleModel.
Extraction "model.ml" random_mod grandomm grandomb create_stack_secret nomodbias_max fisher_yates cache_run.
