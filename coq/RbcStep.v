(* RbcStep: what one received message does to the protocol state of a party (C14): filters, echo/ready counters, dbar, mbar,
   messages sent, deliveries -- the local facts the network invariants of RbcAgreement.v are built from. *)
From Coq Require Import ZArith List Bool Lia FinFun.
From LT Require Import RbcModel RbcLemmas.
Import ListNotations.
Local Open Scope Z_scope.

(* boolean hypotheses to propositions *)
Ltac b2p :=
  repeat match goal with
  | H : _ && _ = true |- _ => apply andb_true_iff in H; destruct H
  | H : _ || _ = false |- _ => apply orb_false_iff in H; destruct H
  | H : negb _ = true |- _ => apply negb_true_iff in H
  | H : negb _ = false |- _ => apply negb_false_iff in H
  | H : (_ =? _) = true |- _ => apply Z.eqb_eq in H
  | H : tag_eqb _ _ = true |- _ => apply tag_eqb_eq in H
  | H : tag_eqb _ _ = false |- _ => apply tag_eqb_neq in H
  | H : (_ =? _) = false |- _ => apply Z.eqb_neq in H
  | H : (_ <? _) = true |- _ => apply Z.ltb_lt in H
  | H : (_ <? _) = false |- _ => apply Z.ltb_ge in H
  | H : (_ <=? _) = true |- _ => apply Z.leb_le in H
  | H : (_ <=? _) = false |- _ => apply Z.leb_gt in H
  | H : (_ >? _) = true |- _ => rewrite Z.gtb_ltb in H; apply Z.ltb_lt in H
  | H : (_ >? _) = false |- _ => rewrite Z.gtb_ltb in H; apply Z.ltb_ge in H
  | H : (_ >=? _) = true |- _ => rewrite Z.geb_leb in H; apply Z.leb_le in H
  | H : (_ >=? _) = false |- _ => rewrite Z.geb_leb in H; apply Z.leb_gt in H
  end.

Lemma try_deliver_cases : forall st tg st' r, try_deliver st tg = (st', r) ->
  (r = RThrow /\ st' = st /\ mbar st tg = None) \/
  (exists who v, r = RDeliver who tg v /\ mbar st tg = Some v /\ st' = set_dls st (updZ (dls st) who (dls st who + 1))) \/
  (r = RNone /\ st' = set_dbuf st (dbuf st ++ [tg])).
Proof.
  intros st [[id who] s] st' r. unfold try_deliver.
  destruct ((id =? cur st) && (fifo st && (s =? dls st who) || negb (fifo st))).
  - destruct (mbar st (id, who, s)) eqn:M; intros E; inversion E; subst; clear E.
    + right; left. eauto.
    + left. auto.
  - intros E; inversion E; subst. right; right. auto.
Qed.

Lemma upd2_eq : forall f k d v x y, upd2 f k d v x y = if tag_eqb x k && (y =? d) then v else f x y.
Proof. reflexivity. Qed.
Lemma upd2_same : forall f k d v, upd2 f k d v k d = v.
Proof. intros. unfold upd2. rewrite tag_eqb_refl, Z.eqb_refl. reflexivity. Qed.
Lemma updT_same : forall A (f : tagT -> A) k v, updT f k v k = v.
Proof. intros. unfold updT. rewrite tag_eqb_refl. reflexivity. Qed.
Lemma updT_other : forall A (f : tagT -> A) k v x, x <> k -> updT f k v x = f x.
Proof. intros. unfold updT. destruct (tag_eqb x k) eqn:E; auto. apply tag_eqb_eq in E. congruence. Qed.
Lemma in_to_all : forall n d x m, In (d, x) (to_all n m) -> x = m.
Proof. intros n d x m I. unfold to_all in I. apply in_map_iff in I. destruct I as (i & E & _). congruence. Qed.

(* projections of the setters *)
Ltac proj := cbn [cur sq fifo stack recov filt mbar dbar ed rd dls dbuf derr rbuf fbuf
                  set_chan set_sq set_filt set_mbar set_dbar set_ed set_rd set_dls set_dbuf set_derr set_rbuf set_fbuf] in *.

Lemma range_nodup : forall n, NoDup (range n).
Proof.
  intros n. unfold range. apply Injective_map_NoDup; [|apply seq_NoDup].
  intros a b E. lia.
Qed.
Lemma range_in : forall n i, In i (range n) <-> 0 <= i < n.
Proof.
  intros n i. unfold range. rewrite in_map_iff. split.
  - intros (k & <- & I). apply in_seq in I. lia.
  - intros R. exists (Z.to_nat i). split; [lia|]. apply in_seq. lia.
Qed.

Section Step.
Variables (n t : Z) (H : Z -> Z) (toolong : tagT -> Z -> bool).
Notation handle := (handle n t H toolong).

(* open `handle`: every branch with explicit post-state, messages and result *)
Ltac open_handle :=
  unfold RbcModel.handle, stop; cbv zeta; break; intros E; inversion E; subst; clear E;
  try match goal with Htd : try_deliver _ _ = (_, _) |- _ =>
        apply try_deliver_cases in Htd;
        destruct Htd as [(-> & -> & ?)|[(? & ? & -> & ? & ->)|(-> & ->)]] end;
  proj; b2p.

Lemma handle_filt_mono : forall me st l m st' out r, handle me st l m = (st', out, r) ->
  forall k l' tg, filt st k l' tg = true -> filt st' k l' tg = true.
Proof.
  intros me st l m st' out r. open_handle; intros k l' tg F; auto; apply fset_mono; auto.
Qed.

Lemma handle_filt_inv : forall me st l m st' out r, handle me st l m = (st', out, r) ->
  forall k l' tg, filt st' k l' tg = true ->
  filt st k l' tg = true \/
  (l' = l /\ tg = mtag m /\ k <> FRetrieve /\ (k = FSend -> m_act m = 1) /\ (k = FEcho -> m_act m = 2) /\ (k = FReady -> m_act m = 3)).
Proof.
  intros me st l m st' out r. open_handle; intros k l' tg F; auto;
  apply fset_inv in F; destruct F as [F|(-> & -> & ->)]; auto; right; repeat split; try discriminate; auto.
Qed.

Lemma handle_ed : forall me st l m st' out r, handle me st l m = (st', out, r) ->
  forall tg d, ed st' tg d = ed st tg d \/
  (tg = mtag m /\ d = m_pay m /\ m_act m = 2 /\ filt st FEcho l tg = false /\ ed st' tg d = ed st tg d + 1 /\
   filt st' FEcho l tg = true).
Proof.
  intros me st l m st' out r. open_handle; intros tg d; auto;
  rewrite upd2_eq; destruct (tag_eqb tg (mtag m) && (d =? m_pay m)) eqn:C; auto; b2p; subst; right; repeat split; auto;
  apply fset_same.
Qed.

Lemma handle_rd : forall me st l m st' out r, handle me st l m = (st', out, r) ->
  forall tg d, rd st' tg d = rd st tg d \/
  (tg = mtag m /\ d = m_pay m /\ m_act m = 3 /\ filt st FReady l tg = false /\ rd st' tg d = rd st tg d + 1 /\
   filt st' FReady l tg = true).
Proof.
  intros me st l m st' out r. open_handle; intros tg d; auto;
  rewrite upd2_eq; destruct (tag_eqb tg (mtag m) && (d =? m_pay m)) eqn:C; auto; b2p; subst; right; repeat split; auto;
  apply fset_same.
Qed.

Lemma handle_dbar : forall me st l m st' out r, handle me st l m = (st', out, r) ->
  forall tg, dbar st' tg = dbar st tg \/
  (tg = mtag m /\ dbar st tg = None /\ dbar st' tg = Some (m_pay m) /\ rd st' tg (m_pay m) = 2 * t + 1).
Proof.
  intros me st l m st' out r. open_handle; intros tg; auto;
  unfold updT; destruct (tag_eqb tg (mtag m)) eqn:C; auto; b2p; subst; right; rewrite upd2_same; repeat split; auto.
Qed.

Lemma handle_mbar : forall me st l m st' out r, handle me st l m = (st', out, r) ->
  forall tg, mbar st' tg = mbar st tg \/
  (tg = mtag m /\ ((m_act m = 1 /\ mbar st tg = None) \/ (exists v, mbar st' tg = Some v /\ dbar st' tg = Some (H v)) \/
                   filt st FRetrieve l tg = true)).
Proof.
  intros me st l m st' out r. open_handle; intros tg; auto;
  unfold updT; destruct (tag_eqb tg (mtag m)) eqn:C; auto; b2p; subst; right; split; auto;
  first [ left; split; assumption
        | right; left; eexists; split; [reflexivity|congruence]
        | right; right; assumption ].
Qed.

Lemma handle_sent : forall me st l m st' out r, handle me st l m = (st', out, r) ->
  forall dst xm, In (dst, xm) out ->
  mtag xm = mtag m /\ m_act xm <> 1 /\ m_act xm <> 6 /\
  (m_act xm = 2 -> m_act m = 1 /\ m_j m = l /\ filt st FSend l (mtag m) = false /\ filt st' FSend l (mtag m) = true /\
                  m_pay xm = H (m_pay m)) /\
  (m_act xm = 3 -> m_pay xm = m_pay m /\ (n - t <= ed st' (mtag m) (m_pay m) \/ t + 1 <= rd st' (mtag m) (m_pay m))).
Proof.
  intros me st l m st' out r. open_handle; intros dst xm I;
  first [ apply in_to_all in I
        | apply in_map_iff in I; destruct I as (? & I & _); inversion I
        | destruct I as [I|[]]; inversion I
        | destruct I ];
  subst; cbn [mtag m_id m_j m_s m_act m_pay]; repeat split; intros; try discriminate; try lia; auto;
  try apply fset_same;
  first [ left; rewrite upd2_same; lia | right; rewrite upd2_same; lia ].
Qed.

(* a tag is "validated" at a party: fetched by the out-of-order handler, or its agreed digest is known and the stored
   payload (if any) hashes to it (the digest 0 stands for "no payload" in the code: excluded globally) *)
Definition retrieved (st : pst) (tg : tagT) : Prop := exists l, filt st FRetrieve l tg = true.
Definition valid (st : pst) (tg : tagT) : Prop :=
  retrieved st tg \/
  exists d, dbar st tg = Some d /\ match mbar st tg with Some v => H v = d \/ d = 0 | None => d = 0 end.

Lemma handle_valid : forall me st l m st' out r, handle me st l m = (st', out, r) ->
  (forall who tg v, r = RDeliver who tg v -> tg = mtag m /\ mbar st' tg = Some v /\ valid st' tg) /\
  (forall tg, In tg (dbuf st') -> In tg (dbuf st) \/ (tg = mtag m /\ valid st' tg)).
Proof.
  intros me st l m st' out r. open_handle; (split; [intros who tg v E; try discriminate; inversion E; subst | intros tg I; auto]);
  try (apply in_app_or in I; destruct I as [I|[<-|[]]]; [left; exact I|right]);
  try (split; [reflexivity|]); try (split; [proj; rewrite ?updT_same; eauto; fail|]);
  try (split; [assumption|]);
  unfold valid, retrieved; proj; rewrite ?updT_same in *; cbv beta iota;
  first [ exfalso; congruence
        | left; exists l; apply fset_mono; assumption
        | right; eexists; split; [first [eassumption|reflexivity]|];
          try (left; assumption);
          destruct (mbar st (mtag m)); try discriminate;
          first [left; assumption | left; congruence | symmetry; assumption | congruence ] ].
Qed.

(* ---- one call of Deliver, protocol view ----------------------------------------------------------- *)
Variable skip : Z.
Notation deliver := (deliver n t skip H toolong).
Notation deliver_from := (deliver_from n t skip H toolong).

Definition pstep (st st' : pst) (out : list (Z * msg)) (r : dres) (offer : option (Z * msg)) : Prop :=
  (forall k l tg, filt st k l tg = true -> filt st' k l tg = true) /\
  (forall tg d, ed st' tg d = ed st tg d \/
     exists l m, offer = Some (l, m) /\ tg = mtag m /\ d = m_pay m /\ m_act m = 2 /\ filt st FEcho l tg = false /\
                 ed st' tg d = ed st tg d + 1 /\ filt st' FEcho l tg = true) /\
  (forall tg d, rd st' tg d = rd st tg d \/
     exists l m, offer = Some (l, m) /\ tg = mtag m /\ d = m_pay m /\ m_act m = 3 /\ filt st FReady l tg = false /\
                 rd st' tg d = rd st tg d + 1 /\ filt st' FReady l tg = true) /\
  (forall tg, dbar st' tg = dbar st tg \/ (dbar st tg = None /\ exists d, dbar st' tg = Some d /\ rd st' tg d = 2 * t + 1)) /\
  (forall tg, mbar st' tg = mbar st tg \/ mbar st tg = None \/
              (exists v, mbar st' tg = Some v /\ dbar st' tg = Some (H v)) \/ retrieved st' tg) /\
  (forall dst x, In (dst, x) out -> m_act x <> 1 /\
     (m_act x = 2 -> exists l m, offer = Some (l, m) /\ mtag x = mtag m /\ m_act m = 1 /\ m_j m = l /\
                                 filt st FSend l (mtag m) = false /\ filt st' FSend l (mtag m) = true /\ m_pay x = H (m_pay m)) /\
     (m_act x = 3 -> n - t <= ed st' (mtag x) (m_pay x) \/ t + 1 <= rd st' (mtag x) (m_pay x))) /\
  (forall who tg v, r = RDeliver who tg v -> mbar st' tg = Some v /\ (valid st' tg \/ In tg (dbuf st))) /\
  (forall tg, In tg (dbuf st') -> In tg (dbuf st) \/ valid st' tg).

Ltac split8 := refine (conj _ (conj _ (conj _ (conj _ (conj _ (conj _ (conj _ _))))))).

Lemma deliver_pstep : forall me st offer,
  let o := deliver me st offer in pstep st (o_st o) (o_sent o) (o_res o) offer.
Proof.
  intros me st offer. unfold RbcModel.deliver.
  destruct (split_first (deliverable st) [] (dbuf st)) as [[[pre [[id who] s]] post]|] eqn:SF.
  - apply split_first_spec in SF. destruct SF as [_ SF]. cbn [rev app] in SF.
    destruct (mbar st (id, who, s)) eqn:M; cbv zeta; cbn [o_st o_sent o_res]; unfold pstep; proj; split8; auto.
    + intros ? ? [].
    + intros who0 tg v E. inversion E; subst. split; [exact M|]. right. rewrite SF. apply in_or_app. right. left. reflexivity.
    + intros tg I. left. rewrite SF. apply in_app_or in I. apply in_or_app. destruct I; [left|right; right]; auto.
    + intros ? ? [].
    + discriminate.
  - destruct (buffer_phase n skip me st) as [st1 sent1] eqn:BP. apply buffer_phase_spec in BP.
    destruct BP as (F & _ & A6 & Sub). destruct F as (_ & Mb & Db & Ed & Rd & _ & Fm & _).
    unfold all_act6 in A6. rewrite Forall_forall in A6.
    destruct offer as [[l m]|]; cbv zeta.
    + destruct (handle me st1 l m) as [[st2 sent2] r] eqn:HH. cbn [o_st o_sent o_res].
      pose proof (handle_filt_mono _ _ _ _ _ _ _ HH) as X1.
      pose proof (handle_ed _ _ _ _ _ _ _ HH) as X2.
      pose proof (handle_rd _ _ _ _ _ _ _ HH) as X3.
      pose proof (handle_dbar _ _ _ _ _ _ _ HH) as X4.
      pose proof (handle_mbar _ _ _ _ _ _ _ HH) as X5.
      pose proof (handle_sent _ _ _ _ _ _ _ HH) as X6.
      pose proof (handle_valid _ _ _ _ _ _ _ HH) as [X7 X8].
      assert (Fneg : forall k l0 tg, filt st1 k l0 tg = false -> filt st k l0 tg = false).
      { intros k l0 tg E. destruct (filt st k l0 tg) eqn:Y; auto. apply Fm in Y. congruence. }
      unfold pstep. rewrite Ed, Rd, Db, Mb in *. split8.
      * intros k l0 tg E. apply X1. apply Fm. exact E.
      * intros tg d. destruct (X2 tg d) as [E|(-> & -> & A & B & C & D)]; auto. right. exists l, m. repeat split; auto.
      * intros tg d. destruct (X3 tg d) as [E|(-> & -> & A & B & C & D)]; auto. right. exists l, m. repeat split; auto.
      * intros tg. destruct (X4 tg) as [E|(-> & A & B & C)]; auto. right. split; auto. eauto.
      * intros tg. destruct (X5 tg) as [E|(-> & [[_ A]|[A|A]])]; auto.
        right; right; right. exists l. apply X1. exact A.
      * intros dst x I. apply in_app_or in I. destruct I as [I|I].
        -- apply A6 in I. cbn in I. repeat split; intros; lia.
        -- apply X6 in I. destruct I as (T & N1 & _ & I2 & I3). split; [exact N1|]. split.
           ++ intros A2. destruct (I2 A2) as (a & b & c & d & e). exists l, m. repeat split; auto.
           ++ intros A3. destruct (I3 A3) as (a & b). rewrite T, a. exact b.
      * intros who tg v E. apply X7 in E. destruct E as (_ & E & V). split; auto.
      * intros tg I. apply X8 in I. destruct I as [I|[_ V]]; auto.
    + cbn [o_st o_sent o_res]. unfold pstep. rewrite Ed, Rd, Db, Mb. split8; auto.
      * intros dst x I. apply A6 in I. cbn in I. repeat split; intros; lia.
      * discriminate.
Qed.

End Step.
