(* SkcProveLemmas (C03): completeness of Groth's shuffle-of-known-content argument (non-interactive form), both settings of the
   verifier's `optimizations` flag: Pedersen commitments are homomorphic, the verifier's recursion satisfies
   F_i = e a_i + Delta_i, and prod (m_i - x) does not depend on the order. *)
From Coq Require Import ZArith Znumtheory Lia List Bool ZifyBool Permutation.
From LT Require Import Zbase gen_Consts SigmaPrim SigmaArith PedersenModel PedersenLemmas SkcProveModel.
Import ListNotations.
Local Open Scope Z_scope.

Ltac mod_ring m :=
  match goal with |- (?a mod m = ?b mod m) => change (eqm m a b) end;
  let P1 := fresh in let P2 := fresh in let P3 := fresh in let P4 := fresh in let P5 := fresh in
  pose proof (Zmult_eqm m) as P1; pose proof (eqm_setoid m) as P2; pose proof (Zplus_eqm m) as P3;
  pose proof (Zminus_eqm m) as P4; pose proof (Zopp_eqm m) as P5;
  rewrite ?(Zmod_eqm m); unfold eqm; f_equal; ring.

Definition lin (k : Z) (q : Z) (ab : Z * Z) : Z := (k * fst ab + snd ab) mod q.

Section Algebra.
  Variables p q : Z.
  Hypothesis Hp : 1 < p.
  Hypothesis Hq : 0 < q.

  Definition ord_ok (gs : list Z) : Prop := Forall (fun gi => powm gi q p = 1) gs.
  Definition nonneg (l : list Z) : Prop := Forall (fun v => 0 <= v) l.

  (* (prod g_i^{a_i})^k * prod g_i^{b_i} = prod g_i^{(k a_i + b_i) mod q} *)
  Lemma gen_prod_lin k : 0 <= k -> forall gs la lb, ord_ok gs -> length la = length lb -> nonneg la -> nonneg lb ->
    (powm (gen_prod gs la p) k p * gen_prod gs lb p) mod p = gen_prod gs (map (lin k q) (combine la lb)) p mod p.
  Proof.
    intros Hk. induction gs as [|gi gs IH]; intros la lb Og L Na Nb.
    - cbn [gen_prod]. rewrite powm_1_l by lia. rewrite Z.mul_1_r. apply Zmod_mod.
    - destruct la as [|a la], lb as [|b lb]; try discriminate L.
      + cbn [gen_prod combine map]. rewrite powm_1_l by lia. rewrite Z.mul_1_r. apply Zmod_mod.
      + inversion Og as [|? ? Hgi Og']; subst. inversion Na as [|? ? Ha Na']; subst. inversion Nb as [|? ? Hb Nb']; subst.
        cbn [gen_prod combine map]. cbn [length] in L. injection L as L.
        specialize (IH la lb Og' L Na' Nb').
        set (GA := gen_prod gs la p) in *. set (GB := gen_prod gs lb p) in *. set (G' := gen_prod gs (map (lin k q) (combine la lb)) p) in *.
        rewrite powm_mul_base by lia. rewrite <- powm_mul by lia.
        unfold lin at 1. cbn [fst snd].
        rewrite (powm_cong p q gi Hp Hq Hgi ((k * a + b) mod q) (a * k + b));
          [|apply Z.mod_pos_bound; lia|nia|rewrite Zmod_mod; f_equal; ring].
        rewrite powm_add by nia.
        rewrite <- (Zmult_mod_idemp_r G' _ p). rewrite <- IH.
        mod_ring p.
  Qed.

  (* every such product has order dividing q *)
  Lemma gen_prod_order : forall gs ms, ord_ok gs -> nonneg ms -> powm (gen_prod gs ms p) q p = 1.
  Proof.
    induction gs as [|gi gs IH]; intros ms Og Nm.
    - cbn. rewrite powm_1_l by lia. apply Z.mod_1_l. lia.
    - destruct ms as [|m ms]; [cbn; rewrite powm_1_l by lia; apply Z.mod_1_l; lia|].
      inversion Og; subst. inversion Nm; subst. cbn [gen_prod].
      rewrite powm_mul_base by lia. rewrite IH by assumption. rewrite <- powm_mul by lia.
      rewrite powm_spec by nia. rewrite (cyc_pow_mult p q gi Hp Hq) by assumption. apply Z.mod_1_l. lia.
  Qed.
End Algebra.

Section Com.
  Variable C : pcom.
  Hypothesis WF : wf_pcom C.
  Let p := pc_p C.
  Let q := pc_q C.
  Let Hp : 1 < p. Proof. exact (wp_p _ WF). Qed.
  Let Hq : 0 < q. Proof. exact (wp_q _ WF). Qed.

  Lemma commitment_as_prod r ms : commitment C r ms = gen_prod (pc_h C :: pc_g C) (r :: ms) p mod p.
  Proof. reflexivity. Qed.

  Lemma ord_all : ord_ok p q (pc_h C :: pc_g C).
  Proof. constructor; [exact (wp_h _ WF)|exact (wp_g _ WF)]. Qed.

  (* Pedersen commitments are homomorphic: com(a; r)^k * com(b; s) = com(k a + b; k r + s) *)
  Lemma commitment_lin k r s la lb : 0 <= k -> 0 <= r -> 0 <= s -> length la = length lb -> nonneg la -> nonneg lb ->
    (powm (commitment C r la) k p * commitment C s lb) mod p =
    commitment C ((k * r + s) mod q) (map (lin k q) (combine la lb)).
  Proof.
    intros Hk Hr Hs L Na Nb. rewrite !commitment_as_prod.
    rewrite powm_base_mod by lia. rewrite Zmult_mod_idemp_r.
    rewrite (gen_prod_lin p q Hp Hq k Hk (pc_h C :: pc_g C) (r :: la) (s :: lb) ord_all);
      [reflexivity|cbn; lia|now constructor|now constructor].
  Qed.

  Lemma msgs_nonneg ms : msgs_ok q ms -> nonneg ms.
  Proof. unfold msgs_ok, nonneg. apply Forall_impl. intros; lia. Qed.

  Lemma commitment_member r ms : 0 <= r -> msgs_ok q ms -> test_membership C (commitment C r ms) = true.
  Proof.
    intros Hr Hm. unfold test_membership. fold p q.
    pose proof (commitment_pos C WF r ms Hr Hm) as B. fold p in B.
    assert (E : powm (commitment C r ms) q p = 1).
    { rewrite commitment_as_prod. rewrite powm_base_mod by lia.
      apply (gen_prod_order p q Hp Hq _ _ ord_all). constructor; [assumption|now apply msgs_nonneg]. }
    rewrite E. lia.
  Qed.
End Com.

(* ---- the verifier's recursion and the product ------------------------------------------------------------------- *)
Section Rec.
  Variable C : pcom.
  Let q := pc_q C.
  Hypothesis Hq : 0 < q.
  Variables e ei x : Z.
  Hypothesis Hei : (e * ei) mod q = 1.
  Variables mu d Delta : nat -> Z.
  Variable n : nat.
  Hypothesis Hn : (2 <= n)%nat.
  Hypothesis D0 : Delta O = d O.

  Notation a := (a_of C mu x).
  Variable ex : Z.
  Variables ff fd : nat -> Z.
  Hypothesis Eex : ex = (e * x) mod q.
  Hypothesis Eff : forall i, ff i = (e * mu i + d i) mod q.
  Hypothesis Efd : forall i, fd i = (e * lej2 C mu d Delta x n i + lej1 C d Delta n i) mod q.

  Lemma cancel_e Y : ((e * Y) mod q * ei) mod q = Y mod q.
  Proof.
    rewrite Zmult_mod_idemp_l. replace (e * Y * ei) with (Y * (e * ei)) by ring.
    rewrite <- Zmult_mod_idemp_r, Hei, Z.mul_1_r. reflexivity.
  Qed.

  (* F_k = e a_k + Delta_k *)
  Lemma F_step j : (S j < n)%nat ->
    ((((ff (S j) - ex) mod q * ((e * a j + Delta j) mod q)) mod q + fd j) mod q * ei) mod q = (e * a (S j) + Delta (S j)) mod q.
  Proof.
    intros Hj. rewrite Efd, Eff, Eex. unfold lej1, lej2. fold q.
    assert (B : (S j <? n)%nat = true) by (apply Nat.ltb_lt; lia). rewrite B.
    set (M := (mu (S j) - x) mod q).
    transitivity ((e * a j * M + Delta (S j)) mod q).
    - rewrite <- (cancel_e (e * a j * M + Delta (S j))). f_equal. f_equal. unfold M. mod_ring q.
    - cbn [a_of]. fold q. fold M. mod_ring q.
  Qed.

  Lemma F_loop_spec : forall r k, (1 <= k)%nat -> (k + r = n)%nat ->
    F_loop C ex ei (map ff (seq k r)) (map fd (seq (k - 1) r)) false ((e * a (k - 1) + Delta (k - 1)) mod q)
    = (e * a (n - 1) + Delta (n - 1)) mod q.
  Proof.
    induction r as [|r IH]; intros k Hk E.
    - cbn. replace k with n by lia. reflexivity.
    - cbn [seq map F_loop]. fold q.
      destruct k as [|j]; [lia|]. replace (S j - 1)%nat with j by lia.
      rewrite F_step by lia.
      specialize (IH (S (S j)) ltac:(lia) ltac:(lia)). replace (S (S j) - 1)%nat with (S j) in IH by lia. exact IH.
  Qed.

  Theorem F_loop_honest : F_loop C ex ei (map ff (seq 0 n)) (map fd (seq 0 (n - 1))) true 1 = (e * a (n - 1) + Delta (n - 1)) mod q.
  Proof.
    destruct n as [|n'] eqn:En; [lia|]. cbn [seq map F_loop]. fold q.
    replace (S n' - 1)%nat with n' by lia.
    assert (E0 : (((ff O - ex) mod q) * 1) mod q = (e * a O + Delta O) mod q).
    { rewrite Eff, Eex. cbn [a_of]. fold q. rewrite D0. mod_ring q. }
    rewrite E0. rewrite <- En in *.
    pose proof (F_loop_spec n' 1%nat ltac:(lia) ltac:(lia)) as S. cbn [Nat.sub] in S. replace (n - 1)%nat with n' in * by lia.
    exact S.
  Qed.

  (* products *)
  Definition zprod (l : list Z) : Z := fold_right (fun v acc => ((v - x) mod q) * acc) 1 l.

  Lemma zprod_cons v l : zprod (v :: l) = ((v - x) mod q) * zprod l.
  Proof. reflexivity. Qed.
  Lemma zprod_nil : zprod [] = 1.
  Proof. reflexivity. Qed.

  Lemma zprod_app l1 l2 : zprod (l1 ++ l2) = zprod l1 * zprod l2.
  Proof.
    induction l1 as [|v l1 IH]; cbn [app].
    - rewrite zprod_nil. ring.
    - rewrite !zprod_cons, IH. ring.
  Qed.

  Lemma zprod_perm l l' : Permutation l l' -> zprod l = zprod l'.
  Proof. induction 1; rewrite ?zprod_cons; try congruence. ring. Qed.

  Lemma prod_mx_spec : forall m acc, prod_mx C m x acc mod q = (acc * zprod m) mod q.
  Proof.
    induction m as [|mi m IH]; intros acc; cbn [prod_mx].
    - now rewrite zprod_nil, Z.mul_1_r.
    - fold q. rewrite IH, zprod_cons. mod_ring q.
  Qed.

  Lemma a_of_spec i : a i mod q = zprod (map mu (seq 0 (S i))) mod q.
  Proof.
    induction i as [|i IH].
    - cbn [seq map a_of]. rewrite zprod_cons, zprod_nil, Z.mul_1_r. fold q. reflexivity.
    - rewrite seq_S, map_app, zprod_app. cbn [a_of plus map]. rewrite zprod_cons, zprod_nil, Z.mul_1_r. fold q.
      rewrite Zmod_mod. rewrite <- Zmult_mod_idemp_l. rewrite IH. rewrite Zmult_mod_idemp_l. reflexivity.
  Qed.
End Rec.

(* ---- list bookkeeping ----------------------------------------------------------------------------------------- *)
Lemma map_nth_seq (l : list Z) : map (fun i => nth i l 0) (seq 0 (length l)) = l.
Proof.
  induction l as [|v l IH]; [reflexivity|]. cbn [length seq map nth]. f_equal.
  rewrite <- seq_shift, map_map. exact IH.
Qed.

Lemma permuted_spec pi m mus : permuted pi m = Some mus -> mus = map (fun j => nth j m 0) pi.
Proof.
  revert mus. induction pi as [|j pi IH]; intros mus E; cbn [permuted] in E.
  - now injection E as <-.
  - destruct (nth_error m j) as [v|] eqn:Ev; [|discriminate]. destruct (permuted pi m) as [t|]; [|discriminate].
    injection E as <-. cbn [map]. f_equal; [|now apply IH]. symmetry. now apply nth_error_nth.
Qed.

Lemma permuted_perm pi m mus : permuted pi m = Some mus -> Permutation pi (seq 0 (length m)) -> Permutation mus m.
Proof.
  intros E P. rewrite (permuted_spec _ _ _ E).
  eapply Permutation_trans; [apply Permutation_map; exact P|]. now rewrite map_nth_seq.
Qed.

Lemma combine_map_seq {A B} (f : nat -> A) (g : nat -> B) idx : combine (map f idx) (map g idx) = map (fun i => (f i, g i)) idx.
Proof. induction idx as [|i idx IH]; [reflexivity|]. cbn. now rewrite IH. Qed.

Lemma Forall_map_seq (P : Z -> Prop) (f : nat -> Z) idx : (forall i, P (f i)) -> Forall P (map f idx).
Proof. intros Hf. apply Forall_forall. intros v I. apply in_map_iff in I. destruct I as [i [<- _]]. apply Hf. Qed.

Lemma seq_last k : (1 <= k)%nat -> seq 0 k = seq 0 (k - 1) ++ [(k - 1)%nat].
Proof. intros Hk. destruct k as [|j]; [lia|]. rewrite seq_S. replace (S j - 1)%nat with j by lia. reflexivity. Qed.

Section Main.
  Variable H : list Z -> Z.
  Variable C : pcom.
  Variable l : Z.
  Hypothesis WF : wf_pcom C.
  Hypothesis Hl : 0 <= l.
  Let p := pc_p C.
  Let q := pc_q C.
  Let Hp : 1 < p. Proof. exact (wp_p _ WF). Qed.
  Let Hq : 0 < q. Proof. exact (wp_q _ WF). Qed.

  Lemma trunc_nonneg v : 0 <= v mod 2 ^ l.
  Proof. apply Z.mod_pos_bound. apply Z.pow_pos_nonneg; lia. Qed.

  Theorem skc_complete pi r m raws t mus opt alpha :
    (2 <= length m)%nat -> (length m <= length (pc_g C))%nat -> Permutation pi (seq 0 (length m)) ->
    0 <= r < q -> msgs_ok q m -> 0 <= alpha ->
    permuted pi m = Some mus ->
    skc_prove H C l pi r m raws = Some t ->
    (exists ei, (skc_e H C l m (skc_x H C l m) (k_cd t) (k_cDelta t) (k_ca t) * ei) mod q = 1) ->
    skc_verify H C l (commitment C r mus) m true t opt alpha = Accept.
  Proof.
    intros Hn Hg P Hr Hm Ha Hperm Hprove Hinv.
    assert (Lpi : length pi = length m) by (apply Permutation_length in P; now rewrite seq_length in P).
    unfold skc_prove in Hprove. fold q in Hprove. rewrite Lpi in Hprove.
    destruct (Nat.ltb_spec (length (pc_g C)) (length m)) as [|_]; [lia|].
    rewrite Nat.eqb_refl in Hprove. cbn [negb] in Hprove.
    destruct (Nat.ltb_spec (length m) 2) as [|_]; [lia|].
    rewrite Hperm in Hprove. cbv zeta in Hprove.
    set (n := length m) in *. set (x := skc_x H C l m) in *.
    set (rd := srandomm (at_ raws 0) q) in *. set (rD := srandomm (at_ raws 1) q) in *.
    set (d := coin_d C raws) in *. set (Delta := coin_Delta C raws n) in *.
    set (ra := srandomm (at_ raws (2 + n + (n - 2))) q) in *.
    set (mu := at_ mus) in *. set (idx := seq 0 n) in *.
    assert (Rrd : 0 <= rd < q) by (apply Z.mod_pos_bound; exact Hq).
    assert (RrD : 0 <= rD < q) by (apply Z.mod_pos_bound; exact Hq).
    assert (Rra : 0 <= ra < q) by (apply Z.mod_pos_bound; exact Hq).
    assert (Rd : forall i, 0 <= d i < q) by (intros i; apply Z.mod_pos_bound; exact Hq).
    assert (RD : forall i, 0 <= Delta i < q).
    { intros i. unfold Delta, coin_Delta. fold q. destruct (i =? 0)%nat; [apply Rd|]. destruct (S i <? n)%nat; [apply Z.mod_pos_bound; exact Hq|lia]. }
    assert (Lidx : length idx = n) by apply seq_length.
    assert (Md : msgs_ok q (map d idx)) by (apply Forall_map_seq; exact Rd).
    assert (M1 : msgs_ok q (map (lej1 C d Delta n) idx)).
    { apply Forall_map_seq. intros i. unfold lej1. fold q. destruct (S i <? n)%nat; [apply Z.mod_pos_bound; exact Hq|lia]. }
    assert (M2 : msgs_ok q (map (lej2 C mu d Delta x n) idx)).
    { apply Forall_map_seq. intros i. unfold lej2. fold q. destruct (S i <? n)%nat; [apply Z.mod_pos_bound; exact Hq|lia]. }
    rewrite (commit_by_spec C WF rd _ true Rrd Md) in Hprove by (rewrite map_length; lia).
    rewrite (commit_by_spec C WF rD _ true RrD M1) in Hprove by (rewrite map_length; lia).
    rewrite (commit_by_spec C WF ra _ true Rra M2) in Hprove by (rewrite map_length; lia).
    set (cd := commitment C rd (map d idx)) in *. set (cD := commitment C rD (map (lej1 C d Delta n) idx)) in *.
    set (ca := commitment C ra (map (lej2 C mu d Delta x n) idx)) in *.
    injection Hprove as <-. cbn [k_cd k_cDelta k_ca] in Hinv. destruct Hinv as [ei Hei].
    set (e := skc_e H C l m x cd cD ca) in *.
    assert (He : 0 <= e) by apply trunc_nonneg.
    unfold skc_verify. fold p q. cbn [k_cd k_cDelta k_ca k_f k_z k_fD k_zD]. fold n.
    destruct (Nat.ltb_spec (length (pc_g C)) n) as [|_]; [lia|].
    destruct (Nat.ltb_spec n 2) as [|_]; [lia|]. fold x. fold e. cbn [negb].
    unfold cd at 1, ca at 1, cD at 1.
    rewrite !(commitment_member C WF) by (try lia; assumption). cbn [andb negb].
    (* the vectors *)
    assert (Pm : Permutation mus m) by (eapply permuted_perm; eassumption).
    assert (Lmus : length mus = n) by (apply Permutation_length in Pm; exact Pm).
    assert (Mmus : msgs_ok q mus) by (eapply Permutation_Forall; [apply Permutation_sym; exact Pm|exact Hm]).
    assert (Emus : map mu idx = mus) by (unfold mu, at_, idx; rewrite <- Lmus; apply map_nth_seq).
    set (fvec := map (fun i : nat => (e * mu i + d i) mod q) idx).
    set (fDfun := fun i : nat => (e * lej2 C mu d Delta x n i + lej1 C d Delta n i) mod q).
    set (fDfull := map fDfun idx).
    assert (Elast : map fDfun (seq 0 (n - 1)) ++ [0] = fDfull).
    { unfold fDfull, idx. rewrite (seq_last n) by lia. rewrite map_app. f_equal. cbn [map]. f_equal.
      unfold fDfun, lej1, lej2. assert (B : (S (n - 1) <? n)%nat = false) by (apply Nat.ltb_ge; lia). rewrite B.
      rewrite Z.mul_0_r. reflexivity. }
    fold fDfun. rewrite Elast.
    assert (Mf : msgs_ok q fvec) by (apply Forall_map_seq; intros i; apply Z.mod_pos_bound; exact Hq).
    assert (MfD : msgs_ok q fDfull) by (apply Forall_map_seq; intros i; apply Z.mod_pos_bound; exact Hq).
    assert (Rz : 0 <= (e * r + rd) mod q < q) by (apply Z.mod_pos_bound; exact Hq).
    assert (RzD : 0 <= (e * ra + rD) mod q < q) by (apply Z.mod_pos_bound; exact Hq).
    assert (Zq : forall v, 0 <= v < q -> in_zq C v = true) by (intros v Hv; unfold in_zq; fold q; lia).
    assert (Fq : forall ms, msgs_ok q ms -> forallb (in_zq C) ms = true).
    { intros ms Hms. apply forallb_forall. intros v I. apply Zq. unfold msgs_ok in Hms. rewrite Forall_forall in Hms. now apply Hms. }
    rewrite (Zq _ Rz), (Zq _ RzD), (Fq _ Mf). cbn [andb negb].
    assert (MfD' : msgs_ok q (map fDfun (seq 0 (n - 1)))) by (apply Forall_map_seq; intros i; apply Z.mod_pos_bound; exact Hq).
    rewrite (Fq _ MfD'). cbn [negb].
    (* the homomorphic checks *)
    assert (K1 : (powm (commitment C r mus) e p * cd) mod p = commitment C ((e * r + rd) mod q) fvec).
    { unfold cd, p. rewrite (commitment_lin C WF e r rd mus (map d idx)); try (fold q; lia).
      - f_equal. rewrite <- Emus at 1. rewrite combine_map_seq, map_map. reflexivity.
      - rewrite map_length. lia.
      - now apply (msgs_nonneg C).
      - now apply (msgs_nonneg C). }
    assert (K2 : (powm ca e p * cD) mod p = commitment C ((e * ra + rD) mod q) fDfull).
    { unfold ca, cD, p. rewrite (commitment_lin C WF e ra rD); try (fold q; lia).
      - f_equal. rewrite combine_map_seq, map_map. reflexivity.
      - now rewrite !map_length.
      - now apply (msgs_nonneg C).
      - now apply (msgs_nonneg C). }
    unfold mpz_powm. destruct (e <? 0) eqn:E0; [lia|]. destruct (alpha <? 0) eqn:A0; [lia|].
    rewrite K1, K2.
    assert (Lf : length fvec = n) by (unfold fvec; now rewrite map_length).
    assert (LfD : length fDfull = n) by (unfold fDfull; now rewrite map_length).
    assert (V1 : pverify C (commitment C ((e * r + rd) mod q) fvec) ((e * r + rd) mod q) fvec = Accept)
      by (apply (verify_commit C WF); [exact Rz|exact Mf|lia]).
    assert (V2 : pverify C (commitment C ((e * ra + rD) mod q) fDfull) ((e * ra + rD) mod q) fDfull = Accept)
      by (apply (verify_commit C WF); [exact RzD|exact MfD|lia]).
    assert (V3 : pverify C ((powm (commitment C ((e * r + rd) mod q) fvec) alpha p * commitment C ((e * ra + rD) mod q) fDfull) mod p)
                   ((alpha * ((e * r + rd) mod q) + (e * ra + rD) mod q) mod q)
                   (map (fun ff : Z * Z => (alpha * fst ff + snd ff) mod q) (combine fvec fDfull)) = Accept).
    { change (fun ff : Z * Z => (alpha * fst ff + snd ff) mod q) with (lin alpha q).
      unfold p. rewrite (commitment_lin C WF alpha); try (fold q; lia); [|now apply (msgs_nonneg C)|now apply (msgs_nonneg C)].
      apply (verify_commit C WF).
      - apply Z.mod_pos_bound. exact Hq.
      - apply Forall_forall. intros v I. apply in_map_iff in I. destruct I as [ab [<- _]]. unfold lin. apply Z.mod_pos_bound. exact Hq.
      - rewrite map_length, combine_length. lia. }
    assert (Sel : (if opt then Some Accept else Some Accept) = Some Accept) by (destruct opt; reflexivity).
    replace (if opt then _ else _) with (Some Accept).
    2:{ destruct opt; [now rewrite V3|now rewrite V1, V2]. }
    (* the inverse of e *)
    assert (Hq1 : 1 < q).
    { destruct (Z.eq_dec q 1) as [E1|]; [|lia]. rewrite E1, Z.mod_1_r in Hei. discriminate. }
    assert (Hei' : (e * (ei mod q)) mod q = 1) by now rewrite Zmult_mod_idemp_r.
    rewrite (invm_eq e (ei mod q) q Hq1 (Z.mod_pos_bound ei q Hq) Hei').
    (* the recursion *)
    assert (D0 : Delta O = d O) by reflexivity.
    assert (Dn : Delta (n - 1)%nat = 0).
    { unfold Delta, coin_Delta. destruct (Nat.eqb_spec (n - 1) 0); [lia|]. assert (B : (S (n - 1) <? n)%nat = false) by (apply Nat.ltb_ge; lia). now rewrite B. }
    unfold fvec, idx.
    rewrite (F_loop_honest C e (ei mod q) x Hei' mu d Delta n Hn D0 ((e * x) mod q)
               (fun i : nat => (e * mu i + d i) mod q) fDfun eq_refl (fun i => eq_refl) (fun i => eq_refl)).
    fold q. rewrite Dn, Z.add_0_r.
    replace ((prod_mx C m x 1 * e) mod q) with ((e * a_of C mu x (n - 1)) mod q); [now rewrite Z.eqb_refl|].
    rewrite <- (Zmult_mod_idemp_r (a_of C mu x (n - 1))). unfold q at 1. rewrite (a_of_spec C x mu (n - 1)).
    replace (S (n - 1)) with n by lia. fold idx. rewrite Emus. fold q.
    rewrite (zprod_perm C x _ _ Pm).
    rewrite <- (Zmult_mod_idemp_l (prod_mx C m x 1)). unfold q at 3. rewrite (prod_mx_spec C x m 1). fold q.
    rewrite Zmult_mod_idemp_r, Zmult_mod_idemp_l. f_equal. ring.
  Qed.
  (* the honest prover never fails: the premise "skc_prove ... = Some t" of skc_complete is satisfiable for every honest input *)
  Theorem skc_prove_total pi r m raws :
    (2 <= length m)%nat -> (length m <= length (pc_g C))%nat -> Permutation pi (seq 0 (length m)) ->
    exists t mus, permuted pi m = Some mus /\ skc_prove H C l pi r m raws = Some t.
  Proof.
    intros Hn Hg P.
    assert (Lpi : length pi = length m) by (apply Permutation_length in P; now rewrite seq_length in P).
    assert (Hperm : exists mus, permuted pi m = Some mus).
    { assert (R : Forall (fun j => (j < length m)%nat) pi).
      { apply Forall_forall. intros j I. eapply Permutation_in in I; [|exact P]. apply in_seq in I. lia. }
      clear -R. induction pi as [|j pi IH]; [now exists []|]. inversion R as [|? ? Hj Rr]; subst. destruct (IH Rr) as [t Et].
      destruct (nth_error m j) as [v|] eqn:Ev; [|apply nth_error_None in Ev; lia].
      exists (v :: t). cbn [permuted]. now rewrite Ev, Et. }
    destruct Hperm as [mus Hperm].
    unfold skc_prove. fold q. rewrite Lpi.
    destruct (Nat.ltb_spec (length (pc_g C)) (length m)) as [|_]; [lia|].
    rewrite Nat.eqb_refl. cbn [negb]. destruct (Nat.ltb_spec (length m) 2) as [|_]; [lia|].
    rewrite Hperm. cbv zeta.
    set (n := length m) in *. set (d := coin_d C raws). set (Delta := coin_Delta C raws n). set (idx := seq 0 n).
    assert (Lidx : length idx = n) by apply seq_length.
    assert (Rd : forall i, 0 <= d i < q) by (intros i; apply Z.mod_pos_bound; exact Hq).
    rewrite (commit_by_spec C WF) by
      (try (apply Z.mod_pos_bound; exact Hq); try (rewrite map_length; lia); apply Forall_map_seq; exact Rd).
    rewrite (commit_by_spec C WF);
      [|apply Z.mod_pos_bound; exact Hq| |rewrite map_length; lia].
    2:{ apply Forall_map_seq. intros i. unfold lej1. fold q. destruct (S i <? n)%nat; [apply Z.mod_pos_bound; exact Hq|lia]. }
    rewrite (commit_by_spec C WF);
      [|apply Z.mod_pos_bound; exact Hq| |rewrite map_length; lia].
    2:{ apply Forall_map_seq. intros i. unfold lej2. fold q. destruct (S i <? n)%nat; [apply Z.mod_pos_bound; exact Hq|lia]. }
    eexists. exists mus. split; [reflexivity|reflexivity].
  Qed.
End Main.
