(* C03 -- Completeness: an honest proof is always accepted (VTMF layer: key-share proofs, Chaum-Pedersen,
   OR proofs, masking, re-masking, decryption shares).
   Property theorems only: each is closed by `exact <lemma>` and followed by Print Assumptions.
   H = hash oracle (arbitrary function), hbits = its output length, G = (p, q, g); coins `raw` arbitrary integers.
   wf_params: 1 < p odd, 0 < q, g^q = 1 (mod p), |q| <= TMCG_MAX_FPOWM_T, 0 <= H(.) < 2^hbits.
   elem a = CheckElement(a):  0 < a < p and a^q = 1 (mod p).
   The verifiers test every element of the statement for membership (fixes 38c5983, e22f683, fdc4557), so the statements'
   elements are premised to be group members -- which they are for honest statements. *)
From Coq Require Import ZArith List Lia String.
From LT Require Import Zbase gen_Consts SigmaPrim KeyRingModel KeyRingLemmas SigmaModel SigmaLemmas.
From LT Require Import gen_FSInputs FsModel SigmaFsAgree SigmaFsLemmas PedersenModel PedersenLemmas.
From LT Require Import CodecModel SamplerModel ShuffleModel CutChooseModel CutChooseLemmas SkcProveModel SkcProveLemmas.
Import ListNotations.
Local Open Scope Z_scope.

(* non-interactive proof of knowledge of the key share (KeyGenerationProtocol_ComputeNIZK / _VerifyNIZK) *)
Theorem C03_keyshare_nizk_complete : forall H hbits G, wf_params H hbits G -> forall x raw c r, 0 <= x ->
  compute_nizk H G x (powm (gg G) x (gp G)) raw = Some (c, r) ->
  verify_nizk H hbits G (powm (gg G) x (gp G)) c r = Accept.
Proof. exact nizk_complete. Qed.
Print Assumptions C03_keyshare_nizk_complete.

(* interactive proof of knowledge of the key share: any prover coin, any verifier coin *)
Theorem C03_keyshare_interactive_complete : forall H hbits G, wf_params H hbits G -> forall x raw craw r m1 m2, 0 <= x ->
  keyi_commit G raw = Some (r, m1) ->
  keyi_respond G x r true (keyi_challenge G craw) = Some m2 ->
  keyi_verify G (powm (gg G) x (gp G)) true m1 (keyi_challenge G craw) true m2 = Accept.
Proof. exact keyi_complete. Qed.
Print Assumptions C03_keyshare_interactive_complete.

(* equality of discrete logarithms, generic bases (fpowm_usage = false) *)
Theorem C03_cp_complete : forall H hbits G, wf_params H hbits G -> forall h th g2 h2 alpha raw c r,
  powm g2 (gq G) (gp G) = 1 -> powm h2 (gq G) (gp G) = 1 -> 0 <= alpha ->
  cp_prove H G h th (powm g2 alpha (gp G)) (powm h2 alpha (gp G)) g2 h2 alpha raw false = Some (c, r) ->
  cp_verify H hbits G h th (powm g2 alpha (gp G)) (powm h2 alpha (gp G)) g2 h2 true c r false = Accept.
Proof. exact cp_complete_plain. Qed.
Print Assumptions C03_cp_complete.

(* the fixed-base table path (fpowm_usage = true): bases are g and the common key h, th is h's table *)
Theorem C03_cp_table_complete : forall H hbits G, wf_params H hbits G -> forall h th alpha raw c r,
  powm h (gq G) (gp G) = 1 -> th = precompute h (gq G) -> 0 <= alpha ->
  cp_prove H G h th (powm (gg G) alpha (gp G)) (powm h alpha (gp G)) (gg G) h alpha raw true = Some (c, r) ->
  cp_verify H hbits G h th (powm (gg G) alpha (gp G)) (powm h alpha (gp G)) (gg G) h true c r true = Accept.
Proof. exact cp_complete_table. Qed.
Print Assumptions C03_cp_table_complete.

Theorem C03_or_first_complete : forall H hbits G, wf_params H hbits G -> forall h y2 g1 g2 alpha raw1 raw2 raw3 c1 c2 r1 r2,
  powm g1 (gq G) (gp G) = 1 -> powm g2 (gq G) (gp G) = 1 -> elem G y2 -> 0 <= alpha ->
  or_prove_first H G h (powm g1 alpha (gp G)) y2 g1 g2 alpha raw1 raw2 raw3 = Some (c1, c2, r1, r2) ->
  or_verify H G h (powm g1 alpha (gp G)) y2 g1 g2 true c1 c2 r1 r2 = Accept.
Proof. exact or_complete_first. Qed.
Print Assumptions C03_or_first_complete.

Theorem C03_or_second_complete : forall H hbits G, wf_params H hbits G -> forall h y1 g1 g2 alpha raw1 raw2 raw3 c1 c2 r1 r2,
  powm g1 (gq G) (gp G) = 1 -> powm g2 (gq G) (gp G) = 1 -> elem G y1 -> 0 <= alpha ->
  or_prove_second H G h y1 (powm g2 alpha (gp G)) g1 g2 alpha raw1 raw2 raw3 = Some (c1, c2, r1, r2) ->
  or_verify H G h y1 (powm g2 alpha (gp G)) g1 g2 true c1 c2 r1 r2 = Accept.
Proof. exact or_complete_second. Qed.
Print Assumptions C03_or_second_complete.

(* masking of a group element m with any masking value 0 <= r < q, after Finalize (th = table of h) *)
Theorem C03_masking_complete : forall H hbits G, wf_params H hbits G -> forall h th,
  elem G h -> th = precompute h (gq G) -> forall m r raw c1 c2 c s, elem G m -> 0 <= r < gq G ->
  vtmf_mask G h th m r = Some (c1, c2) ->
  mask_prove H G h th m c1 c2 r raw = Some (c, s) ->
  mask_verify H hbits G h th m c1 c2 true c s = Accept.
Proof. exact mask_complete. Qed.
Print Assumptions C03_masking_complete.

Theorem C03_remasking_complete : forall H hbits G, wf_params H hbits G -> forall h th,
  elem G h -> th = precompute h (gq G) -> forall c1 c2 r raw d1 d2 c s, elem G c1 -> elem G c2 -> 0 <= r < gq G ->
  remask G h th c1 c2 r = Some (d1, d2) ->
  remask_prove H G h th c1 c2 d1 d2 r raw = Some (c, s) ->
  remask_verify H hbits G h th c1 c2 d1 d2 true c s = Accept.
Proof. exact remask_complete. Qed.
Print Assumptions C03_remasking_complete.

(* decryption share of a player whose key g^x is stored under the fingerprint fp *)
Theorem C03_decryption_complete : forall H hbits G, wf_params H hbits G -> forall h th hj d c1 x fp raw di fp' c r,
  elem G c1 -> 0 <= x -> map_get fp hj = Some (powm (gg G) x (gp G)) ->
  decrypt_prove H G h th x (powm (gg G) x (gp G)) fp c1 raw = Some (di, fp', (c, r)) ->
  decrypt_update H hbits G h th hj d c1 true di fp' true c r = (Accept, (d * di) mod gp G).
Proof. exact decrypt_complete. Qed.
Print Assumptions C03_decryption_complete.

(* the honest provers never fail on true statements (so the premises "= Some ..." above are satisfiable) *)
Theorem C03_cp_prover_total : forall H hbits G, wf_params H hbits G -> forall h th g2 h2 x y alpha raw,
  powm g2 (gq G) (gp G) = 1 -> powm h2 (gq G) (gp G) = 1 ->
  exists cr, cp_prove H G h th x y g2 h2 alpha raw false = Some cr.
Proof. exact cp_prove_plain_some. Qed.
Print Assumptions C03_cp_prover_total.

Theorem C03_cp_table_prover_total : forall H hbits G, wf_params H hbits G -> forall h th x y alpha raw,
  powm h (gq G) (gp G) = 1 -> th = precompute h (gq G) ->
  exists cr, cp_prove H G h th x y (gg G) h alpha raw true = Some cr.
Proof. exact cp_prove_table_some. Qed.
Print Assumptions C03_cp_table_prover_total.

Theorem C03_masking_total : forall H hbits G, wf_params H hbits G -> forall h th,
  elem G h -> th = precompute h (gq G) -> forall m r, 0 <= r < gq G ->
  vtmf_mask G h th m r = Some (powm (gg G) r (gp G), (powm h r (gp G) * m) mod gp G).
Proof. exact mask_spec. Qed.
Print Assumptions C03_masking_total.

Theorem C03_decryption_prover_total : forall H hbits G, wf_params H hbits G -> forall h th x fp c1 raw,
  elem G c1 -> 0 <= x ->
  exists di cr, decrypt_prove H G h th x (powm (gg G) x (gp G)) fp c1 raw = Some (di, fp, cr).
Proof. exact decrypt_prove_some. Qed.
Print Assumptions C03_decryption_prover_total.

(* prover and verifier of every non-interactive argument (GrothSKC, GrothVSSHE, PUBROTZK, VRHE, and the VTMF proofs) hash the
   same argument list, position by position, up to the names of recomputed values; checked by computation on the table of hash
   calls regenerated from the sources (a Fiat-Shamir input swapped, dropped or added on one side only falsifies it) *)
Theorem C03_fiat_shamir_arguments_agree : fs_all_agree = true.
Proof. exact fs_arguments_agree. Qed.
Print Assumptions C03_fiat_shamir_arguments_agree.

Theorem C03_fiat_shamir_arguments_agree_each : forall n b, In (n, b) fs_agreements -> b = true.
Proof. exact fs_arguments_agree_each. Qed.
Print Assumptions C03_fiat_shamir_arguments_agree_each.

(* Pedersen commitments (src/PedersenCOM.cc): generators with index >= TMCG_MAX_FPOWM_N have no fixed-base table; for EVERY number of
   messages (both branches) CommitBy with and without timing protection and Commit compute h^r * prod g_i^{m_i} mod p, and Verify accepts.
   wf_pcom: 1 < p odd, 0 < q, |q| <= TMCG_MAX_FPOWM_T, h^q = 1, every g_i^q = 1; messages in [0,q) *)
Theorem C03_pedersen_commit_by : forall C, wf_pcom C -> forall r ms prot,
  0 <= r < pc_q C -> msgs_ok (pc_q C) ms -> (List.length ms <= List.length (pc_g C))%nat ->
  commit_by C r ms prot = Some (commitment C r ms).
Proof. exact commit_by_spec. Qed.
Print Assumptions C03_pedersen_commit_by.

Theorem C03_pedersen_commit : forall C, wf_pcom C -> forall raw ms,
  msgs_ok (pc_q C) ms -> (List.length ms <= List.length (pc_g C))%nat ->
  commit C raw ms = Some (commitment C (raw mod pc_q C) ms, raw mod pc_q C).
Proof. exact commit_spec. Qed.
Print Assumptions C03_pedersen_commit.

Theorem C03_pedersen_commit_eq_commit_by : forall C, wf_pcom C -> forall raw ms prot,
  msgs_ok (pc_q C) ms -> (List.length ms <= List.length (pc_g C))%nat ->
  exists c, commit C raw ms = Some (c, raw mod pc_q C) /\ commit_by C (raw mod pc_q C) ms prot = Some c.
Proof. exact commit_eq_commit_by. Qed.
Print Assumptions C03_pedersen_commit_eq_commit_by.

Theorem C03_pedersen_verify_complete : forall C, wf_pcom C -> forall r ms,
  0 <= r < pc_q C -> msgs_ok (pc_q C) ms -> (List.length ms <= List.length (pc_g C))%nat ->
  pverify C (commitment C r ms) r ms = Accept.
Proof. exact verify_commit. Qed.
Print Assumptions C03_pedersen_verify_complete.

(* ---- cut-and-choose proof of stack equality, VTMF encoding (TMCG_ProveStackEquality / TMCG_VerifyStackEquality) --------------
   Hc = commitment oracle (any function), G = (p, q, g) with 1 < p, 0 < q, g^q = h^q = 1; s = any stack of at most TMCG_MAX_CARDS
   cards that are group elements; sigma = honest secret: a bijection on the positions (a rotation when cyclic) with exponents in
   [0,q); s2 = TMCG_MixStack(s, sigma).  For every kappa, every coin string of the prover (consumed by TMCG_CreateStackSecret in
   every iteration) and every list of challenge bits: if the verifier returns at all, it returns true. *)
Theorem C03_cutchoose_complete : forall Hc G h, 1 < gp G -> 0 < gq G -> powm (gg G) (gq G) (gp G) = 1 -> powm h (gq G) (gp G) = 1 ->
  forall kappa cyclic s s2 sigma coins bits b,
  (List.length s <= max_cards)%nat -> forallb (card_ok G) s = true ->
  valid_secret (gq G) (List.length s) cyclic sigma -> cmix G h s sigma = Ret s2 ->
  honest_run Hc G h kappa cyclic s s2 sigma coins bits = Ret b -> b = true.
Proof. exact cutchoose_complete. Qed.
Print Assumptions C03_cutchoose_complete.

(* one iteration, both challenge values, for ANY honest fresh secret pi: the prover's message exists and is accepted *)
Theorem C03_cutchoose_round_complete : forall Hc G h, 1 < gp G -> 0 < gq G -> powm (gg G) (gq G) (gp G) = 1 -> powm h (gq G) (gp G) = 1 ->
  forall s s2 n cyclic sigma pi bit, List.length s = n -> (n <= max_cards)%nat ->
  valid_secret (gq G) n cyclic sigma -> valid_secret (gq G) n cyclic pi -> cmix G h s sigma = Ret s2 ->
  exists cr, prove_round Hc G h s2 sigma pi bit = Ret cr /\
             verify_round Hc G h s s2 cyclic bit (fst cr) (secZ (snd cr)) = Ret true.
Proof. exact round_complete. Qed.
Print Assumptions C03_cutchoose_round_complete.

(* the iterations never end in a rejection, an out-of-range access or a failed assertion: either all k are accepted, or the
   challenge bits / the prover's coins run out (or the sampler inside TMCG_CreateStackSecret refuses, e.g. a rotation of n < 2) *)
Theorem C03_cutchoose_outcome : forall Hc G h, 1 < gp G -> 0 < gq G -> powm (gg G) (gq G) (gp G) = 1 -> powm h (gq G) (gp G) = 1 ->
  forall s s2 n sigma cyclic, List.length s = n -> (n <= max_cards)%nat ->
  valid_secret (gq G) n cyclic sigma -> cmix G h s sigma = Ret s2 ->
  forall k coins bits, honest_rounds Hc G h k cyclic s s2 sigma coins bits = Ret true \/
    (List.length bits < k)%nat \/ exists coins', forall x, create_stack_secret cyclic n (gq G) coins' <> Ret x.
Proof. exact rounds_outcome. Qed.
Print Assumptions C03_cutchoose_outcome.

(* what TMCG_CreateStackSecret returns is an honest secret (so the hypothesis on sigma is met by honest shufflers) *)
Theorem C03_cutchoose_created_secret_valid : forall G, 0 < gq G -> forall cyclic n coins o ss coins',
  create_stack_secret cyclic n (gq G) coins = Ret ((o, ss), coins') ->
  valid_secret (gq G) n cyclic (secN ss) /\ (n <= max_cards)%nat.
Proof. exact created_valid. Qed.
Print Assumptions C03_cutchoose_created_secret_valid.

(* ---- Groth's argument for a shuffle of known content, non-interactive (GrothSKC::Prove_noninteractive / Verify_noninteractive) ----
   H = hash oracle (any function), C = commitment key (wf_pcom: 1 < p odd, 0 < q, |q| <= TMCG_MAX_FPOWM_T, h^q = g_i^q = 1),
   l = l_e_nizk >= 0 (any challenge length), m = the public messages in [0,q), n = |m| >= 2 not above the key size, pi = any
   permutation of the positions, r = the randomizer of the commitment c to the permuted messages, raws = any coin list of the
   prover, alpha = any coin of the verifier.  Whenever the challenge e is invertible mod q (the code asserts this: e = 0 is a
   2^-l event, docs/C03.md O-c), the verifier accepts -- with and without `optimizations`; the verifier's range rules
   0 <= f_i, z, f_Delta_i, z_Delta < q (fix 25cc964) and the membership tests of c_d, c_a, c_Delta (fix e411aec) are part of
   the model.  FULL theorem (no _partial): homomorphic commitments, the invariant F_i = e a_i + Delta_i, product argument. *)
Theorem C03_skc_complete : forall H C l, wf_pcom C -> 0 <= l -> forall pi r m raws t mus opt alpha,
  (2 <= List.length m)%nat -> (List.length m <= List.length (pc_g C))%nat -> Permutation.Permutation pi (seq 0 (List.length m)) ->
  0 <= r < pc_q C -> msgs_ok (pc_q C) m -> 0 <= alpha ->
  permuted pi m = Some mus ->
  skc_prove H C l pi r m raws = Some t ->
  (exists ei, (skc_e H C l m (skc_x H C l m) (k_cd t) (k_cDelta t) (k_ca t) * ei) mod pc_q C = 1) ->
  skc_verify H C l (commitment C r mus) m true t opt alpha = Accept.
Proof. exact skc_complete. Qed.
Print Assumptions C03_skc_complete.

(* the honest SKC prover never fails on honest inputs (the premise of C03_skc_complete is satisfiable for all of them) *)
Theorem C03_skc_prover_total : forall H C l, wf_pcom C -> forall pi r m raws,
  (2 <= List.length m)%nat -> (List.length m <= List.length (pc_g C))%nat -> Permutation.Permutation pi (seq 0 (List.length m)) ->
  exists t mus, permuted pi m = Some mus /\ skc_prove H C l pi r m raws = Some t.
Proof. exact skc_prove_total. Qed.
Print Assumptions C03_skc_prover_total.

(* the algebra behind it, usable on their own: Pedersen commitments are homomorphic ... *)
Theorem C03_pedersen_homomorphic : forall C, wf_pcom C -> forall k r s la lb,
  0 <= k -> 0 <= r -> 0 <= s -> List.length la = List.length lb -> nonneg la -> nonneg lb ->
  (powm (commitment C r la) k (pc_p C) * commitment C s lb) mod pc_p C =
  commitment C ((k * r + s) mod pc_q C) (map (lin k (pc_q C)) (combine la lb)).
Proof. exact commitment_lin. Qed.
Print Assumptions C03_pedersen_homomorphic.

(* ... and the verifier's recursion over honest responses ends in e * a_n + Delta_n *)
Theorem C03_skc_recursion : forall C e ei x, (e * ei) mod pc_q C = 1 -> forall mu d Delta n, (2 <= n)%nat -> Delta O = d O ->
  forall ex ff fd, ex = (e * x) mod pc_q C -> (forall i, ff i = (e * mu i + d i) mod pc_q C) ->
  (forall i, fd i = (e * lej2 C mu d Delta x n i + lej1 C d Delta n i) mod pc_q C) ->
  F_loop C ex ei (map ff (seq 0 n)) (map fd (seq 0 (n - 1))) true 1 = (e * a_of C mu x (n - 1) + Delta (n - 1)%nat) mod pc_q C.
Proof. exact F_loop_honest. Qed.
Print Assumptions C03_skc_recursion.

(* non-vacuity: the tiny group of KeyRingLemmas satisfies the hypotheses; 16 = 2^4 is a group element *)
Example C03_nonvacuous_wf : wf_params dup_H 8 dup_G /\ elem dup_G 16 /\ elem dup_G 8.
Proof. split; [exact dup_wf|]. split; vm_compute; reflexivity. Qed.
Example C03_nonvacuous_masking :
  vtmf_mask dup_G 16 (precompute 16 11) 8 3 = Some (8, 16) /\
  mask_prove dup_H dup_G 16 (precompute 16 11) 8 8 16 3 7 = Some (0, 7) /\
  mask_verify dup_H 8 dup_G 16 (precompute 16 11) 8 8 16 true 0 7 = Accept.
Proof. repeat split; vm_compute; reflexivity. Qed.
(* statements whose elements are all group members exist: an OR proof (y_1 = 4^5, y_2 = 9, bases 4 and 8) and a re-masking
   of the card (8, 16), both accepted *)
Example C03_nonvacuous_or :
  elem dup_G 9 /\ elem dup_G (powm 4 5 23) /\
  or_prove_first dup_H dup_G 16 (powm 4 5 23) 9 4 8 5 3 7 6 = Some (5, 6, 0, 7) /\
  or_verify dup_H dup_G 16 (powm 4 5 23) 9 4 8 true 5 6 0 7 = Accept.
Proof. repeat split; vm_compute; reflexivity. Qed.
Example C03_nonvacuous_remasking :
  elem dup_G 8 /\ elem dup_G 16 /\
  remask dup_G 16 (precompute 16 11) 8 16 4 = Some (13, 6) /\
  remask_prove dup_H dup_G 16 (precompute 16 11) 8 16 13 6 4 9 = Some (0, 9) /\
  remask_verify dup_H 8 dup_G 16 (precompute 16 11) 8 16 13 6 true 0 9 = Accept.
Proof. repeat split; vm_compute; reflexivity. Qed.
Example C03_nonvacuous_pedersen : wf_pcom (mkPcom 23 11 16 [2; 4; 8]) /\ msgs_ok 11 [3; 0; 10] /\
  commit_by (mkPcom 23 11 16 [2; 4; 8]) 5 [3; 0; 10] true = commit_by (mkPcom 23 11 16 [2; 4; 8]) 5 [3; 0; 10] false.
Proof.
  split; [constructor; try reflexivity; [vm_compute; discriminate|repeat constructor]|].
  split; [repeat constructor; lia|vm_compute; reflexivity].
Qed.
(* a concrete honest cut-and-choose run (p = 23, q = 11, g = 2, h = 16; three cards, three iterations, both challenge values):
   the hypotheses of C03_cutchoose_complete hold and the run is accepted *)
Definition ex_Hc (l : list vcard) : Z := fold_right (fun c a => fst c + 3 * snd c + 5 * a) 7 l.
Definition ex_s : list vcard := [(1, 4); (8, 9); (2, 16)].
Definition ex_sigma : vsecret := [(2%N, 3%N); (0%N, 10%N); (1%N, 0%N)].
Definition ex_coins : list N := map N.of_nat (seq 3 240).
Example C03_nonvacuous_cutchoose :
  forallb (card_ok dup_G) ex_s = true /\ valid_secret 11 3 false ex_sigma /\
  cmix dup_G 16 ex_s ex_sigma = Ret [(2, 16); (8, 8); (4, 2)] /\
  honest_run ex_Hc dup_G 16 3 false ex_s [(2, 16); (8, 8); (4, 2)] ex_sigma ex_coins [true; false; true] = Ret true.
Proof.
  split; [vm_compute; reflexivity|]. split.
  - split; [reflexivity|]. split; [|split; [repeat constructor|discriminate]].
    change (map fst ex_sigma) with [2%N; 0%N; 1%N]. change (iota 3) with [0%N; 1%N; 2%N].
    apply Permutation.Permutation_sym. apply (Permutation.Permutation_cons_app [2%N] [1%N] 0%N). apply Permutation.perm_swap.
  - split; vm_compute; reflexivity.
Qed.
(* a concrete honest shuffle-of-known-content argument (p = 23, q = 11, three messages, l = 3): challenge e = 4 is invertible
   mod 11, the prover's message exists and both verifier variants accept *)
Definition ex_H (l : list Z) : Z := fold_right (fun v a => v + 3 * a) 5 l.
Definition ex_C := mkPcom 23 11 16 [2; 4; 8].
Definition ex_t := mkSkc 3 9 18 [2; 2; 8] 2 [2; 3] 8.
Example C03_nonvacuous_skc :
  permuted [2%nat; 0%nat; 1%nat] [3; 7; 10] = Some [10; 3; 7] /\
  skc_prove ex_H ex_C 3 [2%nat; 0%nat; 1%nat] 5 [3; 7; 10] [4; 9; 6; 1; 13; 20; 8] = Some ex_t /\
  (skc_e ex_H ex_C 3 [3; 7; 10] (skc_x ex_H ex_C 3 [3; 7; 10]) 3 9 18 * 3) mod 11 = 1 /\
  skc_verify ex_H ex_C 3 (commitment ex_C 5 [10; 3; 7]) [3; 7; 10] true ex_t false 0 = Accept /\
  skc_verify ex_H ex_C 3 (commitment ex_C 5 [10; 3; 7]) [3; 7; 10] true ex_t true 6 = Accept.
Proof. repeat split; vm_compute; reflexivity. Qed.
Example C03_nonvacuous_fs : List.length fs_agreements = 16%nat /\ In ("vsshe lambda"%string, true) fs_agreements.
Proof. split; [reflexivity|]. vm_compute. tauto. Qed.
