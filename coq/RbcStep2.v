(* RbcStep2: local facts about the out-of-order handler (l-retrieve / l-deliver) and the origin of stored payloads,
   used to extend agreement and integrity to slots fetched through that handler (C14). *)
From Coq Require Import ZArith List Bool Lia FinFun.
From LT Require Import RbcModel RbcLemmas RbcStep.
Import ListNotations.
Local Open Scope Z_scope.

Section Step2.
Variables (n t : Z) (H : Z -> Z) (toolong : tagT -> Z -> bool).
Notation handle := (handle n t H toolong).

(* the out-of-order handler accepted x for tg: n - t distinct parties answered l-deliver with x *)
Definition laccept (st : pst) (tg : tagT) (x : Z) : Prop :=
  exists L, NoDup L /\ n - t <= Z.of_nat (length L) /\
    forall k, In k L -> filt st FDeliver k tg = true /\ rbuf st tg k = x.

Lemma agree_find_laccept : forall me st tg i, agree_find n t me st tg = Some i -> laccept st tg (rbuf st tg i).
Proof.
  intros me st tg i F. unfold agree_find in F. apply find_some in F. destruct F as [Ir C]. b2p.
  unfold agree_num in *.
  set (f := fun k : Z => (i <? k) && filt st FDeliver k tg && negb (k =? me) && (rbuf st tg k =? rbuf st tg i)) in *.
  exists (i :: filter f (range n)). split; [|split].
  - constructor; [|apply NoDup_filter; apply range_nodup].
    intros I. apply filter_In in I. destruct I as [_ C]. unfold f in C. b2p. lia.
  - cbn [length]. lia.
  - intros k [<-|I]; [auto|]. apply filter_In in I. destruct I as [_ C]. unfold f in C. b2p. auto.
Qed.

Ltac open_handle :=
  unfold RbcModel.handle, stop; cbv zeta; break; intros E; inversion E; subst; clear E;
  try match goal with Htd : try_deliver _ _ = (_, _) |- _ =>
        apply try_deliver_cases in Htd;
        destruct Htd as [(-> & -> & ?)|[(? & ? & -> & ? & ->)|(-> & ->)]] end;
  proj; b2p.

(* where a stored payload comes from *)
Lemma handle_mbar2 : forall me st l m st' out r, handle me st l m = (st', out, r) ->
  forall tg, mbar st' tg = mbar st tg \/
  (tg = mtag m /\ exists x, mbar st' tg = Some x /\
     ((mbar st tg = None /\ forall i, In i (range n) -> In (i, Msg (m_id m) (m_j m) (m_s m) 2 (H x)) out) \/
      dbar st' tg = Some (H x) \/ laccept st' tg x)).
Proof.
  intros me st l m st' out r. open_handle; intros tg; auto;
  unfold updT; destruct (tag_eqb tg (mtag m)) eqn:C; auto; b2p; subst; right; split; auto; eexists; (split; [reflexivity|]);
  first [ left; split; [assumption|]; intros i I; unfold to_all; apply in_map_iff; exists i; auto
        | right; left; congruence
        | right; right;
          match goal with Hf : agree_find _ _ _ _ _ = Some _ |- _ => apply agree_find_laccept in Hf; unfold laccept in *; proj; exact Hf end ].
Qed.

(* an l-deliver answer carries the payload the party has stored *)
Lemma handle_sent7 : forall me st l m st' out r, handle me st l m = (st', out, r) ->
  forall dst x, In (dst, x) out -> m_act x = 7 -> mbar st (mtag x) = Some (m_pay x).
Proof.
  intros me st l m st' out r. open_handle; intros dst xm I A7;
  first [ apply in_to_all in I
        | apply in_map_iff in I; destruct I as (? & I & _); inversion I
        | destruct I as [I|[]]; inversion I
        | destruct I ];
  subst; cbn [mtag m_id m_j m_s m_act m_pay] in *; try discriminate; try lia; auto.
Qed.

(* the l-deliver filter and the retrieve buffer move together *)
Lemma handle_fdeliver : forall me st l m st' out r, handle me st l m = (st', out, r) ->
  forall k tg, filt st' FDeliver k tg = true ->
  (filt st FDeliver k tg = true /\ rbuf st' tg k = rbuf st tg k) \/
  (k = l /\ tg = mtag m /\ m_act m = 7 /\ rbuf st' tg k = m_pay m).
Proof.
  intros me st l m st' out r. open_handle; intros k tg F; auto;
  apply fset_inv in F; destruct F as [F|(K & -> & ->)]; try discriminate; auto.
  all: try (left; split; [assumption|]; rewrite upd2_eq;
            destruct (tag_eqb tg (mtag m) && (k =? l)) eqn:C; auto; b2p; subst; congruence).
  all: right; rewrite upd2_same; repeat split; auto; lia.
Qed.

(* validated tags, second form: the agreed digest matches the stored payload, or the handler accepted the stored payload *)
Definition svalid (st : pst) (tg : tagT) : Prop :=
  (exists d, dbar st tg = Some d /\ match mbar st tg with Some v => H v = d \/ d = 0 | None => d = 0 end) \/
  (exists x, mbar st tg = Some x /\ laccept st tg x).

Lemma handle_valid2 : forall me st l m st' out r, handle me st l m = (st', out, r) ->
  (forall who tg v, r = RDeliver who tg v -> tg = mtag m /\ mbar st' tg = Some v /\ svalid st' tg) /\
  (forall tg, In tg (dbuf st') -> In tg (dbuf st) \/ (tg = mtag m /\ svalid st' tg)).
Proof.
  intros me st l m st' out r. open_handle; (split; [intros who tg v E; try discriminate; inversion E; subst | intros tg I; auto]);
  try (apply in_app_or in I; destruct I as [I|[<-|[]]]; [left; exact I|right]);
  try (split; [reflexivity|]); try (split; [proj; rewrite ?updT_same; eauto; fail|]);
  try (split; [assumption|]);
  unfold svalid; proj; rewrite ?updT_same in *; cbv beta iota;
  first [ exfalso; congruence
        | right; eexists; split; [reflexivity|];
          match goal with Hf : agree_find _ _ _ _ _ = Some _ |- _ => apply agree_find_laccept in Hf; unfold laccept in *; proj; exact Hf end
        | left; eexists; split; [first [eassumption|reflexivity]|];
          try (left; assumption);
          destruct (mbar st (mtag m)); try discriminate;
          first [left; assumption | left; congruence | symmetry; assumption | congruence ] ].
Qed.

(* ---- one call of Deliver / DeliverFrom ---------------------------------------------------------------- *)
Variable skip : Z.
Notation deliver := (deliver n t skip H toolong).
Notation deliver_from := (deliver_from n t skip H toolong).

Definition pstep2 (st st' : pst) (out : list (Z * msg)) (r : dres) (offer : option (Z * msg)) : Prop :=
  (forall tg, mbar st' tg = mbar st tg \/
     exists x, mbar st' tg = Some x /\
       ((mbar st tg = None /\ exists id j s, tg = (id, j, s) /\ forall i, In i (range n) -> In (i, Msg id j s 2 (H x)) out) \/
        dbar st' tg = Some (H x) \/ laccept st' tg x)) /\
  (forall dst x, In (dst, x) out -> m_act x = 7 -> mbar st (mtag x) = Some (m_pay x)) /\
  (forall k tg, filt st' FDeliver k tg = true ->
     (filt st FDeliver k tg = true /\ rbuf st' tg k = rbuf st tg k) \/
     exists m, offer = Some (k, m) /\ mtag m = tg /\ m_act m = 7 /\ rbuf st' tg k = m_pay m) /\
  (forall who tg v, r = RDeliver who tg v -> mbar st' tg = Some v /\ (svalid st' tg \/ In tg (dbuf st))) /\
  (forall tg, In tg (dbuf st') -> In tg (dbuf st) \/ svalid st' tg).

Ltac split5 := refine (conj _ (conj _ (conj _ (conj _ _)))).

Lemma pstep2_same : forall st st' out,
  mbar st' = mbar st -> filt st' = filt st -> rbuf st' = rbuf st -> dbuf st' = dbuf st ->
  (forall dst x, In (dst, x) out -> m_act x <> 7) -> forall off, pstep2 st st' out RNone off.
Proof.
  intros st st' out E1 E2 E3 E4 A off. unfold pstep2. rewrite E1, E2, E3, E4. split5; auto.
  - intros dst x I A7. apply A in I. contradiction.
  - discriminate.
Qed.

Lemma deliver_pstep2 : forall me st offer,
  let o := deliver me st offer in pstep2 st (o_st o) (o_sent o) (o_res o) offer.
Proof.
  intros me st offer. unfold RbcModel.deliver.
  destruct (split_first (deliverable st) [] (dbuf st)) as [[[pre [[id who] s]] post]|] eqn:SF.
  - apply split_first_spec in SF. destruct SF as [_ SF]. cbn [rev app] in SF.
    destruct (mbar st (id, who, s)) eqn:M; cbv zeta; cbn [o_st o_sent o_res]; unfold pstep2; proj; split5; auto.
    + intros ? ? [].
    + intros who0 tg v E. inversion E; subst. split; [exact M|]. right. rewrite SF. apply in_or_app. right. left. reflexivity.
    + intros tg I. left. rewrite SF. apply in_app_or in I. apply in_or_app. destruct I; [left|right; right]; auto.
    + intros ? ? [].
    + discriminate.
  - destruct (buffer_phase n skip me st) as [st1 sent1] eqn:BP. apply buffer_phase_spec in BP.
    destruct BP as (F & _ & A6 & Sub). destruct F as (_ & Mb & Db & _ & _ & Rb & Fm & Fi).
    unfold all_act6 in A6. rewrite Forall_forall in A6.
    destruct offer as [[l m]|]; cbv zeta.
    + destruct (handle me st1 l m) as [[st2 sent2] r] eqn:HH. cbn [o_st o_sent o_res].
      pose proof (handle_mbar2 _ _ _ _ _ _ _ HH) as X1.
      pose proof (handle_sent7 _ _ _ _ _ _ _ HH) as X2.
      pose proof (handle_fdeliver _ _ _ _ _ _ _ HH) as X3.
      pose proof (handle_valid2 _ _ _ _ _ _ _ HH) as [X4 X5].
      unfold pstep2. rewrite Mb, Rb in *. split5.
      * intros tg. destruct (X1 tg) as [E|(-> & x & E & [[N A]|[D|L]])]; auto; right; exists x; split; auto.
        left. split; auto. exists (m_id m), (m_j m), (m_s m). split; [reflexivity|]. intros i I. apply in_or_app. right. auto.
      * intros dst x I A7. apply in_app_or in I. destruct I as [I|I].
        -- apply A6 in I. cbn in I. lia.
        -- eapply X2; eauto.
      * intros k tg Fk. destruct (X3 k tg Fk) as [[F0 R0]|(-> & -> & A7 & R0)].
        -- left. split; auto. destruct (Fi _ _ _ F0) as [?|?]; [auto|discriminate].
        -- right. exists m. auto.
      * intros who tg v E. apply X4 in E. destruct E as (_ & E & V). split; auto.
      * intros tg I. apply X5 in I. destruct I as [I|[_ V]]; auto.
    + cbn [o_st o_sent o_res]. unfold pstep2. rewrite Mb, Rb. split5; auto.
      * intros dst x I A7. apply A6 in I. cbn in I. lia.
      * intros k tg Fk. left. split; auto. destruct (Fi _ _ _ Fk) as [?|?]; [auto|discriminate].
      * discriminate.
Qed.

Lemma deliver_from_pstep2 : forall me st i off,
  let o := fst (deliver_from me st i off) in pstep2 st (o_st o) (o_sent o) (o_res o) off.
Proof.
  intros me st i off. unfold RbcModel.deliver_from.
  destruct ((i <? 0) || (i >=? n)).
  - cbn. apply pstep2_same; auto; intros ? ? [].
  - destruct (take_chan (cur st) [] (fbuf st i)) as [[v rest]|].
    + cbn. apply pstep2_same; auto; intros ? ? [].
    + pose proof (deliver_pstep2 me st off) as P. cbv zeta in P.
      destruct (o_res (deliver me st off)) eqn:R; cbn; rewrite ?R; auto.
Qed.

End Step2.
