(* SqrtModel -- Gallina model of the modular square roots of src/mpz_sqrtm.cc (C09).  Definitions only.
   tmcg_mpz_sqrtmp_r / tmcg_mpz_sqrtmp / tmcg_mpz_sqrtmp_fast share one body and differ only in how the
   quadratic non-residue b is obtained (random draws until mpz_jacobi = -1 / smallest b >= 2 with jacobi -1 /
   precomputed); the model takes b as a parameter (the harness obtains it exactly as the code does).
   Moduli are positive.  Loops carry fuel; running out of fuel is the explicit outcome SqDiverge
   (the C loops do not terminate for s = 0, e.g. p = 1; p = 2 is answered by the guard added in 03c88a4). *)
From Coq Require Import ZArith List Bool.
From LT Require Import Zbase.
Import ListNotations.
Local Open Scope Z_scope.

Inductive sq_outcome : Type :=
| SqOk (r : Z)
| SqThrowZero       (* invalid_argument "a is zero"            mpz_sqrtm.cc:181,302,411 *)
| SqThrowGcd        (* runtime_error "gcd(p,q) not equal 1"    mpz_sqrtm.cc:469,521,564,607 *)
| SqDiverge.

(* first loop of the p = 1 (mod 8) branch, mpz_sqrtm.cc:113-131: halve s while a^s = 1;
   inl root = returned from inside the loop (s odd), inr s = left the loop with a^s <> 1 *)
Fixpoint ts_loop1 (fuel : nat) (a p s : Z) : option (Z + Z) :=
  match fuel with
  | O => None
  | S f =>
    if powm a s p =? 1 then
      if Z.odd s then Some (inl (powm a ((s + 1) / 2) p))
      else ts_loop1 f a p (s / 2)
    else Some (inr s)
  end.

(* second loop, mpz_sqrtm.cc:140-158: while s even, halve s and t, correct t by (p-1)/2 if a^s b^t = -1 *)
Fixpoint ts_loop2 (fuel : nat) (a p b s t : Z) : option (Z * Z) :=
  match fuel with
  | O => None
  | S f =>
    if Z.even s then
      let s' := s / 2 in
      let t' := t / 2 in
      let foo := (powm a s' p * powm b t' p) mod p in
      let t'' := if (foo + 1) mod p =? 0 then t' + (p - 1) / 2 else t' in
      ts_loop2 f a p b s' t''
    else Some (s, t)
  end.

Definition sq_fuel (p : Z) : nat := S (Z.to_nat (Z.log2_up p)).

(* common body of tmcg_mpz_sqrtmp_r (62-182), tmcg_mpz_sqrtmp (184-303) with non-residue b *)
Definition sqrtmp_with (a p b : Z) : sq_outcome :=
  if p =? 2 then SqOk (if Z.odd a then 1 else 0)        (* p = 2 guard, before the a = 0 test; mpz_sqrtm.cc:65-70,193-198 *)
  else if a =? 0 then SqThrowZero
  else if p mod 4 =? 3 then SqOk (powm a ((p + 1) / 4) p)
  else
    let s := (p - 1) / 4 in
    if p mod 8 =? 5 then
      let foo := powm a s p in
      let root := powm a ((p + 3) / 8) p in
      if foo =? 1 then SqOk root else SqOk ((root * powm b s p) mod p)
    else
      match ts_loop1 (sq_fuel p) a p s with
      | None => SqDiverge
      | Some (inl root) => SqOk root
      | Some (inr s1) =>
        match ts_loop2 (sq_fuel p) a p b s1 ((p - 1) / 2) with
        | None => SqDiverge
        | Some (s2, t2) => SqOk ((powm a ((s2 + 1) / 2) p * powm b (t2 / 2) p) mod p)
        end
      end.

(* CRT combination, mpz_sqrtm.cc:436-452: u*p + v*q = g from mpz_gcdext (u, v are parameters) *)
Definition crt_roots (rp rq u v p q n : Z) : Z * Z * Z * Z :=
  let r1 := (rq * u * p + rp * v * q) mod n in
  let r2 := n - r1 in
  let r3 := ((- rq) * u * p + rp * v * q) mod n in
  let r4 := n - r3 in
  (r1, r2, r3, r4).

(* "choose smallest root", mpz_sqrtm.cc:454-460 (mpz_cmpabs) *)
Definition smallest4 (r : Z * Z * Z * Z) : Z :=
  let '(r1, r2, r3, r4) := r in
  let m := r1 in
  let m := if Z.abs r2 <? Z.abs m then r2 else m in
  let m := if Z.abs r3 <? Z.abs m then r3 else m in
  if Z.abs r4 <? Z.abs m then r4 else m.

(* tmcg_mpz_sqrtmn_r_all / tmcg_mpz_sqrtmn_all: all four roots; bp, bq the non-residues used mod p and mod q *)
Definition sqrtmn_all_with (a p q n u v bp bq : Z) : option (Z * Z * Z * Z) + sq_outcome :=
  if negb (Z.gcd p q =? 1) then inr SqThrowGcd
  else match sqrtmp_with a p bp with
       | SqOk rp =>
         match sqrtmp_with a q bq with
         | SqOk rq => inl (Some (crt_roots rp rq u v p q n))
         | e => inr e
         end
       | e => inr e
       end.

(* tmcg_mpz_sqrtmn_r / tmcg_mpz_sqrtmn *)
Definition sqrtmn_with (a p q n u v bp bq : Z) : sq_outcome :=
  match sqrtmn_all_with a p q n u v bp bq with
  | inl (Some r) => SqOk (smallest4 r)
  | inl None => SqDiverge
  | inr e => e
  end.

(* tmcg_mpz_sqrtmn_fast_all (630-659) and tmcg_mpz_sqrtmn_fast (610-628): Blum integers, precomputed
   up = u*p, vq = v*q, pa1d4 = (p+1)/4, qa1d4 = (q+1)/4 are parameters as in the code *)
Definition sqrtmn_fast_all (a p q n up vq pa1d4 qa1d4 : Z) : Z * Z * Z * Z :=
  let rp := powm a pa1d4 p in
  let rq := powm a qa1d4 q in
  let r1 := (rq * up + rp * vq) mod n in
  let r2 := n - r1 in
  let r3 := ((- rq) * up + rp * vq) mod n in
  let r4 := n - r3 in
  (r1, r2, r3, r4).

Definition sqrtmn_fast (a p q n up vq pa1d4 qa1d4 : Z) : Z :=
  let rp := powm a pa1d4 p in
  let rq := powm a qa1d4 q in
  (rq * up + rp * vq) mod n.
