(* CheckGroupLemmas: proofs about CheckGroupModel (C06) and the arithmetic they need (mpz_invert model). *)
From Coq Require Import ZArith Znumtheory Lia List Bool ZifyBool.
From LT Require Import Zbase CodecModel CheckGroupModel.
Import ListNotations.
Local Open Scope Z_scope.

Ltac splits := repeat match goal with |- _ /\ _ => split end.

(* ---- invm (extended Euclid with fuel) is a correct and complete modular inverse ------------------- *)
Lemma egcd_fuel_S f r0 r1 s0 s1 :
  egcd_fuel (S f) r0 r1 s0 s1 =
  if r1 =? 0 then (r0, s0) else egcd_fuel f r1 (r0 - r0 / r1 * r1) s1 (s0 - r0 / r1 * s1).
Proof. reflexivity. Qed.

Lemma egcd_fuel_spec a p : forall fuel r0 r1 s0 s1,
  0 <= r1 < r0 -> r0 * r1 < 2 ^ Z.of_nat fuel ->
  (exists t, r0 = s0 * a + t * p) -> (exists t, r1 = s1 * a + t * p) ->
  fst (egcd_fuel (S fuel) r0 r1 s0 s1) = Z.gcd r0 r1 /\
  exists t, fst (egcd_fuel (S fuel) r0 r1 s0 s1) = snd (egcd_fuel (S fuel) r0 r1 s0 s1) * a + t * p.
Proof.
  induction fuel as [|f IH]; intros r0 r1 s0 s1 Hr Hprod [t0 E0] [t1 E1].
  - assert (Z1 : r1 = 0) by (change (2 ^ Z.of_nat 0) with 1 in Hprod; nia).
    rewrite egcd_fuel_S. destruct (Z.eqb_spec r1 0) as [_|N]; [|contradiction]. cbn [fst snd]. split.
    + rewrite Z1, Z.gcd_0_r. lia.
    + exists t0. exact E0.
  - rewrite egcd_fuel_S. destruct (Z.eqb_spec r1 0) as [Z0|NZ].
    + cbn [fst snd]. split; [rewrite Z0, Z.gcd_0_r; lia | exists t0; exact E0].
    + assert (Hmod : r0 - r0 / r1 * r1 = r0 mod r1) by (rewrite Z.mod_eq by lia; lia).
      pose proof (Z.mod_pos_bound r0 r1 ltac:(lia)) as Hb.
      pose proof (Z.div_mod r0 r1 NZ) as Hdm.
      assert (Hq : 1 <= r0 / r1) by (apply Z.div_le_lower_bound; lia).
      destruct (IH r1 (r0 - r0 / r1 * r1) s1 (s0 - r0 / r1 * s1)) as [G B].
      * rewrite Hmod. lia.
      * rewrite Hmod. rewrite Nat2Z.inj_succ, Z.pow_succ_r in Hprod by lia. nia.
      * exists t1. exact E1.
      * exists (t0 - r0 / r1 * t1). rewrite E0 at 1. rewrite E1 at 2. ring.
      * split; [|exact B]. rewrite G, Hmod. rewrite Z.gcd_comm. rewrite Z.gcd_mod by lia. apply Z.gcd_comm.
Qed.

Lemma invm_spec a p : 0 < p ->
  match invm a p with
  | Some i => 0 <= i < p /\ (a * i) mod p = 1 mod p
  | None => Z.gcd a p <> 1
  end.
Proof.
  intros Hp. unfold invm. destruct (Z.leb_spec p 0) as [|_]; [lia|].
  set (n := Z.to_nat (Z.log2_up p + 1)).
  assert (Hn : (1 <= n)%nat) by (pose proof (Z.log2_up_nonneg p); lia).
  destruct n as [|m] eqn:En; [lia|].
  replace (2 * S m)%nat with (S (2 * m + 1))%nat by lia.
  rewrite egcd_fuel_S. destruct (Z.eqb_spec p 0) as [|_]; [lia|].
  pose proof (Z.mod_pos_bound a p Hp) as Hb.
  rewrite (Z.div_small (a mod p) p) by lia.
  replace (a mod p - 0 * p) with (a mod p) by lia. replace (1 - 0 * 0) with 1 by lia.
  assert (Hlog : p <= 2 ^ Z.log2_up p).
  { destruct (Z.eq_dec p 1) as [->|]; [cbn; lia|]. apply Z.log2_up_spec. lia. }
  assert (Hprod : p * (a mod p) < 2 ^ Z.of_nat (2 * m + 1)).
  { assert (Z.of_nat (2 * m + 1) = 2 * Z.log2_up p + 1 + 0).
    { pose proof (Z.log2_up_nonneg p). lia. }
    rewrite H. replace (2 * Z.log2_up p + 1 + 0) with (Z.log2_up p + Z.log2_up p + 1) by lia.
    pose proof (Z.log2_up_nonneg p).
    rewrite !Z.pow_add_r by lia. change (2 ^ 1) with 2. nia. }
  replace (2 * m + 1)%nat with (S (2 * m))%nat in * by lia.
  destruct (Z.eq_dec (a mod p) 0) as [Zr|NZr].
  - (* a = 0 mod p *)
    rewrite Zr. rewrite egcd_fuel_S. cbn [Z.eqb].
    assert (Hg : Z.gcd a p = p).
    { rewrite Z.gcd_comm, <- Z.gcd_mod by lia. rewrite Zr, Z.gcd_0_l. lia. }
    destruct (Z.eqb_spec p 1) as [P1|P1].
    + subst p. cbn. split; [lia|]. now rewrite !Z.mod_1_r.
    + rewrite Hg. lia.
  - destruct (egcd_fuel_spec a p (S (2 * m)) p (a mod p) 0 1) as [G [t B]].
    + lia.
    + exact Hprod.
    + exists 1. ring.
    + exists (- (a / p)). rewrite Z.mod_eq by lia. ring.
    + destruct (egcd_fuel (S (S (2 * m))) p (a mod p) 0 1) as [g s]. cbn [fst snd] in G, B.
      assert (Hg : g = Z.gcd a p).
      { rewrite G. rewrite Z.gcd_comm, Z.gcd_mod by lia. apply Z.gcd_comm. }
      destruct (Z.eqb_spec g 1) as [G1|G1].
      * split; [apply Z.mod_pos_bound; lia|].
        rewrite Zmult_mod_idemp_r. replace (a * s) with (1 + (- t) * p) by lia.
        now rewrite Z.mod_add by lia.
      * destruct (Z.eqb_spec p 1) as [P1|P1].
        -- subst p. split; [lia|]. now rewrite !Z.mod_1_r.
        -- lia.
Qed.

Lemma invm_some a p i : 0 < p -> invm a p = Some i -> 0 <= i < p /\ (a * i) mod p = 1 mod p.
Proof. intros Hp E. pose proof (invm_spec a p Hp) as S. now rewrite E in S. Qed.

Lemma invm_coprime a p : 0 < p -> Z.gcd a p = 1 -> exists i, invm a p = Some i.
Proof.
  intros Hp G. pose proof (invm_spec a p Hp) as S. destruct (invm a p) as [i|]; [now exists i|contradiction].
Qed.

(* in a prime field every non-zero residue is invertible *)
Lemma invm_prime a p : prime p -> a mod p <> 0 -> exists i, invm a p = Some i.
Proof.
  intros Pp Ha. assert (0 < p) by (destruct Pp; lia).
  apply invm_coprime; [assumption|].
  apply Zgcd_1_rel_prime. apply rel_prime_sym. apply prime_rel_prime; [assumption|].
  intros D. apply Ha. now apply Zdivide_mod.
Qed.

(* ---- sizeinbase2 is the bit length ------------------------------------------------------------------ *)
Lemma sizeinbase2_spec n : n <> 0 -> 2 ^ (sizeinbase2 n - 1) <= Z.abs n < 2 ^ sizeinbase2 n.
Proof.
  intros Hn. unfold sizeinbase2. destruct (Z.eqb_spec n 0); [contradiction|].
  replace (Z.log2 (Z.abs n) + 1 - 1) with (Z.log2 (Z.abs n)) by lia.
  replace (Z.log2 (Z.abs n) + 1) with (Z.succ (Z.log2 (Z.abs n))) by lia.
  apply Z.log2_spec. lia.
Qed.

(* ---- mpz_powm on the ordinary domain ----------------------------------------------------------------- *)
Lemma mpz_powm_pos b e p : 0 < p -> 0 <= e -> mpz_powm b e p = Some (b ^ e mod p).
Proof.
  intros Hp He. unfold mpz_powm. destruct (Z.eqb_spec p 0); [lia|].
  destruct (Z.leb_spec 0 e); [|lia]. rewrite Z.abs_eq by lia. now rewrite powm_spec by lia.
Qed.

Section Proofs.
  Variable is_prime : Z -> bool.
  Variable H : bytes -> Z.
  Hypothesis is_prime_correct : forall n, 0 <= n -> (is_prime n = true <-> prime n).

  (* ---- declarative well-formedness ------------------------------------------------------------------ *)
  Definition wf_core (F G p q k : Z) : Prop :=
    F <= sizeinbase2 p /\ G <= sizeinbase2 q /\ p = q * k + 1 /\ prime (Z.abs p) /\ prime (Z.abs q) /\ Z.gcd q k = 1.

  Definition canon_ok (fuel : nat) (canonical : bool) (p q k g : Z) : Prop :=
    canonical = true -> canon_loop H fuel (ustr0 p q) p q k = Found g.

  (* all integers: the order test is kept in the form the code evaluates it (it differs from g^q = 1 only for q < 0) *)
  Definition wf_vtmf (fuel : nat) (F G : Z) (canonical : bool) (p q g k : Z) : Prop :=
    wf_core F G p q k /\ 1 < g < p - 1 /\ mpz_powm g q p = Some 1 /\ canon_ok fuel canonical p q k g.

  (* the textbook statement (q > 0) *)
  Definition wf_group (fuel : nat) (F G : Z) (canonical : bool) (p q g k : Z) : Prop :=
    F <= sizeinbase2 p /\ G <= sizeinbase2 q /\ p = q * k + 1 /\ prime p /\ prime q /\ ~ (q | k) /\
    1 < g < p - 1 /\ g ^ q mod p = 1 /\ canon_ok fuel canonical p q k g.

  Lemma check_core_iff F G p q k : check_core is_prime F G p q k = true <-> wf_core F G p q k.
  Proof.
    unfold check_core, wf_core, probab_prime.
    pose proof (is_prime_correct (Z.abs p) (Z.abs_nonneg p)) as Pp.
    pose proof (is_prime_correct (Z.abs q) (Z.abs_nonneg q)) as Pq.
    rewrite !andb_true_iff, negb_true_iff, orb_false_iff, !Z.ltb_ge, !Z.eqb_eq.
    rewrite Pp, Pq. intuition lia.
  Qed.

  Lemma canon_check_accept fuel p q k g :
    canon_check H fuel p q k g = Accept <-> canon_loop H fuel (ustr0 p q) p q k = Found g.
  Proof.
    unfold canon_check. destruct (canon_loop H fuel (ustr0 p q) p q k) as [g2| |].
    - destruct (Z.eqb_spec g g2) as [->|N]; split; intros E; try reflexivity; try discriminate.
      inversion E. congruence.
    - split; discriminate.
    - split; discriminate.
  Qed.

  Theorem check_group_vtmf_iff fuel F G canonical p q g k :
    check_group_vtmf is_prime H fuel F G canonical p q g k = Accept <-> wf_vtmf fuel F G canonical p q g k.
  Proof.
    unfold check_group_vtmf, wf_vtmf, canon_ok. rewrite <- check_core_iff.
    destruct (check_core is_prime F G p q k); cbn [negb].
    2:{ split; [discriminate|]. intros [E _]. discriminate. }
    unfold in_range. destruct (Z.ltb_spec 1 g); cbn [andb negb].
    2:{ split; [discriminate|]. intros (_ & R & _). lia. }
    destruct (Z.ltb_spec g (p - 1)); cbn [negb].
    2:{ split; [discriminate|]. intros (_ & R & _). lia. }
    destruct (mpz_powm g q p) as [t|].
    2:{ split; [discriminate|]. intros (_ & _ & E & _). discriminate. }
    destruct (Z.eqb_spec t 1) as [->|N]; cbn [negb].
    2:{ split; [discriminate|]. intros (_ & _ & E & _). inversion E. contradiction. }
    destruct canonical.
    - rewrite canon_check_accept. split.
      + intros E. splits; try lia; auto.
      + intros (_ & _ & _ & C). auto.
    - split; [|reflexivity]. intros _. splits; try lia; try reflexivity; try discriminate.
  Qed.

  Lemma gcd_prime_ndiv q k : prime q -> (Z.gcd q k = 1 <-> ~ (q | k)).
  Proof.
    intros Pq. split.
    - intros G D. assert (q | Z.gcd q k) by (apply Z.gcd_greatest; [apply Z.divide_refl|assumption]).
      rewrite G in H0. destruct Pq as [Q1 _]. apply Z.divide_1_r in H0. lia.
    - intros ND. apply Zgcd_1_rel_prime. now apply prime_rel_prime.
  Qed.

  Lemma wf_vtmf_pos fuel F G canonical p q g k : 0 < q ->
    (wf_vtmf fuel F G canonical p q g k <-> wf_group fuel F G canonical p q g k).
  Proof.
    intros Hq. unfold wf_vtmf, wf_core, wf_group. split.
    - intros ((HF & HG & Hf & Pp & Pq & Hg) & R & O & C).
      assert (0 < p) by lia. rewrite Z.abs_eq in Pp, Pq by lia.
      rewrite mpz_powm_pos in O by lia. inversion O as [O'].
      rewrite gcd_prime_ndiv in Hg by assumption. rewrite O'. splits; auto; lia.
    - intros (HF & HG & Hf & Pp & Pq & Hg & R & O & C).
      assert (0 < p) by lia. rewrite !Z.abs_eq by lia.
      rewrite <- gcd_prime_ndiv in Hg by assumption.
      rewrite mpz_powm_pos by lia. rewrite O. splits; auto; lia.
  Qed.

  Theorem check_group_vtmf_textbook fuel F G canonical p q g k : 0 < q ->
    (check_group_vtmf is_prime H fuel F G canonical p q g k = Accept <-> wf_group fuel F G canonical p q g k).
  Proof. intros Hq. rewrite check_group_vtmf_iff. now apply wf_vtmf_pos. Qed.

  (* for q > 0, k > 0 the check never dies: GMP's division by zero is out of reach *)
  Lemma canon_loop_no_crash p q k : 0 < p -> 0 <= q -> 0 <= k ->
    forall fuel U, canon_loop H fuel U p q k <> CCrash.
  Proof.
    intros Hp Hq Hk. induction fuel as [|f IH]; intros U; cbn [canon_loop]; [discriminate|].
    rewrite mpz_powm_pos by lia. rewrite mpz_powm_pos by lia.
    destruct ((H U ^ k mod p =? 0) || (H U ^ k mod p =? 1) || (H U ^ k mod p =? p - 1)
              || negb ((H U ^ k mod p) ^ q mod p =? 1)); [apply IH|discriminate].
  Qed.

  Theorem check_group_vtmf_no_crash fuel F G canonical p q g k : 0 < q -> 0 < k ->
    check_group_vtmf is_prime H fuel F G canonical p q g k <> Crash.
  Proof.
    intros Hq Hk. unfold check_group_vtmf.
    destruct (check_core is_prime F G p q k) eqn:Ec; cbn [negb]; [|discriminate].
    apply check_core_iff in Ec. destruct Ec as (_ & _ & Hf & _).
    destruct (in_range g p); cbn [negb]; [|discriminate].
    rewrite mpz_powm_pos by nia. destruct (g ^ q mod p =? 1); cbn [negb]; [|discriminate].
    destruct canonical; [|discriminate]. unfold canon_check.
    pose proof (canon_loop_no_crash p q k ltac:(nia) ltac:(lia) ltac:(lia) fuel (ustr0 p q)) as NC.
    destruct (canon_loop H fuel (ustr0 p q) p q k) as [g2| |]; [destruct (g =? g2); discriminate|contradiction|discriminate].
  Qed.

  (* ---- the accepted generator has order exactly q ------------------------------------------------------ *)
  Theorem gen_order_exact fuel F G canonical p q g k : wf_group fuel F G canonical p q g k ->
    forall e, 0 <= e -> (g ^ e mod p = 1 <-> (q | e)).
  Proof.
    intros (_ & _ & _ & Pp & Pq & _ & R & O & _) e He.
    assert (Hp : 1 < p) by lia.
    assert (O' : powm g q p = 1) by (rewrite powm_spec; [exact O|lia|destruct Pq; lia]).
    assert (G1 : g mod p <> 1) by (rewrite Z.mod_small by lia; lia).
    pose proof (pow_inj_mod_q p q g Hp Pq O' G1 e 0 He ltac:(lia)) as I.
    rewrite Z.pow_0_r, (Z.mod_small 1 p), Z.mod_0_l in I by (destruct Pq; lia).
    rewrite I. destruct Pq as [Q1 _]. split.
    - intros M. apply Z.mod_divide; [lia|assumption].
    - intros D. apply Z.mod_divide in D; [assumption|lia].
  Qed.

  Corollary gen_no_smaller_order fuel F G canonical p q g k : wf_group fuel F G canonical p q g k ->
    forall d, 0 < d < q -> g ^ d mod p <> 1.
  Proof.
    intros W d Hd E. apply (gen_order_exact _ _ _ _ _ _ _ _ W) in E; [|lia].
    apply Z.divide_pos_le in E; lia.
  Qed.

  (* ---- CheckElement ------------------------------------------------------------------------------------- *)
  Theorem check_element_iff_raw p q a :
    check_element p q a = Accept <-> 0 < a < p /\ mpz_powm a q p = Some 1.
  Proof.
    unfold check_element. destruct (Z.leb_spec a 0); cbn [orb].
    { split; [discriminate|]. intros [R _]. lia. }
    destruct (Z.leb_spec p a).
    { split; [discriminate|]. intros [R _]. lia. }
    destruct (mpz_powm a q p) as [t|].
    - destruct (Z.eqb_spec t 1) as [->|N].
      + split; [intros _; split; [lia|reflexivity]|reflexivity].
      + split; [discriminate|]. intros [_ E]. congruence.
    - split; [discriminate|]. intros [_ E]. discriminate.
  Qed.

  Theorem check_element_iff p q a : 0 <= q ->
    (check_element p q a = Accept <-> 0 < a < p /\ a ^ q mod p = 1).
  Proof.
    intros Hq. rewrite check_element_iff_raw. split.
    - intros [R E]. rewrite mpz_powm_pos in E by lia. inversion E as [E']. rewrite E'. auto.
    - intros [R E]. rewrite mpz_powm_pos by lia. rewrite E. auto.
  Qed.

  Theorem check_element_total p q a : 0 <= q -> check_element p q a = Accept \/ check_element p q a = Reject.
  Proof.
    intros Hq. unfold check_element. destruct ((a <=? 0) || (p <=? a)) eqn:E; [now right|].
    rewrite mpz_powm_pos by lia. destruct (a ^ q mod p =? 1); auto.
  Qed.

  (* every power of the generator is accepted *)
  Theorem subgroup_accepted fuel F G canonical p q g k : wf_group fuel F G canonical p q g k ->
    forall x, 0 <= x -> check_element p q (powm g x p) = Accept.
  Proof.
    intros (_ & _ & _ & Pp & Pq & _ & R & O & _) x Hx.
    assert (Hp : 1 < p) by lia. assert (Hq : 1 < q) by (destruct Pq; lia).
    apply check_element_iff; [lia|].
    pose proof (powm_range g x p ltac:(lia) Hx) as Rg.
    assert (E : powm g x p ^ q mod p = 1).
    { rewrite <- powm_spec by lia. rewrite <- powm_mul by lia. rewrite Z.mul_comm.
      rewrite powm_mul by lia. rewrite (powm_spec g q) by lia. rewrite O.
      rewrite powm_1_l by lia. apply Z.mod_1_l. lia. }
    split; [|exact E].
    destruct (Z.eq_dec (powm g x p) 0) as [Z0|NZ]; [|lia].
    rewrite Z0 in E. rewrite Z.pow_0_l in E by lia. rewrite Z.mod_0_l in E by lia. discriminate.
  Qed.

  (* members are closed under multiplication (the accepted set is a subgroup) *)
  Theorem element_mul_closed p q a b : prime p -> 0 <= q ->
    check_element p q a = Accept -> check_element p q b = Accept -> check_element p q (a * b mod p) = Accept.
  Proof.
    intros Pp Hq Ea Eb. apply check_element_iff in Ea; [|assumption]. apply check_element_iff in Eb; [|assumption].
    destruct Ea as [Ra Ea], Eb as [Rb Eb]. assert (Hp : 1 < p) by lia.
    apply check_element_iff; [assumption|].
    pose proof (Z.mod_pos_bound (a * b) p ltac:(lia)) as Rm.
    assert (E : (a * b mod p) ^ q mod p = 1).
    { rewrite pow_mod_base by lia. rewrite Z.pow_mul_l. rewrite Zmult_mod, Ea, Eb. apply Z.mod_1_l. lia. }
    split; [|exact E].
    destruct (Z.eq_dec (a * b mod p) 0) as [Z0|NZ]; [|lia].
    apply Zmod_divide in Z0; [|lia]. apply prime_mult in Z0; [|assumption].
    destruct Z0 as [D|D]; apply Z.divide_pos_le in D; lia.
  Qed.

  (* ---- several generators -------------------------------------------------------------------------------- *)
  Lemma orders_ok_iff xs q p : orders_ok xs q p = Accept <-> Forall (fun x => mpz_powm x q p = Some 1) xs.
  Proof.
    induction xs as [|x r IH]; cbn [orders_ok].
    - split; [constructor|reflexivity].
    - destruct (mpz_powm x q p) as [t|] eqn:E.
      + destruct (Z.eqb_spec t 1) as [->|N].
        * rewrite IH. split; [intros; constructor; assumption|]. intros F. now inversion F.
        * split; [discriminate|]. intros F. inversion F as [|? ? E1 _]. rewrite E in E1. inversion E1. contradiction.
      + split; [discriminate|]. intros F. inversion F as [|? ? E1 _]. rewrite E in E1. discriminate.
  Qed.

  Lemma others_ok_iff h p gs :
    others_ok h p gs = true <-> Forall (fun x => 1 < x < p - 1) gs /\ ~ In h gs /\ NoDup gs.
  Proof.
    induction gs as [|x r IH]; cbn [others_ok].
    - split; [intros _; splits; [constructor|intros []|constructor]|reflexivity].
    - rewrite !andb_true_iff, IH. unfold in_range. rewrite andb_true_iff, !Z.ltb_lt, negb_true_iff, Z.eqb_neq.
      rewrite forallb_forall. split.
      + intros ((((R1 & R2) & Nh) & Fa) & (Fr & Ni & Nd)). splits.
        * constructor; [lia|assumption].
        * intros [E|I]; [congruence|contradiction].
        * constructor; [|assumption]. intros I. specialize (Fa x I). rewrite negb_true_iff, Z.eqb_neq in Fa. congruence.
      + intros (Fr & Ni & Nd). inversion Fr as [|? ? Rx Fr']. inversion Nd as [|? ? Nx Nd']. subst.
        splits; try lia; auto.
        * intros E. apply Ni. left. congruence.
        * intros y Iy. rewrite negb_true_iff, Z.eqb_neq. intros E. subst. contradiction.
        * intros I. apply Ni. now right.
  Qed.

  Definition wf_gens (fuel : nat) (F G : Z) (sign_test derive_k canonical : bool) (p q k0 h : Z) (gs : list Z) : Prop :=
    let k := if derive_k then (p - 1) / q else k0 in
    (sign_test || derive_k = true -> 0 < q) /\ wf_core F G p q k /\
    Forall (fun x => mpz_powm x q p = Some 1) (h :: gs) /\
    Forall (fun x => 1 < x < p - 1) (h :: gs) /\ NoDup (h :: gs) /\
    canon_ok fuel canonical p q k (hd 0 gs).

  Theorem check_group_gens_iff fuel F G sign_test derive_k canonical p q k0 h gs :
    check_group_gens is_prime H fuel F G sign_test derive_k canonical p q k0 h gs = Accept
    <-> wf_gens fuel F G sign_test derive_k canonical p q k0 h gs.
  Proof.
    unfold check_group_gens, wf_gens, canon_ok.
    set (k := if derive_k then (p - 1) / q else k0).
    destruct ((sign_test || derive_k) && (q <=? 0)) eqn:Ed.
    { split; [discriminate|]. intros (Q & _). apply andb_true_iff in Ed. destruct Ed as [E1 E0]. specialize (Q E1). lia. }
    assert (Q : sign_test || derive_k = true -> 0 < q).
    { intros E. rewrite E in Ed. cbn in Ed. lia. }
    rewrite <- check_core_iff.
    destruct (check_core is_prime F G p q k); cbn [negb].
    2:{ split; [discriminate|]. intros (_ & E & _). discriminate. }
    rewrite <- orders_ok_iff.
    destruct (orders_ok (h :: gs) q p) eqn:Eo; try (split; [discriminate|]; intros (_ & _ & E & _); discriminate).
    destruct (in_range h p && others_ok h p gs) eqn:Er; cbn [negb].
    - apply andb_true_iff in Er. destruct Er as [Rh Ro]. apply others_ok_iff in Ro. destruct Ro as (Fr & Ni & Nd).
      unfold in_range in Rh. apply andb_true_iff in Rh. rewrite !Z.ltb_lt in Rh.
      assert (W : Forall (fun x => 1 < x < p - 1) (h :: gs) /\ NoDup (h :: gs)).
      { split; constructor; auto; lia. }
      destruct canonical.
      + rewrite canon_check_accept. split.
        * intros E. splits; auto; try apply W.
        * intros (_ & _ & _ & _ & _ & C). auto.
      + split; [|reflexivity]. intros _. splits; auto; try apply W. discriminate.
    - split; [discriminate|]. intros (_ & _ & _ & Fr & Nd & _). exfalso.
      inversion Fr as [|? ? Rh Fr']. inversion Nd as [|? ? Ni Nd']. subst.
      assert (in_range h p = true) by (unfold in_range; lia).
      assert (others_ok h p gs = true) by (apply others_ok_iff; auto).
      rewrite H0, H1 in Er. discriminate.
  Qed.

  (* with the sign test the order test is the textbook one and the check cannot die *)
  Theorem check_group_gens_order fuel F G sign_test derive_k canonical p q k0 h gs :
    sign_test || derive_k = true ->
    check_group_gens is_prime H fuel F G sign_test derive_k canonical p q k0 h gs = Accept ->
    0 < q /\ prime p /\ prime q /\ Forall (fun x => x ^ q mod p = 1) (h :: gs).
  Proof.
    intros St E. apply check_group_gens_iff in E. destruct E as (Q & (_ & _ & _ & Pp & Pq & _) & Fo & Fr & _).
    specialize (Q St). inversion Fr as [|? ? Rh _]. subst. assert (0 < p) by lia.
    rewrite Z.abs_eq in Pp, Pq by lia. splits; auto.
    rewrite Forall_forall in *. intros x Ix. specialize (Fo x Ix). rewrite mpz_powm_pos in Fo by lia. congruence.
  Qed.

  Theorem check_group_gens_no_crash fuel F G sign_test derive_k p q k0 h gs :
    sign_test || derive_k = true ->
    check_group_gens is_prime H fuel F G sign_test derive_k false p q k0 h gs <> Crash.
  Proof.
    intros St. unfold check_group_gens. rewrite St. cbn [andb].
    destruct (Z.leb_spec q 0); [discriminate|].
    set (k := if derive_k then (p - 1) / q else k0).
    destruct (check_core is_prime F G p q k) eqn:Ec; cbn [negb]; [|discriminate].
    apply check_core_iff in Ec. destruct Ec as (_ & _ & _ & Pp & _).
    assert (Np : p <> 0) by (intros ->; cbn in Pp; destruct Pp; lia).
    assert (O : forall xs, orders_ok xs q p <> Crash).
    { induction xs as [|x r IH]; cbn [orders_ok]; [discriminate|].
      unfold mpz_powm. destruct (Z.eqb_spec p 0); [contradiction|]. destruct (Z.leb_spec 0 q); [|lia].
      destruct (_ =? 1); [exact IH|discriminate]. }
    specialize (O (h :: gs)). destruct (orders_ok (h :: gs) q p); try discriminate; try contradiction.
    destruct (negb _); discriminate.
  Qed.

  (* ---- quadratic-residue group ------------------------------------------------------------------------------ *)
  Section QR.
  Variable jac : Z -> Z -> Z.

  Definition wf_qr (F G E : Z) (canonical : bool) (p q g : Z) : Prop :=
    F <= sizeinbase2 p /\ G <= sizeinbase2 q /\ p = 2 * q + 1 /\ prime p /\ prime q /\ p mod 8 = 7 /\
    1 < g < p - 1 /\ jac g p = 1 /\
    (canonical = true -> E <= sizeinbase2 p /\ g = 2 ^ (2 ^ (sizeinbase2 p - E)) mod p).

  Theorem check_group_qr_iff F G E canonical p q g :
    check_group_qr is_prime jac F G E canonical p q g = Accept <-> wf_qr F G E canonical p q g.
  Proof.
    unfold check_group_qr, wf_qr, probab_prime.
    pose proof (is_prime_correct (Z.abs p) (Z.abs_nonneg p)) as Pp.
    pose proof (is_prime_correct (Z.abs q) (Z.abs_nonneg q)) as Pq.
    destruct (Z.ltb_spec (sizeinbase2 p) F); cbn [orb].
    { split; [discriminate|]. intros (? & _). lia. }
    destruct (Z.ltb_spec (sizeinbase2 q) G).
    { split; [discriminate|]. intros (_ & ? & _). lia. }
    destruct (Z.eqb_spec (2 * q + 1) p) as [Ef|Nf]; cbn [negb].
    2:{ split; [discriminate|]. intros (_ & _ & ? & _). lia. }
    destruct (is_prime (Z.abs p)) eqn:Ep; cbn [andb negb].
    2:{ split; [discriminate|]. intros (_ & _ & _ & P & _ & _ & _ & R & _). exfalso.
        assert (0 < p) by (destruct P; lia). rewrite Z.abs_eq in Pp by lia. apply Pp in P. discriminate. }
    destruct (is_prime (Z.abs q)) eqn:Eq; cbn [negb].
    2:{ split; [discriminate|]. intros (_ & _ & _ & _ & P & _). exfalso.
        assert (0 < q) by (destruct P; lia). rewrite Z.abs_eq in Pq by lia. apply Pq in P. discriminate. }
    destruct (Z.eqb_spec (p mod 8) 7) as [E8|N8]; cbn [negb].
    2:{ split; [discriminate|]. intros (_ & _ & _ & _ & _ & ? & _). contradiction. }
    unfold in_range. destruct (Z.ltb_spec 1 g); cbn [andb negb].
    2:{ split; [discriminate|]. intros (_ & _ & _ & _ & _ & _ & ? & _). lia. }
    destruct (Z.ltb_spec g (p - 1)); cbn [negb].
    2:{ split; [discriminate|]. intros (_ & _ & _ & _ & _ & _ & ? & _). lia. }
    assert (P0 : 0 < p) by lia. assert (Q0 : 0 < q) by lia.
    rewrite Z.abs_eq in Pp, Pq by lia.
    assert (PP : prime p) by (now apply Pp). assert (PQ : prime q) by (now apply Pq).
    destruct (Z.eqb_spec (jac g p) 1) as [Ej|Nj]; cbn [negb].
    2:{ split; [discriminate|]. intros (_ & _ & _ & _ & _ & _ & _ & ? & _). contradiction. }
    destruct canonical.
    - destruct (Z.ltb_spec (sizeinbase2 p) E).
      { split; [discriminate|]. intros (_ & _ & _ & _ & _ & _ & _ & _ & C). destruct (C eq_refl). lia. }
      rewrite mpz_powm_pos by (try lia; apply Z.pow_nonneg; lia).
      destruct (Z.eqb_spec (2 ^ 2 ^ (sizeinbase2 p - E) mod p) g) as [Eg|Ng].
      + split; [|reflexivity]. intros _. splits; auto; lia.
      + split; [discriminate|]. intros (_ & _ & _ & _ & _ & _ & _ & _ & C). destruct (C eq_refl). congruence.
    - split; [|reflexivity]. intros _. splits; auto; try lia; discriminate.
  Qed.

  (* with Euler's criterion for the Jacobi symbol modulo an odd prime, the accepted generator has g^q = 1 *)
  Theorem qr_generator_order F G E canonical p q g :
    (forall a m, prime m -> 2 < m -> 0 < a < m -> (jac a m = 1 <-> a ^ ((m - 1) / 2) mod m = 1)) ->
    wf_qr F G E canonical p q g -> g ^ q mod p = 1.
  Proof.
    intros Euler (_ & _ & Hf & Pp & Pq & _ & R & J & _).
    apply Euler in J; [|assumption|lia|lia].
    replace ((p - 1) / 2) with q in J; [assumption|].
    subst p. replace (2 * q + 1 - 1) with (q * 2) by lia. now rewrite Z.div_mul by lia.
  Qed.

  Theorem check_element_qr_iff p a : check_element_qr jac p a = true <-> 0 < a < p /\ jac a p = 1.
  Proof. unfold check_element_qr. lia. Qed.

  End QR.

  (* ---- the exhaustive listing used by the correspondence is the filter of check_element --------------------- *)
  Lemma accepted_from_spec p q : forall n lo a,
    In a (accepted_from p q lo n) <-> lo <= a < lo + Z.of_nat n /\ check_element p q a = Accept.
  Proof.
    induction n as [|n IH]; intros lo a; cbn [accepted_from].
    - split; [intros []|lia].
    - destruct (check_element p q lo) eqn:E; cbn [In]; rewrite ?IH; split.
      all: try (intros [<-|[R A]]; [split; [lia|assumption]|split; [lia|assumption]]).
      all: try (intros [R A]; destruct (Z.eq_dec lo a) as [->|N]; [now left|right; split; [lia|assumption]]).
      all: try (intros [R A]; split; [lia|assumption]).
      all: intros [R A]; destruct (Z.eq_dec lo a) as [->|N]; [congruence|split; [lia|assumption]].
  Qed.
End Proofs.
