(* SoundLemmas: special soundness (extractors) for Schnorr / Chaum-Pedersen, and the counting theorem for the
   cut-and-choose guessing prover. *)
From Coq Require Import ZArith Znumtheory List Bool Lia.
From LT Require Import Zbase SoundModel.
Import ListNotations.
Local Open Scope Z_scope.

Section Extract.
  Variables p q : Z.
  Hypothesis Hp : 1 < p.
  Hypothesis Hq : prime q.

  Let q_pos : 1 < q.
  Proof. destruct Hq. lia. Qed.

  Definition eqm (a b : Z) : Prop := a mod p = b mod p.

  Lemma eqm_refl a : eqm a a. Proof. reflexivity. Qed.
  Lemma eqm_sym a b : eqm a b -> eqm b a. Proof. unfold eqm. congruence. Qed.
  Lemma eqm_trans a b c : eqm a b -> eqm b c -> eqm a c. Proof. unfold eqm. congruence. Qed.

  Lemma eqm_mul a a' b b' : eqm a a' -> eqm b b' -> eqm (a * b) (a' * b').
  Proof. unfold eqm. intros A B. rewrite (Zmult_mod a b), (Zmult_mod a' b'). now rewrite A, B. Qed.

  Lemma eqm_pow a b d : 0 <= d -> eqm a b -> eqm (a ^ d) (b ^ d).
  Proof.
    unfold eqm. intros Hd E. rewrite <- (pow_mod_base a d p), <- (pow_mod_base b d p) by lia. now rewrite E.
  Qed.

  Lemma ord_pow_kq u k : powm u q p = 1 -> 0 <= k -> eqm (u ^ (k * q)) 1.
  Proof.
    intros Hu Hk. unfold eqm. rewrite (pow_q_mult p q u Hp Hq Hu k Hk). symmetry. apply Z.mod_1_l. lia.
  Qed.

  Lemma eqm_of_powm_eq g h r c g' h' r' c' : 0 <= r -> 0 <= c -> 0 <= r' -> 0 <= c' ->
    (powm g r p * powm h c p) mod p = (powm g' r' p * powm h' c' p) mod p ->
    eqm (g ^ r * h ^ c) (g' ^ r' * h' ^ c').
  Proof.
    intros Hr Hc Hr' Hc' E. unfold eqm. rewrite !powm_spec in E by lia.
    rewrite <- !Zmult_mod in E. exact E.
  Qed.

  (* the heart of special soundness: from two accepting answers to one commitment *)
  Lemma extract_core g h r r' c c' d :
    powm g q p = 1 -> powm h q p = 1 -> 0 <= r -> 0 <= r' -> 0 <= c -> 0 <= c' -> 0 <= d ->
    (powm g r p * powm h c p) mod p = (powm g r' p * powm h c' p) mod p ->
    (ext_den q c c' * d) mod q = 1 ->
    eqm (g ^ (ext_num q r r' * d)) h.
  Proof.
    intros Hg Hh Hr Hr' Hc Hc' Hd E D.
    assert (N1 : 0 <= (q - 1) * r) by (apply Z.mul_nonneg_nonneg; lia).
    assert (N2 : 0 <= (q - 1) * c') by (apply Z.mul_nonneg_nonneg; lia).
    apply eqm_of_powm_eq in E; try assumption.
    set (A := ext_den q c c'). set (B := ext_num q r r').
    assert (HA : 0 <= A) by (unfold A, ext_den; lia).
    assert (HB : 0 <= B) by (unfold B, ext_num; lia).
    set (K := g ^ ((q - 1) * r) * h ^ ((q - 1) * c')).
    assert (E2 : eqm (g ^ r * h ^ c * K) (g ^ r' * h ^ c' * K)) by (apply eqm_mul; [assumption|apply eqm_refl]).
    assert (L : g ^ r * h ^ c * K = g ^ (r * q) * h ^ A).
    { unfold K, A, ext_den. replace (r * q) with (r + (q - 1) * r) by ring.
      rewrite (Z.pow_add_r g r ((q - 1) * r)) by assumption.
      rewrite (Z.pow_add_r h c ((q - 1) * c')) by assumption. ring. }
    assert (R : g ^ r' * h ^ c' * K = h ^ (c' * q) * g ^ B).
    { unfold K, B, ext_num. replace (c' * q) with (c' + (q - 1) * c') by ring.
      rewrite (Z.pow_add_r h c' ((q - 1) * c')) by assumption.
      rewrite (Z.pow_add_r g r' ((q - 1) * r)) by assumption. ring. }
    rewrite L, R in E2.
    assert (HAB : eqm (h ^ A) (g ^ B)).
    { apply eqm_trans with (g ^ (r * q) * h ^ A).
      - apply eqm_sym. replace (h ^ A) with (1 * h ^ A) at 2 by ring.
        apply eqm_mul; [now apply ord_pow_kq|apply eqm_refl].
      - apply eqm_trans with (h ^ (c' * q) * g ^ B); [assumption|].
        replace (g ^ B) with (1 * g ^ B) at 2 by ring.
        apply eqm_mul; [now apply ord_pow_kq|apply eqm_refl]. }
    apply (eqm_pow _ _ d Hd) in HAB. rewrite <- !Z.pow_mul_r in HAB by assumption.
    apply eqm_sym. apply eqm_trans with (h ^ (A * d)); [|assumption].
    (* A * d = 1 + k * q *)
    assert (HAd : 0 <= A * d) by (apply Z.mul_nonneg_nonneg; assumption).
    assert (Hk : 0 <= (A * d) / q) by (apply Z.div_pos; [assumption|]; destruct Hq; apply Z.lt_trans with 1; [reflexivity|assumption]).
    assert (NZ : q <> 0) by (intros Z0; rewrite Z0 in q_pos; discriminate q_pos).
    pose proof (Z.div_mod (A * d) q NZ) as DM. fold A in D. rewrite D in DM.
    revert Hk DM. generalize ((A * d) / q). intros k Hk DM.
    assert (Hkq : 0 <= k * q) by (apply Z.mul_nonneg_nonneg; [assumption|]; apply Z.lt_le_incl; apply Z.lt_trans with 1; [reflexivity|exact q_pos]).
    replace (A * d) with (1 + k * q) by (rewrite DM; ring).
    rewrite Z.pow_add_r, Z.pow_1_r by (try assumption; discriminate).
    apply eqm_sym. apply eqm_trans with (h * 1).
    - apply eqm_mul; [apply eqm_refl|now apply ord_pow_kq].
    - unfold eqm. f_equal. ring.
  Qed.

  Theorem schnorr_extract_sound g h t r r' c c' x :
    powm g q p = 1 -> powm h q p = 1 -> 0 <= r -> 0 <= r' -> 0 <= c -> 0 <= c' ->
    (powm g r p * powm h c p) mod p = t -> (powm g r' p * powm h c' p) mod p = t ->
    ext_exp q r r' c c' = Some x -> 0 <= x < q /\ powm g x p = h mod p.
  Proof.
    intros Hg Hh Hr Hr' Hc Hc' E1 E2 X. unfold ext_exp in X.
    destruct (invm (ext_den q c c' mod q) q) as [d0|]; [|discriminate].
    cbv zeta in X.
    destruct (Z.eqb_spec ((ext_den q c c' mod q * (d0 mod q)) mod q) 1) as [D|]; [|discriminate].
    inversion X; subst x; clear X.
    rewrite Zmult_mod_idemp_l in D.
    assert (Hd : 0 <= d0 mod q) by (apply Z.mod_pos_bound; lia).
    split; [apply Z.mod_pos_bound; lia|].
    assert (HB : 0 <= ext_num q r r' * (d0 mod q)).
    { apply Z.mul_nonneg_nonneg; [|assumption]. unfold ext_num. assert (0 <= (q - 1) * r) by (apply Z.mul_nonneg_nonneg; lia). lia. }
    rewrite (powm_mod_q p q g Hp Hq Hg) by assumption.
    rewrite powm_spec by lia.
    apply (extract_core g h r r' c c' (d0 mod q)); try assumption. congruence.
  Qed.

  (* a suitable inverse exists whenever the two challenges differ modulo q *)
  Lemma den_inverse c c' : c mod q <> c' mod q -> exists d, 0 <= d /\ (ext_den q c c' * d) mod q = 1.
  Proof.
    intros N. set (a := ext_den q c c' mod q).
    assert (Ha : 0 <= a < q) by (apply Z.mod_pos_bound; lia).
    assert (Hne : a <> 0).
    { unfold a, ext_den. intros Z0. apply N.
      replace (c + (q - 1) * c') with ((c - c') + c' * q) in Z0 by ring.
      rewrite Z.mod_add in Z0 by lia.
      apply Z.mod_divide in Z0; [|lia]. destruct Z0 as [w Hw].
      replace c with (c' + w * q) by lia. now rewrite Z.mod_add by lia. }
    assert (R : rel_prime a q).
    { apply rel_prime_sym. apply prime_rel_prime; [assumption|].
      intros Hdiv. apply Z.divide_pos_le in Hdiv; lia. }
    destruct (rel_prime_bezout _ _ R) as [u v Huv].
    exists (u mod q). split; [apply Z.mod_pos_bound; lia|].
    rewrite Zmult_mod_idemp_r. rewrite <- Zmult_mod_idemp_l. fold a.
    replace (a * u) with (1 + (- v) * q) by lia.
    rewrite Z.mod_add by lia. apply Z.mod_1_l. lia.
  Qed.

  Theorem schnorr_extract_exists g h t r r' c c' :
    powm g q p = 1 -> powm h q p = 1 -> 0 <= r -> 0 <= r' -> 0 <= c -> 0 <= c' ->
    (powm g r p * powm h c p) mod p = t -> (powm g r' p * powm h c' p) mod p = t ->
    c mod q <> c' mod q -> exists x, 0 <= x < q /\ powm g x p = h mod p.
  Proof.
    intros Hg Hh Hr Hr' Hc Hc' E1 E2 N.
    destruct (den_inverse c c' N) as (d & Hd & D).
    exists ((ext_num q r r' * d) mod q). split; [apply Z.mod_pos_bound; lia|].
    assert (HB : 0 <= ext_num q r r' * d).
    { apply Z.mul_nonneg_nonneg; [|assumption]. unfold ext_num. assert (0 <= (q - 1) * r) by (apply Z.mul_nonneg_nonneg; lia). lia. }
    rewrite (powm_mod_q p q g Hp Hq Hg) by assumption. rewrite powm_spec by lia.
    apply (extract_core g h r r' c c' d); try assumption. congruence.
  Qed.

  (* Chaum-Pedersen: one exponent for both components, so a false equality-of-dlog statement has at most one
     answerable challenge residue *)
  Theorem cp_extract_exists gg hh x y a b r r' c c' :
    powm gg q p = 1 -> powm hh q p = 1 -> powm x q p = 1 -> powm y q p = 1 ->
    0 <= r -> 0 <= r' -> 0 <= c -> 0 <= c' ->
    (powm gg r p * powm x c p) mod p = a -> (powm gg r' p * powm x c' p) mod p = a ->
    (powm hh r p * powm y c p) mod p = b -> (powm hh r' p * powm y c' p) mod p = b ->
    c mod q <> c' mod q ->
    exists al, 0 <= al < q /\ powm gg al p = x mod p /\ powm hh al p = y mod p.
  Proof.
    intros Hg Hh Hx Hy Hr Hr' Hc Hc' A1 A2 B1 B2 N.
    destruct (den_inverse c c' N) as (d & Hd & D).
    exists ((ext_num q r r' * d) mod q). split; [apply Z.mod_pos_bound; lia|].
    assert (HB : 0 <= ext_num q r r' * d).
    { apply Z.mul_nonneg_nonneg; [|assumption]. unfold ext_num. assert (0 <= (q - 1) * r) by (apply Z.mul_nonneg_nonneg; lia). lia. }
    split.
    - rewrite (powm_mod_q p q gg Hp Hq Hg) by assumption. rewrite powm_spec by lia.
      apply (extract_core gg x r r' c c' d); try assumption. congruence.
    - rewrite (powm_mod_q p q hh Hp Hq Hh) by assumption. rewrite powm_spec by lia.
      apply (extract_core hh y r r' c c' d); try assumption. congruence.
  Qed.

  (* interactive key proof: the verifier's equation  g^m2 = m1 * key^c  in the form used above *)
  Theorem keyint_extract_sound g key m1 m2 m2' c c' x :
    powm g q p = 1 -> powm key q p = 1 -> 0 <= m2 -> 0 <= m2' -> 0 <= c -> 0 <= c' ->
    powm g m2 p = (m1 * powm key c p) mod p -> powm g m2' p = (m1 * powm key c' p) mod p ->
    ext_exp_int q m2 m2' c c' = Some x -> 0 <= x < q /\ powm g x p = key mod p.
  Proof.
    intros Hg Hk H2 H2' Hc Hc' E1 E2 X. unfold ext_exp_int in X.
    apply (schnorr_extract_sound g key ((powm g m2' p * powm key c p) mod p) m2' m2 c c' x); try assumption; try reflexivity.
    (* g^m2 * key^c' = m1 * key^c * key^c' = g^m2' * key^c *)
    rewrite E1, E2. rewrite !Zmult_mod_idemp_l. f_equal. ring.
  Qed.
End Extract.

(* ---- cut and choose: the guessing prover is accepted for exactly the guessed coin string ----------------- *)
Section Counting.
  Variables stack secret com : Type.
  Variable mix : stack -> secret -> stack.
  Variable commit : stack -> com.
  Variables s s2 : stack.
  Hypothesis commit_inj : forall a b, commit a = commit b -> a = b.      (* no hash collision on the compared stacks *)
  Hypothesis mix_inj : forall z a b, mix a z = mix b z -> a = b.          (* masking with one secret is injective *)
  Hypothesis false_statement : s <> s2.

  Lemma round_guess b g z : round_ok _ _ _ mix commit s s2 b (guess_msg _ _ _ mix commit s s2 g z) <-> b = g.
  Proof.
    unfold round_ok, guess_msg. cbn [fst snd]. split.
    - intros E. apply commit_inj in E. apply mix_inj in E.
      destruct b, g; cbn [src] in E; try reflexivity; exfalso; apply false_statement; congruence.
    - intros ->. reflexivity.
  Qed.

  Theorem guessing_accept_iff : forall (guess : list bool) (zs : list secret) (coins : list bool),
    length zs = length guess ->
    (accepts _ _ _ mix commit s s2 coins (guess_msgs _ _ _ mix commit s s2 guess zs) <-> coins = guess).
  Proof.
    unfold accepts. induction guess as [|g gr IH]; intros zs coins L.
    - destruct zs; [|discriminate]. cbn [guess_msgs]. split.
      + intros F. now inversion F.
      + intros ->. constructor.
    - destruct zs as [|z zr]; [discriminate|]. cbn [guess_msgs]. cbn in L. split.
      + intros F. inversion F as [|b m cr mr Hb Hr]; subst.
        apply round_guess in Hb. apply IH in Hr; [|lia]. congruence.
      + intros ->. constructor; [now apply round_guess|]. apply IH; [lia|reflexivity].
  Qed.
End Counting.

Lemma bools_eqb_eq a : forall b, bools_eqb a b = true <-> a = b.
Proof.
  induction a as [|x a IH]; intros [|y b]; cbn [bools_eqb]; split; try discriminate; try reflexivity.
  - intros E. apply andb_true_iff in E. destruct E as [E1 E2]. apply Bool.eqb_prop in E1. apply IH in E2. congruence.
  - intros E. inversion E; subst. apply andb_true_iff. split; [apply Bool.eqb_reflx|now apply IH].
Qed.

Lemma filter_map_cons (f : list bool -> bool) (b : bool) (L : list (list bool)) :
  filter f (map (cons b) L) = map (cons b) (filter (fun l => f (b :: l)) L).
Proof.
  induction L as [|l L IH]; [reflexivity|]. cbn [map filter]. destruct (f (b :: l)); cbn [map]; now rewrite IH.
Qed.

Lemma filter_none {A} (f : A -> bool) (L : list A) : (forall x, f x = false) -> filter f L = [].
Proof. intros H. induction L as [|x L IH]; [reflexivity|]. cbn. now rewrite H. Qed.

Theorem filter_guess guess : filter (guess_verdict guess) (all_coins (length guess)) = [guess].
Proof.
  induction guess as [|g gr IH]; [reflexivity|].
  cbn [length all_coins]. rewrite filter_app, !filter_map_cons.
  unfold guess_verdict in *. cbn [bools_eqb].
  destruct g; cbn [Bool.eqb andb].
  - rewrite IH. rewrite (filter_none (fun _ => false)) by reflexivity. reflexivity.
  - rewrite IH. rewrite (filter_none (fun _ => false)) by reflexivity. reflexivity.
Qed.

(* exactly one of the 2^kappa verifier coin strings is accepted, for every kappa *)
Theorem guessing_exactly_one guess : accepting_count guess = 1%nat.
Proof. unfold accepting_count. now rewrite filter_guess. Qed.

Theorem all_coins_length k : length (all_coins k) = (2 ^ k)%nat.
Proof.
  induction k as [|k IH]; [reflexivity|]. cbn [all_coins]. rewrite app_length, !map_length, IH. cbn. lia.
Qed.

Theorem all_coins_complete x : In x (all_coins (length x)).
Proof.
  induction x as [|b x IH]; [now left|]. cbn [length all_coins]. apply in_or_app.
  destruct b; [left|right]; now apply in_map.
Qed.
