(* RbcStep3: local progress facts (C14 totality): r-ready goes to everybody, thresholds trigger r-ready and dbar,
   every first r-ready from a peer is counted. *)
From Coq Require Import ZArith List Bool Lia.
From LT Require Import RbcModel RbcLemmas RbcStep.
Import ListNotations.
Local Open Scope Z_scope.

Section Step3.
Variables (n t : Z) (H : Z -> Z) (toolong : tagT -> Z -> bool).
Notation handle := (handle n t H toolong).

Ltac open_handle :=
  unfold RbcModel.handle, stop; cbv zeta; break; intros E; inversion E; subst; clear E;
  try match goal with Htd : try_deliver _ _ = (_, _) |- _ =>
        apply try_deliver_cases in Htd;
        destruct Htd as [(-> & -> & ?)|[(? & ? & -> & ? & ->)|(-> & ->)]] end;
  proj; b2p.

(* r-ready is always sent to every party *)
Lemma handle_ready_all : forall me st l m st' out r, handle me st l m = (st', out, r) ->
  forall dst x, In (dst, x) out -> m_act x = 3 -> forall i, In i (range n) -> In (i, x) out.
Proof.
  intros me st l m st' out r. open_handle; intros dst xm I A3 i Ii;
  first [ apply in_to_all in I; subst; unfold to_all; apply in_map_iff; exists i; split; [reflexivity|assumption]
        | apply in_map_iff in I; destruct I as (? & I & _); inversion I; subst; cbn in A3; discriminate
        | destruct I as [I|[]]; inversion I; subst; cbn in A3; discriminate
        | destruct I ].
Qed.

(* the ready condition: t+1 readys or n-t echoes for (tg, d) *)
Definition rcond (st : pst) (tg : tagT) (d : Z) : Prop := t + 1 <= rd st tg d \/ n - t <= ed st tg d.

Lemma handle_ready_trigger : 0 < t -> forall me st l m st' out r, handle me st l m = (st', out, r) ->
  forall tg d, rcond st' tg d -> rcond st tg d \/ exists dst x, In (dst, x) out /\ mtag x = tg /\ m_act x = 3 /\ m_pay x = d.
Proof.
  intros T0 me st l m st' out r. unfold rcond. open_handle; intros tg d C; auto;
  rewrite ?upd2_eq in C; destruct (tag_eqb tg (mtag m) && (d =? m_pay m)) eqn:X; auto; b2p; subst;
  try (left; lia);
  try (right; exists 0, (Msg (m_id m) (m_j m) (m_s m) 3 (m_pay m)); split; [unfold to_all; apply in_map_iff; exists 0; split; auto; apply range_in; lia|cbn; auto]; fail).
Qed.

(* an echo quorum triggers r-ready unless t+1 readys were there already (needed for t = 0) *)
Lemma handle_echo_trigger : forall me st l m st' out r, handle me st l m = (st', out, r) ->
  forall tg d, n - t <= ed st' tg d ->
  n - t <= ed st tg d \/ (exists dst x, In (dst, x) out /\ mtag x = tg /\ m_act x = 3 /\ m_pay x = d) \/ t + 1 <= rd st' tg d.
Proof.
  intros me st l m st' out r. open_handle; intros tg d C; auto;
  rewrite ?upd2_eq in *; destruct (tag_eqb tg (mtag m) && (d =? m_pay m)) eqn:X; auto; b2p; subst;
  try (left; lia);
  try (right; left; exists 0, (Msg (m_id m) (m_j m) (m_s m) 3 (m_pay m)); split; [unfold to_all; apply in_map_iff; exists 0; split; auto; apply range_in; lia|cbn; auto]; fail);
  try (right; right; lia).
  match goal with Hx : _ && _ = false |- _ => apply andb_false_iff in Hx; destruct Hx end; b2p; [left; lia|right; right; lia].
Qed.

(* 2t+1 readys fix the digest *)
Lemma handle_dbar_trigger : forall me st l m st' out r, handle me st l m = (st', out, r) ->
  forall tg d, 2 * t + 1 <= rd st' tg d -> 2 * t + 1 <= rd st tg d \/ dbar st' tg <> None.
Proof.
  intros me st l m st' out r. open_handle; intros tg d C; auto;
  rewrite ?upd2_eq in C; destruct (tag_eqb tg (mtag m) && (d =? m_pay m)) eqn:X; auto; b2p; subst;
  try (left; lia); right; rewrite ?updT_same; congruence.
Qed.

Lemma handle_dbar_keep : forall me st l m st' out r, handle me st l m = (st', out, r) ->
  forall tg, dbar st tg <> None -> dbar st' tg <> None.
Proof.
  intros me st l m st' out r HH tg N. destruct (handle_dbar n t H toolong _ _ _ _ _ _ _ HH tg) as [E|(_ & E & _)]; congruence.
Qed.

(* the first r-ready of a peer for a tag is counted (unless its digest is over-long) *)
Lemma handle_fready : forall me st l m st' out r, handle me st l m = (st', out, r) ->
  forall k tg, filt st FReady k tg = false -> filt st' FReady k tg = true ->
  k = l /\ tg = mtag m /\ m_act m = 3 /\
  (toolong tg (m_pay m) = true \/ rd st' tg (m_pay m) = rd st tg (m_pay m) + 1).
Proof.
  intros me st l m st' out r. open_handle; intros k tg F0 F1; try congruence;
  apply fset_inv in F1; destruct F1 as [F1|(K & -> & ->)]; try congruence; try discriminate;
  repeat split; auto; try (left; assumption); right; rewrite upd2_same; reflexivity.
Qed.

(* ---- one call of Deliver / DeliverFrom ---------------------------------------------------------------- *)
Variable skip : Z.
Notation deliver := (deliver n t skip H toolong).
Notation deliver_from := (deliver_from n t skip H toolong).

Definition pstep3 (st st' : pst) (out : list (Z * msg)) (offer : option (Z * msg)) : Prop :=
  (forall dst x, In (dst, x) out -> m_act x = 3 -> forall i, In i (range n) -> In (i, x) out) /\
  (0 < t -> forall tg d, rcond st' tg d ->
     rcond st tg d \/ exists dst x, In (dst, x) out /\ mtag x = tg /\ m_act x = 3 /\ m_pay x = d) /\
  (forall tg d, 2 * t + 1 <= rd st' tg d -> 2 * t + 1 <= rd st tg d \/ dbar st' tg <> None) /\
  (forall tg, dbar st tg <> None -> dbar st' tg <> None) /\
  (forall k tg, filt st FReady k tg = false -> filt st' FReady k tg = true ->
     exists m, offer = Some (k, m) /\ mtag m = tg /\ m_act m = 3 /\
               (toolong tg (m_pay m) = true \/ rd st' tg (m_pay m) = rd st tg (m_pay m) + 1)) /\
  (forall tg d, n - t <= ed st' tg d ->
     n - t <= ed st tg d \/ (exists dst x, In (dst, x) out /\ mtag x = tg /\ m_act x = 3 /\ m_pay x = d) \/ t + 1 <= rd st' tg d).

Ltac split5 := refine (conj _ (conj _ (conj _ (conj _ (conj _ _))))).

Lemma pstep3_same : forall st st' out off,
  filt st' = filt st -> ed st' = ed st -> rd st' = rd st -> dbar st' = dbar st ->
  (forall dst x, In (dst, x) out -> m_act x <> 3) -> pstep3 st st' out off.
Proof.
  intros st st' out off E1 E2 E3 E4 A. unfold pstep3, rcond. rewrite E1, E2, E3, E4. split5; auto.
  - intros dst x I A3. apply A in I. contradiction.
  - intros k tg F0 F1. congruence.
Qed.

Lemma deliver_pstep3 : forall me st offer,
  let o := deliver me st offer in pstep3 st (o_st o) (o_sent o) offer.
Proof.
  intros me st offer. unfold RbcModel.deliver.
  destruct (split_first (deliverable st) [] (dbuf st)) as [[[pre [[id who] s]] post]|] eqn:SF.
  - destruct (mbar st (id, who, s)) eqn:M; cbv zeta; cbn [o_st o_sent]; apply pstep3_same; auto; intros ? ? [].
  - destruct (buffer_phase n skip me st) as [st1 sent1] eqn:BP. apply buffer_phase_spec in BP.
    destruct BP as (F & _ & A6 & _). destruct F as (_ & _ & Db & Ed & Rd & _ & Fm & Fi).
    unfold all_act6 in A6. rewrite Forall_forall in A6.
    assert (Fr : forall k tg, filt st FReady k tg = false -> filt st1 FReady k tg = false).
    { intros k tg E. destruct (filt st1 FReady k tg) eqn:Y; auto. destruct (Fi _ _ _ Y); [congruence|discriminate]. }
    destruct offer as [[l m]|]; cbv zeta.
    + destruct (handle me st1 l m) as [[st2 sent2] r] eqn:HH. cbn [o_st o_sent].
      pose proof (handle_ready_all _ _ _ _ _ _ _ HH) as X1.
      pose proof (fun T0 => handle_ready_trigger T0 _ _ _ _ _ _ _ HH) as X2.
      pose proof (handle_dbar_trigger _ _ _ _ _ _ _ HH) as X3.
      pose proof (handle_dbar_keep _ _ _ _ _ _ _ HH) as X4.
      pose proof (handle_fready _ _ _ _ _ _ _ HH) as X5.
      pose proof (handle_echo_trigger _ _ _ _ _ _ _ HH) as X6.
      unfold pstep3, rcond in *. rewrite Ed, Rd, Db in *. split5.
      * intros dst x I A3 i Ii. apply in_app_or in I. destruct I as [I|I].
        -- apply A6 in I. cbn in I. lia.
        -- apply in_or_app. right. eapply X1; eauto.
      * intros T0 tg d C. destruct (X2 T0 tg d C) as [C0|(dst & x & I & E)]; auto.
        right. exists dst, x. split; auto. apply in_or_app. auto.
      * exact X3.
      * exact X4.
      * intros k tg F0 F1. apply Fr in F0. destruct (X5 k tg F0 F1) as (-> & -> & A3 & C). exists m. auto.
      * intros tg d C. destruct (X6 tg d C) as [C0|[(dst & x & I & E)|C0]]; auto.
        right. left. exists dst, x. split; auto. apply in_or_app. auto.
    + cbn [o_st o_sent]. unfold pstep3, rcond. rewrite Ed, Rd, Db. split5; auto.
      * intros dst x I A3. apply A6 in I. cbn in I. lia.
      * intros k tg F0 F1. apply Fr in F0. congruence.
Qed.

Lemma deliver_from_pstep3 : forall me st i off,
  let o := fst (deliver_from me st i off) in pstep3 st (o_st o) (o_sent o) off.
Proof.
  intros me st i off. unfold RbcModel.deliver_from.
  destruct ((i <? 0) || (i >=? n)).
  - cbn. apply pstep3_same; auto; intros ? ? [].
  - destruct (take_chan (cur st) [] (fbuf st i)) as [[v rest]|].
    + cbn. apply pstep3_same; auto; intros ? ? [].
    + pose proof (deliver_pstep3 me st off) as P. cbv zeta in P.
      destruct (o_res (deliver me st off)) eqn:R; cbn; auto.
Qed.

End Step3.
