(* FsModel: the Fiat-Shamir serialisation of libTMCG and the table of hash-call sites (C05).
   Anchors: src/mpz_shash.cc:182-539 (tmcg_mpz_shash and its *vec variants: every integer is written with
   mpz_get_str(base 16) -- lower-case digits, leading '-' for negatives -- followed by '|'; vectors and pair
   vectors are flattened in order), and the regenerated gen_FSInputs.v (argument lists of every hash call).
   Definitions only; proofs are in FsLemmas.v. *)
From Coq Require Import ZArith NArith List Bool String.
From LT Require Import CodecModel gen_FSInputs.
Import ListNotations.
Local Open Scope N_scope.

(* ---- serialisation ------------------------------------------------------------------------- *)
Definition hexchar (d : N) : N := if d <? 10 then 48 + d else 87 + d.      (* 0-9, a-f *)

Definition unhex (c : N) : N :=
  if (48 <=? c) && (c <=? 57) then c - 48 else if (97 <=? c) && (c <=? 102) then c - 87 else 255.

Definition hex_mag (n : N) : bytes := map hexchar (to_digits 16 n).

(* mpz_get_str(16) *)
Definition hex_of_Z (z : Z) : bytes :=
  match z with
  | Z0 => [48]
  | Zpos p => hex_mag (Npos p)
  | Zneg p => 45 :: hex_mag (Npos p)
  end.

Definition fs_ser1 (z : Z) : bytes := hex_of_Z z ++ [bar].

(* the string handed to tmcg_mpz_shash(r, std::string) for the (flattened) argument list l *)
Definition fs_ser (l : list Z) : bytes := flat_map fs_ser1 l.

(* flattening used by the vector variants *)
Definition flat_pairs (v : list (Z * Z)) : list Z := flat_map (fun ab => [fst ab; snd ab]) v.

(* parser (inverse) used to state injectivity constructively *)
Definition hex_val (s : bytes) : option Z :=
  match s with
  | [] => None
  | c :: r =>
    if c =? 45 then
      match r with [] => None | _ => if forallb (fun x => unhex x <? 16) r then Some (- Z.of_N (from_digits 16 (map unhex r)))%Z else None end
    else if forallb (fun x => unhex x <? 16) s then Some (Z.of_N (from_digits 16 (map unhex s))) else None
  end.

Fixpoint fs_parse (fuel : nat) (s : bytes) : option (list Z) :=
  match fuel with
  | O => match s with [] => Some [] | _ => None end
  | S f =>
    match s with
    | [] => Some []
    | _ => match split_at bar s with
           | Some (a, r) => match hex_val a, fs_parse f r with
                            | Some z, Some l => Some (z :: l)
                            | _, _ => None
                            end
           | None => None
           end
    end
  end.

(* ---- hash-call sites ---------------------------------------------------------------------------- *)
Local Open Scope string_scope.

Definition call := (string * string * string * list string)%type.

Definition site_match (file fn callee : string) (c : call) : bool :=
  let '(f, e, k, _) := c in String.eqb f file && String.eqb e fn && String.eqb k callee.

(* argument expressions of the n-th call of `callee` inside function `fn` of `file` (source order),
   without the result variable and, for the variadic tail, without the count *)
Definition is_count (s : string) : bool :=
  match s with
  | String c EmptyString => let n := Ascii.nat_of_ascii c in Nat.leb 48 n && Nat.leb n 57
  | String c (String d EmptyString) => let n := Ascii.nat_of_ascii c in let m := Ascii.nat_of_ascii d in
                                       Nat.leb 48 n && Nat.leb n 57 && Nat.leb 48 m && Nat.leb m 57
  | _ => false
  end.

Fixpoint dec_val (s : string) (acc : nat) : nat :=
  match s with EmptyString => acc | String c r => dec_val r (10 * acc + (Ascii.nat_of_ascii c - 48)) end.

(* (vector arguments, count, variadic arguments) *)
Fixpoint split_count (l : list string) : option (list string * nat * list string) :=
  match l with
  | [] => None
  | a :: r => if is_count a then Some ([], dec_val a 0, r)
              else match split_count r with Some (p, c, q) => Some (a :: p, c, q) | None => None end
  end.

(* None also when the literal count differs from the number of variadic arguments (an argument silently not hashed) *)
Definition site_args (file fn callee : string) (n : nat) : option (list string) :=
  match nth_error (filter (site_match file fn callee) fs_calls) n with
  | Some (_, _, _, _ :: args) =>
    match split_count args with
    | Some (pre, c, post) => if Nat.eqb c (List.length post) then Some (List.app pre post) else None
    | None => None
    end
  | _ => None
  end.

Definition str_in (x : string) (l : list string) : bool := existsb (String.eqb x) l.
Definition covers (need have : list string) : bool := forallb (fun x => str_in x have) need.

Fixpoint list_str_eqb (a b : list string) : bool :=
  match a, b with
  | [], [] => true
  | x :: a', y :: b' => String.eqb x y && list_str_eqb a' b'
  | _, _ => false
  end.

(* one hash site of a proof system: where it is, the expressions expected there (in order) and the role each plays *)
Record site := mk_site {
  s_file : string; s_fn : string; s_callee : string; s_nth : nat;
  s_args : list (string * string)        (* (expression in the source, role) *)
}.

Definition site_ok (s : site) : bool :=
  match site_args (s_file s) (s_fn s) (s_callee s) (s_nth s) with
  | Some a => list_str_eqb a (map fst (s_args s))
  | None => false
  end.

Definition roles (s : site) : list string := map snd (s_args s).

(* a proof system's obligation: the prover's and the verifier's call exist with exactly the expected expressions,
   both play the same roles in the same order, and the roles cover the required ones *)
Definition fs_obligation (prover verifier : site) (required : list string) : bool :=
  site_ok prover && site_ok verifier && list_str_eqb (roles prover) (roles verifier) && covers required (roles verifier).

(* ---- the sites (expected contents; compared with the regenerated table by vm_compute in Properties_C05.v) ---- *)
Definition F_vtmf := "BarnettSmartVTMF_dlog.cc".
Definition F_groth := "GrothVSSHE.cc".
Definition F_hoogh := "HooghSchoenmakersSkoricVillegasVRHE.cc".

Definition key_args (hi t : string) := [("p","p"); ("q","q"); ("g","g"); (hi,"stmt:key"); (t,"commit:t")].
Definition keynizk_P := mk_site F_vtmf "KeyGenerationProtocol_ComputeNIZK" "tmcg_mpz_shash" 0 (key_args "h_i" "t").
Definition keynizk_V := mk_site F_vtmf "KeyGenerationProtocol_VerifyNIZK" "tmcg_mpz_shash" 0 (key_args "foo" "t2").
Definition keynizk_req := ["p"; "q"; "g"; "stmt:key"; "commit:t"].

Definition cp_args := [("p","p"); ("q","q"); ("g","g"); ("h","h"); ("a","commit:a"); ("b","commit:b");
                       ("x","stmt:x"); ("y","stmt:y"); ("gg","stmt:gg"); ("hh","stmt:hh")].
Definition cp_P := mk_site F_vtmf "CP_Prove" "tmcg_mpz_shash" 0 cp_args.
Definition cp_V := mk_site F_vtmf "CP_Verify" "tmcg_mpz_shash" 0 cp_args.
Definition cp_req := ["p"; "q"; "g"; "h"; "stmt:x"; "stmt:y"; "stmt:gg"; "stmt:hh"; "commit:a"; "commit:b"].

Definition or_args := [("p","p"); ("q","q"); ("g","g"); ("h","h"); ("g_1","stmt:g1"); ("y_1","stmt:y1");
                       ("g_2","stmt:g2"); ("y_2","stmt:y2"); ("t_1","commit:t1"); ("t_2","commit:t2")].
Definition or_P1 := mk_site F_vtmf "OR_ProveFirst" "tmcg_mpz_shash" 0 or_args.
Definition or_P2 := mk_site F_vtmf "OR_ProveSecond" "tmcg_mpz_shash" 0 or_args.
Definition or_V := mk_site F_vtmf "OR_Verify" "tmcg_mpz_shash" 0 or_args.
Definition or_req := ["p"; "q"; "g"; "h"; "stmt:g1"; "stmt:y1"; "stmt:g2"; "stmt:y2"; "commit:t1"; "commit:t2"].

(* Groth: shuffle of known content (two verifier overloads), then the shuffle argument itself *)
Definition skc_x_args := [("com->g","ck:g"); ("m","stmt:m"); ("com->p","ck:p"); ("com->q","ck:q"); ("com->h","ck:h")].
Definition skc_e_args := [("com->g","ck:g"); ("m","stmt:m"); ("x","chain:x"); ("c_d","commit:c_d"); ("c_Delta","commit:c_Delta"); ("c_a","commit:c_a")].
Definition skc_x_P := mk_site F_groth "Prove_noninteractive" "tmcg_mpz_shash_2vec" 0 skc_x_args.
Definition skc_e_P := mk_site F_groth "Prove_noninteractive" "tmcg_mpz_shash_2vec" 1 skc_e_args.
Definition skc_x_V (k : nat) := mk_site F_groth "Verify_noninteractive" "tmcg_mpz_shash_2vec" (2 * k) skc_x_args.
Definition skc_e_V (k : nat) := mk_site F_groth "Verify_noninteractive" "tmcg_mpz_shash_2vec" (2 * k + 1) skc_e_args.
Definition skc_x_req := ["ck:g"; "ck:p"; "ck:q"; "ck:h"; "stmt:m"].
Definition skc_e_req := ["ck:g"; "stmt:m"; "chain:x"; "commit:c_d"; "commit:c_Delta"; "commit:c_a"].

Definition vsshe_t_args := [("e","stmt:e"); ("E","stmt:E"); ("p","p"); ("q","q"); ("g","g"); ("h","h");
                            ("com->p","ck:p"); ("com->q","ck:q"); ("com->g[i]","ck:g"); ("com->h","ck:h");
                            ("c","commit:c"); ("c_d","commit:c_d"); ("E_d.first","commit:E_d1"); ("E_d.second","commit:E_d2");
                            ("foo","chain:prev"); ("bar","chain:index")].
Definition vsshe_l_args := [("e","stmt:e"); ("E","stmt:E"); ("t","chain:t"); ("f","resp:f"); ("g","g"); ("h","h");
                            ("com->q","ck:q"); ("q","q"); ("Z","resp:Z")].
Definition vsshe_t_P := mk_site F_groth "Prove_noninteractive" "tmcg_mpz_shash_2pairvec" 0 vsshe_t_args.
Definition vsshe_t_V := mk_site F_groth "Verify_noninteractive" "tmcg_mpz_shash_2pairvec" 0 vsshe_t_args.
Definition vsshe_l_P := mk_site F_groth "Prove_noninteractive" "tmcg_mpz_shash_2pairvec2vec" 0 vsshe_l_args.
Definition vsshe_l_V := mk_site F_groth "Verify_noninteractive" "tmcg_mpz_shash_2pairvec2vec" 0 vsshe_l_args.
Definition vsshe_t_req := ["p"; "q"; "g"; "h"; "ck:p"; "ck:q"; "ck:g"; "ck:h"; "stmt:e"; "stmt:E";
                           "commit:c"; "commit:c_d"; "commit:E_d1"; "commit:E_d2"; "chain:prev"; "chain:index"].
Definition vsshe_l_req := ["g"; "h"; "q"; "stmt:e"; "stmt:E"; "chain:t"; "resp:f"; "resp:Z"].

(* rotation: PUB-ROT sub-argument (2vec, 4vec) and the rotation argument (2pairvec, 4pairvec2vec) *)
Definition pr_b_args := [("alpha","stmt:alpha"); ("c","stmt:c"); ("p","p"); ("q","q"); ("g","g"); ("h","h"); ("foo","chain:prev"); ("bar","chain:index")].
Definition pr_l_args := [("alpha","stmt:alpha"); ("c","stmt:c"); ("f","commit:f"); ("beta","chain:beta"); ("p","p"); ("q","q"); ("g","g"); ("h","h")].
Definition pr_b_P := mk_site F_hoogh "Prove_noninteractive" "tmcg_mpz_shash_2vec" 0 pr_b_args.
Definition pr_b_V := mk_site F_hoogh "Verify_noninteractive" "tmcg_mpz_shash_2vec" 0 pr_b_args.
Definition pr_l_P := mk_site F_hoogh "Prove_noninteractive" "tmcg_mpz_shash_4vec" 0 pr_l_args.
Definition pr_l_V := mk_site F_hoogh "Verify_noninteractive" "tmcg_mpz_shash_4vec" 0 pr_l_args.
Definition pr_b_req := ["p"; "q"; "g"; "h"; "stmt:alpha"; "stmt:c"; "chain:prev"; "chain:index"].
Definition pr_l_req := ["p"; "q"; "g"; "h"; "stmt:alpha"; "stmt:c"; "commit:f"; "chain:beta"].

Definition rot_a_args := [("X","stmt:X"); ("Y","stmt:Y"); ("p","p"); ("q","q"); ("g","g"); ("h","h"); ("foo","chain:prev"); ("bar","chain:index")].
Definition rot_l_args := [("X","stmt:X"); ("Y","stmt:Y"); ("Ak","commit:A"); ("Fk","commit:F"); ("hk","commit:h"); ("fk","commit:f");
                          ("p","p"); ("q","q"); ("g","g"); ("h","h"); ("v","commit:v")].
Definition rot_a_P := mk_site F_hoogh "Prove_noninteractive" "tmcg_mpz_shash_2pairvec" 0 rot_a_args.
Definition rot_a_V := mk_site F_hoogh "Verify_noninteractive" "tmcg_mpz_shash_2pairvec" 0 rot_a_args.
Definition rot_l_P := mk_site F_hoogh "Prove_noninteractive" "tmcg_mpz_shash_4pairvec2vec" 0 rot_l_args.
Definition rot_l_V := mk_site F_hoogh "Verify_noninteractive" "tmcg_mpz_shash_4pairvec2vec" 0 rot_l_args.
Definition rot_a_req := ["p"; "q"; "g"; "h"; "stmt:X"; "stmt:Y"; "chain:prev"; "chain:index"].
Definition rot_l_req := ["p"; "q"; "g"; "h"; "stmt:X"; "stmt:Y"; "commit:A"; "commit:F"; "commit:h"; "commit:f"; "commit:v"].

Definition all_fs_obligations : list (string * bool) :=
  [ ("keynizk", fs_obligation keynizk_P keynizk_V keynizk_req);
    ("cp", fs_obligation cp_P cp_V cp_req);
    ("or_first", fs_obligation or_P1 or_V or_req);
    ("or_second", fs_obligation or_P2 or_V or_req);
    ("skc_x_verify1", fs_obligation skc_x_P (skc_x_V 0) skc_x_req);
    ("skc_e_verify1", fs_obligation skc_e_P (skc_e_V 0) skc_e_req);
    ("skc_x_verify2", fs_obligation skc_x_P (skc_x_V 1) skc_x_req);
    ("skc_e_verify2", fs_obligation skc_e_P (skc_e_V 1) skc_e_req);
    ("vsshe_t", fs_obligation vsshe_t_P vsshe_t_V vsshe_t_req);
    ("vsshe_lambda", fs_obligation vsshe_l_P vsshe_l_V vsshe_l_req);
    ("pubrot_beta", fs_obligation pr_b_P pr_b_V pr_b_req);
    ("pubrot_lambda", fs_obligation pr_l_P pr_l_V pr_l_req);
    ("rot_alpha", fs_obligation rot_a_P rot_a_V rot_a_req);
    ("rot_lambda", fs_obligation rot_l_P rot_l_V rot_l_req) ].
