(* DkgRoundModel: the sharing phase (steps 1-3) of GennaroJareckiKrawczykRabinDKG::Generate
   (/repo/src/GennaroJareckiKrawczykRabinDKG.cc:433-776) as a synchronous round function: the local computation of party P_i
   from everything it receives.  Deviating parties' messages are inputs: B = what every party broadcast (commitments C_jk,
   complaint stream, answer stream - identical at all honest parties by the agreement property of the broadcast layer, C14),
   pairs = the share pairs P_i received point-to-point (None = reception failed).  Definitions only.
   A stream that ends early models a failed delivery; timing is outside the model.
   Library exceptions (a modular inverse that does not exist inside fpowm/fspowm for a negative exponent) are tracked by
   dkg_defined: dkg_view returns None in that case. *)
From Coq Require Import ZArith List Bool.
From LT Require Import Zbase VssModel DkgModel.
Import ListNotations.
Local Open Scope Z_scope.

Record bcast := mkB { b_C : list Z; b_compl : list Z; b_ans : list Z }.
Definition noB : bcast := mkB [] [] [].
Definition parties (n : Z) : list Z := map Z.of_nat (seq 0 (Z.to_nat n)).
Definition getB (B : list bcast) (j : Z) : bcast := nth (Z.to_nat j) B noB.
Definition getP (P : list (option (Z * Z))) (j : Z) : option (Z * Z) := nth (Z.to_nat j) P None.
Definition memz (w : Z) (l : list Z) : bool := existsb (Z.eqb w) l.
Definition b2z (b : bool) : Z := if b then 1 else 0.
Definition zsum (f : Z -> Z) (l : list Z) : Z := fold_right (fun j a => f j + a) 0 l.

(* received commitments that fail CheckElement are replaced by 0 (:471-476) *)
Definition normC (p q : Z) (C : list Z) : list Z := map (fun c => if check_element p q c then c else 0) C.
Definition share_okb (p g h : Z) (As : list Z) (x s t : Z) : bool :=
  match share_ok p g h As x s t with Some b => b | None => false end.
Definition share_def (p g h : Z) (As : list Z) (x s t : Z) : bool :=
  match share_ok p g h As x s t with Some _ => true | None => false end.

(* the pair as stored after reception (:539-565): out-of-range values and failed receptions leave 0 *)
Definition rx_pair (q : Z) (o : option (Z * Z)) : Z * Z :=
  match o with
  | Some (s, t) => (zero_unless (in_range q s) s, zero_unless (in_range q t) t)
  | None => (0, 0)
  end.
Definition rx_bad (q : Z) (o : option (Z * Z)) : bool :=
  match o with Some (s, t) => negb (in_range q s) || negb (in_range q t) | None => true end.
Definition viewC (p q i j : Z) (B : list bcast) : list Z :=
  if j =? i then b_C (getB B j) else normC p q (b_C (getB B j)).

(* does P_i complain about dealer P_j after step 1(b)?  (:463-478, :535-598; the check (4) is also run on its own pair) *)
Definition dkg_complains (p q g h i : Z) (B : list bcast) (P : list (option (Z * Z))) (j : Z) : bool :=
  negb (share_okb p g h (viewC p q i j B) (i + 1) (fst (rx_pair q (getP P j))) (snd (rx_pair q (getP P j)))) ||
  (negb (j =? i) && (negb (forallb (check_element p q) (b_C (getB B j))) || rx_bad q (getP P j))).
(* the sorted, duplicate-free list of complaints P_i broadcasts (:601-610) *)
Definition dkg_mine (p q g h n i : Z) (B : list bcast) (P : list (option (Z * Z))) : list Z :=
  filter (dkg_complains p q g h i B P) (parties n).
(* ... followed by the end marker n *)
Definition dkg_own_stream (p q g h n i : Z) (B : list bcast) (P : list (option (Z * Z))) : list Z :=
  dkg_mine p q g h n i B P ++ [n].

(* complaint stream of another party (:618-650): values until an end marker (>= n), a failed delivery or n+1 values;
   result: the accused parties and whether the sender itself is to be disqualified (failed delivery, duplicate) *)
Fixpoint scan_dkg (fuel : nat) (n : Z) (st : list Z) (acc : list Z) (bad : bool) : list Z * bool :=
  match fuel with
  | O => (acc, bad)
  | S f => match st with
           | [] => (acc, true)
           | v :: r => if who_of v <? n
                       then (if memz (who_of v) acc then scan_dkg f n r acc true else scan_dkg f n r (who_of v :: acc) bad)
                       else (acc, bad)
           end
  end.
Definition accused (n : Z) (st : list Z) : list Z := fst (scan_dkg (S (Z.to_nat n)) n st [] false).
Definition bad_stream (n : Z) (st : list Z) : bool := snd (scan_dkg (S (Z.to_nat n)) n st [] false).

(* answers of dealer P_j as read by P_i in step 1(d) (:667-745): triples who, s, s' until an end marker; a failed delivery,
   an out-of-range value or a failing equation (4) disqualify the dealer; a valid pair for who = i replaces P_i's pair *)
Fixpoint ans_go (fuel : nat) (p q g h n i : Z) (Cj : list Z) (res : list Z) (bad : bool) (sg ta : Z) : bool * Z * Z :=
  match fuel with
  | O => (bad, sg, ta)
  | S f =>
    match res with
    | [] => (true, sg, ta)
    | w :: r1 =>
      if n <=? who_of w then (bad, sg, ta) else
      match r1 with
      | fv :: bv :: r3 =>
        let f0 := zero_unless (in_range q fv) fv in
        let b0 := zero_unless (in_range q bv) bv in
        let bad1 := bad || negb (in_range q fv) || negb (in_range q bv) in
        if share_okb p g h Cj (who_of w + 1) f0 b0
        then (if who_of w =? i then ans_go f p q g h n i Cj r3 bad1 f0 b0 else ans_go f p q g h n i Cj r3 bad1 sg ta)
        else ans_go f p q g h n i Cj r3 true sg ta
      | _ => (true, sg, ta)
      end
    end
  end.
Fixpoint ans_def (fuel : nat) (p q g h n : Z) (Cj : list Z) (res : list Z) : bool :=
  match fuel with
  | O => true
  | S f =>
    match res with
    | w :: fv :: bv :: r3 =>
      if n <=? who_of w then true else
      share_def p g h Cj (who_of w + 1) (zero_unless (in_range q fv) fv) (zero_unless (in_range q bv) bv) && ans_def f p q g h n Cj r3
    | _ => true
    end
  end.

(* the view functions are parameterised by the party's own complaint list `mine`, so that the executable dkg_view computes it once *)
Section ViewM.
  Variables (p q g h n t i : Z) (B : list bcast) (P : list (option (Z * Z))) (mine : list Z).

  Definition acc_of (j : Z) : list Z := accused n (b_compl (getB B j)).
  (* complaints_counter[w] as P_i computes it: its own complaints (:611-614) plus one per other party that named w *)
  Definition cnt_view_m (w : Z) : Z :=
    zsum (fun j => if j =? i then b2z (memz w mine) else b2z (memz w (acc_of j))) (parties n).
  Definition ans_of (j : Z) : bool * Z * Z :=
    ans_go (S (Z.to_nat n)) p q g h n i (viewC p q i j B) (b_ans (getB B j)) false
           (fst (rx_pair q (getP P j))) (snd (rx_pair q (getP P j))).
  (* step 1(d) / 2: who is disqualified *)
  Definition disq_view_m (j : Z) : bool :=
    if j =? i then t <? cnt_view_m j
    else bad_stream n (b_compl (getB B j)) || (t <? cnt_view_m j) || fst (fst (ans_of j)).
  Definition qual_view_m : list Z := filter (fun j => negb (disq_view_m j)) (parties n).
  (* the pair of dealer P_j that P_i holds at the end of the sharing phase *)
  Definition final_pair_m (j : Z) : Z * Z :=
    if (j =? i) || (t <? cnt_view_m j) then rx_pair q (getP P j)
    else (snd (fst (ans_of j)), snd (ans_of j)).
  Definition dkg_defined_m : bool :=
    forallb (fun j => share_def p g h (viewC p q i j B) (i + 1) (fst (rx_pair q (getP P j))) (snd (rx_pair q (getP P j)))) (parties n) &&
    forallb (fun j => (j =? i) || (t <? cnt_view_m j) || ans_def (S (Z.to_nat n)) p q g h n (viewC p q i j B) (b_ans (getB B j))) (parties n).
  (* step 3: x_i, x'_i *)
  Definition view_x_q (ql : list Z) : Z * Z :=
    (sum_qual q ql (map (fun j => fst (final_pair_m j)) (parties n)),
     sum_qual q ql (map (fun j => snd (final_pair_m j)) (parties n))).
End ViewM.

Section View.
  Variables (p q g h n t i : Z) (B : list bcast) (P : list (option (Z * Z))).
  Definition cnt_view (w : Z) : Z := cnt_view_m n i B (dkg_mine p q g h n i B P) w.
  Definition disq_view (j : Z) : bool := disq_view_m p q g h n t i B P (dkg_mine p q g h n i B P) j.
  Definition qual_view : list Z := qual_view_m p q g h n t i B P (dkg_mine p q g h n i B P).
  Definition final_pair (j : Z) : Z * Z := final_pair_m p q g h n t i B P (dkg_mine p q g h n i B P) j.
  Definition dkg_defined : bool := dkg_defined_m p q g h n t i B P (dkg_mine p q g h n i B P).
  Definition view_x : Z * Z := view_x_q p q g h n t i B P (dkg_mine p q g h n i B P) qual_view.
  Definition dkg_view : option (list Z * (Z * Z)) :=
    let mine := dkg_mine p q g h n i B P in
    if dkg_defined_m p q g h n t i B P mine
    then (let ql := qual_view_m p q g h n t i B P mine in Some (ql, view_x_q p q g h n t i B P mine ql))
    else None.
End View.

(* the qualified set as a function of the broadcast values alone (an observer applying the rules of step 1(d) to every party) *)
Section Global.
  Variables (p q g h n t : Z) (B : list bcast).
  Definition cnt_glob (w : Z) : Z := zsum (fun j => b2z (memz w (accused n (b_compl (getB B j))))) (parties n).
  Definition ans_glob (j : Z) : bool :=
    fst (fst (ans_go (S (Z.to_nat n)) p q g h n (-1) (normC p q (b_C (getB B j))) (b_ans (getB B j)) false 0 0)).
  Definition disq_glob (j : Z) : bool := bad_stream n (b_compl (getB B j)) || (t <? cnt_glob j) || ans_glob j.
  Definition qual_glob : list Z := filter (fun j => negb (disq_glob j)) (parties n).
End Global.

(* the honest dealer's answer stream of step 1(c) (:651-666): for every party that complained about it (ascending) who, s, s'; end marker *)
Definition dkg_answers (n i : Z) (B : list bcast) (row : list (Z * Z)) : list Z :=
  flat_map (fun j => if (negb (j =? i)) && memz i (accused n (b_compl (getB B j)))
                     then [j; fst (nth (Z.to_nat j) row (0, 0)); snd (nth (Z.to_nat j) row (0, 0))] else []) (parties n) ++ [n].
