(* TmcgLemmas -- proofs about TmcgModel (C01): opening a card of the quadratic-residue encoding.
   The residuosity oracle of every player is abstract (Section variables); its algebraic laws are exactly what
   a valid key (m Blum integer, y a non-residue with Jacobi symbol +1) provides -- they appear as premises. *)
From Coq Require Import ZArith Lia List Bool ZifyBool.
From LT Require Import TmcgModel.
Import ListNotations.
Local Open Scope Z_scope.

Lemma xor_upto_ext (n : nat) (f g : nat -> bool) : (forall i, (i < n)%nat -> f i = g i) -> xor_upto n f = xor_upto n g.
Proof. induction n as [|n IH]; intros H; cbn [xor_upto]; [reflexivity|]. rewrite IH, H by auto. reflexivity. Qed.

Lemma xor_upto_xorb (n : nat) (f g : nat -> bool) :
  xor_upto n (fun i => xorb (f i) (g i)) = xorb (xor_upto n f) (xor_upto n g).
Proof.
  induction n as [|n IH]; cbn [xor_upto]; [reflexivity|]. rewrite IH.
  destruct (xor_upto n f), (xor_upto n g), (f n), (g n); reflexivity.
Qed.

Lemma xor_upto_false (n : nat) : xor_upto n (fun _ => false) = false.
Proof. induction n as [|n IH]; cbn [xor_upto]; [reflexivity|]. now rewrite IH. Qed.

Lemma xor_upto_single (n idx : nat) (v : bool) (f : nat -> bool) : (idx < n)%nat ->
  xor_upto n (fun i => if Nat.eqb i idx then v else f i)
  = xorb v (xor_upto n (fun i => if Nat.eqb i idx then false else f i)).
Proof.
  induction n as [|n IH]; intros H; [lia|]. cbn [xor_upto].
  destruct (Nat.eqb_spec n idx) as [->|Ne].
  - rewrite (xor_upto_ext idx _ (fun i => if Nat.eqb i idx then false else f i)).
    + set (x := xor_upto idx _). destruct v, x; reflexivity.
    + intros i Hi. destruct (Nat.eqb_spec i idx); [lia|reflexivity].
  - rewrite IH by lia. set (x := xor_upto n _). destruct v, x, (f n); reflexivity.
Qed.

(* the completed secret has XOR zero in every column *)
Lemma complete_secret_column (k index : nat) (b : matrix) (j : nat) : (index < k)%nat ->
  xor_upto k (fun i => Z.odd (complete_secret k index b i j)) = false.
Proof.
  intros H. unfold complete_secret.
  set (X := xor_upto k (fun i' => if Nat.eqb i' index then false else Z.odd (b i' j))).
  rewrite (xor_upto_ext k _ (fun i => if Nat.eqb i index then X else Z.odd (b i j))).
  - rewrite xor_upto_single by assumption. fold X. destruct X; reflexivity.
  - intros i _. destruct (Nat.eqb i index); [destruct X; reflexivity|reflexivity].
Qed.

Lemma type_sum_ext (w : nat) (f g : nat -> bool) : (forall j, (j < w)%nat -> f j = g j) -> type_sum w f = type_sum w g.
Proof. induction w as [|w IH]; intros H; cbn [type_sum]; [reflexivity|]. rewrite IH, H by auto. reflexivity. Qed.

Lemma type_sum_bits (T : Z) (w : nat) : 0 <= T -> type_sum w (fun j => Z.testbit T (Z.of_nat j)) = T mod 2 ^ Z.of_nat w.
Proof.
  intros HT. induction w as [|w IH]; cbn [type_sum].
  - cbn. now rewrite Z.mod_1_r.
  - rewrite IH. rewrite Nat2Z.inj_succ, Z.pow_succ_r by lia.
    rewrite (Z.mul_comm 2). rewrite Z.rem_mul_r by lia.
    destruct (Z.testbit T (Z.of_nat w)) eqn:B.
    + apply Z.testbit_true in B; [|lia]. rewrite B. lia.
    + apply Z.testbit_false in B; [|lia]. rewrite B. lia.
Qed.

Section Players.
  Variable k w : nat.
  Variables km ky : nat -> Z.                (* public keys (m_i, y_i) *)
  Variable nqr : nat -> Z -> bool.           (* residuosity oracle of player i (tmcg_mpz_qrmn_p with the secret factors) *)
  Variable J : nat -> Z -> Prop.             (* "z has Jacobi symbol +1 and is a unit modulo m_i" *)
  Variable U : nat -> Z -> Prop.             (* "r is a unit modulo m_i" *)
  Hypothesis J_one : forall i, J i 1.
  Hypothesis J_y : forall i, J i (ky i).
  Hypothesis J_sq : forall i z r, J i z -> U i r -> J i ((((r * r) mod km i) * z) mod km i).
  Hypothesis J_mul : forall i z, J i z -> J i ((z * ky i) mod km i).
  Hypothesis N_one : forall i, nqr i 1 = false.
  Hypothesis N_y : forall i, nqr i (ky i) = true.
  Hypothesis N_sq : forall i z r, J i z -> U i r -> nqr i ((((r * r) mod km i) * z) mod km i) = nqr i z.
  Hypothesis N_mul : forall i z, J i z -> nqr i ((z * ky i) mod km i) = negb (nqr i z).
  Hypothesis k_pos : (0 < k)%nat.

  Lemma mask_value_J (i : nat) (z r b : Z) : J i z -> U i r -> J i (mask_value (km i) (ky i) z r b).
  Proof. intros Hz Hr. unfold mask_value. destruct (Z.odd b); auto. Qed.

  Lemma mask_value_nqr (i : nat) (z r b : Z) : J i z -> U i r ->
    nqr i (mask_value (km i) (ky i) z r b) = xorb (nqr i z) (Z.odd b).
  Proof.
    intros Hz Hr. unfold mask_value. destruct (Z.odd b).
    - rewrite N_mul by (apply J_sq; assumption). rewrite N_sq by assumption. destruct (nqr i z); reflexivity.
    - rewrite N_sq by assumption. destruct (nqr i z); reflexivity.
  Qed.

  (* a card that encodes T: all entries admissible, column XOR of the residuosity bits = bit of T *)
  Definition encodes (T : Z) (c : matrix) : Prop :=
    forall j, (j < w)%nat ->
      (forall i, (i < k)%nat -> J i (c i j)) /\
      xor_upto k (fun i => nqr i (c i j)) = Z.testbit T (Z.of_nat j).

  (* an admissible card secret: unit masks, bits XOR to zero in every column (TMCG_CreateCardSecret) *)
  Definition good_secret (rb : matrix * matrix) : Prop :=
    forall j, (j < w)%nat ->
      (forall i, (i < k)%nat -> U i (fst rb i j)) /\
      xor_upto k (fun i => Z.odd (snd rb i j)) = false.

  Lemma open_card_encodes (T : Z) : encodes T (open_card_qr ky T).
  Proof.
    intros j Hj. split.
    - intros i Hi. unfold open_card_qr. destruct (Nat.eqb_spec i 0) as [->|]; [destruct (Z.testbit T _)|]; auto.
    - rewrite (xor_upto_ext k _ (fun i => if Nat.eqb i 0 then Z.testbit T (Z.of_nat j) else false)).
      + rewrite xor_upto_single by assumption.
        rewrite (xor_upto_ext k _ (fun _ => false)); [rewrite xor_upto_false; apply xorb_false_r|].
        intros i _. destruct (Nat.eqb i 0); reflexivity.
      + intros i _. unfold open_card_qr. destruct (Nat.eqb_spec i 0) as [->|]; [|apply N_one].
        destruct (Z.testbit T (Z.of_nat j)); [apply N_y|apply N_one].
  Qed.

  Lemma mask_card_encodes (T : Z) (c r b : matrix) : encodes T c -> good_secret (r, b) ->
    encodes T (mask_card km ky c r b).
  Proof.
    intros Hc Hs j Hj. destruct (Hc j Hj) as [HJ HX]. destruct (Hs j Hj) as [HU HB]. cbn [fst snd] in *. split.
    - intros i Hi. unfold mask_card. apply mask_value_J; auto.
    - rewrite (xor_upto_ext k _ (fun i => xorb (nqr i (c i j)) (Z.odd (b i j)))).
      + rewrite xor_upto_xorb, HX, HB. apply xorb_false_r.
      + intros i Hi. unfold mask_card. apply mask_value_nqr; auto.
  Qed.

  Lemma mask_chain_encodes (T : Z) (chain : list (matrix * matrix)) : Forall good_secret chain ->
    forall c, encodes T c -> encodes T (mask_chain km ky c chain).
  Proof.
    induction 1 as [|[r b] chain Hs _ IH]; intros c Hc; cbn [mask_chain]; [assumption|].
    apply IH. now apply mask_card_encodes.
  Qed.

  Lemma encodes_type (T : Z) (c : matrix) : 0 <= T < 2 ^ Z.of_nat w -> encodes T c ->
    type_of_card k w (self_bits nqr c) = T.
  Proof.
    intros HT Hc. unfold type_of_card.
    rewrite (type_sum_ext w _ (fun j => Z.testbit T (Z.of_nat j))).
    - rewrite type_sum_bits by lia. apply Z.mod_small. assumption.
    - intros j Hj. destruct (Hc j Hj) as [_ HX]. rewrite <- HX. apply xor_upto_ext.
      intros i _. unfold self_bits. destruct (nqr i (c i j)); reflexivity.
  Qed.

  (* create with type T, mask any number of times with admissible secrets, every player contributes the
     residuosity bits of its row: the card opens to T *)
  Theorem tmcg_open_ok (T : Z) (chain : list (matrix * matrix)) : 0 <= T < 2 ^ Z.of_nat w ->
    Forall good_secret chain ->
    type_of_card k w (self_bits nqr (mask_chain km ky (open_card_qr ky T) chain)) = T.
  Proof.
    intros HT Hs. apply encodes_type; [assumption|]. apply mask_chain_encodes; [assumption|apply open_card_encodes].
  Qed.

  (* the secrets produced by TMCG_CreateCardSecret are admissible as soon as their masks are units *)
  Lemma completed_secret_good (index : nat) (r b : matrix) : (index < k)%nat ->
    (forall i j, (i < k)%nat -> (j < w)%nat -> U i (r i j)) -> good_secret (r, complete_secret k index b).
  Proof.
    intros Hi HU j Hj. cbn [fst snd]. split; [intros i Hik; now apply HU|]. now apply complete_secret_column.
  Qed.
End Players.

(* ---- the announced bits are arbitrary integers: only their parity enters TMCG_TypeOfCard ---------------------------- *)
Lemma type_of_card_parity (k w : nat) (B B' : matrix) :
  (forall i j, (i < k)%nat -> (j < w)%nat -> Z.odd (B i j) = Z.odd (B' i j)) -> type_of_card k w B = type_of_card k w B'.
Proof.
  intros H. unfold type_of_card. apply type_sum_ext. intros j Hj. apply xor_upto_ext. intros i Hi. now apply H.
Qed.

Section PlayersAnyBits.
  Variable k w : nat.
  Variables km ky : nat -> Z.
  Variable nqr : nat -> Z -> bool.
  Variable J : nat -> Z -> Prop.
  Variable U : nat -> Z -> Prop.
  Hypothesis J_one : forall i, J i 1.
  Hypothesis J_y : forall i, J i (ky i).
  Hypothesis J_sq : forall i z r, J i z -> U i r -> J i ((((r * r) mod km i) * z) mod km i).
  Hypothesis J_mul : forall i z, J i z -> J i ((z * ky i) mod km i).
  Hypothesis N_one : forall i, nqr i 1 = false.
  Hypothesis N_y : forall i, nqr i (ky i) = true.
  Hypothesis N_sq : forall i z r, J i z -> U i r -> nqr i ((((r * r) mod km i) * z) mod km i) = nqr i z.
  Hypothesis N_mul : forall i z, J i z -> nqr i ((z * ky i) mod km i) = negb (nqr i z).
  Hypothesis k_pos : (0 < k)%nat.

  (* whatever integers the players announce (0/1, 2, -3, 2^64 ...): as long as every announced value has the parity of the
     residuosity it was verified for -- which is what TMCG_VerifyCardSecret establishes, selecting the proof by parity --
     the card opens to T *)
  Theorem tmcg_open_any_bits (T : Z) (chain : list (matrix * matrix)) (B : matrix) : 0 <= T < 2 ^ Z.of_nat w ->
    Forall (good_secret k w U) chain ->
    (forall i j, (i < k)%nat -> (j < w)%nat ->
       Z.odd (B i j) = nqr i (mask_chain km ky (open_card_qr ky T) chain i j)) ->
    type_of_card k w B = T.
  Proof.
    intros HT Hs HB.
    rewrite (type_of_card_parity k w B (self_bits nqr (mask_chain km ky (open_card_qr ky T) chain))).
    - apply (tmcg_open_ok k w km ky nqr J U); assumption.
    - intros i j Hi Hj. rewrite HB by assumption. unfold self_bits.
      destruct (nqr i (mask_chain km ky (open_card_qr ky T) chain i j)); reflexivity.
  Qed.
End PlayersAnyBits.
