(* TsigModel: the signature verifiers of the two threshold signature schemes, the share arithmetic of the
   threshold Schnorr signing run, and the textbook Schnorr / DSA predicates (definitions only).
     GennaroJareckiKrawczykRabinNTS::Verify   GennaroJareckiKrawczykRabinDKG.cc:1733-1766
     GennaroJareckiKrawczykRabinNTS::Sign     GennaroJareckiKrawczykRabinDKG.cc:1520-1731 (challenge, share, share check, sum)
     CanettiGennaroJareckiKrawczykRabinDSS::Verify  CanettiGennaroJareckiKrawczykRabinASTC.cc:4820-4859
     tmcg_mpz_fpowm                           mpz_spowm.cc:196-237
   The hash tmcg_mpz_shash(c, 2, m, r) is the parameter H applied to the argument list [m; r].
   The textbook predicates are written with Z.pow on exponents reduced modulo q, independently of the code. *)
From Coq Require Import ZArith List Bool.
From LT Require Import gen_Consts Zbase CoinFlipModel.
Import ListNotations.
Local Open Scope Z_scope.

(* tmcg_mpz_fpowm on a table with `tbits` precomputed entries (the others are zero).
   None = a C++ exception (exponent longer than TMCG_MAX_FPOWM_T bits; mpz_invert failed for x < 0).
   An exponent that is longer than the precomputed part of the table silently yields 0. *)
Definition fpowm (tbits : Z) (b x p : Z) : option Z :=
  let ax := Z.abs x in
  if bitlen ax >? TMCG_MAX_FPOWM_T then None else
  let r := if bitlen ax <=? tbits then powm b ax p else 0 in
  if x <? 0 then invm r p else Some r.

(* mpz_powm with a signed exponent: the inverse is used for e < 0; None = GMP raises division by zero *)
Definition powm_signed (b e p : Z) : option Z :=
  if e <? 0 then match invm b p with Some iv => Some (powm iv (- e) p) | None => None end
  else Some (powm b e p).

Section Hash.
  Variable H : list Z -> Z.

  (* NTS::Verify(m, c, s) with public key y.  None = no verdict (exception / abort).
     Step 0 (fix c546d31): s outside [0, q) is refused before the fixed-base power is evaluated *)
  Definition nts_verify (G : group) (y m c s : Z) : option bool :=
    if (s <? 0) || (s >=? gq G) then Some false else
    match fpowm (table_bits G) (gg G) s (gp G) with
    | None => None
    | Some r0 =>
      match powm_signed y c (gp G) with
      | None => None
      | Some foo =>
        match invm foo (gp G) with
        | None => Some false
        | Some bar => Some (c =? H [m; (r0 * bar) mod gp G])
        end
      end
    end.

  (* textbook Schnorr: s in Z_q and c = H(m, g^s y^-c) in the group of order q *)
  Definition schnorr_textbook (G : group) (y m c s : Z) : bool :=
    (0 <=? s) && (s <? gq G) &&
    (c =? H [m; (gg G ^ (s mod gq G) * y ^ ((- c) mod gq G)) mod gp G]).

  (* the challenge of a signing run with joint nonce r *)
  Definition nts_challenge (m r : Z) : Z := H [m; r].
End Hash.

(* signing: additive share s_i = u_i + c z_i, the check g^{s_j} = r_j y_j^c of a received share
   (after the range test |s_j| < q), and the sum over QUAL *)
Definition nts_share (q c z u : Z) : Z := ((c * z) mod q + u) mod q.

Definition nts_share_check (G : group) (yj rj c sj : Z) : option bool :=
  if Z.abs sj >=? gq G then Some false else
  match fpowm (table_bits G) (gg G) sj (gp G), powm_signed yj c (gp G) with
  | Some lhs, Some yc => Some (lhs =? (yc * rj) mod gp G)
  | _, _ => None
  end.

Definition nts_combine (q : Z) (shares : list Z) : Z :=
  fold_left (fun acc x => (acc + x) mod q) shares 0.

(* DSS::Verify(m, r, s) with public key y *)
Definition dss_verify (G : group) (y m r s : Z) : option bool :=
  if (r <=? 0) || (r >=? gq G) then Some false else
  if (s <=? 0) || (s >=? gq G) then Some false else
  match invm s (gq G) with
  | None => Some false
  | Some w =>
    match fpowm (table_bits G) (gg G) ((m * w) mod gq G) (gp G) with
    | None => None
    | Some a =>
      let b := powm y ((r * w) mod gq G) (gp G) in
      Some (r =? ((a * b) mod gp G) mod gq G)
    end
  end.

(* textbook DSA (FIPS 186-4, 4.7) on the hash value m:
   0 < r < q, 0 < s < q, w = s^-1 mod q, u1 = m w mod q, u2 = r w mod q, v = (g^u1 y^u2 mod p) mod q, v = r *)
Definition dsa_textbook (G : group) (y m r s : Z) : bool :=
  (0 <? r) && (r <? gq G) && (0 <? s) && (s <? gq G) &&
  match invm s (gq G) with
  | None => false
  | Some w =>
    let u1 := ((m mod gq G) * w) mod gq G in
    let u2 := (r * w) mod gq G in
    ((gg G ^ u1 * y ^ u2) mod gp G) mod gq G =? r
  end.

(* the values a correct DSS signing run reconstructs: r = (g^(k^-1) mod p) mod q, s = k (m + x r) mod q *)
Definition dss_r (G : group) (kinv : Z) : Z := (powm (gg G) kinv (gp G)) mod gq G.
Definition dss_s (q k m x r : Z) : Z := (k * ((m + x * r) mod q)) mod q.

(* Lagrange interpolation at 0 as GennaroJareckiKrawczykRabinDKG::Reconstruct computes it
   (GennaroJareckiKrawczykRabinDKG.cc:1193-1224) from the points (x_j, y_j), x_j = index + 1:
   lambda_j = prod_{l <> j} x_l * (prod_{l <> j} (x_l - x_j))^-1 mod q; z = sum lambda_j y_j mod q.
   None = the denominator is not invertible (the function returns false). *)
Definition lag_coeff (q : Z) (xs : list Z) (xj : Z) : option Z :=
  let others := filter (fun x => negb (x =? xj)) xs in
  let num := fold_left (fun a x => a * x) others 1 in
  let den := fold_left (fun a x => a * (x - xj)) others 1 in
  match invm den q with Some iv => Some ((num * iv) mod q) | None => None end.

Definition interp0 (q : Z) (pts : list (Z * Z)) : option Z :=
  let xs := map fst pts in
  fold_left (fun acc p => match acc, lag_coeff q xs (fst p) with
                          | Some a, Some l => Some ((a + (l * snd p) mod q) mod q)
                          | _, _ => None end) pts (Some 0).
