(* SigmaPrim: executable models of the arithmetic helpers the VTMF layer is written in (C03, C08).
   Anchors: src/mpz_srandom.cc:178-195 (tmcg_mpz_grandomm), src/mpz_spowm.cc:110-173 (tmcg_mpz_spowm, HAVE_POWMSEC path),
            :183-195 (tmcg_mpz_fpowm_precompute), :197-236 (tmcg_mpz_fpowm), :267-325 (tmcg_mpz_fspowm),
            GMP mpz_powm / mpz_invert / mpz_sizeinbase, src/BarnettSmartVTMF_dlog.cc:237-260 (CheckElement).
   Exceptions thrown by the C++ code are explicit: `None` for value-returning helpers, `Throw` for verifiers.
   Moduli are positive in every modelled call (p, q of a group that was read or generated); p <= 0 or q <= 0
   is outside the model (the harness never produces it).
   Definitions only -- proofs live in SigmaArith.v. *)
From Coq Require Import ZArith List Bool.
From LT Require Import Zbase gen_Consts.
Import ListNotations.
Local Open Scope Z_scope.

(* outcome of a verifier entry point: true / false / a C++ exception (or GMP abort) escapes *)
Inductive verdict := Accept | Reject | Throw.

Definition verdict_eqb (a b : verdict) : bool :=
  match a, b with Accept, Accept | Reject, Reject | Throw, Throw => true | _, _ => false end.

(* mpz_sizeinbase(x, 2): number of bits of |x|, 1 for zero *)
Definition sizeinbase2 (x : Z) : Z := if x =? 0 then 1 else Z.log2 (Z.abs x) + 1.

(* tmcg_mpz_srandomm(r, m): `raw` is the big-endian integer made of the (|m|+64+7)/8 random bytes *)
Definition srandomm (raw m : Z) : Z := raw mod m.

(* mpz_powm with a possibly negative exponent: the base is inverted first; None = GMP divide-by-zero abort *)
Definition mpz_powm (b e p : Z) : option Z :=
  if e <? 0 then match invm b p with Some i => Some (powm i (- e) p) | None => None end
  else Some (powm b e p).

(* fixed-base table: fpowm_table[0] = base (as given), fpowm_table[i] = table[i-1]^2 mod p for 0 < i < ft_t,
   every further entry is the zero it was initialised with *)
Record ftable := mkFtable { ft_base : Z; ft_t : nat }.

(* tmcg_mpz_fpowm_precompute(table, m, p, t) with t = mpz_sizeinbase(q, 2) >= 1 *)
Definition precompute (m q : Z) : ftable :=
  mkFtable m (Z.to_nat (Z.min (sizeinbase2 q) TMCG_MAX_FPOWM_T)).

(* the multiplication loop over the bits of |x|: `cur` is table[idx] when idx < t *)
Fixpoint fpowm_pos (cur : Z) (idx t : nat) (e : positive) (res p : Z) : Z :=
  let entry := if (idx <? t)%nat then cur else 0 in
  match e with
  | xH => (res * entry) mod p
  | xO e' => fpowm_pos ((cur * cur) mod p) (S idx) t e' res p
  | xI e' => fpowm_pos ((cur * cur) mod p) (S idx) t e' ((res * entry) mod p) p
  end.

Definition fpowm_loop (tb : ftable) (x p : Z) : Z :=
  match Z.abs x with
  | Zpos e => fpowm_pos (ft_base tb) 0 (ft_t tb) e 1 p
  | _ => 1
  end.

(* tmcg_mpz_fpowm (the sign of x is read before res is written, so res may alias x -- fix de8b018):
   None = std::invalid_argument (wrong base, exponent too large) or runtime_error (no inverse) *)
Definition fpowm (tb : ftable) (m x p : Z) : option Z :=
  if negb (m =? ft_base tb) then None
  else if TMCG_MAX_FPOWM_T <? sizeinbase2 x then None
  else let r := fpowm_loop tb x p in
       if x <? 0 then invm r p else Some r.

(* tmcg_mpz_fspowm: same table walk; the result is always inverted once (throws when that fails); the dummy
   multiplications res*bar*bar^-1 and res*baz*baz^-1 leave the residue unchanged and reduce it mod p *)
Definition fspowm (tb : ftable) (m x p : Z) : option Z :=
  if negb (m =? ft_base tb) then None
  else if TMCG_MAX_FPOWM_T <? sizeinbase2 x then None
  else let r := fpowm_loop tb x p in
       match invm r p with
       | None => None
       | Some i => Some ((if x <? 0 then i else r) mod p)
       end.

(* tmcg_mpz_spowm, HAVE_POWMSEC path: baz = m^|x| (m^1 when x = 0) by mpz_powm_sec, its inverse must exist *)
Definition spowm (m x p : Z) : option Z :=
  if Z.even p then None
  else let xx := if x =? 0 then 1 else Z.abs x in
       let baz := powm m xx p in
       match invm baz p with
       | None => None
       | Some foo => Some ((if x <? 0 then foo else if x =? 0 then 1 else baz) mod p)
       end.

(* the Schnorr group the VTMF instance works in: p, q, g (k is not used by the modelled routines) *)
Record group := mkGroup { gp : Z; gq : Z; gg : Z }.

(* BarnettSmartVTMF_dlog::CheckElement *)
Definition check_element (G : group) (a : Z) : bool :=
  (0 <? a) && (a <? gp G) && (powm a (gq G) (gp G) =? 1).

(* the hash oracle handed to the extracted model by the driver: a finite table of the queries the code made
   (argument list of tmcg_mpz_shash -> value); a query that is not in the table yields -1, which no hash
   value equals, so a model that hashes other inputs than the code disagrees with it *)
Fixpoint zlist_eqb (a b : list Z) : bool :=
  match a, b with
  | [], [] => true
  | x :: a', y :: b' => (x =? y) && zlist_eqb a' b'
  | _, _ => false
  end.

Fixpoint table_oracle (tbl : list (list Z * Z)) (query : list Z) : Z :=
  match tbl with
  | [] => -1
  | (k, v) :: r => if zlist_eqb k query then v else table_oracle r query
  end.
