(* SigmaFsLemmas (C03): the agreement obligations of SigmaFsAgree hold for the regenerated table of hash calls. *)
From Coq Require Import List Bool String.
From LT Require Import gen_FSInputs FsModel SigmaFsAgree.

Lemma fs_arguments_agree : fs_all_agree = true.
Proof. vm_compute. reflexivity. Qed.

Lemma fs_arguments_agree_each : forall n b, In (n, b) fs_agreements -> b = true.
Proof.
  intros n b I. pose proof fs_arguments_agree as A. unfold fs_all_agree in A.
  rewrite forallb_forall in A. exact (A (n, b) I).
Qed.
