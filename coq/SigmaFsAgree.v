(* SigmaFsAgree (C03): prover and verifier of every non-interactive argument hash the same argument list.
   The table fs_calls (gen_FSInputs.v) is regenerated from the sources on every run; for each Prove_*/Verify_* pair
   the argument expressions (result variable and literal count stripped, count checked by FsModel.site_args) must agree
   position by position, up to an explicit renaming of recomputed values (e.g. the verifier's t2 for the prover's t).
   A swapped, dropped or added Fiat-Shamir input on one side only -- which breaks completeness as soon as the two
   expressions denote different values, e.g. com->q and q for a commitment key in its own group -- falsifies the
   obligation.  Definitions only; the vm_compute proof is in SigmaFsLemmas.v.  Reuses FsModel.v (C05) read-only. *)
From Coq Require Import List Bool String Arith.
From LT Require Import gen_FSInputs FsModel.
Import ListNotations.
Local Open Scope string_scope.

Fixpoint ren (r : list (string * string)) (x : string) : string :=
  match r with
  | [] => x
  | (a, b) :: t => if String.eqb a x then b else ren t x
  end.

(* np-th call of callee in the prover function vs nv-th call in the verifier function *)
Definition pair_agree (file pfn vfn callee : string) (np nv : nat) (r : list (string * string)) : bool :=
  match site_args file pfn callee np, site_args file vfn callee nv with
  | Some a, Some b => list_str_eqb (map (ren r) a) b
  | _, _ => false
  end.

(* number of hash calls (any hash function) inside functions named fn of a file: no call may stay unpaired *)
Definition n_calls (file fn : string) : nat :=
  List.length (filter (fun c : call => let '(f, e, _, _) := c in String.eqb f file && String.eqb e fn) fs_calls).

Definition PN := "Prove_noninteractive".
Definition VN := "Verify_noninteractive".

Definition fs_agreements : list (string * bool) :=
  [ (* GrothSKC: x and e challenges; the verifier exists in two overloads *)
    ("skc x  / Verify #1", pair_agree F_groth PN VN "tmcg_mpz_shash_2vec" 0 0 []);
    ("skc e  / Verify #1", pair_agree F_groth PN VN "tmcg_mpz_shash_2vec" 1 1 []);
    ("skc x  / Verify #2", pair_agree F_groth PN VN "tmcg_mpz_shash_2vec" 0 2 []);
    ("skc e  / Verify #2", pair_agree F_groth PN VN "tmcg_mpz_shash_2vec" 1 3 []);
    (* GrothVSSHE: t_i chain and lambda *)
    ("vsshe t", pair_agree F_groth PN VN "tmcg_mpz_shash_2pairvec" 0 0 []);
    ("vsshe lambda", pair_agree F_groth PN VN "tmcg_mpz_shash_2pairvec2vec" 0 0 []);
    ("groth: every call paired", Nat.eqb (n_calls F_groth PN) 4 && Nat.eqb (n_calls F_groth VN) 6);
    (* PUBROTZK and VRHE *)
    ("pubrot beta", pair_agree F_hoogh PN VN "tmcg_mpz_shash_2vec" 0 0 []);
    ("pubrot lambda", pair_agree F_hoogh PN VN "tmcg_mpz_shash_4vec" 0 0 []);
    ("vrhe alpha", pair_agree F_hoogh PN VN "tmcg_mpz_shash_2pairvec" 0 0 []);
    ("vrhe lambda", pair_agree F_hoogh PN VN "tmcg_mpz_shash_4pairvec2vec" 0 0 []);
    ("hoogh: every call paired", Nat.eqb (n_calls F_hoogh PN) 4 && Nat.eqb (n_calls F_hoogh VN) 4);
    (* VTMF layer (the verifier recomputes the commitments under other names) *)
    ("key-share nizk", pair_agree F_vtmf "KeyGenerationProtocol_ComputeNIZK" "KeyGenerationProtocol_VerifyNIZK" "tmcg_mpz_shash" 0 0
                         [("h_i", "foo"); ("t", "t2")]);
    ("cp", pair_agree F_vtmf "CP_Prove" "CP_Verify" "tmcg_mpz_shash" 0 0 []);
    ("or first", pair_agree F_vtmf "OR_ProveFirst" "OR_Verify" "tmcg_mpz_shash" 0 0 []);
    ("or second", pair_agree F_vtmf "OR_ProveSecond" "OR_Verify" "tmcg_mpz_shash" 0 0 []) ].

Definition fs_all_agree : bool := forallb snd fs_agreements.
