(* PgpLenCodecLemmas (C12): index safety of the card / stack importers modelled in CodecModel, for ALL byte strings:
   whatever text is imported, the resulting object has dimensions inside the library limits and every index it
   carries is inside the object; together with the size guard of the cut-and-choose verifiers (fix 517d04b) this
   makes every index of TMCG_MixStack lie inside the stack. *)
From Coq Require Import ZArith NArith List Bool Lia ZifyBool Arith.
From LT Require Import gen_Consts CodecModel CodecLemmas PgpLenModel.
Import ListNotations.
Local Open Scope N_scope.

Lemma read_fields_length n : forall s zs r, read_fields n s = Some (zs, r) -> length zs = n.
Proof.
  induction n as [|n IH]; intros s zs r; cbn [read_fields].
  - intros E; inversion E; reflexivity.
  - destruct (field s bar) as [[f r0]|]; [|discriminate].
    destruct (decode62 f); [|discriminate].
    destruct (read_fields n r0) as [[zs' r']|] eqn:R; [|discriminate].
    intros E; inversion E; subst. cbn. f_equal. eapply IH; eauto.
Qed.

Lemma chunk_shape k w : forall l : list Z, length l = (k * w)%nat ->
  length (chunk k w l) = k /\ Forall (fun row => length row = w) (chunk k w l).
Proof.
  induction k as [|k IH]; intros l Hl; cbn [chunk].
  - split; [reflexivity|constructor].
  - destruct (IH (skipn w l)) as [IL IF]. { rewrite skipn_length. lia. }
    split. { cbn. now rewrite IL. }
    constructor; [|exact IF]. rewrite firstn_length. lia.
Qed.

Lemma import_dim_range s lo hi v r : import_dim s lo hi = Some (v, r) -> lo <= v <= hi.
Proof.
  unfold import_dim. destruct (field s bar) as [[f r0]|]; [|discriminate].
  destruct (strtoul_full f) as [x|]; [|discriminate].
  destruct (N.leb_spec lo x); cbn [andb]; [|discriminate].
  destruct (N.leb_spec x hi); [|discriminate].
  intros E; inversion E; subst. lia.
Qed.

Lemma import_tcard_dims s c : import_tcard s = Some c ->
  (1 <= length c <= Z.to_nat TMCG_MAX_PLAYERS)%nat /\
  exists w, (1 <= w <= Z.to_nat TMCG_MAX_TYPEBITS)%nat /\ Forall (fun row => length row = w) c.
Proof.
  unfold import_tcard. destruct (cm s magic_crd bar) as [r0|]; [|discriminate].
  destruct (import_dim r0 1 (Z.to_N TMCG_MAX_PLAYERS)) as [[k r1]|] eqn:Dk; [|discriminate].
  destruct (import_dim r1 1 (Z.to_N TMCG_MAX_TYPEBITS)) as [[w r2]|] eqn:Dw; [|discriminate].
  destruct (read_fields (N.to_nat k * N.to_nat w) r2) as [[zs r3]|] eqn:R; [|discriminate].
  intros E; inversion E; subst; clear E.
  apply import_dim_range in Dk. apply import_dim_range in Dw.
  apply read_fields_length in R.
  destruct (chunk_shape (N.to_nat k) (N.to_nat w) zs R) as [CL CF].
  rewrite CL. split. { unfold TMCG_MAX_PLAYERS in *. lia. }
  exists (N.to_nat w). split; [unfold TMCG_MAX_TYPEBITS in *; lia|exact CF].
Qed.

Lemma read_cards_length n : forall s cs r, read_cards n s = Some (cs, r) -> length cs = n.
Proof.
  induction n as [|n IH]; intros s cs r; cbn [read_cards].
  - intros E; inversion E; reflexivity.
  - destruct (field s hat) as [[f r0]|]; [|discriminate].
    destruct (import_vcard f); [|discriminate].
    destruct (read_cards n r0) as [[cs' r']|] eqn:R; [|discriminate].
    intros E; inversion E; subst. cbn. f_equal. eapply IH; eauto.
Qed.

Lemma import_size_range s v r : import_size s = Some (v, r) -> 1 <= v <= Z.to_N TMCG_MAX_CARDS.
Proof.
  unfold import_size. destruct (field s hat) as [[f r0]|]; [|discriminate].
  destruct (strtoul_full f) as [x|]; [|discriminate].
  destruct (N.leb_spec 1 x); cbn [andb]; [|discriminate].
  destruct (N.leb_spec x (Z.to_N TMCG_MAX_CARDS)); [|discriminate].
  intros E; inversion E; subst. lia.
Qed.

Lemma import_vstack_size s st : import_vstack [] s = Some st -> (1 <= length st <= Z.to_nat TMCG_MAX_CARDS)%nat.
Proof.
  unfold import_vstack. destruct (cm s magic_stk hat) as [r0|]; [|discriminate].
  destruct (import_size r0) as [[n r1]|] eqn:S; [|discriminate].
  destruct (read_cards (N.to_nat n) r1) as [[cs r2]|] eqn:R; [|discriminate].
  intros E; inversion E; subst; clear E. cbn [app].
  apply import_size_range in S. apply read_cards_length in R. rewrite R.
  unfold TMCG_MAX_CARDS in *. lia.
Qed.

Lemma read_pairs_spec size n : forall s ps r, read_pairs size n s = Some (ps, r) ->
  length ps = n /\ Forall (fun p => fst p < size) ps.
Proof.
  induction n as [|n IH]; intros s ps r; cbn [read_pairs].
  - intros E; inversion E; split; [reflexivity|constructor].
  - destruct (field s hat) as [[f r0]|]; [|discriminate].
    destruct (strtoul_full f) as [idx|]; [|discriminate].
    destruct (N.ltb_spec idx size); [|discriminate].
    destruct (field r0 hat) as [[g r1]|]; [|discriminate].
    destruct (import_vsecret g); [|discriminate].
    destruct (read_pairs size n r1) as [[ps' r']|] eqn:R; [|discriminate].
    intros E; inversion E; subst. destruct (IH _ _ _ R) as [IL IF].
    split; [cbn; now rewrite IL|constructor; [exact H|exact IF]].
Qed.

Lemma import_vstacksecret_indices s ss : import_vstacksecret [] s = Some ss ->
  (1 <= length ss <= Z.to_nat TMCG_MAX_CARDS)%nat /\ Forall (fun p => fst p < N.of_nat (length ss)) ss.
Proof.
  unfold import_vstacksecret. destruct (cm s magic_sts hat) as [r0|]; [|discriminate].
  destruct (import_size r0) as [[n r1]|] eqn:S; [|discriminate].
  destruct (read_pairs n (N.to_nat n) r1) as [[ps r2]|] eqn:R; [|discriminate].
  cbn [app]. destruct (perm_check ps n); [|discriminate].
  intros E; inversion E; subst; clear E.
  apply import_size_range in S. destruct (read_pairs_spec _ _ _ _ _ R) as [RL RF].
  rewrite RL. split. { unfold TMCG_MAX_CARDS in *. lia. }
  rewrite N2Nat.id. exact RF.
Qed.

(* TMCG_MixStack on an imported secret that passed the verifier's size guard: all indices are in range *)
Lemma mix_indices_in_range (s : list (Z * Z)) text ss :
  import_vstacksecret [] text = Some ss -> mix_guard s ss = true -> mix_indices_ok s ss = true.
Proof.
  intros HI HG. apply import_vstacksecret_indices in HI. destruct HI as [_ HF].
  unfold mix_guard in HG. apply Nat.eqb_eq in HG.
  unfold mix_indices_ok. apply forallb_forall. intros i Hi. apply in_seq in Hi.
  destruct (nth_error ss i) as [[j x]|] eqn:E.
  - apply nth_error_In in E. rewrite Forall_forall in HF. specialize (HF _ E). cbn [fst] in HF.
    rewrite <- HG. destruct (N.ltb_spec j (N.of_nat (length ss))); [reflexivity|lia].
  - apply nth_error_None in E. lia.
Qed.

(* without the guard the indices can leave the stack secret: the guard added by 517d04b is necessary *)
Lemma mix_guard_needed_refuted :
  exists (s : list (Z * Z)) text ss,
    import_vstacksecret [] text = Some ss /\ mix_guard s ss = false /\ mix_indices_ok s ss = false.
Proof.
  exists [(1, 2); (3, 4); (5, 6)]%Z, (export_vstacksecret [(1, 7%Z); (0, 8%Z)]), [(1, 7%Z); (0, 8%Z)].
  split; [|split].
  - apply vstacksecret_roundtrip. unfold wf_vstacksecret. vm_compute. repeat split; try lia; try discriminate; repeat constructor.
  - reflexivity.
  - reflexivity.
Qed.
