(* C20 -- proofs about the signature / encryption framing model (PgpSigModel.v) *)
From Coq Require Import ZArith NArith List Bool Lia ZifyBool ZifyN.
From LT Require Import PgpCodecModel PgpCodecLemmas PgpSigModel.
Import ListNotations.
Local Open Scope N_scope.

Ltac Zify.zify_post_hook ::= Z.div_mod_to_equations.

(* ---------- list helpers ---------- *)
Lemma app_inj_len_l (a1 a2 b1 b2 : list N) :
  length a1 = length a2 -> a1 ++ b1 = a2 ++ b2 -> a1 = a2 /\ b1 = b2.
Proof.
  revert a2. induction a1 as [|x a1 IH]; intros [|y a2] Hl H; try discriminate.
  - now split.
  - cbn in H. inversion H; subst. destruct (IH a2) as [-> ->]; auto.
Qed.

Lemma app_inj_len_r (a1 a2 b1 b2 : list N) :
  length b1 = length b2 -> a1 ++ b1 = a2 ++ b2 -> a1 = a2 /\ b1 = b2.
Proof.
  intros Hl H. assert (length a1 = length a2).
  { apply (f_equal (@length N)) in H. rewrite !app_length in H. lia. }
  now apply app_inj_len_l.
Qed.

Lemma octets_eqb_eq a b : octets_eqb a b = true <-> a = b.
Proof.
  revert b. induction a as [|x a IH]; intros [|y b]; cbn; split; intro H; try discriminate; try reflexivity.
  - apply andb_true_iff in H as [H1 H2]. apply N.eqb_eq in H1. apply IH in H2. now subst.
  - inversion H; subst. rewrite N.eqb_refl. now apply IH.
Qed.

Lemma mod_div_step x y B M : B <> 0 -> M <> 0 ->
  x mod B = y mod B -> (x / B) mod M = (y / B) mod M -> x mod (B * M) = y mod (B * M).
Proof. intros HB HM H0 H1. rewrite !N.mod_mul_r by assumption. now rewrite H0, H1. Qed.

Lemma be2_inj a b : a < 65536 -> b < 65536 -> be2 a = be2 b -> a = b.
Proof. unfold be2. intros Ha Hb H. inversion H. lia. Qed.
Lemma be4_mod a b : be4 a = be4 b -> a mod 4294967296 = b mod 4294967296.
Proof.
  unfold be4. intro H. inversion H as [[E3 E2 E1 E0]].
  change 16777216 with (256 * (256 * 256)) in E3. change 65536 with (256 * 256) in E2.
  rewrite <- (N.div_div a), <- (N.div_div b) in E3 by (vm_compute; discriminate).
  rewrite <- (N.div_div (a / 256)), <- (N.div_div (b / 256)) in E3 by discriminate.
  rewrite <- !N.div_div in E2 by discriminate.
  change 4294967296 with (256 * (256 * (256 * 256))).
  apply mod_div_step; [discriminate|vm_compute; discriminate|exact E0|].
  apply mod_div_step; [discriminate|vm_compute; discriminate|exact E1|].
  apply mod_div_step; [discriminate|discriminate|exact E2|exact E3].
Qed.
Lemma be4_inj a b : a < 4294967296 -> b < 4294967296 -> be4 a = be4 b -> a = b.
Proof. intros Ha Hb H. apply be4_mod in H. now rewrite !N.mod_small in H. Qed.
Lemma be4_length v : length (be4 v) = 4%nat. Proof. reflexivity. Qed.
Lemma be2_length v : length (be2 v) = 2%nat. Proof. reflexivity. Qed.
Lemma be8_length v : length (be8 v) = 8%nat. Proof. reflexivity. Qed.
Lemma be8_inj a b : a < 18446744073709551616 -> b < 18446744073709551616 -> be8 a = be8 b -> a = b.
Proof.
  unfold be8. intros Ha Hb H. apply app_inj_len_l in H as [H1 H2]; [|reflexivity].
  apply be4_mod in H1, H2.
  assert (E : a mod (4294967296 * 4294967296) = b mod (4294967296 * 4294967296))
    by (apply mod_div_step; try discriminate; assumption).
  change (4294967296 * 4294967296) with 18446744073709551616 in E. now rewrite !N.mod_small in E.
Qed.

Lemma len_eq_length (a b : list N) : len a = len b -> length a = length b.
Proof. unfold len. lia. Qed.

(* ---------- what a signature hashes ---------- *)
(* the hashed octets determine the trailer (version, type, algorithms, hashed subpackets) and the signed octets *)
Theorem hash_input_v4_inj : forall o1 o2 t1 t2, len t1 < 4294967296 -> len t2 < 4294967296 ->
  hash_input_v4 o1 t1 = hash_input_v4 o2 t2 -> t1 = t2 /\ signed_octets_v4 o1 = signed_octets_v4 o2.
Proof.
  intros o1 o2 t1 t2 H1 H2 H. unfold hash_input_v4, tail_v4 in H.
  replace (signed_octets_v4 o1 ++ t1 ++ 4 :: 255 :: be4 (len t1))
    with ((signed_octets_v4 o1 ++ t1 ++ [4; 255]) ++ be4 (len t1)) in H by (rewrite <- !app_assoc; reflexivity).
  replace (signed_octets_v4 o2 ++ t2 ++ 4 :: 255 :: be4 (len t2))
    with ((signed_octets_v4 o2 ++ t2 ++ [4; 255]) ++ be4 (len t2)) in H by (rewrite <- !app_assoc; reflexivity).
  apply app_inj_len_r in H as [Ha Hb]; [|reflexivity].
  apply be4_inj in Hb; try assumption. apply len_eq_length in Hb.
  apply app_inj_len_r in Ha as [Hs Ht]; [|rewrite !app_length; cbn; lia].
  apply app_inj_len_r in Ht as [Ht _]; [|reflexivity]. now split.
Qed.

Theorem hash_input_v5_inj : forall o1 o2 t1 t2, len t1 < 18446744073709551616 -> len t2 < 18446744073709551616 ->
  hash_input_v5 o1 t1 = hash_input_v5 o2 t2 -> t1 = t2 /\ signed_octets_v5 o1 = signed_octets_v5 o2.
Proof.
  intros o1 o2 t1 t2 H1 H2 H. unfold hash_input_v5, tail_v5 in H.
  replace (signed_octets_v5 o1 ++ t1 ++ 5 :: 255 :: be8 (len t1))
    with ((signed_octets_v5 o1 ++ t1 ++ [5; 255]) ++ be8 (len t1)) in H by (rewrite <- !app_assoc; reflexivity).
  replace (signed_octets_v5 o2 ++ t2 ++ 5 :: 255 :: be8 (len t2))
    with ((signed_octets_v5 o2 ++ t2 ++ [5; 255]) ++ be8 (len t2)) in H by (rewrite <- !app_assoc; reflexivity).
  apply app_inj_len_r in H as [Ha Hb]; [|reflexivity].
  apply be8_inj in Hb; try assumption. apply len_eq_length in Hb.
  apply app_inj_len_r in Ha as [Hs Ht]; [|rewrite !app_length; cbn; lia].
  apply app_inj_len_r in Ht as [Ht _]; [|reflexivity]. now split.
Qed.

(* every field of the trailer is recovered: a change of type, algorithm or any hashed subpacket octet changes it *)
Theorem sig_trailer_v4_inj : forall ty1 pk1 h1 hs1 ty2 pk2 h2 hs2,
  sig_trailer_v4 ty1 pk1 h1 hs1 = sig_trailer_v4 ty2 pk2 h2 hs2 -> ty1 = ty2 /\ pk1 = pk2 /\ h1 = h2 /\ hs1 = hs2.
Proof.
  unfold sig_trailer_v4, be2. intros. cbn [app] in H. inversion H; subst. repeat split; reflexivity.
Qed.

Lemma key_frame_v4_inj k1 k2 r1 r2 : len k1 < 65536 -> len k2 < 65536 ->
  key_frame_v4 k1 ++ r1 = key_frame_v4 k2 ++ r2 -> k1 = k2 /\ r1 = r2.
Proof.
  unfold key_frame_v4, be2. intros H1 H2 H. cbn [app] in H. inversion H as [[Ea Eb Hr]].
  assert (Hb : len k1 = len k2) by lia. apply len_eq_length in Hb.
  now apply app_inj_len_l in Hr.
Qed.

(* certifications bind key and user ID; bindings bind both keys (key bodies are shorter than 2^16 octets) *)
Theorem signed_octets_cert_inj : forall k1 u1 k2 u2, len k1 < 65536 -> len k2 < 65536 ->
  signed_octets_v4 (SoCertUid k1 u1) = signed_octets_v4 (SoCertUid k2 u2) -> k1 = k2 /\ u1 = u2.
Proof.
  intros k1 u1 k2 u2 H1 H2 H. cbn [signed_octets_v4] in H.
  apply key_frame_v4_inj in H as [Hk Hr]; try assumption. split; [assumption|].
  unfold be4 in Hr. cbn [app] in Hr. now inversion Hr.
Qed.

Theorem signed_octets_subkey_inj : forall p1 s1 p2 s2,
  len p1 < 65536 -> len p2 < 65536 -> len s1 < 65536 -> len s2 < 65536 ->
  signed_octets_v4 (SoSubkey p1 s1) = signed_octets_v4 (SoSubkey p2 s2) -> p1 = p2 /\ s1 = s2.
Proof.
  intros p1 s1 p2 s2 H1 H2 H3 H4 H. cbn [signed_octets_v4] in H.
  apply key_frame_v4_inj in H as [Hk Hr]; try assumption. split; [assumption|].
  rewrite <- (app_nil_r (key_frame_v4 s1)), <- (app_nil_r (key_frame_v4 s2)) in Hr.
  now apply key_frame_v4_inj in Hr as [? _].
Qed.

(* a user ID certification and a user attribute certification never hash the same octets *)
Theorem signed_octets_uid_uat_distinct : forall k1 u1 k2 u2, len k1 < 65536 -> len k2 < 65536 ->
  signed_octets_v4 (SoCertUid k1 u1) <> signed_octets_v4 (SoCertUat k2 u2).
Proof.
  intros k1 u1 k2 u2 H1 H2 H. cbn [signed_octets_v4] in H.
  apply key_frame_v4_inj in H as [_ Hr]; try assumption. discriminate.
Qed.

(* canonical text: already canonical text is left alone *)
Lemma text_canon_from_idem last d : text_canon_from last (text_canon_from last d) = text_canon_from last d.
Proof.
  revert last. induction d as [|c r IH]; intro last; [reflexivity|].
  cbn [text_canon_from]. destruct (N.eqb_spec c 10) as [->|Hc]; cbn [andb].
  - destruct (N.eqb_spec last 13) as [->|Hl]; cbn [negb app text_canon_from N.eqb Pos.eqb andb].
    + now rewrite IH.
    + replace (last =? 13) with false by lia. cbn [negb app text_canon_from N.eqb Pos.eqb andb]. now rewrite IH.
  - cbn [app text_canon_from]. replace (c =? 10) with false by lia. cbn [andb app]. now rewrite IH.
Qed.
Theorem text_canon_idem : forall d, text_canon (text_canon d) = text_canon d.
Proof. intro d. apply text_canon_from_idem. Qed.

(* canonical text: the output is canonical, canonical text is left unchanged (so binary and text signatures hash the
   same octets exactly for documents whose line ends are all CR LF) *)
Lemma text_canon_from_ok last d : crlf_okb last (text_canon_from last d) = true.
Proof.
  revert last. induction d as [|c r IH]; intro last; [reflexivity|]. cbn [text_canon_from].
  destruct (N.eqb_spec c 10) as [->|Hc]; cbn [andb].
  - destruct (N.eqb_spec last 13) as [->|Hl]; cbn [negb app crlf_okb N.eqb Pos.eqb orb andb]; [apply IH|].
    rewrite IH. destruct (last =? 13); reflexivity.
  - cbn [app crlf_okb]. replace (c =? 10) with false by lia. cbn [negb orb andb]. apply IH.
Qed.
Theorem text_canon_canonical : forall d, canonical_text (text_canon d) = true.
Proof. intro d. apply text_canon_from_ok. Qed.

Lemma text_canon_from_fixed last d : crlf_okb last d = true -> text_canon_from last d = d.
Proof.
  revert last. induction d as [|c r IH]; intros last H; [reflexivity|]. cbn [crlf_okb text_canon_from] in *.
  apply andb_true_iff in H as [H1 H2]. rewrite (IH c H2).
  destruct (c =? 10); cbn [negb orb andb] in *; [rewrite H1; reflexivity|reflexivity].
Qed.
Theorem text_canon_fixed : forall d, canonical_text d = true -> text_canon d = d.
Proof. intro d. apply text_canon_from_fixed. Qed.

(* version 3 document signatures: five fixed trailer octets, the hashed octets still determine data, type and time *)
Theorem hash_input_v3_doc_inj : forall d1 d2 ty1 ty2 t1 t2, t1 < 4294967296 -> t2 < 4294967296 ->
  hash_input_v3 (SoBinary d1) (sig_trailer_v3 ty1 t1) = hash_input_v3 (SoBinary d2) (sig_trailer_v3 ty2 t2) ->
  d1 = d2 /\ ty1 = ty2 /\ t1 = t2.
Proof.
  intros d1 d2 ty1 ty2 t1 t2 H1 H2 H. unfold hash_input_v3, sig_trailer_v3 in H. cbn [signed_octets_v3 signed_octets_v4] in H.
  apply app_inj_len_r in H as [Hd Ht]; [|reflexivity]. split; [assumption|].
  unfold be4 in Ht. inversion Ht as [[Hty E3 E2 E1 E0]]. split; [reflexivity|]. apply be4_inj; try assumption. unfold be4. now rewrite E3, E2, E1, E0.
Qed.

(* ---------- MPI normalisation ---------- *)
Lemma be_value_zeros k l : be_value (repeat 0 k ++ l) = be_value l.
Proof.
  unfold be_value. rewrite fold_left_app. replace (fold_left (fun acc b : N => N.shiftl acc 8 + b) (repeat 0 k) 0) with 0; [reflexivity|].
  induction k; cbn [repeat fold_left]; [reflexivity|]. cbn. exact IHk.
Qed.

Lemma be_value_sexp_mpi v : be_value (sexp_mpi v) = v.
Proof. unfold sexp_mpi. rewrite be_value_bytes. apply N.mod_small. apply size_bound. Qed.

(* whatever leading zero octets the MPI encoding dropped, the primitive receives octet strings with exactly the values
   of the two MPIs, of the fixed width 32 whenever the value is shorter: normalisation cannot change the verdict of a
   primitive that reads R and S as 32-octet strings *)
Theorem eddsa_sigval_values : forall r s a b, eddsa_sigval r s = Some (a, b) -> be_value a = r /\ be_value b = s.
Proof.
  intros r s a b H. unfold eddsa_sigval in H.
  destruct ((mpi_octets r =? 0) || (32 <? mpi_octets r) || (mpi_octets s =? 0) || (32 <? mpi_octets s))%nat eqn:C; [discriminate|].
  inversion H; subst. unfold eddsa_component.
  assert (P : forall v, (mpi_octets v <? 32)%nat = true -> be_value (be_bytes 32 v) = v).
  { intros v Hv. rewrite be_value_bytes. apply N.mod_small. eapply N.lt_le_trans; [apply size_bound|].
    apply N.pow_le_mono_r; [discriminate|]. apply Nat.ltb_lt in Hv. lia. }
  split.
  - destruct (mpi_octets r <? 32)%nat eqn:E; [now apply P|apply be_value_sexp_mpi].
  - destruct (mpi_octets s <? 32)%nat eqn:E; [now apply P|apply be_value_sexp_mpi].
Qed.

Theorem eddsa_sigval_padded : forall r s a b, eddsa_sigval r s = Some (a, b) ->
  ((mpi_octets r < 32)%nat -> length a = 32%nat) /\ ((mpi_octets s < 32)%nat -> length b = 32%nat).
Proof.
  intros r s a b H. unfold eddsa_sigval in H.
  destruct ((mpi_octets r =? 0) || (32 <? mpi_octets r) || (mpi_octets s =? 0) || (32 <? mpi_octets s))%nat; [discriminate|].
  inversion H; subst. unfold eddsa_component. split; intro L.
  - replace (mpi_octets r <? 32)%nat with true by lia. apply be_bytes_length.
  - replace (mpi_octets s <? 32)%nat with true by lia. apply be_bytes_length.
Qed.

(* ---------- validity ---------- *)
Theorem validity_rules_iff : forall current creation expiration keycreation h,
  check_validity current creation expiration keycreation h = Valid <->
  ((expiration = 0 \/ current <= creation + expiration) /\ keycreation <= creation /\
   creation <= current + 90000 /\ strong_hash h = true)%Z.
Proof.
  intros. unfold check_validity, future_slack.
  destruct (Z.eqb_spec expiration 0), (Z.ltb_spec (creation + expiration) current),
    (Z.ltb_spec creation keycreation), (Z.ltb_spec (current + 60 * 60 * 25) creation), (strong_hash h);
    cbn [negb andb]; split; intro HX; try discriminate; try reflexivity; try lia; try (repeat split; lia);
    try (destruct HX as [? [? [? ?]]]; try discriminate; lia).
Qed.

Theorem validity_refusals : forall current creation expiration keycreation h,
  (expiration <> 0 /\ creation + expiration < current -> check_validity current creation expiration keycreation h = Expired)%Z /\
  ((expiration = 0 \/ current <= creation + expiration) /\ creation < keycreation ->
     check_validity current creation expiration keycreation h = OlderThanKey)%Z /\
  ((expiration = 0 \/ current <= creation + expiration) /\ keycreation <= creation /\ current + 90000 < creation ->
     check_validity current creation expiration keycreation h = FarFuture)%Z /\
  ((expiration = 0 \/ current <= creation + expiration) /\ keycreation <= creation /\ creation <= current + 90000 /\
     strong_hash h = false -> check_validity current creation expiration keycreation h = WeakHash)%Z.
Proof.
  intros. unfold check_validity, future_slack.
  destruct (Z.eqb_spec expiration 0), (Z.ltb_spec (creation + expiration) current),
    (Z.ltb_spec creation keycreation), (Z.ltb_spec (current + 60 * 60 * 25) creation), (strong_hash h);
    cbn [negb andb]; repeat split; intro HX; try reflexivity; try lia;
    try (destruct HX as [? [? [? ?]]]; discriminate).
Qed.

(* MD5, SHA-1, RIPEMD-160 and SHA-224 (and every unknown code) are refused *)
Lemma weak_hashes_refused : strong_hash 1 = false /\ strong_hash 2 = false /\ strong_hash 3 = false /\ strong_hash 11 = false
  /\ strong_hash 0 = false.
Proof. vm_compute. repeat split. Qed.

(* a signature is only accepted if the primitive accepts the recomputed hash; a wrong left-16-bits field is refused *)
Theorem check_integrity_sound : forall verify pk left hash,
  check_integrity verify pk left hash = true ->
  sig_algo_of pk <> SigUnsupported /\ verify (sig_algo_of pk) hash = true /\ (length left = 2%nat -> left = left16 hash).
Proof.
  intros verify pk left hash H. unfold check_integrity in H.
  destruct (Nat.eqb_spec (length left) 2) as [Hl|Hl]; cbn [andb] in H.
  - destruct (octets_eqb left (left16 hash)) eqn:E; cbn [negb] in H; [|discriminate].
    apply octets_eqb_eq in E. destruct (sig_algo_of pk); try discriminate; repeat split; auto; discriminate.
  - destruct (sig_algo_of pk); try discriminate; repeat split; auto; try discriminate; intro; lia.
Qed.

(* ---------- decryption ---------- *)
Lemma split3 (a s : list N) : (2 <= length s)%nat ->
  a ++ s = a ++ [nth (length a) (a ++ s) 0; nth (length a + 1) (a ++ s) 0] ++ skipn (length a + 2) (a ++ s).
Proof.
  intro H. f_equal. rewrite !app_nth2 by lia. rewrite skipn_app, skipn_all2 by lia.
  replace (length a - length a)%nat with 0%nat by lia.
  replace (length a + 1 - length a)%nat with 1%nat by lia.
  replace (length a + 2 - length a)%nat with 2%nat by lia.
  destruct s as [|x [|y r]]; cbn in H; try lia. reflexivity.
Qed.

Lemma split_mdc (out : list N) : (22 <= length out)%nat ->
  out = firstn (length out - 22) out ++ [nth (length out - 22) out 0; nth (length out - 21) out 0]
        ++ skipn (length out - 20) out /\ length (skipn (length out - 20) out) = 20%nat.
Proof.
  intro H. split; [|rewrite skipn_length; lia].
  set (n := (length out - 22)%nat).
  assert (Ha : length (firstn n out) = n) by (apply firstn_length_le; lia).
  assert (Hs : (2 <= length (skipn n out))%nat) by (rewrite skipn_length; lia).
  pose proof (split3 (firstn n out) (skipn n out) Hs) as E.
  rewrite firstn_skipn, Ha in E.
  replace (length out - 21)%nat with (n + 1)%nat by lia.
  replace (length out - 20)%nat with (n + 2)%nat by lia. exact E.
Qed.

(* plaintext is only released under integrity protection: either the AEAD layer authenticated everything,
   or the plaintext ends with an MDC packet whose SHA-1 over prefix, body and 0xD3 0x14 is correct *)
Theorem decrypt_requires_integrity : forall sha1 cfb aead ok m out,
  decrypt sha1 cfb aead ok m = DecOk out ->
  ok = true /\ enc_data m <> [] /\
  ((have_aead m = true /\ aead (enc_data m) = Some out) \/
   (have_aead m = false /\ have_seipd m = true /\
    exists prefix body mdc, cfb (enc_data m) = Some (prefix, out) /\ out = body ++ [211; 20] ++ mdc /\
      length mdc = 20%nat /\ mdc = sha1 (mdc_input prefix body))).
Proof.
  intros sha1 cfb aead ok m out H. unfold decrypt in H.
  destruct (enc_data m) as [|e0 er] eqn:Ed; [discriminate|].
  destruct ok; cbn [negb] in H; [|discriminate].
  split; [reflexivity|]. split; [discriminate|].
  destruct (have_aead m).
  - left. split; [reflexivity|]. destruct (aead (e0 :: er)); inversion H; reflexivity.
  - right. split; [reflexivity|].
    destruct (cfb (e0 :: er)) as [[prefix o]|] eqn:Ec; [|discriminate].
    destruct (have_seipd m); [|discriminate]. split; [reflexivity|].
    destruct (Nat.ltb_spec (length o) 22) as [Hn|Hn]; [discriminate|].
    destruct ((nth (length o - 22) o 0 =? 211) && (nth (length o - 21) o 0 =? 20)) eqn:Et; cbn [negb] in H; [|discriminate].
    destruct (check_mdc sha1 true prefix (skipn (length o - 20) o) (firstn (length o - 22) o)) eqn:Em; [|discriminate].
    inversion H; subst o. clear H.
    apply andb_true_iff in Et as [E1 E2]. apply N.eqb_eq in E1, E2.
    unfold check_mdc in Em. repeat (apply andb_true_iff in Em as [Em ?]).
    match goal with H : octets_eqb _ _ = true |- _ => apply octets_eqb_eq in H; rename H into Hm end.
    destruct (split_mdc out Hn) as [Hs Hl]. rewrite E1, E2 in Hs.
    exists prefix, (firstn (length out - 22) out), (skipn (length out - 20) out).
    repeat split; assumption.
Qed.

(* data without integrity protection (tag 9, or nothing) is never released *)
Theorem decrypt_unprotected_refused : forall sha1 cfb aead ok m,
  have_aead m = false -> have_seipd m = false -> forall out, decrypt sha1 cfb aead ok m <> DecOk out.
Proof.
  intros sha1 cfb aead ok m Ha Hs out H. apply decrypt_requires_integrity in H as [_ [_ [[H _]|[_ [H _]]]]]; congruence.
Qed.

(* ---------- AEAD chunk binding ---------- *)
Theorem chunk_ad_inj : forall pre i j, i < 18446744073709551616 -> j < 18446744073709551616 ->
  chunk_ad pre i = chunk_ad pre j -> i = j.
Proof. unfold chunk_ad. intros pre i j Hi Hj H. apply app_inv_head in H. now apply be8_inj. Qed.

Theorem final_ad_inj : forall pre i j s t,
  i < 18446744073709551616 -> j < 18446744073709551616 -> s < 18446744073709551616 -> t < 18446744073709551616 ->
  final_ad pre i s = final_ad pre j t -> i = j /\ s = t.
Proof.
  unfold final_ad. intros pre i j s t Hi Hj Hs Ht H. apply app_inv_head in H.
  apply app_inj_len_l in H as [H1 H2]; [|reflexivity]. split; now apply be8_inj.
Qed.

(* a chunk's associated data is never the associated data of the final tag *)
Theorem chunk_final_ad_distinct : forall pre i j t, chunk_ad pre i <> final_ad pre j t.
Proof.
  unfold chunk_ad, final_ad. intros pre i j t H. apply app_inv_head in H.
  apply (f_equal (@length N)) in H. rewrite app_length, !be8_length in H. lia.
Qed.

(* the nonce schedule as implemented repeats: chunk 3 (and the final tag of a three-chunk message) uses the
   nonce of chunk 0, and from chunk 2 on it differs from the schedule of RFC 4880bis *)
Theorem chunk_nonce_unique_refuted : forall iv, chunk_nonce_impl iv 3 = chunk_nonce_impl iv 0.
Proof. intro iv. unfold chunk_nonce_impl. replace (cum_xor 3) with (cum_xor 0) by (vm_compute; reflexivity). reflexivity. Qed.

Lemma chunk_nonce_rfc_deviation :
  chunk_nonce_impl (repeat 0 16) 2 <> chunk_nonce_rfc (repeat 0 16) 2 /\
  chunk_nonce_impl (repeat 0 16) 1 = chunk_nonce_rfc (repeat 0 16) 1.
Proof. vm_compute. split; [discriminate|reflexivity]. Qed.

(* chunk arithmetic: the decoder finds the number of full chunks the encoder produced *)
Theorem aead_chunk_count : forall cs n, 1 <= n ->
  dec_full_chunks cs (enc_ct_len cs n) = enc_full_chunks cs n.
Proof.
  intros cs n Hn. unfold dec_full_chunks, enc_ct_len, enc_full_chunks.
  set (d := chunk_dim cs). assert (Hd : 1 <= d) by (unfold d, chunk_dim; pose proof (N.pow_nonzero 2 (cs + 6)); lia).
  set (q := (n - 1) / d).
  assert (Hq : q * d <= n - 1 < (q + 1) * d).
  { unfold q. pose proof (N.div_mod (n - 1) d). pose proof (N.mod_lt (n - 1) d). nia. }
  clearbody q. clearbody d.
  symmetry. apply N.div_unique with (r := n - 1 - q * d + 16); nia.
Qed.
