(* TsigDssModel: the signing algebra of CanettiGennaroJareckiKrawczykRabinDSS::Sign over Z_q (definitions only).
     Step 1f  (CanettiGennaroJareckiKrawczykRabinASTC.cc:3774-3964): mu = k a from the signers' products v_j = k_j a_j
     Step 2f  (…:4576-4763): s = k (m + x r) from the products v'_j = k_j (m + x_j r)
   Every signer j (abscissa x_j = index + 1, the list S, at least 2t+1 of them) has shared its product v_j with a
   degree-t polynomial f_j (Pedersen VSS; f_j(0) = v_j; for a signer exposed in step 1e the constant polynomial).
   lambda_j = prod_{l<>j} x_l * (prod_{l<>j} (x_l - x_j))^-1 mod q                               (…:3800-3825)
   every party with abscissa x_i broadcasts  sum_j lambda_j * f_j(x_i) mod q                          (…:3826-3845)
   the shares that match the public commitments (own share first) are interpolated at 0 from t+1 parties (…:3846-3956)
   r = ((g^a)^(mu^-1) mod p) mod q                                                                  (…:3957-3964)
   The same combination with v'_j gives s.  lagrange0 / lag_num / lag_den / poly_eval are the VssModel functions
   (the reconstruction code is the same formula). *)
From Coq Require Import ZArith List Bool.
From LT Require Import Zbase VssModel CoinFlipModel TsigModel.
Import ListNotations.
Local Open Scope Z_scope.

Definition dss_lambda (q : Z) (S : list Z) (xj : Z) : option Z :=
  match invm (lag_den S xj) q with
  | Some iv => Some ((lag_num S xj * iv) mod q)
  | None => None
  end.

(* all coefficients, or None when one denominator is not invertible ("cannot invert LHS": Sign returns false) *)
Fixpoint dss_lambdas_of (q : Z) (S : list Z) (js : list Z) : option (list Z) :=
  match js with
  | [] => Some []
  | xj :: r => match dss_lambda q S xj, dss_lambdas_of q S r with
               | Some l, Some ls => Some (l :: ls)
               | _, _ => None
               end
  end.
Definition dss_lambdas (q : Z) (S : list Z) : option (list Z) := dss_lambdas_of q S S.

(* foo = (foo + (lambda_j * sigma_j) mod q) mod q over the signers in order *)
Definition dss_comb (q : Z) (lams shs : list Z) : Z :=
  fold_left (fun acc ls => (acc + (fst ls * snd ls) mod q) mod q) (combine lams shs) 0.

(* the value a party with abscissa xi broadcasts: fs = the signers' sharing polynomials (coefficients, low to high) *)
Definition dss_party_share (q : Z) (lams : list Z) (fs : list (list Z)) (xi : Z) : Z :=
  dss_comb q lams (map (fun f => poly_eval q f xi) fs).

(* the interpolated value from the parties R (abscissae; the code takes its own share and the first t verified ones) *)
Definition dss_interp (q : Z) (S : list Z) (fs : list (list Z)) (R : list Z) : option Z :=
  match dss_lambdas q S with
  | Some lams => lagrange0 q (map (fun xi => (xi, dss_party_share q lams fs xi)) R)
  | None => None
  end.

(* the products the signers share: v_j = k_j a_j mod q and v'_j = k_j ((x_j r) mod q + m) mod q  (…:3360, 3972-3975, 4160) *)
Definition dss_v (q kj aj : Z) : Z := (kj * aj) mod q.
Definition dss_aprime (q xj r m : Z) : Z := ((xj * r) mod q + m) mod q.

(* a complete signing run: Fk, Fa, Fx = the joint polynomials of k, a and the key x; fs, fs' the sharing polynomials of the
   v_j resp. v'_j; R1, R2 the parties whose broadcast shares a party interpolates.  None = Sign returns false. *)
Definition dss_sign (G : group) (Fa : list Z) (S : list Z) (fs fs' : list (list Z)) (R1 R2 : list Z) : option (Z * Z) :=
  let q := gq G in
  match dss_interp q S fs R1 with
  | None => None
  | Some mu =>
    match invm mu q with
    | None => None
    | Some mi =>
      let gA := powm (gg G) (poly_eval q Fa 0) (gp G) in
      let r := (powm gA mi (gp G)) mod q in
      match dss_interp q S fs' R2 with
      | None => None
      | Some s => Some (r, s)
      end
    end
  end.

(* the direct form used by the correspondence records: mu (resp. s) as the Lagrange value of the points (x_j, v_j) *)
Definition dss_lincomb (q : Z) (S vs : list Z) : option Z := lagrange0 q (combine S vs).
Definition dss_r_from (G : group) (gA mu : Z) : option Z :=
  match invm mu (gq G) with Some mi => Some ((powm gA mi (gp G)) mod gq G) | None => None end.
