(* C06 -- Parameter validation accepts exactly well-formed groups.
   Property theorems only: each is closed by `exact <lemma>` and followed by Print Assumptions.
   is_prime (mpz_probab_prime_p), H (tmcg_mpz_shash) and jac (mpz_jacobi) are idealised primitives: they are
   universally quantified, the correctness of the primality test is a premise. *)
From Coq Require Import ZArith Znumtheory List Lia.
From LT Require Import Zbase CodecModel CheckGroupModel CheckGroupLemmas.
Import ListNotations.
Local Open Scope Z_scope.

Definition prime_test_correct (is_prime : Z -> bool) : Prop :=
  forall n, 0 <= n -> (is_prime n = true <-> prime n).

(* BarnettSmartVTMF_dlog::CheckGroup returns true exactly for the well-formed sets: sizes, p = qk+1, p and q prime,
   q does not divide k, 1 < g < p-1, g^q = 1, and (if demanded) g is the verifiably derived generator *)
Theorem C06_check_group_iff : forall is_prime H, prime_test_correct is_prime ->
  forall fuel F G canonical p q g k, 0 < q ->
  (check_group_vtmf is_prime H fuel F G canonical p q g k = Accept <-> wf_group H fuel F G canonical p q g k).
Proof. exact check_group_vtmf_textbook. Qed.
Print Assumptions C06_check_group_iff.

(* the same on all integers, incl. q <= 0 (the order test then reads "mpz_powm g q p = 1") *)
Theorem C06_check_group_iff_all_integers : forall is_prime H, prime_test_correct is_prime ->
  forall fuel F G canonical p q g k,
  (check_group_vtmf is_prime H fuel F G canonical p q g k = Accept <-> wf_vtmf H fuel F G canonical p q g k).
Proof. exact check_group_vtmf_iff. Qed.
Print Assumptions C06_check_group_iff_all_integers.

Theorem C06_check_group_no_crash : forall is_prime H, prime_test_correct is_prime ->
  forall fuel F G canonical p q g k, 0 < q -> 0 < k ->
  check_group_vtmf is_prime H fuel F G canonical p q g k <> Crash.
Proof. exact check_group_vtmf_no_crash. Qed.
Print Assumptions C06_check_group_no_crash.

(* "not of order q" is refused: an accepted generator has order exactly q *)
Theorem C06_generator_order_exact : forall H fuel F G canonical p q g k, wf_group H fuel F G canonical p q g k ->
  forall e, 0 <= e -> (g ^ e mod p = 1 <-> (q | e)).
Proof. exact gen_order_exact. Qed.
Print Assumptions C06_generator_order_exact.

(* CheckElement accepts exactly the q-torsion of 1..p-1 *)
Theorem C06_check_element_iff : forall p q a, 0 <= q ->
  (check_element p q a = Accept <-> 0 < a < p /\ a ^ q mod p = 1).
Proof. exact check_element_iff. Qed.
Print Assumptions C06_check_element_iff.

Theorem C06_check_element_iff_all_integers : forall p q a,
  check_element p q a = Accept <-> 0 < a < p /\ mpz_powm a q p = Some 1.
Proof. exact check_element_iff_raw. Qed.
Print Assumptions C06_check_element_iff_all_integers.

(* ... which contains every power of the accepted generator and is closed under the group operation.
   (That it contains nothing else -- cyclicity of the q-torsion -- is not proved here; the harness checks it
   exhaustively for small groups.) *)
Theorem C06_subgroup_accepted_partial : forall H fuel F G canonical p q g k, wf_group H fuel F G canonical p q g k ->
  forall x, 0 <= x -> check_element p q (powm g x p) = Accept.
Proof. exact subgroup_accepted. Qed.
Print Assumptions C06_subgroup_accepted_partial.

Theorem C06_element_mul_closed : forall p q a b, prime p -> 0 <= q ->
  check_element p q a = Accept -> check_element p q b = Accept -> check_element p q (a * b mod p) = Accept.
Proof. exact element_mul_closed. Qed.
Print Assumptions C06_element_mul_closed.

(* the classes with several generators (PedersenCommitmentScheme and GrothSKC/VSSHE through it: k stored, h :: g_1..g_n;
   VRHE, PedersenVSS, the DKG/RVSS/ZVSS/DSS/NTS classes, JL-RVSS/EDCF, trapdoor commitment, EOTP: k derived) *)
Theorem C06_check_group_gens_iff : forall is_prime H, prime_test_correct is_prime ->
  forall fuel F G derive_k canonical p q k0 h gs,
  (check_group_gens is_prime H fuel F G derive_k canonical p q k0 h gs = Accept
   <-> wf_gens H fuel F G derive_k canonical p q k0 h gs).
Proof. exact check_group_gens_iff. Qed.
Print Assumptions C06_check_group_gens_iff.

(* quadratic-residue group: p = 2q+1, p = 7 mod 8, Jacobi symbol, shifted generator 2^(2^(|p|-E)) *)
Theorem C06_check_group_qr_iff : forall is_prime, prime_test_correct is_prime ->
  forall jac F G E canonical p q g,
  (check_group_qr is_prime jac F G E canonical p q g = Accept <-> wf_qr jac F G E canonical p q g).
Proof. exact check_group_qr_iff. Qed.
Print Assumptions C06_check_group_qr_iff.

Theorem C06_qr_generator_order : forall jac F G E canonical p q g,
  (forall a m, prime m -> 2 < m -> 0 < a < m -> (jac a m = 1 <-> a ^ ((m - 1) / 2) mod m = 1)) ->
  wf_qr jac F G E canonical p q g -> g ^ q mod p = 1.
Proof. exact qr_generator_order. Qed.
Print Assumptions C06_qr_generator_order.

Theorem C06_check_element_qr_iff : forall jac p a,
  check_element_qr jac p a = true <-> 0 < a < p /\ jac a p = 1.
Proof. exact check_element_qr_iff. Qed.
Print Assumptions C06_check_element_qr_iff.

(* the model of mpz_invert used by mpz_powm for negative exponents is a correct and complete inverse *)
Theorem C06_invm_spec : forall a p, 0 < p ->
  match invm a p with
  | Some i => 0 <= i < p /\ (a * i) mod p = 1 mod p
  | None => Z.gcd a p <> 1
  end.
Proof. exact invm_spec. Qed.
Print Assumptions C06_invm_spec.

(* observation outside the catalogue of the property: the code does not insist on q > 0.  (p, -q, g, -k) passes
   whenever (p, q, g, k) does; the witness below is p = 23, q = -11, g = 2, k = -2. *)
Theorem C06_positive_order_refuted :
  exists p q g k, q < 0 /\ check_group_vtmf trial_prime (fun _ => 0) 4 5 4 false p q g k = Accept.
Proof. exists 23, (-11), 2, (-2). split; [lia|reflexivity]. Qed.
Print Assumptions C06_positive_order_refuted.

(* ---- non-vacuity ------------------------------------------------------------------------------------ *)
Lemma prime_small n : trial_prime n = true -> n < 50 -> prime n.
Proof.
  intros T B. assert (2 <= n) by (unfold trial_prime in T; apply andb_prop in T; destruct T as [T _]; lia).
  apply prime_intro; [lia|]. intros m Hm. apply Zgcd_1_rel_prime.
  assert (C : n = 2 \/ n = 3 \/ n = 5 \/ n = 7 \/ n = 11 \/ n = 13 \/ n = 17 \/ n = 19 \/ n = 23 \/ n = 29 \/
              n = 31 \/ n = 37 \/ n = 41 \/ n = 43 \/ n = 47).
  { assert (R : 2 <= n < 50) by lia. clear - R T.
    assert (E : exists k : nat, n = Z.of_nat k /\ (k < 50)%nat) by (exists (Z.to_nat n); lia).
    destruct E as [k [-> Hk]].
    do 50 (destruct k as [|k]; [try (vm_compute in T; discriminate); cbn; lia|]). lia. }
  assert (E : exists j : nat, m = Z.of_nat j /\ (j < 50)%nat) by (exists (Z.to_nat m); lia).
  destruct E as [j [-> Hj]].
  repeat (destruct C as [->|C]); try subst n;
    (do 50 (destruct j as [|j]; [try (cbn in Hm; lia); vm_compute; reflexivity|]); lia).
Qed.

Example C06_nonvacuous_group : wf_group (fun _ => 0) 4 5 4 false 23 11 2 2.
Proof.
  unfold wf_group, canon_ok.
  refine (conj _ (conj _ (conj _ (conj _ (conj _ (conj _ (conj _ (conj _ _)))))))).
  - vm_compute; congruence.
  - vm_compute; congruence.
  - reflexivity.
  - apply prime_small; [reflexivity|lia].
  - apply prime_small; [reflexivity|lia].
  - intros [x D]. lia.
  - lia.
  - reflexivity.
  - discriminate.
Qed.
(* a canonical generator: with the constant hash 5, the derived generator of (23, 11, 2) is 5^2 = 2 *)
Example C06_nonvacuous_canonical : check_group_vtmf trial_prime (fun _ => 5) 4 5 4 true 23 11 2 2 = Accept.
Proof. reflexivity. Qed.
Example C06_nonvacuous_gens : check_group_gens trial_prime (fun _ => 0) 4 5 4 true false 23 11 0 2 [3; 4] = Accept.
Proof. reflexivity. Qed.
Example C06_nonvacuous_prime_test : forall n, 0 <= n < 50 -> trial_prime n = true -> prime n.
Proof. intros n R T. apply prime_small; [assumption|lia]. Qed.
