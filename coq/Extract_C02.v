From Coq Require Import Extraction ExtrOcamlBasic.
From LT Require Import CodecModel SamplerModel ShuffleModel.
Extraction "model.ml" create_stack_secret vmix vglue import_vstacksecret random_mod.
