From Coq Require Import Extraction ExtrOcamlBasic.
From LT Require Import CodecModel SamplerModel ShuffleModel ShuffleQrModel.
Extraction "model.ml" create_stack_secret vmix vglue import_vstacksecret random_mod create_card_secret qmask_card vmix_into.
