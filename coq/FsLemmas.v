(* FsLemmas: the Fiat-Shamir serialisation is injective (parser round trip), vector variants included. *)
From Coq Require Import ZArith NArith List Bool Lia.
From LT Require Import CodecModel CodecLemmas FsModel.
Import ListNotations.
Local Open Scope N_scope.

Lemma hexchar_range d : d < 16 -> (48 <= hexchar d <= 57) \/ (97 <= hexchar d <= 102).
Proof.
  intros H. unfold hexchar. destruct (N.ltb_spec d 10); lia.
Qed.

Lemma unhex_hexchar d : d < 16 -> unhex (hexchar d) = d.
Proof.
  intros H. unfold hexchar, unhex.
  destruct (N.ltb_spec d 10).
  - replace ((48 <=? 48 + d) && (48 + d <=? 57)) with true; [lia|].
    symmetry. apply andb_true_iff. split; apply N.leb_le; lia.
  - replace ((48 <=? 87 + d) && (87 + d <=? 57)) with false.
    + replace ((97 <=? 87 + d) && (87 + d <=? 102)) with true; [lia|].
      symmetry. apply andb_true_iff. split; apply N.leb_le; lia.
    + symmetry. apply andb_false_iff. right. apply N.leb_gt. lia.
Qed.

Lemma hexchar_not_bar d : d < 16 -> hexchar d <> bar.
Proof. intros H E. pose proof (hexchar_range d H). unfold bar in E. lia. Qed.

Lemma hexchar_not_minus d : d < 16 -> hexchar d <> 45.
Proof. intros H E. pose proof (hexchar_range d H). lia. Qed.

Lemma map_unhex ds : Forall (fun d => d < 16) ds -> map unhex (map hexchar ds) = ds.
Proof.
  induction 1 as [|d ds Hd _ IH]; [reflexivity|]. cbn [map]. now rewrite unhex_hexchar, IH.
Qed.

Lemma forallb_unhex ds : Forall (fun d => d < 16) ds -> forallb (fun x => unhex x <? 16) (map hexchar ds) = true.
Proof.
  induction 1 as [|d ds Hd _ IH]; [reflexivity|]. cbn [map forallb].
  rewrite unhex_hexchar by assumption. rewrite IH. apply andb_true_iff. split; [now apply N.ltb_lt|reflexivity].
Qed.

Lemma digits16 n : Forall (fun d => d < 16) (to_digits 16 n).
Proof. apply to_digits_lt. lia. Qed.

Lemma hex_mag_val n : hex_val (hex_mag n) = Some (Z.of_N n).
Proof.
  unfold hex_mag. pose proof (digits16 n) as F. pose proof (to_digits_nonempty 16 n) as NE.
  remember (to_digits 16 n) as dg eqn:E. destruct dg as [|d ds]; [contradiction|].
  assert (Hd : d < 16) by (inversion F; assumption).
  change (map hexchar (d :: ds)) with (hexchar d :: map hexchar ds). cbn [hex_val].
  destruct (N.eqb_spec (hexchar d) 45) as [X|_]; [exfalso; now apply (hexchar_not_minus d)|].
  change (hexchar d :: map hexchar ds) with (map hexchar (d :: ds)).
  rewrite (forallb_unhex (d :: ds) F). rewrite (map_unhex (d :: ds) F).
  rewrite E. rewrite from_to_digits by lia. reflexivity.
Qed.

Lemma hex_mag_nonempty n : hex_mag n <> [].
Proof.
  unfold hex_mag. pose proof (to_digits_nonempty 16 n). destruct (to_digits 16 n); [contradiction|discriminate].
Qed.

Lemma hex_mag_tail_val n : forallb (fun x => unhex x <? 16) (hex_mag n) = true /\
  from_digits 16 (map unhex (hex_mag n)) = n.
Proof.
  unfold hex_mag. pose proof (digits16 n) as F. split.
  - now apply forallb_unhex.
  - rewrite map_unhex by assumption. apply from_to_digits. lia.
Qed.

Theorem hex_val_of_Z z : hex_val (hex_of_Z z) = Some z.
Proof.
  destruct z as [|p|p]; cbn [hex_of_Z].
  - reflexivity.
  - apply (hex_mag_val (Npos p)).
  - cbn [hex_val]. rewrite N.eqb_refl.
    pose proof (hex_mag_nonempty (Npos p)) as NE. pose proof (hex_mag_tail_val (Npos p)) as [A B].
    destruct (hex_mag (Npos p)) as [|c r] eqn:E; [contradiction|].
    rewrite A, B. reflexivity.
Qed.

Lemma hex_of_Z_nobar z : Forall (fun c => c <> bar) (hex_of_Z z).
Proof.
  assert (M : forall n, Forall (fun c => c <> bar) (hex_mag n)).
  { intros n. unfold hex_mag. pose proof (digits16 n) as F. induction F as [|d ds Hd _ IH]; constructor.
    - now apply hexchar_not_bar.
    - exact IH. }
  destruct z as [|p|p]; cbn [hex_of_Z].
  - constructor; [unfold bar; lia|constructor].
  - apply M.
  - constructor; [unfold bar; lia|apply M].
Qed.

Lemma hex_of_Z_nonempty z : hex_of_Z z <> [].
Proof.
  destruct z as [|p|p]; cbn [hex_of_Z]; try discriminate. apply hex_mag_nonempty.
Qed.

Lemma fs_ser_cons z l : fs_ser (z :: l) = hex_of_Z z ++ bar :: fs_ser l.
Proof. unfold fs_ser. cbn [flat_map]. unfold fs_ser1. now rewrite <- app_assoc. Qed.

Lemma fs_ser_app a b : fs_ser (a ++ b) = fs_ser a ++ fs_ser b.
Proof. unfold fs_ser. apply flat_map_app. Qed.

Theorem fs_parse_ser l : forall fuel, (length l <= fuel)%nat -> fs_parse fuel (fs_ser l) = Some l.
Proof.
  induction l as [|z l IH]; intros fuel Hf.
  - destruct fuel; reflexivity.
  - destruct fuel as [|f]; [cbn in Hf; lia|].
    rewrite fs_ser_cons. cbn [fs_parse].
    destruct (hex_of_Z z ++ bar :: fs_ser l) as [|c r] eqn:E.
    + exfalso. apply app_eq_nil in E. destruct E as [_ E]. discriminate.
    + rewrite <- E. rewrite split_at_app by apply hex_of_Z_nobar.
      rewrite hex_val_of_Z. rewrite IH by (cbn in Hf; lia). reflexivity.
Qed.

(* the hash input determines the whole argument list: no two different lists of integers serialise alike *)
Theorem fs_ser_inj l1 l2 : fs_ser l1 = fs_ser l2 -> l1 = l2.
Proof.
  intros E.
  pose proof (fs_parse_ser l1 (Nat.max (length l1) (length l2)) ltac:(lia)) as A.
  pose proof (fs_parse_ser l2 (Nat.max (length l1) (length l2)) ltac:(lia)) as B.
  rewrite E in A. rewrite A in B. now inversion B.
Qed.

(* vector variants: vectors of the same length followed by the scalar arguments *)
Theorem fs_ser_vec_inj (v v' a a' : list Z) : length v = length v' ->
  fs_ser (v ++ a) = fs_ser (v' ++ a') -> v = v' /\ a = a'.
Proof.
  intros L E. apply fs_ser_inj in E. revert v' L E.
  induction v as [|x v IH]; intros [|y v'] L E; cbn in L; try discriminate.
  - now split.
  - cbn in E. inversion E; subst. destruct (IH v') as [A B]; [lia|assumption|]. subst. now split.
Qed.

Lemma flat_pairs_inj v v' : flat_pairs v = flat_pairs v' -> v = v'.
Proof.
  revert v'. induction v as [|[a b] v IH]; intros [|[a' b'] v'] E; try discriminate; [reflexivity|].
  cbn in E. inversion E; subst. f_equal. now apply IH.
Qed.

(* replacing one element by a different one changes the hash input *)
Corollary fs_ser_single_change (pre post : list Z) (x y : Z) : x <> y ->
  fs_ser (pre ++ x :: post) <> fs_ser (pre ++ y :: post).
Proof.
  intros N E. apply fs_ser_inj in E. apply app_inv_head in E. now inversion E.
Qed.
