(* VssModel: executable model of Pedersen's verifiable secret sharing as implemented in
   /repo/src/PedersenVSS.cc (dealer :268-457, receiver :470-721, reconstruction :733-877; tree with fix 3258c3f) and of the
   polynomial interpolation helper tmcg_interpolate_polynom (/repo/src/mpz_helper.cc:145-237).
   Definitions only.  The protocol is modelled as a synchronous round function: the messages of the
   other parties (broadcast complaint streams, the dealer's resolution stream) are inputs.
   Timing (time-outs of aiounicast/RBC) is outside the model: a stream that ends early models a
   DeliverFrom that failed.  Party indices are 0-based, evaluation points are index+1 (idx2dkg = id). *)
From Coq Require Import ZArith List Bool.
From LT Require Import Zbase.
Import ListNotations.
Local Open Scope Z_scope.

(* ---- polynomial evaluation as in the Share loops (PedersenVSS.cc:331-346, GJKR-DKG.cc:491-503):
   foo = x^k (exact), term = (foo * a_k) mod q, acc = (acc + term) mod q ----------------------- *)
Fixpoint poly_eval_from (q : Z) (cs : list Z) (x xk acc : Z) : Z :=
  match cs with
  | [] => acc
  | a :: r => poly_eval_from q r x (xk * x) ((acc + (xk * a) mod q) mod q)
  end.
Definition poly_eval (q : Z) (cs : list Z) (x : Z) : Z := poly_eval_from q cs x 1 0.

(* ---- commitments A_k = g^a_k h^b_k mod p (PedersenVSS.cc:318-321) ---------------------------- *)
Definition commit (p g h a b : Z) : Z := (powm g a p * powm h b p) mod p.
Fixpoint commits (p g h : Z) (a b : list Z) : list Z :=
  match a, b with
  | x :: a', y :: b' => commit p g h x y :: commits p g h a' b'
  | _, _ => []
  end.
(* Feldman commitments g^a_k (GJKR-DKG.cc:786-793) *)
Definition fcommits (p g : Z) (a : list Z) : list Z := map (fun x => powm g x p) a.

(* ---- right-hand side prod_k A_k^(x^k) mod p (PedersenVSS.cc:545-560) -------------------------- *)
Fixpoint rhs_from (p : Z) (As : list Z) (x xk acc : Z) : Z :=
  match As with
  | [] => acc
  | A :: r => rhs_from p r x (xk * x) ((acc * powm A xk p) mod p)
  end.
Definition rhs_prod (p : Z) (As : list Z) (x : Z) : Z := rhs_from p As x 1 1.

(* signed exponent as tmcg_mpz_fpowm / tmcg_mpz_fspowm handle it: |e| is used, the result is inverted for e < 0;
   None = the library throws (inverse does not exist) *)
Definition epow (p b e : Z) : option Z :=
  if e <? 0 then invm (powm b (- e) p) p else Some (powm b e p).

Definition in_range (q s : Z) : bool := Z.abs s <? q.                      (* mpz_cmpabs(s, q) < 0 *)
Definition check_element (p q a : Z) : bool := (0 <? a) && (a <? p) && (powm a q p =? 1).   (* CheckElement *)
Definition who_of (v : Z) : Z := Z.abs v mod 2 ^ 64.                       (* mpz_get_ui on a 64-bit limb *)
Definition zero_unless (b : bool) (v : Z) : Z := if b then v else 0.

(* the pure check g^s h^t = prod A_k^(x^k) *)
Definition share_ok (p g h : Z) (As : list Z) (x s t : Z) : option bool :=
  match epow p g s, epow p h t with
  | Some gs, Some ht => Some ((gs * ht) mod p =? rhs_prod p As x)
  | _, _ => None
  end.

(* receiver: does it complain about the received pair? (PedersenVSS.cc:521-566)
   out-of-range values are replaced by 0 and cause a complaint, a bad A_k causes a complaint *)
Definition recv_complaint (p q g h : Z) (As : list Z) (x s t : Z) : option bool :=
  match share_ok p g h As x (zero_unless (in_range q s) s) (zero_unless (in_range q t) t) with
  | Some ok => Some (negb (in_range q s) || negb (in_range q t) || negb (forallb (check_element p q) As) || negb ok)
  | None => None
  end.

(* ---- complaint bookkeeping (PedersenVSS.cc:586-612): the values party j broadcast are read until an
   end marker (>= n), a failed delivery (stream ends) or n+1 values; j counts once if it named the dealer *)
Fixpoint scan_stream (fuel : nat) (n dealer : Z) (st : list Z) (seen : bool) : bool :=
  match fuel with
  | O => seen
  | S f => match st with
           | [] => seen
           | v :: r => if who_of v <? n then scan_stream f n dealer r (seen || (who_of v =? dealer)) else seen
           end
  end.
Definition complains (n dealer : Z) (st : list Z) : bool := scan_stream (S (Z.to_nat n)) n dealer st false.

(* parties (other than the receiver and the dealer, ascending) that complained *)
Definition complaints_from (n dealer : Z) (streams : list (Z * list Z)) : list Z :=
  map fst (filter (fun js => complains n dealer (snd js)) streams).

Definition disqualified (t counter : Z) : bool := t <? counter.            (* complaints_counter > t *)

(* ---- public resolution (PedersenVSS.cc:625-697): for every complaining party (ascending) the dealer
   broadcasts who, s, t.  State: (complaint flag, sigma_i, tau_i).  A failed delivery or a wrong `who`
   sets the flag and stops; a failing equation sets the flag and continues. *)
Fixpoint resolve (p q g h n i : Z) (As : list Z) (from res : list Z) (bad : bool) (sg ta : Z) : option (bool * Z * Z) :=
  match from with
  | [] => Some (bad, sg, ta)
  | j :: from' =>
    match res with
    | w :: f :: b :: res' =>
      if (n <=? who_of w) || negb (who_of w =? j) then Some (true, sg, ta)
      else
        let f0 := zero_unless (in_range q f) f in
        let b0 := zero_unless (in_range q b) b in
        let bad' := bad || negb (in_range q f) || negb (in_range q b) in
        match share_ok p g h As (who_of w + 1) f0 b0 with
        | Some true => if who_of w =? i then resolve p q g h n i As from' res' bad' f0 b0
                       else resolve p q g h n i As from' res' bad' sg ta
        | Some false => resolve p q g h n i As from' res' true sg ta
        | None => None
        end
    | _ => Some (true, sg, ta)      (* a delivery from the dealer failed *)
    end
  end.

Record vss_out := { vo_ret : bool; vo_sigma : Z; vo_tau : Z }.

(* the receiver's list of complaining parties (PedersenVSS.cc:586-618, since fix 3258c3f): its own index if it complained itself,
   then the complaining other parties; std::sort => ascending.  `others` is ascending and does not contain i. *)
Fixpoint ins_sorted (i : Z) (l : list Z) : list Z :=
  match l with
  | [] => [i]
  | j :: r => if i <? j then i :: l else j :: ins_sorted i r
  end.
Definition recv_from (n dealer i : Z) (own : bool) (streams : list (Z * list Z)) : list Z :=
  if own then ins_sorted i (complaints_from n dealer streams) else complaints_from n dealer streams.

(* the receiver P_i of PedersenVSS::Share(dealer, ...) as a function of everything it receives:
   As (commitments), (s, t) (its share pair), streams = [(j, values broadcast by P_j)] for j <> i, dealer ascending,
   res = the values the dealer broadcasts afterwards.  None = the library throws. *)
Definition vss_receive (p q g h n t i dealer : Z) (As : list Z) (s tt : Z)
                       (streams : list (Z * list Z)) (res : list Z) : option vss_out :=
  match recv_complaint p q g h As (i + 1) s tt with
  | None => None
  | Some own =>
    let s0 := zero_unless (in_range q s) s in
    let t0 := zero_unless (in_range q tt) tt in
    let from := recv_from n dealer i own streams in
    let counter := (if own then 1 else 0) + Z.of_nat (length (complaints_from n dealer streams)) in
    if disqualified t counter then Some {| vo_ret := false; vo_sigma := s0; vo_tau := t0 |}
    else if 0 <? counter then
      match resolve p q g h n i As from res false s0 t0 with
      | Some (bad, sg, ta) => Some {| vo_ret := negb bad; vo_sigma := sg; vo_tau := ta |}
      | None => None
      end
    else Some {| vo_ret := true; vo_sigma := s0; vo_tau := t0 |}
  end.

(* the honest dealer (PedersenVSS.cc:300-457): commitments, the pair for P_j, its decision and its resolution broadcast *)
Definition deal_share (q : Z) (a b : list Z) (j : Z) : Z * Z := (poly_eval q a (j + 1), poly_eval q b (j + 1)).
Definition deal_from (n i : Z) (streams : list (Z * list Z)) : list Z := complaints_from n i streams.
Definition deal_ret (n t i : Z) (streams : list (Z * list Z)) : bool :=
  negb (disqualified t (Z.of_nat (length (deal_from n i streams)))).
Definition deal_resolution (q n i : Z) (a b : list Z) (streams : list (Z * list Z)) : list Z :=
  flat_map (fun j => [j; fst (deal_share q a b j); snd (deal_share q a b j)]) (deal_from n i streams).

(* ---- Lagrange reconstruction at 0 (PedersenVSS.cc:834-866, GJKR-DKG.cc:1191-1221):
   for every point x_j: num = prod_{l<>j} x_l (exact), den = prod_{l<>j} (x_l - x_j) (exact), inverted mod q;
   sigma = sum share_j * ((num * den^-1) mod q) mod q.  None = mpz_invert failed. *)
Definition others (xs : list Z) (xj : Z) : list Z := filter (fun x => negb (x =? xj)) xs.
Definition lag_num (xs : list Z) (xj : Z) : Z := fold_left Z.mul (others xs xj) 1.
Definition lag_den (xs : list Z) (xj : Z) : Z := fold_left (fun acc x => acc * (x - xj)) (others xs xj) 1.
Fixpoint lag_go (q : Z) (xs : list Z) (pts : list (Z * Z)) (acc : Z) : option Z :=
  match pts with
  | [] => Some acc
  | (xj, yj) :: r =>
    match invm (lag_den xs xj) q with
    | None => None
    | Some iv => lag_go q xs r ((acc + (yj * ((lag_num xs xj * iv) mod q)) mod q) mod q)
    end
  end.
Definition lagrange0 (q : Z) (pts : list (Z * Z)) : option Z := lag_go q (map fst pts) pts 0.

(* which shares enter the reconstruction at P_i (PedersenVSS.cc:775-829): own share first (unchecked), then the
   verified shares of the others in ascending order, truncated to t+1; None = not enough shares *)
Definition recon_parties (t : Z) (own : Z * Z) (verified : list (Z * Z)) : option (list (Z * Z)) :=
  let all := own :: verified in
  if Z.of_nat (length all) <=? t then None else Some (firstn (Z.to_nat (t + 1)) all).

(* ---- tmcg_interpolate_polynom (mpz_helper.cc:145-237): Newton-style interpolation, coefficients low to high.
   prod = coefficients (without the leading 1) of prod_{i<k} (X - a_i), res = interpolant of the first k points *)
Definition horner_rev (q a : Z) (l : list Z) (v0 : Z) : Z :=
  fold_left (fun v c => ((v * a) mod q + c) mod q) (rev l) v0.
Fixpoint prod_go (q t prev : Z) (l : list Z) : list Z :=
  match l with
  | [] => [(t + prev) mod q]
  | pi :: r => (((pi * t) mod q + prev) mod q) :: prod_go q t pi r
  end.
Definition new_prod (q t : Z) (prod : list Z) : list Z :=
  match prod with
  | [] => []
  | p0 :: r => ((p0 * t) mod q) :: prod_go q t p0 r
  end.
Fixpoint add_scaled (q c : Z) (res prod : list Z) : list Z :=
  match res, prod with
  | r :: res', pr :: prod' => ((r + (pr * c) mod q) mod q) :: add_scaled q c res' prod'
  | _, _ => []
  end.
Fixpoint interp_go (q : Z) (pts : list (Z * Z)) (prod res : list Z) (first : bool) : option (list Z) :=
  match pts with
  | [] => Some res
  | (a, b) :: rest =>
    match invm (horner_rev q a prod 1) q with
    | None => None
    | Some iv =>
      let c := (iv * ((b - horner_rev q a res 0) mod q)) mod q in
      interp_go q rest (if first then [- a] else new_prod q (- a) prod) (add_scaled q c res prod ++ [c]) false
    end
  end.
Definition interpolate (q : Z) (pts : list (Z * Z)) : option (list Z) :=
  match pts with [] => None | _ => interp_go q pts [] [] true end.
