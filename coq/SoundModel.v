(* SoundModel: (a) knowledge extractors for the sigma protocols of the VTMF layer (Schnorr key-share proof,
   Chaum-Pedersen equality of discrete logarithms), (b) the cut-and-choose stack-equality verifier over an abstract
   mask, with the guessing prover.  Anchors: BarnettSmartVTMF_dlog.cc KeyGenerationProtocol_VerifyNIZK 331-370,
   KeyGenerationProtocol_VerifyKey_interactive 538-586, CP_Verify 690-752 (verification equations),
   SchindelhauerTMCG.cc TMCG_VerifyStackEquality 1621-1672 / 1701-1790 (per round: coin, commitment, secret,
   re-mix of s2 resp. s, comparison).  Definitions only; proofs are in SoundLemmas.v. *)
From Coq Require Import ZArith List Bool.
From LT Require Import Zbase.
Import ListNotations.
Local Open Scope Z_scope.

(* ---- extractors ------------------------------------------------------------------------------------------ *)
(* equation form  t = g^r * h^c  (NIZK key proof, both components of Chaum-Pedersen):
   from (c, r) and (c', r') with the same t:  h^(c - c') = g^(r' - r);  exponents kept non-negative via q-1 *)
Definition ext_num (q r r' : Z) : Z := r' + (q - 1) * r.
Definition ext_den (q c c' : Z) : Z := c + (q - 1) * c'.

Definition ext_exp (q r r' c c' : Z) : option Z :=
  let a := ext_den q c c' mod q in
  match invm a q with
  | Some d0 => let d := d0 mod q in
               if (a * d) mod q =? 1 then Some ((ext_num q r r' * d) mod q) else None
  | None => None
  end.

(* equation form  g^m2 = m1 * key^c  (interactive key proof):  key^(c - c') = g^(m2 - m2') *)
Definition ext_exp_int (q m2 m2' c c' : Z) : option Z := ext_exp q m2' m2 c c'.

(* ---- cut and choose --------------------------------------------------------------------------------------- *)
Section CutChoose.
  Variables stack secret com : Type.
  Variable mix : stack -> secret -> stack.       (* TMCG_MixStack with a stack secret *)
  Variable commit : stack -> com.                (* hash of the exported stack (TMCG_HASH_COMMITMENT) or the stack itself *)
  Variables s s2 : stack.                        (* the statement: s2 is claimed to be a shuffle of s *)

  Definition src (b : bool) : stack := if b then s2 else s.   (* challenge 1: re-mix of s2 is opened, 0: of s *)

  (* one round: the verifier's coin b, the received commitment and the received secret *)
  Definition round_ok (b : bool) (m : com * secret) : Prop := fst m = commit (mix (src b) (snd m)).

  Definition accepts (coins : list bool) (msgs : list (com * secret)) : Prop := Forall2 round_ok coins msgs.

  (* the prover who prepares for one guessed challenge string: per round re-mix of s2 if the guessed bit is 1, of s otherwise *)
  Definition guess_msg (g : bool) (z : secret) : com * secret := (commit (mix (src g) z), z).
  Fixpoint guess_msgs (guess : list bool) (zs : list secret) : list (com * secret) :=
    match guess, zs with
    | g :: gr, z :: zr => guess_msg g z :: guess_msgs gr zr
    | _, _ => []
    end.
End CutChoose.

Fixpoint bools_eqb (a b : list bool) : bool :=
  match a, b with
  | [], [] => true
  | x :: a', y :: b' => Bool.eqb x y && bools_eqb a' b'
  | _, _ => false
  end.

(* all 2^k coin strings *)
Fixpoint all_coins (k : nat) : list (list bool) :=
  match k with
  | O => [[]]
  | S k' => map (cons true) (all_coins k') ++ map (cons false) (all_coins k')
  end.

(* what the model predicts for the guessing prover (compared with the real verifier by the harness) *)
Definition guess_verdict (guess coins : list bool) : bool := bools_eqb coins guess.
Definition accepting_count (guess : list bool) : nat := length (filter (guess_verdict guess) (all_coins (length guess))).
