(* ShuffleModel: executable model of stack shuffling (C02; the generators are shared with C07).
   Anchors (src/SchindelhauerTMCG.cc unless noted):
     random_permutation_fast          :1104-1116   Fisher-Yates, swap index i + srandom_mod(n - i)
     random_rotation                  :1119-1130   r = srandom_mod(n), pi[i] = (r + i) % n, returns (n - r) % n
     TMCG_CreateStackSecret (VTMF)    :1156-1176   index vector, then one MaskingValue per position
     BarnettSmartVTMF_dlog::MaskingValue  BarnettSmartVTMF_dlog.cc:888-896  (srandomm(q) until not 0, 1)
     TMCG_MixStack                    :1208-1243   s2[i] = mask(s[ss[i].first], ss[ss[i].first].second)
     TMCG_GlueStackSecret             :1245-1326   (index composition via find_position; the secrets are combined
                                                    by r1 + r2 mod q (VTMF) resp. r1 r2 [y] mod m, b1 xor b2 (QR encoding))
     TMCG_MaskCard (VTMF)             :853-859 -> VerifiableRemaskingProtocol_Remask  BarnettSmartVTMF_dlog.cc:979-998
     TMCG_MaskValue (QR encoding)     :231-254     z * r^2 * y^b mod m
     TMCG_Stack::push / TMCG_StackSecret::push   TMCG_Stack.hh:108-113, TMCG_StackSecret.hh:107-112 (silently bounded)
     the import check is CodecModel.perm_check (TMCG_StackSecret.hh:198-203)
   Index vectors are lists of N (size_t), positions are nat.  Definitions only -- proofs live in ShuffleLemmas.v. *)
From Coq Require Import ZArith NArith List Bool.
From LT Require Import gen_Consts Zbase CodecModel SamplerModel.
Import ListNotations.
Local Open Scope N_scope.

Definition max_cards : nat := Z.to_nat TMCG_MAX_CARDS.

(* vector element access; None = out of range *)
Definition nthN {A} (l : list A) (j : N) : option A :=
  if j <? N.of_nat (length l) then nth_error l (N.to_nat j) else None.

(* v[k] = x *)
Fixpoint upd {A} (l : list A) (k : nat) (x : A) : list A :=
  match l, k with
  | [], _ => []
  | _ :: t, O => x :: t
  | h :: t, S k' => h :: upd t k' x
  end.

(* first non-normal outcome of a sequence of calls, else all results *)
Fixpoint seq_res {A} (l : list (res A)) : res (list A) :=
  match l with
  | [] => Ret []
  | x :: r => bind x (fun a => bind (seq_res r) (fun t => Ret (a :: t)))
  end.

Definition iota (n : nat) : list N := map N.of_nat (seq 0 n).

(* ---- generators --------------------------------------------------------------------------- *)
(* tmp = pi[i]; pi[i] = pi[rnd]; pi[rnd] = tmp *)
Definition swap_idx (pi : list N) (i j : nat) : res (list N) :=
  match nth_error pi i, nth_error pi j with
  | Some a, Some b => Ret (upd (upd pi i b) j a)
  | _, _ => Oob
  end.

(* k = remaining iterations of `for (i = 0; i < n - 1; i++)` *)
Fixpoint fy_loop (k i n : nat) (pi : list N) (s : list N) : res (list N * list N) :=
  match k with
  | O => Ret (pi, s)
  | S k' =>
    bind (random_mod (N.of_nat (n - i)) s) (fun cr =>
    bind (swap_idx pi i (i + N.to_nat (fst cr))) (fun pi' => fy_loop k' (S i) n pi' (snd cr)))
  end.

(* n = 0: `n - 1` wraps around and the first iteration reads pi[0] of an empty vector *)
Definition random_permutation_fast (n : nat) (s : list N) : res (list N * list N) :=
  match n with
  | O => Oob
  | S k => fy_loop k 0 n (iota n) s
  end.

(* the same algorithm on already reduced coins c_i (c_i < n - i is what the sampler guarantees) *)
Fixpoint fy_coins (k i : nat) (pi : list N) (cs : list N) : option (list N) :=
  match k, cs with
  | O, [] => Some pi
  | S k', c :: cs' =>
    match swap_idx pi i (i + N.to_nat c) with
    | Ret pi' => fy_coins k' (S i) pi' cs'
    | _ => None
    end
  | _, _ => None
  end.
Definition fisher_yates (n : nat) (cs : list N) : option (list N) := fy_coins (n - 1) 0 (iota n) cs.

(* coins drawn for the moduli n-i, n-i-1, ... (k of them) *)
Fixpoint draw_coins (k i n : nat) (s : list N) : res (list N * list N) :=
  match k with
  | O => Ret ([], s)
  | S k' => bind (random_mod (N.of_nat (n - i)) s) (fun cr =>
            bind (draw_coins k' (S i) n (snd cr)) (fun cs => Ret (fst cr :: fst cs, snd cs)))
  end.

(* the rotation with parameter r, and the offset the function reports *)
Definition rotation (n : nat) (r : N) : list N := map (fun i => add_w r (N.of_nat i) mod N.of_nat n) (seq 0 n).
Definition rotation_offset (n : nat) (r : N) : N := sub_w (N.of_nat n) r mod N.of_nat n.

(* returns ((offset, pi), rest of the coins); n = 0 and n = 1 throw inside the sampler *)
Definition random_rotation (n : nat) (s : list N) : res ((N * list N) * list N) :=
  bind (random_mod (N.of_nat n) s) (fun rs => Ret ((rotation_offset n (fst rs), rotation n (fst rs)), snd rs)).

(* BarnettSmartVTMF_dlog::MaskingValue *)
Fixpoint masking_value_loop (fuel : nat) (q : Z) (s : list N) : res (Z * list N) :=
  match fuel with
  | O => NeedCoins
  | S f => bind (grandomm q s) (fun vr =>
           if (fst vr =? 0)%Z || (fst vr =? 1)%Z then masking_value_loop f q (snd vr) else Ret vr)
  end.
Definition masking_value (q : Z) (s : list N) : res (Z * list N) := masking_value_loop (S (length s)) q s.

Fixpoint masking_values (k : nat) (q : Z) (s : list N) : res (list Z * list N) :=
  match k with
  | O => Ret ([], s)
  | S k' => bind (masking_value q s) (fun vr =>
            bind (masking_values k' q (snd vr)) (fun vs => Ret (fst vr :: fst vs, snd vs)))
  end.

(* TMCG_CreateStackSecret for the VTMF encoding: ((reported offset, stack secret), remaining coins) *)
Definition create_stack_secret (cyclic : bool) (n : nat) (q : Z) (s : list N)
  : res ((N * list (N * Z)) * list N) :=
  if (max_cards <? n)%nat then AssertFail else
  bind (if cyclic then random_rotation n s
        else bind (random_permutation_fast n s) (fun ps => Ret ((0, fst ps), snd ps))) (fun x =>
  bind (masking_values n q (snd x)) (fun vs =>
  Ret ((fst (fst x), combine (snd (fst x)) (fst vs)), snd vs))).

(* ---- mixing and gluing, generic in the card encoding ------------------------------------------ *)
Section Shuffle.
  Variables card secret : Type.
  Variable mask : card -> secret -> card.
  Variable addsec : secret -> secret -> secret.

  (* card i of the mixed stack: note the double indexing ss[ss[i].first].second *)
  Definition mix_card (s : list card) (ss : list (N * secret)) (i : nat) : res card :=
    match nth_error ss i with
    | Some (j, _) =>
      match nthN s j, nthN ss j with
      | Some c, Some (_, r) => Ret (mask c r)
      | _, _ => Oob
      end
    | None => Oob
    end.

  Definition mix (s : list card) (ss : list (N * secret)) : res (list card) :=
    if negb (length s =? length ss)%nat then AssertFail
    else bind (seq_res (map (mix_card s ss) (seq 0 (length s)))) (fun l => Ret (firstn max_cards l)).

  (* the call as it is made: the result object s2 has previous content `old`; the code does s2.clear() and then
     one bounded push per card (TMCG_Stack::push drops cards beyond TMCG_MAX_CARDS) *)
  Definition stack_push {A} (st : list A) (x : A) : list A := if (length st <? max_cards)%nat then st ++ [x] else st.
  Definition stack_clear {A} (st : list A) : list A := [].
  Definition mix_into (old : list card) (s : list card) (ss : list (N * secret)) : res (list card) :=
    if negb (length s =? length ss)%nat then AssertFail
    else bind (seq_res (map (mix_card s ss) (seq 0 (length s)))) (fun l => Ret (fold_left stack_push l (stack_clear old))).

  (* entry i of the glued secret *)
  Definition glue_entry (sigma pi : list (N * secret)) (i : nat) : res (N * secret) :=
    let p := find_position sigma (N.of_nat i) in
    if negb (p <? length sigma)%nat then AssertFail
    else match nth_error sigma i, nth_error pi p, nth_error pi i with
         | Some (_, r1), Some (_, r2), Some (b, _) =>
           match nthN sigma b with
           | Some (a, _) => Ret (a, addsec r1 r2)
           | None => Oob
           end
         | _, _, _ => Oob
         end.

  Definition glue (sigma pi : list (N * secret)) : res (list (N * secret)) :=
    if negb (length sigma =? length pi)%nat then AssertFail
    else bind (seq_res (map (glue_entry sigma pi) (seq 0 (length sigma)))) (fun l => Ret (firstn max_cards l)).
End Shuffle.

(* ---- the two encodings -------------------------------------------------------------------------- *)
(* VTMF: c' = (c_1 g^r, c_2 h^r) mod p for 0 <= r (the fixed-base tables compute g^r mod p) *)
Definition vmask (p g h : Z) (c : Z * Z) (r : Z) : Z * Z :=
  ((powm g r p * fst c) mod p, (powm h r p * snd c) mod p)%Z.
Definition vadd (q : Z) (r1 r2 : Z) : Z := ((r1 + r2) mod q)%Z.
Definition vmix (p g h : Z) := mix (Z * Z) Z (vmask p g h).
Definition vmix_into (p g h : Z) := mix_into (Z * Z) Z (vmask p g h).
Definition vglue (q : Z) := glue Z (vadd q).

(* QR encoding, one matrix entry: z' = z r^2 y^b mod m; secrets (r, b) are combined as
   (r1 r2 y^(b1 and b2) mod m, b1 xor b2) *)
Definition qmask (m y : Z) (z : Z) (rb : Z * bool) : Z :=
  (let t := (((fst rb * fst rb) mod m) * z) mod m in if snd rb then (t * y) mod m else t)%Z.
Definition qadd (m y : Z) (s1 s2 : Z * bool) : Z * bool :=
  ((if snd s1 && snd s2 then ((fst s1 * fst s2) mod m * y) mod m else (fst s1 * fst s2) mod m)%Z, xorb (snd s1) (snd s2)).
