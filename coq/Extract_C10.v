From Coq Require Import Extraction ExtrOcamlBasic.
From LT Require Import CodecModel RabinModel.
Extraction "model.ml" tmcg_g keyid keyid_size verify_core verify_text sign_text selfsig_text encrypt_text decrypt_text
  export_pub import_pub export_sec import_sec check export_bytes be2z.
