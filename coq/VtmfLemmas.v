(* VtmfLemmas -- proofs about VtmfModel (C01): opening a masked card of the discrete-log encoding. *)
From Coq Require Import ZArith Znumtheory Lia List Bool ZifyBool Permutation.
From LT Require Import Zbase gen_Consts PowmModel PowmLemmas VtmfModel.
Import ListNotations.
Local Open Scope Z_scope.

Definition zsum (l : list Z) : Z := fold_right Z.add 0 l.

(* an admissible group: odd modulus, g of prime order q modulo p (Schnorr group or QR group of a safe prime) *)
Definition wf_group (G : group) : Prop :=
  2 < gp G /\ Z.odd (gp G) = true /\ prime (gq G) /\ powm (gg G) (gq G) (gp G) = 1 /\ gg G mod gp G <> 1.

(* exponents the fixed-base tables are built for *)
Definition wfe (G : group) (e : Z) : Prop := 0 <= e /\ bitlen e <= Z.min (bitlen (gq G)) TMCG_MAX_FPOWM_T.

Lemma bitlen_nonneg_spec (x : Z) : 0 < x -> bitlen x = Z.log2 x + 1.
Proof. intros. unfold bitlen. destruct (Z.eqb_spec x 0); [lia|]. now rewrite Z.abs_eq by lia. Qed.

Lemma bitlen_mono (a b : Z) : 0 <= a <= b -> bitlen a <= bitlen b.
Proof.
  intros H. destruct (Z.eq_dec a 0) as [->|].
  - unfold bitlen at 1. cbn. destruct (Z.eq_dec b 0) as [->|]; [cbn; lia|].
    rewrite bitlen_nonneg_spec by lia. pose proof (Z.log2_nonneg b). lia.
  - rewrite !bitlen_nonneg_spec by lia. pose proof (Z.log2_le_mono a b). lia.
Qed.

Lemma bitlen_lt_pow2 (t w : Z) : 0 <= t < 2 ^ w -> 0 <= w -> bitlen t <= Z.max 1 w.
Proof.
  intros H Hw. destruct (Z.eq_dec t 0) as [->|]; [cbn; lia|].
  rewrite bitlen_nonneg_spec by lia. pose proof (Z.log2_lt_pow2 t w ltac:(lia)). lia.
Qed.

Section Group.
  Variable G : group.
  Hypothesis WF : wf_group G.
  Let p := gp G.
  Let q := gq G.
  Let g := gg G.

  Let Hp : 2 < p. Proof. apply WF. Qed.
  Let Hodd : Z.odd p = true. Proof. apply WF. Qed.
  Let Hq : prime q. Proof. apply WF. Qed.
  Let Hgq : powm g q p = 1. Proof. apply WF. Qed.
  Let Hg1 : g mod p <> 1. Proof. apply WF. Qed.
  Let q2 : 2 <= q. Proof. now apply prime_ge_2. Qed.

  Lemma g_unit : Z.gcd g p = 1.
  Proof.
    apply (inverse_gcd g (g ^ (q - 1)) p); [lia|].
    replace (g * g ^ (q - 1)) with (g ^ q).
    - rewrite <- powm_spec by lia. exact Hgq.
    - replace q with (1 + (q - 1)) at 1 by lia. rewrite Z.pow_add_r, Z.pow_1_r by lia. reflexivity.
  Qed.

  Lemma gpow_unit (e : Z) : 0 <= e -> Z.gcd (powm g e p) p = 1.
  Proof. intros. apply gcd_powm; [lia|assumption|apply g_unit]. Qed.

  Lemma table_some (base : Z) : exists tab, fpowm_precompute base p (bitlen q) = Some tab.
  Proof. unfold fpowm_precompute. destruct (Z.eqb_spec p 0); [lia|eauto]. Qed.

  Lemma tpow_ok (protect : bool) (base e : Z) : Z.gcd base p = 1 -> wfe G e ->
    tpow G protect base e = inl (powm base e p).
  Proof.
    intros U [He Hb]. unfold tpow, table_of. fold p q.
    destruct (table_some base) as [tab E]. rewrite E. cbn [rbind].
    destruct protect.
    - rewrite (fspowm_eq base e p (bitlen q) tab) by (try assumption; lia).
      rewrite Z.abs_eq by lia.
      destruct (invm_coprime (powm base e p) p ltac:(lia) (gcd_powm base e p ltac:(lia) He U)) as [i Ei].
      rewrite Ei. destruct (Z.ltb_spec e 0); [lia|reflexivity].
    - rewrite (fpowm_eq base e p (bitlen q) tab) by (try assumption; lia).
      unfold powm_ref. destruct (Z.ltb_spec e 0); [lia|reflexivity].
  Qed.

  Lemma index_element_tab_ok (tab : list Z) (i : Z) : fpowm_precompute g p (bitlen q) = Some tab -> wfe G i ->
    index_element_tab G tab i = inl (powm g i p).
  Proof.
    intros E [Hi Hb]. unfold index_element_tab. fold p q g.
    rewrite (fpowm_ui_eq g i p (bitlen q) tab) by (try assumption; lia).
    cbn [of_outcome]. now rewrite powm_spec by lia.
  Qed.

  Lemma index_element_ok (i : Z) : wfe G i -> index_element G i = inl (powm g i p).
  Proof.
    intros Hi. unfold index_element, table_of. fold p q g.
    destruct (table_some g) as [tab E]. rewrite E. cbn [rbind]. now apply index_element_tab_ok.
  Qed.

  Lemma key_share_ok (x : Z) : wfe G x -> key_share G x = inl (powm g x p).
  Proof. intros. apply tpow_ok; [apply g_unit|assumption]. Qed.

  Lemma map_key_share (xs : list Z) : Forall (wfe G) xs ->
    map_res (key_share G) xs = inl (map (fun x => powm g x p) xs).
  Proof.
    induction 1 as [|x xs Hx _ IH]; [reflexivity|]. cbn [map_res map].
    rewrite key_share_ok, IH by assumption. reflexivity.
  Qed.

  Lemma zsum_nonneg (xs : list Z) : Forall (wfe G) xs -> 0 <= zsum xs.
  Proof. induction 1 as [|x xs [Hx _] _ IH]; cbn [zsum fold_right]; [lia|]. fold (zsum xs). lia. Qed.

  (* products of powers of one base *)
  Lemma fold_pow (base : Z) (es : list Z) : Forall (fun e => 0 <= e) es -> forall a, 0 <= a ->
    fold_left (fun h hj => (h * hj) mod p) (map (fun e => powm base e p) es) (powm base a p)
    = powm base (a + zsum es) p.
  Proof.
    induction 1 as [|e es He _ IH]; intros a Ha; cbn [map fold_left zsum fold_right].
    - now rewrite Z.add_0_r.
    - fold (zsum es). rewrite <- powm_add by lia. rewrite IH by lia. f_equal. lia.
  Qed.

  Lemma wfe_nonneg (xs : list Z) : Forall (wfe G) xs -> Forall (fun e => 0 <= e) xs.
  Proof. apply Forall_impl. intros a [H _]. exact H. Qed.

  Lemma common_key_ok (x : Z) (xs : list Z) : wfe G x -> Forall (wfe G) xs ->
    common_key G (powm g x p) (map (fun x => powm g x p) xs) = powm g (x + zsum xs) p.
  Proof. intros [Hx _] Hxs. unfold common_key. fold p. apply fold_pow; [now apply wfe_nonneg|assumption]. Qed.

  (* ---- decryption ------------------------------------------------------------------------------------ *)
  Lemma dec_share_ok (R x : Z) : 0 <= R -> 0 <= x -> dec_share G (powm g R p) x = inl (powm g (R * x) p).
  Proof.
    intros HR Hx. unfold dec_share. fold p.
    destruct (spowm_ok (powm g R p) x p ltac:(lia) Hodd (gpow_unit R HR)) as [r [E1 E2]].
    rewrite E1. cbn [of_outcome]. unfold powm_ref in E2. destruct (Z.ltb_spec x 0); [lia|].
    inversion E2. now rewrite <- powm_mul by lia.
  Qed.

  Lemma map_dec_share (R : Z) (xs : list Z) : 0 <= R -> Forall (fun e => 0 <= e) xs ->
    map_res (dec_share G (powm g R p)) xs = inl (map (fun e => powm g e p) (map (fun x => R * x) xs)).
  Proof.
    intros HR. induction 1 as [|x xs Hx _ IH]; [reflexivity|]. cbn [map_res map].
    rewrite dec_share_ok, IH by assumption. reflexivity.
  Qed.

  Lemma zsum_scale (R : Z) (xs : list Z) : zsum (map (fun x => R * x) xs) = R * zsum xs.
  Proof. induction xs as [|x xs IH]; cbn [map zsum fold_right]; [lia|]. fold (zsum xs) (zsum (map (fun x => R * x) xs)). lia. Qed.

  (* with D the exponent collected and E the rest: c2 = g^(E + D), d = g^D  ==>  m = g^E *)
  Lemma dec_finalize_ok (E D : Z) : 0 <= E -> 0 <= D ->
    dec_finalize G (powm g D p) (powm g (E + D) p) = inl (powm g E p).
  Proof.
    intros HE HD. unfold dec_finalize. fold p.
    destruct (invm_coprime (powm g D p) p ltac:(lia) (gpow_unit D HD)) as [i Ei]. rewrite Ei.
    apply invm_some in Ei. destruct Ei as (_ & _ & Hi). f_equal.
    rewrite powm_add by lia. rewrite Zmult_mod_idemp_r.
    replace (i * (powm g E p * powm g D p)) with (powm g E p * (powm g D p * i)) by ring.
    rewrite <- Zmult_mod_idemp_r, Hi, Zmult_mod_idemp_r, Z.mul_1_r.
    apply Z.mod_small. apply powm_range; lia.
  Qed.

  (* ---- recognising the type ---------------------------------------------------------------------------- *)
  Lemma gpow_inj (a b : Z) : 0 <= a < q -> 0 <= b -> powm g a p = powm g b p -> a = b mod q.
  Proof.
    intros Ha Hb E. rewrite <- (powm_mod_q p q g ltac:(lia) Hq Hgq b Hb) in E.
    apply (powm_inj_small p q g ltac:(lia) Hq Hgq Hg1); [assumption|apply Z.mod_pos_bound; lia|assumption].
  Qed.

  Section Rec.
  Variable w : nat.
  Hypothesis Hw : 2 ^ Z.of_nat w <= q.
  Hypothesis Hw2 : Z.of_nat w <= TMCG_MAX_FPOWM_T.

  Lemma small_wfe (t : Z) : 0 <= t < 2 ^ Z.of_nat w -> wfe G t.
  Proof.
    intros Ht. split; [lia|]. fold q. apply Z.min_glb.
    - apply bitlen_mono. lia.
    - pose proof (bitlen_lt_pow2 t (Z.of_nat w) Ht ltac:(lia)). pose proof max_pos. lia.
  Qed.

  Definition expected_type (E : Z) : Z := if E mod q <? 2 ^ Z.of_nat w then E mod q else 2 ^ Z.of_nat w.

  Lemma find_type_spec (tab : list Z) (E : Z) : fpowm_precompute g p (bitlen q) = Some tab -> 0 <= E ->
    forall n t0, 0 <= t0 -> t0 + Z.of_nat n = 2 ^ Z.of_nat w ->
    (forall t, 0 <= t < t0 -> t <> E mod q) ->
    find_type G tab (powm g E p) n t0 (2 ^ Z.of_nat w) = inl (expected_type E).
  Proof.
    intros Etab HE. induction n as [|n IH]; intros t0 Ht0 Hsum Hprev; cbn [find_type].
    - unfold expected_type. destruct (Z.ltb_spec (E mod q) (2 ^ Z.of_nat w)) as [L|L]; [|reflexivity].
      exfalso. apply (Hprev (E mod q)); [|reflexivity]. pose proof (Z.mod_pos_bound E q ltac:(lia)). lia.
    - rewrite (index_element_tab_ok tab t0 Etab) by (apply small_wfe; lia). cbn [rbind].
      destruct (Z.eqb_spec (powm g E p) (powm g t0 p)) as [Eq|Ne].
      + symmetry in Eq. apply gpow_inj in Eq; [|lia|lia]. unfold expected_type.
        rewrite <- Eq. destruct (Z.ltb_spec t0 (2 ^ Z.of_nat w)); [reflexivity|lia].
      + apply IH; [lia|lia|]. intros t Ht. destruct (Z.eq_dec t t0) as [->|]; [|apply Hprev; lia].
        intros Et. apply Ne. rewrite Et. symmetry. apply (powm_mod_q p q g ltac:(lia) Hq Hgq E HE).
  Qed.

  Lemma type_of_message_ok (E : Z) : 0 <= E -> type_of_message G w (powm g E p) = inl (expected_type E).
  Proof.
    intros HE. unfold type_of_message, table_of. fold p q g.
    destruct (table_some g) as [tab Etab]. rewrite Etab. cbn [rbind].
    apply find_type_spec; [assumption|assumption|lia| |intros; lia].
    rewrite Nat2Z.inj_pow. reflexivity.
  Qed.
  End Rec.
  Section Key.
  (* ---- cards: (g^R, g^(T + X*R)) where h = g^X --------------------------------------------------- *)
  Variable X : Z.
  Hypothesis HX : 0 <= X.
  Let h := powm g X p.

  Definition card_of (T R : Z) : Z * Z := (powm g R p, powm g (T + X * R) p).

  Lemma h_pow (r : Z) : 0 <= r -> powm h r p = powm g (X * r) p.
  Proof. intros. unfold h. now rewrite <- powm_mul by lia. Qed.

  Lemma remask_ok (protect : bool) (T R r : Z) : 0 <= T -> 0 <= R -> wfe G r ->
    remask G h protect (card_of T R) r = inl (card_of T (R + r)).
  Proof.
    intros HT HR Hr. pose proof Hr as [Hr0 _]. unfold remask. fold p g.
    rewrite (tpow_ok protect g r g_unit Hr). cbn [rbind].
    rewrite (tpow_ok protect h r (gpow_unit X HX) Hr). cbn [rbind].
    unfold card_of. cbn [fst snd]. rewrite h_pow by lia.
    rewrite <- !powm_add by nia. f_equal. f_equal; f_equal; lia.
  Qed.

  Lemma remask_chain_ok (chain : list (Z * bool)) : Forall (fun rb => wfe G (fst rb)) chain ->
    forall T R, 0 <= T -> 0 <= R ->
    remask_chain G h (card_of T R) chain = inl (card_of T (R + zsum (map fst chain))).
  Proof.
    induction 1 as [|[r b] chain Hr _ IH]; intros T R HT HR; cbn [remask_chain map zsum fold_right fst].
    - now rewrite Z.add_0_r.
    - fold (zsum (map fst chain)). cbn [fst] in Hr. rewrite remask_ok by assumption. cbn [rbind].
      destruct Hr as [Hr0 _]. rewrite IH by lia. f_equal. f_equal. lia.
  Qed.

  Lemma mask_ok (T r : Z) : 0 <= T -> wfe G r -> mask G h (powm g T p) r = inl (card_of T r).
  Proof.
    intros HT Hr. pose proof Hr as [Hr0 _]. unfold mask. fold p g.
    rewrite (tpow_ok true g r g_unit Hr). cbn [rbind].
    rewrite (tpow_ok true h r (gpow_unit X HX) Hr). cbn [rbind].
    unfold card_of. rewrite h_pow by lia. rewrite <- powm_add by nia. f_equal. f_equal. f_equal. lia.
  Qed.

  Lemma create_open_card_ok (T : Z) : wfe G T -> create_open_card G T = inl (card_of T 0).
  Proof.
    intros HT. pose proof HT as [HT0 _]. unfold create_open_card. rewrite index_element_ok by assumption.
    cbn [rbind]. unfold card_of. rewrite Z.mul_0_r, Z.add_0_r. f_equal. f_equal.
    cbn [powm]. rewrite Z.mod_1_l by lia. reflexivity.
  Qed.

  End Key.
End Group.

(* ---- the complete run ---------------------------------------------------------------------------------- *)
Lemma zsum_app (a b : list Z) : zsum (a ++ b) = zsum a + zsum b.
Proof. induction a as [|x a IH]; [reflexivity|]. cbn [app]. unfold zsum in *. cbn [fold_right]. rewrite IH. lia. Qed.

Lemma zsum_perm (a b : list Z) : Permutation a b -> zsum a = zsum b.
Proof.
  unfold zsum. induction 1; cbn [fold_right]; lia.
Qed.

Theorem open_run_spec (G : group) (w : nat) (x_own : Z) (others contributing missing : list Z) (T : Z)
    (chain : list (Z * bool)) :
  wf_group G -> 2 ^ Z.of_nat w <= gq G -> Z.of_nat w <= TMCG_MAX_FPOWM_T ->
  wfe G x_own -> Forall (wfe G) others -> Permutation others (contributing ++ missing) ->
  0 <= T < 2 ^ Z.of_nat w -> Forall (fun rb => wfe G (fst rb)) chain ->
  open_run G w x_own others contributing T chain
  = inl (expected_type G w (T + zsum (map fst chain) * zsum missing)).
Proof.
  intros WF Hw Hw2 Hx Hothers Perm HT Hchain.
  assert (Hall : Forall (wfe G) (contributing ++ missing)).
  { rewrite Forall_forall in *. intros x Hin. apply Hothers. apply Permutation_sym in Perm.
    now apply (Permutation_in x Perm). }
  apply Forall_app in Hall. destruct Hall as [Hc Hm].
  pose proof (zsum_nonneg G WF others Hothers) as So.
  pose proof (zsum_nonneg G WF contributing Hc) as Sc.
  pose proof (zsum_nonneg G WF missing Hm) as Sm.
  pose proof Hx as [Hx0 _].
  set (X := x_own + zsum others).
  set (R := zsum (map fst chain)).
  assert (HR : 0 <= R).
  { unfold R. clear - Hchain. induction Hchain as [|[r b] l [H _] _ IH]; cbn [map zsum fold_right fst]; [lia|].
    fold (zsum (map fst l)). cbn [fst] in H. lia. }
  assert (HTw : wfe G T) by (apply (small_wfe G WF w Hw Hw2); lia).
  unfold open_run.
  rewrite (key_share_ok G WF) by assumption. cbn [rbind].
  rewrite (map_key_share G WF) by assumption. cbn [rbind].
  rewrite (common_key_ok G WF) by assumption. fold X.
  rewrite (create_open_card_ok G WF X) by assumption. cbn [rbind].
  rewrite (remask_chain_ok G WF X ltac:(lia) chain Hchain) by lia. cbn [rbind]. rewrite Z.add_0_l. fold R.
  unfold card_of. cbn [fst snd].
  rewrite (dec_share_ok G WF) by lia. cbn [rbind].
  rewrite (map_dec_share G WF) by (try lia; now apply (wfe_nonneg G)). cbn [rbind].
  unfold dec_accumulate.
  rewrite (fold_pow G WF (gg G)) by (try nia; apply Forall_forall; intros y Hy; apply in_map_iff in Hy;
    destruct Hy as (x & <- & Hin); apply (wfe_nonneg G) in Hc; rewrite Forall_forall in Hc; specialize (Hc x Hin); nia).
  rewrite (zsum_scale G WF).
  assert (Esum : zsum others = zsum contributing + zsum missing).
  { rewrite (zsum_perm _ _ Perm). apply zsum_app. }
  replace (T + X * R) with ((T + R * zsum missing) + (R * x_own + R * zsum contributing)) by (unfold X; rewrite Esum; ring).
  rewrite (dec_finalize_ok G WF) by nia. cbn [rbind].
  apply (type_of_message_ok G WF w Hw Hw2). nia.
Qed.

(* all k players contribute: the card opens to T *)
Corollary open_all_shares (G : group) (w : nat) (x_own : Z) (others : list Z) (T : Z) (chain : list (Z * bool)) :
  wf_group G -> 2 ^ Z.of_nat w <= gq G -> Z.of_nat w <= TMCG_MAX_FPOWM_T ->
  wfe G x_own -> Forall (wfe G) others -> 0 <= T < 2 ^ Z.of_nat w -> Forall (fun rb => wfe G (fst rb)) chain ->
  open_run G w x_own others others T chain = inl T.
Proof.
  intros WF Hw Hw2 Hx Ho HT Hc.
  rewrite (open_run_spec G w x_own others others [] T chain) by (try assumption; now rewrite app_nil_r).
  cbn [zsum fold_right]. rewrite Z.mul_0_r, Z.add_0_r. unfold expected_type.
  pose proof (prime_ge_2 _ (proj1 (proj2 (proj2 WF)))).
  rewrite Z.mod_small by lia. destruct (Z.ltb_spec T (2 ^ Z.of_nat w)); [reflexivity|lia].
Qed.

(* a missing contribution: unless q divides R * x_missing, the result is never T (it is either another
   valid type or, for all but 2^w - 1 of the q residues, the sentinel 2^w) *)
Corollary open_missing_not_T (G : group) (w : nat) (x_own : Z) (others contributing missing : list Z) (T : Z)
    (chain : list (Z * bool)) (t : Z) :
  wf_group G -> 2 ^ Z.of_nat w <= gq G -> Z.of_nat w <= TMCG_MAX_FPOWM_T ->
  wfe G x_own -> Forall (wfe G) others -> Permutation others (contributing ++ missing) ->
  0 <= T < 2 ^ Z.of_nat w -> Forall (fun rb => wfe G (fst rb)) chain ->
  (zsum (map fst chain) * zsum missing) mod gq G <> 0 ->
  open_run G w x_own others contributing T chain = inl t -> t <> T.
Proof.
  intros WF Hw Hw2 Hx Ho Perm HT Hc Hne E.
  rewrite (open_run_spec G w x_own others contributing missing T chain) in E by assumption.
  inversion E as [E']. clear E. unfold expected_type.
  pose proof (prime_ge_2 _ (proj1 (proj2 (proj2 WF)))) as q2.
  set (RX := zsum (map fst chain) * zsum missing) in *.
  destruct (Z.ltb_spec ((T + RX) mod gq G) (2 ^ Z.of_nat w)) as [L|L]; [|lia].
  intros Eq. apply Hne.
  replace RX with ((T + RX) - T) by ring.
  rewrite Zminus_mod, Eq, (Z.mod_small T) by lia. rewrite Z.sub_diag. apply Zmod_0_l.
Qed.

(* exactly the sentinel, or a valid type: the two possible outcomes of an opening *)
Lemma expected_type_range (G : group) (w : nat) (E : Z) : 2 <= gq G ->
  0 <= expected_type G w E <= 2 ^ Z.of_nat w.
Proof.
  intros. unfold expected_type. pose proof (Z.mod_pos_bound E (gq G) ltac:(lia)).
  destruct (Z.ltb_spec (E mod gq G) (2 ^ Z.of_nat w)); lia.
Qed.

(* ---- a concrete group (non-vacuity) and a run in which a missing share yields another valid type ---------- *)
Lemma prime_11 : prime 11.
Proof.
  apply prime_intro; [lia|]. intros n Hn. apply Zgcd_1_rel_prime.
  assert (n = 1 \/ n = 2 \/ n = 3 \/ n = 4 \/ n = 5 \/ n = 6 \/ n = 7 \/ n = 8 \/ n = 9 \/ n = 10) as C by lia.
  repeat (destruct C as [-> | C]; [reflexivity|]). subst n. reflexivity.
Qed.

Lemma small_group_wf : wf_group {| gp := 23; gq := 11; gg := 2 |}.
Proof.
  unfold wf_group. cbn [gp gq gg]. split; [lia|]. split; [reflexivity|]. split; [exact prime_11|].
  split; [reflexivity|]. cbn. lia.
Qed.

Lemma small_wfe_11 (e : Z) : 0 <= e < 11 -> wfe {| gp := 23; gq := 11; gg := 2 |} e.
Proof.
  intros H. split; [lia|]. cbn [gq]. pose proof max_ge_64.
  pose proof (bitlen_mono e 10 ltac:(lia)) as B. change (bitlen 10) with 4 in B. change (bitlen 11) with 4. lia.
Qed.

Lemma open_missing_valid_type_witness :
  exists G w x_own others contributing T chain t,
    wf_group G /\ 2 ^ Z.of_nat w <= gq G /\ wfe G x_own /\ Forall (wfe G) others /\
    contributing <> others /\ 0 <= T < 2 ^ Z.of_nat w /\
    open_run G w x_own others contributing T chain = inl t /\ t <> T /\ t <> 2 ^ Z.of_nat w.
Proof.
  exists {| gp := 23; gq := 11; gg := 2 |}, 2%nat, 3, [5], [], 1, [(7, true)], 3.
  split; [exact small_group_wf|]. split; [cbn; lia|]. split; [apply small_wfe_11; lia|].
  split; [constructor; [apply small_wfe_11; lia|constructor]|]. split; [discriminate|].
  split; [cbn; lia|]. split; [vm_compute; reflexivity|]. split; [lia|cbn; lia].
Qed.

(* ---- rejected decryption shares ------------------------------------------------------------------------------ *)
Lemma rejected_update_unchanged (G : group) (d dj : Z) : dec_update G d (dj, false) = (false, d).
Proof. reflexivity. Qed.

Lemma accepted_update (G : group) (d dj : Z) : dec_update G d (dj, true) = (true, (d * dj) mod gp G).
Proof. reflexivity. Qed.

(* only the accepted attempts count, in their order *)
Lemma dec_attempts_filter (G : group) (atts : list (Z * bool)) : forall d,
  dec_attempts G d atts = dec_accumulate G d (map fst (filter snd atts)).
Proof.
  unfold dec_attempts, dec_accumulate. induction atts as [|[dj ok] tl IH]; intros d; [reflexivity|].
  cbn [fold_left filter snd]. destruct ok; cbn [dec_update snd fst map fold_left]; apply IH.
Qed.

Lemma offer_map (G : group) (c1 : Z) (atts : list attempt) :
  match map_res (offer G c1) atts, map_res (dec_share G c1) (goods atts) with
  | inl l, inl ds => forall d, dec_attempts G d l = dec_accumulate G d ds
  | inr e, inr e' => e = e'
  | _, _ => False
  end.
Proof.
  induction atts as [|a tl IH]; [intros d; reflexivity|].
  destruct a as [x|dj]; cbn [map_res offer goods flat_map app].
  - fold (goods tl). destruct (dec_share G c1 x) as [s|e]; cbn [rbind]; [|reflexivity].
    destruct (map_res (offer G c1) tl) as [l|e], (map_res (dec_share G c1) (goods tl)) as [ds|e']; cbn [rbind]; try assumption.
    intros d. unfold dec_attempts, dec_accumulate. cbn [fold_left dec_update snd fst]. apply IH.
  - fold (goods tl). cbn [rbind].
    destruct (map_res (offer G c1) tl) as [l|e], (map_res (dec_share G c1) (goods tl)) as [ds|e']; cbn [rbind]; assumption.
Qed.

Theorem open_run_att_eq (G : group) (w : nat) (x_own : Z) (others : list Z) (atts : list attempt) (T : Z)
    (chain : list (Z * bool)) :
  open_run_att G w x_own others atts T chain = open_run G w x_own others (goods atts) T chain.
Proof.
  unfold open_run_att, open_run.
  repeat match goal with
         | |- rbind ?x _ = rbind ?x _ => destruct x; cbn [rbind]; [|reflexivity]
         end.
  match goal with |- context [map_res (offer G ?c1) atts] => pose proof (offer_map G c1 atts) as H;
    destruct (map_res (offer G c1) atts) as [lo|eo], (map_res (dec_share G c1) (goods atts)) as [dso|eo'] end;
    cbn [rbind]; try contradiction; [now rewrite H|now subst].
Qed.

(* any interleaving of rejected and accepted update attempts: as soon as the accepted ones are the correct shares of
   all other players, the card opens to T *)
Corollary open_after_rejected_shares (G : group) (w : nat) (x_own : Z) (others : list Z) (atts : list attempt) (T : Z)
    (chain : list (Z * bool)) :
  wf_group G -> 2 ^ Z.of_nat w <= gq G -> Z.of_nat w <= TMCG_MAX_FPOWM_T ->
  wfe G x_own -> Forall (wfe G) others -> Permutation others (goods atts) ->
  0 <= T < 2 ^ Z.of_nat w -> Forall (fun rb => wfe G (fst rb)) chain ->
  open_run_att G w x_own others atts T chain = inl T.
Proof.
  intros WF Hw Hw2 Hx Ho Perm HT Hc. rewrite open_run_att_eq.
  rewrite (open_run_spec G w x_own others (goods atts) [] T chain) by (try assumption; now rewrite app_nil_r).
  cbn [zsum fold_right]. rewrite Z.mul_0_r, Z.add_0_r. unfold expected_type.
  pose proof (prime_ge_2 _ (proj1 (proj2 (proj2 WF)))).
  rewrite Z.mod_small by lia. destruct (Z.ltb_spec T (2 ^ Z.of_nat w)); [reflexivity|lia].
Qed.
