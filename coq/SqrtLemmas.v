(* SqrtLemmas -- proofs about SqrtModel (C09): the p = 3 (mod 4) and p = 5 (mod 8) branches of the square root
   modulo a prime, and the CRT combination for n = p*q.  "a is a quadratic residue" is used in Euler's form
   a^((p-1)/2) = 1 (mod p) -- the Legendre test; the non-residue b likewise as b^((p-1)/2) = p-1. *)
From Coq Require Import ZArith Znumtheory Lia List Bool ZifyBool.
From LT Require Import Zbase SqrtModel.
Import ListNotations.
Local Open Scope Z_scope.

Ltac divlia := Z.to_euclidean_division_equations; lia.

Lemma sq_powm (a e p : Z) : 0 < p -> 0 <= e -> (powm a e p * powm a e p) mod p = powm a (2 * e) p.
Proof. intros. replace (2 * e) with (e + e) by lia. now rewrite powm_add by lia. Qed.

Lemma powm_succ (a e p : Z) : 0 < p -> 0 <= e -> powm a (e + 1) p = (powm a e p * (a mod p)) mod p.
Proof. intros. rewrite powm_add by lia. now rewrite powm_1_r. Qed.

(* square roots of 1 modulo a prime *)
Lemma sqrt_one_prime (p x : Z) : prime p -> 0 <= x < p -> (x * x) mod p = 1 -> x = 1 \/ x = p - 1.
Proof.
  intros Hp Hx H. pose proof (prime_ge_2 _ Hp) as P2.
  assert (D : (p | (x - 1) * (x + 1))).
  { apply Z.mod_divide; [lia|]. replace ((x - 1) * (x + 1)) with (x * x - 1) by ring.
    rewrite Zminus_mod, H. rewrite Z.mod_1_l by lia. reflexivity. }
  apply prime_mult in D; [|assumption]. destruct D as [[k D]|[k D]].
  - left. assert (k = 0) by nia. lia.
  - right. assert (k = 1) by nia. lia.
Qed.

Lemma minus_one_sq (p : Z) : 1 < p -> ((p - 1) * (p - 1)) mod p = 1.
Proof.
  intros. replace ((p - 1) * (p - 1)) with (1 + (p - 2) * p) by ring.
  rewrite Z.mod_add by lia. apply Z.mod_1_l. lia.
Qed.

Lemma sq_combine (p R B X Y : Z) : 0 < p -> (R * R) mod p = X mod p -> (B * B) mod p = Y mod p ->
  (((R * B) mod p) * ((R * B) mod p)) mod p = (X * Y) mod p.
Proof.
  intros Hp H1 H2. rewrite <- Zmult_mod. replace (R * B * (R * B)) with ((R * R) * (B * B)) by ring.
  rewrite Zmult_mod, H1, H2, <- Zmult_mod. reflexivity.
Qed.

(* ---- p = 3 (mod 4): no primality needed ----------------------------------------------------------- *)
Theorem sqrtmp_3mod4 (a p b : Z) : 0 < p -> p mod 4 = 3 -> a <> 0 -> powm a ((p - 1) / 2) p = 1 ->
  exists r, sqrtmp_with a p b = SqOk r /\ 0 <= r < p /\ (r * r) mod p = a mod p.
Proof.
  intros Hp H3 Ha HQ. unfold sqrtmp_with.
  destruct (Z.eqb_spec p 2) as [E2|_]; [rewrite E2 in H3; discriminate H3|].
  destruct (Z.eqb_spec a 0); [contradiction|]. rewrite H3. cbn [Z.eqb Pos.eqb].
  eexists. split; [reflexivity|]. split; [apply powm_range; divlia|].
  rewrite sq_powm by divlia.
  replace (2 * ((p + 1) / 4)) with ((p - 1) / 2 + 1) by divlia.
  rewrite powm_succ by divlia. rewrite HQ, Z.mul_1_l. apply Zmod_mod.
Qed.

(* ---- p = 5 (mod 8) ------------------------------------------------------------------------------------ *)
Theorem sqrtmp_5mod8 (a p b : Z) : prime p -> p mod 8 = 5 -> a <> 0 ->
  powm a ((p - 1) / 2) p = 1 -> powm b ((p - 1) / 2) p = p - 1 ->
  exists r, sqrtmp_with a p b = SqOk r /\ 0 <= r < p /\ (r * r) mod p = a mod p.
Proof.
  intros Pp H5 Ha HQ HN. pose proof (prime_ge_2 _ Pp) as P2. unfold sqrtmp_with.
  destruct (Z.eqb_spec p 2) as [E2|_]; [rewrite E2 in H5; discriminate H5|].
  destruct (Z.eqb_spec a 0); [contradiction|].
  assert (E4 : p mod 4 = 1) by (clear - H5; divlia).
  assert (P3 : p <> 2) by (intros ->; discriminate H5).
  rewrite E4, H5. cbn [Z.eqb Pos.eqb].
  set (s := (p - 1) / 4). set (foo := powm a s p). set (root := powm a ((p + 3) / 8) p).
  assert (Hs : 0 <= s) by (unfold s; divlia).
  assert (F2 : (foo * foo) mod p = 1).
  { unfold foo. rewrite sq_powm by lia. replace (2 * s) with ((p - 1) / 2) by (unfold s; divlia). exact HQ. }
  assert (R2 : (root * root) mod p = (foo * (a mod p)) mod p).
  { unfold root. rewrite sq_powm by divlia. replace (2 * ((p + 3) / 8)) with (s + 1) by (unfold s; divlia).
    now rewrite powm_succ by lia. }
  destruct (sqrt_one_prime p foo Pp (powm_range a s p ltac:(lia) Hs) F2) as [F|F].
  - rewrite F. cbn [Z.eqb Pos.eqb]. exists root. split; [reflexivity|]. split; [apply powm_range; divlia|].
    rewrite R2, F, Z.mul_1_l. apply Zmod_mod.
  - destruct (Z.eqb_spec foo 1) as [F1|_]; [lia|].
    eexists. split; [reflexivity|]. split; [apply Z.mod_pos_bound; lia|].
    rewrite (sq_combine p root (powm b s p) (foo * (a mod p)) (p - 1)); try lia.
    + rewrite F. replace ((p - 1) * (a mod p) * (p - 1)) with (((p - 1) * (p - 1)) * (a mod p)) by ring.
      rewrite <- Zmult_mod_idemp_l, minus_one_sq, Z.mul_1_l by lia. apply Zmod_mod.
    + rewrite sq_powm by lia. replace (2 * s) with ((p - 1) / 2) by (unfold s; divlia). rewrite HN.
      symmetry. apply Z.mod_small. lia.
Qed.

(* ---- CRT combination ------------------------------------------------------------------------------------- *)
Lemma crt_divide (p q x : Z) (u v : Z) : u * p + v * q = 1 -> (p | x) -> (q | x) -> (p * q | x).
Proof.
  intros B [k1 H1] [k2 H2]. exists (u * k2 + v * k1).
  replace x with (x * (u * p + v * q)) by (rewrite B; ring).
  rewrite Z.mul_add_distr_l.
  replace (x * (u * p)) with (k2 * q * (u * p)) by (rewrite <- H2; ring).
  replace (x * (v * q)) with (k1 * p * (v * q)) by (rewrite <- H1; ring). ring.
Qed.

(* a value congruent to rp modulo p and to +-rq modulo q squares to a modulo p*q *)
Lemma crt_square (a p q u v rp rq x : Z) : 0 < p -> 0 < q -> u * p + v * q = 1 ->
  (rp * rp) mod p = a mod p -> (rq * rq) mod q = a mod q ->
  (p | x - rp) -> (q | x - rq) \/ (q | x + rq) ->
  (x * x) mod (p * q) = a mod (p * q).
Proof.
  intros Hp Hq B Sp Sq Dp Dq.
  assert (Hn : 0 < p * q) by nia.
  assert (D : (p * q | x * x - a)).
  { apply (crt_divide p q _ u v B).
    - apply Z.mod_divide; [lia|]. destruct Dp as [k Dp].
      replace (x * x - a) with ((rp * rp - a) + (k * k * p + 2 * k * rp) * p) by (replace x with (rp + k * p) by lia; ring).
      rewrite Z.mod_add by lia. rewrite Zminus_mod, Sp, Z.sub_diag. apply Zmod_0_l.
    - apply Z.mod_divide; [lia|]. destruct Dq as [[k Dq]|[k Dq]].
      + replace (x * x - a) with ((rq * rq - a) + (k * k * q + 2 * k * rq) * q) by (replace x with (rq + k * q) by lia; ring).
        rewrite Z.mod_add by lia. rewrite Zminus_mod, Sq, Z.sub_diag. apply Zmod_0_l.
      + replace (x * x - a) with ((rq * rq - a) + (k * k * q - 2 * k * rq) * q) by (replace x with (- rq + k * q) by lia; ring).
        rewrite Z.mod_add by lia. rewrite Zminus_mod, Sq, Z.sub_diag. apply Zmod_0_l. }
  destruct D as [k D]. replace (x * x) with (a + k * (p * q)) by lia. apply Z.mod_add. lia.
Qed.

Lemma mod_divide_diff (x n : Z) (d : Z) : 0 < n -> (d | n) -> forall y, (d | x - y) -> (d | x mod n - y).
Proof.
  intros Hn [c Dn] y [k D]. exists (k - (x / n) * c).
  replace (x mod n - y) with ((x - y) - n * (x / n)) by (rewrite Z.mod_eq by lia; lia).
  rewrite D. rewrite Dn at 1. ring.
Qed.

Lemma neg_divide (n r d y : Z) : (d | n) -> (d | r - y) -> (d | (n - r) + y).
Proof. intros [c Dn] [k D]. exists (c - k). lia. Qed.

Theorem crt_roots_square (a p q u v rp rq : Z) : 0 < p -> 0 < q -> u * p + v * q = 1 ->
  (rp * rp) mod p = a mod p -> (rq * rq) mod q = a mod q ->
  let '(r1, r2, r3, r4) := crt_roots rp rq u v p q (p * q) in
  (r1 * r1) mod (p * q) = a mod (p * q) /\ (r2 * r2) mod (p * q) = a mod (p * q) /\
  (r3 * r3) mod (p * q) = a mod (p * q) /\ (r4 * r4) mod (p * q) = a mod (p * q).
Proof.
  intros Hp Hq B Sp Sq. unfold crt_roots. cbv zeta.
  assert (Hn : 0 < p * q) by nia.
  assert (Dpn : (p | p * q)) by (exists q; ring).
  assert (Dqn : (q | p * q)) by (exists p; ring).
  set (x1 := rq * u * p + rp * v * q). set (x3 := - rq * u * p + rp * v * q).
  assert (Bq : v * q = 1 - u * p) by lia.
  assert (Bp : u * p = 1 - v * q) by lia.
  assert (P1 : (p | x1 - rp)).
  { exists (rq * u - rp * u). unfold x1. replace (rp * v * q) with (rp * (v * q)) by ring. rewrite Bq. ring. }
  assert (Q1 : (q | x1 - rq)).
  { exists (rp * v - rq * v). unfold x1. replace (rq * u * p) with (rq * (u * p)) by ring. rewrite Bp. ring. }
  assert (P3 : (p | x3 - rp)).
  { exists (- rq * u - rp * u). unfold x3. replace (rp * v * q) with (rp * (v * q)) by ring. rewrite Bq. ring. }
  assert (Q3 : (q | x3 + rq)).
  { exists (rp * v + rq * v). unfold x3. replace (- rq * u * p) with (- rq * (u * p)) by ring. rewrite Bp. ring. }
  pose proof (mod_divide_diff x1 (p * q) p Hn Dpn rp P1) as P1m.
  pose proof (mod_divide_diff x1 (p * q) q Hn Dqn rq Q1) as Q1m.
  pose proof (mod_divide_diff x3 (p * q) p Hn Dpn rp P3) as P3m.
  pose proof (mod_divide_diff x3 (p * q) q Hn Dqn (- rq)) as Q3m.
  replace (x3 - - rq) with (x3 + rq) in Q3m by lia. specialize (Q3m Q3).
  replace (x3 mod (p * q) - - rq) with (x3 mod (p * q) + rq) in Q3m by lia.
  repeat split.
  - apply (crt_square a p q u v rp rq); auto.
  - apply (crt_square a p q u v (- rp) rq); auto; try (now rewrite Z.mul_opp_opp).
    + destruct P1m as [k D]. exists (q - k). lia.
    + right. destruct Q1m as [k D]. exists (p - k). lia.
  - apply (crt_square a p q u v rp rq); auto.
  - apply (crt_square a p q u v (- rp) rq); auto; try (now rewrite Z.mul_opp_opp).
    + destruct P3m as [k D]. exists (q - k). lia.
    + left. destruct Q3m as [k D]. exists (p - k). lia.
Qed.

(* ---- the entry points modulo n = p*q ---------------------------------------------------------------------- *)
Definition sqrt_ok (a p b : Z) : Prop :=
  exists r, sqrtmp_with a p b = SqOk r /\ 0 <= r < p /\ (r * r) mod p = a mod p.

Definition all_square (a n : Z) (r : Z * Z * Z * Z) : Prop :=
  let '(r1, r2, r3, r4) := r in
  (r1 * r1) mod n = a mod n /\ (r2 * r2) mod n = a mod n /\ (r3 * r3) mod n = a mod n /\ (r4 * r4) mod n = a mod n.

Theorem sqrtmn_all_ok (a p q u v bp bq : Z) : 0 < p -> 0 < q -> u * p + v * q = 1 ->
  sqrt_ok a p bp -> sqrt_ok a q bq ->
  exists r, sqrtmn_all_with a p q (p * q) u v bp bq = inl (Some r) /\ all_square a (p * q) r.
Proof.
  intros Hp Hq B (rp & Ep & _ & Sp) (rq & Erq & _ & Sq). unfold sqrtmn_all_with.
  assert (G : Z.gcd p q = 1).
  { apply Zgcd_1_rel_prime. apply bezout_rel_prime. apply (Bezout_intro p q 1 u v). lia. }
  rewrite G, Ep, Erq. cbn [Z.eqb Pos.eqb negb].
  eexists. split; [reflexivity|].
  pose proof (crt_roots_square a p q u v rp rq Hp Hq B Sp Sq) as C.
  unfold all_square. destruct (crt_roots rp rq u v p q (p * q)) as [[[r1 r2] r3] r4]. exact C.
Qed.

Lemma smallest4_in (r1 r2 r3 r4 : Z) :
  let m := smallest4 (r1, r2, r3, r4) in m = r1 \/ m = r2 \/ m = r3 \/ m = r4.
Proof.
  unfold smallest4.
  destruct (Z.abs r2 <? Z.abs r1); destruct (Z.abs r3 <? Z.abs _); destruct (Z.abs r4 <? Z.abs _); auto.
Qed.

Theorem sqrtmn_ok (a p q u v bp bq : Z) : 0 < p -> 0 < q -> u * p + v * q = 1 ->
  sqrt_ok a p bp -> sqrt_ok a q bq ->
  exists r, sqrtmn_with a p q (p * q) u v bp bq = SqOk r /\ (r * r) mod (p * q) = a mod (p * q).
Proof.
  intros Hp Hq B Op Oq. destruct (sqrtmn_all_ok a p q u v bp bq Hp Hq B Op Oq) as ([[[r1 r2] r3] r4] & E & S).
  unfold sqrtmn_with. rewrite E. eexists. split; [reflexivity|].
  destruct S as (S1 & S2 & S3 & S4).
  destruct (smallest4_in r1 r2 r3 r4) as [H | [H | [H | H]]]; cbv zeta in H; rewrite H; assumption.
Qed.

(* Blum integers through the precomputed path of TMCG_SecretKey: up = u*p, vq = v*q, exponents (p+1)/4, (q+1)/4 *)
Theorem sqrtmn_fast_all_ok (a p q u v : Z) : 0 < p -> 0 < q -> p mod 4 = 3 -> q mod 4 = 3 -> u * p + v * q = 1 ->
  powm a ((p - 1) / 2) p = 1 -> powm a ((q - 1) / 2) q = 1 ->
  all_square a (p * q) (sqrtmn_fast_all a p q (p * q) (u * p) (v * q) ((p + 1) / 4) ((q + 1) / 4)) /\
  let r := sqrtmn_fast a p q (p * q) (u * p) (v * q) ((p + 1) / 4) ((q + 1) / 4) in
  (r * r) mod (p * q) = a mod (p * q).
Proof.
  intros Hp Hq P3 Q3 B HQp HQq.
  set (rp := powm a ((p + 1) / 4) p). set (rq := powm a ((q + 1) / 4) q).
  assert (Sp : (rp * rp) mod p = a mod p).
  { unfold rp. rewrite sq_powm by divlia. replace (2 * ((p + 1) / 4)) with ((p - 1) / 2 + 1) by divlia.
    rewrite powm_succ by divlia. rewrite HQp, Z.mul_1_l. apply Zmod_mod. }
  assert (Sq : (rq * rq) mod q = a mod q).
  { unfold rq. rewrite sq_powm by divlia. replace (2 * ((q + 1) / 4)) with ((q - 1) / 2 + 1) by divlia.
    rewrite powm_succ by divlia. rewrite HQq, Z.mul_1_l. apply Zmod_mod. }
  pose proof (crt_roots_square a p q u v rp rq Hp Hq B Sp Sq) as C.
  assert (E : sqrtmn_fast_all a p q (p * q) (u * p) (v * q) ((p + 1) / 4) ((q + 1) / 4) = crt_roots rp rq u v p q (p * q)).
  { unfold sqrtmn_fast_all, crt_roots. fold rp rq. cbv zeta.
    replace (rq * (u * p) + rp * (v * q)) with (rq * u * p + rp * v * q) by ring.
    replace (- rq * (u * p) + rp * (v * q)) with (- rq * u * p + rp * v * q) by ring. reflexivity. }
  rewrite E. unfold all_square. unfold crt_roots in *. cbv zeta in *. split; [exact C|].
  unfold sqrtmn_fast. fold rp rq.
  replace (rq * (u * p) + rp * (v * q)) with (rq * u * p + rp * v * q) by ring. apply C.
Qed.

Corollary sqrt_ok_3mod4 (a p b : Z) : 0 < p -> p mod 4 = 3 -> a <> 0 -> powm a ((p - 1) / 2) p = 1 -> sqrt_ok a p b.
Proof. intros. now apply sqrtmp_3mod4. Qed.

Corollary sqrt_ok_5mod8 (a p b : Z) : prime p -> p mod 8 = 5 -> a <> 0 ->
  powm a ((p - 1) / 2) p = 1 -> powm b ((p - 1) / 2) p = p - 1 -> sqrt_ok a p b.
Proof. intros. now apply sqrtmp_5mod8. Qed.

(* p = 2: answered by the guard (every residue is its own square root), also for a = 0 *)
Lemma sqrtmp_modulus_2 (a b : Z) : exists r, sqrtmp_with a 2 b = SqOk r /\ 0 <= r < 2 /\ (r * r) mod 2 = a mod 2.
Proof.
  unfold sqrtmp_with. cbn [Z.eqb Pos.eqb]. eexists. split; [reflexivity|].
  rewrite (Zmod_odd a). destruct (Z.odd a); cbn; lia.
Qed.

(* ---- p = 1 (mod 8): the two loops (Tonelli-Shanks in the formulation of the code) ------------------------------- *)
Section TS.
  Variables a p b : Z.
  Hypothesis Pp : prime p.
  Hypothesis P8 : p mod 8 = 1.
  Hypothesis HQ : powm a ((p - 1) / 2) p = 1.
  Hypothesis HN : powm b ((p - 1) / 2) p = p - 1.

  Let P2 : 2 < p.
  Proof. pose proof (prime_ge_2 _ Pp). assert (p <> 2) by (intros E; rewrite E in P8; discriminate P8). lia. Qed.

  Lemma ts_loop1_spec : forall fuel s, 0 < s < 2 ^ Z.of_nat fuel -> powm a (2 * s) p = 1 ->
    exists res, ts_loop1 fuel a p s = Some res /\
      match res with
      | inl r => 0 <= r < p /\ (r * r) mod p = a mod p
      | inr s1 => 0 < s1 /\ (s1 | s) /\ powm a s1 p = p - 1
      end.
  Proof.
    induction fuel as [|fuel IH]; intros s Hs H2; [cbn in Hs; lia|].
    cbn [ts_loop1]. destruct (Z.eqb_spec (powm a s p) 1) as [E1|N1].
    - destruct (Z.odd s) eqn:Od.
      + eexists. split; [reflexivity|]. split; [apply powm_range; divlia|].
        rewrite sq_powm by divlia.
        assert (Es : 2 * ((s + 1) / 2) = s + 1).
        { apply Z.odd_spec in Od. destruct Od as [k Hk]. subst s. divlia. }
        rewrite Es, powm_succ by lia. rewrite E1, Z.mul_1_l. apply Zmod_mod.
      + assert (Ev : s = 2 * (s / 2)).
        { assert (Z.even s = true) by (rewrite <- Z.negb_odd, Od; reflexivity).
          apply Z.even_spec in H. destruct H as [k Hk]. subst s. divlia. }
        destruct (IH (s / 2)) as [res [Er Hr]].
        * rewrite Nat2Z.inj_succ, Z.pow_succ_r in Hs by lia. lia.
        * rewrite <- Ev. exact E1.
        * exists res. split; [exact Er|]. destruct res as [r|s1]; [exact Hr|].
          destruct Hr as (H0 & [c Hc] & H3). split; [assumption|]. split; [|assumption].
          exists (2 * c). lia.
    - eexists. split; [reflexivity|]. cbn beta iota. split; [lia|]. split; [apply Z.divide_refl|].
      assert (F2 : (powm a s p * powm a s p) mod p = 1) by (rewrite sq_powm by lia; exact H2).
      destruct (sqrt_one_prime p (powm a s p) Pp (powm_range a s p ltac:(lia) ltac:(lia)) F2); [contradiction|assumption].
  Qed.

  Definition ts_inv (s t : Z) : Prop :=
    0 < s /\ (powm a s p * powm b t p) mod p = 1 /\ (exists u, 0 <= u /\ t = 2 * s * u) /\
    (exists c, 0 <= c /\ (p - 1) / 2 = 2 * s * c).

  Lemma ts_loop2_spec : forall fuel s t, s < 2 ^ Z.of_nat fuel -> ts_inv s t ->
    exists s2 t2, ts_loop2 fuel a p b s t = Some (s2, t2) /\ ts_inv s2 t2 /\ Z.odd s2 = true.
  Proof.
    induction fuel as [|fuel IH]; intros s t Hs Inv; [destruct Inv as [H0 _]; cbn in Hs; lia|].
    destruct Inv as (S0 & Prod & [u [Hu Ht]] & [c [Hc Hpc]]).
    cbn [ts_loop2]. destruct (Z.even s) eqn:Ev.
    - assert (Es : s = 2 * (s / 2)).
      { apply Z.even_spec in Ev. destruct Ev as [k Hk]. subst s. divlia. }
      set (s' := s / 2) in *. clearbody s'. subst s.
      assert (Et : t / 2 = 2 * s' * u) by (subst t; divlia).
      assert (S0' : 0 < s') by lia.
      set (foo := (powm a s' p * powm b (t / 2) p) mod p).
      assert (Fr : 0 <= foo < p) by (apply Z.mod_pos_bound; lia).
      assert (F2 : (foo * foo) mod p = 1).
      { unfold foo. rewrite (sq_combine p (powm a s' p) (powm b (t / 2) p) (powm a (2 * s') p) (powm b t p)); try lia.
        - rewrite sq_powm by lia. symmetry. apply Z.mod_small. apply powm_range; lia.
        - rewrite sq_powm by nia. replace (2 * (t / 2)) with t by nia. symmetry. apply Z.mod_small. apply powm_range; nia. }
      apply IH.
      + rewrite Nat2Z.inj_succ, Z.pow_succ_r in Hs by lia. lia.
      + destruct (sqrt_one_prime p foo Pp Fr F2) as [F|F].
        * destruct (Z.eqb_spec ((foo + 1) mod p) 0) as [Z0|_].
          { exfalso. rewrite F in Z0. rewrite Z.mod_small in Z0 by lia. lia. }
          split; [assumption|]. split; [fold foo; exact F|]. split; [exists u; split; [assumption|lia]|].
          exists (2 * c). split; [lia|]. rewrite Hpc. ring.
        * destruct (Z.eqb_spec ((foo + 1) mod p) 0) as [_|NZ].
          2:{ exfalso. apply NZ. rewrite F. replace (p - 1 + 1) with (0 + 1 * p) by ring.
              rewrite Z.mod_add by lia. reflexivity. }
          split; [assumption|]. split.
          { rewrite powm_add by nia. rewrite HN. rewrite Zmult_mod_idemp_r.
            rewrite Z.mul_assoc. rewrite <- Zmult_mod_idemp_l. fold foo. rewrite F. apply minus_one_sq. lia. }
          split.
          { exists (u + 2 * c). split; [lia|]. rewrite Et, Hpc. ring. }
          exists (2 * c). split; [lia|]. rewrite Hpc. ring.
    - exists s, t. split; [reflexivity|]. split.
      + split; [assumption|]. split; [assumption|]. split; [exists u|exists c]; auto.
      + rewrite <- Z.negb_even, Ev. reflexivity.
  Qed.

  Lemma log2_up_fuel (s : Z) : 0 < s < p -> s < 2 ^ Z.of_nat (sq_fuel p).
  Proof.
    intros Hs. unfold sq_fuel. rewrite Nat2Z.inj_succ, Z2Nat.id by apply Z.log2_up_nonneg.
    rewrite Z.pow_succ_r by apply Z.log2_up_nonneg.
    pose proof (Z.log2_up_spec p ltac:(lia)). lia.
  Qed.

  Theorem sqrtmp_1mod8 : a <> 0 ->
    exists r, sqrtmp_with a p b = SqOk r /\ 0 <= r < p /\ (r * r) mod p = a mod p.
  Proof.
    intros Ha. unfold sqrtmp_with. destruct (Z.eqb_spec p 2) as [E2|_]; [lia|].
    destruct (Z.eqb_spec a 0); [contradiction|].
    assert (E4 : p mod 4 = 1) by (clear - P8; divlia). rewrite E4, P8. cbn [Z.eqb Pos.eqb].
    set (s0 := (p - 1) / 4).
    assert (Hs0 : 0 < s0 < p) by (unfold s0; clear - P2 P8; divlia).
    assert (H2 : powm a (2 * s0) p = 1).
    { replace (2 * s0) with ((p - 1) / 2) by (unfold s0; clear - P8; divlia). exact HQ. }
    destruct (ts_loop1_spec (sq_fuel p) s0 ltac:(split; [lia|apply log2_up_fuel; lia]) H2) as [res [E1 Hr]].
    rewrite E1. destruct res as [r|s1].
    - exists r. split; [reflexivity|exact Hr].
    - destruct Hr as (S1 & [c1 Hc1] & A1).
      assert (C1 : 0 < c1) by nia.
      assert (S1p : s1 < p) by nia.
      assert (Inv : ts_inv s1 ((p - 1) / 2)).
      { assert (Hh : (p - 1) / 2 = 2 * s1 * c1).
        { replace ((p - 1) / 2) with (2 * s0) by (unfold s0; clear - P8; divlia). rewrite Hc1. ring. }
        split; [assumption|]. split.
        - rewrite A1, HN. apply minus_one_sq. lia.
        - split; exists c1; (split; [lia|exact Hh]). }
      destruct (ts_loop2_spec (sq_fuel p) s1 ((p - 1) / 2) (log2_up_fuel s1 ltac:(lia)) Inv) as (s2 & t2 & E2 & Inv2 & Od).
      rewrite E2. eexists. split; [reflexivity|]. split; [apply Z.mod_pos_bound; lia|].
      destruct Inv2 as (S2 & Prod & [u [Hu Ht]] & _).
      apply Z.odd_spec in Od. destruct Od as [k Hk].
      rewrite (sq_combine p _ _ (powm a (s2 + 1) p) (powm b t2 p)); try lia.
      + rewrite powm_succ by lia. rewrite Zmult_mod_idemp_l.
        replace (powm a s2 p * (a mod p) * powm b t2 p) with ((powm a s2 p * powm b t2 p) * (a mod p)) by ring.
        rewrite <- Zmult_mod_idemp_l, Prod, Z.mul_1_l. apply Zmod_mod.
      + rewrite sq_powm by (subst s2; divlia). replace (2 * ((s2 + 1) / 2)) with (s2 + 1) by (subst s2; divlia).
        symmetry. apply Z.mod_small. apply powm_range; lia.
      + assert (Eh : t2 / 2 = s2 * u) by (rewrite Ht; replace (2 * s2 * u) with ((s2 * u) * 2) by ring; apply Z.div_mul; lia).
        rewrite Eh. rewrite sq_powm by nia. replace (2 * (s2 * u)) with t2 by (rewrite Ht; ring).
        symmetry. apply Z.mod_small. apply powm_range; nia.
  Qed.
End TS.

(* every prime (2 through the guard; odd primes: every residue class modulo 8, any 2-adic order of p - 1) *)
Theorem sqrtmp_ok (a p b : Z) : prime p -> a <> 0 ->
  powm a ((p - 1) / 2) p = 1 -> powm b ((p - 1) / 2) p = p - 1 -> sqrt_ok a p b.
Proof.
  intros Pp Ha HQ HN. pose proof (prime_ge_2 _ Pp) as P2.
  destruct (Z.eq_dec p 2) as [->|N2]; [apply sqrtmp_modulus_2|].
  assert (Odd : p mod 2 = 1).
  { destruct (Z.eq_dec (p mod 2) 0) as [E|E]; [|divlia].
    apply Z.mod_divide in E; [|lia]. apply (prime_divisors p Pp) in E. lia. }
  assert (C : p mod 8 = 1 \/ p mod 8 = 3 \/ p mod 8 = 5 \/ p mod 8 = 7) by (clear - Odd; divlia).
  destruct C as [C|[C|[C|C]]].
  - now apply sqrtmp_1mod8.
  - apply sqrtmp_3mod4; try assumption; [lia|clear - C; divlia].
  - now apply sqrtmp_5mod8.
  - apply sqrtmp_3mod4; try assumption; [lia|clear - C; divlia].
Qed.

Corollary sqrtmn_two_primes_ok (a p q u v bp bq : Z) : prime p -> prime q -> a <> 0 ->
  u * p + v * q = 1 ->
  powm a ((p - 1) / 2) p = 1 -> powm bp ((p - 1) / 2) p = p - 1 ->
  powm a ((q - 1) / 2) q = 1 -> powm bq ((q - 1) / 2) q = q - 1 ->
  (exists r, sqrtmn_all_with a p q (p * q) u v bp bq = inl (Some r) /\ all_square a (p * q) r) /\
  (exists r, sqrtmn_with a p q (p * q) u v bp bq = SqOk r /\ (r * r) mod (p * q) = a mod (p * q)).
Proof.
  intros Pp Pq Ha B H1 H2 H3 H4.
  pose proof (prime_ge_2 _ Pp). pose proof (prime_ge_2 _ Pq).
  pose proof (sqrtmp_ok a p bp Pp Ha H1 H2) as Op. pose proof (sqrtmp_ok a q bq Pq Ha H3 H4) as Oq.
  split; [apply sqrtmn_all_ok|apply sqrtmn_ok]; auto; lia.
Qed.
