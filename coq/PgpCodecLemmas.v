(* C19 -- proofs about the OpenPGP codec model (PgpCodecModel.v) *)
From Coq Require Import ZArith NArith List Bool Lia ZifyBool ZifyN.
From LT Require Import gen_Consts gen_Tables PgpCodecModel.
Import ListNotations.
Local Open Scope N_scope.

Ltac Zify.zify_post_hook ::= Z.div_mod_to_equations.

(* ---------- finite checks ---------- *)
Lemma forall_below (k : nat) (P : N -> bool) :
  forallb P (map N.of_nat (seq 0 k)) = true -> forall v, v < N.of_nat k -> P v = true.
Proof.
  intros H v Hv. rewrite forallb_forall in H. apply H.
  apply in_map_iff. exists (N.to_nat v). split; [apply N2Nat.id|].
  apply in_seq. lia.
Qed.

(* the alphabet of RFC 4880 6.3 is the table compiled into the library (regenerated from the header) *)
Lemma r64_alphabet_is_source : map r64_char (map N.of_nat (seq 0 64)) = src_tRadix64.
Proof. vm_compute. reflexivity. Qed.

Lemma r64_reverse_is_source :
  map (fun c => Z.of_N (r64_lookup c)) (map N.of_nat (seq 0 256)) = src_fRadix64.
Proof. vm_compute. reflexivity. Qed.

Lemma r64_val_char v : v < 64 -> r64_val (r64_char v) = Some v.
Proof.
  intros H.
  pose proof (forall_below 64 (fun v => match r64_val (r64_char v) with Some w => w =? v | None => false end)) as F.
  specialize (F eq_refl v H). cbv beta in F.
  destruct (r64_val (r64_char v)); [|discriminate]. apply N.eqb_eq in F. now subst.
Qed.

Lemma r64_keep_char v : v < 64 -> r64_keep (r64_char v) = true.
Proof. intros H. unfold r64_keep. now rewrite r64_val_char. Qed.
Lemma r64_lookup_char v : v < 64 -> r64_lookup (r64_char v) = v.
Proof. intros H. unfold r64_lookup. now rewrite r64_val_char. Qed.

Lemma r64_char_range v : v < 64 -> 43 <= r64_char v <= 122.
Proof.
  intros H.
  pose proof (forall_below 64 (fun v => (43 <=? r64_char v) && (r64_char v <=? 122)) eq_refl v H) as F.
  cbv beta in F. lia.
Qed.

(* ---------- radix-64 ---------- *)
Fixpoint r64_vals (l : list N) : list N :=
  match l with
  | a :: b :: c :: r => a / 4 :: (a mod 4) * 16 + b / 16 :: (b mod 16) * 4 + c / 64 :: c mod 64 :: r64_vals r
  | [a; b] => [a / 4; (a mod 4) * 16 + b / 16; (b mod 16) * 4]
  | [a] => [a / 4; (a mod 4) * 16]
  | [] => []
  end.

Lemma list_ind3 (P : list N -> Prop) :
  P [] -> (forall a, P [a]) -> (forall a b, P [a; b]) -> (forall a b c r, P r -> P (a :: b :: c :: r)) ->
  forall l, P l.
Proof.
  intros H0 H1 H2 H3.
  assert (forall l, P l /\ (forall a, P (a :: l)) /\ (forall a b, P (a :: b :: l))) as H.
  { induction l as [|x l [IH0 [IH1 IH2]]]; repeat split; auto. }
  intro l. apply H.
Qed.

Lemma r64_vals_lt l : octets l -> Forall (fun v => v < 64) (r64_vals l).
Proof.
  unfold octets, octet. induction l as [|a|a b|a b c r IH] using list_ind3; intros H; cbn [r64_vals].
  - constructor.
  - inversion_clear H. repeat constructor; lia.
  - inversion_clear H as [|? ? Ha H']. inversion_clear H' as [|? ? Hb _]. repeat constructor; lia.
  - inversion_clear H as [|? ? Ha H']. inversion_clear H' as [|? ? Hb H'']. inversion_clear H'' as [|? ? Hc Hr].
    repeat constructor; try lia. now apply IH.
Qed.

Lemma keep_PAD : r64_keep PAD = false. Proof. reflexivity. Qed.
Lemma keep_CR : r64_keep CR = false. Proof. reflexivity. Qed.
Lemma keep_LF : r64_keep LF = false. Proof. reflexivity. Qed.

Lemma filter_r64_chars l : octets l -> filter r64_keep (r64_chars l) = map r64_char (r64_vals l).
Proof.
  unfold octets, octet. induction l as [|a|a b|a b c r IH] using list_ind3; intros H; cbn [r64_vals r64_chars map filter].
  - reflexivity.
  - inversion_clear H. rewrite !r64_keep_char, keep_PAD by lia. reflexivity.
  - inversion_clear H as [|? ? Ha H']. inversion_clear H' as [|? ? Hb _].
    rewrite !r64_keep_char, keep_PAD by lia. reflexivity.
  - inversion_clear H as [|? ? Ha H']. inversion_clear H' as [|? ? Hb H'']. inversion_clear H'' as [|? ? Hc Hr].
    rewrite !r64_keep_char by lia. now rewrite IH.
Qed.

Lemma lookup_map_char vs : Forall (fun v => v < 64) vs -> map r64_lookup (map r64_char vs) = vs.
Proof. induction 1; cbn [map]; [reflexivity|]. now rewrite r64_lookup_char, IHForall. Qed.

Lemma r64_quads_vals l : octets l -> r64_quads (r64_vals l) = l.
Proof.
  unfold octets, octet. induction l as [|a|a b|a b c r IH] using list_ind3; intros H; cbn [r64_vals r64_quads].
  - reflexivity.
  - inversion_clear H. unfold r64_quad.
    replace ((a mod 4) * 16 =? 255) with false by lia. cbn [N.eqb Pos.eqb app].
    f_equal. lia.
  - inversion_clear H as [|? ? Ha H']. inversion_clear H' as [|? ? Hb _]. unfold r64_quad.
    replace ((a mod 4) * 16 + b / 16 =? 255) with false by lia.
    replace ((b mod 16) * 4 =? 255) with false by lia. cbn [N.eqb Pos.eqb app].
    f_equal; [lia|]. f_equal. lia.
  - inversion_clear H as [|? ? Ha H']. inversion_clear H' as [|? ? Hb H'']. inversion_clear H'' as [|? ? Hc Hr].
    unfold r64_quad.
    replace ((a mod 4) * 16 + b / 16 =? 255) with false by lia.
    replace ((b mod 16) * 4 + c / 64 =? 255) with false by lia.
    replace (c mod 64 =? 255) with false by lia. cbn [app].
    rewrite IH by assumption. f_equal; [lia|]. f_equal; [lia|]. f_equal. lia.
Qed.

Lemma filter_wrap_lines fuel mc l : filter r64_keep (wrap_lines fuel mc l) = filter r64_keep l.
Proof.
  revert l. induction fuel as [|f IH]; intro l; cbn [wrap_lines]; [reflexivity|].
  destruct (length l <=? mc)%nat; [reflexivity|].
  rewrite filter_app. cbn [filter]. rewrite keep_CR, keep_LF, IH, <- filter_app, firstn_skipn. reflexivity.
Qed.

Lemma filter_radix64_encode lb l : filter r64_keep (radix64_encode lb l) = filter r64_keep (r64_chars l).
Proof.
  unfold radix64_encode. destruct lb; [|reflexivity].
  destruct (radix64_mc =? 0)%nat; [reflexivity|]. apply filter_wrap_lines.
Qed.

(* every octet string survives encoding and decoding, with and without line breaks *)
Theorem radix64_roundtrip : forall lb l, octets l -> radix64_decode (radix64_encode lb l) = l.
Proof.
  intros lb l H. unfold radix64_decode.
  rewrite filter_radix64_encode, filter_r64_chars, lookup_map_char by (auto using r64_vals_lt).
  now apply r64_quads_vals.
Qed.

(* the configured line length is a multiple of four (so a pad never starts a line and the running-count
   formulation of the library coincides with wrap_lines) and within the 76 characters RFC 4880 6.3 allows *)
Lemma radix64_mc_ok : (radix64_mc mod 4 = 0 /\ 0 < radix64_mc <= 76)%nat.
Proof. vm_compute. repeat split; lia. Qed.

(* ---------- packet lengths ---------- *)
Lemma pktlen_encode_length n :
  length (pktlen_encode n) = if n <? 192 then 1%nat else if n <? 8384 then 2%nat else 5%nat.
Proof. unfold pktlen_encode. destruct (n <? 192); [reflexivity|]. destruct (n <? 8384); reflexivity. Qed.

Theorem pktlen_roundtrip : forall n rest lt, n < 4294967296 ->
  pktlen_decode (pktlen_encode n ++ rest) true lt = Some (LenDefinite n (length (pktlen_encode n))).
Proof.
  intros n rest lt H. rewrite pktlen_encode_length. unfold pktlen_encode.
  destruct (N.ltb_spec n 192) as [H1|H1].
  - cbn [app pktlen_decode]. rewrite N.mod_small by lia. replace (n <? 192) with true by lia. reflexivity.
  - destruct (N.ltb_spec n 8384) as [H2|H2].
    + unfold be2. cbn [app pktlen_decode].
      replace ((n - 192 + 49152) / 256 mod 256 <? 192) with false by lia.
      replace ((n - 192 + 49152) / 256 mod 256 <? 224) with true by lia.
      do 2 f_equal. lia.
    + unfold be4. cbn [app pktlen_decode]. cbn [N.ltb N.compare Pos.compare Pos.compare_cont N.eqb Pos.eqb].
      do 2 f_equal. unfold u32. lia.
Qed.

(* the encoder always uses the shortest of the definite forms the decoder accepts *)
Theorem pktlen_shortest : forall l lt n k, octets l ->
  pktlen_decode l true lt = Some (LenDefinite n k) -> (length (pktlen_encode n) <= k)%nat.
Proof.
  intros l lt n k Ho H. rewrite pktlen_encode_length. unfold pktlen_decode in H.
  destruct l as [|a r]; [discriminate|].
  destruct (N.ltb_spec a 192) as [H1|H1].
  - inversion H; subst. replace (n <? 192) with true by lia. lia.
  - destruct (N.ltb_spec a 224) as [H2|H2].
    + destruct r as [|b r']; [discriminate|]. inversion H; subst.
      inversion_clear Ho as [|? ? _ Hr]. inversion_clear Hr as [|? ? Hb _]. unfold octet in Hb.
      destruct (N.ltb_spec ((a - 192) * 256 + b + 192) 192); [lia|].
      destruct (N.ltb_spec ((a - 192) * 256 + b + 192) 8384); lia.
    + destruct (a =? 255).
      * destruct r as [|b [|c [|d [|e r']]]]; try discriminate. inversion H; subst.
        destruct (_ <? 192); [lia|]. destruct (_ <? 8384); lia.
      * discriminate.
Qed.

(* a length header never claims more octets than the input has *)
Theorem pktlen_consumed : forall l nf lt n k,
  pktlen_decode l nf lt = Some (LenDefinite n k) -> (1 <= k <= length l)%nat.
Proof.
  intros l nf lt n k H. unfold pktlen_decode in H. destruct l as [|a r]; [discriminate|].
  destruct nf.
  - destruct (a <? 192); [inversion H; cbn; lia|].
    destruct (a <? 224); [destruct r; [discriminate|inversion H; cbn; lia]|].
    destruct (a =? 255); [|discriminate].
    destruct r as [|b [|c [|d [|e r']]]]; try discriminate. inversion H; cbn; lia.
  - destruct (lt =? 0); [inversion H; cbn; lia|].
    destruct (lt =? 1); [destruct r; [discriminate|inversion H; cbn; lia]|].
    destruct (lt =? 2); [destruct r as [|b [|c [|d r']]]; try discriminate; inversion H; cbn; lia|].
    destruct (lt =? 3); discriminate.
Qed.

(* partial body lengths are the powers of two 2^0 .. 2^30 *)
Theorem pktlen_partial_spec : forall l lt n, octets l ->
  pktlen_decode l true lt = Some (LenPartial n) ->
  exists a r, l = a :: r /\ 224 <= a < 255 /\ n = 2 ^ (a - 224) /\ n <= 1073741824.
Proof.
  intros l lt n Ho H. unfold pktlen_decode in H. destruct l as [|a r]; [discriminate|].
  inversion_clear Ho as [|? ? Ha _]. unfold octet in Ha.
  destruct (N.ltb_spec a 192); [discriminate|].
  destruct (N.ltb_spec a 224); [destruct r; discriminate|].
  destruct (N.eqb_spec a 255) as [E|E]; [destruct r as [|b1 [|b2 [|b3 [|b4 r']]]]; discriminate|].
  inversion H; subst. exists a, r. repeat split; try lia.
  - f_equal. lia.
  - replace 1073741824 with (2 ^ 30) by reflexivity. apply N.pow_le_mono_r; lia.
Qed.

Lemma tag_encode_small tag : tag < 64 -> tag_encode tag = [tag + 192].
Proof.
  intro H. unfold tag_encode. f_equal.
  pose proof (forall_below 64 (fun t => N.lor t 192 =? t + 192) eq_refl tag H) as F. cbv beta in F. lia.
Qed.

Lemma substr_app_exact (h : nat) (pre body rest : list N) :
  length pre = h -> substr (pre ++ body ++ rest) h (length body) = body.
Proof.
  intros <-. unfold substr. rewrite skipn_app, skipn_all, Nat.sub_diag. cbn [skipn app].
  rewrite firstn_app, firstn_all, Nat.sub_diag. cbn [firstn]. apply app_nil_r.
Qed.

(* a packet as the library frames it (new format tag, definite length) is split back into tag and body,
   whatever follows it *)
Theorem packet_extract : forall tag body rest, tag < 64 -> len body < 4294967296 ->
  body_extract (packet tag body ++ rest) = Some (tag, firstn (length body) (body ++ rest)) /\
  firstn (length body) (body ++ rest) = body.
Proof.
  intros tag body rest Ht Hl. split.
  2:{ rewrite firstn_app, firstn_all, Nat.sub_diag. cbn [firstn]. apply app_nil_r. }
  unfold packet. rewrite tag_encode_small by assumption. cbn [app body_extract].
  replace (tag + 192 <? 128) with false by lia.
  replace (64 <=? (tag + 192) mod 128) with true by lia.
  replace (tag + 192 - 192) with tag by lia.
  rewrite <- app_assoc. cbn [body_chunks].
  rewrite (pktlen_roundtrip (len body) (body ++ rest) 0 Hl).
  set (hd := pktlen_encode (len body)).
  replace (len (hd ++ body ++ rest) <? N.of_nat (length hd) + len body) with false
    by (unfold len; rewrite !app_length; lia).
  unfold len at 1. rewrite Nat2N.id.
  rewrite (substr_app_exact _ _ body rest eq_refl).
  rewrite firstn_app, firstn_all, Nat.sub_diag. cbn [firstn]. now rewrite app_nil_r.
Qed.

(* ---------- multiprecision integers ---------- *)
Lemma be_bytes_length k n : length (be_bytes k n) = k.
Proof. revert n. induction k; intro n; cbn [be_bytes]; [reflexivity|]. rewrite app_length, IHk. cbn. lia. Qed.

Lemma be_value_snoc l x : be_value (l ++ [x]) = be_value l * 256 + x.
Proof. unfold be_value. rewrite fold_left_app. cbn [fold_left]. now rewrite N.shiftl_mul_pow2. Qed.

Lemma shiftr8 n : N.shiftr n 8 = n / 256.
Proof. now rewrite N.shiftr_div_pow2. Qed.
Lemma land255 n : N.land n 255 = n mod 256.
Proof. replace 255 with (N.ones 8) by reflexivity. now rewrite N.land_ones. Qed.

Lemma be_value_bytes k n : be_value (be_bytes k n) = n mod 256 ^ N.of_nat k.
Proof.
  revert n. induction k as [|k IH]; intro n.
  - cbn. now rewrite N.mod_1_r.
  - cbn [be_bytes]. rewrite be_value_snoc, IH, shiftr8, land255.
    rewrite Nat2N.inj_succ, N.pow_succ_r'.
    rewrite N.mod_mul_r by (try apply N.pow_nonzero; lia).
    generalize ((n / 256) mod 256 ^ N.of_nat k). generalize (n mod 256). intros; ring.
Qed.

Lemma be_bytes_octets k n : octets (be_bytes k n).
Proof.
  revert n. induction k; intro n; cbn [be_bytes]; [constructor|].
  apply Forall_app. split; [apply IHk|]. repeat constructor. unfold octet. rewrite land255. lia.
Qed.

Lemma size_bound n : n < 256 ^ N.of_nat (mpi_octets n).
Proof.
  unfold mpi_octets. rewrite N2Nat.id.
  replace 256 with (2 ^ 8) by reflexivity. rewrite <- N.pow_mul_r.
  eapply N.lt_le_trans; [apply N.size_gt|]. apply N.pow_le_mono_r; lia.
Qed.

Lemma mpi_encode_length n : length (mpi_encode n) = (2 + mpi_octets n)%nat.
Proof. unfold mpi_encode. rewrite app_length, be_bytes_length. reflexivity. Qed.

(* any integer whose bit length fits the two-octet count (incl. 0) survives, whatever follows *)
Theorem mpi_roundtrip : forall n rest, N.size n < 65536 ->
  mpi_decode (mpi_encode n ++ rest) = Some (n, length (mpi_encode n)).
Proof.
  intros n rest H. rewrite mpi_encode_length. unfold mpi_encode, be2. cbn [app mpi_decode].
  replace (N.to_nat ((N.size n / 256 mod 256 * 256 + N.size n mod 256 + 7) / 8)) with (mpi_octets n)
    by (unfold mpi_octets; f_equal; lia).
  rewrite app_length, be_bytes_length.
  replace (mpi_octets n + length rest <? mpi_octets n)%nat with false by lia.
  rewrite firstn_app, be_bytes_length, Nat.sub_diag. cbn [firstn]. rewrite app_nil_r.
  rewrite firstn_all2 by (rewrite be_bytes_length; lia).
  rewrite be_value_bytes, N.mod_small by apply size_bound. reflexivity.
Qed.

Theorem mpi_consumed : forall l v k, mpi_decode l = Some (v, k) -> (2 <= k <= length l)%nat.
Proof.
  intros l v k H. unfold mpi_decode in H. destruct l as [|a [|b r]]; try discriminate.
  destruct (Nat.ltb_spec (length r) (N.to_nat ((a * 256 + b + 7) / 8))); [discriminate|].
  inversion H; subst. cbn [length]. lia.
Qed.


(* ---------- string-to-key count ---------- *)
(* the C expression of RFC 4880 3.7.1.3 on 32-bit unsigned integers *)
Definition s2k_count_c (c : N) : N := N.shiftl (16 + N.land c 15) (N.shiftr c 4 + 6) mod 4294967296.

Definition s2k_all_ok : bool :=
  forallb (fun c => (s2k_count c =? s2k_count_c c) && (1024 <=? s2k_count c) && (s2k_count c <=? 65011712)
                    && ((c =? 255) || (s2k_count c <? s2k_count (c + 1))))
          (map N.of_nat (seq 0 256)).

(* all 256 coded counts: the arithmetic form equals the C expression, no 32-bit overflow, range 1024..65011712,
   strictly increasing (hence injective) *)
Theorem s2k_count_all : forall c, c < 256 ->
  s2k_count c = s2k_count_c c /\ 1024 <= s2k_count c <= 65011712 /\ (c < 255 -> s2k_count c < s2k_count (c + 1)).
Proof.
  intros c H.
  assert (E : s2k_all_ok = true) by (vm_compute; reflexivity).
  pose proof (forall_below 256 _ E c H) as F. cbv beta in F.
  repeat split; try lia.
Qed.

Lemma s2k_stream_length cnt nzp data : data <> [] ->
  len (s2k_stream cnt nzp data) = N.of_nat nzp + N.max cnt (len data).
Proof.
  intro Hd. unfold s2k_stream.
  assert (Hl : len data <> 0) by (unfold len; destruct data; [congruence|cbn [length]; lia]).
  replace (len data =? 0) with false by lia.
  unfold len in *. rewrite !app_length, repeat_length.
  assert (Hc : forall k, length (concat (repeat data k)) = (k * length data)%nat).
  { induction k; cbn [repeat concat]; [reflexivity|]. rewrite app_length, IHk. lia. }
  rewrite Hc, firstn_length.
  set (t := N.max cnt (N.of_nat (length data))) in *.
  pose proof (N.div_mod t (N.of_nat (length data)) Hl).
  pose proof (N.mod_lt t (N.of_nat (length data)) Hl).
  nia.
Qed.

(* ---------- CRC-24 ---------- *)
Lemma lxor4 a b p q : N.lxor (N.lxor a p) (N.lxor b q) = N.lxor (N.lxor a b) (N.lxor p q).
Proof. apply N.bits_inj; intro i. rewrite !N.lxor_spec. destruct (N.testbit a i), (N.testbit b i), (N.testbit p i), (N.testbit q i); reflexivity. Qed.

Lemma land_lxor a b m : N.lxor (N.land a m) (N.land b m) = N.land (N.lxor a b) m.
Proof. apply N.bits_inj; intro i. rewrite !N.lxor_spec, !N.land_spec, N.lxor_spec. destruct (N.testbit a i), (N.testbit b i), (N.testbit m i); reflexivity. Qed.

Lemma crc24_shift_lin p x y : crc24_shift p (N.lxor x y) = N.lxor (crc24_shift p x) (crc24_shift p y).
Proof.
  unfold crc24_shift. rewrite N.shiftl_lxor, N.lxor_spec.
  destruct (N.testbit (N.shiftl x 1) 24), (N.testbit (N.shiftl y 1) 24); cbn [xorb].
  - rewrite lxor4, N.lxor_nilpotent, N.lxor_0_r. reflexivity.
  - rewrite <- (N.lxor_0_r (N.shiftl y 1)) at 2. rewrite lxor4, N.lxor_0_r. reflexivity.
  - rewrite <- (N.lxor_0_r (N.shiftl x 1)) at 2. rewrite lxor4, N.lxor_0_l. reflexivity.
  - reflexivity.
Qed.

Lemma iter_lin (f : N -> N) (Hf : forall x y, f (N.lxor x y) = N.lxor (f x) (f y)) (k : nat) x y :
  Nat.iter k f (N.lxor x y) = N.lxor (Nat.iter k f x) (Nat.iter k f y).
Proof.
  induction k; [reflexivity|].
  change (f (Nat.iter k f (N.lxor x y)) = N.lxor (f (Nat.iter k f x)) (f (Nat.iter k f y))).
  now rewrite IHk, Hf.
Qed.

Lemma crc24_octet_lin p c1 c2 b1 b2 :
  crc24_octet p (N.lxor c1 c2) (N.lxor b1 b2) = N.lxor (crc24_octet p c1 b1) (crc24_octet p c2 b2).
Proof.
  unfold crc24_octet. rewrite N.shiftl_lxor, lxor4.
  rewrite !(N2Nat.inj_iter 8). apply iter_lin. apply crc24_shift_lin.
Qed.

Definition xor_octets (a b : list N) : list N := map (fun p => N.lxor (fst p) (snd p)) (combine a b).

Lemma crc24_run_lin p a : forall b i1 i2, length a = length b ->
  crc24_run p (N.lxor i1 i2) (xor_octets a b) = N.lxor (crc24_run p i1 a) (crc24_run p i2 b).
Proof.
  unfold crc24_run, xor_octets. induction a as [|x a IH]; intros [|y b] i1 i2 H; try discriminate; [reflexivity|].
  cbn [combine map fold_left fst snd]. rewrite crc24_octet_lin. apply IH. now inversion H.
Qed.

(* the checksum is an affine function of the data over GF(2): for equally long a, b, c
   crc(a xor b xor c) = crc(a) xor crc(b) xor crc(c) -- in particular the checksum of a corrupted text differs
   from the original by the (initial-value free) checksum of the error pattern alone *)
Theorem crc24_affine : forall a b c, length a = length b -> length b = length c ->
  crc24 (xor_octets (xor_octets a b) c) = N.lxor (N.lxor (crc24 a) (crc24 b)) (crc24 c).
Proof.
  intros a b c H1 H2. unfold crc24.
  rewrite !land_lxor.
  rewrite <- !crc24_run_lin; try assumption.
  - rewrite N.lxor_nilpotent, N.lxor_0_l. reflexivity.
  - unfold xor_octets. rewrite map_length, combine_length. lia.
Qed.

Lemma crc24_lt l : crc24 l < 16777216.
Proof.
  unfold crc24. replace 16777215 with (N.ones 24) by reflexivity. rewrite N.land_ones.
  apply N.mod_lt. discriminate.
Qed.

Lemma crc24_octets_ok l : octets (crc24_octets l) /\ be_value (crc24_octets l) = crc24 l.
Proof.
  pose proof (crc24_lt l). unfold crc24_octets, be3, octets, octet, be_value. cbn [fold_left]. split.
  - repeat constructor; lia.
  - rewrite !N.shiftl_mul_pow2. change (2 ^ 8) with 256. lia.
Qed.

(* RFC 4880 6.1 reference values: the CRC of the empty text is the initial value, and the parameters are the
   ones the RFC prescribes (regenerated from libTMCG.hh) *)
Lemma crc24_parameters : crc24_init = 11994318 /\ crc24_poly = 25578747 /\ crc24 [] = 11994318.
Proof. vm_compute. repeat split. Qed.

Lemma wrap_short fuel mc l : (length l <= mc)%nat -> wrap_lines fuel mc l = l.
Proof. intro H. destruct fuel; cbn [wrap_lines]; [reflexivity|]. now replace (length l <=? mc)%nat with true by lia. Qed.

(* the checksum line "=XXXX": decoding the four characters gives back the three CRC octets *)
Theorem crc24_line_roundtrip : forall l,
  exists cs, crc24_encode l = PAD :: cs /\ length cs = 4%nat /\ radix64_decode cs = crc24_octets l.
Proof.
  intro l. unfold crc24_encode. eexists. split; [reflexivity|]. split.
  - unfold radix64_encode, crc24_octets, be3. cbn [r64_chars].
    destruct (radix64_mc =? 0)%nat; [reflexivity|].
    rewrite wrap_short; [reflexivity|]. cbn [length]. pose proof radix64_mc_ok.
    assert (radix64_mc <> 1 /\ radix64_mc <> 2 /\ radix64_mc <> 3)%nat by (vm_compute; repeat split; discriminate). lia.
  - apply radix64_roundtrip. apply crc24_octets_ok.
Qed.
