(* SkcLemmas: acceptance characterisations and range / membership rules for the Pedersen verifier and the
   non-interactive shuffle-of-known-content verifier. *)
From Coq Require Import ZArith List Bool Lia.
From LT Require Import Zbase gen_Consts VtmfVerModel VtmfVerLemmas SkcModel.
Import ListNotations.
Local Open Scope Z_scope.

Lemma test_membership_spec K c : test_membership K c = true <-> 0 < c < kp K /\ powm c (kq K) (kp K) = 1.
Proof.
  unfold test_membership. rewrite !andb_true_iff, !Z.ltb_lt, Z.eqb_eq. tauto.
Qed.

Lemma in_zq_spec q x : in_zq q x = true <-> 0 <= x < q.
Proof. unfold in_zq. rewrite andb_true_iff, Z.leb_le, Z.ltb_lt. tauto. Qed.

Lemma forallb_in_zq q l : forallb (in_zq q) l = true <-> Forall (fun x => 0 <= x < q) l.
Proof.
  rewrite forallb_forall, Forall_forall. split; intros H x Hx; apply in_zq_spec; now apply H.
Qed.

(* ---- Pedersen ------------------------------------------------------------------------------------------- *)
Theorem ped_accept_iff K c r ms :
  ped_verify K c r ms = Accept <-> 0 <= r < kq K /\ 0 < c < kp K /\ recommit K r ms = Some c.
Proof.
  unfold ped_verify. split.
  - destruct (Z.ltb_spec r 0); cbn [orb]; [discriminate|].
    destruct (Z.leb_spec (kq K) r); [discriminate|].
    destruct (recommit K r ms) as [c2|]; [|discriminate].
    destruct (Z.leb_spec c 0); cbn [orb]; [discriminate|].
    destruct (Z.leb_spec (kp K) c); [discriminate|].
    destruct (Z.eqb_spec c c2); [|discriminate]. intros _. subst. repeat split; lia.
  - intros ((R1 & R2) & (C1 & C2) & E). rewrite E.
    destruct (Z.ltb_spec r 0); [lia|]. cbn [orb]. destruct (Z.leb_spec (kq K) r); [lia|].
    destruct (Z.leb_spec c 0); [lia|]. cbn [orb]. destruct (Z.leb_spec (kp K) c); [lia|]. now rewrite Z.eqb_refl.
Qed.

(* range rules of an opening as coded: 0 <= r < q (negative values refused since 25cc964), 0 < c < p *)
Corollary ped_range_rules K c r ms : ped_verify K c r ms = Accept -> 0 <= r < kq K /\ 0 < c < kp K.
Proof. intros A. apply ped_accept_iff in A. tauto. Qed.

(* the messages are not range-checked (known findings pedersen.m.plusq / pedersen.m.negfar): for a generator of order
   dividing q the message m + q opens the same commitment as long as it still fits the power table *)
Lemma table_walk_plus_q tl g m p q : 0 < p -> 0 < q -> 0 <= m -> powm g q p = 1 -> bits (m + q) <= tl ->
  table_walk tl g (m + q) p = table_walk tl g m p.
Proof.
  intros Hp Hq Hm Hg Hb. unfold table_walk.
  destruct (Z.eqb_spec (m + q) 0); [lia|].
  destruct (Z.leb_spec (bits (m + q)) tl); [|lia].
  assert (E : powm g (m + q) p = powm g m p).
  { rewrite powm_add by lia. rewrite Hg, Z.mul_1_r. apply Z.mod_small. apply powm_range; lia. }
  rewrite E. destruct (Z.eqb_spec m 0) as [->|N].
  - cbn [powm]. apply Z.mod_1_l. destruct (Z.eq_dec p 1) as [->|]; [|lia].
    exfalso. rewrite powm_spec in Hg by lia. rewrite Z.mod_1_r in Hg. discriminate.
  - assert (bits m <= bits (m + q)) by (apply bits_mono; lia).
    destruct (Z.leb_spec (bits m) tl); [reflexivity|lia].
Qed.

Theorem ped_message_plus_q K c r g m : 0 < kp K -> 0 < kq K -> 0 <= m -> kg K = [g] -> powm g (kq K) (kp K) = 1 ->
  bits (m + kq K) <= ktl K -> 0 < TMCG_MAX_FPOWM_N ->
  ped_verify K c r [m + kq K] = ped_verify K c r [m].
Proof.
  intros Hp Hq Hm Hg Ho Hb HN. unfold ped_verify, recommit. rewrite Hg. cbn [commit_loop]. unfold gen_pow.
  destruct (Z.ltb_spec 0 TMCG_MAX_FPOWM_N); [|lia].
  unfold fpowm at 2 4. rewrite Z.eqb_refl. cbn [negb].
  rewrite !Z.abs_eq by lia.
  assert (B1 : bits (m + kq K) <= TMCG_MAX_FPOWM_T) by (unfold ktl in Hb; lia).
  assert (B0 : bits m <= bits (m + kq K)) by (apply bits_mono; lia).
  destruct (Z.ltb_spec TMCG_MAX_FPOWM_T (bits (m + kq K))); [lia|].
  destruct (Z.ltb_spec TMCG_MAX_FPOWM_T (bits m)); [lia|].
  destruct (Z.ltb_spec (m + kq K) 0); [lia|]. destruct (Z.ltb_spec m 0); [lia|].
  now rewrite table_walk_plus_q.
Qed.

(* ---- shuffle of known content ------------------------------------------------------------------------------ *)
Theorem skc_accept_iff H K le c ms P :
  skc_verify H K le c ms P = Accept <->
  length (s_f P) = length ms /\ S (length (s_fD P)) = length ms /\
  test_membership K (s_cd P) = true /\ test_membership K (s_ca P) = true /\ test_membership K (s_cD P) = true /\
  0 <= s_z P < kq K /\ Forall (fun x => 0 <= x < kq K) (s_f P) /\
  0 <= s_zD P < kq K /\ Forall (fun x => 0 <= x < kq K) (s_fD P) /\
  let x := skc_x H K le ms in
  let e := skc_e H K le ms x P in
  exists ce cae einv,
    mpz_powm c e (kp K) = Some ce /\ ped_verify K ((ce * s_cd P) mod kp K) (s_z P) (s_f P) = Accept /\
    mpz_powm (s_ca P) e (kp K) = Some cae /\ ped_verify K ((cae * s_cD P) mod kp K) (s_zD P) (s_fD P ++ [0]) = Accept /\
    invm e (kq K) = Some einv /\
    (prod_rhs (kq K) x ms 1 * e) mod kq K = prod_lhs (kq K) ((e * x) mod kq K) einv (s_f P) (s_fD P) true 1.
Proof.
  unfold skc_verify. cbv zeta. split.
  - destruct (Nat.eqb_spec (length (s_f P)) (length ms)) as [L1|]; cbn [andb negb]; [|discriminate].
    destruct (Nat.eqb_spec (S (length (s_fD P))) (length ms)) as [L2|]; cbn [negb]; [|discriminate].
    destruct (test_membership K (s_cd P)); cbn [andb negb]; [|discriminate].
    destruct (test_membership K (s_ca P)); cbn [andb negb]; [|discriminate].
    destruct (test_membership K (s_cD P)); cbn [andb negb]; [|discriminate].
    destruct (in_zq (kq K) (s_z P)) eqn:Z1; cbn [negb]; [|discriminate].
    destruct (forallb (in_zq (kq K)) (s_f P)) eqn:F1; cbn [negb]; [|discriminate].
    destruct (in_zq (kq K) (s_zD P)) eqn:Z2; cbn [negb]; [|discriminate].
    destruct (forallb (in_zq (kq K)) (s_fD P)) eqn:F2; cbn [negb]; [|discriminate].
    destruct (mpz_powm c _ (kp K)) as [ce|] eqn:E1; [|discriminate].
    destruct (ped_verify K ((ce * s_cd P) mod kp K) (s_z P) (s_f P)) eqn:V1; try discriminate.
    destruct (mpz_powm (s_ca P) _ (kp K)) as [cae|] eqn:E2; [|discriminate].
    destruct (ped_verify K ((cae * s_cD P) mod kp K) (s_zD P) (s_fD P ++ [0])) eqn:V2; try discriminate.
    destruct (invm _ (kq K)) as [einv|] eqn:E3; [|discriminate].
    match goal with |- context [if ?a =? ?b then _ else _] => destruct (Z.eqb_spec a b) as [EQ|] end; [|discriminate].
    intros _. apply in_zq_spec in Z1, Z2. apply forallb_in_zq in F1, F2.
    repeat split; try assumption; try lia. exists ce, cae, einv. repeat split; assumption.
  - intros (L1 & L2 & M1 & M2 & M3 & Z1 & F1 & Z2 & F2 & ce & cae & einv & E1 & V1 & E2 & V2 & E3 & EQ).
    rewrite L1, L2, !Nat.eqb_refl. cbn [andb negb]. rewrite M1, M2, M3. cbn [andb negb].
    apply in_zq_spec in Z1, Z2. apply forallb_in_zq in F1, F2. rewrite Z1, F1, Z2, F2. cbn [negb].
    rewrite E1, V1, E2, V2, E3, EQ. now rewrite Z.eqb_refl.
Qed.

(* range and membership rules exactly as coded (25cc964: negative values are refused, not reduced) *)
Corollary skc_range_rules H K le c ms P : skc_verify H K le c ms P = Accept ->
  0 <= s_z P < kq K /\ Forall (fun x => 0 <= x < kq K) (s_f P) /\
  0 <= s_zD P < kq K /\ Forall (fun x => 0 <= x < kq K) (s_fD P).
Proof. intros A. apply skc_accept_iff in A. tauto. Qed.

Corollary skc_member_rules H K le c ms P : skc_verify H K le c ms P = Accept ->
  (0 < s_cd P < kp K /\ powm (s_cd P) (kq K) (kp K) = 1) /\
  (0 < s_ca P < kp K /\ powm (s_ca P) (kq K) (kp K) = 1) /\
  (0 < s_cD P < kp K /\ powm (s_cD P) (kq K) (kp K) = 1).
Proof.
  intros A. apply skc_accept_iff in A. destruct A as (_ & _ & M1 & M2 & M3 & _).
  apply test_membership_spec in M1, M2, M3. tauto.
Qed.

(* a response of the same residue but outside [0,q) is refused *)
Corollary skc_z_shifted_rejected H K le c ms P k : 0 < kq K -> k <> 0 -> 0 <= s_z P < kq K ->
  skc_verify H K le c ms (mk_skc (s_cd P) (s_cD P) (s_ca P) (s_f P) (s_z P + k * kq K) (s_fD P) (s_zD P)) <> Accept.
Proof.
  intros Hq Hk Hz A. apply skc_range_rules in A. cbn [s_z] in A. destruct A as (A & _). nia.
Qed.

(* ---- an opening binds the randomizer: unconditional (no hash involved) --------------------------------------- *)
Lemma table_walk_range tl b a p q : 1 < p -> 0 <= a < q -> bits q <= tl -> table_walk tl b a p = powm b a p.
Proof.
  intros Hp Ha Hb. unfold table_walk. destruct (Z.eqb_spec a 0) as [->|N].
  - cbn [powm]. symmetry. apply Z.mod_1_l. lia.
  - assert (bits a <= bits q) by (apply bits_mono; lia).
    destruct (Z.leb_spec (bits a) tl); [reflexivity|lia].
Qed.

Lemma commit_loop_factor K : 1 < kp K -> forall ms gs idx acc v, commit_loop K idx gs ms acc = Some v -> 0 <= acc < kp K ->
  exists G, forall acc', 0 <= acc' < kp K -> commit_loop K idx gs ms acc' = Some ((acc' * G) mod kp K).
Proof.
  intros Hp. induction ms as [|m ms IH]; intros gs idx acc v E Ha.
  - exists 1. intros acc' Ha'. rewrite Z.mul_1_r. rewrite Z.mod_small by exact Ha'. destruct gs; reflexivity.
  - destruct gs as [|gi gs]; [discriminate|]. cbn [commit_loop] in *. destruct (gen_pow K idx gi m) as [t|]; [|discriminate].
    destruct (IH gs (idx + 1) ((acc * t) mod kp K) v E ltac:(apply Z.mod_pos_bound; lia)) as [G' HG].
    exists ((t * G') mod kp K). intros acc' Ha'.
    rewrite (HG ((acc' * t) mod kp K)) by (apply Z.mod_pos_bound; lia). f_equal.
    rewrite Zmult_mod_idemp_l, Zmult_mod_idemp_r. f_equal. ring.
Qed.

Lemma unit_of_nonzero p G : Znumtheory.prime p -> G mod p <> 0 -> exists Gi, (G * Gi) mod p = 1.
Proof.
  intros Pp N. assert (Hp : 1 < p) by (destruct Pp; lia).
  assert (R : Znumtheory.rel_prime p G).
  { apply Znumtheory.prime_rel_prime; [assumption|]. intros D. apply N. apply Z.mod_divide; [lia|assumption]. }
  destruct (Znumtheory.rel_prime_bezout _ _ R) as [u v E].
  exists v. replace (G * v) with (1 + (- u) * p) by lia. rewrite Z.mod_add by lia. apply Z.mod_1_l. lia.
Qed.

Theorem ped_randomizer_bound K c r r' ms :
  Znumtheory.prime (kp K) -> Znumtheory.prime (kq K) -> powm (kh K) (kq K) (kp K) = 1 -> kh K mod kp K <> 1 ->
  bits (kq K) <= TMCG_MAX_FPOWM_T ->
  ped_verify K c r ms = Accept -> ped_verify K c r' ms = Accept -> r = r'.
Proof.
  intros Pp Pq Hh Hh1 Hb A B. assert (Hp : 1 < kp K) by (destruct Pp; lia).
  apply ped_accept_iff in A, B. destruct A as (Rr & Rc & A). destruct B as (Rr' & _ & B).
  assert (F : forall x, 0 <= x < kq K -> fpowm (kh K) (ktl K) (kh K) x (kp K) = Some (powm (kh K) x (kp K))).
  { intros x Hx. unfold fpowm. rewrite Z.eqb_refl. cbn [negb]. rewrite Z.abs_eq by lia.
    assert (bits x <= bits (kq K)) by (apply bits_mono; lia).
    destruct (Z.ltb_spec TMCG_MAX_FPOWM_T (bits x)); [lia|]. destruct (Z.ltb_spec x 0); [lia|].
    f_equal. apply (table_walk_range _ _ _ _ (kq K)); try assumption. unfold ktl. lia. }
  unfold recommit in A, B. rewrite F in A, B by assumption.
  assert (R0 : 0 <= powm (kh K) r (kp K) < kp K) by (apply powm_range; lia).
  assert (R0' : 0 <= powm (kh K) r' (kp K) < kp K) by (apply powm_range; lia).
  destruct (commit_loop_factor K Hp ms (kg K) 0 _ _ A R0) as [G HG].
  rewrite (HG _ R0) in A. rewrite (HG _ R0') in B. injection A as A. injection B as B.
  assert (NZ : G mod kp K <> 0).
  { intros Z0. rewrite <- Zmult_mod_idemp_r, Z0, Z.mul_0_r, Z.mod_0_l in A by lia. lia. }
  destruct (unit_of_nonzero (kp K) G Pp NZ) as [Gi HGi].
  assert (E : (powm (kh K) r (kp K) * G) mod kp K = (powm (kh K) r' (kp K) * G) mod kp K) by congruence.
  apply (recommit_inj (kp K) (kq K) (kh K) Hp Pq Hh Hh1 r r' G Gi) in E; try lia; try assumption.
  rewrite !Z.mod_small in E by lia. exact E.
Qed.

(* hence the responses z and z_Delta of the shuffle of known content are bound as exact values (not only modulo q) *)
Corollary skc_z_bound H K le c ms P z' :
  Znumtheory.prime (kp K) -> Znumtheory.prime (kq K) -> powm (kh K) (kq K) (kp K) = 1 -> kh K mod kp K <> 1 ->
  bits (kq K) <= TMCG_MAX_FPOWM_T ->
  skc_verify H K le c ms P = Accept ->
  skc_verify H K le c ms (mk_skc (s_cd P) (s_cD P) (s_ca P) (s_f P) z' (s_fD P) (s_zD P)) = Accept -> z' = s_z P.
Proof.
  intros Pp Pq Hh Hh1 Hb A B. apply skc_accept_iff in A, B. cbv zeta in A, B. cbn [s_cd s_cD s_ca s_f s_z s_fD s_zD] in B.
  destruct A as (_ & _ & _ & _ & _ & _ & _ & _ & _ & ce & cae & einv & E1 & V1 & _).
  destruct B as (_ & _ & _ & _ & _ & _ & _ & _ & _ & ce' & cae' & einv' & E1' & V1' & _).
  unfold skc_e in *. cbn [s_cd s_cD s_ca] in *. rewrite E1 in E1'. injection E1' as <-.
  symmetry. eapply ped_randomizer_bound; eassumption.
Qed.
