(* RabinModel: executable model of the Rabin key operations of libTMCG (C10).
   Anchors: src/TMCG_PublicKey.cc  (check :101-338, selfid/keyid/keyid_size :365-435, import :437-498,
                                    encrypt :500-540, verify :542-616, operator<< :624-629)
            src/TMCG_SecretKey.cc  (generate: self-signature framing :283-296, precompute :298-331, import :373-459,
                                    decrypt :461-545, sign :547-595)
            src/mpz_shash.cc       (tmcg_h :35-39, tmcg_g :42-85)
   Idealised primitives are Section variables: the two raw digests used by tmcg_g (gcry_md_hash_buffer with SHA-256 resp.
   SHA3-256), the quadratic-residue test and the four-square-roots routine of mpz_sqrtm.cc (property C09), mpz_jacobi and
   mpz_probab_prime_p.  The heap contents found in the freshly allocated (uninitialised) export buffers are an explicit
   argument `heap` (RabinLemmas shows that verify does not depend on it and that decrypt depends on it only for a zero root).  Text is `list N` (bytes).  Definitions only -- proofs live in RabinLemmas.v. *)
From Coq Require Import ZArith NArith List Bool.
From LT Require Import gen_Consts CodecModel Zbase.
Import ListNotations.

(* ---- sizes -------------------------------------------------------------------------------- *)
Definition md : nat := 32.                          (* gcry_md_get_algo_dlen(TMCG_GCRY_MD_ALGO = SHA256) = dlen(SHA3-256) *)
Definition usesize : nat := md / 4 + 1.
Definition K0 : nat := Z.to_nat TMCG_PRAB_K0.
Definition S0 : nat := Z.to_nat TMCG_SAEP_S0.
Definition slack : nat := Z.to_nat 1024.           (* `new unsigned char[mnsize+1024]` *)

(* ---- bytes and numbers --------------------------------------------------------------------- *)
Definition zeros (n : nat) : bytes := repeat 0%N n.
Definition bxor (a b : bytes) : bytes := map (fun p => N.lxor (fst p) (snd p)) (combine a b).
Definition all_zero (a : bytes) : bool := forallb (fun c => N.eqb c 0) a.

(* mpz_import(z, 1, -1, size, 1, 0, buf): one word, most significant byte first *)
Definition be2n (bs : bytes) : N := fold_left (fun a b => (a * 256 + b)%N) bs 0%N.
Definition be2z (bs : bytes) : Z := Z.of_N (be2n bs).
(* k bytes, most significant first, of n mod 256^k *)
Fixpoint n2be (k : nat) (n : N) : bytes :=
  match k with O => [] | S k' => n2be k' (n / 256)%N ++ [(n mod 256)%N] end.

(* mpz_sizeinbase(z, 2) *)
Definition sizeinbase2 (z : Z) : Z := if (z =? 0)%Z then 1%Z else (Z.log2 (Z.abs z) + 1)%Z.

(* mpz_export(buf, &cnt, -1, size, 1, 0, v): number of words written and the bytes (least significant word first,
   most significant byte first inside a word); nothing at all is written for v = 0 *)
Definition export_count (size : nat) (v : Z) : nat :=
  if (v =? 0)%Z then O else Z.to_nat ((sizeinbase2 v + 8 * Z.of_nat size - 1) / (8 * Z.of_nat size)).
Definition export_bytes (size : nat) (v : Z) : bytes :=
  flat_map (fun i => n2be size (Z.to_N (Z.abs v) / 256 ^ N.of_nat (size * i))%N) (seq 0 (export_count size v)).
(* the buffer after the call: written bytes followed by whatever the heap held there *)
Definition buffer_after (heap written : bytes) : bytes := written ++ skipn (length written) heap.

(* ---- strings --------------------------------------------------------------------------------- *)
Definition str_sig : bytes := [115; 105; 103]%N.
Definition str_enc : bytes := [101; 110; 99]%N.
Definition str_pub : bytes := [112; 117; 98]%N.
Definition str_sec : bytes := [115; 101; 99]%N.
Definition str_nzk : bytes := [110; 122; 107]%N.
Definition str_ID : bytes := [73; 68]%N.
Definition str_NIZK : bytes := [78; 73; 90; 75]%N.
Definition str_ERROR : bytes := [69; 82; 82; 79; 82]%N.
Definition str_SELFSIG7 : bytes := [83; 69; 76; 70; 83; 73; 71]%N.
Definition str_SELFSIG : bytes :=
  concat (repeat (str_SELFSIG7 ++ [45%N]) 5) ++ str_SELFSIG7.
Definition str_libTMCG : bytes := [108; 105; 98; 84; 77; 67; 71]%N.

Fixpoint prefixb (p s : bytes) : bool :=
  match p, s with
  | [], _ => true
  | a :: p', b :: s' => N.eqb a b && prefixb p' s'
  | _ :: _, [] => false
  end.
Fixpoint contains (p s : bytes) : bool :=       (* std::string::find(p) != npos *)
  prefixb p s || match s with [] => false | _ :: r => contains p r end.
Definition lastn (n : nat) (l : bytes) : bytes := skipn (length l - n) l.

Section Rabin.
Variable H1 H2 : bytes -> bytes.        (* raw digests: SHA-256, SHA3-256 *)
Variable qr : Z -> bool.                (* tmcg_mpz_qrmn_p(., p, q) of the secret key *)
Variable roots : Z -> list Z.           (* tmcg_mpz_sqrtmn_fast_all(., p, q, m, ...) : the four roots in the order returned *)
Variable jacobi : Z -> Z -> Z.          (* mpz_jacobi *)
Variable is_prime : Z -> bool.          (* mpz_probab_prime_p(., 500) != 0 *)

(* ---- tmcg_g (mpz_shash.cc:42-85) ---------------------------------------------------------- *)
Definition splice (buf : bytes) (off : nat) (d : bytes) : bytes :=
  firstn off buf ++ d ++ skipn (off + length d) buf.
Definition hexc (d : N) : N := if (d <? 10)%N then (48 + d)%N else (87 + d)%N.
Definition g_tag (i : nat) : bytes :=          (* snprintf "libTMCG%02x", (uint8_t)i *)
  let b := (N.of_nat i mod 256)%N in str_libTMCG ++ [hexc (b / 16)%N; hexc (b mod 16)%N].
Definition g_step (input : bytes) (st : bytes * bytes) (i : nat) : bytes * bytes :=
  let data := input ++ g_tag i ++ input in
  let o1 := splice (fst st) (i * (usesize + 2)) (H1 data) in
  let o2 := splice (snd st) (i * (usesize + 2)) (H2 data) in
  (splice o1 (i * usesize) (H1 (firstn ((i + 1) * (md - 1)) o1)),
   splice o2 (i * usesize) (H2 (firstn ((i + 1) * (md - 1)) o2))).
Definition tmcg_g (osize : nat) (input : bytes) : bytes :=
  let times := (osize / usesize + 1)%nat in
  let st := fold_left (g_step input) (seq 0 times) (zeros ((times + 1) * md), zeros ((times + 1) * md)) in
  firstn osize (bxor (fst st) (snd st)).

(* ---- key id (TMCG_PublicKey.cc:365-435) --------------------------------------------------- *)
Definition selfid (ksig : bytes) : bytes :=
  match ksig with
  | [] => str_SELFSIG
  | _ =>
    match cm ksig str_sig bar with
    | None => str_ERROR
    | Some s1 =>
      match split_at bar s1 with
      | None => str_ERROR
      | Some (_, s2) =>
        match split_at bar s2 with
        | None => str_ERROR
        | Some (id, _) => id
        end
      end
    end
  end.

Definition keyid (size : N) (ksig : bytes) : bytes :=
  let tmp := selfid ksig in
  if bytes_eqb tmp str_ERROR then str_ERROR
  else str_ID ++ encode_dec size ++ [hat] ++
       (if (size <? N.of_nat (length tmp))%N then lastn (N.to_nat size) tmp else tmp).

Definition keyid_size (s : bytes) : N :=
  if (length s <? 4)%nat then 0%N
  else if negb (bytes_eqb (firstn 2 s) str_ID) then 0%N
  else match split_at hat s with
       | None => 0%N
       | Some (a, rest) =>
         match strtoul_full (skipn 2 a) with
         | None => 0%N
         | Some size => if (size =? N.of_nat (length rest))%N then size else 0%N
         end
       end.

Definition kid_matches (ksig kid : bytes) : bool := bytes_eqb kid (keyid (keyid_size kid) ksig).

(* ---- PRab verification (TMCG_PublicKey.cc:542-616) ----------------------------------------- *)
Inductive outcome := Accept | Reject | Overflow.

Definition mnsize_of (m : Z) : nat := Z.to_nat (sizeinbase2 m / 8).

(* the three fields of the padded value as read from the export buffer, and the acceptance test *)
Definition prab_test (mn : nat) (data yy : bytes) : bool :=
  let gsize := (mn - md - K0)%nat in
  let w := firstn md yy in
  let r := firstn K0 (skipn md yy) in
  let gamma := firstn gsize (skipn (md + K0) yy) in
  let g12 := tmcg_g (mn - md) w in
  let r' := bxor r (firstn K0 g12) in
  let w2 := H1 (data ++ r') in
  bytes_eqb w (firstn md w2) && bytes_eqb gamma (firstn gsize (skipn K0 g12)).

Definition verify_core (m : Z) (heap data : bytes) (v : Z) : outcome :=
  let bits := sizeinbase2 m in
  let mn := mnsize_of m in
  if (bits <=? Z.of_nat mn * 8)%Z then Reject
  else if (mn <=? md + K0)%nat then Reject
  else
    let foo := ((v * v) mod Z.abs m)%Z in
    if (sizeinbase2 foo >? Z.of_nat mn * 8)%Z || (foo =? 0)%Z then Reject     (* fix 5f58cf8: zero square refused *)
    else
      let written := export_bytes mn foo in
      if (mn + slack <? length written)%nat then Overflow
      else if prab_test mn data (buffer_after heap written) then Accept else Reject.

Definition verify_text (m : Z) (ksig heap data s : bytes) : outcome :=
  match cm s str_sig bar with
  | None => Reject
  | Some s1 =>
    match split_at bar s1 with
    | None => Reject
    | Some (kid, s2) =>
      if negb (kid_matches ksig kid) then Reject
      else match split_at bar s2 with
           | None => Reject
           | Some (vs, _) =>
             match decode62 vs with
             | None => Reject
             | Some v => verify_core m heap data v
             end
           end
    end
  end.

(* ---- PRab signing (TMCG_SecretKey.cc:547-595) ----------------------------------------------- *)
Definition sign_pad (m : Z) (data r : bytes) : Z :=
  let mn := mnsize_of m in
  let w := firstn md (H1 (data ++ r)) in
  let g12 := tmcg_g (mn - md) w in
  let r' := bxor r (firstn K0 g12) in
  be2z (w ++ r' ++ firstn (mn - md - K0) (skipn K0 g12)).

(* the do-while loop: K0 coins per attempt from the random stream *)
Fixpoint sign_loop (fuel : nat) (m : Z) (data stream : bytes) : option Z :=
  match fuel with
  | O => None
  | S f =>
    if (length stream <? K0)%nat then None
    else let foo := sign_pad m data (firstn K0 stream) in
         if qr foo then Some foo else sign_loop f m data (skipn K0 stream)
  end.

Definition sig_text (kid : bytes) (s : Z) : bytes := str_sig ++ [bar] ++ kid ++ [bar] ++ encode62 s ++ [bar].

(* None: assertion failure (abort) / coins exhausted / root index out of range *)
Definition sign_text (m : Z) (ksig data stream : bytes) (idx : nat) : option bytes :=
  let mn := mnsize_of m in
  if (sizeinbase2 m <=? Z.of_nat mn * 8)%Z then None
  else if (mn <=? md + K0)%nat then None
  else match sign_loop (S (length stream)) m data stream with
       | None => None
       | Some foo =>
         match nth_error (roots foo) idx with
         | None => None
         | Some s => Some (sig_text (keyid (Z.to_N TMCG_KEYID_SIZE) ksig) s)
         end
       end.

(* generate(): the self-signature is made while `sig` is still empty and its key id is patched afterwards *)
Definition selfsig_text (s : Z) : bytes :=
  let v := encode62 s in
  sig_text (str_ID ++ encode_dec (Z.to_N TMCG_KEYID_SIZE) ++ [hat] ++
            (if (Z.to_N TMCG_KEYID_SIZE <? N.of_nat (length v))%N then lastn (Z.to_nat TMCG_KEYID_SIZE) v else v)) s.

(* ---- SAEP encryption (TMCG_PublicKey.cc:500-540) -------------------------------------------- *)
Definition saep_sizes_ok (m : Z) : bool :=
  let bits := sizeinbase2 m in
  (Z.of_nat (2 * S0) <? bits / 16)%Z && (Z.of_nat (2 * S0) <? bits / 8 - Z.of_nat (2 * S0))%Z &&
  (Z.of_nat S0 <? bits / 32)%Z.

Definition saep_pad (m : Z) (value coins : bytes) : Z :=
  let s2 := (2 * S0)%nat in
  let s1 := (mnsize_of m - s2)%nat in
  let r := firstn s1 coins in
  let Mt := firstn S0 value ++ zeros S0 in
  be2z (bxor Mt (tmcg_g s2 r) ++ r).

Definition enc_text (kid : bytes) (v : Z) : bytes := str_enc ++ [bar] ++ kid ++ [bar] ++ encode62 v ++ [bar].

(* None: assertion failure (abort) *)
Definition encrypt_text (m : Z) (ksig value coins : bytes) : option bytes :=
  if saep_sizes_ok m then
    let x := saep_pad m value coins in
    Some (enc_text (keyid (Z.to_N TMCG_KEYID_SIZE) ksig) ((x * x) mod Z.abs m)%Z)
  else None.

(* ---- SAEP decryption (TMCG_SecretKey.cc:461-545) -------------------------------------------- *)
Inductive dec_out := DecReject | DecOverflow | DecValue (v : bytes).

Fixpoint try_roots (s : nat) (heap : bytes) (rs : list Z) : dec_out :=
  match rs with
  | [] => DecReject
  | root :: rest =>
    if (sizeinbase2 root <=? Z.of_nat s * 8)%Z then                          (* fix 288af9c: at most one word *)
      let written := export_bytes s root in
      if (s + slack <? length written)%nat then DecOverflow
      else
        let yy := buffer_after heap written in
        let s2 := (2 * S0)%nat in
        let r := firstn (s - s2) (skipn s2 yy) in
        let Mt := bxor (firstn s2 yy) (tmcg_g s2 r) in
        if all_zero (firstn S0 (skipn S0 Mt)) then DecValue (firstn S0 Mt)
        else try_roots s yy rest
    else try_roots s heap rest
  end.

Definition decrypt_text (m : Z) (ksig heap s : bytes) : dec_out :=
  if negb (saep_sizes_ok m) then DecReject
  else match cm s str_enc bar with
  | None => DecReject
  | Some s1 =>
    match split_at bar s1 with
    | None => DecReject
    | Some (kid, s2) =>
      if negb (kid_matches ksig kid) then DecReject
      else match split_at bar s2 with
           | None => DecReject
           | Some (vs, _) =>
             match decode62 vs with
             | None => DecReject
             | Some v => if qr v then try_roots (mnsize_of m) heap (roots v) else DecReject
             end
           end
    end
  end.

(* ---- key text (TMCG_PublicKey.cc:437-498, :624-629; TMCG_SecretKey.cc:373-459, :618-624) ------ *)
Record pubkey := { k_name : bytes; k_email : bytes; k_type : bytes; k_m : Z; k_y : Z; k_nizk : bytes; k_sig : bytes }.

Definition export_pub (k : pubkey) : bytes :=
  str_pub ++ [bar] ++ k_name k ++ [bar] ++ k_email k ++ [bar] ++ k_type k ++ [bar] ++ encode62 (k_m k) ++ [bar] ++
  encode62 (k_y k) ++ [bar] ++ k_nizk k ++ [bar] ++ k_sig k.

Definition import_pub (s : bytes) : option pubkey :=
  match cm s str_pub bar with None => None | Some s =>
  match split_at bar s with None => None | Some (name, s) =>
  match split_at bar s with None => None | Some (email, s) =>
  match split_at bar s with None => None | Some (type, s) =>
  match split_at bar s with None => None | Some (ms, s) =>
  match decode62 ms with None => None | Some m =>
  match split_at bar s with None => None | Some (ys, s) =>
  match decode62 ys with None => None | Some y =>
  match split_at bar s with None => None | Some (nizk, s) =>
  Some {| k_name := name; k_email := email; k_type := type; k_m := m; k_y := y; k_nizk := nizk; k_sig := s |}
  end end end end end end end end end.

Definition export_sec (k : pubkey) (p q : Z) : bytes :=
  str_sec ++ [bar] ++ k_name k ++ [bar] ++ k_email k ++ [bar] ++ k_type k ++ [bar] ++ encode62 (k_m k) ++ [bar] ++
  encode62 (k_y k) ++ [bar] ++ encode62 p ++ [bar] ++ encode62 q ++ [bar] ++ k_nizk k ++ [bar] ++ k_sig k.

(* precompute(): the three mpz_invert / gcdext tests (moduli of absolute value <= 1 are outside the model) *)
Definition precompute_ok (m y p q : Z) : bool :=
  (Z.gcd y m =? 1)%Z && (Z.gcd m (m - p - q + 1) =? 1)%Z && (Z.gcd p q =? 1)%Z.

Definition import_sec (s : bytes) : option (pubkey * Z * Z) :=
  match cm s str_sec bar with None => None | Some s =>
  match split_at bar s with None => None | Some (name, s) =>
  match split_at bar s with None => None | Some (email, s) =>
  match split_at bar s with None => None | Some (type, s) =>
  match split_at bar s with None => None | Some (ms, s) =>
  match decode62 ms with None => None | Some m =>
  match split_at bar s with None => None | Some (ys, s) =>
  match decode62 ys with None => None | Some y =>
  match split_at bar s with None => None | Some (ps, s) =>
  match decode62 ps with None => None | Some p =>
  match split_at bar s with None => None | Some (qs, s) =>
  match decode62 qs with None => None | Some q =>
  match split_at bar s with None => None | Some (nizk, s) =>
  if precompute_ok m y p q then
    Some ({| k_name := name; k_email := email; k_type := type; k_m := m; k_y := y; k_nizk := nizk; k_sig := s |}, p, q)
  else None
  end end end end end end end end end end end end end.

(* ---- key validation (TMCG_PublicKey.cc:101-338) ----------------------------------------------- *)
Definition selfsig_data (k : pubkey) : bytes :=
  k_name k ++ [bar] ++ k_email k ++ [bar] ++ k_type k ++ [bar] ++ encode62 (k_m k) ++ [bar] ++
  encode62 (k_y k) ++ [bar] ++ k_nizk k ++ [bar].

Inductive res (A : Type) := Unmodelled | Rej | Ok (a : A).
Arguments Unmodelled {A}. Arguments Rej {A}. Arguments Ok {A} a.

(* common random number from g: do { foo = g(input) mod m; input << foo } while (!cond foo) *)
Fixpoint challenge (cond : Z -> bool) (fuel : nat) (m : Z) (input : bytes) : option (Z * bytes) :=
  match fuel with
  | O => None
  | S f =>
    let foo := (be2z (tmcg_g (mnsize_of m) input) mod Z.abs m)%Z in
    let input' := input ++ encode62 foo in
    if cond foo then Some (foo, input') else challenge cond f m input'
  end.

(* `rounds` iterations of one stage: returns the (challenge, response) pairs, the rest of the proof text, the hash input *)
Fixpoint stage_rounds (cond : Z -> bool) (eqn : Z -> Z -> bool) (rounds fuel : nat) (m : Z) (s input : bytes)
  : res (list (Z * Z) * bytes * bytes) :=
  match rounds with
  | O => Ok ([], s, input)
  | S n =>
    match challenge cond fuel m input with
    | None => Unmodelled
    | Some (foo, input') =>
      match split_at hat s with
      | None => Rej
      | Some (vs, s') =>
        match decode62 vs with
        | None => Rej
        | Some resp =>
          if eqn foo resp then
            match stage_rounds cond eqn n fuel m s' input' with
            | Ok (tr, s'', input'') => Ok ((foo, resp) :: tr, s'', input'')
            | Rej => Rej
            | Unmodelled => Unmodelled
            end
          else Rej
        end
      end
    end
  end.

(* the stage header: decimal counter, `*ec != 0 || size <= 0`, then the configured minimum *)
Definition stage_header (minimum : Z) (s : bytes) : option (N * bytes) :=
  match split_at hat s with
  | None => None
  | Some (cs, s') =>
    match strtoul_full cs with
    | None => None
    | Some n => if (n =? 0)%N then None else if (Z.of_N n <? minimum)%Z then None else Some (n, s')
    end
  end.

(* a successful round consumes at least the '^' of its response, so more than |s|+1 rounds cannot succeed *)
Definition rounds_of (n : N) (s : bytes) : nat := N.to_nat (N.min n (N.of_nat (S (length s)))).

Definition congr (a b m : Z) : bool := ((a - b) mod Z.abs m =? 0)%Z.
Definition cond_unit (m foo : Z) : bool := (Z.gcd foo m =? 1)%Z.
Definition cond_jac (m foo : Z) : bool := (jacobi foo m =? 1)%Z.
Definition eqn1 (m foo bar : Z) : bool := (powm bar m m =? foo)%Z.
Definition eqn2 (m foo bar : Z) : bool :=
  let b2 := ((bar * bar) mod Z.abs m)%Z in
  congr b2 foo m || congr b2 (- foo) m || congr b2 (- foo * 2) m || congr b2 (foo * 2) m.
Definition eqn3 (m y foo bar : Z) : bool :=
  let b2 := ((bar * bar) mod Z.abs m)%Z in
  congr b2 foo m || congr b2 ((foo * y) mod Z.abs m) m.

Definition run_stage (minimum : Z) (cond : Z -> bool) (eqn : Z -> Z -> bool) (fuel : nat) (m : Z) (s input : bytes)
  : res (N * list (Z * Z) * bytes * bytes) :=
  match stage_header minimum s with
  | None => Rej
  | Some (n, s') =>
    match stage_rounds cond eqn (rounds_of n s') fuel m s' input with
    | Ok (tr, s'', input') => if (N.of_nat (length tr) =? n)%N then Ok (n, tr, s'', input') else Rej
    | Rej => Rej
    | Unmodelled => Unmodelled
    end
  end.

Definition nizk_check (fuel : nat) (k : pubkey) : res bool :=
  let m := k_m k in
  if (m <? 0)%Z then Unmodelled else
  match cm (k_nizk k) str_nzk hat with
  | None => Ok false
  | Some s =>
    let input := encode62 m ++ [hat] ++ encode62 (k_y k) in
    match run_stage TMCG_KEY_NIZK_STAGE1 (cond_unit m) (eqn1 m) fuel m s input with
    | Unmodelled => Unmodelled | Rej => Ok false
    | Ok (_, _, s, input) =>
      match run_stage TMCG_KEY_NIZK_STAGE2 (cond_unit m) (eqn2 m) fuel m s input with
      | Unmodelled => Unmodelled | Rej => Ok false
      | Ok (_, _, s, input) =>
        match run_stage TMCG_KEY_NIZK_STAGE3 (cond_jac m) (eqn3 m (k_y k)) fuel m s input with
        | Unmodelled => Unmodelled | Rej => Ok false
        | Ok _ => Ok true
        end
      end
    end
  end.

(* the Fermat-number test of check(): m - 1 = 2^k with k = sizeinbase2 m, k = 2^l with l = sizeinbase2 k, ... *)
Definition fermat_reject (m : Z) : bool :=
  let k := sizeinbase2 m in
  if (m - 1 =? 2 ^ k)%Z then
    let l := sizeinbase2 k in
    if (k =? 2 ^ l)%Z then
      if (m =? 5)%Z then true
      else congr (powm 5 (2 ^ (k / 2)) m) (-1) m
    else false
  else false.

Definition check (fuel : nat) (heap : bytes) (k : pubkey) : res bool :=
  let m := k_m k in
  if negb (jacobi (k_y k) m =? 1)%Z then Ok false
  else if negb (Z.odd m) then Ok false
  else if is_prime m then Ok false
  else match verify_text m (k_sig k) heap (selfsig_data k) (k_sig k) with
       | Reject => Ok false
       | Overflow => Unmodelled
       | Accept =>
         if fermat_reject m then Ok false
         else if negb (contains str_NIZK (k_type k)) then Ok true
         else nizk_check fuel k
       end.

End Rabin.
