(* AioFits: proofs about AioModel, part 5 -- every record an honest sender writes fits the receive buffer
   (Send refuses integers with 2*size >= buf_in_size), hence an honest stream never drives the receiver into the
   "read buffer exceeded" state, whatever the fragmentation. *)
From Coq Require Import ZArith NArith List Bool Lia.
From LT Require Import gen_Consts CodecModel CodecLemmas AioModel AioLemmas AioRoundtrip AioProgress.
Import ListNotations.
Local Open Scope Z_scope.

(* ---- sizes ------------------------------------------------------------------------------------- *)
Lemma sizeinbase62_upper x : sizeinbase62 x <= (Z.log2 (Z.abs x) + 1) / 5 + 1.
Proof.
  unfold sizeinbase62. destruct (Z.eqb_spec x 0) as [->|N].
  - cbn. lia.
  - set (b := Z.log2 (Z.abs x) + 1). assert (0 <= b) by (pose proof (Z.log2_nonneg (Z.abs x)); lia).
    apply Z.add_le_mono_r.
    transitivity (((logb2_62 + 1) * b) / ((logb2_62 + 1) * 5)).
    + apply Z.div_le_compat_l; [unfold logb2_62; lia|]. unfold logb2_62. split; [lia|]. vm_compute. discriminate.
    + rewrite Z.div_mul_cancel_l by (unfold logb2_62; lia). lia.
Qed.

Lemma sizeinbase62_lower x : x <> 0 -> Z.log2 (Z.abs x) + 1 <= 6 * sizeinbase62 x.
Proof.
  intros N. unfold sizeinbase62. destruct (Z.eqb_spec x 0); [contradiction|].
  set (b := Z.log2 (Z.abs x) + 1). assert (0 <= b) by (pose proof (Z.log2_nonneg (Z.abs x)); lia).
  assert (b / 6 <= ((logb2_62 + 1) * b) / 2 ^ 64).
  { rewrite <- (Z.div_mul_cancel_l b 6 (logb2_62 + 1)) by (unfold logb2_62; lia).
    apply Z.div_le_compat_l; [unfold logb2_62; lia|]. split; [lia|]. vm_compute. discriminate. }
  pose proof (Z.div_mod b 6 ltac:(lia)). pose proof (Z.mod_pos_bound b 6 ltac:(lia)). lia.
Qed.

Lemma to_digits_fuel_length b fuel : forall n acc, (length (to_digits_fuel b fuel n acc) <= fuel + length acc)%nat.
Proof.
  induction fuel as [|f IH]; intros n acc; cbn [to_digits_fuel]; [lia|].
  destruct (n =? 0)%N; [lia|]. specialize (IH (n / b)%N (n mod b :: acc)%N). cbn [length] in IH. lia.
Qed.

Lemma zlog2_pos p : Z.log2 (Zpos p) = Z.of_N (N.log2 (Npos p)).
Proof. destruct p; reflexivity. Qed.

Lemma encode62_length z : blen (encode62 z) <= Z.log2 (Z.abs z) + 3.
Proof.
  assert (D : forall p, blen (map digit_char (to_digits 62 (Npos p))) <= Z.log2 (Zpos p) + 2).
  { intros p. unfold blen. rewrite map_length. unfold to_digits. cbn [N.eqb].
    pose proof (to_digits_fuel_length 62 (S (N.to_nat (N.size (Npos p)))) (Npos p) []) as L. cbn [length] in L.
    pose proof (N.size_log2 (N.pos p) ltac:(discriminate)) as SL. rewrite zlog2_pos. lia. }
  destruct z as [|p|p]; cbn [encode62 Z.abs].
  - cbn. lia.
  - specialize (D p). lia.
  - specialize (D p). unfold blen in *. cbn [length]. lia.
Qed.

Lemma fold_dstep_lt b ds : forall a, (1 <= b)%N -> Forall (fun d => (d < b)%N) ds ->
  (fold_left (dstep b) ds a < (a + 1) * b ^ N.of_nat (length ds))%N.
Proof.
  induction ds as [|d r IH]; intros a Hb F.
  - cbn. lia.
  - inversion F; subst. cbn [fold_left length]. rewrite Nnat.Nat2N.inj_succ, N.pow_succ_r'.
    specialize (IH (dstep b a d) Hb ltac:(assumption)). unfold dstep in IH at 2. unfold dstep at 2.
    eapply N.lt_le_trans; [exact IH|]. unfold dstep.
    set (pw := (b ^ N.of_nat (length r))%N). assert ((a * b + d + 1 <= (a + 1) * b)%N) by lia.
    replace ((a + 1) * (b * pw))%N with (((a + 1) * b) * pw)%N by lia. now apply N.mul_le_mono_r.
Qed.

Lemma import_bits c0 ct : (0 < c0 < 256)%N -> Forall (fun d => (d < 256)%N) ct ->
  Z.log2 (Z.of_N (import_be (c0 :: ct))) + 1 <= 8 * (blen ct + 1).
Proof.
  intros Hc F. unfold import_be. rewrite from_digits_unfold.
  pose proof (fold_dstep_lt 256 (c0 :: ct) 0 ltac:(lia) ltac:(constructor; [lia|assumption])) as U.
  pose proof (fold_dstep_ge 256 ct (dstep 256 0 c0) ltac:(lia)) as G. cbn [fold_left] in *.
  set (v := fold_left (dstep 256) ct (dstep 256 0 c0)) in *.
  assert (P0 : (0 < 256 ^ N.of_nat (length ct))%N) by (apply N.neq_0_lt_0, N.pow_nonzero; lia).
  assert (V0 : (0 < v)%N) by (unfold dstep in G at 1; nia).
  rewrite N.add_0_l, N.mul_1_l in U.
  assert (Z.of_N v < 2 ^ (8 * (blen ct + 1))).
  { apply N2Z.inj_lt in U. rewrite N2Z.inj_pow in U. cbn [length] in U. rewrite Nnat.Nat2N.inj_succ, N2Z.inj_succ, nat_N_Z in U.
    change (Z.of_N 256) with (2 ^ 8) in U. rewrite <- Z.pow_mul_r in U by (unfold blen; lia). unfold blen.
    replace (8 * (Z.of_nat (length ct) + 1)) with (8 * Z.succ (Z.of_nat (length ct))) by lia. exact U. }
  apply Z.log2_lt_pow2 in H; [lia|lia].
Qed.

(* ---- every written record fits ----------------------------------------------------------------- *)
Definition rec_bound (P : prims) : Z :=
  8 * (buf_in_size / 2 + 2 + Z.of_nat (blklen P)) / 5 + 7 * Z.of_nat (blklen P) + Z.of_nat (maclen P) + 16.
(* side condition on the parameters of the link (maclen 32, blklen 16, buffer 4096: 3465 <= 4096) *)
Definition link_fits (P : prims) : Prop := rec_bound P <= buf_in_size /\ Z.of_nat (blklen P) < buf_in_size.

Section Fits.
Variable P : prims.
Variable c : cfg.
Variable iv : bytes.
Hypothesis mac_len : forall x, length (mac P x) = maclen P.
Hypothesis enc_len : forall h p, length (c_enc P h p) = length p.
Hypothesis enc_byte : forall h p, isbytes p -> isbytes (c_enc P h p).

Local Opaque hide_length buf_in_size sizeinbase62 ctr_block.

Lemma zeros_length n : length (zeros n) = n.
Proof. induction n; cbn; auto. Qed.

Lemma plain_bufsize_le size : 0 <= size -> plain_bufsize P c size <= size + 2 + Z.of_nat (eff_blklen P c).
Proof.
  intros H. unfold plain_bufsize. destruct (nonblock c); [lia|].
  destruct (Z.ltb_spec 0 (Z.of_nat (eff_blklen P c))); [|lia].
  pose proof (Z.mod_pos_bound (size + 2 - 1) (Z.of_nat (eff_blklen P c)) ltac:(lia)).
  destruct (Z.ltb_spec 0 ((size + 2 - 1) mod Z.of_nat (eff_blklen P c))); lia.
Qed.

Lemma sizeinbase62_pos x : 1 <= sizeinbase62 x.
Proof.
  Local Transparent sizeinbase62. unfold sizeinbase62. Local Opaque sizeinbase62.
  destruct (x =? 0); [lia|].
  assert (0 <= ((logb2_62 + 1) * (Z.log2 (Z.abs x) + 1)) / 2 ^ 64); [|lia].
  apply Z.div_pos; [|lia]. pose proof (Z.log2_nonneg (Z.abs x)). unfold logb2_62. lia.
Qed.

(* bytes written by one accepted Send: the IV (first time, encrypted link) and a record of at most rec_bound bytes *)
Lemma send_len st m w st' : 0 <= s_chunk st -> send P c iv st m = Some (w, st') ->
  blen w <= (if encr c && negb (s_iv_sent st) then blen iv else 0) + rec_bound P.
Proof.
  intros Hch H. unfold send in H.
  destruct (encr c && (m <? 0)) eqn:NG; [discriminate|].
  destruct (Z.leb_spec buf_in_size (sizeinbase62 (if encr c then m + hide_length else m) * 2)) as [|SZ]; [discriminate|].
  set (tmp := if encr c then m + hide_length else m) in *.
  set (size := sizeinbase62 tmp) in *.
  set (str := encode62 tmp) in *.
  destruct ((0 <? blen str) && _) eqn:C1; cbn [negb] in H; [|discriminate].
  apply andb_prop in C1. destruct C1 as [C1a C1b]. apply Z.ltb_lt in C1a, C1b.
  pose proof (sizeinbase62_pos tmp) as SP. fold size in SP.
  pose proof (plain_bufsize_le size ltac:(lia)) as PB.
  assert (HS : size <= buf_in_size / 2) by (apply Z.div_le_lower_bound; lia).
  assert (TagLen : forall x, blen (if auth c then mac P x else []) <= Z.of_nat (maclen P)).
  { intros x. unfold blen. destruct (auth c); [rewrite mac_len; lia|cbn; lia]. }
  assert (G8 : forall x, 0 <= x -> x <= 8 * x / 5) by (intros x Hx; apply Z.div_le_lower_bound; lia).
  unfold rec_bound.
  destruct (encr c) eqn:E.
  - set (chunk' := if ctr_mode c then s_chunk st + 1 else s_chunk st) in *.
    destruct (ctr_mode c && _) eqn:C2; [discriminate|].
    set (h1 := if ctr_mode c then OpCtr (ctr_block iv chunk') :: s_hist st else s_hist st) in *.
    set (n := Z.to_nat (plain_bufsize P c size - 1 - blen str)) in *.
    set (plain := if ctr_mode c then str ++ zeros n else str) in *.
    set (ct := c_enc P h1 plain) in *.
    set (encval := Z.of_N (import_be (c_plus :: ct))) in *.
    set (estr := encode62 encval) in *.
    destruct ((0 <? blen estr) && _) eqn:C3; cbn [negb] in H; [|discriminate].
    apply andb_prop in C3. destruct C3 as [_ C3]. apply Z.ltb_lt in C3.
    injection H as <- _.
    unfold eff_blklen in PB. rewrite E in PB.
    assert (Lpl : blen plain <= size + 1 + Z.of_nat (blklen P)).
    { unfold plain. unfold blen in *. destruct (ctr_mode c).
      - rewrite app_length, zeros_length. unfold n. lia.
      - lia. }
    assert (IBp : isbytes plain).
    { unfold plain. destruct (ctr_mode c); [apply Forall_app; split; [apply encode62_isbytes|apply zeros_isbytes]|apply encode62_isbytes]. }
    assert (Lct : blen ct = blen plain) by (unfold ct, blen; now rewrite enc_len).
    pose proof (import_bits c_plus ct ltac:(unfold c_plus; lia) (enc_byte h1 plain IBp)) as IBits. fold encval in IBits.
    pose proof (sizeinbase62_upper encval) as SU.
    assert (Habs : Z.abs encval = encval) by (apply Z.abs_eq; unfold encval; lia). rewrite Habs in SU.
    assert (SE : sizeinbase62 encval <= 8 * (buf_in_size / 2 + 2 + Z.of_nat (blklen P)) / 5 + 1).
    { etransitivity; [exact SU|]. apply Z.add_le_mono_r. apply Z.div_le_mono; lia. }
    assert (IVl : blen (if s_iv_sent st then [] else iv) = (if true && negb (s_iv_sent st) then blen iv else 0)).
    { destruct (s_iv_sent st); reflexivity. }
    cbn [andb] in IVl |- *.
    destruct (ctr_mode c) eqn:CM.
    + cbn [andb] in C2. apply Z.ltb_ge in C2.
      assert (Hc0 : chunk' <> 0) by (unfold chunk'; lia).
      pose proof (sizeinbase62_lower chunk' Hc0) as SL. pose proof (encode62_length chunk') as EL.
      unfold blen in *. rewrite !app_length. cbn [length]. rewrite !app_length. cbn [length].
      specialize (TagLen ((estr ++ bar :: encode62 chunk' ++ [c_nl]) ++ encode62 (s_sqn st))). unfold blen in TagLen.
      destruct (s_iv_sent st); cbn [negb length] in *; lia.
    + unfold blen in *. rewrite !app_length. cbn [length].
      specialize (TagLen ((estr ++ [c_nl]) ++ encode62 (s_sqn st))). unfold blen in TagLen.
      destruct (s_iv_sent st); cbn [negb length] in *; lia.
  - injection H as <- _. cbn [andb].
    unfold eff_blklen in PB. rewrite E in PB. cbn in PB.
    specialize (TagLen ((str ++ [c_nl]) ++ encode62 (s_sqn st))).
    unfold blen in *. rewrite !app_length. cbn [length].
    pose proof (G8 (buf_in_size / 2 + 2 + Z.of_nat (blklen P)) ltac:(lia)). lia.
Qed.

End Fits.

(* ---- the remaining stream of an honest session is always a whole number of records ---------------- *)
Lemma app_prefix {A} (cc : list A) : forall a b d, a ++ b = cc ++ d -> (length cc <= length a)%nat -> exists x, a = cc ++ x.
Proof.
  induction cc as [|y cc IH]; intros a b d H L; [exists a; reflexivity|].
  destruct a as [|x a]; [cbn in L; lia|]. cbn in H. injection H as -> H.
  destruct (IH a b d H ltac:(cbn in L; lia)) as [z ->]. exists z. reflexivity.
Qed.

Lemma Forall_skipn {A} (Q : A -> Prop) j : forall l, Forall Q l -> Forall Q (skipn j l).
Proof. induction j as [|j IH]; intros l F; [exact F|]. destruct l; [constructor|]. inversion F; subst. cbn. now apply IH. Qed.

Lemma skipn_next {A} j : forall (l : list A) x r, skipn j l = x :: r -> skipn (S j) l = r.
Proof.
  induction j as [|j IH]; intros l x r H.
  - cbn in H. subst. reflexivity.
  - destruct l as [|y l]; [discriminate|]. cbn [skipn] in H. cbn [skipn]. destruct l as [|z l].
    + rewrite skipn_nil in H. discriminate.
    + exact (IH (z :: l) x r H).
Qed.

Section NoStuck.
Variable P : prims.
Variable c : cfg.
Variable nonce : bytes.
Hypothesis blk_pos : (0 < blklen P)%nat.

Notation wf := (AioLemmas.wf P c).

Definition rbytes (r : bytes * bytes) : bytes := fst r ++ c_nl :: snd r.
Definition flat (recs : list (bytes * bytes)) : bytes := concat (map rbytes recs).
Definition good (recs : list (bytes * bytes)) : Prop :=
  Forall (fun r => Forall (fun x => x <> c_nl) (fst r) /\ length (snd r) = eff_maclen P c /\
                   blen (rbytes r) <= buf_in_size) recs.

Definition rem (st : rstate) (pipe fut : bytes) : bytes := r_buf st ++ pipe ++ fut.

(* before the IV is taken the whole wire is still ahead; afterwards a whole number of records *)
Definition inv (recs : list (bytes * bytes)) (st : rstate) (R : bytes) : Prop :=
  if encr c && negb (r_iv st)
  then R = [] \/ exists ivx, length ivx = blklen P /\ R = ivx ++ flat recs
  else exists j, R = flat (skipn j recs).

Lemma first_record_flat r rr : good (r :: rr) -> first_record (eff_maclen P c) (flat (r :: rr)) = Some (fst r, snd r, flat rr).
Proof.
  intros G. inversion G as [|? ? (N & L & _) _]; subst. unfold flat. cbn [map concat]. unfold rbytes at 1.
  rewrite <- app_assoc. cbn [app]. now apply first_record_build.
Qed.

Lemma inv_parse recs st o st' pipe fut : good recs -> wf st -> r_flag st = true ->
  recv_parse P c nonce st = Some (o, st') -> inv recs st (rem st pipe fut) -> inv recs st' (rem st' pipe fut).
Proof.
  intros G W F PA I.
  assert (IVd : encr c && negb (r_iv st) = false).
  { destruct (encr c) eqn:E; [|reflexivity]. destruct (r_iv st) eqn:Iv; [reflexivity|]. destruct (W E Iv) as [_ F']. congruence. }
  unfold inv in I. rewrite IVd in I. destruct I as [j Hj].
  unfold recv_parse in PA.
  destruct (first_record (eff_maclen P c) (r_buf st)) as [[[l t] r]|] eqn:E; [|discriminate].
  pose proof (first_record_app _ _ (pipe ++ fut) _ _ _ E) as E2. fold (rem st pipe fut) in E2. rewrite Hj in E2.
  destruct (process_record P c nonce (core_of st) l t) as [o1 k].
  assert (Step : forall fl, inv recs {| r_buf := r; r_flag := fl; r_iv := r_iv st; r_sqn := k_sqn k; r_chunk := k_chunk k;
                                       r_bad := k_bad k; r_hist := k_hist k |}
                                (r ++ pipe ++ fut)).
  { intros fl. unfold inv. cbn [r_iv]. rewrite IVd.
    destruct (skipn j recs) as [|r0 rr] eqn:SK.
    - cbn in E2. discriminate.
    - rewrite (first_record_flat r0 rr) in E2 by (rewrite <- SK; apply Forall_skipn; exact G).
      exists (S j). rewrite (skipn_next _ _ _ _ SK). congruence. }
  destruct o1; injection PA as <- <-; unfold rem; cbn [r_buf]; try apply Step.
  unfold inv. cbn [r_iv]. rewrite IVd. exists j. exact Hj.
Qed.

Lemma rem_eq st1 p1 fut b : r_buf st1 = b -> rem st1 p1 fut = b ++ p1 ++ fut.
Proof. intros <-. reflexivity. Qed.

Lemma inv_read recs st pipe st' pipe' fut : wf st ->
  recv_read P c st pipe = (st', pipe') -> inv recs st (rem st pipe fut) -> inv recs st' (rem st' pipe' fut).
Proof.
  intros W H I. unfold recv_read in H.
  set (room := Z.to_nat (buf_in_size - blen (r_buf st))) in *.
  pose proof (firstn_skipn room pipe) as FS.
  destruct (firstn room pipe) as [|g0 gr] eqn:G.
  - injection H as <- <-. rewrite (firstn_nil_skipn _ _ G). exact I.
  - set (got := g0 :: gr) in *.
    assert (R : rem st pipe fut = (r_buf st ++ got) ++ skipn room pipe ++ fut).
    { unfold rem. rewrite <- FS at 1. now rewrite <- !app_assoc. }
    destruct (encr c) eqn:E.
    + destruct (r_iv st) eqn:Iv; cbn [negb andb] in H.
      * injection H as <- <-. unfold inv in *. cbn [r_iv]. rewrite E, Iv in *. cbn [negb andb] in *.
        match goal with |- context [rem ?s ?p fut] => rewrite (rem_eq s p fut (r_buf st ++ got) eq_refl) end. rewrite <- R. exact I.
      * destruct (Nat.leb_spec (blklen P) (length (r_buf st ++ got))) as [L|L].
        -- injection H as <- <-. unfold inv in *. cbn [r_iv]. rewrite E, Iv in I. rewrite E. cbn [negb andb] in *.
           match goal with |- context [rem ?s ?p fut] => rewrite (rem_eq s p fut (skipn (blklen P) (r_buf st ++ got)) eq_refl) end. rewrite R in I. destruct I as [I|(ivx & Li & I)].
           ++ apply (f_equal (@length _)) in I. rewrite app_length in I. cbn [length] in I. lia.
           ++ exists O. cbn [skipn].
              apply (f_equal (skipn (blklen P))) in I.
              rewrite skipn_app in I. replace (blklen P - length (r_buf st ++ got))%nat with O in I by lia.
              rewrite skipn_O in I. rewrite I, skipn_app, <- Li, Nat.sub_diag, skipn_all, skipn_O. reflexivity.
        -- injection H as <- <-. unfold inv in *. cbn [r_iv]. rewrite E, Iv in *. cbn [negb andb] in *.
           match goal with |- context [rem ?s ?p fut] => rewrite (rem_eq s p fut (r_buf st ++ got) eq_refl) end. rewrite <- R. exact I.
    + injection H as <- <-. unfold inv in *. cbn [r_iv]. rewrite E in *. cbn [andb] in *.
      match goal with |- context [rem ?s ?p fut] => rewrite (rem_eq s p fut (r_buf st ++ got) eq_refl) end. rewrite <- R. exact I.
Qed.

Lemma inv_clear recs st R : inv recs (clear_flag st) R <-> inv recs st R.
Proof. reflexivity. Qed.

Lemma inv_call recs st pipe o st' pipe' fut : good recs -> wf st ->
  recv_call P c nonce st pipe = (o, st', pipe') -> inv recs st (rem st pipe fut) -> inv recs st' (rem st' pipe' fut).
Proof.
  intros G W H I. unfold recv_call in H. destruct (r_flag st) eqn:F.
  - destruct (recv_parse P c nonce st) as [[o1 st1]|] eqn:PA.
    + injection H as <- <- <-. eapply inv_parse; eassumption.
    + destruct (recv_read P c (clear_flag st) pipe) as [st1 p1] eqn:RD. injection H as <- <- <-.
      eapply inv_read; [apply wf_clear; exact W|exact RD|exact I].
  - destruct (recv_read P c st pipe) as [st1 p1] eqn:RD. injection H as <- <- <-.
    eapply inv_read; eassumption.
Qed.

Lemma inv_run recs evs : good recs -> forall st pipe os st' pipe', wf st ->
  run P c nonce st pipe evs = (os, st', pipe') ->
  inv recs st (rem st pipe (fed evs)) -> inv recs st' (rem st' pipe' []).
Proof.
  intros G. induction evs as [|e r IH]; intros st pipe os st' pipe' W H I.
  - cbn in H. injection H as _ <- <-. exact I.
  - destruct e as [ch|]; cbn [run fed] in *.
    + apply (IH st (pipe ++ ch) os st' pipe' W H). unfold rem in *. now rewrite <- app_assoc.
    + destruct (recv_call P c nonce st pipe) as [[o st1] p1] eqn:CS.
      destruct (run P c nonce st1 p1 r) as [[os2 st2] p2] eqn:RN. injection H as _ <- <-.
      destruct (call_step P c nonce _ _ _ _ _ [] W CS) as [_ W1].
      apply (IH st1 p1 os2 st2 p2 W1 RN). exact (inv_call recs st pipe o st1 p1 (fed r) G W CS I).
Qed.

(* an honest stream never reaches "read buffer exceeded" *)
Lemma never_stuck recs st pipe : good recs -> Z.of_nat (blklen P) < buf_in_size -> wf st ->
  inv recs st (rem st pipe []) -> ~ stuck P c st pipe.
Proof.
  intros G BL W I (NE & RM & F & FO).
  assert (Full : buf_in_size <= blen (r_buf st)) by lia.
  unfold inv in I. destruct (encr c && negb (r_iv st)) eqn:IV.
  - apply andb_prop in IV. destruct IV as [E Iv]. apply negb_true_iff in Iv.
    destruct (W E Iv) as [L _]. unfold blen in Full. lia.
  - destruct (FO F) as [FN|[E Iv]]; [|rewrite E, Iv in IV; discriminate].
    destruct I as [j Hj]. unfold rem in Hj. rewrite app_nil_r in Hj.
    destruct (skipn j recs) as [|r0 rr] eqn:SK.
    + cbn in Hj. apply app_eq_nil in Hj. destruct Hj as [_ Hp]. contradiction.
    + assert (G0 : good (r0 :: rr)) by (rewrite <- SK; apply Forall_skipn; exact G).
      inversion G0 as [|? ? (N0 & L0 & B0) _]; subst.
      unfold flat in Hj. cbn [map concat] in Hj.
      destruct (app_prefix (rbytes r0) (r_buf st) pipe (concat (map rbytes rr)) Hj) as [x Hx].
      { unfold blen in *. lia. }
      rewrite Hx in FN. unfold rbytes in FN. rewrite <- app_assoc in FN. cbn [app] in FN.
      rewrite first_record_build in FN by assumption. discriminate.
Qed.

End NoStuck.
