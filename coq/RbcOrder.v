(* RbcOrder: DeliverFrom, sequences of calls at one party: FIFO order, no duplicates, channel isolation (C14). *)
From Coq Require Import ZArith List Bool Lia.
From LT Require Import RbcModel RbcLemmas.
Import ListNotations.
Local Open Scope Z_scope.

Section Order.
Variables (n t skip : Z) (H : Z -> Z) (toolong : tagT -> Z -> bool).
Notation deliver := (deliver n t skip H toolong).
Notation deliver_from := (deliver_from n t skip H toolong).
Notation dres_ok := (dres_ok skip).

Lemma take_chan_spec : forall c l pre v rest, take_chan c pre l = Some (v, rest) ->
  In (v, c) l /\ forall x, In x rest -> In x (rev pre) \/ In x l.
Proof.
  intros c. induction l as [|[v0 id0] r IH]; intros pre v rest; cbn [take_chan].
  - discriminate.
  - destruct (Z.eqb_spec id0 c).
    + intros E; inversion E; subst. split; [left; reflexivity|].
      intros x I. apply in_app_or in I. destruct I; [left|right; right]; auto.
    + intros E. apply IH in E. destruct E as [E1 E2]. split; [right; exact E1|].
      intros x I. apply E2 in I. cbn in I. destruct I as [I|I]; [|right; right; exact I].
      apply in_app_or in I. destruct I as [I|[I|[]]]; [left; exact I|right; left; exact I].
Qed.

Lemma deliver_from_spec : forall me st i off,
  let o := fst (deliver_from me st i off) in
  cur (o_st o) = cur st /\ fifo (o_st o) = fifo st /\ dres_ok st (o_st o) (o_res o) /\
  match snd (deliver_from me st i off) with
  | Some v => In (v, cur st) (fbuf st i) /\ o_res o = RNone
  | None => True
  end /\
  (* the per-sender buffers only grow by the value just delivered, stamped with the current channel *)
  (forall w v c, In (v, c) (fbuf (o_st o) w) ->
     In (v, c) (fbuf st w) \/ (c = cur st /\ exists tg, o_res o = RDeliver w tg v)).
Proof.
  intros me st i off. unfold RbcModel.deliver_from.
  destruct ((i <? 0) || (i >=? n)).
  - cbn. repeat split; auto.
  - destruct (take_chan (cur st) [] (fbuf st i)) as [[v rest]|] eqn:T.
    + apply take_chan_spec in T. destruct T as [T1 T2].
      cbn. split; [reflexivity|]. split; [reflexivity|]. split; [auto|]. split; [split; auto|].
      intros w v0 c. unfold updZ. destruct (Z.eqb_spec w i); auto.
      subst w. intros I. left. apply T2 in I. destruct I as [[]|I]; exact I.
    + pose proof (deliver_spec n t skip H toolong me st off) as D. destruct D as [Sc D].
      destruct Sc as (C1&C2&C3&C4&C5&C6).
      destruct (o_res (deliver me st off)) eqn:R; cbn; rewrite ?R.
      * repeat split; auto. intros w v c I. left. rewrite C6. exact I.
      * split; [auto|]. split; [auto|]. split; [exact D|]. split; [exact I|].
        intros w v0 c. unfold updZ. destruct (Z.eqb_spec w who).
        -- subst w. intros I. apply in_app_or in I. destruct I as [I|I].
           ++ left. rewrite C6. exact I.
           ++ right. destruct I as [I|[]]. inversion I; subst. split; [reflexivity|]. eauto.
        -- intros I. left. rewrite C6. exact I.
      * repeat split; auto. intros w v c I. left. rewrite C6. exact I.
Qed.

(* ---- a sequence of Deliver / DeliverFrom calls on one channel ----------------------------------- *)
Notation lstep := (lstep n t skip H toolong).
Notation lrun := (lrun n t skip H toolong).

Lemma lstep_spec : forall me st c st1 d1, lstep me st c = (st1, d1) ->
  cur st1 = cur st /\ fifo st1 = fifo st /\
  (d1 = [] /\ (skip = 0 -> dls st1 = dls st) \/
   exists who s v, d1 = [(who, (cur st, who, s), v)] /\ mbar st1 (cur st, who, s) = Some v /\
                   (fifo st = true -> dls st1 who = s + 1) /\
                   (skip = 0 -> dls st1 = updZ (dls st) who (dls st who + 1)) /\
                   (fifo st = true -> skip = 0 -> s = dls st who)).
Proof.
  intros me st c st1 d1. destruct c as [off|i off]; cbn [RbcModel.lstep].
  - pose proof (deliver_spec n t skip H toolong me st off) as [(C1&_&C3&_) D].
    intros E; inversion E; subst; clear E. split; [auto|]. split; [auto|].
    destruct (o_res (deliver me st off)); cbn in *; auto.
    destruct D as ((s & -> & A & B) & M & U). right. exists who, s, v. repeat split; auto.
  - pose proof (deliver_from_spec me st i off) as D. cbv zeta in D. destruct D as (C1 & C3 & D & _).
    intros E; inversion E; subst; clear E. split; [auto|]. split; [auto|].
    destruct (o_res (fst (deliver_from me st i off))); cbn in *; auto.
    destruct D as ((s & -> & A & B) & M & U). right. exists who, s, v. repeat split; auto.
Qed.

Lemma seq_shift_map : forall (a : Z) len,
  a :: map (fun k => a + 1 + Z.of_nat k) (seq 0 len) = map (fun k => a + Z.of_nat k) (seq 0 (S len)).
Proof.
  intros a len. cbn [seq map]. f_equal; [lia|].
  rewrite <- seq_shift, map_map. apply map_ext. intros k. lia.
Qed.

(* FIFO order and no duplicates: on a FIFO channel (fifo_skip = 0) the deliveries from one sender carry the
   consecutive sequence numbers deliver_s, deliver_s + 1, ... in this order, whatever the party receives *)
Theorem fifo_consecutive : skip = 0 -> forall me cs st st' ds, fifo st = true -> lrun me st cs = (st', ds) ->
  cur st' = cur st /\ fifo st' = true /\
  Forall (fun d => id_of d = cur st /\ j_of d = who_of d) ds /\
  forall w, map s_of (from_sender w ds) = map (fun k => dls st w + Z.of_nat k) (seq 0 (length (from_sender w ds))) /\
            dls st' w = dls st w + Z.of_nat (length (from_sender w ds)).
Proof.
  intros Z0 me. induction cs as [|c r IH]; intros st st' ds F; cbn [RbcModel.lrun].
  - intros E; inversion E; subst st' ds. repeat split; auto. cbn. lia.
  - destruct (lstep me st c) as [st1 d1] eqn:L. destruct (lrun me st1 r) as [st2 d2] eqn:R.
    intros E; inversion E; subst st' ds; clear E.
    apply lstep_spec in L. destruct L as (C1 & C3 & L).
    assert (F1 : fifo st1 = true) by congruence.
    specialize (IH _ _ _ F1 R). destruct IH as (I1 & I2 & I3 & I4).
    split; [congruence|]. split; [auto|].
    destruct L as [[-> D]|(who & s & v & -> & M & A & U & B)].
    + cbn [app]. split; [rewrite <- C1; exact I3|]. intros w. rewrite <- (D Z0). apply I4.
    + specialize (B F Z0). rewrite B in *. clear B. split.
      * constructor; [cbn; auto|]. rewrite <- C1; exact I3.
      * intros w. specialize (I4 w). destruct I4 as [I4 I5]. rewrite (U Z0) in I4, I5.
        unfold from_sender in *. cbn [app filter who_of fst].
        destruct (Z.eqb_spec who w).
        -- subst w. rewrite updZ_same in I4, I5. cbn [map length s_of snd fst]. rewrite I4. split.
           ++ apply seq_shift_map.
           ++ rewrite I5. lia.
        -- rewrite updZ_other in I4, I5 by congruence. auto.
Qed.

Lemma NoDup_map_inj_seq : forall (a : Z) len, NoDup (map (fun k => a + Z.of_nat k) (seq 0 len)).
Proof.
  intros a len. generalize 0%nat. induction len as [|l IH]; intros b; cbn; constructor.
  - rewrite in_map_iff. intros (k & E & I). apply in_seq in I. lia.
  - apply IH.
Qed.

Corollary fifo_no_duplicate : skip = 0 -> forall me cs st st' ds, fifo st = true -> lrun me st cs = (st', ds) ->
  forall w, NoDup (map s_of (from_sender w ds)).
Proof.
  intros Z0 me cs st st' ds F R w. destruct (fifo_consecutive Z0 me cs st st' ds F R) as (_ & _ & _ & A).
  destruct (A w) as [-> _]. apply NoDup_map_inj_seq.
Qed.

(* channel isolation for any mode and any fifo_skip: whatever Deliver hands out carries the current channel
   identifier in its tag, and the tag sender is the reported sender *)
Theorem deliver_isolation : forall me st off who tg v,
  o_res (deliver me st off) = RDeliver who tg v -> exists s, tg = (cur st, who, s).
Proof.
  intros me st off who tg v R. pose proof (deliver_spec n t skip H toolong me st off) as [_ D].
  rewrite R in D. cbn in D. destruct D as ((s & E & _) & _). eauto.
Qed.

(* DeliverFrom hands out only values that sit in the buffer of that sender under the current channel identifier,
   and the buffers are filled only by deliveries of Deliver, stamped with the channel they were made on *)
Theorem deliver_from_isolation : forall me st i off v,
  snd (deliver_from me st i off) = Some v -> In (v, cur st) (fbuf st i).
Proof.
  intros me st i off v E. pose proof (deliver_from_spec me st i off) as D. cbv zeta in D.
  destruct D as (_ & _ & _ & D & _). rewrite E in D. tauto.
Qed.

Theorem deliver_from_buffers : forall me st i off w v c,
  In (v, c) (fbuf (o_st (fst (deliver_from me st i off))) w) ->
  In (v, c) (fbuf st w) \/ (c = cur st /\ exists s, o_res (fst (deliver_from me st i off)) = RDeliver w (cur st, w, s) v).
Proof.
  intros me st i off w v c I. pose proof (deliver_from_spec me st i off) as D. cbv zeta in D.
  destruct D as (_ & _ & R & _ & D). apply D in I. destruct I as [I|(-> & tg & E)]; auto.
  right. split; auto. rewrite E in R. cbn in R. destruct R as ((s & -> & _) & _). eauto.
Qed.

End Order.

(* ---- channel switches: counters are saved and restored ---------------------------------------------- *)
Lemma set_then_unset : forall st id f f', 
  let st' := unset_id (set_id st id f) f' in
  cur st' = cur st /\ sq st' = sq st /\ dls st' = dls st /\ stack st' = stack st /\ fifo st' = f'.
Proof. intros. subst st'. unfold unset_id, set_id. cbn. repeat split. Qed.

Lemma unset_then_recover : forall st f f',
  let st' := recover_id (unset_id st f) (cur st) f' in
  cur st' = cur st /\ sq st' = sq st /\ dls st' = dls st /\ fifo st' = f'.
Proof.
  intros. subst st'. unfold recover_id, unset_id.
  destruct (stack st) as [|[[i s] d] k]; cbn; rewrite updZ_same; cbn; repeat split.
Qed.

(* channel switches never touch the protocol state (filters, counters, payloads, buffers) *)
Lemma switch_frame : forall st id f,
  (let st' := set_id st id f in mbar st' = mbar st /\ dbar st' = dbar st /\ dbuf st' = dbuf st /\ fbuf st' = fbuf st /\ filt st' = filt st) /\
  (let st' := recover_id st id f in mbar st' = mbar st /\ dbar st' = dbar st /\ dbuf st' = dbuf st /\ fbuf st' = fbuf st /\ filt st' = filt st) /\
  (let st' := unset_id st f in mbar st' = mbar st /\ dbar st' = dbar st /\ dbuf st' = dbuf st /\ fbuf st' = fbuf st /\ filt st' = filt st).
Proof.
  intros. unfold set_id, recover_id, unset_id. split; [|split].
  - cbn. repeat split.
  - destruct (recov st id) as [[s d]|]; cbn; repeat split.
  - destruct (stack st) as [|[[i s] d] k]; cbn; repeat split.
Qed.

(* ---- k-fold unsetID / recoverID of one channel ------------------------------------------------------ *)
Definition leave_enter (st : pst) (f f' : bool) : pst := recover_id (unset_id st f) (cur st) f'.

(* leaving a (nested) channel and coming back changes nothing but the recovery table, whose entry for this channel is
   REFRESHED with the current counters -- whatever entry it held before (first, second, k-th unsetID alike) *)
Lemma leave_enter_spec : forall st f f' i s d k, stack st = (i, s, d) :: k ->
  leave_enter st f f' =
  Pst (cur st) (sq st) f' (stack st) (updZ (recov st) (cur st) (Some (sq st, dls st)))
      (filt st) (mbar st) (dbar st) (ed st) (rd st) (dls st) (dbuf st) (derr st) (rbuf st) (fbuf st).
Proof.
  intros st f f' i s d k E. unfold leave_enter, recover_id, unset_id. rewrite E. cbn. rewrite updZ_same. cbn. reflexivity.
Qed.

Fixpoint leave_enter_k (k : nat) (st : pst) (f : bool) : pst :=
  match k with O => st | S k' => leave_enter (leave_enter_k k' st f) f true end.

Theorem recover_k_fold : forall k st f i s d r, stack st = (i, s, d) :: r ->
  let st' := leave_enter_k k st f in
  cur st' = cur st /\ sq st' = sq st /\ dls st' = dls st /\ stack st' = stack st /\
  (k <> O -> recov st' (cur st) = Some (sq st, dls st)).
Proof.
  induction k as [|k IH]; intros st f i s d r E; cbv zeta.
  - cbn. repeat split; auto. intros N; contradiction.
  - cbn [leave_enter_k]. destruct (IH st f i s d r E) as (C & S & D & K & _).
    set (x := leave_enter_k k st f) in *.
    assert (Ex : stack x = (i, s, d) :: r) by congruence.
    rewrite (leave_enter_spec x f true i s d r Ex). cbn. rewrite C, S, D. repeat split; auto.
    intros _. apply updZ_same.
Qed.

(* ... and with arbitrary traffic u between the visits (anything that stays on the channel): after the second, third, ...
   unsetID the next recoverID continues exactly where the party left *)
Theorem recover_after_traffic : forall st f1 f2 f3 f4 (u : pst -> pst),
  let st1 := leave_enter st f1 f2 in let st2 := u st1 in let st3 := leave_enter st2 f3 f4 in
  cur st3 = cur st2 /\ sq st3 = sq st2 /\ dls st3 = dls st2.
Proof. intros. destruct (unset_then_recover st2 f3 f4) as (A & B & C & _). auto. Qed.
