(* SkcProveModel (C03): Groth's argument for a shuffle of known content, non-interactive form.
   Anchors: src/GrothVSSHE.cc  GrothSKC::Prove_noninteractive :427-598, GrothSKC::Verify_noninteractive(c, m, in, optimizations)
   :975-1164 (incl. fix 25cc964: 0 <= f_i, z, f_Delta_i, z_Delta < q, and fix e411aec: TestMembership requires c^q = 1).
   Commitments are PedersenModel's (com->CommitBy with timing protection in the prover, com->Verify in the verifier).
   Hash oracle H on the flattened argument list:  x = H(com->g ++ m ++ [com->p; com->q; com->h]) mod 2^l,
   e = H(com->g ++ m ++ [x; c_d; c_Delta; c_a]) mod 2^l with l = l_e_nizk = 2 l_e.
   Every intermediate value of the code is reduced mod com->q, so only residues matter; the model writes each vector entry as
   one expression reduced once (same integer in [0,q)).
   Coins of the prover in the order drawn: r_d, r_Delta, d_1..d_n, Delta_2..Delta_{n-1}, r_a.
   Definitions only -- proofs in SkcProveLemmas.v. *)
From Coq Require Import ZArith List Bool.
From LT Require Import Zbase gen_Consts SigmaPrim PedersenModel.
Import ListNotations.
Local Open Scope Z_scope.

(* the argument as sent: c_d, c_Delta, c_a, f_1..f_n, z, f_Delta_1..f_Delta_{n-1}, z_Delta *)
Record skc_msg := mkSkc { k_cd : Z; k_cDelta : Z; k_ca : Z; k_f : list Z; k_z : Z; k_fD : list Z; k_zD : Z }.

Section Skc.
  Variable H : list Z -> Z.
  Variable C : pcom.
  Variable l : Z.                 (* l_e_nizk *)

  Let p := pc_p C.
  Let q := pc_q C.

  Definition skc_x (m : list Z) : Z := (H (pc_g C ++ m ++ [p; q; pc_h C])) mod 2 ^ l.
  Definition skc_e (m : list Z) (x cd cD ca : Z) : Z := (H (pc_g C ++ m ++ [x; cd; cD; ca])) mod 2 ^ l.

  (* vectors as index functions (0-based) *)
  Definition at_ (v : list Z) (i : nat) : Z := nth i v 0.

  (* a_i = prod_{j <= i} (mu_j - x) mod q *)
  Fixpoint a_of (mu : nat -> Z) (x : Z) (i : nat) : Z :=
    match i with
    | O => (mu O - x) mod q
    | S i' => (a_of mu x i' * ((mu i - x) mod q)) mod q
    end.

  (* m[pi[0]], m[pi[1]], ... ; None = an index outside m (undefined behaviour of the code) *)
  Fixpoint permuted (pi : list nat) (m : list Z) : option (list Z) :=
    match pi with
    | [] => Some []
    | j :: r => match nth_error m j, permuted r m with Some v, Some t => Some (v :: t) | _, _ => None end
    end.

  Definition lej1 (d Delta : nat -> Z) (n i : nat) : Z :=
    if (S i <? n)%nat then (- Delta i * d (S i)) mod q else 0.
  Definition lej2 (mu d Delta : nat -> Z) (x : Z) (n i : nat) : Z :=
    if (S i <? n)%nat then (Delta (S i) - (mu (S i) - x) * Delta i - a_of mu x i * d (S i)) mod q else 0.

  (* the prover's random vectors as functions of the coin list *)
  Definition coin_d (raws : list Z) (i : nat) : Z := srandomm (at_ raws (2 + i)) q.
  Definition coin_Delta (raws : list Z) (n i : nat) : Z :=
    if (i =? 0)%nat then coin_d raws O
    else if (S i <? n)%nat then srandomm (at_ raws (2 + n + (i - 1))) q else 0.

  Definition skc_prove (pi : list nat) (r : Z) (m : list Z) (raws : list Z) : option skc_msg :=
    let n := length m in
    if (length (pc_g C) <? length pi)%nat then None            (* the three asserts *)
    else if negb (length pi =? n)%nat then None
    else if (n <? 2)%nat then None
    else match permuted pi m with
    | None => None
    | Some mus =>
      let x := skc_x m in
      let rd := srandomm (at_ raws 0) q in
      let rD := srandomm (at_ raws 1) q in
      let d := coin_d raws in
      let Delta := coin_Delta raws n in
      let ra := srandomm (at_ raws (2 + n + (n - 2))) q in
      let mu := at_ mus in
      let idx := seq 0 n in
      match commit_by C rd (map d idx) true with
      | None => None
      | Some cd =>
        match commit_by C rD (map (lej1 d Delta n) idx) true with
        | None => None
        | Some cD =>
          match commit_by C ra (map (lej2 mu d Delta x n) idx) true with
          | None => None
          | Some ca =>
            let e := skc_e m x cd cD ca in
            Some (mkSkc cd cD ca
                    (map (fun i => (e * mu i + d i) mod q) idx)
                    ((e * r + rd) mod q)
                    (map (fun i => (e * lej2 mu d Delta x n i + lej1 d Delta n i) mod q) (seq 0 (n - 1)))
                    ((e * ra + rD) mod q))
          end
        end
      end
    end.

  (* PedersenCommitmentScheme::TestMembership (fix e411aec) *)
  Definition test_membership (c : Z) : bool := (0 <? c) && (c <? p) && (powm c q p =? 1).

  Definition in_zq (v : Z) : bool := (0 <=? v) && (v <? q).

  (* the F recursion of the verifier: foo = e x, bar = e^-1, over f_1..f_n and f_Delta_1..f_Delta_{n-1} *)
  Fixpoint F_loop (ex ei : Z) (fs fDs : list Z) (first : bool) (acc : Z) : Z :=
    match fs with
    | [] => acc
    | fi :: fs' =>
      let b := (((fi - ex) mod q) * acc) mod q in
      if first then F_loop ex ei fs' fDs false b
      else match fDs with
           | fd :: fDs' => F_loop ex ei fs' fDs' false ((((b + fd) mod q) * ei) mod q)
           | [] => F_loop ex ei fs' [] false (((b mod q) * ei) mod q)
           end
    end.

  Fixpoint prod_mx (m : list Z) (x : Z) (acc : Z) : Z :=
    match m with
    | [] => acc
    | mi :: m' => prod_mx m' x ((acc * ((mi - x) mod q)) mod q)
    end.

  (* good = the stream was good after all reads; alpha_raw = the verifier's coin (optimizations only) *)
  Definition skc_verify (c : Z) (m : list Z) (good : bool) (t : skc_msg) (opt : bool) (alpha : Z) : verdict :=
    let n := length m in
    if (length (pc_g C) <? n)%nat then Throw
    else if (n <? 2)%nat then Throw
    else
    let x := skc_x m in
    let e := skc_e m x (k_cd t) (k_cDelta t) (k_ca t) in
    if negb good then Reject
    else if negb (test_membership (k_cd t) && test_membership (k_ca t) && test_membership (k_cDelta t)) then Reject
    else if negb (in_zq (k_z t) && forallb in_zq (k_f t)) then Reject
    else if negb (in_zq (k_zD t) && forallb in_zq (k_fD t)) then Reject
    else
    let fD0 := k_fD t ++ [0] in       (* f_Delta has n entries, the last one is zero *)
    let commitments_ok :=
      if opt then
        match mpz_powm c e p, mpz_powm (k_ca t) e p with
        | Some ce, Some cae =>
          match mpz_powm ((ce * k_cd t) mod p) alpha p with
          | Some t1 =>
            let foo := (t1 * ((cae * k_cDelta t) mod p)) mod p in
            let lej := map (fun ff => (alpha * fst ff + snd ff) mod q) (combine (k_f t) fD0) in
            Some (pverify C foo ((alpha * k_z t + k_zD t) mod q) lej)
          | None => None
          end
        | _, _ => None
        end
      else
        match mpz_powm c e p, mpz_powm (k_ca t) e p with
        | Some ce, Some cae =>
          match pverify C ((ce * k_cd t) mod p) (k_z t) (k_f t) with
          | Accept => Some (pverify C ((cae * k_cDelta t) mod p) (k_zD t) fD0)
          | v => Some v
          end
        | _, _ => None
        end in
    match commitments_ok with
    | None => Throw
    | Some Accept =>
      match invm e q with
      | None => Throw                                   (* assert(mpz_invert(bar, e, com->q)) *)
      | Some ei =>
        let Fn := F_loop ((e * x) mod q) ei (k_f t) (k_fD t) true 1 in
        if (prod_mx m x 1 * e) mod q =? Fn then Accept else Reject
      end
    | Some v => v
    end.
End Skc.
