(* CoinFlipNLemmas: all honest parties of the n-party coin flip output the sum of the committed shares of Qual (C17). *)
From Coq Require Import ZArith Znumtheory List Bool Lia.
From LT Require Import gen_Consts Zbase VssModel VssLemmas VssLagrange CoinFlipArith CoinFlipModel CoinFlipLemmas CoinFlipNModel.
Import ListNotations.
Local Open Scope Z_scope.

(* ---- RVSS::Share: the share a party holds after the resolution phase ------------------------------------------------ *)
Lemma final_share_fold G i cm answers : forall cur,
  forallb (fun a => matches G cm (fst a + 1) (snd a)) answers = true ->
  let res := fold_left (fun cur a => if (fst a =? i) && matches G cm (fst a + 1) (snd a) then Some (snd a) else cur) answers cur in
  (existsb (fun a => fst a =? i) answers = true -> exists sh, res = Some sh /\ matches G cm (i + 1) sh = true) /\
  (existsb (fun a => fst a =? i) answers = false -> res = cur).
Proof.
  induction answers as [|a r IH]; intros cur Hall; cbn [fold_left existsb].
  - split; [discriminate|reflexivity].
  - cbn [forallb] in Hall. apply andb_prop in Hall as [Ha Hr].
    destruct (Z.eqb_spec (fst a) i) as [E|E]; cbn [orb andb].
    + rewrite Ha. specialize (IH (Some (snd a)) Hr). cbv zeta in IH. destruct IH as [IH1 IH2]. split; [|discriminate].
      intros _. destruct (existsb (fun a0 => fst a0 =? i) r) eqn:Ex.
      * now apply IH1.
      * rewrite IH2 by reflexivity. exists (snd a). split; [reflexivity|]. now rewrite <- E.
    + specialize (IH cur Hr). exact IH.
Qed.

(* a qualified dealer, and either no own complaint or an answer to it: the party ends with a share that matches the
   dealer's commitments.  (Without the answer the conclusion fails: finding nparty-unanswered-complaint.) *)
Theorem final_share_matches G t i d : dealer_qualified G t d = true ->
  my_complaint G i d = false \/ answered i d = true ->
  exists sh, final_share G i d = Some sh /\ matches G (d_cm d) (i + 1) sh = true.
Proof.
  unfold dealer_qualified, final_share, answered. intros Q H. apply andb_prop in Q as [_ Qa].
  pose proof (final_share_fold G i (d_cm d) (d_answers d) (d_recv d) Qa) as F. cbv zeta in F. destruct F as [F1 F2].
  destruct (existsb (fun a => fst a =? i) (d_answers d)) eqn:Ex.
  - now apply F1.
  - destruct H as [H|H]; [|discriminate]. rewrite F2 by reflexivity.
    unfold my_complaint in H. destruct (d_recv d) as [sh|]; [|discriminate].
    exists sh. split; [reflexivity|]. now apply negb_false_iff in H.
Qed.

(* Qual is a function of broadcast data: two parties that saw the same commitments, complaints and answers reach the same verdict *)
Theorem rvss_qual_common G t d1 d2 : d_cm d1 = d_cm d2 -> d_ncompl d1 = d_ncompl d2 -> d_answers d1 = d_answers d2 ->
  dealer_qualified G t d1 = dealer_qualified G t d2.
Proof. unfold dealer_qualified. now intros -> -> ->. Qed.

(* ---- Flip / Reconstruct ----------------------------------------------------------------------------------------------- *)
Section FlipN.
  Variable G : group.
  Hypothesis V : valid G.
  Variable t : Z.
  Hypothesis Ht : 0 <= t.
  Let p := gp G.
  Let q := gq G.

  (* member mb is committed to the polynomial f: at most t+1 coefficients, and every value that passes a test against
     mb's commitments lies on f.  This is the binding property of the Pedersen commitments (a violation yields log_g h,
     C17_flip2_binding_reduction); it is a hypothesis here. *)
  Definition committed (mb : member) (f : list Z) : Prop :=
    (Z.of_nat (length f) <= t + 1) /\
    (forall x sh, 0 <= x -> matches G (m_cm mb) x sh = true -> fst sh mod q = poly_eval q f x) /\
    (forall a b, Z.abs a < q -> Z.abs b < q -> opens G (o_C (m_open mb) mod p) a b -> a mod q = poly_eval q f 0).

  (* party i's own share of mb's polynomial is right (final_share_matches), and the indices are admissible *)
  Definition view_ok (i : Z) (mb : member) (f : list Z) : Prop :=
    fst (m_own mb) mod q = poly_eval q f (i + 1) /\ 0 <= i /\ i + 1 < q /\
    NoDup (map fst (m_shares mb)) /\ Forall (fun ks => 0 <= fst ks /\ fst ks + 1 < q) (m_shares mb).

  Lemma q_prime : prime q. Proof. apply V. Qed.
  Lemma q_pos' : 0 < q. Proof. pose proof (Vq G V). unfold q. lia. Qed.

  Lemma NoDup_firstn {A} (l : list A) k : NoDup l -> NoDup (firstn k l).
  Proof.
    revert k. induction l as [|a l IH]; intros [|k] H; cbn [firstn]; try constructor.
    - inversion H; subst. intros Hin. apply H2. clear - Hin. revert k Hin. induction l as [|b l IH]; intros [|k] Hin; cbn in Hin; try contradiction.
      destruct Hin as [<-|Hin]; [now left|right; eapply IH; exact Hin].
    - inversion H; subst. now apply IH.
  Qed.
  Lemma In_firstn {A} (l : list A) k x : In x (firstn k l) -> In x l.
  Proof. revert k. induction l as [|a l IH]; intros [|k] H; cbn in H; try contradiction. destruct H as [<-|H]; [now left|right; eapply IH; exact H]. Qed.

  Lemma recon_value i targets mb f pts v : committed mb f -> view_ok i mb f ->
    recon_points G t i targets mb = Some pts -> lagrange0 q pts = Some v -> v = poly_eval q f 0.
  Proof.
    intros (Hlen & Hbind & _) (Hown & Hi0 & Hiq & Hnd & Hrng) E L. pose proof q_prime as Pq. pose proof q_pos' as Hq0.
    unfold recon_points in E.
    set (good := filter (fun ks => negb (existsb (Z.eqb (fst ks)) targets) && negb (fst ks =? i) && matches G (m_cm mb) (fst ks + 1) (snd ks)) (m_shares mb)) in E.
    set (all := (i + 1, fst (m_own mb)) :: map (fun ks => (fst ks + 1, fst (snd ks))) good) in E.
    destruct (Z.leb_spec (Z.of_nat (length all)) t) as [|Hall]; [discriminate|]. injection E as <-.
    assert (Hgood : forall ks, In ks good -> In ks (m_shares mb) /\ fst ks <> i /\ matches G (m_cm mb) (fst ks + 1) (snd ks) = true).
    { intros ks Hk. unfold good in Hk. apply filter_In in Hk. destruct Hk as [H1 H2].
      apply andb_prop in H2 as [H2 H3]. apply andb_prop in H2 as [_ H2]. apply negb_true_iff, Z.eqb_neq in H2. auto. }
    assert (NDall : NoDup (map fst all)).
    { unfold all. cbn [map fst]. rewrite map_map. cbn [fst]. constructor.
      - intros Hin. apply in_map_iff in Hin. destruct Hin as (ks & E1 & Hk). destruct (Hgood ks Hk) as (_ & N & _). lia.
      - assert (ND : NoDup (map fst good)).
        { unfold good. clear - Hnd. induction (m_shares mb) as [|a l IH]; [constructor|]. cbn [filter]. inversion Hnd; subst.
          destruct (_ && _); [|now apply IH]. cbn [map]. constructor; [|now apply IH].
          intros Hin. apply H1. apply in_map_iff in Hin. destruct Hin as (x & E & Hx). apply filter_In in Hx. rewrite <- E. apply in_map. tauto. }
        clear - ND. induction good as [|a l IH]; [constructor|]. cbn [map] in *. inversion ND; subst. constructor; [|now apply IH].
        intros Hin. apply H1. apply in_map_iff in Hin. destruct Hin as (x & E & Hx). apply in_map_iff. exists x. split; [lia|assumption]. }
    apply (lagrange0_sound q f (firstn (Z.to_nat (t + 1)) all) v Pq); try exact L.
    - rewrite firstn_length. apply Nat2Z.inj_le. rewrite Nat2Z.inj_min. rewrite Z2Nat.id by lia. lia.
    - assert (E : map fst (firstn (Z.to_nat (t + 1)) all) = firstn (Z.to_nat (t + 1)) (map fst all)) by (symmetry; apply firstn_map).
      rewrite E. now apply NoDup_firstn.
    - intros x y Hin. apply In_firstn in Hin. unfold all in Hin. destruct Hin as [[= <- <-]|Hin].
      + split; [lia|exact Hown].
      + apply in_map_iff in Hin. destruct Hin as (ks & [= <- <-] & Hk). destruct (Hgood ks Hk) as (Hm & _ & Hmt).
        rewrite Forall_forall in Hrng. destruct (Hrng ks Hm). split; [lia|]. apply (Hbind (fst ks + 1) (snd ks)); [lia|exact Hmt].
  Qed.

  Lemma member_value i targets mb f v : committed mb f -> view_ok i mb f ->
    flipN_member_value G t i targets mb = Some v -> v mod q = poly_eval q f 0.
  Proof.
    intros C W E. pose proof q_pos' as Hq0. unfold flipN_member_value in E.
    destruct (flipN_complaint G (m_open mb)) as [[|]|] eqn:FC; try discriminate.
    - destruct (recon_points G t i targets mb) as [pts|] eqn:RP; [|discriminate].
      rewrite (recon_value i targets mb f pts v C W RP E). apply Z.mod_small. apply poly_eval_range. lia.
    - injection E as <-.
      destruct (o_a (m_open mb)) as [a|] eqn:Ea.
      2: { unfold flipN_complaint, recv_values in FC. rewrite Ea in FC. destruct (commit G 0 0); cbn in FC; discriminate. }
      destruct (o_hata (m_open mb)) as [b|] eqn:Eb.
      2: { unfold flipN_complaint, recv_values in FC. rewrite Ea, Eb in FC. destruct (commit G _ 0); cbn in FC; try discriminate. }
      apply (flipN_no_complaint_iff G (m_open mb) V a b Ea Eb) in FC. destruct FC as (Ra & Rb & O).
      unfold recv_values. rewrite Ea, Eb. destruct (Z.geb_spec (Z.abs a) (gq G)); [lia|]. cbn [fst].
      destruct C as (_ & _ & Hop). now apply (Hop a b).
  Qed.

  (* the chain from Share to Flip: the share a party holds after the resolution phase lies on the dealer's committed polynomial *)
  Theorem own_share_committed i d mb f : m_cm mb = d_cm d -> committed mb f -> 0 <= i ->
    dealer_qualified G t d = true -> my_complaint G i d = false \/ answered i d = true ->
    exists sh, final_share G i d = Some sh /\ fst sh mod q = poly_eval q f (i + 1).
  Proof.
    intros Ecm (_ & Hbind & _) Hi Q A. destruct (final_share_matches G t i d Q A) as (sh & E & M).
    exists sh. split; [exact E|]. apply Hbind; [lia|]. now rewrite Ecm.
  Qed.

  (* MAIN THEOREM: the coin a party computes from its view is the sum of the committed shares of the members of Qual *)
  Theorem flipN_party_sum i mbs fs c : Forall2 (fun mb f => committed mb f /\ view_ok i mb f) mbs fs ->
    flipN_party G t i mbs = Some c ->
    c = (fold_right Z.add 0 (map (fun f => poly_eval q f 0) fs)) mod q.
  Proof.
    intros HF E. pose proof q_pos' as Hq0. unfold flipN_party in E.
    destruct (flipN_targets G mbs) as [targets|]; [|discriminate].
    destruct (Z.of_nat (length targets) >? t); [discriminate|].
    destruct (forallb _ _) eqn:FA; [|discriminate]. injection E as <-.
    fold q. rewrite flipN_sum_spec by lia.
    clear - HF FA Hq0 V Ht. revert FA. induction HF as [|mb f mbs' fs' [C W] _ IH]; intros FA; [reflexivity|].
    cbn [map forallb fold_right] in *. apply andb_prop in FA as [F1 F2].
    destruct (flipN_member_value G t i targets mb) as [v|] eqn:MV; [|discriminate].
    pose proof (member_value i targets mb f v C W MV) as Hv.
    rewrite Zplus_mod, (Zplus_mod (poly_eval q f 0)). rewrite (IH F2). rewrite Hv.
    rewrite (Z.mod_small (poly_eval q f 0)) by (apply poly_eval_range; lia). reflexivity.
  Qed.

  (* all honest parties output the same value: two parties with (possibly different) views of the same members of Qual,
     each with correct own shares, obtain the same coin, equal to the sum of the committed shares modulo q *)
  Theorem flipN_common i i' mbs mbs' fs c c' :
    Forall2 (fun mb f => committed mb f /\ view_ok i mb f) mbs fs ->
    Forall2 (fun mb f => committed mb f /\ view_ok i' mb f) mbs' fs ->
    flipN_party G t i mbs = Some c -> flipN_party G t i' mbs' = Some c' ->
    c = c' /\ c = (fold_right Z.add 0 (map (fun f => poly_eval q f 0) fs)) mod q /\ 0 <= c < q.
  Proof.
    intros H1 H2 E1 E2. pose proof q_pos' as Hq0.
    rewrite (flipN_party_sum i mbs fs c H1 E1), (flipN_party_sum i' mbs' fs c' H2 E2).
    repeat split; try reflexivity; apply Z.mod_pos_bound; lia.
  Qed.
End FlipN.

(* ---- the complaint list handed to Reconstruct is sorted and duplicate-free whatever the arrival order --------------------- *)
Inductive sorted : list Z -> Prop :=
| sorted_nil : sorted []
| sorted_one x : sorted [x]
| sorted_cons x y r : x <= y -> sorted (y :: r) -> sorted (x :: y :: r).

Lemma ins_sorted_in x l z : In z (ins_sorted x l) <-> z = x \/ In z l.
Proof.
  induction l as [|y r IH]; cbn [ins_sorted]; [cbn; intuition|].
  destruct (x <=? y); cbn [In]; [intuition|]. rewrite IH. intuition.
Qed.
Lemma ins_sorted_sorted x l : sorted l -> sorted (ins_sorted x l).
Proof.
  induction 1 as [|y|y z r Hyz Hs IH]; cbn [ins_sorted].
  - constructor.
  - destruct (Z.leb_spec x y); repeat constructor; lia.
  - destruct (Z.leb_spec x y); [repeat constructor; assumption || lia|].
    cbn [ins_sorted] in IH. destruct (Z.leb_spec x z); constructor; try lia; try assumption.
Qed.
Lemma sort_z_in l z : In z (sort_z l) <-> In z l.
Proof. induction l as [|x r IH]; cbn [sort_z fold_right]; [reflexivity|]. fold (sort_z r). rewrite ins_sorted_in, IH. cbn. intuition. Qed.
Lemma sort_z_sorted l : sorted (sort_z l).
Proof. induction l as [|x r IH]; cbn [sort_z fold_right]; [constructor|]. now apply ins_sorted_sorted. Qed.

Lemma uniq_adj_in l z : In z (uniq_adj l) <-> In z l.
Proof.
  induction l as [|x r IH]; [reflexivity|]. cbn [uniq_adj]. destruct r as [|y r']; [reflexivity|].
  destruct (Z.eqb_spec x y) as [->|N].
  - rewrite IH. cbn [In]. intuition.
  - cbn [In] in *. rewrite IH. reflexivity.
Qed.
Lemma sorted_head_le x l z : sorted (x :: l) -> In z l -> x <= z.
Proof.
  revert x. induction l as [|y r IH]; intros x H Hin; [contradiction|]. inversion H; subst.
  destruct Hin as [<-|Hin]; [assumption|]. specialize (IH y H4 Hin). lia.
Qed.
Lemma sorted_tail x l : sorted (x :: l) -> sorted l.
Proof. inversion 1; [constructor|assumption]. Qed.
Lemma uniq_adj_nodup l : sorted l -> NoDup (uniq_adj l) /\ sorted (uniq_adj l) /\ (forall x r, l = x :: r -> exists r', uniq_adj l = x :: r' /\ forall z, In z r' -> x < z).
Proof.
  induction l as [|x r IH]; intros Hs.
  - repeat split; try constructor. intros; discriminate.
  - specialize (IH (sorted_tail x r Hs)). destruct IH as (ND & SO & HD).
    cbn [uniq_adj]. destruct r as [|y r'].
    + split; [constructor; [intros []|constructor]|]. split; [constructor|]. intros x0 r0 [= <- <-]. exists []. split; [reflexivity|intros z []].
    + destruct (HD y r' eq_refl) as (t' & Et & Hlt).
      assert (Hxy : x <= y) by (inversion Hs; assumption).
      destruct (Z.eqb_spec x y) as [->|N].
      * repeat split; try assumption. intros x0 r0 [= <- <-]. exists t'. split; [exact Et|exact Hlt].
      * assert (Hall : forall z, In z (uniq_adj (y :: r')) -> x < z).
        { intros z Hz. rewrite Et in Hz. destruct Hz as [<-|Hz]; [lia|]. specialize (Hlt z Hz). lia. }
        repeat split.
        -- constructor; [|assumption]. intros Hin. specialize (Hall x Hin). lia.
        -- rewrite Et in *. constructor; [lia|assumption].
        -- intros x0 r0 [= <- <-]. eexists. split; [reflexivity|exact Hall].
Qed.

Theorem complaint_set_spec raw : NoDup (complaint_set raw) /\ sorted (complaint_set raw) /\ forall z, In z (complaint_set raw) <-> In z raw.
Proof.
  unfold complaint_set. destruct (uniq_adj_nodup (sort_z raw) (sort_z_sorted raw)) as (ND & SO & _).
  repeat split; try assumption; intros H; [apply sort_z_in, uniq_adj_in; exact H|apply uniq_adj_in, sort_z_in; exact H].
Qed.

(* consequence: with at most t distinct members complained about, the list never exceeds t, however often each was pushed *)
Lemma NoDup_incl_len (l m : list Z) : NoDup l -> incl l m -> (length l <= length m)%nat.
Proof. intros. now apply NoDup_incl_length. Qed.
Theorem complaint_set_bound raw targets : (forall z, In z raw -> In z targets) -> (length (complaint_set raw) <= length targets)%nat.
Proof.
  intros H. destruct (complaint_set_spec raw) as (ND & _ & I). apply NoDup_incl_len; [assumption|].
  intros z Hz. apply H. now apply I.
Qed.
