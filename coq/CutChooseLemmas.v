(* CutChooseLemmas (C03): completeness of the VTMF cut-and-choose stack equality proof, for every stack size, every number of
   iterations, every bijective (resp. cyclic) secret with exponents below q, every coin string of prover and verifier, every
   commitment oracle.  Uses glue_ok / glue_perm / create_stack_secret_spec of ShuffleLemmas (C02). *)
From Coq Require Import ZArith NArith List Bool Lia ZifyBool Permutation.
From LT Require Import gen_Consts Zbase CodecModel SamplerModel ShuffleModel ShuffleLemmas SigmaPrim SigmaArith CutChooseModel.
Import ListNotations.
Local Open Scope Z_scope.

(* what "honest secret" means: a bijection on the positions (a rotation if cyclic), exponents in [0,q) *)
Definition valid_secret (q : Z) (n : nat) (cyclic : bool) (ss : vsecret) : Prop :=
  length ss = n /\ Permutation (map fst ss) (iota n) /\ Forall (fun pr => Z.of_N (snd pr) < q) ss /\
  (cyclic = true -> exists r, (r < N.of_nat n)%N /\ map fst ss = rotation n r).

Lemma cyclic_ok_shift (idx : list N) (c : N) : (c < N.of_nat (length idx))%N ->
  (forall j, (j < length idx)%nat -> nth_error idx j = Some ((c + N.of_nat j) mod N.of_nat (length idx))%N) ->
  cyclic_ok idx = true.
Proof.
  intros Hc H. destruct idx as [|c0 rest]; [reflexivity|].
  assert (H0 := H O ltac:(cbn; lia)). cbn [nth_error] in H0. injection H0 as H0.
  rewrite N.add_0_r, N.mod_small in H0 by assumption.
  unfold cyclic_ok. apply forallb_forall. intros j Hj. apply in_seq in Hj.
  rewrite (H j) by (cbn [length] in *; lia). rewrite H0. apply N.eqb_refl.
Qed.

Lemma nth_error_ext' {A} (l l' : list A) : (forall i, nth_error l i = nth_error l' i) -> l = l'.
Proof.
  revert l'. induction l as [|a l IH]; destruct l' as [|a' l']; intros H; try reflexivity; try (specialize (H O); discriminate).
  f_equal; [specialize (H O); now injection H|apply IH; intros i; exact (H (S i))].
Qed.

Section CC.
  Variable Hc : list vcard -> Z.
  Variable G : group.
  Variable h : Z.
  Let p := gp G.
  Let q := gq G.
  Let g := gg G.
  Hypothesis Hp : 1 < p.
  Hypothesis Hq : 0 < q.
  Hypothesis Hg : powm g q p = 1.
  Hypothesis Hh : powm h q p = 1.

  Notation cmask := (cmask G h).
  Notation cadd := (cadd G).
  Notation cmix := (cmix G h).
  Notation cglue := (cglue G).

  Lemma cmask_cmask c r1 r2 : cmask (cmask c r1) r2 = cmask c (cadd r1 r2).
  Proof. exact (vmaskN_vmaskN p q g h Hp Hq Hg Hh c r1 r2). Qed.

  Lemma secN_secZ ss : secN (secZ ss) = ss.
  Proof.
    unfold secN, secZ. rewrite map_map. rewrite <- (map_id ss) at 2. apply map_ext. intros [a r]. cbn. now rewrite N2Z.id.
  Qed.

  Lemma fst_secZ ss : map fst (secZ ss) = map fst ss.
  Proof. unfold secZ. rewrite map_map. reflexivity. Qed.

  Lemma len_secZ ss : length (secZ ss) = length ss.
  Proof. unfold secZ. apply map_length. Qed.

  Lemma range_secZ ss : Forall (fun pr => Z.of_N (snd pr) < q) ss ->
    existsb (fun pr : N * Z => (snd pr <? 0) || (q <=? snd pr)) (secZ ss) = false.
  Proof.
    intros F. apply not_true_is_false. intros E. apply existsb_exists in E. destruct E as [[a z] [I E]].
    unfold secZ in I. apply in_map_iff in I. destruct I as [[a' r] [Eq I]]. cbn in Eq. injection Eq as <- <-.
    rewrite Forall_forall in F. specialize (F _ I). cbn in *. lia.
  Qed.

  (* ---- one iteration -------------------------------------------------------------------------------- *)
  Lemma verify_accepts (s s2 : list vcard) n cyclic (bit : bool) (resp : vsecret) s4 :
    valid_secret q n cyclic resp -> length s = n -> (n <= max_cards)%nat ->
    cmix (if bit then s2 else s) resp = Ret s4 ->
    verify_round Hc G h s s2 cyclic bit (Hc s4) (secZ resp) = Ret true.
  Proof.
    intros (L & P & R & Cy) Ls Hn M. unfold verify_round. fold q.
    assert (PC : perm_check (secZ resp) (N.of_nat (length (secZ resp))) = true).
    { apply import_check_iff. rewrite fst_secZ, len_secZ, L. exact P. }
    rewrite PC. cbn [negb]. rewrite len_secZ, L, Ls, Nat.eqb_refl. cbn [negb].
    rewrite (range_secZ resp R). rewrite secN_secZ. fold (cmix (if bit then s2 else s) resp). rewrite M. cbn [bind].
    rewrite Z.eqb_refl. cbn [negb]. rewrite fst_secZ.
    destruct cyclic; cbn [andb]; [|reflexivity].
    destruct (Cy eq_refl) as (r & Hr & E). rewrite E.
    replace (cyclic_ok (rotation n r)) with true; [reflexivity|]. symmetry.
    apply (cyclic_ok_shift _ r); rewrite rotation_length; [assumption|].
    intros j Hj. apply rotation_nth; try assumption.
    now apply max_cards_small.
  Qed.

  (* the glued secret of two honest secrets is honest again *)
  Lemma glue_valid n cyclic sigma pi gam : (n <= max_cards)%nat ->
    valid_secret q n cyclic sigma -> valid_secret q n cyclic pi -> cglue sigma pi = Ret gam ->
    valid_secret q n cyclic gam.
  Proof.
    intros Hn (Ls & Ps & Rs & Cs) (Lp & Pp & Rp & Cp) Gl.
    assert (Lg : length gam = n) by (rewrite (glue_length _ _ _ _ _ Gl); lia).
    split; [assumption|]. split; [eapply glue_perm; eassumption|]. split.
    - apply Forall_forall. intros [a r] I. apply In_nth_error in I. destruct I as [i Ei].
      assert (Hi : (i < n)%nat) by (rewrite <- Lg; apply nth_error_Some; congruence).
      destruct (glue_nth _ _ _ _ _ n i Gl Ls Hn Hi) as (x & r1 & y & r2 & b & z & a' & w & _ & _ & _ & _ & E5).
      rewrite Ei in E5. injection E5 as -> ->. cbn [snd]. unfold CutChooseModel.cadd, vadd. fold q.
      pose proof (Z.mod_pos_bound (Z.of_N r1 + Z.of_N r2) q Hq). rewrite Z2N.id; lia.
    - intros ->. destruct (Cs eq_refl) as (r1 & H1 & E1). destruct (Cp eq_refl) as (r2 & H2 & E2).
      pose proof (max_cards_small n Hn) as Sm.
      exists ((r1 + r2) mod N.of_nat n)%N. split; [apply N.mod_lt; lia|].
      apply nth_error_ext'. intros i.
      destruct (Nat.lt_ge_cases i n) as [Hi0|Hge].
      2:{ transitivity (@None N); [apply nth_error_None; rewrite map_length; lia|symmetry; apply nth_error_None; rewrite rotation_length; lia]. }
      rewrite rotation_nth by (try assumption; apply N.mod_lt; lia).
      destruct (glue_nth _ _ _ _ _ n i Gl Ls Hn Hi0) as (x & w1 & y & w2 & b & z & a & w & _ & _ & E3 & E4 & E5).
      rewrite nth_error_map, E5. cbn [option_map fst]. f_equal.
      (* b = (r2 + i) mod n, a = (r1 + b) mod n *)
      assert (Eb : nth_error (map fst pi) i = Some b) by (rewrite nth_error_map, E3; reflexivity).
      rewrite E2, rotation_nth in Eb by assumption. injection Eb as Eb.
      apply nthN_spec in E4. destruct E4 as (Hb & E4).
      assert (Ea : nth_error (map fst sigma) (N.to_nat b) = Some a) by (rewrite nth_error_map, E4; reflexivity).
      rewrite E1, rotation_nth in Ea by (try assumption; lia). injection Ea as Ea. rewrite N2Nat.id in Ea.
      subst a b. rewrite N.add_mod_idemp_r by lia. rewrite N.add_mod_idemp_l by lia. f_equal. lia.
  Qed.

  Lemma valid_in_range n cyclic ss : valid_secret q n cyclic ss -> in_range N n ss.
  Proof. intros (L & P & _). now destruct (perm_iota_facts ss n P) as (_ & _ & _ & R). Qed.

  (* completeness of one iteration, both challenge values *)
  Theorem round_complete s s2 n cyclic sigma pi bit : length s = n -> (n <= max_cards)%nat ->
    valid_secret q n cyclic sigma -> valid_secret q n cyclic pi -> cmix s sigma = Ret s2 ->
    exists cr, prove_round Hc G h s2 sigma pi bit = Ret cr /\
               verify_round Hc G h s s2 cyclic bit (fst cr) (secZ (snd cr)) = Ret true.
  Proof.
    intros Ls Hn Vs Vp M.
    pose proof Vs as (Lsg & Psg & Rsg & Csg). pose proof Vp as (Lpi & Ppi & Rpi & Cpi).
    destruct (glue_ok vcard N cmask cadd cmask_cmask s sigma pi n Ls Lsg Lpi Hn Psg (valid_in_range n cyclic pi Vp))
      as (s1 & gam & s3 & M1 & Gl & M2 & M3).
    unfold CutChooseModel.cmix in M. rewrite M in M1. injection M1 as <-.
    unfold prove_round, CutChooseModel.cmix, CutChooseModel.cglue. rewrite M2. cbn [bind]. destruct bit.
    - eexists. split; [reflexivity|]. cbn [fst snd]. exact (verify_accepts s s2 n cyclic true pi s3 Vp Ls Hn M2).
    - rewrite Gl. cbn [bind]. eexists. split; [reflexivity|]. cbn [fst snd].
      exact (verify_accepts s s2 n cyclic false gam s3 (glue_valid n cyclic sigma pi gam Hn Vs Vp Gl) Ls Hn M3).
  Qed.

  (* what TMCG_CreateStackSecret returns is an honest secret *)
  Lemma created_valid cyclic n coins o ss coins' : create_stack_secret cyclic n q coins = Ret ((o, ss), coins') ->
    valid_secret q n cyclic (secN ss) /\ (n <= max_cards)%nat.
  Proof.
    intros C. apply create_stack_secret_spec in C. destruct C as (Hn & L & P & R & Cy). split; [|assumption].
    unfold valid_secret, secN. rewrite map_length, map_map. cbn [fst]. split; [assumption|]. split; [assumption|]. split.
    - apply Forall_forall. intros [a r] I. apply in_map_iff in I. destruct I as [[a' z] [E I]]. cbn in E. injection E as <- <-.
      rewrite Forall_forall in R. specialize (R _ I). cbn in *. rewrite Z2N.id; lia.
    - intros ->. destruct Cy as (_ & r & Hr & E & _). exists r. split; assumption.
  Qed.

  (* ---- all iterations ----------------------------------------------------------------------------------- *)
  Theorem rounds_complete s s2 n sigma cyclic : length s = n -> (n <= max_cards)%nat ->
    valid_secret q n cyclic sigma -> cmix s sigma = Ret s2 ->
    forall k coins bits b, honest_rounds Hc G h k cyclic s s2 sigma coins bits = Ret b -> b = true.
  Proof.
    intros Ls Hn Vs M. induction k as [|k IH]; intros coins bits b; cbn [honest_rounds].
    - intros E. now injection E as <-.
    - destruct bits as [|bit bits]; [discriminate|]. fold q. rewrite Ls.
      destruct (create_stack_secret cyclic n q coins) as [[[o ss] coins']| | | | |] eqn:C; cbn [bind]; try discriminate.
      destruct (created_valid _ _ _ _ _ _ C) as (Vp & _). cbn [fst snd].
      destruct (round_complete s s2 n cyclic sigma (secN ss) bit Ls Hn Vs Vp M) as (cr & P & V).
      rewrite P. cbn [bind]. rewrite V. cbn [bind]. apply IH.
  Qed.

  (* ---- the verifier's test of the stacks ------------------------------------------------------------------ *)
  Lemma elem_mul' a b : check_element G a = true -> check_element G b = true -> check_element G ((a * b) mod p) = true.
  Proof.
    intros Ha Hb. apply check_element_spec in Ha. apply check_element_spec in Hb. fold p q in Ha, Hb.
    destruct Ha as [Ra Ea], Hb as [Rb Eb].
    assert (E : powm ((a * b) mod p) q p = 1).
    { rewrite powm_base_mod by lia. rewrite powm_mul_base by lia. rewrite Ea, Eb. apply Z.mod_1_l. lia. }
    apply check_element_spec. fold p q. split; [|assumption].
    pose proof (Z.mod_pos_bound (a * b) p ltac:(lia)) as B.
    assert ((a * b) mod p <> 0); [|lia]. intros Z0. rewrite Z0 in E.
    rewrite powm_spec in E by lia. rewrite Z.pow_0_l in E by lia. rewrite Z.mod_0_l in E; lia.
  Qed.

  Lemma elem_pow' b e : powm b q p = 1 -> 0 <= e -> check_element G (powm b e p) = true.
  Proof.
    intros Hb He. apply check_element_spec. fold p q. split.
    - apply (powm_nonzero p q b Hp Hq Hb e He).
    - rewrite <- powm_mul by lia. rewrite powm_spec by nia. apply (cyc_pow_mult p q b Hp Hq Hb). assumption.
  Qed.

  Lemma cmask_ok c r : card_ok G c = true -> card_ok G (cmask c r) = true.
  Proof.
    unfold card_ok, CutChooseModel.cmask, vmask. fold p g. cbn [fst snd]. rewrite !andb_true_iff. intros [H1 H2].
    split; apply elem_mul'; try assumption; apply elem_pow'; try assumption; lia.
  Qed.

  Lemma mix_cards_ok s ss s2 : (length s <= max_cards)%nat -> cmix s ss = Ret s2 ->
    forallb (card_ok G) s = true -> forallb (card_ok G) s2 = true.
  Proof.
    intros Hn M F. rewrite forallb_forall in *. intros c2 I. apply In_nth_error in I. destruct I as [i Ei].
    pose proof (mix_length _ _ _ _ _ _ M Hn) as L2.
    assert (Hi : (i < length s)%nat) by (rewrite <- L2; apply nth_error_Some; congruence).
    destruct (mix_nth _ _ _ _ _ _ i M Hi ltac:(lia)) as (j & r0 & c & j' & r & _ & Ec & _ & E2).
    rewrite Ei in E2. injection E2 as ->. apply cmask_ok. apply F.
    apply nthN_spec in Ec. destruct Ec as (_ & Ec). eapply nth_error_In; eassumption.
  Qed.

  Lemma verify_pre_ok s ss s2 : (length s <= max_cards)%nat -> cmix s ss = Ret s2 ->
    forallb (card_ok G) s = true -> verify_pre G s s2 = true.
  Proof.
    intros Hn M F. unfold verify_pre. rewrite (mix_length _ _ _ _ _ _ M Hn), Nat.eqb_refl. cbn [andb].
    pose proof (mix_cards_ok s ss s2 Hn M F) as F2. rewrite forallb_forall in *. intros [c2 c] I. cbn [fst snd].
    rewrite (F2 c2 (in_combine_l _ _ _ _ I)), (F c (in_combine_r _ _ _ _ I)). reflexivity.
  Qed.

  (* ---- the whole protocol -------------------------------------------------------------------------------- *)
  Theorem cutchoose_complete kappa cyclic s s2 sigma coins bits b :
    (length s <= max_cards)%nat -> forallb (card_ok G) s = true ->
    valid_secret q (length s) cyclic sigma -> cmix s sigma = Ret s2 ->
    honest_run Hc G h kappa cyclic s s2 sigma coins bits = Ret b -> b = true.
  Proof.
    intros Hn F Vs M. unfold honest_run. rewrite (verify_pre_ok s sigma s2 Hn M F). cbn [negb].
    destruct (TMCG_MAX_ZNP_ITERATIONS <? kappa); [discriminate|].
    eapply rounds_complete; try eassumption. reflexivity.
  Qed.

  (* the only ways an honest run does not end in "accept": the coins run out / the sampler refuses inside TMCG_CreateStackSecret,
     or kappa exceeds TMCG_MAX_ZNP_ITERATIONS -- never a rejection, an out-of-range access or a failed assertion of mix / glue *)
  Theorem rounds_outcome s s2 n sigma cyclic : length s = n -> (n <= max_cards)%nat ->
    valid_secret q n cyclic sigma -> cmix s sigma = Ret s2 ->
    forall k coins bits, honest_rounds Hc G h k cyclic s s2 sigma coins bits = Ret true \/
      (length bits < k)%nat \/
      exists coins', forall x, create_stack_secret cyclic n q coins' <> Ret x.
  Proof.
    intros Ls Hn Vs M. induction k as [|k IH]; intros coins bits; cbn [honest_rounds]; [now left|].
    destruct bits as [|bit bits]; [right; left; cbn; lia|]. fold q. rewrite Ls.
    destruct (create_stack_secret cyclic n q coins) as [[[o ss] coins']| | | | |] eqn:C; cbn [bind];
      try (right; right; exists coins; intros x; rewrite C; discriminate).
    destruct (created_valid _ _ _ _ _ _ C) as (Vp & _). cbn [fst snd].
    destruct (round_complete s s2 n cyclic sigma (secN ss) bit Ls Hn Vs Vp M) as (cr & P & V).
    rewrite P. cbn [bind]. rewrite V. cbn [bind].
    destruct (IH coins' bits) as [A|[A|A]]; [now left|right; left; cbn [length]; lia|now right; right].
  Qed.

End CC.
