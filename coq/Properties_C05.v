(* C05 -- Proofs bind every public input and every transmitted value.
   Property theorems only: each is closed by `exact <lemma>` and followed by Print Assumptions. *)
From Coq Require Import ZArith Znumtheory List Bool Lia.
From LT Require Import Zbase gen_Consts gen_FSInputs FsModel FsLemmas VtmfVerModel VtmfVerLemmas SkcModel SkcLemmas.
Import ListNotations.
Local Open Scope Z_scope.

(* ---- the hash input determines every hashed integer ---------------------------------------------------- *)
Theorem C05_fs_ser_injective : forall l1 l2 : list Z, fs_ser l1 = fs_ser l2 -> l1 = l2.
Proof. exact fs_ser_inj. Qed.
Print Assumptions C05_fs_ser_injective.

Theorem C05_fs_ser_vector_injective : forall v v' a a' : list Z, length v = length v' ->
  fs_ser (v ++ a) = fs_ser (v' ++ a') -> v = v' /\ a = a'.
Proof. exact fs_ser_vec_inj. Qed.
Print Assumptions C05_fs_ser_vector_injective.

Theorem C05_fs_single_change : forall (pre post : list Z) (x y : Z), x <> y ->
  fs_ser (pre ++ x :: post) <> fs_ser (pre ++ y :: post).
Proof. exact fs_ser_single_change. Qed.
Print Assumptions C05_fs_single_change.

(* ---- coverage of the Fiat-Shamir hash calls in the current source (gen_FSInputs.v is regenerated on every run):
        the prover's and the verifier's call hash exactly the expected expressions in the same order, the literal
        argument count equals the number of arguments, and the roles cover group / commitment key, every statement
        component and every prover commitment.  A dropped or reordered hash input breaks the obligation named here. *)
Theorem C05_fs_covers_keynizk : fs_obligation keynizk_P keynizk_V keynizk_req = true.
Proof. exact (eq_refl true <: fs_obligation keynizk_P keynizk_V keynizk_req = true). Qed.
Print Assumptions C05_fs_covers_keynizk.
Theorem C05_fs_covers_cp : fs_obligation cp_P cp_V cp_req = true.
Proof. exact (eq_refl true <: fs_obligation cp_P cp_V cp_req = true). Qed.
Print Assumptions C05_fs_covers_cp.
Theorem C05_fs_covers_or_first : fs_obligation or_P1 or_V or_req = true.
Proof. exact (eq_refl true <: fs_obligation or_P1 or_V or_req = true). Qed.
Print Assumptions C05_fs_covers_or_first.
Theorem C05_fs_covers_or_second : fs_obligation or_P2 or_V or_req = true.
Proof. exact (eq_refl true <: fs_obligation or_P2 or_V or_req = true). Qed.
Print Assumptions C05_fs_covers_or_second.
Theorem C05_fs_covers_skc_x : fs_obligation skc_x_P (skc_x_V 0) skc_x_req && fs_obligation skc_x_P (skc_x_V 1) skc_x_req = true.
Proof. exact (eq_refl true <: fs_obligation skc_x_P (skc_x_V 0) skc_x_req && fs_obligation skc_x_P (skc_x_V 1) skc_x_req = true). Qed.
Print Assumptions C05_fs_covers_skc_x.
Theorem C05_fs_covers_skc_e : fs_obligation skc_e_P (skc_e_V 0) skc_e_req && fs_obligation skc_e_P (skc_e_V 1) skc_e_req = true.
Proof. exact (eq_refl true <: fs_obligation skc_e_P (skc_e_V 0) skc_e_req && fs_obligation skc_e_P (skc_e_V 1) skc_e_req = true). Qed.
Print Assumptions C05_fs_covers_skc_e.
Theorem C05_fs_covers_vsshe_t : fs_obligation vsshe_t_P vsshe_t_V vsshe_t_req = true.
Proof. exact (eq_refl true <: fs_obligation vsshe_t_P vsshe_t_V vsshe_t_req = true). Qed.
Print Assumptions C05_fs_covers_vsshe_t.
Theorem C05_fs_covers_vsshe_lambda : fs_obligation vsshe_l_P vsshe_l_V vsshe_l_req = true.
Proof. exact (eq_refl true <: fs_obligation vsshe_l_P vsshe_l_V vsshe_l_req = true). Qed.
Print Assumptions C05_fs_covers_vsshe_lambda.
Theorem C05_fs_covers_pubrot_beta : fs_obligation pr_b_P pr_b_V pr_b_req = true.
Proof. exact (eq_refl true <: fs_obligation pr_b_P pr_b_V pr_b_req = true). Qed.
Print Assumptions C05_fs_covers_pubrot_beta.
Theorem C05_fs_covers_pubrot_lambda : fs_obligation pr_l_P pr_l_V pr_l_req = true.
Proof. exact (eq_refl true <: fs_obligation pr_l_P pr_l_V pr_l_req = true). Qed.
Print Assumptions C05_fs_covers_pubrot_lambda.
Theorem C05_fs_covers_rot_alpha : fs_obligation rot_a_P rot_a_V rot_a_req = true.
Proof. exact (eq_refl true <: fs_obligation rot_a_P rot_a_V rot_a_req = true). Qed.
Print Assumptions C05_fs_covers_rot_alpha.
Theorem C05_fs_covers_rot_lambda : fs_obligation rot_l_P rot_l_V rot_l_req = true.
Proof. exact (eq_refl true <: fs_obligation rot_l_P rot_l_V rot_l_req = true). Qed.
Print Assumptions C05_fs_covers_rot_lambda.

(* ---- VTMF-layer verifiers: acceptance <-> range checks /\ c = H(public inputs ++ recomputed commitments) ---- *)
Theorem C05_key_accept_iff : forall H G foo c r,
  key_verify H G foo c r = Accept <->
  check_element G foo = true /\ bits c <= ghb G /\ Z.abs r < gq G /\
  exists t2 c2, fpowm (gtg G) (tlen G) (gg G) r (gp G) = Some t2 /\ mpz_powm foo c (gp G) = Some c2 /\
                c = H (key_hash_input G foo ((t2 * c2) mod gp G)).
Proof. exact key_accept_iff. Qed.
Print Assumptions C05_key_accept_iff.

Theorem C05_key_range_rules : forall H G foo c r, key_verify H G foo c r = Accept ->
  - gq G < r < gq G /\ bits c <= ghb G /\ 0 < foo < gp G /\ powm foo (gq G) (gp G) = 1.
Proof. exact key_range_rules. Qed.
Print Assumptions C05_key_range_rules.

Theorem C05_cp_accept_iff : forall H G x y g' h' c r fp,
  cp_verify H G x y g' h' c r fp = Accept <->
  bits c <= ghb G /\ Z.abs r < gq G /\ (fp = true -> gg G = g' /\ gh G = h') /\
  exists a0 xc b0 yc,
    (if fp then fpowm (gtg G) (tlen G) g' r (gp G) else mpz_powm g' r (gp G)) = Some a0 /\
    mpz_powm x c (gp G) = Some xc /\
    (if fp then fpowm (gth G) (tlen G) h' r (gp G) else mpz_powm h' r (gp G)) = Some b0 /\
    mpz_powm y c (gp G) = Some yc /\
    H (cp_hash_input G ((a0 * xc) mod gp G) ((b0 * yc) mod gp G) x y g' h') = c.
Proof. exact cp_accept_iff. Qed.
Print Assumptions C05_cp_accept_iff.

Theorem C05_cp_range_rules : forall H G x y g' h' c r fp, cp_verify H G x y g' h' c r fp = Accept ->
  - gq G < r < gq G /\ bits c <= ghb G /\ (fp = true -> gg G = g' /\ gh G = h').
Proof. exact cp_range_rules. Qed.
Print Assumptions C05_cp_range_rules.

Theorem C05_mask_accept_iff : forall H G m c1 c2 c r,
  mask_verify H G m c1 c2 c r = Accept <->
  check_element G m = true /\ check_element G c1 = true /\ check_element G c2 = true /\
  exists mi, invm m (gp G) = Some mi /\ cp_verify H G c1 ((mi * c2) mod gp G) (gg G) (gh G) c r true = Accept.
Proof. exact mask_accept_iff. Qed.
Print Assumptions C05_mask_accept_iff.

Theorem C05_remask_accept_iff : forall H G c1 c2 d1 d2 c r,
  remask_verify H G c1 c2 d1 d2 c r = Accept <->
  check_element G c1 = true /\ check_element G c2 = true /\ check_element G d1 = true /\ check_element G d2 = true /\
  exists i1 i2, invm c1 (gp G) = Some i1 /\ invm c2 (gp G) = Some i2 /\
    cp_verify H G ((i1 * d1) mod gp G) ((i2 * d2) mod gp G) (gg G) (gh G) c r true = Accept.
Proof. exact remask_accept_iff. Qed.
Print Assumptions C05_remask_accept_iff.

(* membership rules (38c5983, e22f683, fdc4557): every group element a masking / re-masking / OR statement speaks about
   lies in (0,p) and in the order-q subgroup -- a non-member or out-of-range public input is refused, not reduced *)
Theorem C05_mask_member_rules : forall H G m c1 c2 c r, mask_verify H G m c1 c2 c r = Accept ->
  (0 < m < gp G /\ powm m (gq G) (gp G) = 1) /\ (0 < c1 < gp G /\ powm c1 (gq G) (gp G) = 1) /\
  (0 < c2 < gp G /\ powm c2 (gq G) (gp G) = 1).
Proof. exact mask_member_rules. Qed.
Print Assumptions C05_mask_member_rules.

Theorem C05_remask_member_rules : forall H G c1 c2 d1 d2 c r, remask_verify H G c1 c2 d1 d2 c r = Accept ->
  (0 < c1 < gp G /\ powm c1 (gq G) (gp G) = 1) /\ (0 < c2 < gp G /\ powm c2 (gq G) (gp G) = 1) /\
  (0 < d1 < gp G /\ powm d1 (gq G) (gp G) = 1) /\ (0 < d2 < gp G /\ powm d2 (gq G) (gp G) = 1).
Proof. exact remask_member_rules. Qed.
Print Assumptions C05_remask_member_rules.

Theorem C05_or_member_rules : forall H G y1 y2 g1 g2 c1 c2 r1 r2, or_verify H G y1 y2 g1 g2 c1 c2 r1 r2 = Accept ->
  (0 < y1 < gp G /\ powm y1 (gq G) (gp G) = 1) /\ (0 < y2 < gp G /\ powm y2 (gq G) (gp G) = 1).
Proof. exact or_member_rules. Qed.
Print Assumptions C05_or_member_rules.

Theorem C05_decrypt_accept_iff : forall H G c1 hj dj c r,
  decrypt_verify H G c1 hj dj c r = Accept <->
  exists k, hj = Some k /\ check_element G dj = true /\ cp_verify H G dj k c1 (gg G) c r false = Accept.
Proof. exact decrypt_accept_iff. Qed.
Print Assumptions C05_decrypt_accept_iff.

(* the recomputed commitment g^r * X is injective in the response modulo q (X = statement^c, invertible) *)
Theorem C05_recommit_inj : forall p q g : Z, 1 < p -> prime q -> powm g q p = 1 -> g mod p <> 1 ->
  forall r r' X Xi, 0 <= r -> 0 <= r' -> (X * Xi) mod p = 1 ->
  ((powm g r p * X) mod p = (powm g r' p * X) mod p <-> r mod q = r' mod q).
Proof. exact recommit_inj. Qed.
Print Assumptions C05_recommit_inj.

(* replacing an in-range response by a different in-range one changes the string that is hashed *)
Theorem C05_key_response_changes_hash_input : forall (G : grp) (foo r r' X Xi : Z),
  1 < gp G -> prime (gq G) -> powm (gg G) (gq G) (gp G) = 1 -> gg G mod gp G <> 1 ->
  0 <= r < gq G -> 0 <= r' < gq G -> r <> r' -> (X * Xi) mod gp G = 1 ->
  fs_ser (key_hash_input G foo ((powm (gg G) r (gp G) * X) mod gp G)) <>
  fs_ser (key_hash_input G foo ((powm (gg G) r' (gp G) * X) mod gp G)).
Proof. exact key_response_changes_hash_input. Qed.
Print Assumptions C05_key_response_changes_hash_input.

(* when a mutation leaves the hash input unchanged, a changed challenge is refused (no random-oracle step) *)
Theorem C05_key_same_input_rejects : forall H G foo c c' r r' t,
  key_verify H G foo c r = Accept -> key_verify H G foo c' r' = Accept ->
  (forall t2 c2, fpowm (gtg G) (tlen G) (gg G) r (gp G) = Some t2 -> mpz_powm foo c (gp G) = Some c2 -> (t2 * c2) mod gp G = t) ->
  (forall t2 c2, fpowm (gtg G) (tlen G) (gg G) r' (gp G) = Some t2 -> mpz_powm foo c' (gp G) = Some c2 -> (t2 * c2) mod gp G = t) ->
  c = c'.
Proof. exact key_same_input_rejects. Qed.
Print Assumptions C05_key_same_input_rejects.

(* interactive key-share proof (code after de8b018 / 0abf554) *)
Theorem C05_keyint_accept_iff : forall G key m1 c m2,
  keyint_verify G key m1 c m2 = Accept <->
  check_element G m1 = true /\ check_element G key = true /\ Z.abs m2 < gq G /\
  exists v kc ki, fpowm (gtg G) (tlen G) (gg G) m2 (gp G) = Some v /\ mpz_powm key c (gp G) = Some kc /\
                  invm kc (gp G) = Some ki /\ m1 = (v * ki) mod gp G.
Proof. exact keyint_accept_iff. Qed.
Print Assumptions C05_keyint_accept_iff.

(* the public input `key` must be a member of the order-q subgroup in (0,p) *)
Theorem C05_keyint_key_member : forall G key m1 c m2, keyint_verify G key m1 c m2 = Accept ->
  0 < key < gp G /\ powm key (gq G) (gp G) = 1.
Proof. exact keyint_key_member. Qed.
Print Assumptions C05_keyint_key_member.

(* a response in (-q,q) is raised as its residue modulo q: negative values are handled by inversion *)
Theorem C05_fpowm_in_range : forall G : grp, 1 < gp G -> prime (gq G) -> powm (gg G) (gq G) (gp G) = 1 ->
  bits (gq G) <= TMCG_MAX_FPOWM_T ->
  forall x v, - gq G < x < gq G -> fpowm (gtg G) (tlen G) (gg G) x (gp G) = Some v -> v = powm (gg G) (x mod gq G) (gp G).
Proof. exact fpowm_in_range. Qed.
Print Assumptions C05_fpowm_in_range.

(* unconditional binding of the interactive response (formerly refuted: -m_2 was accepted): two accepted responses
   to the same (key, m_1, c) are the same residue modulo q, so a response of another residue is refused *)
Theorem C05_keyint_response_bound : forall G : grp, 1 < gp G -> prime (gq G) -> powm (gg G) (gq G) (gp G) = 1 ->
  gg G mod gp G <> 1 -> bits (gq G) <= TMCG_MAX_FPOWM_T ->
  forall key m1 c m2 m2',
  keyint_verify G key m1 c m2 = Accept -> keyint_verify G key m1 c m2' = Accept -> m2 mod gq G = m2' mod gq G.
Proof. exact keyint_response_bound. Qed.
Print Assumptions C05_keyint_response_bound.

Theorem C05_interactive_mut_rejects : forall G : grp, 1 < gp G -> prime (gq G) -> powm (gg G) (gq G) (gp G) = 1 ->
  gg G mod gp G <> 1 -> bits (gq G) <= TMCG_MAX_FPOWM_T ->
  forall key m1 c m2 m2',
  keyint_verify G key m1 c m2 = Accept -> m2 mod gq G <> m2' mod gq G -> keyint_verify G key m1 c m2' <> Accept.
Proof. exact keyint_other_residue_rejected. Qed.
Print Assumptions C05_interactive_mut_rejects.

Theorem C05_invm_spec : forall a p i, 1 < p -> invm a p = Some i -> 0 <= i < p /\ (i * a) mod p = 1.
Proof. exact invm_spec. Qed.
Print Assumptions C05_invm_spec.

(* OR proof (code after fae6d38, fdc4557) *)
Theorem C05_or_accept_iff : forall H G y1 y2 g1 g2 c1 c2 r1 r2,
  or_verify H G y1 y2 g1 g2 c1 c2 r1 r2 = Accept <->
  Z.abs r1 < gq G /\ Z.abs r2 < gq G /\ Z.abs c1 < gq G /\ Z.abs c2 < gq G /\
  check_element G y1 = true /\ check_element G y2 = true /\
  exists a1 b1 a2 b2, mpz_powm y1 c1 (gp G) = Some a1 /\ mpz_powm g1 r1 (gp G) = Some b1 /\
    mpz_powm y2 c2 (gp G) = Some a2 /\ mpz_powm g2 r2 (gp G) = Some b2 /\
    (c1 + c2) mod gq G = H (or_hash_input G g1 y1 g2 y2 ((a1 * b1) mod gp G) ((a2 * b2) mod gp G)) mod gq G.
Proof. exact or_accept_iff. Qed.
Print Assumptions C05_or_accept_iff.

Theorem C05_or_range_rules : forall H G y1 y2 g1 g2 c1 c2 r1 r2, or_verify H G y1 y2 g1 g2 c1 c2 r1 r2 = Accept ->
  - gq G < c1 < gq G /\ - gq G < c2 < gq G /\ - gq G < r1 < gq G /\ - gq G < r2 < gq G.
Proof. exact or_range_rules. Qed.
Print Assumptions C05_or_range_rules.

(* formerly refuted: a challenge part shifted by q is now refused instead of being reduced *)
Theorem C05_or_plus_q_rejected : forall H G y1 y2 g1 g2 c1 c2 r1 r2, 0 < gq G -> 0 <= c1 ->
  or_verify H G y1 y2 g1 g2 (c1 + gq G) c2 r1 r2 <> Accept.
Proof. exact or_plus_q_rejected. Qed.
Print Assumptions C05_or_plus_q_rejected.


(* ---- Pedersen commitments and the shuffle of known content (current code, after e411aec / 25cc964) ---------------- *)
Theorem C05_test_membership_spec : forall K c, test_membership K c = true <-> 0 < c < kp K /\ powm c (kq K) (kp K) = 1.
Proof. exact test_membership_spec. Qed.
Print Assumptions C05_test_membership_spec.

Theorem C05_ped_accept_iff : forall K c r ms,
  ped_verify K c r ms = Accept <-> 0 <= r < kq K /\ 0 < c < kp K /\ recommit K r ms = Some c.
Proof. exact ped_accept_iff. Qed.
Print Assumptions C05_ped_accept_iff.

(* 0 <= r < q: a negative randomizer is refused (25cc964), the commitment lies in (0,p) *)
Theorem C05_ped_range_rules : forall K c r ms, ped_verify K c r ms = Accept -> 0 <= r < kq K /\ 0 < c < kp K.
Proof. exact ped_range_rules. Qed.
Print Assumptions C05_ped_range_rules.

(* an opening binds its randomizer unconditionally: two accepted openings of the same (c, m) have the same r *)
Theorem C05_ped_randomizer_bound : forall K c r r' ms,
  prime (kp K) -> prime (kq K) -> powm (kh K) (kq K) (kp K) = 1 -> kh K mod kp K <> 1 -> bits (kq K) <= TMCG_MAX_FPOWM_T ->
  ped_verify K c r ms = Accept -> ped_verify K c r' ms = Accept -> r = r'.
Proof. exact ped_randomizer_bound. Qed.
Print Assumptions C05_ped_randomizer_bound.

(* REFUTED on the code as it is: "messages not below q are refused" -- Verify does not range-check m_i, so m + q opens
   the same commitment while it fits the power table (known findings pedersen.m.plusq, pedersen.m.negfar) *)
Theorem C05_pedersen_message_range_refuted : forall K c r g m, 0 < kp K -> 0 < kq K -> 0 <= m -> kg K = [g] ->
  powm g (kq K) (kp K) = 1 -> bits (m + kq K) <= ktl K -> 0 < TMCG_MAX_FPOWM_N ->
  ped_verify K c r [m + kq K] = ped_verify K c r [m].
Proof. exact ped_message_plus_q. Qed.
Print Assumptions C05_pedersen_message_range_refuted.

Theorem C05_skc_accept_iff : forall H K le c ms P,
  skc_verify H K le c ms P = Accept <->
  length (s_f P) = length ms /\ S (length (s_fD P)) = length ms /\
  test_membership K (s_cd P) = true /\ test_membership K (s_ca P) = true /\ test_membership K (s_cD P) = true /\
  0 <= s_z P < kq K /\ Forall (fun x => 0 <= x < kq K) (s_f P) /\
  0 <= s_zD P < kq K /\ Forall (fun x => 0 <= x < kq K) (s_fD P) /\
  let x := skc_x H K le ms in
  let e := skc_e H K le ms x P in
  exists ce cae einv,
    mpz_powm c e (kp K) = Some ce /\ ped_verify K ((ce * s_cd P) mod kp K) (s_z P) (s_f P) = Accept /\
    mpz_powm (s_ca P) e (kp K) = Some cae /\ ped_verify K ((cae * s_cD P) mod kp K) (s_zD P) (s_fD P ++ [0]) = Accept /\
    invm e (kq K) = Some einv /\
    (prod_rhs (kq K) x ms 1 * e) mod kq K = prod_lhs (kq K) ((e * x) mod kq K) einv (s_f P) (s_fD P) true 1.
Proof. exact skc_accept_iff. Qed.
Print Assumptions C05_skc_accept_iff.

Theorem C05_skc_range_rules : forall H K le c ms P, skc_verify H K le c ms P = Accept ->
  0 <= s_z P < kq K /\ Forall (fun x => 0 <= x < kq K) (s_f P) /\
  0 <= s_zD P < kq K /\ Forall (fun x => 0 <= x < kq K) (s_fD P).
Proof. exact skc_range_rules. Qed.
Print Assumptions C05_skc_range_rules.

Theorem C05_skc_member_rules : forall H K le c ms P, skc_verify H K le c ms P = Accept ->
  (0 < s_cd P < kp K /\ powm (s_cd P) (kq K) (kp K) = 1) /\
  (0 < s_ca P < kp K /\ powm (s_ca P) (kq K) (kp K) = 1) /\
  (0 < s_cD P < kp K /\ powm (s_cD P) (kq K) (kp K) = 1).
Proof. exact skc_member_rules. Qed.
Print Assumptions C05_skc_member_rules.

(* the response z is bound as an exact value: no second z verifies with the same commitments *)
Theorem C05_skc_z_bound : forall H K le c ms P z',
  prime (kp K) -> prime (kq K) -> powm (kh K) (kq K) (kp K) = 1 -> kh K mod kp K <> 1 -> bits (kq K) <= TMCG_MAX_FPOWM_T ->
  skc_verify H K le c ms P = Accept ->
  skc_verify H K le c ms (mk_skc (s_cd P) (s_cD P) (s_ca P) (s_f P) z' (s_fD P) (s_zD P)) = Accept -> z' = s_z P.
Proof. exact skc_z_bound. Qed.
Print Assumptions C05_skc_z_bound.

Theorem C05_skc_z_shifted_rejected : forall H K le c ms P k, 0 < kq K -> k <> 0 -> 0 <= s_z P < kq K ->
  skc_verify H K le c ms (mk_skc (s_cd P) (s_cD P) (s_ca P) (s_f P) (s_z P + k * kq K) (s_fD P) (s_zD P)) <> Accept.
Proof. exact skc_z_shifted_rejected. Qed.
Print Assumptions C05_skc_z_shifted_rejected.

(* ---- non-vacuity / witnesses (p = 23, q = 11, g = 2, h = 3) ---------------------------------------------- *)
Definition G23 : grp := mk_grp 23 11 2 3 2 3 256.
Definition H23 : list Z -> Z := table_hash [([23; 11; 2; 8; 9], 6)].
Example C05_nonvacuous_key_accept : key_verify H23 G23 8 6 9 = Accept.
Proof. vm_compute. reflexivity. Qed.
Example C05_nonvacuous_key_mutant_rejected : key_verify H23 G23 8 6 10 = Reject /\ key_verify H23 G23 8 6 (9 + 11) = Reject /\ key_verify H23 G23 8 6 (9 - 11) = Accept.
Proof. vm_compute. repeat split; reflexivity. Qed.
Example C05_nonvacuous_group : 1 < gp G23 /\ prime (gq G23) /\ powm (gg G23) (gq G23) (gp G23) = 1 /\ gg G23 mod gp G23 <> 1.
Proof.
  split; [cbn; lia|]. split; [|split; [vm_compute; reflexivity|vm_compute; congruence]].
  cbn. apply prime_intro; [lia|]. intros n Hn.
  assert (n = 1 \/ n = 2 \/ n = 3 \/ n = 4 \/ n = 5 \/ n = 6 \/ n = 7 \/ n = 8 \/ n = 9 \/ n = 10) as C by lia.
  destruct C as [->|[->|[->|[->|[->|[->|[->|[->|[->| ->]]]]]]]]]; apply Zgcd_1_rel_prime; reflexivity.
Qed.
Example C05_nonvacuous_keyint : keyint_verify G23 8 9 1 8 = Accept /\ keyint_verify G23 8 9 1 (-8) = Reject /\
  keyint_verify G23 8 9 1 (8 - 11) = Accept /\ keyint_verify G23 (23 - 8) 9 2 5 = Reject /\ bits (gq G23) <= TMCG_MAX_FPOWM_T.
Proof. vm_compute. repeat split; congruence. Qed.
Example C05_nonvacuous_or : or_verify (fun _ => 7) G23 4 9 2 3 3 4 5 6 = Accept /\ or_verify (fun _ => 7) G23 4 9 2 3 (3 + 11) 4 5 6 = Reject.
Proof. vm_compute. split; reflexivity. Qed.

(* Pedersen: one generator g = 2 of order 11 modulo 23, h = 3; 2^5 * 3^4 = 32 * 81 = 2592 = 16 (mod 23) *)
Definition K23 : pkey := mk_pkey 23 11 3 [2].
Example C05_nonvacuous_ped : ped_verify K23 16 4 [5] = Accept /\ ped_verify K23 16 (4 - 11) [5] = Reject /\
  ped_verify K23 16 4 [5 + 11] = Reject /\ ped_verify (mk_pkey 23 11 3 [2]) 16 4 [1 + 11] = ped_verify K23 16 4 [1].
Proof. vm_compute. repeat split; reflexivity. Qed.

(* non-vacuity: a proof made by GrothSKC::Prove_noninteractive for a 128/64-bit commitment key (record of the harness),
   accepted by the model with the logged hash oracle; the same proof with z + q is refused *)
Definition Kex : pkey := mk_pkey 302916002200284782502554726193907539953 17084552515577904043 126245851261019830363192692450603277685 [226634704922142527756371474700428482976; 237906121319774078168410767651394123632; 255014836776580823509221323484533008121].
Definition Hex : list Z -> Z := table_hash [([226634704922142527756371474700428482976; 237906121319774078168410767651394123632; 255014836776580823509221323484533008121; 13339997612621731408; 13905673840040254954; 13002963652922272783; 302916002200284782502554726193907539953; 17084552515577904043; 126245851261019830363192692450603277685], 108278089586679642549613370307261683309019008659833183695186269152254624772034); ([226634704922142527756371474700428482976; 237906121319774078168410767651394123632; 255014836776580823509221323484533008121; 13339997612621731408; 13905673840040254954; 13002963652922272783; 1903144898; 229278802278434982938895642933652113402; 15296960207150666273681383615283150012; 152208915448259559908949887770140986040], 25939981182054364156392843465971687103698328476424177936545056879261190482646)].
Definition Pex : skc_proof := mk_skc 229278802278434982938895642933652113402 15296960207150666273681383615283150012 152208915448259559908949887770140986040 [6168690600214489515; 7801210722337845212; 2915728748878536366] 1438154580988781284 [2614924089242855529; 15326065337876127063] 4091267996460408482.
Example C05_nonvacuous_skc_accept : skc_verify Hex Kex 32 77563117293965163431295713505159591073 [13339997612621731408; 13905673840040254954; 13002963652922272783] Pex = Accept.
Proof. vm_compute. reflexivity. Qed.
Example C05_nonvacuous_skc_shifted : skc_verify Hex Kex 32 77563117293965163431295713505159591073 [13339997612621731408; 13905673840040254954; 13002963652922272783] (mk_skc (s_cd Pex) (s_cD Pex) (s_ca Pex) (s_f Pex) (s_z Pex + kq Kex) (s_fD Pex) (s_zD Pex)) = Reject.
Proof. vm_compute. reflexivity. Qed.
