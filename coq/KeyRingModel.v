(* KeyRingModel: executable model of the VTMF key generation protocol (C08, key-share NIZK of C03).
   Anchors: src/BarnettSmartVTMF_dlog.cc
     :277-291 KeyGenerationProtocol_GenerateKey      :293-319 KeyGenerationProtocol_ComputeNIZK
     :321-331 KeyGenerationProtocol_PublishKey       :333-371 KeyGenerationProtocol_VerifyNIZK
     :373-408 KeyGenerationProtocol_UpdateKey        :410-453 KeyGenerationProtocol_RemoveKey
     :641-646 KeyGenerationProtocol_Finalize
   The hash tmcg_mpz_shash(r, n, a_1..a_n) is the oracle H applied to the argument list [a_1;..;a_n]
   (the code hashes the injective text  hex(a_1)|...|hex(a_n)| ).  hbits = 8 * tmcg_mpz_shash_len().
   Stream input is modelled after parsing: the three integers read by `in >> foo >> c >> r` and the flag
   `good` = in.good() after the reads (false e.g. when the last line lacks its newline).  Text that is not a
   base-62 integer makes operator>> throw std::runtime_error and is outside this model (C11/C12).
   The map h_j (std::map<string, mpz_ptr>, keyed by the base-62 text of the fingerprint, which is injective)
   is an association list keyed by the fingerprint; its order is irrelevant to every observation.
   Definitions only -- proofs live in KeyRingLemmas.v. *)
From Coq Require Import ZArith List Bool.
From LT Require Import Zbase gen_Consts SigmaPrim.
Import ListNotations.
Local Open Scope Z_scope.

(* ---- std::map<fingerprint, key> ---------------------------------------------------------------- *)
Definition kmap := list (Z * Z).

Fixpoint map_get (fp : Z) (m : kmap) : option Z :=
  match m with
  | [] => None
  | (k, v) :: r => if k =? fp then Some v else map_get fp r
  end.

Definition map_erase (fp : Z) (m : kmap) : kmap := filter (fun kv => negb (fst kv =? fp)) m.

(* h_j[fp] = v : replaces an existing entry *)
Definition map_set (fp v : Z) (m : kmap) : kmap := (fp, v) :: map_erase fp m.

(* the part of the instance the key generation protocol changes *)
Record kstate := mkKstate { ks_h : Z; ks_hj : kmap }.

Section KeyRing.
  Variable H : list Z -> Z.      (* Fiat-Shamir / fingerprint oracle *)
  Variable hbits : Z.            (* 8 * tmcg_mpz_shash_len() *)
  Variable G : group.

  Let p := gp G.
  Let q := gq G.
  Let g := gg G.

  (* fpowm_table_g as the constructors leave it *)
  Definition table_g : ftable := precompute g q.

  (* GenerateKey: coin -> (x_i, h_i, h_i_fp, state with h = h_i and the map untouched); None = fspowm throws *)
  Definition generate_key (raw : Z) (old : kstate) : option (Z * Z * Z * kstate) :=
    let x := srandomm raw q in
    match fspowm table_g g x p with
    | None => None
    | Some hi => Some (x, hi, H [hi], mkKstate hi (ks_hj old))
    end.

  (* ComputeNIZK: (c, r) for the key x_i, h_i with coin raw *)
  Definition compute_nizk (x hi raw : Z) : option (Z * Z) :=
    let v := srandomm raw q in
    match fspowm table_g g v p with
    | None => None
    | Some t =>
      let c := H [p; q; g; hi; t] in
      Some (c, (- (c * x) + v) mod q)
    end.

  (* PublishKey writes h_i, c, r *)
  Definition publish_key (x hi raw : Z) : option (Z * Z * Z) :=
    match compute_nizk x hi raw with
    | None => None
    | Some (c, r) => Some (hi, c, r)
    end.

  Definition verify_nizk (foo c r : Z) : verdict :=
    if negb (check_element G foo) then Reject
    else if hbits <? sizeinbase2 c then Reject
    else if q <=? Z.abs r then Reject
    else match fpowm table_g g r p with
         | None => Throw
         | Some t2a =>
           match mpz_powm foo c p with
           | None => Throw
           | Some c2 =>
             let t2 := (t2a * c2) mod p in
             if c =? H [p; q; g; foo; t2] then Accept else Reject
           end
         end.

  (* UpdateKey: (foo, c, r) as parsed, good = in.good() *)
  Definition update_key (s : kstate) (good : bool) (msg : Z * Z * Z) : verdict * kstate :=
    let '(foo, c, r) := msg in
    if negb good then (Reject, s)
    else match verify_nizk foo c r with
         | Accept => (Accept, mkKstate ((ks_h s * foo) mod p) (map_set (H [foo]) foo (ks_hj s)))
         | v => (v, s)
         end.

  (* RemoveKey: only the key of the message is used *)
  Definition remove_key (s : kstate) (good : bool) (foo : Z) : bool * kstate :=
    if negb good then (false, s)
    else let fp := H [foo] in
         match map_get fp (ks_hj s) with
         | None => (false, s)
         | Some k =>
           match invm k p with
           | None => (false, s)
           | Some i => (true, mkKstate ((ks_h s * i) mod p) (map_erase fp (ks_hj s)))
           end
         end.

  (* Finalize: fpowm_table_h is rebuilt from the current h *)
  Definition finalize (s : kstate) : ftable := precompute (ks_h s) q.

  (* processing a list of well-read contributions in the given order *)
  Definition run_updates (s : kstate) (l : list (Z * Z * Z)) : kstate :=
    fold_left (fun st m => snd (update_key st true m)) l s.

  Definition accepted (m : Z * Z * Z) : Prop :=
    let '(foo, c, r) := m in verify_nizk foo c r = Accept.

  Definition msg_key (m : Z * Z * Z) : Z := fst (fst m).
End KeyRing.

(* add / remove scripts for the interleaving statements *)
Inductive kop := OpAdd (good : bool) (m : Z * Z * Z) | OpRemove (good : bool) (key : Z).

Definition step (H : list Z -> Z) (hbits : Z) (G : group) (s : kstate) (o : kop) : kstate :=
  match o with
  | OpAdd good m => snd (update_key H hbits G s good m)
  | OpRemove good k => snd (remove_key H G s good k)
  end.

Definition prodl (l : list Z) : Z := fold_right Z.mul 1 l.
