From Coq Require Import Extraction ExtrOcamlBasic ZArith.
From LT Require Import Zbase PowmModel SqrtModel InterpModel PrimeModel.
Extraction "model.ml" invm spowm fpowm_precompute fpowm fpowm_ui fspowm
  Z.to_N (* drvcore.ml needs the type n *) sqrtmp_with sqrtmn_with sqrtmn_all_with sqrtmn_fast sqrtmn_fast_all interpolate lprime_run sprime_accepts.
