(* PowmLemmas -- proofs about PowmModel (C09): correctness of invm, of the constant-time power, of the
   table-based powers, the throwing cases and the silent "gap" t < bitlen <= TMCG_MAX_FPOWM_T. *)
From Coq Require Import ZArith Znumtheory Zpow_facts Lia List Bool ZifyBool.
From LT Require Import Zbase gen_Consts PowmModel.
Import ListNotations.
Local Open Scope Z_scope.

(* ---- extended Euclid ------------------------------------------------------------------------- *)
Lemma egcd_fuel_spec A P : forall f r0 r1 s0 s1 g s,
  0 <= r1 <= r0 -> r0 * r1 < 2 ^ Z.of_nat f ->
  (exists t0, r0 = s0 * A + t0 * P) -> (exists t1, r1 = s1 * A + t1 * P) ->
  egcd_fuel f r0 r1 s0 s1 = (g, s) ->
  g = Z.gcd r0 r1 /\ exists t, g = s * A + t * P.
Proof.
  induction f as [|f IH]; intros r0 r1 s0 s1 g s Hr Hm [t0 H0] [t1 H1] E.
  - cbn [egcd_fuel] in E. inversion E; subst g s; clear E.
    assert (Z0 : r1 = 0) by (cbn in Hm; nia). rewrite Z0.
    rewrite Z.gcd_0_r, Z.abs_eq by lia. split; [reflexivity|]. now exists t0.
  - cbn [egcd_fuel] in E. destruct (Z.eqb_spec r1 0) as [Z0|NZ].
    + inversion E; subst g s; clear E. rewrite Z0.
      rewrite Z.gcd_0_r, Z.abs_eq by lia. split; [reflexivity|]. now exists t0.
    + assert (Hmod : r0 - r0 / r1 * r1 = r0 mod r1) by (rewrite Z.mod_eq by lia; lia).
      rewrite Hmod in E.
      pose proof (Z.mod_pos_bound r0 r1 ltac:(lia)) as Bm.
      apply IH in E.
      * destruct E as [Eg Et]. split; [|exact Et].
        rewrite Eg. rewrite (Z.gcd_comm r1), Z.gcd_mod by lia. apply Z.gcd_comm.
      * lia.
      * rewrite Nat2Z.inj_succ, Z.pow_succ_r in Hm by lia.
        pose proof (Z.div_mod r0 r1 NZ) as DM.
        assert (1 <= r0 / r1) by (apply Z.div_le_lower_bound; lia).
        nia.
      * now exists t1.
      * exists (t0 - r0 / r1 * t1). rewrite <- Hmod. rewrite H0 at 1. rewrite H1 at 2. ring.
Qed.

Lemma invm_run (a p : Z) : 0 < p ->
  exists g s, egcd_fuel (S (2 * Z.to_nat (Z.log2_up p + 1))) (a mod p) p 1 0 = (g, s) /\
              g = Z.gcd (a mod p) p /\ exists t, g = s * (a mod p) + t * p.
Proof.
  intros Hp.
  pose proof (Z.mod_pos_bound a p Hp) as Ba.
  cbn [egcd_fuel]. destruct (Z.eqb_spec p 0) as [|_]; [lia|].
  rewrite Z.div_small by lia.
  replace (a mod p - 0 * p) with (a mod p) by lia.
  replace (1 - 0 * 0) with 1 by lia.
  destruct (egcd_fuel (2 * Z.to_nat (Z.log2_up p + 1)) p (a mod p) 0 1) as [g s] eqn:E.
  exists g, s. split; [reflexivity|].
  apply (egcd_fuel_spec (a mod p) p) in E.
  - destruct E as [Eg Et]. split; [rewrite Eg; apply Z.gcd_comm|exact Et].
  - lia.
  - pose proof (Z.log2_up_nonneg p) as Hl.
    assert (Hb : p <= 2 ^ Z.log2_up p).
    { destruct (Z.eq_dec p 1) as [->|]; [cbn; lia|]. apply Z.log2_up_spec. lia. }
    rewrite Nat2Z.inj_mul, Z2Nat.id by lia.
    replace (Z.of_nat 2 * (Z.log2_up p + 1)) with (Z.log2_up p + Z.log2_up p + 2) by lia.
    rewrite !Z.pow_add_r by lia. change (2 ^ 2) with 4. nia.
  - exists 1. lia.
  - exists 0. lia.
Qed.

(* Some x: x is the inverse in [0,p) *)
Theorem invm_some (a p x : Z) : invm a p = Some x -> 0 < p /\ 0 <= x < p /\ (a * x) mod p = 1 mod p.
Proof.
  unfold invm. destruct (Z.leb_spec p 0) as [|Hp]; [discriminate|].
  destruct (invm_run a p Hp) as (g & s & E & Eg & t & Et). rewrite E.
  destruct (Z.eqb_spec g 1) as [G1|G1].
  - intros H; inversion H; subst x; clear H. split; [assumption|]. split; [now apply Z.mod_pos_bound|].
    rewrite Zmult_mod_idemp_r. rewrite <- (Zmult_mod_idemp_l a).
    replace (a mod p * s) with (1 + (- t) * p) by lia.
    now rewrite Z.mod_add by lia.
  - destruct (Z.eqb_spec p 1) as [->|]; [|discriminate].
    intros H; inversion H; subst x. rewrite !Z.mod_1_r. lia.
Qed.

Theorem invm_none (a p : Z) : 0 < p -> (invm a p = None <-> Z.gcd a p <> 1).
Proof.
  intros Hp. unfold invm. destruct (Z.leb_spec p 0) as [|_]; [lia|].
  destruct (invm_run a p Hp) as (g & s & E & Eg & _). rewrite E.
  assert (GG : Z.gcd (a mod p) p = Z.gcd a p).
  { rewrite Z.gcd_mod by lia. apply Z.gcd_comm. }
  rewrite GG in Eg. subst g.
  destruct (Z.eqb_spec (Z.gcd a p) 1) as [G1|G1].
  - split; [discriminate|congruence].
  - destruct (Z.eqb_spec p 1) as [->|].
    + rewrite Z.gcd_1_r in G1. congruence.
    + split; [auto|reflexivity].
Qed.

Corollary invm_coprime (a p : Z) : 0 < p -> Z.gcd a p = 1 -> exists x, invm a p = Some x.
Proof.
  intros Hp G. destruct (invm a p) eqn:E; [eauto|]. apply invm_none in E; [contradiction|assumption].
Qed.

Lemma inverse_gcd (a x p : Z) : 1 < p -> (a * x) mod p = 1 -> Z.gcd a p = 1.
Proof.
  intros Hp H.
  assert (B : a * x + (- (a * x / p)) * p = 1).
  { pose proof (Z.div_mod (a * x) p ltac:(lia)). lia. }
  apply Zgcd_1_rel_prime. apply bezout_rel_prime. apply (Bezout_intro a p 1 x (- (a * x / p))). lia.
Qed.

(* inverses are unique modulo p *)
Lemma inverse_unique (a x y p : Z) : 0 < p -> (a * x) mod p = 1 mod p -> (a * y) mod p = 1 mod p ->
  x mod p = y mod p.
Proof.
  intros Hp Hx Hy.
  assert (E1 : ((x * a) * y) mod p = y mod p).
  { rewrite <- Zmult_mod_idemp_l, (Z.mul_comm x a), Hx, Zmult_mod_idemp_l. f_equal. lia. }
  assert (E2 : (x * (a * y)) mod p = x mod p).
  { rewrite <- Zmult_mod_idemp_r, Hy, Zmult_mod_idemp_r. f_equal. lia. }
  rewrite <- E1, <- E2. f_equal. ring.
Qed.

(* multiply by a value and its inverse: nothing happens *)
Lemma cancel_pair (r a i p : Z) : 0 < p -> (a * i) mod p = 1 mod p ->
  (((r * a) mod p) * i) mod p = r mod p.
Proof.
  intros Hp H. rewrite Zmult_mod_idemp_l. rewrite <- Z.mul_assoc.
  rewrite <- Zmult_mod_idemp_r, H, Zmult_mod_idemp_r. f_equal. lia.
Qed.

Lemma cancel_pair' (r a i p : Z) : 0 < p -> (a * i) mod p = 1 mod p ->
  (((r * i) mod p) * a) mod p = r mod p.
Proof.
  intros Hp H. rewrite Zmult_mod_idemp_l. rewrite <- Z.mul_assoc, (Z.mul_comm i a).
  rewrite <- Zmult_mod_idemp_r, H, Zmult_mod_idemp_r. f_equal. lia.
Qed.

Lemma dummy_pair_cancel (d p r : Z) : 0 < p ->
  let '(d', i) := dummy_pair d p in (((r * d') mod p) * i) mod p = r mod p.
Proof.
  intros Hp. unfold dummy_pair. destruct (invm d p) as [i|] eqn:E.
  - apply invm_some in E. apply cancel_pair; tauto.
  - rewrite !Z.mul_1_r. now rewrite Zmod_mod.
Qed.

Lemma invm_of_inverse (a i p : Z) : invm a p = Some i -> exists j, invm i p = Some j.
Proof.
  intros E. apply invm_some in E. destruct E as (Hp & Hi & H).
  apply invm_coprime; [assumption|].
  destruct (Z.eq_dec p 1) as [->|]; [apply Z.gcd_1_r|].
  apply (inverse_gcd i a); [lia|]. rewrite Z.mul_comm, H. apply Z.mod_1_l. lia.
Qed.

(* ---- tmcg_mpz_spowm -------------------------------------------------------------------------- *)
Lemma spowm_chain (baz foo p : Z) : invm baz p = Some foo ->
  forall r0 bar, exists xx2 xx4,
    invm foo p = Some xx2 /\ invm baz p = Some xx4 /\
    (let res := (r0 * foo) mod p in
     let res := (res * xx2) mod p in
     let '(bar', xx3) := dummy_pair bar p in
     let res := (res * bar') mod p in
     let res := (res * xx3) mod p in
     let res := (res * baz) mod p in
     (res * xx4) mod p) = r0 mod p.
Proof.
  intros E r0 bar. destruct (invm_of_inverse _ _ _ E) as [xx2 E2].
  exists xx2, foo. split; [assumption|]. split; [assumption|].
  pose proof (invm_some _ _ _ E) as (Hp & _ & H1).
  pose proof (invm_some _ _ _ E2) as (_ & _ & H2).
  cbv zeta.
  pose proof (dummy_pair_cancel bar p ((r0 * foo) mod p * xx2 mod p) Hp) as D.
  destruct (dummy_pair bar p) as [bar' xx3].
  rewrite (cancel_pair _ baz foo p Hp H1). rewrite D.
  rewrite !Zmod_mod. apply cancel_pair; assumption.
Qed.

Theorem spowm_ok (m x p : Z) : 0 < p -> Z.odd p = true -> Z.gcd m p = 1 ->
  exists r, spowm m x p = Ok r /\ powm_ref m x p = Some r.
Proof.
  intros Hp Hodd G. unfold spowm, powm_ref.
  rewrite <- Z.negb_odd, Hodd. cbn [negb].
  set (xx := if Z.sgn x =? 0 then 1 else Z.abs x).
  assert (Hxx : 0 < xx) by (unfold xx; destruct x; cbn; lia).
  assert (Gb : Z.gcd (powm m xx p) p = 1).
  { rewrite powm_spec by lia. rewrite Z.gcd_mod by lia. rewrite Z.gcd_comm.
    apply Zgcd_1_rel_prime. apply rel_prime_sym. apply rel_prime_Zpower_r; [lia|].
    apply rel_prime_sym. now apply Zgcd_1_rel_prime. }
  destruct (invm_coprime _ _ Hp Gb) as [foo E]. rewrite E.
  set (r0 := if Z.sgn x =? -1 then foo else if Z.sgn x =? 1 then powm m xx p else xx).
  destruct (spowm_chain _ _ _ E r0 (if Z.sgn x =? 1 then - x else -1)) as (xx2 & xx4 & E2 & E4 & C).
  rewrite E2. cbv zeta in C. rewrite E in E4. inversion E4; subst xx4; clear E4.
  destruct (dummy_pair (if Z.sgn x =? 1 then - x else -1) p) as [bar' xx3].
  exists (r0 mod p). split; [now rewrite C|].
  pose proof (invm_some _ _ _ E) as (_ & Rf & _).
  unfold r0, xx in *. destruct x as [|x|x]; cbn [Z.sgn Z.eqb Z.ltb Z.compare Pos.eqb Z.abs Z.opp] in *.
  - reflexivity.
  - rewrite Z.mod_small; [reflexivity|]. apply powm_range; lia.
  - rewrite Z.mod_small by lia. exact E.
Qed.

Lemma powm_ref_spec (m x p r : Z) : 0 < p -> powm_ref m x p = Some r ->
  0 <= r < p /\ (0 <= x -> r = m ^ x mod p) /\ (x < 0 -> (r * m ^ (- x)) mod p = 1 mod p).
Proof.
  intros Hp. unfold powm_ref. destruct (Z.ltb_spec x 0) as [N|N].
  - intros E. apply invm_some in E. destruct E as (_ & R & H). split; [assumption|]. split; [lia|].
    intros _. rewrite powm_spec in H by lia. rewrite Zmult_mod_idemp_l in H. now rewrite Z.mul_comm.
  - intros E. inversion E; subst r. split; [apply powm_range; lia|]. split; [|lia].
    intros _. apply powm_spec; lia.
Qed.

(* ---- square tables ----------------------------------------------------------------------------- *)
Lemma size_nat_size (e : positive) : Z.of_nat (Pos.size_nat e) = Zpos (Pos.size e).
Proof.
  induction e as [e IH|e IH|]; cbn [Pos.size_nat Pos.size]; try reflexivity;
    rewrite Nat2Z.inj_succ, IH, Pos2Z.inj_succ; reflexivity.
Qed.

Lemma bitlen_pos (e : positive) : bitlen (Zpos e) = Z.of_nat (Pos.size_nat e).
Proof.
  unfold bitlen. cbn [Z.eqb Z.abs]. rewrite size_nat_size.
  destruct e; cbn [Z.log2 Pos.size]; rewrite ?Pos2Z.inj_succ; lia.
Qed.

Lemma bitlen_abs (x : Z) : bitlen (Z.abs x) = bitlen x.
Proof. unfold bitlen. rewrite Z.abs_involutive. destruct x; reflexivity. Qed.

Lemma max_pos : 1 <= TMCG_MAX_FPOWM_T.
Proof. unfold TMCG_MAX_FPOWM_T. lia. Qed.
Lemma max_ge_64 : 64 <= TMCG_MAX_FPOWM_T.   (* an unsigned long always fits: the size check of fpowm_ui is dead *)
Proof. unfold TMCG_MAX_FPOWM_T. lia. Qed.
Global Opaque TMCG_MAX_FPOWM_T.   (* never compute Z.to_nat of the table size *)

Lemma sq_step (r c p : Z) (e : positive) : 0 < p ->
  (r * ((c * c) mod p) ^ Zpos e) mod p = (r * c ^ Zpos e~0) mod p.
Proof.
  intros Hp. rewrite <- Zmult_mod_idemp_r, pow_mod_base, Zmult_mod_idemp_r by lia.
  f_equal. f_equal. rewrite Pos2Z.inj_xO, Z.pow_mul_r, Z.pow_2_r by lia. reflexivity.
Qed.

Lemma fp_loop_spec (p : Z) : 0 < p -> forall e n cur res rest,
  (Pos.size_nat e <= n)%nat ->
  fp_loop (sqtab n cur p ++ rest) e res p = Some ((res * cur ^ Zpos e) mod p).
Proof.
  intros Hp. induction e as [e IH|e IH|]; intros n cur res rest Hn;
    (destruct n as [|n]; [cbn [Pos.size_nat] in Hn; lia|]); cbn [sqtab app fp_loop].
  - rewrite IH by (cbn [Pos.size_nat] in Hn; lia). f_equal.
    rewrite sq_step, Zmult_mod_idemp_l by lia. f_equal.
    rewrite Pos2Z.inj_xI, Pos2Z.inj_xO, Z.pow_add_r, Z.pow_1_r by lia. ring.
  - rewrite IH by (cbn [Pos.size_nat] in Hn; lia). f_equal. now apply sq_step.
  - now rewrite Z.pow_1_r.
Qed.

Lemma fsp_loop_spec (p : Z) : 0 < p -> forall e n cur res bar rest,
  (Pos.size_nat e <= n)%nat ->
  exists bar', fsp_loop (sqtab n cur p ++ rest) e res bar p = Some ((res * cur ^ Zpos e) mod p, bar').
Proof.
  intros Hp. induction e as [e IH|e IH|]; intros n cur res bar rest Hn;
    (destruct n as [|n]; [cbn [Pos.size_nat] in Hn; lia|]); cbn [sqtab app fsp_loop].
  - destruct (IH n ((cur * cur) mod p) ((res * cur) mod p) (bar + (res * cur) mod p) rest) as [b' E];
      [cbn [Pos.size_nat] in Hn; lia|].
    exists b'. rewrite E. f_equal. f_equal.
    rewrite sq_step, Zmult_mod_idemp_l by lia. f_equal.
    rewrite Pos2Z.inj_xI, Pos2Z.inj_xO, Z.pow_add_r, Z.pow_1_r by lia. ring.
  - destruct (IH n ((cur * cur) mod p) res ((res * cur) mod p) rest) as [b' E];
      [cbn [Pos.size_nat] in Hn; lia|].
    exists b'. rewrite E. f_equal. f_equal. now apply sq_step.
  - eexists. now rewrite Z.pow_1_r.
Qed.

Lemma filled_ge (t x : Z) : bitlen x <= Z.min t TMCG_MAX_FPOWM_T ->
  forall e, Z.abs x = Zpos e -> (Pos.size_nat e <= filled t)%nat.
Proof.
  intros H e E. rewrite <- bitlen_abs, E, bitlen_pos in H. unfold filled. lia.
Qed.

Lemma precompute_head (m p t : Z) (tab : list Z) : fpowm_precompute m p t = Some tab ->
  p <> 0 /\ exists tl, tab = m :: tl /\
  tab = sqtab (filled t) m p ++ repeat 0 (Z.to_nat TMCG_MAX_FPOWM_T - filled t).
Proof.
  unfold fpowm_precompute. destruct (Z.eqb_spec p 0) as [|NZ]; [discriminate|].
  intros H; injection H as <-. split; [assumption|].
  assert (F : exists k, filled t = S k).
  { unfold filled. pose proof max_pos. exists (Nat.pred (Z.to_nat (Z.max 1 (Z.min t TMCG_MAX_FPOWM_T)))). lia. }
  destruct F as [k ->]. cbn [sqtab app]. eauto.
Qed.

Lemma precompute_length (m p t : Z) (tab : list Z) : fpowm_precompute m p t = Some tab ->
  length tab = Z.to_nat TMCG_MAX_FPOWM_T.
Proof.
  intros H. apply precompute_head in H. destruct H as (_ & _ & _ & ->).
  rewrite app_length, repeat_length.
  assert (length (sqtab (filled t) m p) = filled t).
  { generalize (filled t) m. induction n; intros; cbn [sqtab length]; [reflexivity|now rewrite IHn]. }
  assert (filled t <= Z.to_nat TMCG_MAX_FPOWM_T)%nat by (unfold filled; pose proof max_pos; lia).
  lia.
Qed.

Lemma invm_1 (p : Z) : 1 < p -> invm 1 p = Some 1.
Proof.
  intros Hp. destruct (invm_coprime 1 p ltac:(lia) (Z.gcd_1_l p)) as [i E]. rewrite E.
  apply invm_some in E. destruct E as (_ & R & H). rewrite Z.mul_1_l in H.
  rewrite Z.mod_small, Z.mod_1_l in H by lia. now subst i.
Qed.

(* ---- tmcg_mpz_fpowm / fpowm_ui / fspowm ------------------------------------------------------- *)
Definition outcome_of (o : option Z) : outcome := match o with Some r => Ok r | None => ThrowInvert end.

Theorem fpowm_eq (m x p t : Z) (tab : list Z) : 1 < p ->
  fpowm_precompute m p t = Some tab -> bitlen x <= Z.min t TMCG_MAX_FPOWM_T ->
  fpowm tab m x p = outcome_of (powm_ref m x p).
Proof.
  intros Hp Ht Hb. pose proof (filled_ge _ _ Hb) as Hf.
  destruct (precompute_head _ _ _ _ Ht) as (_ & tl & E1 & E2).
  unfold fpowm, powm_ref. rewrite E1 at 1. rewrite Z.eqb_refl. cbn [negb].
  destruct (Z.leb_spec (bitlen x) TMCG_MAX_FPOWM_T) as [_|]; [|lia].
  destruct x as [|e|e]; cbn [Z.abs Z.ltb Z.compare Z.opp outcome_of] in *.
  - cbn [powm]. now rewrite Z.mod_1_l by lia.
  - rewrite E2, fp_loop_spec by (try apply Hf; try reflexivity; lia).
    rewrite Z.mul_1_l. cbn [outcome_of]. now rewrite powm_spec by lia.
  - rewrite E2, fp_loop_spec by (try apply Hf; try reflexivity; lia).
    rewrite Z.mul_1_l. rewrite powm_spec by lia.
    destruct (invm (m ^ Z.pos e mod p) p); reflexivity.
Qed.

Theorem fpowm_ui_eq (m x p t : Z) (tab : list Z) : 1 < p -> 0 <= x ->
  fpowm_precompute m p t = Some tab -> bitlen x <= Z.min t TMCG_MAX_FPOWM_T ->
  fpowm_ui tab m x p = Ok (m ^ x mod p).
Proof.
  intros Hp Hx Ht Hb. pose proof (filled_ge _ _ Hb) as Hf.
  destruct (precompute_head _ _ _ _ Ht) as (_ & tl & E1 & E2).
  unfold fpowm_ui. rewrite E1 at 1. rewrite Z.eqb_refl. cbn [negb].
  destruct (Z.leb_spec (bitlen x) TMCG_MAX_FPOWM_T) as [_|]; [|lia].
  destruct x as [|e|e]; cbn [Z.abs] in *; [now rewrite Z.mod_1_l by lia| |lia].
  rewrite E2, fp_loop_spec by (try apply Hf; try reflexivity; lia).
  now rewrite Z.mul_1_l.
Qed.

Theorem fspowm_eq (m x p t : Z) (tab : list Z) : 1 < p ->
  fpowm_precompute m p t = Some tab -> bitlen x <= Z.min t TMCG_MAX_FPOWM_T ->
  fspowm tab m x p =
    match invm (powm m (Z.abs x) p) p with
    | None => ThrowInvert
    | Some i => Ok (if x <? 0 then i else powm m x p)
    end.
Proof.
  intros Hp Ht Hb. pose proof (filled_ge _ _ Hb) as Hf.
  destruct (precompute_head _ _ _ _ Ht) as (_ & tl & E1 & E2).
  unfold fspowm. rewrite E1 at 1. rewrite Z.eqb_refl. cbn [negb].
  destruct (Z.leb_spec (bitlen x) TMCG_MAX_FPOWM_T) as [_|]; [|lia].
  assert (St : exists bar,
    match Z.abs x with
    | Z.pos e => fsp_loop tab e 1 (if x <? 0 then 0 else - x) p
    | _ => Some (1, (1 * m) mod p)
    end = Some (powm m (Z.abs x) p, bar)).
  { destruct (Z.abs x) as [|e|e] eqn:EA.
    - eexists. cbn [powm]. now rewrite Z.mod_1_l by lia.
    - destruct (fsp_loop_spec p ltac:(lia) e (filled t) m 1 (if x <? 0 then 0 else - x)
                  (repeat 0 (Z.to_nat TMCG_MAX_FPOWM_T - filled t))) as [b' E]; [now apply Hf|].
      exists b'. rewrite E2, E, Z.mul_1_l. now rewrite powm_spec by lia.
    - lia. }
  destruct St as [bar St]. rewrite St.
  destruct (invm (powm m (Z.abs x) p) p) as [foo|] eqn:EI; [|reflexivity].
  pose proof (invm_some _ _ _ EI) as (_ & Rf & _).
  pose proof (powm_range m (Z.abs x) p ltac:(lia) (Z.abs_nonneg x)) as Rp.
  set (baz := if x <? 0 then powm m (Z.abs x) p else foo).
  set (res := if x <? 0 then foo else powm m (Z.abs x) p).
  pose proof (dummy_pair_cancel bar p res ltac:(lia)) as D1.
  destruct (dummy_pair bar p) as [bar' foo1].
  pose proof (dummy_pair_cancel baz p res ltac:(lia)) as D2.
  destruct (dummy_pair baz p) as [baz' foo2].
  rewrite (Z.mul_comm bar' res), D1. rewrite Zmult_mod_idemp_r, (Z.mul_comm baz' res), D2.
  f_equal. unfold res. destruct (Z.ltb_spec x 0); rewrite Z.mod_small by lia; [reflexivity|].
  now rewrite Z.abs_eq by lia.
Qed.

Lemma gcd_powm (m e p : Z) : 0 < p -> 0 <= e -> Z.gcd m p = 1 -> Z.gcd (powm m e p) p = 1.
Proof.
  intros Hp He G. rewrite powm_spec by lia. rewrite Z.gcd_mod by lia. rewrite Z.gcd_comm.
  apply Zgcd_1_rel_prime. apply rel_prime_sym. apply rel_prime_Zpower_r; [lia|].
  apply rel_prime_sym. now apply Zgcd_1_rel_prime.
Qed.

Lemma powm_ref_some (m x p : Z) : 0 < p -> Z.gcd m p = 1 -> exists r, powm_ref m x p = Some r.
Proof.
  intros Hp G. unfold powm_ref. destruct (Z.ltb_spec x 0); [|eauto].
  apply invm_coprime; [assumption|]. apply gcd_powm; lia.
Qed.

Corollary fspowm_ok (m x p t : Z) (tab : list Z) : 1 < p -> Z.gcd m p = 1 ->
  fpowm_precompute m p t = Some tab -> bitlen x <= Z.min t TMCG_MAX_FPOWM_T ->
  exists r, fspowm tab m x p = Ok r /\ powm_ref m x p = Some r.
Proof.
  intros Hp G Ht Hb. rewrite (fspowm_eq m x p t tab Hp Ht Hb). unfold powm_ref.
  pose proof (gcd_powm m (Z.abs x) p ltac:(lia) (Z.abs_nonneg x) G) as Gb.
  destruct (invm_coprime (powm m (Z.abs x) p) p ltac:(lia) Gb) as [i E]. rewrite E.
  destruct (Z.ltb_spec x 0).
  - exists i. split; [reflexivity|]. now rewrite <- Z.abs_neq by lia.
  - eexists; split; reflexivity.
Qed.

Corollary fpowm_ok (m x p t : Z) (tab : list Z) : 1 < p -> Z.gcd m p = 1 ->
  fpowm_precompute m p t = Some tab -> bitlen x <= Z.min t TMCG_MAX_FPOWM_T ->
  exists r, fpowm tab m x p = Ok r /\ powm_ref m x p = Some r.
Proof.
  intros Hp G Ht Hb. rewrite (fpowm_eq m x p t tab Hp Ht Hb).
  destruct (powm_ref_some m x p ltac:(lia) G) as [r E]. rewrite E. exists r. split; reflexivity.
Qed.

(* ---- throwing cases ---------------------------------------------------------------------------- *)
Theorem wrong_base_throws (m m' x p t : Z) (tab : list Z) :
  fpowm_precompute m' p t = Some tab -> m <> m' ->
  fpowm tab m x p = ThrowWrongBase /\ fpowm_ui tab m x p = ThrowWrongBase /\ fspowm tab m x p = ThrowWrongBase.
Proof.
  intros Ht Hm. destruct (precompute_head _ _ _ _ Ht) as (_ & tl & -> & _).
  unfold fpowm, fpowm_ui, fspowm. destruct (Z.eqb_spec m m'); [contradiction|]. cbn [negb]. auto.
Qed.

Theorem too_large_throws (m x p t : Z) (tab : list Z) :
  fpowm_precompute m p t = Some tab -> TMCG_MAX_FPOWM_T < bitlen x ->
  fpowm tab m x p = ThrowTooLarge /\ fspowm tab m x p = ThrowTooLarge.
Proof.
  intros Ht Hb. destruct (precompute_head _ _ _ _ Ht) as (_ & tl & -> & _).
  unfold fpowm, fspowm. rewrite Z.eqb_refl. cbn [negb].
  destruct (Z.leb_spec (bitlen x) TMCG_MAX_FPOWM_T); [lia|]. auto.
Qed.

Theorem spowm_even_throws (m x p : Z) : Z.even p = true -> spowm m x p = ThrowEven.
Proof. intros H. unfold spowm. now rewrite H. Qed.

(* ---- the gap: table shorter than the exponent, exponent within the global limit ----------------- *)
Lemma fp_loop_zeros (p : Z) : forall e k res, (Pos.size_nat e <= k)%nat ->
  fp_loop (repeat 0 k) e res p = Some 0.
Proof.
  induction e as [e IH|e IH|]; intros k res Hk;
    (destruct k as [|k]; [cbn [Pos.size_nat] in Hk; lia|]); cbn [repeat fp_loop].
  - apply IH. cbn [Pos.size_nat] in Hk; lia.
  - apply IH. cbn [Pos.size_nat] in Hk; lia.
  - now rewrite Z.mul_0_r, Zmod_0_l.
Qed.

Lemma fp_loop_gap (p : Z) : forall e n k cur res, (n < Pos.size_nat e)%nat -> (Pos.size_nat e <= n + k)%nat ->
  fp_loop (sqtab n cur p ++ repeat 0 k) e res p = Some 0.
Proof.
  induction e as [e IH|e IH|]; intros n k cur res H1 H2.
  - destruct n as [|n]; [apply fp_loop_zeros; lia|]. cbn [sqtab app fp_loop].
    apply IH; cbn [Pos.size_nat] in *; lia.
  - destruct n as [|n]; [apply fp_loop_zeros; lia|]. cbn [sqtab app fp_loop].
    apply IH; cbn [Pos.size_nat] in *; lia.
  - destruct n as [|n]; [apply fp_loop_zeros; lia|]. cbn [Pos.size_nat] in H1. lia.
Qed.

(* a positive exponent longer than the table but within TMCG_MAX_FPOWM_T silently yields 0 *)
Theorem fpowm_gap_zero (m x p t : Z) (tab : list Z) :
  fpowm_precompute m p t = Some tab -> 1 <= t -> 0 < x -> t < bitlen x <= TMCG_MAX_FPOWM_T ->
  fpowm tab m x p = Ok 0 /\ fpowm_ui tab m x p = Ok 0.
Proof.
  intros Ht H1 Hx Hb. destruct (precompute_head _ _ _ _ Ht) as (_ & tl & E1 & E2).
  unfold fpowm, fpowm_ui. rewrite E1 at 1 2. rewrite Z.eqb_refl. cbn [negb].
  destruct (Z.leb_spec (bitlen x) TMCG_MAX_FPOWM_T) as [_|]; [|lia].
  destruct x as [|e|e]; try lia. cbn [Z.abs Z.ltb Z.compare].
  rewrite bitlen_pos in Hb. pose proof max_pos.
  rewrite E2, fp_loop_gap; [auto| |]; unfold filled; lia.
Qed.

Theorem fpowm_gap_refuted :
  exists m x p t tab, 1 < p /\ Z.gcd m p = 1 /\ fpowm_precompute m p t = Some tab /\ 1 <= t /\
    bitlen x <= TMCG_MAX_FPOWM_T /\ 0 < x /\
    fpowm tab m x p = Ok 0 /\ m ^ x mod p <> 0.
Proof.
  exists 2, 2, 7, 1. eexists. split; [lia|]. split; [reflexivity|]. split; [reflexivity|].
  split; [lia|]. pose proof max_ge_64. split; [cbn; lia|]. split; [lia|]. split; [|cbn; lia].
  apply (fpowm_gap_zero 2 2 7 1); [reflexivity|lia|lia|cbn; lia].
Qed.
