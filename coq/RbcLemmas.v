(* RbcLemmas: single-party lemmas about RbcModel (C14): what one call of Deliver / DeliverFrom can do to the
   channel, the FIFO counters and the per-sender buffers; FIFO order and no duplicates on a channel; channel
   isolation; counter recovery. *)
From Coq Require Import ZArith List Bool Lia.
From LT Require Import RbcModel.
Import ListNotations.
Local Open Scope Z_scope.

(* ---- reflection helpers ------------------------------------------------------------------ *)
Lemma tag_eqb_eq : forall a b, tag_eqb a b = true <-> a = b.
Proof.
  intros [[a1 a2] a3] [[b1 b2] b3]; unfold tag_eqb.
  rewrite !andb_true_iff, !Z.eqb_eq. split.
  - intros [[-> ->] ->]; reflexivity.
  - intros E; inversion E; auto.
Qed.
Lemma tag_eqb_refl : forall a, tag_eqb a a = true.
Proof. intros; apply tag_eqb_eq; reflexivity. Qed.
Lemma tag_eqb_neq : forall a b, tag_eqb a b = false <-> a <> b.
Proof.
  intros a b. destruct (tag_eqb a b) eqn:E.
  - apply tag_eqb_eq in E. split; congruence.
  - split; auto. intros _ E2. apply tag_eqb_eq in E2. congruence.
Qed.

Lemma updZ_same : forall A (f : Z -> A) k v, updZ f k v k = v.
Proof. intros; unfold updZ; rewrite Z.eqb_refl; reflexivity. Qed.
Lemma updZ_other : forall A (f : Z -> A) k v x, x <> k -> updZ f k v x = f x.
Proof. intros; unfold updZ. destruct (Z.eqb_spec x k); congruence. Qed.

(* destruct every if / match scrutinee in the goal *)
Ltac break :=
  repeat match goal with
  | |- context [if ?b then _ else _] => destruct b eqn:?
  | |- context [match ?x with _ => _ end] => destruct x eqn:?
  end.

Section Local.
Variables (n t skip : Z) (H : Z -> Z) (toolong : tagT -> Z -> bool).
Notation handle := (handle n t H toolong).
Notation buffer_phase := (buffer_phase n skip).
Notation deliver := (deliver n t skip H toolong).
Notation deliver_from := (deliver_from n t skip H toolong).

(* the part of the state the ordering / isolation arguments look at *)
Definition same_chan (a b : pst) : Prop :=
  cur a = cur b /\ sq a = sq b /\ fifo a = fifo b /\ stack a = stack b /\ recov a = recov b /\ fbuf a = fbuf b.

Lemma same_chan_refl : forall a, same_chan a a.
Proof. intros; repeat split. Qed.
Lemma same_chan_trans : forall a b c, same_chan a b -> same_chan b c -> same_chan a c.
Proof. unfold same_chan; intros a b c (?&?&?&?&?&?) (?&?&?&?&?&?); repeat split; congruence. Qed.

(* ---- try_deliver --------------------------------------------------------------------------- *)
Lemma try_deliver_spec : forall st tg st' r, try_deliver st tg = (st', r) ->
  same_chan st st' /\ mbar st' = mbar st /\
  match r with
  | RDeliver who tg' v =>
      tg' = tg /\ (exists s, tg = (cur st, who, s) /\ (fifo st = true -> s = dls st who)) /\
      mbar st tg = Some v /\ dls st' = updZ (dls st) who (dls st who + 1) /\ dbuf st' = dbuf st
  | RNone => dls st' = dls st /\ dbuf st' = dbuf st ++ [tg]
  | RThrow => st' = st
  end.
Proof.
  intros st [[id who] s] st' r. unfold try_deliver.
  destruct ((id =? cur st) && (fifo st && (s =? dls st who) || negb (fifo st))) eqn:C.
  - destruct (mbar st (id, who, s)) eqn:M; intros E; inversion E; subst; clear E.
    + apply andb_true_iff in C. destruct C as [C1 C2]. apply Z.eqb_eq in C1. subst id.
      split; [repeat split|]. split; [reflexivity|]. split; [reflexivity|]. split; [|repeat split; assumption].
      exists s. split; [reflexivity|].
      intros F. rewrite F in C2. cbn in C2. rewrite orb_false_r in C2. apply Z.eqb_eq in C2. exact C2.
    + split; [apply same_chan_refl|]. split; reflexivity.
  - intros E; inversion E; subst; clear E. split; [repeat split|]. split; [reflexivity|]. split; reflexivity.
Qed.

(* ---- the deliver-buffer phase ------------------------------------------------------------------ *)
(* what the buffer phase may change besides dls / dbuf / derr: only retrieve filters, and only towards true *)
Definition frame (st st' : pst) : Prop :=
  same_chan st st' /\ mbar st' = mbar st /\ dbar st' = dbar st /\ ed st' = ed st /\ rd st' = rd st /\ rbuf st' = rbuf st /\
  (forall k l tg, filt st k l tg = true -> filt st' k l tg = true) /\
  (forall k l tg, filt st' k l tg = true -> filt st k l tg = true \/ k = FRetrieve).

Lemma frame_refl : forall a, frame a a.
Proof. intros; unfold frame; repeat split; auto. Qed.
Lemma frame_trans : forall a b c, frame a b -> frame b c -> frame a c.
Proof.
  unfold frame; intros a b c (S1&?&?&?&?&?&F1&G1) (S2&?&?&?&?&?&F2&G2).
  split; [eapply same_chan_trans; eauto|]. repeat split; try congruence; auto.
  intros k l tg E. destruct (G2 _ _ _ E); auto.
Qed.

Definition all_act6 (l : list (Z * msg)) : Prop := Forall (fun dm => m_act (snd dm) = 6) l.

Lemma fset_mono : forall f k l tg k' l' tg', f k' l' tg' = true -> fset f k l tg k' l' tg' = true.
Proof. intros; unfold fset. destruct (_ && _ && _); auto. Qed.
Lemma fset_inv : forall f k l tg k' l' tg', fset f k l tg k' l' tg' = true ->
  f k' l' tg' = true \/ (k' = k /\ l' = l /\ tg' = tg).
Proof.
  intros f k l tg k' l' tg'. unfold fset.
  destruct (fkind_eqb k' k && (l' =? l) && tag_eqb tg' tg) eqn:E; auto.
  intros _. right. apply andb_true_iff in E. destruct E as [E E3]. apply andb_true_iff in E. destruct E as [E1 E2].
  apply Z.eqb_eq in E2. apply tag_eqb_eq in E3. repeat split; auto. destruct k', k; cbn in E1; congruence.
Qed.
Lemma fset_same : forall f k l tg, fset f k l tg k l tg = true.
Proof. intros; unfold fset. rewrite Z.eqb_refl, tag_eqb_refl. destruct k; reflexivity. Qed.

Lemma retr_inner_spec : forall me tg m, m_act m = 6 -> forall is st sent cnt st' sent' cnt',
  retr_inner me tg m is st sent cnt = (st', sent', cnt') ->
  frame st st' /\ dls st' = dls st /\ dbuf st' = dbuf st /\ (all_act6 sent -> all_act6 sent').
Proof.
  intros me tg m Hm. induction is as [|i r IH]; intros st sent cnt st' sent' cnt'; cbn [retr_inner].
  - intros E; inversion E; subst. split; [apply frame_refl|]. auto.
  - destruct ((i =? me) || filt st FDeliver i tg || filt st FRetrieve i tg).
    + apply IH.
    + intros E. apply IH in E. destruct E as (F & D & B & A).
      split; [|split; [exact D|split; [exact B|]]].
      * eapply frame_trans; [|exact F]. unfold frame; cbn. split; [repeat split|]. repeat split; auto.
        -- intros; apply fset_mono; auto.
        -- intros k l tg' E. apply fset_inv in E. destruct E as [E|(E&_)]; auto.
      * intros A0. apply A. unfold all_act6. apply Forall_app. split; auto.
Qed.

Lemma retr_loop_spec : forall fuel me who foo mn st sent cnt st' sent' cnt',
  retr_loop n fuel me who foo mn st sent cnt = (st', sent', cnt') ->
  frame st st' /\ dls st' = dls st /\ dbuf st' = dbuf st /\ (all_act6 sent -> all_act6 sent').
Proof.
  induction fuel as [|f IH]; intros me who foo mn st sent cnt st' sent' cnt'; cbn [retr_loop].
  - intros E; inversion E; subst. split; [apply frame_refl|]. auto.
  - destruct ((foo <? mn) && (cnt <? 40)).
    + destruct (retr_inner me (cur st, who, foo) (Msg (cur st) who foo 6 6) (range n) st sent cnt) as [[st1 sent1] cnt1] eqn:R.
      apply retr_inner_spec in R; [|reflexivity]. destruct R as (F1 & D1 & B1 & A1).
      intros E. apply IH in E. destruct E as (F2 & D2 & B2 & A2).
      split; [eapply frame_trans; eauto|]. repeat split; try congruence; auto.
    + intros E; inversion E; subst. split; [apply frame_refl|]. auto.
Qed.

Lemma retr_fold_spec : forall me mn ri ws st sent cnt st' sent' cnt',
  fold_left (retr_who n me mn ri) ws (st, sent, cnt) = (st', sent', cnt') ->
  frame st st' /\ dls st' = dls st /\ dbuf st' = dbuf st /\ (all_act6 sent -> all_act6 sent').
Proof.
  intros me mn ri. induction ws as [|w r IH]; intros st sent cnt st' sent' cnt'; cbn [fold_left].
  - intros E; inversion E; subst. split; [apply frame_refl|]. auto.
  - unfold retr_who at 2. destruct (ri w).
    + destruct (retr_loop n (Z.to_nat (mn w - dls st w)) me w (dls st w) (mn w) st sent cnt) as [[st1 sent1] cnt1] eqn:R.
      apply retr_loop_spec in R. destruct R as (F1 & D1 & B1 & A1).
      intros E. apply IH in E. destruct E as (F2 & D2 & B2 & A2).
      split; [eapply frame_trans; eauto|]. repeat split; try congruence; auto.
    + apply IH.
Qed.

Lemma skip_fold_spec : forall mx mn ws st,
  let st' := fold_left (skip_step skip mx mn) ws st in
  frame st st' /\ filt st' = filt st /\ dbuf st' = dbuf st /\ (skip = 0 -> dls st' = dls st).
Proof.
  intros mx mn. induction ws as [|w r IH]; intros st; cbn [fold_left].
  - split; [apply frame_refl|]. auto.
  - specialize (IH (skip_step skip mx mn st w)). cbv zeta in IH. destruct IH as (F & Fi & B & D).
    assert (S: frame st (skip_step skip mx mn st w) /\ filt (skip_step skip mx mn st w) = filt st /\
               dbuf (skip_step skip mx mn st w) = dbuf st /\ (skip = 0 -> dls (skip_step skip mx mn st w) = dls st)).
    { unfold skip_step. destruct (fifo st && (skip >? 0) && (mx w - mn w >? skip)) eqn:C.
      - split; [unfold frame; cbn; split; [repeat split|]; repeat split; auto|]. cbn. repeat split.
        intros Z0. subst skip. rewrite andb_false_r in C. cbn in C. discriminate.
      - split; [apply frame_refl|]. auto. }
    destruct S as (F0 & Fi0 & B0 & D0).
    split; [eapply frame_trans; eauto|]. repeat split; try congruence. intros Z0. rewrite D, D0; auto.
Qed.

Lemma buffer_phase_spec : forall me st st' sent, buffer_phase me st = (st', sent) ->
  frame st st' /\ (skip = 0 -> dls st' = dls st) /\ all_act6 sent /\
  (forall tg, In tg (dbuf st') -> In tg (dbuf st)).
Proof.
  intros me st st' sent. unfold RbcModel.buffer_phase.
  destruct (minmax st) as [[mx mn] ri].
  pose proof (skip_fold_spec mx mn (range n) st) as S. cbv zeta in S. destruct S as (F1 & Fi1 & B1 & D1).
  set (st1 := fold_left (skip_step skip mx mn) (range n) st) in *.
  destruct (fifo st && (skip =? 0)).
  - destruct (fold_left (retr_who n me mn ri) (range n) (st1, [], 0)) as [[st2 sent2] c2] eqn:R.
    apply retr_fold_spec in R. destruct R as (F2 & D2 & B2 & A2).
    intros E; inversion E; subst; clear E.
    split; [|split; [|split]].
    + eapply frame_trans; [exact F1|]. eapply frame_trans; [exact F2|].
      unfold frame; cbn. split; [repeat split|]. repeat split; auto.
    + intros Z0. cbn. rewrite D2. auto.
    + apply A2. constructor.
    + cbn. intros tg I. apply filter_In in I. destruct I as [I _]. rewrite B2, B1 in I. exact I.
  - intros E; inversion E; subst; clear E.
    split; [|split; [|split]].
    + eapply frame_trans; [exact F1|]. unfold frame; cbn. split; [repeat split|]. repeat split; auto.
    + intros Z0; cbn; auto.
    + constructor.
    + cbn. intros tg I. apply filter_In in I. destruct I as [I _]. rewrite B1 in I. exact I.
Qed.

(* ---- one received message -------------------------------------------------------------------- *)
Definition res_ok (st st' : pst) (tg0 : tagT) (r : dres) : Prop :=
  match r with
  | RDeliver who tg v =>
      tg = tg0 /\ (exists s, tg = (cur st, who, s) /\ (fifo st = true -> s = dls st who)) /\
      mbar st' tg = Some v /\ dls st' = updZ (dls st) who (dls st who + 1) /\ dbuf st' = dbuf st
  | RNone => dls st' = dls st /\ (dbuf st' = dbuf st \/ dbuf st' = dbuf st ++ [tg0])
  | RThrow => dls st' = dls st /\ dbuf st' = dbuf st
  end.

Lemma handle_spec : forall me st l m st' sent r, handle me st l m = (st', sent, r) ->
  same_chan st st' /\ res_ok st st' (mtag m) r.
Proof.
  intros me st l m st' sent r. unfold RbcModel.handle, stop. cbv zeta.
  break; intros E; inversion E; subst; clear E;
  try match goal with Htd : try_deliver _ _ = (_, _) |- _ => apply try_deliver_spec in Htd; destruct Htd as (Sc & Mb & Rs) end;
  try (split; [repeat split | cbn; auto]; fail).
  all: unfold same_chan in *; cbn in *; destruct Sc as (?&?&?&?&?&?).
  all: try (destruct r; cbn in *; intuition (try congruence); fail).
  all: destruct r; try (subst st'); cbn in *; intuition (try congruence); subst; assumption.
Qed.

(* ---- one call of Deliver ------------------------------------------------------------------------ *)
Lemma split_first_spec : forall p l pre a x b, split_first p pre l = Some (a, x, b) ->
  p x = true /\ rev pre ++ l = a ++ x :: b.
Proof.
  intros p. induction l as [|y r IH]; intros pre a x b; cbn [split_first].
  - discriminate.
  - destruct (p y) eqn:P.
    + intros E; inversion E; subst. auto.
    + intros E. apply IH in E. destruct E as [E1 E2]. split; auto. rewrite <- E2. cbn. rewrite <- app_assoc. reflexivity.
Qed.

Definition dres_ok (st st' : pst) (r : dres) : Prop :=
  match r with
  | RDeliver who tg v =>
      (exists s, tg = (cur st, who, s) /\ (fifo st = true -> dls st' who = s + 1) /\
                 (fifo st = true -> skip = 0 -> s = dls st who)) /\
      mbar st' tg = Some v /\
      (skip = 0 -> dls st' = updZ (dls st) who (dls st who + 1))
  | _ => skip = 0 -> dls st' = dls st
  end.
Definition deliver_ok (st : pst) (o : outc) : Prop := same_chan st (o_st o) /\ dres_ok st (o_st o) (o_res o).

Lemma deliver_spec : forall me st offer, deliver_ok st (deliver me st offer).
Proof.
  intros me st offer. unfold RbcModel.deliver.
  destruct (split_first (deliverable st) [] (dbuf st)) as [[[pre [[id who] s]] post]|] eqn:SF.
  - apply split_first_spec in SF. destruct SF as [D _]. unfold deliverable in D.
    apply andb_true_iff in D. destruct D as [D1 D2]. apply Z.eqb_eq in D1. subst id.
    destruct (mbar st (cur st, who, s)) eqn:M; unfold deliver_ok, dres_ok; cbn.
    + split; [repeat split|]. split; [|split; auto].
      exists s. split; [reflexivity|]. split.
      * intros F. rewrite F in D2. cbn in D2. rewrite orb_false_r in D2. apply Z.eqb_eq in D2. rewrite updZ_same. lia.
      * intros F _. rewrite F in D2. cbn in D2. rewrite orb_false_r in D2. apply Z.eqb_eq in D2. exact D2.
    + split; [apply same_chan_refl|]. auto.
  - destruct (buffer_phase me st) as [st1 sent1] eqn:BP. apply buffer_phase_spec in BP.
    destruct BP as (F & D & _ & _). destruct F as (Sc & Mb & _).
    destruct offer as [[l m]|].
    + destruct (handle me st1 l m) as [[st2 sent2] r] eqn:HH. apply handle_spec in HH. destruct HH as [Sc2 R].
      unfold deliver_ok, dres_ok; cbn. split; [eapply same_chan_trans; eauto|].
      destruct Sc as (C1 & _ & C3 & _).
      destruct r; cbn in R.
      * intros Z0. destruct R as [R _]. rewrite R. auto.
      * destruct R as (-> & (s & E & Fs) & Mv & Dl & _). split; [|split; [exact Mv|]].
        -- exists s. rewrite C1. split; [exact E|]. split.
           ++ intros F. rewrite Dl, updZ_same. rewrite C3 in F. rewrite (Fs F). reflexivity.
           ++ intros F Z0. rewrite C3 in F. rewrite (Fs F). rewrite (D Z0). reflexivity.
        -- intros Z0. rewrite Dl, (D Z0). reflexivity.
      * intros Z0. destruct R as [R _]. rewrite R. auto.
    + unfold deliver_ok, dres_ok; cbn. split; [exact Sc|]. exact D.
Qed.

End Local.
