(* RbcLemmas: single-party lemmas about RbcModel (C14). *)
From Coq Require Import ZArith List Bool Lia.
From LT Require Import RbcModel.
Import ListNotations.
Local Open Scope Z_scope.
