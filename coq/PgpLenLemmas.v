(* PgpLenLemmas: proofs about PgpLenModel (C12): every decoder reports a consumed length that lies inside its
   input, every loop iteration consumes at least one octet (termination: the fuel of the model is never exhausted),
   the Radix-64 reverse-table index stays inside the table. *)
From Coq Require Import ZArith NArith List Bool Lia ZifyBool Arith.
From LT Require Import gen_Consts gen_Tables PgpLenModel.
Import ListNotations.
Local Open Scope N_scope.

(* ---- PacketLengthDecode ------------------------------------------------------------------------------- *)
Lemma length_decode_within inp nf lt hl len part :
  packet_length_decode inp nf lt = LenOk hl len part -> (1 <= hl <= length inp)%nat /\ (hl <= 5)%nat.
Proof.
  unfold packet_length_decode. destruct inp as [|b0 r]; [discriminate|].
  destruct nf.
  - destruct (b0 <? 192). { intros H; inversion H; subst; cbn; lia. }
    destruct (b0 <? 224). { destruct r; [discriminate|]. intros H; inversion H; subst; cbn; lia. }
    destruct (b0 =? 255).
    { destruct r as [|b1 [|b2 [|b3 [|b4 r']]]]; try discriminate. intros H; inversion H; subst; cbn; lia. }
    intros H; inversion H; subst; cbn; lia.
  - destruct (lt =? 0). { intros H; inversion H; subst; cbn; lia. }
    destruct (lt =? 1). { destruct r; [discriminate|]. intros H; inversion H; subst; cbn; lia. }
    destruct (lt =? 2). { destruct r as [|b1 [|b2 [|b3 r']]]; try discriminate. intros H; inversion H; subst; cbn; lia. }
    destruct (lt =? 3); discriminate.
Qed.

Lemma length_decode_partial inp nf lt hl len :
  packet_length_decode inp nf lt = LenOk hl len true -> hl = 1%nat /\ nf = true.
Proof.
  unfold packet_length_decode. destruct inp as [|b0 r]; [discriminate|].
  destruct nf.
  - destruct (b0 <? 192). { discriminate. }
    destruct (b0 <? 224). { destruct r; discriminate. }
    destruct (b0 =? 255).
    { destruct r as [|b1 [|b2 [|b3 [|b4 r']]]]; discriminate. }
    intros H; inversion H; subst; auto.
  - destruct (lt =? 0). { discriminate. }
    destruct (lt =? 1). { destruct r; discriminate. }
    destruct (lt =? 2). { destruct r as [|b1 [|b2 [|b3 r']]]; discriminate. }
    destruct (lt =? 3); discriminate.
Qed.

Lemma length_decode_indet inp nf lt len :
  packet_length_decode inp nf lt = LenIndet len -> nf = false /\ lt = 3 /\ len = u32 (lenN inp).
Proof.
  unfold packet_length_decode. destruct inp as [|b0 r]; [discriminate|].
  destruct nf.
  - destruct (b0 <? 192). { discriminate. }
    destruct (b0 <? 224). { destruct r; discriminate. }
    destruct (b0 =? 255).
    { destruct r as [|b1 [|b2 [|b3 [|b4 r']]]]; discriminate. }
    discriminate.
  - destruct (lt =? 0). { discriminate. }
    destruct (lt =? 1). { destruct r; discriminate. }
    destruct (lt =? 2). { destruct r as [|b1 [|b2 [|b3 r']]]; discriminate. }
    destruct (N.eqb_spec lt 3); [|discriminate]. intros H; inversion H; auto.
Qed.

(* ---- one step of the partial-length loop ----------------------------------------------------------------- *)
Lemma lenN_nat (l : octets) : lenN l = N.of_nat (length l).
Proof. reflexivity. Qed.

Lemma frame_step_spec work body cur hl len part first tag w b c :
  frame_step work body cur hl len part first tag = Some (w, b, c) ->
  exists consumed, work = consumed ++ w /\ c = cur ++ consumed /\
    (length consumed = hl + N.to_nat len)%nat /\ (length b <= length body + length consumed)%nat.
Proof.
  unfold frame_step.
  destruct (N.ltb_spec (lenN work) (N.of_nat hl + len)); [discriminate|].
  destruct (part && first && (len <? 512)); [discriminate|].
  destruct (part && negb (partial_allowed tag)); [discriminate|].
  intros E; inversion E; subst; clear E.
  unfold lenN in H.
  assert (Hle : (hl + N.to_nat len <= length work)%nat) by lia.
  exists (firstn (hl + N.to_nat len) work).
  split. { symmetry; apply firstn_skipn. }
  split. { reflexivity. }
  split. { rewrite firstn_length. lia. }
  rewrite app_length, firstn_length, firstn_length, skipn_length. lia.
Qed.

(* invariant of the loop: what is consumed is a prefix of the work list and is appended to current_packet *)
Lemma frame_loop_spec fuel : forall work nf lt tag first body cur,
  match frame_loop fuel work nf lt tag first body cur with
  | LoopOk w b c _ | LoopErr w b c =>
      exists consumed, work = consumed ++ w /\ c = cur ++ consumed /\
        (length b <= length body + length consumed)%nat
  | LoopFuel => True
  end.
Proof.
  induction fuel as [|f IH]; intros; cbn [frame_loop]; [exact I|].
  destruct (packet_length_decode work nf lt) as [|hl len part|len] eqn:D.
  - exists []. cbn. rewrite app_nil_r. repeat split; lia.
  - destruct (frame_step work body cur hl len part first tag) as [[[w b] c]|] eqn:S.
    + destruct (frame_step_spec _ _ _ _ _ _ _ _ _ _ _ S) as (cons & Hw & Hc & Hl & Hb).
      destruct part.
      * specialize (IH w nf lt tag false b c).
        destruct (frame_loop f w nf lt tag false b c) as [w' b' c'|w' b' c' i|]; auto.
        -- destruct IH as (c2 & Hw2 & Hc2 & Hb2). exists (cons ++ c2). subst.
           rewrite !app_assoc. repeat split; auto. rewrite app_length. lia.
        -- destruct IH as (c2 & Hw2 & Hc2 & Hb2). exists (cons ++ c2). subst.
           rewrite !app_assoc. repeat split; auto. rewrite app_length. lia.
      * exists cons. repeat split; auto.
    + exists []. cbn. rewrite app_nil_r. repeat split; lia.
  - destruct (frame_step work body cur 0 len false first tag) as [[[w b] c]|] eqn:S.
    + destruct (frame_step_spec _ _ _ _ _ _ _ _ _ _ _ S) as (cons & Hw & Hc & Hl & Hb).
      exists cons. repeat split; auto.
    + exists []. cbn. rewrite app_nil_r. repeat split; lia.
Qed.

(* termination: every iteration that continues consumed its one-octet partial header *)
Lemma frame_loop_fuel fuel : forall work nf lt tag first body cur,
  (length work < fuel)%nat -> frame_loop fuel work nf lt tag first body cur <> LoopFuel.
Proof.
  induction fuel as [|f IH]; intros work nf lt tag first body cur Hf; [lia|].
  cbn [frame_loop].
  destruct (packet_length_decode work nf lt) as [|hl len part|len] eqn:D; [discriminate| |].
  - destruct (frame_step work body cur hl len part first tag) as [[[w b] c]|] eqn:S; [|discriminate].
    destruct part; [|discriminate].
    destruct (length_decode_partial _ _ _ _ _ D) as [Hhl _]. subst hl.
    destruct (frame_step_spec _ _ _ _ _ _ _ _ _ _ _ S) as (cons & Hw & Hc & Hl & Hb).
    apply IH. subst work. rewrite app_length in Hf. lia.
  - destruct (frame_step work body cur 0 len false first tag) as [[[w b] c]|]; discriminate.
Qed.

Lemma frame_prefix_ok inp tag nf indet body rest cur :
  packet_decode_frame inp = FrameOk tag nf indet body rest cur ->
  cur ++ rest = inp /\ (length rest < length inp)%nat /\ (length body <= length inp)%nat.
Proof.
  unfold packet_decode_frame. destruct inp as [|t work]; [discriminate|].
  destruct (header_tag t) as [[[nf' lt] tag']|]; [|discriminate].
  pose proof (frame_loop_spec (frame_fuel work) work nf' lt tag' true [] [t]) as L.
  destruct (frame_loop (frame_fuel work) work nf' lt tag' true [] [t]) as [w b c|w b c i|]; try discriminate.
  intros E; inversion E; subst; clear E.
  destruct L as (cons & Hw & Hc & Hb). subst. cbn in *.
  split. { rewrite <- ?app_assoc. reflexivity. }
  rewrite ?app_length in *. cbn [length] in *. split; lia.
Qed.

Lemma frame_prefix_err inp rest cur :
  packet_decode_frame inp = FrameErr rest cur -> cur ++ rest = inp.
Proof.
  unfold packet_decode_frame. destruct inp as [|t work]. { intros E; inversion E; reflexivity. }
  destruct (header_tag t) as [[[nf' lt] tag']|]. 2:{ intros E; inversion E; reflexivity. }
  pose proof (frame_loop_spec (frame_fuel work) work nf' lt tag' true [] [t]) as L.
  destruct (frame_loop (frame_fuel work) work nf' lt tag' true [] [t]) as [w b c|w b c i|]; try discriminate.
  intros E; inversion E; subst; clear E.
  destruct L as (cons & Hw & Hc & Hb). subst. cbn. rewrite <- ?app_assoc. reflexivity.
Qed.

Lemma frame_fuel_suffices inp : packet_decode_frame inp <> FrameFuel.
Proof.
  unfold packet_decode_frame. destruct inp as [|t work]; [discriminate|].
  destruct (header_tag t) as [[[nf' lt] tag']|]; [|discriminate].
  pose proof (frame_loop_fuel (frame_fuel work) work nf' lt tag' true [] [t]) as L.
  destruct (frame_loop (frame_fuel work) work nf' lt tag' true [] [t]); try discriminate.
  exfalso. apply L; [unfold frame_fuel; lia|reflexivity].
Qed.

Lemma body_extract_total inp : packet_body_extract inp <> None.
Proof.
  unfold packet_body_extract. destruct inp as [|t work]; [discriminate|].
  destruct (header_tag t) as [[[nf' lt] tag']|]; [|discriminate].
  pose proof (frame_loop_fuel (frame_fuel work) work nf' lt tag' true [] []) as L.
  destruct (frame_loop (frame_fuel work) work nf' lt tag' true [] []); try discriminate.
  exfalso. apply L; [unfold frame_fuel; lia|reflexivity].
Qed.

Lemma body_extract_bounded inp r body :
  packet_body_extract inp = Some (r, body) -> (length body <= length inp)%nat.
Proof.
  unfold packet_body_extract. destruct inp as [|t work]. { intros E; inversion E; cbn; lia. }
  destruct (header_tag t) as [[[nf' lt] tag']|]. 2:{ intros E; inversion E; cbn; lia. }
  pose proof (frame_loop_spec (frame_fuel work) work nf' lt tag' true [] []) as L.
  destruct (frame_loop (frame_fuel work) work nf' lt tag' true [] []) as [w b c|w b c i|]; try discriminate;
    intros E; inversion E; subst; clear E; destruct L as (cons & Hw & Hc & Hb); subst; cbn in *;
    rewrite app_length; lia.
Qed.

(* ---- PacketMPIDecode ------------------------------------------------------------------------------------------ *)
Lemma mpi_within inp s c v s' : mpi_decode inp s = MpiOk c v s' -> (2 <= c <= length inp)%nat.
Proof.
  unfold mpi_decode. destruct inp as [|b0 [|b1 r]]; try discriminate.
  set (buflen := (b0 * 256 + b1 + 7) / 8).
  destruct (N.ltb_spec (lenN (b0 :: b1 :: r)) (2 + buflen)); [discriminate|].
  intros E; inversion E; subst; clear E. unfold lenN in H. cbn [length] in *. lia.
Qed.

Lemma from_be_bound (l : octets) : Forall (fun b => b < 256) l -> forall a, fold_left (fun a b => a * 256 + b) l a < (a + 1) * 2 ^ (8 * N.of_nat (length l)).
Proof.
  induction 1 as [|b l Hb Hl IH]; intros a; cbn [fold_left length].
  - cbn. lia.
  - specialize (IH (a * 256 + b)).
    replace (8 * N.of_nat (S (length l))) with (8 + 8 * N.of_nat (length l)) by lia.
    rewrite N.pow_add_r. change (2 ^ 8) with 256.
    assert (0 < 2 ^ (8 * N.of_nat (length l))) by (apply N.neq_0_lt_0, N.pow_nonzero; lia).
    nia.
Qed.

Lemma Forall_firstn {A} (P : A -> Prop) n (l : list A) : Forall P l -> Forall P (firstn n l).
Proof. intros H. revert n. induction H; intros [|n]; cbn; auto. Qed.

Lemma mpi_value_bound inp s c v s' : Forall (fun b => b < 256) inp ->
  mpi_decode inp s = MpiOk c v s' -> v < 2 ^ (8 * N.of_nat (c - 2)).
Proof.
  unfold mpi_decode. intros HF. destruct inp as [|b0 [|b1 r]]; try discriminate.
  set (buflen := (b0 * 256 + b1 + 7) / 8).
  destruct (N.ltb_spec (lenN (b0 :: b1 :: r)) (2 + buflen)); [discriminate|].
  intros E; inversion E; subst; clear E.
  inversion HF as [|? ? _ HF1]; subst. inversion HF1 as [|? ? _ HF2]; subst.
  pose proof (from_be_bound (firstn (N.to_nat buflen) r) (Forall_firstn _ _ _ HF2) 0) as B.
  unfold from_be. rewrite firstn_length in B.
  unfold lenN in H. cbn [length] in H.
  replace (Nat.min (N.to_nat buflen) (length r)) with (N.to_nat buflen) in B by lia.
  replace (S (S (N.to_nat buflen)) - 2)%nat with (N.to_nat buflen) by lia.
  lia.
Qed.

Lemma sum16_bound l : forall s, s < 65536 -> sum16 s l < 65536.
Proof.
  unfold sum16. induction l as [|b l IH]; intros s Hs; cbn [fold_left]; auto.
  apply IH. apply N.mod_lt. lia.
Qed.

Lemma mpi_sum_bound inp s c v s' : mpi_decode inp s = MpiOk c v s' -> s' < 65536.
Proof.
  unfold mpi_decode. destruct inp as [|b0 [|b1 r]]; try discriminate.
  set (buflen := (b0 * 256 + b1 + 7) / 8).
  destruct (lenN (b0 :: b1 :: r) <? 2 + buflen); [discriminate|].
  intros E; inversion E; subst; clear E.
  apply sum16_bound. unfold sum16. cbn [fold_left]. apply N.mod_lt. lia.
Qed.

(* ---- SubpacketDecode -------------------------------------------------------------------------------------------- *)
Lemma subpacket_lengths_inside inp hl len0 t :
  subpacket_lengths inp = Some (hl, len0, t) -> (2 <= hl <= length inp)%nat /\ nth_error inp (hl - 1) = Some t.
Proof.
  unfold subpacket_lengths. destruct inp as [|b0 [|b1 r]]; try discriminate.
  destruct (b0 <? 192). { intros E; inversion E; subst; cbn; split; [lia|reflexivity]. }
  destruct (b0 <? 255). { destruct r as [|b2 r]; [discriminate|]. intros E; inversion E; subst; cbn; split; [lia|reflexivity]. }
  destruct (b0 =? 255); [|discriminate].
  destruct r as [|b2 [|b3 [|b4 [|b5 r]]]]; try discriminate.
  intros E; inversion E; subst; cbn; split; [lia|reflexivity].
Qed.

Lemma subpacket_header_inside inp hl len crit ty :
  subpacket_header inp = SubOk hl len crit ty -> (2 <= hl <= length inp)%nat.
Proof.
  unfold subpacket_header. destruct (subpacket_lengths inp) as [[[hl' len0] t]|] eqn:L; [|discriminate].
  destruct (len0 =? 0); [discriminate|].
  destruct (lenN inp <? u32 (N.of_nat hl' + (len0 - 1))); [discriminate|].
  intros E; inversion E; subst. apply (subpacket_lengths_inside _ _ _ _ L).
Qed.

Lemma subpacket_within_partial inp hl len crit ty :
  subpacket_header inp = SubOk hl len crit ty -> N.of_nat hl + len < 4294967296 -> N.of_nat hl + len <= lenN inp.
Proof.
  unfold subpacket_header. destruct (subpacket_lengths inp) as [[[hl' len0] t]|] eqn:L; [|discriminate].
  destruct (len0 =? 0); [discriminate|].
  destruct (N.ltb_spec (lenN inp) (u32 (N.of_nat hl' + (len0 - 1)))); [discriminate|].
  intros E; inversion E; subst. intros Hs. unfold u32 in H. rewrite N.mod_small in H by exact Hs. exact H.
Qed.

Lemma subpacket_within_refuted :
  exists inp, Forall (fun b => b < 256) inp /\ sub_slice_inside inp (subpacket_header inp) = false.
Proof.
  exists [255; 255; 255; 255; 255; 2; 1; 2; 3; 4]. split.
  - repeat constructor.
  - vm_compute. reflexivity.
Qed.

(* ---- Radix64Decode ------------------------------------------------------------------------------------------------ *)
Lemma not_radix64_small b : not_radix64 b = false -> b < 128.
Proof.
  unfold not_radix64. intros H. apply negb_false_iff in H. apply existsb_exists in H.
  destruct H as (t & _ & Ht). lia.
Qed.

Lemma table_length_ok : 128 <= N.of_nat (length src_fRadix64).
Proof. vm_compute. discriminate. Qed.

Lemma radix64_index_in_table b :
  not_radix64 b = false \/ b = 61 -> char_index b < N.of_nat (length src_fRadix64).
Proof.
  intros H. pose proof table_length_ok as T.
  assert (Hb : b < 128). { destruct H as [H|H]; [apply not_radix64_small; exact H|subst; reflexivity]. }
  unfold char_index. destruct (N.ltb_spec b 128); lia.
Qed.

Lemma r64_lookup_total b : not_radix64 b = false \/ b = 61 -> r64_lookup b <> None.
Proof.
  intros H. pose proof (radix64_index_in_table b H) as I. unfold r64_lookup.
  destruct (N.ltb_spec (char_index b) (N.of_nat (length src_fRadix64))); [|lia].
  destruct (nth_error src_fRadix64 (N.to_nat (char_index b))) eqn:E; [discriminate|].
  apply nth_error_None in E. lia.
Qed.

Definition r64_char_ok (b : N) : Prop := not_radix64 b = false \/ b = 61.

Lemma r64_groups_total n : forall p, Forall r64_char_ok p -> (4 * n <= length p)%nat -> r64_groups n p <> None.
Proof.
  induction n as [|n IH]; intros p HF HL; cbn [r64_groups]; [discriminate|].
  destruct p as [|a [|b [|c [|d rest]]]]; cbn [length] in HL; try lia.
  inversion HF as [|? ? Ha HF1]; subst. inversion HF1 as [|? ? Hb HF2]; subst.
  inversion HF2 as [|? ? Hc HF3]; subst. inversion HF3 as [|? ? Hd HF4]; subst.
  pose proof (r64_lookup_total a Ha). pose proof (r64_lookup_total b Hb).
  pose proof (r64_lookup_total c Hc). pose proof (r64_lookup_total d Hd).
  destruct (r64_lookup a); [|congruence]. destruct (r64_lookup b); [|congruence].
  destruct (r64_lookup c); [|congruence]. destruct (r64_lookup d); [|congruence].
  specialize (IH rest HF4). destruct (r64_groups n rest); [discriminate|].
  exfalso. apply IH; [lia|reflexivity].
Qed.

Lemma padded_ok s :
  Forall r64_char_ok (filter (fun b => negb (not_radix64 b)) s ++
                      repeat 61 (4 - Nat.modulo (length (filter (fun b => negb (not_radix64 b)) s)) 4)).
Proof.
  apply Forall_app. split.
  - apply Forall_forall. intros x Hx. apply filter_In in Hx. destruct Hx as [_ Hx].
    left. apply negb_true_iff in Hx. exact Hx.
  - apply Forall_forall. intros x Hx. apply repeat_spec in Hx. right. exact Hx.
Qed.

Lemma pad_len_enough len : (4 * Nat.div (len + 3) 4 <= len + (4 - Nat.modulo len 4))%nat.
Proof.
  pose proof (Nat.div_mod len 4 ltac:(lia)) as D.
  pose proof (Nat.mod_upper_bound len 4 ltac:(lia)) as M.
  pose proof (Nat.div_mod (len + 3) 4 ltac:(lia)) as D3.
  pose proof (Nat.mod_upper_bound (len + 3) 4 ltac:(lia)) as M3.
  lia.
Qed.

Lemma radix64_decode_total s : radix64_decode s <> None.
Proof.
  unfold radix64_decode. apply r64_groups_total.
  - apply padded_ok.
  - rewrite app_length, repeat_length. apply pad_len_enough.
Qed.

Lemma r64_quad_length l0 l1 l2 l3 : (length (r64_quad l0 l1 l2 l3) <= 3)%nat.
Proof.
  unfold r64_quad. destruct (l1 =? 255), (l2 =? 255), (l3 =? 255); cbn; lia.
Qed.

Lemma r64_groups_length n : forall p o, r64_groups n p = Some o -> (length o <= 3 * n)%nat.
Proof.
  induction n as [|n IH]; intros p o; cbn [r64_groups].
  - intros E; inversion E; cbn; lia.
  - destruct p as [|a [|b [|c [|d rest]]]]; try discriminate.
    destruct (r64_lookup a); [|discriminate]. destruct (r64_lookup b); [|discriminate].
    destruct (r64_lookup c); [|discriminate]. destruct (r64_lookup d); [|discriminate].
    destruct (r64_groups n rest) eqn:G; [|discriminate].
    intros E; inversion E; subst. rewrite app_length.
    pose proof (r64_quad_length n0 n1 n2 n3). specialize (IH _ _ G). lia.
Qed.

Lemma filter_length_le {A} (f : A -> bool) l : (length (filter f l) <= length l)%nat.
Proof. induction l as [|x l IH]; cbn; [lia|]. destruct (f x); cbn; lia. Qed.

Lemma radix64_decode_length s o : radix64_decode s = Some o -> (length o <= 3 * Nat.div (length s + 3) 4)%nat.
Proof.
  unfold radix64_decode. intros H. apply r64_groups_length in H.
  pose proof (filter_length_le (fun b => negb (not_radix64 b)) s) as F.
  assert (Nat.div (length (filter (fun b => negb (not_radix64 b)) s) + 3) 4 <= Nat.div (length s + 3) 4)%nat.
  { apply Nat.div_le_mono; lia. }
  lia.
Qed.
