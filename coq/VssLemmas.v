(* VssLemmas: proofs about VssModel (Pedersen VSS as implemented in PedersenVSS.cc).
   - poly_eval computes the polynomial modulo q                        (poly_eval_peval)
   - prod_k A_k^(x^k) for honest commitments is g^f(x) h^f'(x)         (rhs_commits, rhs_fcommits)
   - an honest dealer's shares pass the check                          (share_check_honest)
   - Feldman commitments determine the shares modulo q                 (feldman_unique)
   - decision rules of the receiver as equivalences                    (complaint_rule, disqualified_rule, resolve_rule, ...)
   - a receiver that complained and accepts holds the published, consistent pair (complainer_corrected; fix 3258c3f) *)
From Coq Require Import ZArith Znumtheory Lia List Bool ZifyBool.
From LT Require Import Zbase VssModel.
Import ListNotations.
Local Open Scope Z_scope.

(* specification polynomial over Z, coefficients low to high *)
Fixpoint peval (cs : list Z) (x : Z) : Z := match cs with [] => 0 | a :: r => a + x * peval r x end.

Lemma poly_eval_from_spec q cs x xk acc : 0 < q ->
  poly_eval_from q cs x xk acc mod q = (acc + xk * peval cs x) mod q.
Proof.
  intros Hq. revert xk acc. induction cs as [|a r IH]; intros xk acc; cbn [poly_eval_from peval].
  - f_equal. lia.
  - rewrite IH. rewrite Zplus_mod_idemp_l.
    rewrite <- Zplus_mod_idemp_l. rewrite <- (Zplus_mod_idemp_r ((xk * a) mod q) acc).
    rewrite Z.mod_mod by lia. rewrite Zplus_mod_idemp_r. rewrite Zplus_mod_idemp_l.
    f_equal. lia.
Qed.

Lemma poly_eval_from_reduced q cs x xk acc : 0 < q -> cs <> [] ->
  poly_eval_from q cs x xk acc mod q = poly_eval_from q cs x xk acc.
Proof.
  intros Hq. revert xk acc. induction cs as [|a r IH]; intros xk acc Hne; [congruence|].
  cbn [poly_eval_from]. destruct r as [|b r'].
  - cbn [poly_eval_from]. apply Z.mod_mod. lia.
  - apply IH. congruence.
Qed.

Lemma poly_eval_peval q cs x : 0 < q -> poly_eval q cs x = peval cs x mod q.
Proof.
  intros Hq. unfold poly_eval. destruct cs as [|a r].
  - reflexivity.
  - rewrite <- poly_eval_from_reduced by (lia || congruence).
    rewrite poly_eval_from_spec by lia. f_equal. lia.
Qed.

Lemma poly_eval_range q cs x : 0 < q -> 0 <= poly_eval q cs x < q.
Proof. intros. rewrite poly_eval_peval by lia. apply Z.mod_pos_bound. lia. Qed.

Lemma peval_nonneg cs x : Forall (fun c => 0 <= c) cs -> 0 <= x -> 0 <= peval cs x.
Proof. induction 1; cbn [peval]; intros; [lia|]. specialize (IHForall H1). nia. Qed.

(* ---- the product prod_k A_k^(xk * x^k) ---------------------------------------------------------- *)
Fixpoint rprod (As : list Z) (x xk : Z) : Z :=
  match As with [] => 1 | A :: r => A ^ xk * rprod r x (xk * x) end.

Lemma rhs_from_spec p As x xk acc : 0 < p -> 0 <= x -> 0 <= xk ->
  rhs_from p As x xk acc mod p = (acc * rprod As x xk) mod p.
Proof.
  intros Hp Hx. revert xk acc. induction As as [|A r IH]; intros xk acc Hxk; cbn [rhs_from rprod].
  - f_equal. lia.
  - rewrite IH by nia. rewrite Zmult_mod_idemp_l. rewrite powm_spec by lia.
    rewrite <- Z.mul_assoc. rewrite (Z.mul_comm (A ^ xk mod p)). rewrite Z.mul_assoc.
    rewrite <- Zmult_mod_idemp_r. rewrite Z.mod_mod by lia. rewrite Zmult_mod_idemp_r.
    f_equal. lia.
Qed.

Lemma rhs_from_reduced p As x xk acc : 0 < p -> As <> [] ->
  rhs_from p As x xk acc mod p = rhs_from p As x xk acc.
Proof.
  intros Hp. revert xk acc. induction As as [|A r IH]; intros xk acc Hne; [congruence|].
  cbn [rhs_from]. destruct r as [|B r'].
  - cbn [rhs_from]. apply Z.mod_mod. lia.
  - apply IH. congruence.
Qed.

Lemma rhs_prod_spec p As x : 0 < p -> 0 <= x -> As <> [] -> rhs_prod p As x = rprod As x 1 mod p.
Proof.
  intros. unfold rhs_prod. rewrite <- rhs_from_reduced by assumption.
  rewrite rhs_from_spec by lia. f_equal. lia.
Qed.

(* honest Pedersen commitments: the product is g^(xk f(x)) h^(xk f'(x)) *)
Lemma rprod_commits p g h a b x xk : 0 < p -> 0 <= x -> 0 <= xk -> length a = length b ->
  Forall (fun c => 0 <= c) a -> Forall (fun c => 0 <= c) b ->
  rprod (commits p g h a b) x xk mod p = (g ^ (xk * peval a x) * h ^ (xk * peval b x)) mod p.
Proof.
  intros Hp Hx. revert b xk. induction a as [|a0 a IH]; intros b xk Hxk Hlen Ha Hb.
  - destruct b; [|discriminate]. cbn [commits rprod peval]. rewrite !Z.mul_0_r. reflexivity.
  - destruct b as [|b0 b]; [discriminate|]. cbn [commits rprod peval].
    inversion Ha as [|? ? Ha0 Ha']; subst. inversion Hb as [|? ? Hb0 Hb']; subst.
    injection Hlen as Hlen.
    pose proof (peval_nonneg a x Ha' Hx). pose proof (peval_nonneg b x Hb' Hx).
    assert (C : commit p g h a0 b0 ^ xk mod p = (g ^ (a0 * xk) * h ^ (b0 * xk)) mod p).
    { unfold commit. rewrite !powm_spec by lia. rewrite pow_mod_base by lia. rewrite Z.pow_mul_l.
      rewrite Zmult_mod. rewrite !pow_mod_base by lia. rewrite <- Zmult_mod.
      rewrite <- !Z.pow_mul_r by lia. reflexivity. }
    rewrite Zmult_mod. rewrite C. rewrite IH by (assumption || nia). rewrite <- Zmult_mod.
    replace (xk * (a0 + x * peval a x)) with (a0 * xk + xk * x * peval a x) by lia.
    replace (xk * (b0 + x * peval b x)) with (b0 * xk + xk * x * peval b x) by lia.
    rewrite !Z.pow_add_r by nia. f_equal. ring.
Qed.

Lemma rprod_fcommits p g a x xk : 0 < p -> 0 <= x -> 0 <= xk -> Forall (fun c => 0 <= c) a ->
  rprod (fcommits p g a) x xk mod p = g ^ (xk * peval a x) mod p.
Proof.
  intros Hp Hx. revert xk. induction a as [|a0 a IH]; intros xk Hxk Ha.
  - cbn [fcommits map rprod peval]. rewrite Z.mul_0_r. reflexivity.
  - inversion Ha as [|? ? Ha0 Ha']; subst. cbn [fcommits map rprod peval]. fold (fcommits p g a).
    pose proof (peval_nonneg a x Ha' Hx).
    rewrite Zmult_mod. rewrite IH by (assumption || nia).
    rewrite powm_spec by lia. rewrite pow_mod_base by lia. rewrite <- Z.pow_mul_r by lia.
    rewrite <- Zmult_mod.
    replace (xk * (a0 + x * peval a x)) with (a0 * xk + xk * x * peval a x) by lia.
    rewrite Z.pow_add_r by nia. reflexivity.
Qed.

Section Group.
  Variables p q g h : Z.
  Hypothesis Hp : 1 < p.
  Hypothesis Hq : prime q.
  Hypothesis Hg : powm g q p = 1.
  Hypothesis Hh : powm h q p = 1.

  Let q_pos : 1 < q. Proof. destruct Hq. lia. Qed.

  Lemma pow_red_g e : 0 <= e -> g ^ (e mod q) mod p = g ^ e mod p.
  Proof.
    intros. rewrite <- !powm_spec; try lia. apply (powm_mod_q p q g Hp Hq Hg). lia.
    apply Z.mod_pos_bound. lia.
  Qed.
  Lemma pow_red_h e : 0 <= e -> h ^ (e mod q) mod p = h ^ e mod p.
  Proof.
    intros. rewrite <- !powm_spec; try lia. apply (powm_mod_q p q h Hp Hq Hh). lia.
    apply Z.mod_pos_bound. lia.
  Qed.

  (* an honest dealer's shares pass the check of every recipient (evaluation point x = index + 1) *)
  Theorem share_check_honest a b x :
    a <> [] -> length a = length b -> Forall (fun c => 0 <= c) a -> Forall (fun c => 0 <= c) b -> 0 <= x ->
    share_ok p g h (commits p g h a b) x (poly_eval q a x) (poly_eval q b x) = Some true.
  Proof.
    intros Hne Hlen Ha Hb Hx. unfold share_ok, epow.
    pose proof (poly_eval_range q a x ltac:(lia)). pose proof (poly_eval_range q b x ltac:(lia)).
    destruct (Z.ltb_spec (poly_eval q a x) 0); [lia|]. destruct (Z.ltb_spec (poly_eval q b x) 0); [lia|].
    f_equal. apply Z.eqb_eq.
    assert (Hc : commits p g h a b <> []).
    { destruct a; [congruence|]. destruct b; [discriminate|]. cbn [commits]. congruence. }
    rewrite rhs_prod_spec by (lia || assumption).
    rewrite rprod_commits by (lia || assumption). rewrite !Z.mul_1_l.
    rewrite !powm_spec by lia. rewrite !poly_eval_peval by lia.
    pose proof (peval_nonneg a x Ha Hx). pose proof (peval_nonneg b x Hb Hx).
    rewrite <- Zmult_mod. rewrite Zmult_mod. rewrite pow_red_g, pow_red_h by lia.
    rewrite <- Zmult_mod. reflexivity.
  Qed.

  (* Feldman commitments C_k = g^a_k fix the shares modulo q: whoever passes g^s = prod C_k^(x^k) holds f(x) *)
  Theorem feldman_unique a x s :
    g mod p <> 1 -> a <> [] -> Forall (fun c => 0 <= c) a -> 0 <= x -> 0 <= s ->
    powm g s p = rhs_prod p (fcommits p g a) x -> s mod q = poly_eval q a x.
  Proof.
    intros Hg1 Hne Ha Hx Hs E.
    assert (Hc : fcommits p g a <> []) by (destruct a; [congruence|cbn; congruence]).
    rewrite rhs_prod_spec in E by (lia || assumption).
    rewrite rprod_fcommits in E by (lia || assumption). rewrite Z.mul_1_l in E.
    pose proof (peval_nonneg a x Ha Hx).
    rewrite <- powm_spec in E by lia.
    apply (powm_inj_mod_q p q g Hp Hq Hg Hg1) in E; [|lia|lia].
    rewrite poly_eval_peval by lia. exact E.
  Qed.

  (* and conversely the polynomial value passes the Feldman check *)
  Theorem feldman_honest a x :
    a <> [] -> Forall (fun c => 0 <= c) a -> 0 <= x ->
    powm g (poly_eval q a x) p = rhs_prod p (fcommits p g a) x.
  Proof.
    intros Hne Ha Hx.
    assert (Hc : fcommits p g a <> []) by (destruct a; [congruence|cbn; congruence]).
    rewrite rhs_prod_spec by (lia || assumption). rewrite rprod_fcommits by (lia || assumption).
    rewrite Z.mul_1_l. pose proof (poly_eval_range q a x ltac:(lia)).
    rewrite powm_spec by lia. rewrite poly_eval_peval by lia. apply pow_red_g. now apply peval_nonneg.
  Qed.
End Group.

(* ---- decision rules ------------------------------------------------------------------------------- *)
(* complaint <-> the pair is out of range, a commitment is not a group element, or equation (2) fails *)
Theorem complaint_rule p q g h As x s t c :
  recv_complaint p q g h As x s t = Some c ->
  (c = true <-> (in_range q s = false \/ in_range q t = false \/ forallb (check_element p q) As = false \/
                 share_ok p g h As x (zero_unless (in_range q s) s) (zero_unless (in_range q t) t) = Some false)).
Proof.
  unfold recv_complaint. destruct (share_ok _ _ _ _ _ _ _) as [ok|]; [|discriminate].
  intros E. injection E as <-. destruct (in_range q s), (in_range q t), (forallb _ As), ok; cbn; intuition congruence.
Qed.

Corollary inconsistent_share_complains p q g h As x s t :
  in_range q s = true -> in_range q t = true -> share_ok p g h As x s t = Some false ->
  recv_complaint p q g h As x s t = Some true.
Proof.
  intros Hs Ht E. unfold recv_complaint, zero_unless. rewrite Hs, Ht, E. cbn. now rewrite orb_true_r.
Qed.

Corollary consistent_share_no_complaint p q g h As x s t :
  in_range q s = true -> in_range q t = true -> forallb (check_element p q) As = true ->
  share_ok p g h As x s t = Some true -> recv_complaint p q g h As x s t = Some false.
Proof. intros Hs Ht HA E. unfold recv_complaint, zero_unless. rewrite Hs, Ht, E, HA. reflexivity. Qed.

Theorem disqualified_rule t c : disqualified t c = true <-> t < c.
Proof. unfold disqualified. lia. Qed.

(* more than t complaints: the receiver rejects the dealer *)
Theorem too_many_complaints_reject p q g h n t i d As s tt streams res own :
  recv_complaint p q g h As (i + 1) s tt = Some own ->
  t < (if own then 1 else 0) + Z.of_nat (length (complaints_from n d streams)) ->
  exists sg ta, vss_receive p q g h n t i d As s tt streams res = Some {| vo_ret := false; vo_sigma := sg; vo_tau := ta |}.
Proof.
  intros E Hc. unfold vss_receive. rewrite E.
  destruct (disqualified t _) eqn:D; [eauto|]. apply Bool.not_true_iff_false in D. rewrite disqualified_rule in D. lia.
Qed.

(* what "the dealer answered every complaint correctly" means for the broadcast stream `res` *)
Inductive answered (p q g h : Z) (As : list Z) : list Z -> list Z -> Prop :=
| ans_nil res : answered p q g h As [] res
| ans_cons j from w f b res :
    who_of w = j -> in_range q f = true -> in_range q b = true ->
    share_ok p g h As (j + 1) f b = Some true ->
    answered p q g h As from res -> answered p q g h As (j :: from) (w :: f :: b :: res).

Lemma resolve_bad_sticky p q g h n i As from : forall res sg ta b sg' ta',
  resolve p q g h n i As from res true sg ta = Some (b, sg', ta') -> b = true.
Proof.
  induction from as [|j from IH]; intros res sg ta b sg' ta' E; cbn [resolve] in E.
  - now injection E as <- _ _.
  - destruct res as [|w [|f [|b0 res']]]; try (now injection E as <- _ _).
    destruct ((n <=? who_of w) || negb (who_of w =? j)); [now injection E as <- _ _|].
    cbn [orb] in E.
    destruct (share_ok _ _ _ _ _ _ _) as [[|]|]; [| |discriminate].
    + destruct (who_of w =? i); eapply IH; exact E.
    + eapply IH; exact E.
Qed.

(* the public resolution accepts exactly the streams that answer every complaint, in order, with a valid pair *)
Theorem resolve_rule p q g h n i As from res sg ta :
  Forall (fun j => j < n) from ->
  ((exists sg' ta', resolve p q g h n i As from res false sg ta = Some (false, sg', ta')) <-> answered p q g h As from res).
Proof.
  intros Hn. revert res sg ta. induction Hn as [|j from Hj Hn IH]; intros res sg ta.
  - cbn [resolve]. split; [constructor|eauto].
  - split.
    + intros (sg' & ta' & E). cbn [resolve] in E.
      destruct res as [|w [|f [|b res']]]; try discriminate.
      destruct ((n <=? who_of w) || negb (who_of w =? j)) eqn:W; [discriminate|].
      apply orb_false_elim in W. destruct W as [W1 W2]. apply negb_false_iff in W2. apply Z.eqb_eq in W2.
      destruct (in_range q f) eqn:Rf, (in_range q b) eqn:Rb; cbn [zero_unless negb orb] in E.
      * destruct (share_ok p g h As (who_of w + 1) f b) as [[|]|] eqn:S; [| |discriminate].
        -- constructor; try assumption; [now rewrite <- W2|].
           destruct (who_of w =? i); eapply IH; eauto.
        -- apply resolve_bad_sticky in E. discriminate.
      * destruct (share_ok _ _ _ _ _ _ _) as [[|]|]; [| |discriminate].
        -- destruct (who_of w =? i); apply resolve_bad_sticky in E; discriminate.
        -- apply resolve_bad_sticky in E; discriminate.
      * destruct (share_ok _ _ _ _ _ _ _) as [[|]|]; [| |discriminate].
        -- destruct (who_of w =? i); apply resolve_bad_sticky in E; discriminate.
        -- apply resolve_bad_sticky in E; discriminate.
      * destruct (share_ok _ _ _ _ _ _ _) as [[|]|]; [| |discriminate].
        -- destruct (who_of w =? i); apply resolve_bad_sticky in E; discriminate.
        -- apply resolve_bad_sticky in E; discriminate.
    + intros A. inversion A as [|? ? w f b res' Hw Rf Rb S A']; subst. cbn [resolve].
      assert (W : (n <=? who_of w) || negb (who_of w =? who_of w) = false).
      { rewrite Z.eqb_refl. cbn [negb]. rewrite orb_false_r. apply Z.leb_gt. exact Hj. }
      rewrite W, Rf, Rb. cbn [zero_unless negb orb]. rewrite S.
      destruct (who_of w =? i); apply IH; exact A'.
Qed.

Lemma in_ins_sorted i l x : In x (ins_sorted i l) <-> x = i \/ In x l.
Proof.
  induction l as [|j r IH]; cbn [ins_sorted In]; [intuition|].
  destruct (i <? j); cbn [In]; rewrite ?IH; intuition.
Qed.
Lemma length_ins_sorted i l : length (ins_sorted i l) = S (length l).
Proof. induction l as [|j r IH]; cbn [ins_sorted length]; [reflexivity|]. destruct (i <? j); cbn [length]; now rewrite ?IH. Qed.

Lemma complaints_from_lt n d streams : Forall (fun js => fst js < n) streams -> Forall (fun j => j < n) (complaints_from n d streams).
Proof.
  intros Hn. unfold complaints_from. apply Forall_forall. intros j Hj. apply in_map_iff in Hj.
  destruct Hj as (js & <- & Hin). apply filter_In in Hin. destruct Hin as [Hin _].
  rewrite Forall_forall in Hn. now apply Hn.
Qed.
Lemma recv_from_lt n d i own streams : i < n -> Forall (fun js => fst js < n) streams -> Forall (fun j => j < n) (recv_from n d i own streams).
Proof.
  intros Hi Hn. pose proof (complaints_from_lt n d streams Hn) as F. unfold recv_from. destruct own; [|assumption].
  apply Forall_forall. intros x Hx. apply in_ins_sorted in Hx. destruct Hx as [->|Hx]; [assumption|].
  rewrite Forall_forall in F. now apply F.
Qed.

(* a receiver that returns true after complaints has seen a correct public answer for every complaint, its own included *)
Theorem accept_means_answered p q g h n t i d As s tt streams res own sg ta :
  i < n -> Forall (fun js => fst js < n) streams ->
  recv_complaint p q g h As (i + 1) s tt = Some own ->
  vss_receive p q g h n t i d As s tt streams res = Some {| vo_ret := true; vo_sigma := sg; vo_tau := ta |} ->
  answered p q g h As (recv_from n d i own streams) res \/ recv_from n d i own streams = [].
Proof.
  intros Hi Hn C E. unfold vss_receive in E. rewrite C in E.
  destruct (disqualified t _); [discriminate|].
  destruct (0 <? _) eqn:Cn.
  - destruct (resolve _ _ _ _ _ _ _ _ _ _ _ _) as [[[bad sg'] ta']|] eqn:R; [|discriminate].
    injection E as Eb _ _. apply negb_true_iff in Eb. subst bad. left.
    eapply resolve_rule; [|eauto]. now apply recv_from_lt.
  - right. unfold recv_from. destruct own; [lia|]. destruct (complaints_from n d streams); [reflexivity|]. cbn [length] in Cn. lia.
Qed.

(* the pair held after an accepting resolution: if the receiver's index is among the resolved complaints (or its pair was
   consistent before), the pair it ends with satisfies the check *)
Lemma resolve_own_pair p q g h n i As from : forall res bad sg ta sg' ta',
  resolve p q g h n i As from res bad sg ta = Some (false, sg', ta') ->
  In i from \/ share_ok p g h As (i + 1) sg ta = Some true ->
  share_ok p g h As (i + 1) sg' ta' = Some true.
Proof.
  induction from as [|j from IH]; intros res bad sg ta sg' ta' E H; cbn [resolve] in E.
  - injection E as _ <- <-. destruct H as [[]|H]; exact H.
  - destruct res as [|w [|f [|b res']]]; try discriminate.
    destruct ((n <=? who_of w) || negb (who_of w =? j)) eqn:W; [discriminate|].
    apply orb_false_elim in W. destruct W as [_ W2]. apply negb_false_iff in W2. apply Z.eqb_eq in W2.
    destruct (share_ok p g h As (who_of w + 1) _ _) as [[|]|] eqn:S; [| |discriminate].
    + destruct (Z.eqb_spec (who_of w) i) as [Ei|Ei].
      * eapply IH; [exact E|]. right. rewrite <- Ei. exact S.
      * eapply IH; [exact E|]. destruct H as [[Hj|Hin]|H]; [congruence|now left|now right].
    + apply resolve_bad_sticky in E. discriminate.
Qed.

(* "forced to publish consistent ones": a receiver that complained and accepts the dealer holds a pair matching the commitments *)
Theorem complainer_corrected p q g h n t i d As s tt streams res o :
  recv_complaint p q g h As (i + 1) s tt = Some true ->
  vss_receive p q g h n t i d As s tt streams res = Some o -> vo_ret o = true ->
  share_ok p g h As (i + 1) (vo_sigma o) (vo_tau o) = Some true.
Proof.
  intros C E Hr. unfold vss_receive in E. rewrite C in E.
  destruct (disqualified t _); [injection E as <-; discriminate|].
  destruct (0 <? _) eqn:Cn; [|lia].
  destruct (resolve _ _ _ _ _ _ _ _ _ _ _ _) as [[[bad sg'] ta']|] eqn:R; [|discriminate].
  injection E as <-. cbn [vo_ret vo_sigma vo_tau] in *. apply negb_true_iff in Hr. subst bad.
  eapply resolve_own_pair; [exact R|]. left. unfold recv_from. apply in_ins_sorted. now left.
Qed.

(* a receiver that did not complain keeps a consistent pair *)
Theorem noncomplainer_consistent p q g h n t i d As s tt streams res o :
  recv_complaint p q g h As (i + 1) s tt = Some false ->
  vss_receive p q g h n t i d As s tt streams res = Some o -> vo_ret o = true ->
  share_ok p g h As (i + 1) (vo_sigma o) (vo_tau o) = Some true.
Proof.
  intros C E Hr. pose proof C as C'. unfold recv_complaint in C'.
  destruct (share_ok p g h As (i + 1) _ _) as [ok|] eqn:S; [|discriminate].
  injection C' as C'. apply orb_false_elim in C'. destruct C' as [_ C']. apply negb_false_iff in C'. subst ok.
  unfold vss_receive in E. rewrite C in E.
  destruct (disqualified t _); [injection E as <-; discriminate|].
  destruct (0 <? _).
  - destruct (resolve _ _ _ _ _ _ _ _ _ _ _ _) as [[[bad sg'] ta']|] eqn:R; [|discriminate].
    injection E as <-. cbn [vo_ret vo_sigma vo_tau] in *. apply negb_true_iff in Hr. subst bad.
    eapply resolve_own_pair; [exact R|]. right. exact S.
  - injection E as <-. exact S.
Qed.

(* the flag computed by the public resolution does not depend on the receiver's identity or current pair *)
Lemma resolve_flag_indep p q g h n As from : forall res bad i1 i2 sg1 ta1 sg2 ta2 r1 r2,
  resolve p q g h n i1 As from res bad sg1 ta1 = Some r1 ->
  resolve p q g h n i2 As from res bad sg2 ta2 = Some r2 -> fst (fst r1) = fst (fst r2).
Proof.
  induction from as [|j from IH]; intros res bad i1 i2 sg1 ta1 sg2 ta2 r1 r2 E1 E2; cbn [resolve] in E1, E2.
  - injection E1 as <-. injection E2 as <-. reflexivity.
  - destruct res as [|w [|f [|b res']]]; try (injection E1 as <-; injection E2 as <-; reflexivity).
    destruct ((n <=? who_of w) || negb (who_of w =? j)); [injection E1 as <-; injection E2 as <-; reflexivity|].
    destruct (share_ok _ _ _ _ _ _ _) as [[|]|]; [| |discriminate].
    + destruct (who_of w =? i1), (who_of w =? i2); eapply IH; eauto.
    + eapply IH; eauto.
Qed.

Lemma recv_from_length n d i own streams :
  Z.of_nat (length (recv_from n d i own streams)) = (if own then 1 else 0) + Z.of_nat (length (complaints_from n d streams)).
Proof. unfold recv_from. destruct own; [rewrite length_ins_sorted|]; lia. Qed.

(* qualification is a function of broadcast values only: the verdict depends on the sorted list of complaining parties (every
   complaint, the receiver's own included, is a broadcast) and on the dealer's broadcast answer - not on who evaluates it *)
Theorem verdict_from_broadcasts p q g h n t i1 i2 d As s1 t1 s2 t2 streams1 streams2 res o1 o2 c1 c2 :
  recv_complaint p q g h As (i1 + 1) s1 t1 = Some c1 -> recv_complaint p q g h As (i2 + 1) s2 t2 = Some c2 ->
  recv_from n d i1 c1 streams1 = recv_from n d i2 c2 streams2 ->
  vss_receive p q g h n t i1 d As s1 t1 streams1 res = Some o1 ->
  vss_receive p q g h n t i2 d As s2 t2 streams2 res = Some o2 -> vo_ret o1 = vo_ret o2.
Proof.
  intros C1 C2 F E1 E2. unfold vss_receive in *. rewrite C1 in E1. rewrite C2 in E2.
  pose proof (recv_from_length n d i1 c1 streams1) as L1. pose proof (recv_from_length n d i2 c2 streams2) as L2.
  rewrite F in L1. rewrite <- L1 in E1. rewrite <- L2 in E2. rewrite F in E1.
  destruct (disqualified t _); [injection E1 as <-; injection E2 as <-; reflexivity|].
  destruct (0 <? _); [|injection E1 as <-; injection E2 as <-; reflexivity].
  destruct (resolve p q g h n i1 _ _ _ _ _ _) as [[[b1 sg1] ta1]|] eqn:R1; [|discriminate].
  destruct (resolve p q g h n i2 _ _ _ _ _ _) as [[[b2 sg2] ta2]|] eqn:R2; [|discriminate].
  injection E1 as <-. injection E2 as <-. cbn [vo_ret].
  pose proof (resolve_flag_indep _ _ _ _ _ _ _ _ _ _ _ _ _ _ _ _ _ R1 R2) as Fl. cbn [fst] in Fl. now rewrite Fl.
Qed.
