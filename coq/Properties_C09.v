(* C09 -- Arithmetic primitives agree with their mathematical definition.
   Property theorems only: each is closed by `exact <lemma>` and followed by Print Assumptions. *)
From Coq Require Import ZArith Znumtheory List Lia Bool.
From LT Require Import gen_Consts Zbase PowmModel PowmLemmas SqrtModel SqrtLemmas InterpModel InterpLemmas PrimeModel PrimeLemmas.
Import ListNotations.
Local Open Scope Z_scope.

(* mpz_invert as modelled: Some x is the inverse in [0,p); None exactly for non-units *)
Theorem C09_invm_some : forall a p x, invm a p = Some x -> 0 < p /\ 0 <= x < p /\ (a * x) mod p = 1 mod p.
Proof. exact invm_some. Qed.
Print Assumptions C09_invm_some.

Theorem C09_invm_none : forall a p, 0 < p -> (invm a p = None <-> Z.gcd a p <> 1).
Proof. exact invm_none. Qed.
Print Assumptions C09_invm_none.

(* what "plain modular exponentiation" means, negative exponents included *)
Theorem C09_powm_ref_spec : forall m x p r, 0 < p -> powm_ref m x p = Some r ->
  0 <= r < p /\ (0 <= x -> r = m ^ x mod p) /\ (x < 0 -> (r * m ^ (- x)) mod p = 1 mod p).
Proof. exact powm_ref_spec. Qed.
Print Assumptions C09_powm_ref_spec.

(* constant-time power: every odd modulus, every unit base, every exponent (negative, zero, positive,
   also exponents sharing a factor with p -- the case that threw before fix ee6160d) *)
Theorem C09_spowm_ok : forall m x p, 0 < p -> Z.odd p = true -> Z.gcd m p = 1 ->
  exists r, spowm m x p = Ok r /\ powm_ref m x p = Some r.
Proof. exact spowm_ok. Qed.
Print Assumptions C09_spowm_ok.

Theorem C09_spowm_even_throws : forall m x p, Z.even p = true -> spowm m x p = ThrowEven.
Proof. exact spowm_even_throws. Qed.
Print Assumptions C09_spowm_even_throws.

(* table powers: exact characterisation for every base (unit or not), exponent within the table *)
Theorem C09_fpowm_eq : forall m x p t tab, 1 < p ->
  fpowm_precompute m p t = Some tab -> bitlen x <= Z.min t TMCG_MAX_FPOWM_T ->
  fpowm tab m x p = outcome_of (powm_ref m x p).
Proof. exact fpowm_eq. Qed.
Print Assumptions C09_fpowm_eq.

Theorem C09_fpowm_ok : forall m x p t tab, 1 < p -> Z.gcd m p = 1 ->
  fpowm_precompute m p t = Some tab -> bitlen x <= Z.min t TMCG_MAX_FPOWM_T ->
  exists r, fpowm tab m x p = Ok r /\ powm_ref m x p = Some r.
Proof. exact fpowm_ok. Qed.
Print Assumptions C09_fpowm_ok.

Theorem C09_fpowm_ui_ok : forall m x p t tab, 1 < p -> 0 <= x ->
  fpowm_precompute m p t = Some tab -> bitlen x <= Z.min t TMCG_MAX_FPOWM_T ->
  fpowm_ui tab m x p = Ok (m ^ x mod p).
Proof. exact fpowm_ui_eq. Qed.
Print Assumptions C09_fpowm_ui_ok.

Theorem C09_fspowm_ok : forall m x p t tab, 1 < p -> Z.gcd m p = 1 ->
  fpowm_precompute m p t = Some tab -> bitlen x <= Z.min t TMCG_MAX_FPOWM_T ->
  exists r, fspowm tab m x p = Ok r /\ powm_ref m x p = Some r.
Proof. exact fspowm_ok. Qed.
Print Assumptions C09_fspowm_ok.

(* the side-channel protected table power throws for non-units where fpowm answers: exact behaviour *)
Theorem C09_fspowm_eq : forall m x p t tab, 1 < p ->
  fpowm_precompute m p t = Some tab -> bitlen x <= Z.min t TMCG_MAX_FPOWM_T ->
  fspowm tab m x p = match invm (powm m (Z.abs x) p) p with
                     | None => ThrowInvert
                     | Some i => Ok (if x <? 0 then i else powm m x p)
                     end.
Proof. exact fspowm_eq. Qed.
Print Assumptions C09_fspowm_eq.

Theorem C09_wrong_base_throws : forall m m' x p t tab, fpowm_precompute m' p t = Some tab -> m <> m' ->
  fpowm tab m x p = ThrowWrongBase /\ fpowm_ui tab m x p = ThrowWrongBase /\ fspowm tab m x p = ThrowWrongBase.
Proof. exact wrong_base_throws. Qed.
Print Assumptions C09_wrong_base_throws.

Theorem C09_too_large_throws : forall m x p t tab, fpowm_precompute m p t = Some tab ->
  TMCG_MAX_FPOWM_T < bitlen x -> fpowm tab m x p = ThrowTooLarge /\ fspowm tab m x p = ThrowTooLarge.
Proof. exact too_large_throws. Qed.
Print Assumptions C09_too_large_throws.

(* the gap: an exponent longer than the table the caller asked for, but within the global limit, is not
   rejected -- the result is silently 0.  The full-strength statement "bitlen x <= TMCG_MAX_FPOWM_T suffices" is refuted. *)
Theorem C09_fpowm_gap_zero : forall m x p t tab, fpowm_precompute m p t = Some tab -> 1 <= t -> 0 < x ->
  t < bitlen x <= TMCG_MAX_FPOWM_T -> fpowm tab m x p = Ok 0 /\ fpowm_ui tab m x p = Ok 0.
Proof. exact fpowm_gap_zero. Qed.
Print Assumptions C09_fpowm_gap_zero.

Theorem C09_fpowm_limit_only_refuted : exists m x p t tab, 1 < p /\ Z.gcd m p = 1 /\
  fpowm_precompute m p t = Some tab /\ 1 <= t /\ bitlen x <= TMCG_MAX_FPOWM_T /\ 0 < x /\
  fpowm tab m x p = Ok 0 /\ m ^ x mod p <> 0.
Proof. exact fpowm_gap_refuted. Qed.
Print Assumptions C09_fpowm_limit_only_refuted.

(* square roots modulo a prime; residues and non-residues in Euler's form *)
Theorem C09_sqrtmp_3mod4 : forall a p b, 0 < p -> p mod 4 = 3 -> a <> 0 -> powm a ((p - 1) / 2) p = 1 ->
  exists r, sqrtmp_with a p b = SqOk r /\ 0 <= r < p /\ (r * r) mod p = a mod p.
Proof. exact sqrtmp_3mod4. Qed.
Print Assumptions C09_sqrtmp_3mod4.

Theorem C09_sqrtmp_5mod8 : forall a p b, prime p -> p mod 8 = 5 -> a <> 0 ->
  powm a ((p - 1) / 2) p = 1 -> powm b ((p - 1) / 2) p = p - 1 ->
  exists r, sqrtmp_with a p b = SqOk r /\ 0 <= r < p /\ (r * r) mod p = a mod p.
Proof. exact sqrtmp_5mod8. Qed.
Print Assumptions C09_sqrtmp_5mod8.

(* every prime (2 through the guard of 03c88a4; odd primes: all classes modulo 8, Tonelli-Shanks loops included), every residue *)
Theorem C09_sqrtmp_ok : forall a p b, prime p -> a <> 0 ->
  powm a ((p - 1) / 2) p = 1 -> powm b ((p - 1) / 2) p = p - 1 ->
  exists r, sqrtmp_with a p b = SqOk r /\ 0 <= r < p /\ (r * r) mod p = a mod p.
Proof. exact sqrtmp_ok. Qed.
Print Assumptions C09_sqrtmp_ok.

(* every product of two primes (Blum or not), any Bezout pair: four roots and the chosen one square back *)
Theorem C09_sqrtmn_two_primes_ok : forall a p q u v bp bq, prime p -> prime q -> a <> 0 ->
  u * p + v * q = 1 ->
  powm a ((p - 1) / 2) p = 1 -> powm bp ((p - 1) / 2) p = p - 1 ->
  powm a ((q - 1) / 2) q = 1 -> powm bq ((q - 1) / 2) q = q - 1 ->
  (exists r, sqrtmn_all_with a p q (p * q) u v bp bq = inl (Some r) /\ all_square a (p * q) r) /\
  (exists r, sqrtmn_with a p q (p * q) u v bp bq = SqOk r /\ (r * r) mod (p * q) = a mod (p * q)).
Proof. exact sqrtmn_two_primes_ok. Qed.
Print Assumptions C09_sqrtmn_two_primes_ok.

(* square roots modulo n = p*q: all four CRT roots (and the chosen smallest) square back, for any Bezout pair *)
Theorem C09_sqrtmn_all_ok : forall a p q u v bp bq, 0 < p -> 0 < q -> u * p + v * q = 1 ->
  sqrt_ok a p bp -> sqrt_ok a q bq ->
  exists r, sqrtmn_all_with a p q (p * q) u v bp bq = inl (Some r) /\ all_square a (p * q) r.
Proof. exact sqrtmn_all_ok. Qed.
Print Assumptions C09_sqrtmn_all_ok.

Theorem C09_sqrtmn_ok : forall a p q u v bp bq, 0 < p -> 0 < q -> u * p + v * q = 1 ->
  sqrt_ok a p bp -> sqrt_ok a q bq ->
  exists r, sqrtmn_with a p q (p * q) u v bp bq = SqOk r /\ (r * r) mod (p * q) = a mod (p * q).
Proof. exact sqrtmn_ok. Qed.
Print Assumptions C09_sqrtmn_ok.

(* Blum integers, the precomputed path used for signing/decryption and card secrets *)
Theorem C09_sqrtmn_fast_blum_ok : forall a p q u v, 0 < p -> 0 < q -> p mod 4 = 3 -> q mod 4 = 3 -> u * p + v * q = 1 ->
  powm a ((p - 1) / 2) p = 1 -> powm a ((q - 1) / 2) q = 1 ->
  all_square a (p * q) (sqrtmn_fast_all a p q (p * q) (u * p) (v * q) ((p + 1) / 4) ((q + 1) / 4)) /\
  let r := sqrtmn_fast a p q (p * q) (u * p) (v * q) ((p + 1) / 4) ((q + 1) / 4) in
  (r * r) mod (p * q) = a mod (p * q).
Proof. exact sqrtmn_fast_all_ok. Qed.
Print Assumptions C09_sqrtmn_fast_blum_ok.

(* the prime 2: every argument (zero included) is answered by the guard and squares back *)
Theorem C09_sqrtmp_modulus_2 : forall a b, exists r, sqrtmp_with a 2 b = SqOk r /\ 0 <= r < 2 /\ (r * r) mod 2 = a mod 2.
Proof. exact sqrtmp_modulus_2. Qed.
Print Assumptions C09_sqrtmp_modulus_2.

(* interpolation: whenever the routine returns true (any modulus q > 1, any points, reduced or not), the
   returned polynomial has one coefficient per point and passes through every point *)
Theorem C09_interpolate_reproduces_points : forall q, 1 < q -> forall pts f, interpolate pts q = IpOk f ->
  length f = length pts /\ forall a b, In (a, b) pts -> peval f a q = b mod q.
Proof. exact interpolate_sound. Qed.
Print Assumptions C09_interpolate_reproduces_points.

(* ... for pairwise distinct abscissae modulo a prime it does return true, and it returns false as soon as an
   abscissa collides with an earlier one *)
Theorem C09_interpolate_succeeds : forall q, prime q -> forall pts, pts <> [] ->
  (forall pre a b post, pts = pre ++ (a, b) :: post -> fresh q a pre) ->
  exists f, interpolate pts q = IpOk f.
Proof. exact interpolate_complete. Qed.
Print Assumptions C09_interpolate_succeeds.

Theorem C09_interpolate_collision_false : forall q, prime q -> forall pre post a b a' b',
  In (a', b') pre -> (a - a') mod q = 0 -> interpolate (pre ++ (a, b) :: post) q = IpFalse.
Proof. exact interpolate_collision. Qed.
Print Assumptions C09_interpolate_collision_false.

(* prime generators: postconditions of the acceptance logic, for every primality oracle is_prime (Miller-Rabin in the code).
   tmcg_mpz_lprime is modelled completely (candidates are inputs); for the safe-prime search the start value and the final
   acceptance are modelled (the rejection-only sieves are not), see PrimeModel.v *)
Theorem C09_lprime_post : forall is_prime psize qsize qcands kcands p q k,
  lprime_run is_prime psize qsize qcands kcands = GenOk p q k ->
  p = q * k + 1 /\ Z.even k = true /\ Z.gcd k q = 1 /\ psize <= bitlen p /\ qsize <= bitlen q /\
  is_prime p = true /\ is_prime q = true /\ qsize < psize.
Proof. exact lprime_post. Qed.
Print Assumptions C09_lprime_post.

Theorem C09_lprime_sizes_throw : forall is_prime psize qsize qcands kcands, psize <= qsize ->
  lprime_run is_prime psize qsize qcands kcands = GenThrow.
Proof. exact lprime_sizes_throw. Qed.
Print Assumptions C09_lprime_sizes_throw.

Theorem C09_sprime_post : forall is_prime t qsize qraw q p, 0 <= qraw ->
  sprime_accepts is_prime t qsize qraw q p = true ->
  p = 2 * q + 1 /\ Z.odd q = true /\ qsize <= bitlen q /\ qsize + 1 <= bitlen p /\
  extra_test t p = true /\ is_prime q = true /\ (powm 2 q p = 1 \/ powm 2 q p = p - 1).
Proof. exact sprime_post. Qed.
Print Assumptions C09_sprime_post.

Theorem C09_sprime3mod4_post : forall is_prime psize qraw q p, 0 <= qraw ->
  sprime_accepts is_prime Test3mod4 (psize - 1) qraw q p = true -> p mod 4 = 3 /\ psize <= bitlen p /\ p = 2 * q + 1.
Proof. exact sprime3mod4_post. Qed.
Print Assumptions C09_sprime3mod4_post.

Theorem C09_sprime2g_post : forall is_prime qsize qraw q p, 0 <= qraw ->
  sprime_accepts is_prime Test7mod8 qsize qraw q p = true -> p mod 8 = 7 /\ p = 2 * q + 1 /\ qsize <= bitlen q.
Proof. exact sprime2g_post. Qed.
Print Assumptions C09_sprime2g_post.

(* non-vacuity *)
Example C09_nonvacuous_spowm : spowm 2 7 7 = Ok 2 /\ spowm 2 3 9 = Ok 8 /\ spowm 3 (-2) 7 = Ok 4.
Proof. repeat split; reflexivity. Qed.
Example C09_nonvacuous_sqrt5 : prime 13 /\ 13 mod 8 = 5 /\ powm 10 6 13 = 1 /\ powm 2 6 13 = 12 /\ sqrtmp_with 10 13 2 = SqOk 7.
Proof.
  split; [|repeat split; reflexivity].
  apply prime_intro; [lia|]. intros n Hn. apply Zgcd_1_rel_prime.
  assert (n = 1 \/ n = 2 \/ n = 3 \/ n = 4 \/ n = 5 \/ n = 6 \/ n = 7 \/ n = 8 \/ n = 9 \/ n = 10 \/ n = 11 \/ n = 12) as C by lia.
  repeat (destruct C as [-> | C]; [reflexivity|]). subst n. reflexivity.
Qed.
Example C09_nonvacuous_interp : interpolate [(1, 2); (3, 1); (5, 6)] 7 = IpOk [3; 0; 6].
Proof. vm_compute. reflexivity. Qed.
Example C09_nonvacuous_lprime : lprime_run (fun z => (z =? 11) || (z =? 23)) 5 4 [9; 11] [1; 3; 2] = GenOk 23 11 2.
Proof. vm_compute. reflexivity. Qed.
Example C09_nonvacuous_blum : 3 * 7 + (-2) * 11 = -1 + 0 /\ (-3) * 7 + 2 * 11 = 1 /\ sqrtmn_fast 4 7 11 77 (-21) 22 2 3 = 9.
Proof. repeat split; reflexivity. Qed.
