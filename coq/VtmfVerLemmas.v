(* VtmfVerLemmas: acceptance characterisations, range rules and binding lemmas for the VTMF-layer verifiers. *)
From Coq Require Import ZArith Znumtheory List Bool Lia.
From LT Require Import Zbase gen_Consts FsModel FsLemmas VtmfVerModel.
Import ListNotations.
Local Open Scope Z_scope.

(* ---- acceptance <-> range checks /\ c = H(inputs ++ recomputed commitments) ---------------------------- *)
Theorem key_accept_iff H G foo c r :
  key_verify H G foo c r = Accept <->
  check_element G foo = true /\ bits c <= ghb G /\ Z.abs r < gq G /\
  exists t2 c2, fpowm (gtg G) (tlen G) (gg G) r (gp G) = Some t2 /\ mpz_powm foo c (gp G) = Some c2 /\
                c = H (key_hash_input G foo ((t2 * c2) mod gp G)).
Proof.
  unfold key_verify. split.
  - destruct (check_element G foo); cbn [negb]; [|discriminate].
    destruct (Z.ltb_spec (ghb G) (bits c)); [discriminate|].
    destruct (Z.leb_spec (gq G) (Z.abs r)); [discriminate|].
    destruct (fpowm (gtg G) (tlen G) (gg G) r (gp G)) as [t2|]; [|discriminate].
    destruct (mpz_powm foo c (gp G)) as [c2|]; [|discriminate].
    destruct (Z.eqb_spec c (H (key_hash_input G foo ((t2 * c2) mod gp G)))); [|discriminate].
    intros _. repeat split; try lia. exists t2, c2. auto.
  - intros (A & B & C & t2 & c2 & D & E & F).
    rewrite A. cbn [negb].
    destruct (Z.ltb_spec (ghb G) (bits c)); [lia|].
    destruct (Z.leb_spec (gq G) (Z.abs r)); [lia|].
    rewrite D, E. rewrite <- F. now rewrite Z.eqb_refl.
Qed.

(* range rules exactly as coded: |r| < q (negative representatives pass), c at most digest length,
   the key share is a member of the order-q subgroup and lies in (0,p) *)
Corollary key_range_rules H G foo c r : key_verify H G foo c r = Accept ->
  - gq G < r < gq G /\ bits c <= ghb G /\ 0 < foo < gp G /\ powm foo (gq G) (gp G) = 1.
Proof.
  intros A. apply key_accept_iff in A. destruct A as (E & B & C & _).
  unfold check_element in E. apply andb_true_iff in E. destruct E as [E E3].
  apply andb_true_iff in E. destruct E as [E1 E2].
  apply Z.ltb_lt in E1, E2. apply Z.eqb_eq in E3. lia.
Qed.

Theorem cp_accept_iff H G x y g' h' c r fp :
  cp_verify H G x y g' h' c r fp = Accept <->
  bits c <= ghb G /\ Z.abs r < gq G /\ (fp = true -> gg G = g' /\ gh G = h') /\
  exists a0 xc b0 yc,
    (if fp then fpowm (gtg G) (tlen G) g' r (gp G) else mpz_powm g' r (gp G)) = Some a0 /\
    mpz_powm x c (gp G) = Some xc /\
    (if fp then fpowm (gth G) (tlen G) h' r (gp G) else mpz_powm h' r (gp G)) = Some b0 /\
    mpz_powm y c (gp G) = Some yc /\
    H (cp_hash_input G ((a0 * xc) mod gp G) ((b0 * yc) mod gp G) x y g' h') = c.
Proof.
  unfold cp_verify. split.
  - destruct (Z.ltb_spec (ghb G) (bits c)); [discriminate|].
    destruct (Z.leb_spec (gq G) (Z.abs r)); [discriminate|].
    destruct (Z.eqb_spec (gg G) g') as [Eg|Ng]; cbn [negb]; rewrite ?andb_false_r, ?andb_true_r.
    2:{ destruct fp; [discriminate|]. cbn [andb].
        destruct (mpz_powm g' r (gp G)) as [a0|]; [|discriminate].
        destruct (mpz_powm x c (gp G)) as [xc|]; [|discriminate].
        destruct (mpz_powm h' r (gp G)) as [b0|]; [|discriminate].
        destruct (mpz_powm y c (gp G)) as [yc|]; [|discriminate].
        destruct (Z.eqb_spec (H (cp_hash_input G ((a0 * xc) mod gp G) ((b0 * yc) mod gp G) x y g' h')) c); [|discriminate].
        intros _. repeat split; try lia; try discriminate. exists a0, xc, b0, yc. auto. }
    destruct (if fp then fpowm (gtg G) (tlen G) g' r (gp G) else mpz_powm g' r (gp G)) as [a0|]; [|destruct fp; discriminate].
    destruct (mpz_powm x c (gp G)) as [xc|]; [|discriminate].
    destruct (Z.eqb_spec (gh G) h') as [Eh|Nh]; cbn [negb]; rewrite ?andb_false_r, ?andb_true_r.
    2:{ destruct fp; [discriminate|].
        destruct (mpz_powm h' r (gp G)) as [b0|]; [|discriminate].
        destruct (mpz_powm y c (gp G)) as [yc|]; [|discriminate].
        destruct (Z.eqb_spec (H (cp_hash_input G ((a0 * xc) mod gp G) ((b0 * yc) mod gp G) x y g' h')) c); [|discriminate].
        intros _. repeat split; try lia; try discriminate. exists a0, xc, b0, yc. auto. }
    destruct (if fp then fpowm (gth G) (tlen G) h' r (gp G) else mpz_powm h' r (gp G)) as [b0|]; [|destruct fp; discriminate].
    destruct (mpz_powm y c (gp G)) as [yc|]; [|discriminate].
    destruct (Z.eqb_spec (H (cp_hash_input G ((a0 * xc) mod gp G) ((b0 * yc) mod gp G) x y g' h')) c); [|discriminate].
    intros _. repeat split; try lia; try assumption. exists a0, xc, b0, yc. auto.
  - intros (B & C & D & a0 & xc & b0 & yc & E1 & E2 & E3 & E4 & E5).
    destruct (Z.ltb_spec (ghb G) (bits c)); [lia|].
    destruct (Z.leb_spec (gq G) (Z.abs r)); [lia|].
    assert (K1 : fp && negb (gg G =? g') = false).
    { destruct fp; [|reflexivity]. destruct (D eq_refl) as [-> _]. now rewrite Z.eqb_refl. }
    assert (K2 : fp && negb (gh G =? h') = false).
    { destruct fp; [|reflexivity]. destruct (D eq_refl) as [_ ->]. now rewrite Z.eqb_refl. }
    rewrite K1, E1, E2, K2, E3, E4, E5. now rewrite Z.eqb_refl.
Qed.

Corollary cp_range_rules H G x y g' h' c r fp : cp_verify H G x y g' h' c r fp = Accept ->
  - gq G < r < gq G /\ bits c <= ghb G /\ (fp = true -> gg G = g' /\ gh G = h').
Proof.
  intros A. apply cp_accept_iff in A. destruct A as (B & C & D & _).
  repeat split; try lia; now apply D.
Qed.

(* the challenge compared is the hash value itself: a different c with the same hash input is refused *)
Theorem key_same_input_rejects H G foo c c' r r' t :
  key_verify H G foo c r = Accept -> key_verify H G foo c' r' = Accept ->
  (forall t2 c2, fpowm (gtg G) (tlen G) (gg G) r (gp G) = Some t2 -> mpz_powm foo c (gp G) = Some c2 -> (t2 * c2) mod gp G = t) ->
  (forall t2 c2, fpowm (gtg G) (tlen G) (gg G) r' (gp G) = Some t2 -> mpz_powm foo c' (gp G) = Some c2 -> (t2 * c2) mod gp G = t) ->
  c = c'.
Proof.
  intros A B Ta Tb. apply key_accept_iff in A, B.
  destruct A as (_ & _ & _ & t2 & c2 & A1 & A2 & A3). destruct B as (_ & _ & _ & t2' & c2' & B1 & B2 & B3).
  rewrite (Ta _ _ A1 A2) in A3. rewrite (Tb _ _ B1 B2) in B3. congruence.
Qed.

(* mask / remask / decrypt are CP_Verify behind membership tests *)
Theorem mask_accept_iff H G m c1 c2 c r :
  mask_verify H G m c1 c2 c r = Accept <->
  check_element G m = true /\ check_element G c1 = true /\ check_element G c2 = true /\
  exists mi, invm m (gp G) = Some mi /\ cp_verify H G c1 ((mi * c2) mod gp G) (gg G) (gh G) c r true = Accept.
Proof.
  unfold mask_verify. split.
  - destruct (check_element G m); [|discriminate]. destruct (check_element G c1); [|discriminate].
    destruct (check_element G c2); [|discriminate]. cbn [andb negb].
    destruct (invm m (gp G)) as [mi|]; [|discriminate]. intros A. repeat split. now exists mi.
  - intros (A0 & A & B & mi & C & D). now rewrite A0, A, B, C.
Qed.

Theorem remask_accept_iff H G c1 c2 d1 d2 c r :
  remask_verify H G c1 c2 d1 d2 c r = Accept <->
  check_element G c1 = true /\ check_element G c2 = true /\ check_element G d1 = true /\ check_element G d2 = true /\
  exists i1 i2, invm c1 (gp G) = Some i1 /\ invm c2 (gp G) = Some i2 /\
    cp_verify H G ((i1 * d1) mod gp G) ((i2 * d2) mod gp G) (gg G) (gh G) c r true = Accept.
Proof.
  unfold remask_verify. split.
  - destruct (check_element G c1); [|discriminate]. destruct (check_element G c2); [|discriminate].
    destruct (check_element G d1); [|discriminate]. destruct (check_element G d2); [|discriminate]. cbn [andb negb].
    destruct (invm c1 (gp G)) as [i1|]; [|discriminate]. destruct (invm c2 (gp G)) as [i2|]; [|discriminate].
    intros A. repeat split. now exists i1, i2.
  - intros (A0 & A1 & A & B & i1 & i2 & C & D & E). now rewrite A0, A1, A, B, C, D.
Qed.

Lemma check_element_member G a : check_element G a = true -> 0 < a < gp G /\ powm a (gq G) (gp G) = 1.
Proof.
  unfold check_element. intros E. apply andb_true_iff in E. destruct E as [E E3].
  apply andb_true_iff in E. destruct E as [E1 E2]. apply Z.ltb_lt in E1, E2. apply Z.eqb_eq in E3. lia.
Qed.

(* membership rules: every group element the statement speaks about lies in (0,p) and in the order-q subgroup *)
Corollary mask_member_rules H G m c1 c2 c r : mask_verify H G m c1 c2 c r = Accept ->
  (0 < m < gp G /\ powm m (gq G) (gp G) = 1) /\ (0 < c1 < gp G /\ powm c1 (gq G) (gp G) = 1) /\
  (0 < c2 < gp G /\ powm c2 (gq G) (gp G) = 1).
Proof. intros A. apply mask_accept_iff in A. destruct A as (A & B & C & _). split; [|split]; now apply check_element_member. Qed.

Corollary remask_member_rules H G c1 c2 d1 d2 c r : remask_verify H G c1 c2 d1 d2 c r = Accept ->
  (0 < c1 < gp G /\ powm c1 (gq G) (gp G) = 1) /\ (0 < c2 < gp G /\ powm c2 (gq G) (gp G) = 1) /\
  (0 < d1 < gp G /\ powm d1 (gq G) (gp G) = 1) /\ (0 < d2 < gp G /\ powm d2 (gq G) (gp G) = 1).
Proof. intros A. apply remask_accept_iff in A. destruct A as (A & B & C & D & _). split; [|split; [|split]]; now apply check_element_member. Qed.

Theorem decrypt_accept_iff H G c1 hj dj c r :
  decrypt_verify H G c1 hj dj c r = Accept <->
  exists k, hj = Some k /\ check_element G dj = true /\ cp_verify H G dj k c1 (gg G) c r false = Accept.
Proof.
  unfold decrypt_verify. split.
  - destruct hj as [k|]; [|discriminate]. destruct (check_element G dj); [|discriminate]. cbn [negb].
    intros A. now exists k.
  - intros (k & -> & B & C). now rewrite B.
Qed.

(* ---- the recomputed commitment is injective in the response modulo q ----------------------------------- *)
Section Binding.
  Variables p q g : Z.
  Hypothesis Hp : 1 < p.
  Hypothesis Hq : prime q.
  Hypothesis Hgq : powm g q p = 1.
  Hypothesis Hg1 : g mod p <> 1.

  Lemma cancel_unit (a b X Xi : Z) : 0 <= a < p -> 0 <= b < p -> (X * Xi) mod p = 1 ->
    (a * X) mod p = (b * X) mod p -> a = b.
  Proof.
    intros Ha Hb HX E.
    assert (K : forall u, 0 <= u < p -> ((u * X) mod p * Xi) mod p = u).
    { intros u Hu. rewrite Zmult_mod_idemp_l. rewrite <- Z.mul_assoc. rewrite <- Zmult_mod_idemp_r. rewrite HX.
      rewrite Z.mul_1_r. apply Z.mod_small. assumption. }
    rewrite <- (K a Ha), <- (K b Hb). now rewrite E.
  Qed.

  (* Schnorr / Chaum-Pedersen style recommitment  g^r * X  with an invertible X (= statement^c) *)
  Theorem recommit_inj (r r' X Xi : Z) : 0 <= r -> 0 <= r' -> (X * Xi) mod p = 1 ->
    ((powm g r p * X) mod p = (powm g r' p * X) mod p <-> r mod q = r' mod q).
  Proof.
    intros Hr Hr' HX. split.
    - intros E. apply (cancel_unit _ _ X Xi) in E; try assumption; try (apply powm_range; lia).
      now apply (powm_inj_mod_q p q g Hp Hq Hgq Hg1) in E.
    - intros E. apply (powm_inj_mod_q p q g Hp Hq Hgq Hg1) in E; try assumption. now rewrite E.
  Qed.

  (* two different in-range responses never give the same recomputed commitment *)
  Corollary recommit_distinct (r r' X Xi : Z) : 0 <= r < q -> 0 <= r' < q -> r <> r' -> (X * Xi) mod p = 1 ->
    (powm g r p * X) mod p <> (powm g r' p * X) mod p.
  Proof.
    intros Hr Hr' N HX E. apply (recommit_inj r r' X Xi) in E; try lia; try assumption.
    rewrite !Z.mod_small in E by lia. contradiction.
  Qed.
End Binding.

(* hence: replacing an in-range response by another in-range one changes the string that is hashed *)
Theorem key_response_changes_hash_input (G : grp) (foo r r' X Xi : Z) :
  1 < gp G -> prime (gq G) -> powm (gg G) (gq G) (gp G) = 1 -> gg G mod gp G <> 1 ->
  0 <= r < gq G -> 0 <= r' < gq G -> r <> r' -> (X * Xi) mod gp G = 1 ->
  fs_ser (key_hash_input G foo ((powm (gg G) r (gp G) * X) mod gp G)) <>
  fs_ser (key_hash_input G foo ((powm (gg G) r' (gp G) * X) mod gp G)).
Proof.
  intros Hp Hq Hgq Hg1 Hr Hr' N HX E. apply fs_ser_inj in E. unfold key_hash_input in E.
  inversion E as [E']. revert E'. now apply (recommit_distinct (gp G) (gq G) (gg G) Hp Hq Hgq Hg1 r r' X Xi).
Qed.

(* ---- interactive variant: rejection of a different in-range response is unconditional ------------------ *)
Lemma table_walk_small tl b ax p : 0 < ax -> bits ax <= tl -> table_walk tl b ax p = powm b ax p.
Proof.
  intros H1 H2. unfold table_walk. destruct (Z.eqb_spec ax 0); [lia|].
  destruct (Z.leb_spec (bits ax) tl); [reflexivity|lia].
Qed.

Lemma bits_mono a b : 0 <= a <= b -> bits a <= bits b.
Proof.
  intros H. unfold bits. pose proof (Z.log2_nonneg (Z.abs b)) as L.
  destruct (Z.eqb_spec a 0), (Z.eqb_spec b 0); try lia.
  rewrite !Z.abs_eq by lia. pose proof (Z.log2_le_mono a b). lia.
Qed.

Theorem keyint_accept_iff G key m1 c m2 :
  keyint_verify G key m1 c m2 = Accept <->
  check_element G m1 = true /\ check_element G key = true /\ Z.abs m2 < gq G /\
  exists v kc ki, fpowm (gtg G) (tlen G) (gg G) m2 (gp G) = Some v /\ mpz_powm key c (gp G) = Some kc /\
                  invm kc (gp G) = Some ki /\ m1 = (v * ki) mod gp G.
Proof.
  unfold keyint_verify. split.
  - destruct (check_element G m1); cbn [negb andb]; [|discriminate].
    destruct (check_element G key); cbn [negb]; [|discriminate].
    destruct (Z.leb_spec (gq G) (Z.abs m2)); [discriminate|].
    destruct (fpowm (gtg G) (tlen G) (gg G) m2 (gp G)) as [v|]; [|discriminate].
    destruct (mpz_powm key c (gp G)) as [kc|]; [|discriminate].
    destruct (invm kc (gp G)) as [ki|] eqn:EI; [|discriminate].
    destruct (Z.eqb_spec m1 ((v * ki) mod gp G)); [|discriminate].
    intros _. repeat split; try lia. exists v, kc, ki. repeat split; auto.
  - intros (A & A' & B & v & kc & ki & C & D & E & F). rewrite A, A'. cbn [negb andb].
    destruct (Z.leb_spec (gq G) (Z.abs m2)); [lia|]. rewrite C, D, E, <- F. now rewrite Z.eqb_refl.
Qed.

(* ---- mpz_invert: a returned value is an inverse ------------------------------------------------------------ *)
Lemma egcd_fuel_inv a p : forall fuel r0 r1 s0 s1,
  (exists t0, r0 = s0 * a + t0 * p) -> (exists t1, r1 = s1 * a + t1 * p) ->
  exists t, fst (egcd_fuel fuel r0 r1 s0 s1) = snd (egcd_fuel fuel r0 r1 s0 s1) * a + t * p.
Proof.
  induction fuel as [|f IH]; intros r0 r1 s0 s1 [t0 H0] [t1 H1]; cbn [egcd_fuel].
  - exists t0. exact H0.
  - destruct (Z.eqb_spec r1 0).
    + exists t0. exact H0.
    + apply IH; [now exists t1|]. exists (t0 - r0 / r1 * t1). rewrite H0 at 1. rewrite H1 at 2. ring.
Qed.

Theorem invm_spec a p i : 1 < p -> invm a p = Some i -> 0 <= i < p /\ (i * a) mod p = 1.
Proof.
  intros Hp. unfold invm. destruct (Z.leb_spec p 0); [lia|].
  set (F := S (2 * Z.to_nat (Z.log2_up p + 1))).
  assert (I : exists t, fst (egcd_fuel F (a mod p) p 1 0) = snd (egcd_fuel F (a mod p) p 1 0) * a + t * p).
  { apply egcd_fuel_inv.
    - exists (- (a / p)). pose proof (Z.div_mod a p ltac:(lia)). lia.
    - exists 1. ring. }
  destruct (egcd_fuel F (a mod p) p 1 0) as [g s]. cbn [fst snd] in I. destruct I as [t I].
  destruct (Z.eqb_spec g 1) as [G1|].
  - intros E. inversion E; subst i. split; [apply Z.mod_pos_bound; lia|].
    rewrite Zmult_mod_idemp_l. replace (s * a) with (1 + (- t) * p) by lia.
    rewrite Z.mod_add by lia. apply Z.mod_1_l. lia.
  - destruct (Z.eqb_spec p 1); [lia|discriminate].
Qed.

(* ---- the interactive response is bound modulo q, negative representatives included ------------------------- *)
Section KeyInt.
  Variable G : grp.
  Hypothesis Hp : 1 < gp G.
  Hypothesis Hq : prime (gq G).
  Hypothesis Hgq : powm (gg G) (gq G) (gp G) = 1.
  Hypothesis Hg1 : gg G mod gp G <> 1.
  Hypothesis Htab : bits (gq G) <= TMCG_MAX_FPOWM_T.

  Let q_pos : 1 < gq G.
  Proof. destruct Hq. lia. Qed.

  Lemma bits_pos z : 1 <= bits z.
  Proof. unfold bits. destruct (Z.eqb_spec z 0); [lia|]. pose proof (Z.log2_nonneg (Z.abs z)). lia. Qed.

  Lemma walk_in_range a : 0 <= a < gq G -> table_walk (tlen G) (gg G) a (gp G) = powm (gg G) a (gp G).
  Proof.
    intros Ha. unfold table_walk. destruct (Z.eqb_spec a 0) as [->|N].
    - cbn [powm]. symmetry. apply Z.mod_1_l. lia.
    - assert (B : bits a <= bits (gq G)) by (apply bits_mono; lia).
      unfold tlen. destruct (Z.leb_spec (bits a) (Z.min (bits (gq G)) TMCG_MAX_FPOWM_T)); [reflexivity|lia].
  Qed.

  (* a response in (-q, q) is raised as its residue modulo q: negative values go through the inversion *)
  Theorem fpowm_in_range x v : - gq G < x < gq G ->
    fpowm (gtg G) (tlen G) (gg G) x (gp G) = Some v -> v = powm (gg G) (x mod gq G) (gp G).
  Proof.
    intros Hx. unfold fpowm.
    destruct (Z.eqb_spec (gg G) (gtg G)); cbn [negb]; [|discriminate].
    assert (Ba : bits (Z.abs x) <= TMCG_MAX_FPOWM_T).
    { assert (bits (Z.abs x) <= bits (gq G)) by (apply bits_mono; lia). lia. }
    destruct (Z.ltb_spec TMCG_MAX_FPOWM_T (bits (Z.abs x))); [lia|].
    rewrite walk_in_range by lia.
    destruct (Z.ltb_spec x 0) as [Neg|Pos].
    - intros E. apply invm_spec in E; [|assumption]. destruct E as [Rv E].
      set (a := Z.abs x) in *. assert (Ha : 0 < a < gq G) by (unfold a; lia).
      replace (x mod gq G) with (gq G - a).
      2:{ unfold a. rewrite Z.abs_neq by lia. symmetry. replace x with (gq G - - x + (-1) * gq G) at 1 by lia.
          rewrite Z.mod_add by lia. apply Z.mod_small. lia. }
      (* v = v * (g^a * g^(q-a)) = (v * g^a) * g^(q-a) = g^(q-a) *)
      assert (P : (powm (gg G) a (gp G) * powm (gg G) (gq G - a) (gp G)) mod gp G = 1).
      { rewrite <- powm_add by lia. replace (a + (gq G - a)) with (gq G) by lia. rewrite Hgq. reflexivity || (apply Z.mod_1_l; lia). }
      assert (R2 : 0 <= powm (gg G) (gq G - a) (gp G) < gp G) by (apply powm_range; lia).
      rewrite <- (Z.mod_small v (gp G)) by lia.
      rewrite <- (Z.mul_1_r v). rewrite <- P. rewrite Zmult_mod_idemp_r.
      rewrite Z.mul_assoc. rewrite <- Zmult_mod_idemp_l. rewrite E. rewrite Z.mul_1_l. apply Z.mod_small. assumption.
    - intros E. inversion E. rewrite Z.abs_eq by lia. now rewrite Z.mod_small by lia.
  Qed.

  (* two accepted responses to the same (key, m1, c) are the same residue modulo q: a response of a different
     residue is refused unconditionally (no hash involved) *)
  Theorem keyint_response_bound key m1 c m2 m2' :
    keyint_verify G key m1 c m2 = Accept -> keyint_verify G key m1 c m2' = Accept -> m2 mod gq G = m2' mod gq G.
  Proof.
    intros A B. apply keyint_accept_iff in A, B.
    destruct A as (_ & _ & R & v & kc & ki & F1 & K1 & I1 & E1).
    destruct B as (_ & _ & R' & v' & kc' & ki' & F2 & K2 & I2 & E2).
    rewrite K1 in K2. inversion K2; subst kc'. rewrite I1 in I2. inversion I2; subst ki'.
    apply fpowm_in_range in F1; [|lia]. apply fpowm_in_range in F2; [|lia]. subst v v'.
    apply invm_spec in I1; [|assumption]. destruct I1 as [_ I1].
    assert (M : 0 <= m2 mod gq G < gq G) by (apply Z.mod_pos_bound; lia).
    assert (M' : 0 <= m2' mod gq G < gq G) by (apply Z.mod_pos_bound; lia).
    rewrite E1 in E2.
    apply (recommit_inj (gp G) (gq G) (gg G) Hp Hq Hgq Hg1 (m2 mod gq G) (m2' mod gq G) ki kc) in E2; try lia.
    rewrite !Z.mod_mod in E2 by lia. exact E2.
  Qed.

  Corollary keyint_other_residue_rejected key m1 c m2 m2' :
    keyint_verify G key m1 c m2 = Accept -> m2 mod gq G <> m2' mod gq G -> keyint_verify G key m1 c m2' <> Accept.
  Proof. intros A N B. apply N. eapply keyint_response_bound; eassumption. Qed.
End KeyInt.

(* the key share must be a member of the subgroup (0abf554) *)
Corollary keyint_key_member G key m1 c m2 : keyint_verify G key m1 c m2 = Accept ->
  0 < key < gp G /\ powm key (gq G) (gp G) = 1.
Proof.
  intros A. apply keyint_accept_iff in A. destruct A as (_ & E & _).
  unfold check_element in E. apply andb_true_iff in E. destruct E as [E E3].
  apply andb_true_iff in E. destruct E as [E1 E2]. apply Z.ltb_lt in E1, E2. apply Z.eqb_eq in E3. lia.
Qed.

(* ---- OR proof: the two challenge parts only enter through their sum modulo q and as exponents ---------- *)
Theorem or_accept_iff H G y1 y2 g1 g2 c1 c2 r1 r2 :
  or_verify H G y1 y2 g1 g2 c1 c2 r1 r2 = Accept <->
  Z.abs r1 < gq G /\ Z.abs r2 < gq G /\ Z.abs c1 < gq G /\ Z.abs c2 < gq G /\
  check_element G y1 = true /\ check_element G y2 = true /\
  exists a1 b1 a2 b2, mpz_powm y1 c1 (gp G) = Some a1 /\ mpz_powm g1 r1 (gp G) = Some b1 /\
    mpz_powm y2 c2 (gp G) = Some a2 /\ mpz_powm g2 r2 (gp G) = Some b2 /\
    (c1 + c2) mod gq G = H (or_hash_input G g1 y1 g2 y2 ((a1 * b1) mod gp G) ((a2 * b2) mod gp G)) mod gq G.
Proof.
  unfold or_verify. split.
  - destruct (Z.leb_spec (gq G) (Z.abs r1)); cbn [orb]; [discriminate|].
    destruct (Z.leb_spec (gq G) (Z.abs r2)); [discriminate|].
    destruct (Z.leb_spec (gq G) (Z.abs c1)); cbn [orb]; [discriminate|].
    destruct (Z.leb_spec (gq G) (Z.abs c2)); [discriminate|].
    destruct (check_element G y1); [|discriminate]. destruct (check_element G y2); [|discriminate]. cbn [andb negb].
    destruct (mpz_powm y1 c1 (gp G)) as [a1|]; [|discriminate].
    destruct (mpz_powm g1 r1 (gp G)) as [b1|]; [|discriminate].
    destruct (mpz_powm y2 c2 (gp G)) as [a2|]; [|discriminate].
    destruct (mpz_powm g2 r2 (gp G)) as [b2|]; [|discriminate].
    match goal with |- context [if ?a =? ?b then _ else _] => destruct (Z.eqb_spec a b) end; [|discriminate].
    intros _. repeat split; try lia. exists a1, b1, a2, b2. repeat split; auto.
  - intros (A & B & C & D & Y1 & Y2 & a1 & b1 & a2 & b2 & E1 & E2 & E3 & E4 & E5).
    destruct (Z.leb_spec (gq G) (Z.abs r1)); [lia|]. destruct (Z.leb_spec (gq G) (Z.abs r2)); [lia|]. cbn [orb].
    destruct (Z.leb_spec (gq G) (Z.abs c1)); [lia|]. destruct (Z.leb_spec (gq G) (Z.abs c2)); [lia|]. cbn [orb].
    rewrite Y1, Y2. cbn [andb negb]. rewrite E1, E2, E3, E4, E5. now rewrite Z.eqb_refl.
Qed.

Corollary or_member_rules H G y1 y2 g1 g2 c1 c2 r1 r2 : or_verify H G y1 y2 g1 g2 c1 c2 r1 r2 = Accept ->
  (0 < y1 < gp G /\ powm y1 (gq G) (gp G) = 1) /\ (0 < y2 < gp G /\ powm y2 (gq G) (gp G) = 1).
Proof. intros A. apply or_accept_iff in A. destruct A as (_ & _ & _ & _ & Y1 & Y2 & _). split; now apply check_element_member. Qed.

(* range rules as coded since fae6d38: all four transmitted values lie in (-q, q) *)
Corollary or_range_rules H G y1 y2 g1 g2 c1 c2 r1 r2 : or_verify H G y1 y2 g1 g2 c1 c2 r1 r2 = Accept ->
  - gq G < c1 < gq G /\ - gq G < c2 < gq G /\ - gq G < r1 < gq G /\ - gq G < r2 < gq G.
Proof. intros A. apply or_accept_iff in A. destruct A as (A & B & C & D & _). lia. Qed.

(* in particular a challenge part shifted by q (the same residue, formerly reduced silently) is refused *)
Corollary or_plus_q_rejected H G y1 y2 g1 g2 c1 c2 r1 r2 : 0 < gq G -> 0 <= c1 ->
  or_verify H G y1 y2 g1 g2 (c1 + gq G) c2 r1 r2 <> Accept.
Proof. intros Hq Hc A. apply or_range_rules in A. lia. Qed.
