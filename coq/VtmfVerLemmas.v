(* VtmfVerLemmas: acceptance characterisations, range rules and binding lemmas for the VTMF-layer verifiers. *)
From Coq Require Import ZArith Znumtheory List Bool Lia.
From LT Require Import Zbase gen_Consts FsModel FsLemmas VtmfVerModel.
Import ListNotations.
Local Open Scope Z_scope.

(* ---- acceptance <-> range checks /\ c = H(inputs ++ recomputed commitments) ---------------------------- *)
Theorem key_accept_iff H G foo c r :
  key_verify H G foo c r = Accept <->
  check_element G foo = true /\ bits c <= ghb G /\ Z.abs r < gq G /\
  exists t2 c2, fpowm (gtg G) (tlen G) (gg G) r (gp G) = Some t2 /\ mpz_powm foo c (gp G) = Some c2 /\
                c = H (key_hash_input G foo ((t2 * c2) mod gp G)).
Proof.
  unfold key_verify. split.
  - destruct (check_element G foo); cbn [negb]; [|discriminate].
    destruct (Z.ltb_spec (ghb G) (bits c)); [discriminate|].
    destruct (Z.leb_spec (gq G) (Z.abs r)); [discriminate|].
    destruct (fpowm (gtg G) (tlen G) (gg G) r (gp G)) as [t2|]; [|discriminate].
    destruct (mpz_powm foo c (gp G)) as [c2|]; [|discriminate].
    destruct (Z.eqb_spec c (H (key_hash_input G foo ((t2 * c2) mod gp G)))); [|discriminate].
    intros _. repeat split; try lia. exists t2, c2. auto.
  - intros (A & B & C & t2 & c2 & D & E & F).
    rewrite A. cbn [negb].
    destruct (Z.ltb_spec (ghb G) (bits c)); [lia|].
    destruct (Z.leb_spec (gq G) (Z.abs r)); [lia|].
    rewrite D, E. rewrite <- F. now rewrite Z.eqb_refl.
Qed.

(* range rules exactly as coded: |r| < q (negative representatives pass), c at most digest length,
   the key share is a member of the order-q subgroup and lies in (0,p) *)
Corollary key_range_rules H G foo c r : key_verify H G foo c r = Accept ->
  - gq G < r < gq G /\ bits c <= ghb G /\ 0 < foo < gp G /\ powm foo (gq G) (gp G) = 1.
Proof.
  intros A. apply key_accept_iff in A. destruct A as (E & B & C & _).
  unfold check_element in E. apply andb_true_iff in E. destruct E as [E E3].
  apply andb_true_iff in E. destruct E as [E1 E2].
  apply Z.ltb_lt in E1, E2. apply Z.eqb_eq in E3. lia.
Qed.

Theorem cp_accept_iff H G x y g' h' c r fp :
  cp_verify H G x y g' h' c r fp = Accept <->
  bits c <= ghb G /\ Z.abs r < gq G /\ (fp = true -> gg G = g' /\ gh G = h') /\
  exists a0 xc b0 yc,
    (if fp then fpowm (gtg G) (tlen G) g' r (gp G) else mpz_powm g' r (gp G)) = Some a0 /\
    mpz_powm x c (gp G) = Some xc /\
    (if fp then fpowm (gth G) (tlen G) h' r (gp G) else mpz_powm h' r (gp G)) = Some b0 /\
    mpz_powm y c (gp G) = Some yc /\
    H (cp_hash_input G ((a0 * xc) mod gp G) ((b0 * yc) mod gp G) x y g' h') = c.
Proof.
  unfold cp_verify. split.
  - destruct (Z.ltb_spec (ghb G) (bits c)); [discriminate|].
    destruct (Z.leb_spec (gq G) (Z.abs r)); [discriminate|].
    destruct (Z.eqb_spec (gg G) g') as [Eg|Ng]; cbn [negb]; rewrite ?andb_false_r, ?andb_true_r.
    2:{ destruct fp; [discriminate|]. cbn [andb].
        destruct (mpz_powm g' r (gp G)) as [a0|]; [|discriminate].
        destruct (mpz_powm x c (gp G)) as [xc|]; [|discriminate].
        destruct (mpz_powm h' r (gp G)) as [b0|]; [|discriminate].
        destruct (mpz_powm y c (gp G)) as [yc|]; [|discriminate].
        destruct (Z.eqb_spec (H (cp_hash_input G ((a0 * xc) mod gp G) ((b0 * yc) mod gp G) x y g' h')) c); [|discriminate].
        intros _. repeat split; try lia; try discriminate. exists a0, xc, b0, yc. auto. }
    destruct (if fp then fpowm (gtg G) (tlen G) g' r (gp G) else mpz_powm g' r (gp G)) as [a0|]; [|destruct fp; discriminate].
    destruct (mpz_powm x c (gp G)) as [xc|]; [|discriminate].
    destruct (Z.eqb_spec (gh G) h') as [Eh|Nh]; cbn [negb]; rewrite ?andb_false_r, ?andb_true_r.
    2:{ destruct fp; [discriminate|].
        destruct (mpz_powm h' r (gp G)) as [b0|]; [|discriminate].
        destruct (mpz_powm y c (gp G)) as [yc|]; [|discriminate].
        destruct (Z.eqb_spec (H (cp_hash_input G ((a0 * xc) mod gp G) ((b0 * yc) mod gp G) x y g' h')) c); [|discriminate].
        intros _. repeat split; try lia; try discriminate. exists a0, xc, b0, yc. auto. }
    destruct (if fp then fpowm (gth G) (tlen G) h' r (gp G) else mpz_powm h' r (gp G)) as [b0|]; [|destruct fp; discriminate].
    destruct (mpz_powm y c (gp G)) as [yc|]; [|discriminate].
    destruct (Z.eqb_spec (H (cp_hash_input G ((a0 * xc) mod gp G) ((b0 * yc) mod gp G) x y g' h')) c); [|discriminate].
    intros _. repeat split; try lia; try assumption. exists a0, xc, b0, yc. auto.
  - intros (B & C & D & a0 & xc & b0 & yc & E1 & E2 & E3 & E4 & E5).
    destruct (Z.ltb_spec (ghb G) (bits c)); [lia|].
    destruct (Z.leb_spec (gq G) (Z.abs r)); [lia|].
    assert (K1 : fp && negb (gg G =? g') = false).
    { destruct fp; [|reflexivity]. destruct (D eq_refl) as [-> _]. now rewrite Z.eqb_refl. }
    assert (K2 : fp && negb (gh G =? h') = false).
    { destruct fp; [|reflexivity]. destruct (D eq_refl) as [_ ->]. now rewrite Z.eqb_refl. }
    rewrite K1, E1, E2, K2, E3, E4, E5. now rewrite Z.eqb_refl.
Qed.

Corollary cp_range_rules H G x y g' h' c r fp : cp_verify H G x y g' h' c r fp = Accept ->
  - gq G < r < gq G /\ bits c <= ghb G /\ (fp = true -> gg G = g' /\ gh G = h').
Proof.
  intros A. apply cp_accept_iff in A. destruct A as (B & C & D & _).
  repeat split; try lia; now apply D.
Qed.

(* the challenge compared is the hash value itself: a different c with the same hash input is refused *)
Theorem key_same_input_rejects H G foo c c' r r' t :
  key_verify H G foo c r = Accept -> key_verify H G foo c' r' = Accept ->
  (forall t2 c2, fpowm (gtg G) (tlen G) (gg G) r (gp G) = Some t2 -> mpz_powm foo c (gp G) = Some c2 -> (t2 * c2) mod gp G = t) ->
  (forall t2 c2, fpowm (gtg G) (tlen G) (gg G) r' (gp G) = Some t2 -> mpz_powm foo c' (gp G) = Some c2 -> (t2 * c2) mod gp G = t) ->
  c = c'.
Proof.
  intros A B Ta Tb. apply key_accept_iff in A, B.
  destruct A as (_ & _ & _ & t2 & c2 & A1 & A2 & A3). destruct B as (_ & _ & _ & t2' & c2' & B1 & B2 & B3).
  rewrite (Ta _ _ A1 A2) in A3. rewrite (Tb _ _ B1 B2) in B3. congruence.
Qed.

(* mask / remask / decrypt are CP_Verify behind membership tests *)
Theorem mask_accept_iff H G m c1 c2 c r :
  mask_verify H G m c1 c2 c r = Accept <->
  check_element G c1 = true /\ check_element G c2 = true /\
  exists mi, invm m (gp G) = Some mi /\ cp_verify H G c1 ((mi * c2) mod gp G) (gg G) (gh G) c r true = Accept.
Proof.
  unfold mask_verify. split.
  - destruct (check_element G c1); [|discriminate]. destruct (check_element G c2); [|discriminate]. cbn [andb negb].
    destruct (invm m (gp G)) as [mi|]; [|discriminate]. intros A. repeat split. now exists mi.
  - intros (A & B & mi & C & D). now rewrite A, B, C.
Qed.

Theorem remask_accept_iff H G c1 c2 d1 d2 c r :
  remask_verify H G c1 c2 d1 d2 c r = Accept <->
  check_element G d1 = true /\ check_element G d2 = true /\
  exists i1 i2, invm c1 (gp G) = Some i1 /\ invm c2 (gp G) = Some i2 /\
    cp_verify H G ((i1 * d1) mod gp G) ((i2 * d2) mod gp G) (gg G) (gh G) c r true = Accept.
Proof.
  unfold remask_verify. split.
  - destruct (check_element G d1); [|discriminate]. destruct (check_element G d2); [|discriminate]. cbn [andb negb].
    destruct (invm c1 (gp G)) as [i1|]; [|discriminate]. destruct (invm c2 (gp G)) as [i2|]; [|discriminate].
    intros A. repeat split. now exists i1, i2.
  - intros (A & B & i1 & i2 & C & D & E). now rewrite A, B, C, D.
Qed.

Theorem decrypt_accept_iff H G c1 hj dj c r :
  decrypt_verify H G c1 hj dj c r = Accept <->
  exists k, hj = Some k /\ check_element G dj = true /\ cp_verify H G dj k c1 (gg G) c r false = Accept.
Proof.
  unfold decrypt_verify. split.
  - destruct hj as [k|]; [|discriminate]. destruct (check_element G dj); [|discriminate]. cbn [negb].
    intros A. now exists k.
  - intros (k & -> & B & C). now rewrite B.
Qed.

(* ---- the recomputed commitment is injective in the response modulo q ----------------------------------- *)
Section Binding.
  Variables p q g : Z.
  Hypothesis Hp : 1 < p.
  Hypothesis Hq : prime q.
  Hypothesis Hgq : powm g q p = 1.
  Hypothesis Hg1 : g mod p <> 1.

  Lemma cancel_unit (a b X Xi : Z) : 0 <= a < p -> 0 <= b < p -> (X * Xi) mod p = 1 ->
    (a * X) mod p = (b * X) mod p -> a = b.
  Proof.
    intros Ha Hb HX E.
    assert (K : forall u, 0 <= u < p -> ((u * X) mod p * Xi) mod p = u).
    { intros u Hu. rewrite Zmult_mod_idemp_l. rewrite <- Z.mul_assoc. rewrite <- Zmult_mod_idemp_r. rewrite HX.
      rewrite Z.mul_1_r. apply Z.mod_small. assumption. }
    rewrite <- (K a Ha), <- (K b Hb). now rewrite E.
  Qed.

  (* Schnorr / Chaum-Pedersen style recommitment  g^r * X  with an invertible X (= statement^c) *)
  Theorem recommit_inj (r r' X Xi : Z) : 0 <= r -> 0 <= r' -> (X * Xi) mod p = 1 ->
    ((powm g r p * X) mod p = (powm g r' p * X) mod p <-> r mod q = r' mod q).
  Proof.
    intros Hr Hr' HX. split.
    - intros E. apply (cancel_unit _ _ X Xi) in E; try assumption; try (apply powm_range; lia).
      now apply (powm_inj_mod_q p q g Hp Hq Hgq Hg1) in E.
    - intros E. apply (powm_inj_mod_q p q g Hp Hq Hgq Hg1) in E; try assumption. now rewrite E.
  Qed.

  (* two different in-range responses never give the same recomputed commitment *)
  Corollary recommit_distinct (r r' X Xi : Z) : 0 <= r < q -> 0 <= r' < q -> r <> r' -> (X * Xi) mod p = 1 ->
    (powm g r p * X) mod p <> (powm g r' p * X) mod p.
  Proof.
    intros Hr Hr' N HX E. apply (recommit_inj r r' X Xi) in E; try lia; try assumption.
    rewrite !Z.mod_small in E by lia. contradiction.
  Qed.
End Binding.

(* hence: replacing an in-range response by another in-range one changes the string that is hashed *)
Theorem key_response_changes_hash_input (G : grp) (foo r r' X Xi : Z) :
  1 < gp G -> prime (gq G) -> powm (gg G) (gq G) (gp G) = 1 -> gg G mod gp G <> 1 ->
  0 <= r < gq G -> 0 <= r' < gq G -> r <> r' -> (X * Xi) mod gp G = 1 ->
  fs_ser (key_hash_input G foo ((powm (gg G) r (gp G) * X) mod gp G)) <>
  fs_ser (key_hash_input G foo ((powm (gg G) r' (gp G) * X) mod gp G)).
Proof.
  intros Hp Hq Hgq Hg1 Hr Hr' N HX E. apply fs_ser_inj in E. unfold key_hash_input in E.
  inversion E as [E']. revert E'. now apply (recommit_distinct (gp G) (gq G) (gg G) Hp Hq Hgq Hg1 r r' X Xi).
Qed.

(* ---- interactive variant: rejection of a different in-range response is unconditional ------------------ *)
Lemma table_walk_small tl b ax p : 0 < ax -> bits ax <= tl -> table_walk tl b ax p = powm b ax p.
Proof.
  intros H1 H2. unfold table_walk. destruct (Z.eqb_spec ax 0); [lia|].
  destruct (Z.leb_spec (bits ax) tl); [reflexivity|lia].
Qed.

Lemma bits_mono a b : 0 <= a <= b -> bits a <= bits b.
Proof.
  intros H. unfold bits. pose proof (Z.log2_nonneg (Z.abs b)) as L.
  destruct (Z.eqb_spec a 0), (Z.eqb_spec b 0); try lia.
  rewrite !Z.abs_eq by lia. pose proof (Z.log2_le_mono a b). lia.
Qed.

Theorem keyint_accept_iff G key m1 c m2 :
  keyint_verify G key m1 c m2 = Accept <->
  check_element G m1 = true /\ Z.abs m2 < gq G /\
  exists v kc ki, fpowm_aliased (gtg G) (tlen G) (gg G) m2 (gp G) = Some v /\ mpz_powm key c (gp G) = Some kc /\
                  invm kc (gp G) = Some ki /\ m1 = (v * ki) mod gp G.
Proof.
  unfold keyint_verify. split.
  - destruct (check_element G m1); cbn [negb]; [|discriminate].
    destruct (Z.leb_spec (gq G) (Z.abs m2)); [discriminate|].
    destruct (fpowm_aliased (gtg G) (tlen G) (gg G) m2 (gp G)) as [v|]; [|discriminate].
    destruct (mpz_powm key c (gp G)) as [kc|]; [|discriminate].
    destruct (invm kc (gp G)) as [ki|] eqn:EI; [|discriminate].
    destruct (Z.eqb_spec m1 ((v * ki) mod gp G)); [|discriminate].
    intros _. repeat split; try lia. exists v, kc, ki. repeat split; auto.
  - intros (A & B & v & kc & ki & C & D & E & F). rewrite A. cbn [negb].
    destruct (Z.leb_spec (gq G) (Z.abs m2)); [lia|]. rewrite C, D, E, <- F. now rewrite Z.eqb_refl.
Qed.

(* the code as it is: the sign of the response is ignored (the aliasing of res and x in tmcg_mpz_fpowm), so the
   non-equivalent value -m2 is accepted whenever m2 is: binding of the interactive response is refuted *)
Theorem keyint_sign_ignored G key m1 c m2 : keyint_verify G key m1 c (- m2) = keyint_verify G key m1 c m2.
Proof. unfold keyint_verify, fpowm_aliased. now rewrite Z.abs_opp. Qed.

(* ---- OR proof: the two challenge parts only enter through their sum modulo q and as exponents ---------- *)
Theorem or_accept_iff H G y1 y2 g1 g2 c1 c2 r1 r2 :
  or_verify H G y1 y2 g1 g2 c1 c2 r1 r2 = Accept <->
  Z.abs r1 < gq G /\ Z.abs r2 < gq G /\
  exists a1 b1 a2 b2, mpz_powm y1 c1 (gp G) = Some a1 /\ mpz_powm g1 r1 (gp G) = Some b1 /\
    mpz_powm y2 c2 (gp G) = Some a2 /\ mpz_powm g2 r2 (gp G) = Some b2 /\
    (c1 + c2) mod gq G = H (or_hash_input G g1 y1 g2 y2 ((a1 * b1) mod gp G) ((a2 * b2) mod gp G)) mod gq G.
Proof.
  unfold or_verify. split.
  - destruct (Z.leb_spec (gq G) (Z.abs r1)); cbn [orb]; [discriminate|].
    destruct (Z.leb_spec (gq G) (Z.abs r2)); [discriminate|].
    destruct (mpz_powm y1 c1 (gp G)) as [a1|]; [|discriminate].
    destruct (mpz_powm g1 r1 (gp G)) as [b1|]; [|discriminate].
    destruct (mpz_powm y2 c2 (gp G)) as [a2|]; [|discriminate].
    destruct (mpz_powm g2 r2 (gp G)) as [b2|]; [|discriminate].
    match goal with |- context [if ?a =? ?b then _ else _] => destruct (Z.eqb_spec a b) end; [|discriminate].
    intros _. repeat split; try lia. exists a1, b1, a2, b2. repeat split; auto.
  - intros (A & B & a1 & b1 & a2 & b2 & E1 & E2 & E3 & E4 & E5).
    destruct (Z.leb_spec (gq G) (Z.abs r1)); [lia|]. destruct (Z.leb_spec (gq G) (Z.abs r2)); [lia|]. cbn [orb].
    rewrite E1, E2, E3, E4, E5. now rewrite Z.eqb_refl.
Qed.

(* a member y1 (y1^q = 1) raised to c1 + q gives the same value: the challenge part is silently reduced *)
Lemma powm_plus_q y c p q : 0 < p -> 0 <= c -> 0 <= q -> powm y q p = 1 -> powm y (c + q) p = powm y c p.
Proof.
  intros Hp Hc Hq E. rewrite powm_add by lia. rewrite E. rewrite Z.mul_1_r.
  apply Z.mod_small. apply powm_range; lia.
Qed.

Theorem or_challenge_not_range_checked H G y1 y2 g1 g2 c1 c2 r1 r2 :
  0 < gp G -> 0 < gq G -> 0 <= c1 -> powm y1 (gq G) (gp G) = 1 ->
  or_verify H G y1 y2 g1 g2 (c1 + gq G) c2 r1 r2 = or_verify H G y1 y2 g1 g2 c1 c2 r1 r2.
Proof.
  intros Hp Hq Hc E. unfold or_verify, mpz_powm.
  destruct (Z.ltb_spec (c1 + gq G) 0); [lia|]. destruct (Z.ltb_spec c1 0); [lia|].
  rewrite powm_plus_q by (try assumption; lia).
  replace ((c1 + gq G + c2) mod gq G) with ((c1 + c2) mod gq G); [reflexivity|].
  replace (c1 + gq G + c2) with (c1 + c2 + 1 * gq G) by lia. now rewrite Z.mod_add by lia.
Qed.
