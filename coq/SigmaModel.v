(* SigmaModel: executable model of the zero-knowledge proofs of the VTMF layer (C03): provers as functions of
   (statement, witness, coins, hash oracle), verifiers as functions of (statement, transcript, oracle) with the
   outcome Accept | Reject | Throw.
   Anchors: src/BarnettSmartVTMF_dlog.cc
     :455-495 KeyGenerationProtocol_ProveKey_interactive      :541-591 KeyGenerationProtocol_VerifyKey_interactive
     :654-694 CP_Prove      :696-752 CP_Verify (incl. the fpowm_usage branch and its base checks)
     :754-838 OR_ProveFirst / OR_ProveSecond                  :840-886 OR_Verify
     :888-911 MaskingValue, VerifiableMaskingProtocol_Mask    :913-931 VerifiableMaskingProtocol_Prove
     :933-961 VerifiableMaskingProtocol_Verify                :963-1000 VerifiableRemaskingProtocol_Mask / _Remask
     :1002-1024 VerifiableRemaskingProtocol_Prove             :1026-1058 VerifiableRemaskingProtocol_Verify
     :1060-1075 VerifiableDecryptionProtocol_Prove            :1077-1084 _Verify_Initialize
     :1086-1126 VerifiableDecryptionProtocol_Verify_Update    :1128-1138 _Verify_Finalize
   (the key-share NIZK :293-371 is in KeyRingModel.v).
   Conventions as in KeyRingModel.v: H = hash oracle on the argument list, `good` = in.good() after the reads,
   coins `raw` = the big-endian integers tmcg_mpz_srandomm imports.  `assert`s are compiled in (the library is
   built without NDEBUG); an assertion failure, a GMP abort and a C++ exception are all `None` / `Throw`.
   h = the common public key, th = fpowm_table_h as KeyGenerationProtocol_Finalize left it.
   Definitions only -- proofs live in SigmaLemmas.v. *)
From Coq Require Import ZArith List Bool.
From LT Require Import Zbase gen_Consts SigmaPrim KeyRingModel.
Import ListNotations.
Local Open Scope Z_scope.

Section Sigma.
  Variable H : list Z -> Z.
  Variable hbits : Z.
  Variable G : group.
  Variable h : Z.           (* common public key *)
  Variable th : ftable.     (* fpowm_table_h *)

  Let p := gp G.
  Let q := gq G.
  Let g := gg G.
  Let tg := table_g G.

  (* mpz_invert(foo, a, p) ; foo := 0 when it fails ("indicates an error") *)
  Definition inv_or_zero (a : Z) : Z := match invm a p with Some i => i | None => 0 end.

  (* ---- interactive proof of knowledge of the key share (3 moves) --------------------------------------- *)
  (* prover, first move: coin -> (r, m_1) *)
  Definition keyi_commit (raw : Z) : option (Z * Z) :=
    let r := srandomm raw q in
    match fspowm tg g r p with None => None | Some m1 => Some (r, m1) end.

  (* prover, after reading the challenge c (good = in.good()): Some m_2, or None = returns false *)
  Definition keyi_respond (x r : Z) (good : bool) (c : Z) : option Z :=
    if negb good then None
    else if q <=? Z.abs c then None
    else Some (((c * x) mod q + r) mod q).

  (* verifier: m_1 as read, its coin, m_2 as read *)
  Definition keyi_challenge (raw : Z) : Z := srandomm raw q.

  Definition keyi_verify (key : Z) (good1 : bool) (m1 : Z) (c : Z) (good2 : bool) (m2 : Z) : verdict :=
    if negb good1 then Reject
    else if negb (check_element G m1) || negb (check_element G key) then Reject
    else if negb good2 then Reject
    else if q <=? Z.abs m2 then Reject
    else match fpowm tg g m2 p with
         | None => Throw
         | Some a =>
           match mpz_powm key c p with
           | None => Throw
           | Some kc =>
             match invm kc p with
             | None => Reject
             | Some ki => if m1 =? (a * ki) mod p then Accept else Reject
             end
           end
         end.

  (* ---- Chaum-Pedersen equality of discrete logarithms ---------------------------------------------------- *)
  Definition cp_prove (x y g2 h2 alpha raw : Z) (fp : bool) : option (Z * Z) :=
    let omega := srandomm raw q in
    let ab :=
      if fp then
        if (g =? g2) && (h =? h2) then       (* assert(!mpz_cmp(g, gg) && !mpz_cmp(h, hh)) *)
          match fspowm tg g2 omega p with
          | None => None
          | Some a => match fspowm th h2 omega p with None => None | Some b => Some (a, b) end
          end
        else None
      else
        match spowm g2 omega p with
        | None => None
        | Some a => match spowm h2 omega p with None => None | Some b => Some (a, b) end
        end in
    match ab with
    | None => None
    | Some (a, b) =>
      let c := H [p; q; g; h; a; b; x; y; g2; h2] in
      Some (c, (- (c * alpha) + omega) mod q)
    end.

  Definition cp_verify (x y g2 h2 : Z) (good : bool) (c r : Z) (fp : bool) : verdict :=
    if negb good then Reject
    else if hbits <? sizeinbase2 c then Reject
    else if q <=? Z.abs r then Reject
    else
      let finish (a0 : Z) :=
        match mpz_powm x c p with
        | None => Throw
        | Some xc =>
          let a := (a0 * xc) mod p in
          let finish2 (b0 : Z) :=
            match mpz_powm y c p with
            | None => Throw
            | Some yc =>
              let b := (b0 * yc) mod p in
              if H [p; q; g; h; a; b; x; y; g2; h2] =? c then Accept else Reject
            end in
          if fp then
            if negb (h =? h2) then Reject
            else match fpowm th h2 r p with None => Throw | Some b0 => finish2 b0 end
          else match mpz_powm h2 r p with None => Throw | Some b0 => finish2 b0 end
        end in
      if fp then
        if negb (g =? g2) then Reject
        else match fpowm tg g2 r p with None => Throw | Some a0 => finish a0 end
      else match mpz_powm g2 r p with None => Throw | Some a0 => finish a0 end.

  (* ---- OR proof: y_1 = g_1^alpha  or  y_2 = g_2^alpha ------------------------------------------------------ *)
  Definition or_challenge (y1 y2 g1 g2 t1 t2 : Z) : Z := (H [p; q; g; h; g1; y1; g2; y2; t1; t2]) mod q.

  (* coins in the order drawn: v_1, v_2, w ; output (c_1, c_2, r_1, r_2) *)
  Definition or_prove_first (y1 y2 g1 g2 alpha raw1 raw2 raw3 : Z) : option (Z * Z * Z * Z) :=
    let v1 := srandomm raw1 q in let v2 := srandomm raw2 q in let w := srandomm raw3 q in
    match spowm y2 w p with None => None | Some a =>
    match spowm g2 v2 p with None => None | Some b =>
    let t2 := (a * b) mod p in
    match spowm g1 v1 p with None => None | Some t1 =>
    let c := or_challenge y1 y2 g1 g2 t1 t2 in
    let c2 := w in
    let c1 := (c - c2) mod q in
    let r2 := v2 mod q in
    let r1 := (v1 - (c1 * alpha) mod q) mod q in
    Some (c1, c2, r1, r2)
    end end end.

  Definition or_prove_second (y1 y2 g1 g2 alpha raw1 raw2 raw3 : Z) : option (Z * Z * Z * Z) :=
    let v1 := srandomm raw1 q in let v2 := srandomm raw2 q in let w := srandomm raw3 q in
    match spowm y1 w p with None => None | Some a =>
    match spowm g1 v1 p with None => None | Some b =>
    let t1 := (a * b) mod p in
    match spowm g2 v2 p with None => None | Some t2 =>
    let c := or_challenge y1 y2 g1 g2 t1 t2 in
    let c1 := w in
    let c2 := (c - c1) mod q in
    let r1 := v1 mod q in
    let r2 := (v2 - (c2 * alpha) mod q) mod q in
    Some (c1, c2, r1, r2)
    end end end.

  Definition or_verify (y1 y2 g1 g2 : Z) (good : bool) (c1 c2 r1 r2 : Z) : verdict :=
    if negb good then Reject
    else if (q <=? Z.abs r1) || (q <=? Z.abs r2) then Reject
    else if (q <=? Z.abs c1) || (q <=? Z.abs c2) then Reject
    else if negb (check_element G y1) || negb (check_element G y2) then Reject
    else match mpz_powm y1 c1 p with None => Throw | Some a1 =>
         match mpz_powm g1 r1 p with None => Throw | Some b1 =>
         let t1 := (a1 * b1) mod p in
         match mpz_powm y2 c2 p with None => Throw | Some a2 =>
         match mpz_powm g2 r2 p with None => Throw | Some b2 =>
         let t2 := (a2 * b2) mod p in
         if (c1 + c2) mod q =? or_challenge y1 y2 g1 g2 t1 t2 then Accept else Reject
         end end end end.

  (* ---- masking ------------------------------------------------------------------------------------------ *)
  (* BarnettSmartVTMF_dlog::MaskingValue: redraw while the value is 0 or 1; None = the coin list ran out *)
  Fixpoint vtmf_masking_value (raws : list Z) : option Z :=
    match raws with
    | [] => None
    | raw :: rest => let v := srandomm raw q in if (v =? 0) || (v =? 1) then vtmf_masking_value rest else Some v
    end.

  (* VerifiableMaskingProtocol_Mask with the masking value r already chosen: (c_1, c_2) *)
  Definition vtmf_mask (m r : Z) : option (Z * Z) :=
    match fspowm tg g r p with
    | None => None
    | Some c1 => match fspowm th h r p with None => None | Some hr => Some (c1, (hr * m) mod p) end
    end.

  Definition mask_prove (m c1 c2 r raw : Z) : option (Z * Z) :=
    match invm m p with
    | None => None                                    (* assert(mpz_invert(foo, m, p)) *)
    | Some mi => cp_prove c1 ((mi * c2) mod p) g h r raw true
    end.

  Definition mask_verify (m c1 c2 : Z) (good : bool) (c r : Z) : verdict :=
    if negb (check_element G m) then Reject
    else if negb (check_element G c1) then Reject
    else if negb (check_element G c2) then Reject
    else match invm m p with
         | None => Reject
         | Some mi => cp_verify c1 ((mi * c2) mod p) g h good c r true
         end.

  (* ---- re-masking --------------------------------------------------------------------------------------- *)
  (* VerifiableRemaskingProtocol_Mask / _Remask(TimingAttackProtection = true) for a given r *)
  Definition remask (c1 c2 r : Z) : option (Z * Z) :=
    match fspowm tg g r p with
    | None => None
    | Some gr => match fspowm th h r p with None => None | Some hr => Some ((gr * c1) mod p, (hr * c2) mod p) end
    end.

  (* _Remask(TimingAttackProtection = false) *)
  Definition remask_fast (c1 c2 r : Z) : option (Z * Z) :=
    match fpowm tg g r p with
    | None => None
    | Some gr => match fpowm th h r p with None => None | Some hr => Some ((gr * c1) mod p, (hr * c2) mod p) end
    end.

  Definition remask_prove (c1 c2 d1 d2 r raw : Z) : option (Z * Z) :=
    match invm c1 p, invm c2 p with
    | Some i1, Some i2 => cp_prove ((i1 * d1) mod p) ((i2 * d2) mod p) g h r raw true
    | _, _ => None                                     (* the two asserts *)
    end.

  Definition remask_verify (c1 c2 d1 d2 : Z) (good : bool) (c r : Z) : verdict :=
    if negb (check_element G c1) then Reject
    else if negb (check_element G c2) then Reject
    else if negb (check_element G d1) then Reject
    else if negb (check_element G d2) then Reject
    else match invm c1 p with
         | None => Reject
         | Some i1 =>
           match invm c2 p with
           | None => Reject
           | Some i2 => cp_verify ((i1 * d1) mod p) ((i2 * d2) mod p) g h good c r true
           end
         end.

  (* ---- verifiable decryption ------------------------------------------------------------------------------ *)
  (* prover with key (x_i, h_i, fingerprint): writes d_i, h_i_fp, then the CP proof *)
  Definition decrypt_prove (x hi hifp c1 raw : Z) : option (Z * Z * (Z * Z)) :=
    if negb (check_element G c1) then None            (* assert(CheckElement(c_1)) *)
    else match spowm c1 x p with
         | None => None
         | Some di => match cp_prove di hi c1 g x raw false with None => None | Some cr => Some (di, hifp, cr) end
         end.

  (* Verify_Initialize: d := c_1^{x_i} *)
  Definition decrypt_init (x c1 : Z) : option Z :=
    if negb (check_element G c1) then None else spowm c1 x p.

  (* Verify_Update: hj = the stored keys; returns the verdict and the new d *)
  Definition decrypt_update (hj : kmap) (d c1 : Z) (good1 : bool) (dj fp : Z) (good2 : bool) (c r : Z) : verdict * Z :=
    if negb good1 then (Reject, d)
    else match map_get fp hj with
         | None => (Reject, d)
         | Some key =>
           if negb (check_element G dj) then (Reject, d)
           else match cp_verify dj key c1 g good2 c r false with
                | Accept => (Accept, (d * dj) mod p)
                | v => (v, d)
                end
         end.

  (* Verify_Finalize: m = c_2 / d ; None = the assert fails *)
  Definition decrypt_final (d c2 : Z) : option Z :=
    match invm d p with None => None | Some di => Some ((di * c2) mod p) end.
End Sigma.
