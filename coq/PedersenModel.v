(* PedersenModel (C03): executable model of PedersenCommitmentScheme::Commit / CommitBy / Verify.
   Anchors: src/PedersenCOM.cc  Commit :~200-232, CommitBy :~234-272, Verify :~290-340.
   The size-dependent path is explicit: generator i has a precomputed fixed-base table iff i < TMCG_MAX_FPOWM_N
   (tmcg_mpz_fspowm / tmcg_mpz_fpowm on fpowm_table_g[i]); the others use tmcg_mpz_spowm (timing protection) or
   mpz_powm.  h always has a table.  `assert`s are compiled in: m.size() <= g.size() and r < q (CommitBy) -> None.
   Definitions only -- proofs in PedersenLemmas.v. *)
From Coq Require Import ZArith List Bool.
From LT Require Import Zbase gen_Consts SigmaPrim.
Import ListNotations.
Local Open Scope Z_scope.

Record pcom := mkPcom { pc_p : Z; pc_q : Z; pc_h : Z; pc_g : list Z }.

(* g_i^m for the generator with index idx; prot = TimingAttackProtection *)
Definition gen_pow (prot : bool) (idx : nat) (gi m p q : Z) : option Z :=
  if Z.of_nat idx <? TMCG_MAX_FPOWM_N then
    (if prot then fspowm (precompute gi q) gi m p else fpowm (precompute gi q) gi m p)
  else
    (if prot then spowm gi m p else mpz_powm gi m p).

(* the loop  c := c * g_i^{m_i} mod p  over the messages; None when a power throws or the generators run out *)
Fixpoint commit_loop (prot : bool) (idx : nat) (gs ms : list Z) (acc p q : Z) {struct ms} : option Z :=
  match ms with
  | [] => Some acc
  | m :: ms' =>
    match gs with
    | [] => None
    | gi :: gs' =>
      match gen_pow prot idx gi m p q with
      | None => None
      | Some t => commit_loop prot (S idx) gs' ms' ((acc * t) mod p) p q
      end
    end
  end.

Definition h_pow (prot : bool) (C : pcom) (r : Z) : option Z :=
  let th := precompute (pc_h C) (pc_q C) in
  if prot then fspowm th (pc_h C) r (pc_p C) else fpowm th (pc_h C) r (pc_p C).

(* CommitBy(c, r, m, TimingAttackProtection) *)
Definition commit_by (C : pcom) (r : Z) (ms : list Z) (prot : bool) : option Z :=
  if (length (pc_g C) <? length ms)%nat then None
  else if pc_q C <=? r then None
  else match h_pow prot C r with
       | None => None
       | Some c0 => commit_loop prot 0 (pc_g C) ms c0 (pc_p C) (pc_q C)
       end.

(* Commit(c, r, m): the randomizer is drawn, everything with timing protection *)
Definition commit (C : pcom) (raw : Z) (ms : list Z) : option (Z * Z) :=
  if (length (pc_g C) <? length ms)%nat then None
  else let r := srandomm raw (pc_q C) in
       match h_pow true C r with
       | None => None
       | Some c0 => match commit_loop true 0 (pc_g C) ms c0 (pc_p C) (pc_q C) with
                    | None => None
                    | Some c => Some (c, r)
                    end
       end.

(* Verify(c, r, m) *)
Definition pverify (C : pcom) (c r : Z) (ms : list Z) : verdict :=
  if (length (pc_g C) <? length ms)%nat then Throw
  else if (r <? 0) || (pc_q C <=? r) then Reject        (* 0 <= r < q  (fix 25cc964) *)
  else match h_pow false C r with
       | None => Throw
       | Some c0 =>
         match commit_loop false 0 (pc_g C) ms c0 (pc_p C) (pc_q C) with
         | None => Throw
         | Some c2 => if (c <=? 0) || (pc_p C <=? c) then Reject else if c =? c2 then Accept else Reject
         end
       end.

(* the mathematical commitment  h^r * prod g_i^{m_i}  (product of the reduced powers) *)
Fixpoint gen_prod (gs ms : list Z) (p : Z) : Z :=
  match gs, ms with
  | gi :: gs', m :: ms' => powm gi m p * gen_prod gs' ms' p
  | _, _ => 1
  end.

Definition commitment (C : pcom) (r : Z) (ms : list Z) : Z :=
  (powm (pc_h C) r (pc_p C) * gen_prod (pc_g C) ms (pc_p C)) mod pc_p C.
