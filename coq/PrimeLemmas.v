(* PrimeLemmas -- postconditions of the prime generators (C09) over PrimeModel, for every primality oracle. *)
From Coq Require Import ZArith Znumtheory Lia List Bool ZifyBool.
From LT Require Import Zbase PowmModel PrimeModel.
Import ListNotations.
Local Open Scope Z_scope.

Lemma bitlen_pos_spec (x : Z) : 0 < x -> bitlen x = Z.log2 x + 1.
Proof. intros. unfold bitlen. destruct (Z.eqb_spec x 0); [lia|]. now rewrite Z.abs_eq by lia. Qed.

Lemma bitlen_le (a b : Z) : 0 <= a <= b -> bitlen a <= bitlen b.
Proof.
  intros H. destruct (Z.eq_dec a 0) as [->|].
  - unfold bitlen at 1. cbn. destruct (Z.eq_dec b 0) as [->|]; [cbn; lia|].
    rewrite bitlen_pos_spec by lia. pose proof (Z.log2_nonneg b). lia.
  - rewrite !bitlen_pos_spec by lia. pose proof (Z.log2_le_mono a b). lia.
Qed.

Lemma bitlen_double_succ (q : Z) : 0 < q -> bitlen (2 * q + 1) = bitlen q + 1.
Proof. intros. rewrite !bitlen_pos_spec by lia. rewrite Z.log2_succ_double by lia. lia. Qed.

Section Oracle.
  Variable is_prime : Z -> bool.

  Lemma lprime_ks_post (psize qsize q : Z) : forall kcands p k, lprime_ks is_prime psize qsize q kcands = Some (p, k) ->
    p = q * k + 1 /\ Z.even k = true /\ Z.gcd k q = 1 /\ psize <= bitlen p /\ is_prime p = true.
  Proof.
    induction kcands as [|kraw tl IH]; intros p k E; cbn [lprime_ks] in E; [discriminate|].
    destruct (psize - qsize <=? bitlen kraw); [|now apply IH].
    destruct (lprime_try is_prime psize q kraw) as [[p' k']|] eqn:ET; [|now apply IH].
    inversion E; subst p' k'; clear E. unfold lprime_try in ET.
    destruct ((Z.gcd (lprime_adjust kraw) q =? 1) && (psize <=? bitlen (q * lprime_adjust kraw + 1))
              && is_prime (q * lprime_adjust kraw + 1)) eqn:C; [|discriminate].
    inversion ET; subst p k; clear ET.
    apply andb_prop in C. destruct C as [C C3]. apply andb_prop in C. destruct C as [C1 C2].
    repeat split; try lia; try assumption.
    unfold lprime_adjust. destruct (Z.odd kraw) eqn:O.
    - rewrite Z.even_add. rewrite <- Z.negb_odd, O. reflexivity.
    - rewrite <- Z.negb_odd, O. reflexivity.
  Qed.

  (* p = kq + 1 with both (probably) prime, gcd(k,q) = 1, k even, sizes at least the requested ones *)
  Theorem lprime_post (psize qsize : Z) (qcands kcands : list Z) (p q k : Z) :
    lprime_run is_prime psize qsize qcands kcands = GenOk p q k ->
    p = q * k + 1 /\ Z.even k = true /\ Z.gcd k q = 1 /\ psize <= bitlen p /\ qsize <= bitlen q /\
    is_prime p = true /\ is_prime q = true /\ qsize < psize.
  Proof.
    unfold lprime_run. destruct (Z.leb_spec psize qsize); [discriminate|].
    destruct (find (lprime_q_ok is_prime qsize) qcands) as [q'|] eqn:EQ; [|discriminate].
    destruct (lprime_ks is_prime psize qsize q' kcands) as [[p' k']|] eqn:EK; [|discriminate].
    intros E; inversion E; subst p' q' k'; clear E.
    apply find_some in EQ. destruct EQ as [_ EQ]. unfold lprime_q_ok in EQ. apply andb_prop in EQ. destruct EQ as [Q1 Q2].
    apply lprime_ks_post in EK. destruct EK as (E1 & E2 & E3 & E4 & E5).
    repeat split; try assumption; lia.
  Qed.

  Theorem lprime_sizes_throw (psize qsize : Z) (qcands kcands : list Z) : psize <= qsize ->
    lprime_run is_prime psize qsize qcands kcands = GenThrow.
  Proof. intros H. unfold lprime_run. destruct (Z.leb_spec psize qsize); [reflexivity|lia]. Qed.

  (* safe-prime search: whatever it returns satisfies p = 2q + 1, q odd and at least qsize bits, p at least qsize + 1 bits,
     the additional congruence, q accepted by the oracle and the Pocklington relation 2^q = +-1 (mod p) *)
  Theorem sprime_post (t : test_kind) (qsize qraw q p : Z) : 0 <= qraw ->
    sprime_accepts is_prime t qsize qraw q p = true ->
    p = 2 * q + 1 /\ Z.odd q = true /\ qsize <= bitlen q /\ qsize + 1 <= bitlen p /\
    extra_test t p = true /\ is_prime q = true /\ (powm 2 q p = 1 \/ powm 2 q p = p - 1).
  Proof.
    intros H0. unfold sprime_accepts, sprime_start.
    destruct (Z.leb_spec qsize (bitlen qraw)) as [S|S]; [|discriminate].
    set (q0 := if Z.even qraw then qraw + 1 else qraw).
    assert (Hq0 : qraw <= q0 /\ Z.odd q0 = true).
    { unfold q0. destruct (Z.even qraw) eqn:Ev.
      - split; [lia|]. rewrite Z.odd_add. rewrite <- Z.negb_even, Ev. reflexivity.
      - split; [lia|]. rewrite <- Z.negb_even, Ev. reflexivity. }
    intros A. apply andb_prop in A. destruct A as [A F]. apply andb_prop in A. destruct A as [A A3].
    apply andb_prop in A. destruct A as [A1 A2].
    unfold sprime_final in F. apply andb_prop in F. destruct F as [F F3]. apply andb_prop in F. destruct F as [F1 F2].
    assert (Hp : p = 2 * q + 1) by lia.
    assert (Oq : Z.odd q = true).
    { replace q with (q0 + (q - q0)) by ring. rewrite Z.odd_add. destruct Hq0 as [_ ->].
      rewrite <- Z.negb_even, A2. reflexivity. }
    assert (Bq : qsize <= bitlen q) by (pose proof (bitlen_le qraw q ltac:(lia)); lia).
    split; [assumption|]. split; [assumption|]. split; [assumption|]. split.
    - rewrite Hp, bitlen_double_succ by lia. lia.
    - split; [assumption|]. split; [assumption|]. apply orb_prop in F2. destruct F2; [left|right]; lia.
  Qed.

  (* tmcg_mpz_sprime3mod4(p, psize) = search with qsize = psize - 1 and the 3 (mod 4) test: a Blum prime of full size *)
  Corollary sprime3mod4_post (psize qraw q p : Z) : 0 <= qraw ->
    sprime_accepts is_prime Test3mod4 (psize - 1) qraw q p = true -> p mod 4 = 3 /\ psize <= bitlen p /\ p = 2 * q + 1.
  Proof.
    intros H0 A. apply sprime_post in A; [|assumption]. destruct A as (E & _ & _ & B & T & _).
    cbn [extra_test] in T. repeat split; try assumption; lia.
  Qed.

  (* tmcg_mpz_sprime2g: p = 7 (mod 8), so that 2 generates the quadratic residues *)
  Corollary sprime2g_post (qsize qraw q p : Z) : 0 <= qraw ->
    sprime_accepts is_prime Test7mod8 qsize qraw q p = true -> p mod 8 = 7 /\ p = 2 * q + 1 /\ qsize <= bitlen q.
  Proof.
    intros H0 A. apply sprime_post in A; [|assumption]. destruct A as (E & _ & B & _ & T & _).
    cbn [extra_test] in T. repeat split; try assumption; lia.
  Qed.
End Oracle.
