(* AioTheorems: the statements used by Properties_C13.v, assembled from AioLemmas / AioRoundtrip / AioIntegrity / AioProgress. *)
From Coq Require Import ZArith NArith List Bool Lia.
From LT Require Import gen_Consts CodecModel CodecLemmas AioModel AioLemmas AioRoundtrip AioIntegrity AioProgress AioFits.
Import ListNotations.
Local Open Scope Z_scope.

(* idealisation of the primitives of one link (premises of the theorems) *)
Record prims_ok (P : prims) : Prop := {
  ok_blk     : (0 < blklen P)%nat;
  ok_mac_len : forall x, length (mac P x) = maclen P;
  ok_dec_enc : forall h p, isbytes p -> c_dec P h (c_enc P h p) = p;
  ok_enc_len : forall h p, length (c_enc P h p) = length p;
  ok_enc_byte: forall h p, isbytes p -> isbytes (c_enc P h p)
}.

Theorem frag_invariance P c nonce evs os st pipe : (0 < blklen P)%nat ->
  run P c nonce rstate0 [] evs = (os, st, pipe) ->
  stream_deliveries P c nonce rstate0 (fed evs) = delivered os ++ stream_deliveries P c nonce st pipe.
Proof.
  intros B H. destruct (frag_invariant P c nonce evs rstate0 [] os st pipe (wf0 P c B) H) as [D _]. exact D.
Qed.

(* two schedules carrying the same bytes: whatever one has delivered and still holds equals that of the other *)
Theorem frag_same_stream P c nonce evs1 evs2 os1 st1 p1 os2 st2 p2 : (0 < blklen P)%nat ->
  fed evs1 = fed evs2 ->
  run P c nonce rstate0 [] evs1 = (os1, st1, p1) -> run P c nonce rstate0 [] evs2 = (os2, st2, p2) ->
  delivered os1 ++ stream_deliveries P c nonce st1 p1 = delivered os2 ++ stream_deliveries P c nonce st2 p2.
Proof.
  intros B F H1 H2. rewrite <- (frag_invariance _ _ _ _ _ _ _ B H1), <- (frag_invariance _ _ _ _ _ _ _ B H2). now rewrite F.
Qed.

(* honest sender, any schedule: delivered so far ++ still to come = the values sent, in order, once *)
Theorem channel_roundtrip P c iv ms w sst evs os st pipe :
  prims_ok P -> length iv = blklen P ->
  send_all P c iv (sstate0 c iv) ms = Some (w, sst) ->
  fed evs = w ->
  run P c iv rstate0 [] evs = (os, st, pipe) ->
  delivered os ++ stream_deliveries P c iv st pipe = ms.
Proof.
  intros [B ML DE EL EB] IL S F R.
  rewrite <- (frag_invariance _ _ _ _ _ _ _ B R), F.
  exact (deliveries_honest P c iv iv ML DE EL EB (fun _ => eq_refl) IL ms w sst S).
Qed.

(* ... and once the receiver has read everything and holds no complete record, all of them have been delivered *)
Theorem roundtrip_complete P c iv ms w sst evs os st :
  prims_ok P -> length iv = blklen P ->
  send_all P c iv (sstate0 c iv) ms = Some (w, sst) ->
  fed evs = w ->
  run P c iv rstate0 [] evs = (os, st, []) ->
  first_record (eff_maclen P c) (r_buf st) = None ->
  delivered os = ms.
Proof.
  intros OK IL S F R Q.
  pose proof (channel_roundtrip P c iv ms w sst evs os st [] OK IL S F R) as H.
  destruct (frag_invariant P c iv evs rstate0 [] os st [] (wf0 P c (ok_blk _ OK)) R) as [_ W].
  rewrite (settled P c iv st W Q), app_nil_r in H. exact H.
Qed.

(* the stream itself, without a schedule *)
Theorem stream_roundtrip P c iv ms w sst :
  prims_ok P -> length iv = blklen P ->
  send_all P c iv (sstate0 c iv) ms = Some (w, sst) ->
  stream_deliveries P c iv rstate0 w = ms.
Proof.
  intros [B ML DE EL EB] IL S. exact (deliveries_honest P c iv iv ML DE EL EB (fun _ => eq_refl) IL ms w sst S).
Qed.

(* a negative integer is refused by Send on an encrypted link (nothing written, state unchanged), so every integer
   of an accepted sequence is non-negative there and the round trip needs no sign premise *)
Theorem negative_encrypted_refused P c iv st m : encr c = true -> m < 0 -> send P c iv st m = None.
Proof. intros E Hm. unfold send. rewrite E. destruct (Z.ltb_spec m 0); [reflexivity|lia]. Qed.

Theorem accepted_nonnegative P c iv ms : forall st w st', encr c = true ->
  send_all P c iv st ms = Some (w, st') -> Forall (fun m => 0 <= m) ms.
Proof.
  induction ms as [|m r IH]; intros st w st' E H; [constructor|].
  cbn [send_all] in H. destruct (send P c iv st m) as [[w1 st1]|] eqn:S1; [|discriminate].
  destruct (send_all P c iv st1 r) as [[w2 st2]|] eqn:S2; [|discriminate].
  constructor; [|eapply IH; eassumption].
  destruct (Z.ltb_spec m 0) as [L|L]; [|exact L]. now rewrite (negative_encrypted_refused P c iv st m E L) in S1.
Qed.

(* ---- integrity --------------------------------------------------------------------------------- *)
Lemma prefix_of_prefix {A} (a b l : list A) n : a ++ b = firstn n l -> a = firstn (length a) l.
Proof.
  intros H. assert (L : (length a <= n)%nat).
  { apply (f_equal (@length _)) in H. rewrite app_length, firstn_length in H. lia. }
  rewrite <- (firstn_all a) at 1. rewrite <- (app_nil_r a) at 2.
  replace (firstn (length a) (a ++ [])) with (firstn (length a) (a ++ b))
    by (rewrite !firstn_app, Nat.sub_diag, !firstn_O; reflexivity).
  rewrite H, firstn_firstn. f_equal. lia.
Qed.

(* every honest session has a trace (the hypothesis of the integrity theorems is not vacuous) *)
Lemma trace_exists P c iv : prims_ok P -> forall ms st w st', 0 <= s_chunk st ->
  send_all P c iv st ms = Some (w, st') -> exists recs, trace P c iv st ms recs.
Proof.
  intros [B ML DE EL EB]. induction ms as [|m r IH]; intros st w st' Hch H.
  - exists []. exact I.
  - cbn [send_all] in H. destruct (send P c iv st m) as [[w1 st1]|] eqn:S1; [|discriminate].
    destruct (send_all P c iv st1 r) as [[w2 st2]|] eqn:S2; [|discriminate].
    destruct (send_record P c iv iv ML DE EL EB (fun _ => eq_refl) st m w1 st1 Hch S1)
      as (line & tag & Hw & Fl & _ & _ & _ & _ & Hc1 & _).
    destruct (IH st1 w2 st2 Hc1 S2) as [rr T].
    exists ((line, tag) :: rr). cbn [trace]. exists w1, st1. auto.
Qed.

(* the stream an attacker hands to a fresh receiver: the IV (intact on a CFB link; any block on a CTR link; none without
   encryption) followed by arbitrary bytes s *)
Theorem stream_integrity P c iv iv' ms recs s :
  prims_ok P -> length iv = blklen P -> length iv' = blklen P -> (ctr_mode c = false -> iv' = iv) ->
  auth c = true ->
  trace P c iv (sstate0 c iv) ms recs -> no_forgery P 1 recs s ->
  exists n, stream_deliveries P c iv rstate0 ((if encr c then iv' else []) ++ s) = firstn n ms.
Proof.
  intros [B ML DE EL EB] IL IL' IVok A T NF.
  unfold stream_deliveries. cbn [rstate0 r_buf r_iv negb app]. rewrite andb_true_r.
  assert (Hch : 0 <= s_chunk (sstate0 c iv)) by (cbn; lia).
  destruct (encr c) eqn:E.
  - destruct (Nat.leb_spec (blklen P) (length (iv' ++ s))) as [L|L]; [|rewrite app_length in L; lia].
    rewrite firstn_app, <- IL', Nat.sub_diag, firstn_all, firstn_O, app_nil_r.
    rewrite skipn_app, Nat.sub_diag, skipn_all, skipn_O. cbn [app].
    eapply (integrity_records P c iv iv ML DE EL EB (fun _ => eq_refl) A); try eassumption.
    split; [reflexivity|]. cbn [core_of rstate0 r_hist k_hist sstate0 s_hist]. rewrite E. cbn [andb].
      destruct (ctr_mode c) eqn:CM; cbn [negb]; [reflexivity|]. now rewrite (IVok eq_refl).
  - eapply (integrity_records P c iv iv ML DE EL EB (fun _ => eq_refl) A); try eassumption.
    split; [reflexivity|]. cbn [core_of rstate0 r_hist k_hist sstate0 s_hist]. rewrite E. reflexivity.
Qed.

(* ... and through any schedule: what has been delivered is a prefix of what was sent *)
Theorem channel_integrity P c iv iv' ms recs s evs os st pipe :
  prims_ok P -> length iv = blklen P -> length iv' = blklen P -> (ctr_mode c = false -> iv' = iv) ->
  auth c = true ->
  trace P c iv (sstate0 c iv) ms recs -> no_forgery P 1 recs s ->
  fed evs = (if encr c then iv' else []) ++ s ->
  run P c iv rstate0 [] evs = (os, st, pipe) ->
  delivered os = firstn (length (delivered os)) ms.
Proof.
  intros OK IL IL' IVok A T NF F R.
  destruct (stream_integrity P c iv iv' ms recs s OK IL IL' IVok A T NF) as [n Hn].
  rewrite <- F, (frag_invariance _ _ _ _ _ _ _ (ok_blk _ OK) R) in Hn.
  eapply prefix_of_prefix. exact Hn.
Qed.

(* ---- progress ------------------------------------------------------------------------------------ *)
Lemma fed_app a b : fed (a ++ b) = fed a ++ fed b.
Proof. induction a as [|[ch|] r IH]; cbn [fed app]; [reflexivity| |exact IH]. now rewrite IH, app_assoc. Qed.
Lemma fed_calls n : fed (repeat Call n) = [].
Proof. induction n; [reflexivity|exact IHn]. Qed.
Lemma delivered_app a b : delivered (a ++ b) = delivered a ++ delivered b.
Proof. induction a as [|o r IH]; [reflexivity|]. cbn [app]. rewrite !delivered_cons, IH. now rewrite app_assoc. Qed.

(* after any schedule, more than 3|pipe| + |buf| + 1 further calls leave nothing undelivered -- or the receive buffer is
   full of bytes without a complete record while more are waiting ("read buffer exceeded") *)
Theorem eventually_settled P c nonce evs os st pipe n os2 st2 p2 : (0 < blklen P)%nat ->
  run P c nonce rstate0 [] evs = (os, st, pipe) ->
  (mu st pipe < n)%nat ->
  run P c nonce st pipe (repeat Call n) = (os2, st2, p2) ->
  stream_deliveries P c nonce st2 p2 = [] \/ stuck P c st2 p2.
Proof.
  intros B R M R2.
  destruct (frag_invariant P c nonce evs rstate0 [] os st pipe (wf0 P c B) R) as [_ W].
  pose proof (run_flag_ok P c nonce evs _ _ _ _ _ (flag_ok0 P c) R) as FO.
  exact (settle P c nonce n st pipe os2 st2 p2 W FO M R2).
Qed.

Theorem roundtrip_eventually_or_stuck P c iv ms w sst evs os st pipe n os2 st2 p2 :
  prims_ok P -> length iv = blklen P ->
  send_all P c iv (sstate0 c iv) ms = Some (w, sst) ->
  fed evs = w ->
  run P c iv rstate0 [] evs = (os, st, pipe) ->
  (mu st pipe < n)%nat ->
  run P c iv st pipe (repeat Call n) = (os2, st2, p2) ->
  delivered os ++ delivered os2 = ms \/ stuck P c st2 p2.
Proof.
  intros OK IL S F R M R2.
  pose proof (run_app P c iv evs (repeat Call n) _ _ _ _ _ _ _ _ R R2) as RA.
  assert (FA : fed (evs ++ repeat Call n) = w) by (rewrite fed_app, fed_calls, app_nil_r; exact F).
  pose proof (channel_roundtrip P c iv ms w sst _ _ _ _ OK IL S FA RA) as H.
  destruct (eventually_settled P c iv evs os st pipe n os2 st2 p2 (ok_blk _ OK) R M R2) as [D|St]; [|now right].
  left. rewrite D, app_nil_r, delivered_app in H. exact H.
Qed.

(* ---- an honest stream never fills the receive buffer --------------------------------------------- *)
Lemma trace_good P c iv : prims_ok P -> link_fits P -> forall ms st recs, 0 <= s_chunk st ->
  trace P c iv st ms recs -> good P c recs.
Proof.
  intros [B ML DE EL EB] [RB _]. induction ms as [|m r IH]; intros st [|[l t] rr] Hch T; cbn in T; try contradiction; [constructor|].
  destruct T as (w & st1 & S1 & Hw & Nl & T1).
  destruct (send_record P c iv iv ML DE EL EB (fun _ => eq_refl) st m w st1 Hch S1)
    as (line' & tag' & Hw' & Fl' & Lt' & _ & _ & _ & Hc1 & _).
  pose proof (send_len P c iv ML EL EB st m w st1 Hch S1) as SL.
  rewrite Hw in Hw'. apply app_inv_head in Hw'.
  destruct (app_nl_inj _ _ _ _ Nl Fl' Hw') as [<- <-].
  constructor; [|exact (IH st1 rr Hc1 T1)].
  cbn [fst snd]. split; [exact Nl|]. split; [exact Lt'|].
  rewrite Hw in SL. unfold rbytes, blen in *. cbn [fst snd]. rewrite app_length in SL.
  destruct (encr c && negb (s_iv_sent st)); cbn [length] in SL; lia.
Qed.

Lemma trace_wire P c iv : prims_ok P -> forall ms st recs w st', 0 <= s_chunk st ->
  trace P c iv st ms recs -> send_all P c iv st ms = Some (w, st') ->
  w = (match ms with [] => [] | _ => if encr c && negb (s_iv_sent st) then iv else [] end) ++ flat recs.
Proof.
  intros [B ML DE EL EB]. induction ms as [|m r IH]; intros st [|[l t] rr] w st' Hch T H; cbn in T; try contradiction.
  - cbn in H. injection H as <- _. reflexivity.
  - destruct T as (w1 & st1 & S1 & Hw & Nl & T1).
    cbn [send_all] in H. rewrite S1 in H.
    destruct (send_all P c iv st1 r) as [[w2 st2]|] eqn:S2; [|discriminate]. injection H as <- _.
    destruct (send_record P c iv iv ML DE EL EB (fun _ => eq_refl) st m w1 st1 Hch S1)
      as (_ & _ & _ & _ & _ & _ & _ & Hi & Hc1 & _).
    rewrite (IH st1 rr w2 st2 Hc1 T1 S2), Hw. unfold flat, rbytes. cbn [map concat fst snd].
    assert (Z : (match r with [] => [] | _ => if encr c && negb (s_iv_sent st1) then iv else [] end) = []).
    { destruct r; [reflexivity|]. rewrite Hi. destruct (encr c), (s_iv_sent st); reflexivity. }
    rewrite Z. cbn [app]. rewrite <- !app_assoc. reflexivity.
Qed.

Theorem honest_never_stuck P c iv ms w sst evs os st pipe :
  prims_ok P -> link_fits P -> length iv = blklen P ->
  send_all P c iv (sstate0 c iv) ms = Some (w, sst) ->
  fed evs = w ->
  run P c iv rstate0 [] evs = (os, st, pipe) ->
  ~ stuck P c st pipe.
Proof.
  intros OK LF IL S F R.
  assert (Hch : 0 <= s_chunk (sstate0 c iv)) by (cbn; lia).
  destruct (trace_exists P c iv OK ms _ _ _ Hch S) as [recs T].
  pose proof (trace_good P c iv OK LF ms _ recs Hch T) as G.
  pose proof (trace_wire P c iv OK ms _ recs w sst Hch T S) as HW.
  destruct (frag_invariant P c iv evs rstate0 [] os st pipe (wf0 P c (ok_blk _ OK)) R) as [_ W].
  apply (never_stuck P c (ok_blk _ OK) recs st pipe G (proj2 LF) W).
  apply (inv_run P c iv (ok_blk _ OK) recs evs G rstate0 [] os st pipe (wf0 P c (ok_blk _ OK)) R).
  unfold inv, rem. cbn [rstate0 r_buf r_iv negb app]. rewrite F, andb_true_r.
  cbn [sstate0 s_iv_sent negb] in HW. rewrite andb_true_r in HW.
  destruct (encr c).
  - destruct ms; [destruct recs; [left; exact HW|cbn in T; contradiction]|]. right. exists iv. split; [exact IL|exact HW].
  - exists O. cbn [skipn]. destruct ms; exact HW.
Qed.

(* every accepted sequence IS delivered: completely, exactly once, in order, after any fragmentation and any
   call pattern, as soon as Receive has been called more than mu times after the last byte arrived *)
Theorem roundtrip_eventually P c iv ms w sst evs os st pipe n os2 st2 p2 :
  prims_ok P -> link_fits P -> length iv = blklen P ->
  send_all P c iv (sstate0 c iv) ms = Some (w, sst) ->
  fed evs = w ->
  run P c iv rstate0 [] evs = (os, st, pipe) ->
  (mu st pipe < n)%nat ->
  run P c iv st pipe (repeat Call n) = (os2, st2, p2) ->
  delivered os ++ delivered os2 = ms.
Proof.
  intros OK LF IL S F R M R2.
  destruct (roundtrip_eventually_or_stuck P c iv ms w sst evs os st pipe n os2 st2 p2 OK IL S F R M R2) as [D|St]; [exact D|].
  exfalso.
  pose proof (run_app P c iv evs (repeat Call n) _ _ _ _ _ _ _ _ R R2) as RA.
  assert (FA : fed (evs ++ repeat Call n) = w) by (rewrite fed_app, fed_calls, app_nil_r; exact F).
  exact (honest_never_stuck P c iv ms w sst _ _ _ _ OK LF IL S FA RA St).
Qed.

(* ---- integrity without any premise on an IV: links without encryption ----------------------------- *)
Theorem stream_integrity_auth_only P c iv ms recs s :
  prims_ok P -> auth c = true -> encr c = false ->
  trace P c iv (sstate0 c iv) ms recs -> no_forgery P 1 recs s ->
  exists n, stream_deliveries P c iv rstate0 s = firstn n ms.
Proof.
  intros [B ML DE EL EB] A E T NF.
  unfold stream_deliveries. cbn [rstate0 r_buf r_iv negb app]. rewrite E. cbn [andb].
  assert (Hch : 0 <= s_chunk (sstate0 c iv)) by (cbn; lia).
  eapply (integrity_records P c iv iv ML DE EL EB (fun _ => eq_refl) A); try eassumption.
  split; [reflexivity|]. cbn [core_of rstate0 r_hist k_hist sstate0 s_hist]. rewrite E. reflexivity.
Qed.

Theorem channel_integrity_auth_only P c iv ms recs evs os st pipe :
  prims_ok P -> auth c = true -> encr c = false ->
  trace P c iv (sstate0 c iv) ms recs -> no_forgery P 1 recs (fed evs) ->
  run P c iv rstate0 [] evs = (os, st, pipe) ->
  delivered os = firstn (length (delivered os)) ms.
Proof.
  intros OK A E T NF R.
  destruct (stream_integrity_auth_only P c iv ms recs (fed evs) OK A E T NF) as [n Hn].
  rewrite (frag_invariance _ _ _ _ _ _ _ (ok_blk _ OK) R) in Hn.
  eapply prefix_of_prefix. exact Hn.
Qed.
