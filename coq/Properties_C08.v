(* C08 -- All players derive the same common card key.
   Property theorems only: each is closed by `exact <lemma>` and followed by Print Assumptions.
   H = hash oracle (any function), hbits = its output length in bits, G = (p, q, g);
   wf_params: 1 < p odd, 0 < q, g^q = 1 (mod p), |q| <= TMCG_MAX_FPOWM_T, 0 <= H(.) < 2^hbits. *)
From Coq Require Import ZArith List Permutation Lia.
From LT Require Import Zbase gen_Consts SigmaPrim KeyRingModel KeyRingLemmas.
Import ListNotations.
Local Open Scope Z_scope.

(* any two processing orders of the same accepted contributions give the same h = h_i * product of the keys *)
Theorem C08_update_order_indep : forall H hbits G, wf_params H hbits G -> forall s l l',
  0 <= ks_h s < gp G -> Permutation l l' -> Forall (accepted H hbits G) l ->
  ks_h (run_updates H hbits G s l) = ks_h (run_updates H hbits G s l') /\
  ks_h (run_updates H hbits G s l) = (ks_h s * prodl (map msg_key l)) mod gp G.
Proof. exact update_order_indep. Qed.
Print Assumptions C08_update_order_indep.

(* two players (positions c1, c2 in the list of all contributions) who start from their own key and process
   the others' contributions in arbitrary orders end with the product of all individual keys *)
Theorem C08_all_players_same_key : forall H hbits G, wf_params H hbits G ->
  forall cs pre1 c1 post1 l1 m1 pre2 c2 post2 l2 m2,
  cs = pre1 ++ c1 :: post1 -> cs = pre2 ++ c2 :: post2 ->
  Forall (accepted H hbits G) cs -> Forall (fun c => 0 <= msg_key c < gp G) cs ->
  Permutation l1 (pre1 ++ post1) -> Permutation l2 (pre2 ++ post2) ->
  ks_h (run_updates H hbits G (mkKstate (msg_key c1) m1) l1) = prodl (map msg_key cs) mod gp G /\
  ks_h (run_updates H hbits G (mkKstate (msg_key c2) m2) l2) = prodl (map msg_key cs) mod gp G.
Proof. exact all_players_same_key. Qed.
Print Assumptions C08_all_players_same_key.

(* what honest players publish (any secret, any coin, any oracle) is accepted and lies in [0,p) *)
Theorem C08_honest_contributions_accepted : forall H hbits G, wf_params H hbits G -> forall xs : list (Z * Z),
  let contrib := fun xr : Z * Z =>
    publish_key H G (fst xr mod gq G) (powm (gg G) (fst xr mod gq G) (gp G)) (snd xr) in
  forall xr, In xr xs -> exists m, contrib xr = Some m /\ accepted H hbits G m /\
    msg_key m = powm (gg G) (fst xr mod gq G) (gp G) /\ 0 <= msg_key m < gp G.
Proof. exact honest_contributions_accepted. Qed.
Print Assumptions C08_honest_contributions_accepted.

(* GenerateKey really produces that key: x = coin mod q, h_i = g^x, h = h_i *)
Theorem C08_generate_key : forall H hbits G, wf_params H hbits G -> forall raw old,
  generate_key H G raw old =
    Some (raw mod gq G, powm (gg G) (raw mod gq G) (gp G), H [powm (gg G) (raw mod gq G) (gp G)],
          mkKstate (powm (gg G) (raw mod gq G) (gp G)) (ks_hj old)).
Proof. exact generate_key_spec. Qed.
Print Assumptions C08_generate_key.

(* a refused contribution leaves h and the stored keys unchanged *)
Theorem C08_update_reject_unchanged : forall H hbits G s good m,
  fst (update_key H hbits G s good m) <> Accept -> snd (update_key H hbits G s good m) = s.
Proof. exact update_reject_unchanged. Qed.
Print Assumptions C08_update_reject_unchanged.

Theorem C08_update_accept_iff : forall H hbits G s good m,
  fst (update_key H hbits G s good m) = Accept <-> good = true /\ accepted H hbits G m.
Proof. exact update_accept_iff. Qed.
Print Assumptions C08_update_accept_iff.

(* refusal of: a key outside the group, a response out of range, an oversized challenge, a challenge that is
   not the hash of the public inputs and any commitment *)
Theorem C08_malformed_refused : forall H hbits G foo c r,
  (check_element G foo = false \/ gq G <= Z.abs r \/ hbits < sizeinbase2 c \/
   (forall t, c <> H [gp G; gq G; gg G; foo; t])) ->
  verify_nizk H hbits G foo c r <> Accept.
Proof. exact verify_refuses. Qed.
Print Assumptions C08_malformed_refused.

(* removing an accepted contribution that was not stored before restores h and the stored keys *)
Theorem C08_remove_restores : forall H hbits G, wf_params H hbits G -> forall s m,
  0 <= ks_h s < gp G -> accepted H hbits G m -> map_get (H [msg_key m]) (ks_hj s) = None ->
  remove_key H G (snd (update_key H hbits G s true m)) true (msg_key m) = (true, s).
Proof. exact remove_restores. Qed.
Print Assumptions C08_remove_restores.

Theorem C08_remove_absent_unchanged : forall H G s good k,
  (good = false \/ map_get (H [k]) (ks_hj s) = None) -> remove_key H G s good k = (false, s).
Proof. exact remove_absent_unchanged. Qed.
Print Assumptions C08_remove_absent_unchanged.

(* every interleaving of add / remove in which no accepted key is added while its fingerprint is stored keeps
   h = own key * product of the stored keys *)
Theorem C08_interleaving_invariant : forall H hbits G, wf_params H hbits G -> forall h0 ops s,
  ring_inv H G h0 s -> script_ok H hbits G s ops -> ring_inv H G h0 (fold_left (step H hbits G) ops s).
Proof. exact interleaving_invariant. Qed.
Print Assumptions C08_interleaving_invariant.

Theorem C08_interleaving_start : forall H G h0,
  0 <= h0 < gp G -> ring_inv H G h0 (mkKstate h0 []).
Proof. exact ring_inv_init. Qed.
Print Assumptions C08_interleaving_start.

(* boundary (DESIGN O4): "removal restores" is REFUTED when the same contribution was added twice: it is
   multiplied in twice but stored once; one removal empties the store while h still contains the key, and a
   second removal is refused *)
Theorem C08_remove_restores_duplicate_refuted :
  exists H hbits G s m, wf_params H hbits G /\ accepted H hbits G m /\ 0 <= ks_h s < gp G /\
    let s2 := run_updates H hbits G s [m; m] in
    let r1 := remove_key H G s2 true (msg_key m) in
    let r2 := remove_key H G (snd r1) true (msg_key m) in
    fst r1 = true /\ ks_hj (snd r1) = ks_hj s /\ ks_h (snd r1) <> ks_h s /\ fst r2 = false /\ snd r2 = snd r1.
Proof. exact duplicate_add_not_restored. Qed.
Print Assumptions C08_remove_restores_duplicate_refuted.

(* non-vacuity: a concrete well-formed parameter set and an accepted contribution *)
Example C08_nonvacuous_wf : wf_params dup_H 8 dup_G.
Proof. exact dup_wf. Qed.
Example C08_nonvacuous_accepted : accepted dup_H 8 dup_G dup_msg /\ ring_inv dup_H dup_G 2 dup_s0.
Proof. split; [vm_compute; reflexivity|]. apply (ring_inv_init dup_H dup_G). cbn. lia. Qed.
