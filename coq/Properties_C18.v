(* C18 -- Oblivious transfer delivers exactly the chosen message.
   Property theorems only: each is closed by `exact <lemma>` and followed by Print Assumptions.
   Group hypotheses (premises of every theorem): p prime, q prime, 1 < g < p-1, g^q = 1 (mod p) -- what CheckGroup
   establishes (C06).  Coins are the values returned by tmcg_mpz_srandomm, all >= 0. *)
From Coq Require Import ZArith Znumtheory List Lia.
From LT Require Import Zbase CodecModel CheckGroupModel CheckGroupLemmas OtModel OtLemmas.
Import ListNotations.
Local Open Scope Z_scope.

Definition ot_group (p q g : Z) : Prop := prime p /\ prime q /\ 1 < g < p - 1 /\ g ^ q mod p = 1.

(* 1-of-N: for every N, index, message vector and all coins the chooser outputs M_sigma (mod p) -- unless two of the
   chooser's query elements coincide (a random c_i hit another one or ab), in which case the sender refuses *)
Theorem C18_ot_n_correct : forall p q g, prime p -> prime q -> 1 < g < p - 1 -> g ^ q mod p = 1 ->
  forall Ms sigma a b cs coins,
  0 <= a -> 0 <= b -> Forall (fun c => 0 <= c) cs -> Forall nonneg2 coins ->
  length cs = length Ms -> length coins = length Ms -> (sigma < length Ms)%nat ->
  let '(x, y, zs) := choose_n_first p q g sigma a b cs in
  match send_n p q g Ms x y zs coins with
  | Some resp => choose_second p q sigma b resp = Some (nth sigma Ms 0 mod p)
  | None => ~ NoDup zs
  end.
Proof. exact ot_n_correct. Qed.
Print Assumptions C18_ot_n_correct.

Theorem C18_ot_2_correct : forall p q g, prime p -> prime q -> 1 < g < p - 1 -> g ^ q mod p = 1 ->
  forall M0 M1 sigma a b c r0 s0 r1 s1,
  0 <= a -> 0 <= b -> 0 <= c -> 0 <= r0 -> 0 <= s0 -> 0 <= r1 -> 0 <= s1 -> (sigma < 2)%nat ->
  let '(x, y, zs) := choose_2_first p q g sigma a b c in
  match send_2 p q g M0 M1 x y (nth 0 zs 0) (nth 1 zs 0) r0 s0 r1 s1 with
  | Some resp => choose_second p q sigma b resp = Some (nth sigma [M0; M1] 0 mod p)
  | None => nth 0 zs 0 = nth 1 zs 0
  end.
Proof. exact ot_2_correct. Qed.
Print Assumptions C18_ot_2_correct.

(* optimised 1-of-N: always succeeds *)
Theorem C18_ot_opt_correct : forall p q g, prime p -> prime q -> 1 < g < p - 1 -> g ^ q mod p = 1 ->
  forall Ms sigma a b coins,
  0 <= a -> 0 <= b -> Forall nonneg2 coins -> length coins = length Ms -> (sigma < length Ms)%nat ->
  exists x y z0, choose_opt_first p q g sigma a b = Some (x, y, z0) /\
  exists resp, send_opt p q g Ms x y z0 coins = Some resp /\
  choose_second p q sigma b resp = Some (nth sigma Ms 0 mod p).
Proof. exact ot_opt_correct. Qed.
Print Assumptions C18_ot_opt_correct.

(* the sender returns false (and sends nothing: None) exactly on a non-member or on coinciding query elements *)
Theorem C18_sender_n_aborts_iff : forall p q g Ms x y zs coins,
  send_n p q g Ms x y zs coins = None <->
  ~ (is_elem p q x = true /\ is_elem p q y = true /\ Forall (fun z => is_elem p q z = true) zs /\ NoDup zs).
Proof. exact send_n_aborts_iff. Qed.
Print Assumptions C18_sender_n_aborts_iff.

Theorem C18_sender_2_aborts_iff : forall p q g M0 M1 x y z0 z1 r0 s0 r1 s1,
  send_2 p q g M0 M1 x y z0 z1 r0 s0 r1 s1 = None <->
  ~ (is_elem p q x = true /\ is_elem p q y = true /\ is_elem p q z0 = true /\ is_elem p q z1 = true /\ z0 <> z1).
Proof. exact send_2_aborts_iff. Qed.
Print Assumptions C18_sender_2_aborts_iff.

Theorem C18_sender_opt_aborts_iff : forall p q g Ms x y z0 coins,
  send_opt p q g Ms x y z0 coins = None <->
  ~ (is_elem p q x = true /\ is_elem p q y = true /\ is_elem p q z0 = true).
Proof. exact send_opt_aborts_iff. Qed.
Print Assumptions C18_sender_opt_aborts_iff.

Theorem C18_is_elem_iff : forall p q a, 0 <= q -> (is_elem p q a = true <-> 0 < a < p /\ a ^ q mod p = 1).
Proof. exact is_elem_iff. Qed.
Print Assumptions C18_is_elem_iff.

(* curious chooser: the exact value of its own decryption applied to a ciphertext it did not choose *)
Theorem C18_other_exact : forall p q g, prime p -> prime q -> 1 < g < p - 1 -> g ^ q mod p = 1 ->
  forall Ms sigma a b cs coins i,
  0 <= a -> 0 <= b -> Forall (fun c => 0 <= c) cs -> Forall nonneg2 coins ->
  length cs = length Ms -> length coins = length Ms -> (i < length Ms)%nat -> i <> sigma ->
  let '(x, y, zs) := choose_n_first p q g sigma a b cs in
  forall resp, send_n p q g Ms x y zs coins = Some resp ->
  curious p b resp i = Some ((nth i Ms 0 * powm g (((nth i cs 0 - a * b) mod q) * fst (nth i coins (0, 0))) p) mod p).
Proof. exact ot_n_other_exact. Qed.
Print Assumptions C18_other_exact.

Theorem C18_opt_other_exact : forall p q g, prime p -> prime q -> 1 < g < p - 1 -> g ^ q mod p = 1 ->
  forall Ms sigma a b coins i,
  0 <= a -> 0 <= b -> Forall nonneg2 coins -> length coins = length Ms -> (i < length Ms)%nat ->
  forall x y z0 resp, choose_opt_first p q g sigma a b = Some (x, y, z0) -> send_opt p q g Ms x y z0 coins = Some resp ->
  curious p b resp i = Some ((nth i Ms 0 * powm g (((Z.of_nat i - Z.of_nat sigma) mod q) * fst (nth i coins (0, 0))) p) mod p).
Proof. exact ot_opt_other_exact. Qed.
Print Assumptions C18_opt_other_exact.

(* ... and that value is the message for exactly one value of the sender's coin s_i (out of q), namely 0, whenever the
   query elements differ (which the sender has checked) and the message is not 0 mod p *)
Theorem C18_other_opens_iff : forall p q g, prime p -> prime q -> 1 < g < p - 1 -> g ^ q mod p = 1 ->
  forall M c ab s, 0 <= c -> 0 <= ab -> 0 <= s < q -> M mod p <> 0 ->
  powm g c p <> powm g (ab mod q) p ->
  ((M * powm g (((c - ab) mod q) * s) p) mod p = M mod p <-> s = 0).
Proof. exact other_opens_iff. Qed.
Print Assumptions C18_other_opens_iff.

(* ---- non-vacuity: p = 23, q = 11, g = 2; N = 3, sigma = 1 ---------------------------------------------------- *)
Example C18_nonvacuous_first : choose_n_first 23 11 2 1 3 5 [7; 9; 2] = (8, 9, [13; 16; 4]).
Proof. vm_compute. reflexivity. Qed.
Example C18_nonvacuous_run :
  exists resp, send_n 23 11 2 [4; 8; 16] 8 9 [13; 16; 4] [(1, 2); (3, 4); (5, 6)] = Some resp /\
               choose_second 23 11 1 5 resp = Some 8 /\ curious 23 5 resp 0 <> Some 4.
Proof. eexists. split; [vm_compute; reflexivity|]. split; [vm_compute; reflexivity|]. vm_compute. discriminate. Qed.
Example C18_nonvacuous_abort : send_n 23 11 2 [4; 8] 2 4 [8; 8] [(1, 2); (3, 4)] = None.
Proof. vm_compute. reflexivity. Qed.
Example C18_nonvacuous_abort_nonmember : send_n 23 11 2 [4; 8] 2 5 [8; 16] [(1, 2); (3, 4)] = None.
Proof. vm_compute. reflexivity. Qed.
