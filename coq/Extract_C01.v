From Coq Require Import Extraction ExtrOcamlBasic ZArith.
From LT Require Import Zbase PowmModel VtmfModel TmcgModel.
Extraction "model.ml" Z.to_N (* drvcore.ml needs the type n *)
  index_element key_share common_key mask remask dec_share dec_update dec_finalize type_of_message create_open_card open_run
  mask_value open_card_qr mask_card complete_secret self_bits type_of_card mask_chain matrix_of rows_of.
