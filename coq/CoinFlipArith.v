(* CoinFlipArith: correctness of Zbase.invm (extended Euclid with fuel) and the group facts about
   order-q elements of Z_p^* that the coin-flip (C17) and threshold-signature (C16) lemmas share.
   Proofs only; the definitions live in Zbase. *)
From Coq Require Import ZArith Znumtheory Lia List Bool.
From LT Require Import Zbase.
Local Open Scope Z_scope.

(* ---- extended Euclid --------------------------------------------------------------------- *)
(* invariant: r0 = s0 * a (mod p), r1 = s1 * a (mod p) *)
Lemma egcd_fuel_inv a p : forall fuel r0 r1 s0 s1,
  (r0 - s0 * a) mod p = 0 -> (r1 - s1 * a) mod p = 0 ->
  let '(g, s) := egcd_fuel fuel r0 r1 s0 s1 in (g - s * a) mod p = 0.
Proof.
  induction fuel as [|f IH]; intros r0 r1 s0 s1 H0 H1; cbn [egcd_fuel].
  - exact H0.
  - destruct (r1 =? 0); [exact H0|].
    apply IH; [exact H1|].
    replace (r0 - r0 / r1 * r1 - (s0 - r0 / r1 * s1) * a)
      with ((r0 - s0 * a) + (- (r0 / r1)) * (r1 - s1 * a)) by ring.
    rewrite Zplus_mod, Zmult_mod, H0, H1. rewrite Z.mul_0_r, Zmod_0_l. reflexivity.
Qed.

Lemma egcd_fuel_S f r0 r1 s0 s1 : egcd_fuel (S f) r0 r1 s0 s1 =
  if r1 =? 0 then (r0, s0) else egcd_fuel f r1 (r0 - r0 / r1 * r1) s1 (s0 - r0 / r1 * s1).
Proof. reflexivity. Qed.

Lemma egcd_fuel_gcd : forall f r0 r1 s0 s1, 0 <= r1 < r0 -> r0 * r1 < 2 ^ Z.of_nat f ->
  fst (egcd_fuel (S f) r0 r1 s0 s1) = Z.gcd r0 r1.
Proof.
  induction f as [|f IH]; intros r0 r1 s0 s1 Hr Hm.
  - assert (r1 = 0) by (cbn in Hm; nia). subst r1. cbn. rewrite Z.gcd_0_r. lia.
  - rewrite egcd_fuel_S. destruct (Z.eqb_spec r1 0) as [E|E].
    + subst r1. cbn [fst]. rewrite Z.gcd_0_r. lia.
    + assert (Hr1 : 0 < r1) by lia.
      pose proof (Z.mod_pos_bound r0 r1 Hr1) as Hmod.
      pose proof (Z.div_mod r0 r1 ltac:(lia)) as Hdm.
      assert (Hq : 1 <= r0 / r1) by (apply Z.div_le_lower_bound; lia).
      replace (r0 - r0 / r1 * r1) with (r0 mod r1) by lia.
      rewrite IH.
      * rewrite Z.gcd_comm, Z.gcd_mod by lia. apply Z.gcd_comm.
      * lia.
      * rewrite Nat2Z.inj_succ, Z.pow_succ_r in Hm by lia. nia.
Qed.

Lemma log2_up_sq p : 1 < p -> p * p <= 2 ^ (2 * Z.log2_up p).
Proof.
  intros Hp. pose proof (Z.log2_up_spec p Hp) as [_ H].
  replace (2 * Z.log2_up p) with (Z.log2_up p + Z.log2_up p) by lia.
  rewrite Z.pow_add_r by (apply Z.log2_up_nonneg). nia.
Qed.

Lemma invm_sound a p x : invm a p = Some x -> 1 < p -> 0 <= x < p /\ (a * x) mod p = 1.
Proof.
  unfold invm. intros H Hp. destruct (Z.leb_spec p 0); [lia|].
  pose proof (egcd_fuel_inv a p (S (2 * Z.to_nat (Z.log2_up p + 1))) (a mod p) p 1 0) as I.
  destruct (egcd_fuel _ (a mod p) p 1 0) as [g s].
  assert (I' : (g - s * a) mod p = 0).
  { apply I.
    - rewrite Z.mul_1_l. rewrite Zminus_mod, Zmod_mod, Z.sub_diag. reflexivity.
    - rewrite Z.mul_0_l, Z.sub_0_r. apply Z_mod_same_full. }
  destruct (Z.eqb_spec g 1) as [G|G].
  - injection H as <-. split; [apply Z.mod_pos_bound; lia|].
    rewrite Zmult_mod_idemp_r. subst g.
    apply Zmod_divides in I'; [|lia]. destruct I' as [c Hc].
    replace (a * s) with (1 + (- c) * p) by lia. rewrite Z.mod_add by lia. apply Z.mod_1_l. lia.
  - destruct (Z.eqb_spec p 1); [lia|discriminate].
Qed.

Lemma invm_complete a p : 1 < p -> Z.gcd a p = 1 -> exists x, invm a p = Some x.
Proof.
  intros Hp Hg. unfold invm. destruct (Z.leb_spec p 0); [lia|].
  set (fuel := Z.to_nat (Z.log2_up p + 1)).
  pose proof (Z.mod_pos_bound a p ltac:(lia)) as Ha.
  assert (G : fst (egcd_fuel (S (2 * fuel)) (a mod p) p 1 0) = 1).
  { rewrite egcd_fuel_S. destruct (Z.eqb_spec p 0); [lia|].
    rewrite Z.div_small by lia. rewrite Z.mul_0_l, Z.sub_0_r.
    assert (F : (2 * fuel = S (Nat.pred (2 * fuel)))%nat).
    { unfold fuel. pose proof (Z.log2_up_nonneg p). lia. }
    rewrite F. rewrite egcd_fuel_gcd.
    - rewrite Z.gcd_comm, Z.gcd_mod by lia. rewrite Z.gcd_comm. exact Hg.
    - lia.
    - pose proof (log2_up_sq p Hp) as L.
      assert (E : Z.of_nat (Nat.pred (2 * fuel)) = 2 * Z.log2_up p + 1).
      { unfold fuel. pose proof (Z.log2_up_nonneg p). lia. }
      rewrite E. rewrite Z.pow_add_r, Z.pow_1_r by (pose proof (Z.log2_up_nonneg p); lia). nia. }
  destruct (egcd_fuel (S (2 * fuel)) (a mod p) p 1 0) as [g s]. cbn in G. subst g.
  cbn. eauto.
Qed.

(* inverses modulo p are unique *)
Lemma inv_unique p a x y : 1 < p -> 0 <= x < p -> 0 <= y < p ->
  (a * x) mod p = 1 -> (a * y) mod p = 1 -> x = y.
Proof.
  intros Hp Hx Hy Ex Ey.
  assert (E : (x * (a * y)) mod p = (y * (a * x)) mod p) by (f_equal; ring).
  rewrite Zmult_mod, Ey, (Zmult_mod y), Ex in E.
  rewrite !Z.mul_1_r, !Zmod_mod in E. rewrite !Z.mod_small in E by lia. exact E.
Qed.

Lemma unit_gcd p a x : 1 < p -> (a * x) mod p = 1 -> Z.gcd a p = 1.
Proof.
  intros Hp E. apply Zgcd_1_rel_prime. apply bezout_rel_prime.
  apply (Bezout_intro a p 1 x (- ((a * x) / p))).
  pose proof (Z.div_mod (a * x) p ltac:(lia)). lia.
Qed.

Lemma invm_of_inverse p a x : 1 < p -> 0 <= x < p -> (a * x) mod p = 1 -> invm a p = Some x.
Proof.
  intros Hp Hx E. destruct (invm_complete a p Hp (unit_gcd p a x Hp E)) as [y Hy].
  destruct (invm_sound _ _ _ Hy Hp) as [Ry Ey]. rewrite Hy. f_equal.
  now apply (inv_unique p a).
Qed.

(* ---- elements of order dividing q -------------------------------------------------------- *)
Section Sub.
  Variables p q : Z.
  Hypothesis Hp : 1 < p.
  Hypothesis Hq : 1 < q.

  Definition in_sub (x : Z) : Prop := powm x q p = 1.

  Lemma sub_pow_q x (e : Z) : in_sub x -> 0 <= e -> powm x (e * q) p = 1.
  Proof.
    intros Hx He. rewrite Z.mul_comm. rewrite powm_mul by lia. rewrite Hx.
    rewrite powm_1_l by lia. apply Z.mod_1_l. lia.
  Qed.

  Lemma sub_pow_mod x e : in_sub x -> 0 <= e -> powm x (e mod q) p = powm x e p.
  Proof.
    intros Hx He. rewrite (Z.div_mod e q) at 2 by lia.
    pose proof (Z.mod_pos_bound e q ltac:(lia)).
    assert (0 <= e / q) by (apply Z.div_pos; lia).
    rewrite powm_add by nia. rewrite (Z.mul_comm q), sub_pow_q by assumption.
    rewrite Z.mul_1_l. rewrite powm_spec by lia. now rewrite Zmod_mod, <- powm_spec by lia.
  Qed.

  (* x^e * x^((q-1) e) = 1 *)
  Lemma sub_inverse x e : in_sub x -> 0 <= e ->
    (powm x e p * powm x ((q - 1) * e) p) mod p = 1.
  Proof.
    intros Hx He. rewrite <- powm_add by nia.
    replace (e + (q - 1) * e) with (e * q) by ring. now apply sub_pow_q.
  Qed.

  Lemma sub_invm x e : in_sub x -> 0 <= e ->
    invm (powm x e p) p = Some (powm x ((q - 1) * e) p).
  Proof.
    intros Hx He. apply invm_of_inverse; [lia|apply powm_range; nia|now apply sub_inverse].
  Qed.

  (* the inverse of x^e is x^((-e) mod q) *)
  Lemma sub_invm_mod x e : in_sub x -> 0 <= e ->
    invm (powm x e p) p = Some (powm x ((- e) mod q) p).
  Proof.
    intros Hx He. rewrite sub_invm by assumption. f_equal.
    rewrite <- (sub_pow_mod x ((q - 1) * e)) by (assumption || nia). f_equal.
    replace ((q - 1) * e) with (- e + e * q) by ring. now rewrite Z.mod_add by lia.
  Qed.

  Lemma in_sub_mul x y : in_sub x -> in_sub y -> in_sub (x * y mod p).
  Proof.
    unfold in_sub. intros Hx Hy. rewrite powm_base_mod by lia. rewrite powm_mul_base by lia.
    rewrite Hx, Hy. apply Z.mod_1_l. lia.
  Qed.

  Lemma in_sub_pow x e : in_sub x -> 0 <= e -> in_sub (powm x e p).
  Proof.
    unfold in_sub. intros Hx He. rewrite <- powm_mul by lia. now apply sub_pow_q.
  Qed.

  Lemma in_sub_nonzero x : in_sub x -> x mod p <> 0.
  Proof.
    unfold in_sub. intros Hx E. rewrite <- powm_base_mod in Hx by lia. rewrite E in Hx.
    rewrite powm_spec in Hx by lia. rewrite Z.pow_0_l in Hx by lia. rewrite Zmod_0_l in Hx. lia.
  Qed.
End Sub.
