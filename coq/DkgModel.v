(* DkgModel: the key-combination step of the distributed key generation protocols, definitions only.
   GJKR new-DKG (/repo/src/GennaroJareckiKrawczykRabinDKG.cc): x_i, x'_i :761-776, y :983-992, v_j :993-1009;
   CGJKR Joint-RVSS (/repo/src/CanettiGennaroJareckiKrawczykRabinASTC.cc:729-745) computes x_i the same way;
   share refresh (ASTC.cc:2508-2520) adds the share of a Joint-ZVSS (zero sharing) modulo q.
   The sharing phases themselves (n parallel Pedersen sharings, complaints, QUAL) follow the pattern of
   VssModel and are exercised by the implementation-level oracle of the harness. *)
From Coq Require Import ZArith List Bool.
From LT Require Import Zbase VssModel.
Import ListNotations.
Local Open Scope Z_scope.

Definition nthz (l : list Z) (j : Z) : Z := nth (Z.to_nat j) l 0.

(* x_i = sum_{j in QUAL} s_ji mod q (accumulated with a reduction after every addition) *)
Definition sum_qual (q : Z) (qual : list Z) (s : list Z) : Z :=
  fold_left (fun acc j => (acc + nthz s j) mod q) qual 0.
Definition dkg_x (q : Z) (qual : list Z) (s s' : list Z) : Z * Z := (sum_qual q qual s, sum_qual q qual s').

(* y = prod_{i in QUAL} y_i mod p *)
Definition dkg_y (p : Z) (qual : list Z) (ys : list Z) : Z :=
  fold_left (fun acc j => (acc * nthz ys j) mod p) qual 1.

(* v_j = prod_{i in QUAL} prod_k A_ik^((j+1)^k) mod p ; As = the Feldman commitment vectors of all parties *)
Definition dkg_v (p : Z) (qual : list Z) (As : list (list Z)) (j : Z) : Z :=
  fold_left (fun acc i => rhs_from p (nth (Z.to_nat i) As []) (j + 1) 1 acc) qual 1.

(* refresh: new share = old share + zero-sharing share (mod q) *)
Definition refresh_share (q x z : Z) : Z := (x + z) mod q.

(* coefficient-wise sum of polynomials (the joint polynomial F = sum_{i in QUAL} f_i) *)
Fixpoint padd (f g : list Z) : list Z :=
  match f, g with
  | [], _ => g
  | _, [] => f
  | a :: f', b :: g' => (a + b) :: padd f' g'
  end.
