(* SoundCutLemmas (C04): special soundness of the OR proof, and the per-card extractor of the cut-and-choose
   stack-equality proof (VTMF encoding): answers to both challenges of one round show that every card of s2 is a
   re-masking of a card of s with an exponent in [0,q) along the composed index maps. *)
From Coq Require Import ZArith NArith Znumtheory List Bool Lia.
From LT Require Import Zbase SamplerModel ShuffleModel ShuffleLemmas SoundModel SoundLemmas.
Import ListNotations.
Local Open Scope Z_scope.

Section OrExtract.
  Variables p q : Z.
  Hypothesis Hp : 1 < p.
  Hypothesis Hq : prime q.

  (* OR_Verify recomputes t_i = y_i^{c_i} g_i^{r_i} and compares (c_1 + c_2) mod q with the hash: two accepting
     transcripts with the same (t_1, t_2) and different overall challenge yield a witness for one branch *)
  Theorem or_extract_exists g1 y1 g2 y2 t1 t2 c1 c2 r1 r2 c1' c2' r1' r2' :
    powm g1 q p = 1 -> powm y1 q p = 1 -> powm g2 q p = 1 -> powm y2 q p = 1 ->
    0 <= c1 -> 0 <= c2 -> 0 <= r1 -> 0 <= r2 -> 0 <= c1' -> 0 <= c2' -> 0 <= r1' -> 0 <= r2' ->
    (powm y1 c1 p * powm g1 r1 p) mod p = t1 -> (powm y1 c1' p * powm g1 r1' p) mod p = t1 ->
    (powm y2 c2 p * powm g2 r2 p) mod p = t2 -> (powm y2 c2' p * powm g2 r2' p) mod p = t2 ->
    (c1 + c2) mod q <> (c1' + c2') mod q ->
    (exists x, 0 <= x < q /\ powm g1 x p = y1 mod p) \/ (exists x, 0 <= x < q /\ powm g2 x p = y2 mod p).
  Proof.
    intros G1 Y1 G2 Y2 Hc1 Hc2 Hr1 Hr2 Hc1' Hc2' Hr1' Hr2' A1 A1' A2 A2' N.
    destruct (Z.eq_dec (c1 mod q) (c1' mod q)) as [E1|N1].
    - right. apply (schnorr_extract_exists p q Hp Hq g2 y2 t2 r2 r2' c2 c2'); try assumption.
      + now rewrite Z.mul_comm.
      + now rewrite Z.mul_comm.
      + intros E2. apply N. rewrite (Zplus_mod c1 c2), (Zplus_mod c1' c2'). now rewrite E1, E2.
    - left. apply (schnorr_extract_exists p q Hp Hq g1 y1 t1 r1 r1' c1 c1'); try assumption.
      + now rewrite Z.mul_comm.
      + now rewrite Z.mul_comm.
  Qed.

  (* cancelling a mask: g^ra * x = g^rb * y  (mod p)  gives  x = g^d * y  with d = rb - ra mod q in [0,q) *)
  Lemma unmask g x y ra rb : powm g q p = 1 -> 0 <= ra -> 0 <= rb ->
    (powm g ra p * x) mod p = (powm g rb p * y) mod p ->
    x mod p = (powm g ((rb + (q - 1) * ra) mod q) p * y) mod p.
  Proof.
    intros Hg Ha Hb E.
    assert (q_pos : 1 < q) by (destruct Hq; lia).
    assert (N1 : 0 <= (q - 1) * ra) by (apply Z.mul_nonneg_nonneg; lia).
    rewrite (powm_mod_q p q g Hp Hq Hg) by lia.
    rewrite (powm_spec g ra p), (powm_spec g rb p) in E by lia.
    rewrite (powm_spec g (rb + (q - 1) * ra) p) by lia.
    rewrite Zmult_mod_idemp_l in E. rewrite Zmult_mod_idemp_l in E. rewrite Zmult_mod_idemp_l.
    change (eqm p (g ^ ra * x) (g ^ rb * y)) in E. change (eqm p x (g ^ (rb + (q - 1) * ra) * y)).
    assert (E2 : eqm p (g ^ ((q - 1) * ra) * (g ^ ra * x)) (g ^ ((q - 1) * ra) * (g ^ rb * y)))
      by (apply eqm_mul; [apply eqm_refl|assumption]).
    assert (L : g ^ ((q - 1) * ra) * (g ^ ra * x) = g ^ (ra * q) * x).
    { replace (ra * q) with ((q - 1) * ra + ra) by ring. rewrite Z.pow_add_r by assumption. ring. }
    assert (R : g ^ ((q - 1) * ra) * (g ^ rb * y) = g ^ (rb + (q - 1) * ra) * y).
    { rewrite Z.pow_add_r by assumption. ring. }
    rewrite L, R in E2.
    apply eqm_trans with (g ^ (ra * q) * x); [|assumption].
    apply eqm_sym. replace x with (1 * x) at 2 by ring.
    apply eqm_mul; [now apply ord_pow_kq|apply eqm_refl].
  Qed.
End OrExtract.

(* one round of TMCG_VerifyStackEquality (VTMF encoding): the answer ss1 to challenge 1 re-mixes s2 into the committed
   stack t, the answer ss0 to challenge 0 re-mixes s into the same t (the commitment is injective).  Then for every
   output position i the card of s2 designated by ss1 is a re-masking of the card of s designated by ss0, with an
   exponent in [0,q).  (Packaging the per-card statement as "s2 = mix s gamma" for the composed bijection needs the
   inverse stack secret, which ShuffleModel does not define: this is the _partial form.) *)
Theorem cutchoose_extract_partial (p q g h : Z) (s s2 t : list (Z * Z)) (ss0 ss1 : list (N * Z)) :
  1 < p -> prime q -> powm g q p = 1 -> powm h q p = 1 ->
  (forall j x r, nthN ss0 j = Some (x, r) -> 0 <= r) -> (forall j x r, nthN ss1 j = Some (x, r) -> 0 <= r) ->
  length s = length s2 -> (length s <= max_cards)%nat ->
  vmix p g h s2 ss1 = Ret t -> vmix p g h s ss0 = Ret t ->
  forall i, (i < length s)%nat ->
  exists a b c2 c d, (exists r0, nth_error ss1 i = Some (a, r0)) /\ nthN s2 a = Some c2 /\
                     (exists r0, nth_error ss0 i = Some (b, r0)) /\ nthN s b = Some c /\ 0 <= d < q /\
                     (fst c2 mod p, snd c2 mod p) = vmask p g h c d.
Proof.
  intros Hp Hq Hg Hh P0 P1 L Hn M1 M0 i Hi.
  assert (q_pos : 1 < q) by (destruct Hq; lia).
  destruct (mix_nth _ _ _ _ _ _ i M1 ltac:(lia) ltac:(lia)) as (a & ra0 & c2 & a' & ra & A1 & A2 & A3 & A4).
  destruct (mix_nth _ _ _ _ _ _ i M0 ltac:(lia) ltac:(lia)) as (b & rb0 & c & b' & rb & B1 & B2 & B3 & B4).
  rewrite A4 in B4. injection B4 as E1 E2.
  pose proof (P1 _ _ _ A3) as Ra. pose proof (P0 _ _ _ B3) as Rb.
  exists a, b, c2, c, ((rb + (q - 1) * ra) mod q).
  split; [now exists ra0|]. split; [assumption|]. split; [now exists rb0|]. split; [assumption|].
  split; [apply Z.mod_pos_bound; lia|].
  unfold vmask. f_equal.
  - now apply (unmask p q Hp Hq g (fst c2) (fst c) ra rb).
  - now apply (unmask p q Hp Hq h (snd c2) (snd c) ra rb).
Qed.

(* with the index component of the first answer being a permutation of 0..n-1 (what TMCG_StackSecret::import
   enforces), EVERY card of s2 is covered: no card of the shuffled stack is unrelated to the input stack *)
Corollary cutchoose_every_card_partial (p q g h : Z) (s s2 t : list (Z * Z)) (ss0 ss1 : list (N * Z)) :
  1 < p -> prime q -> powm g q p = 1 -> powm h q p = 1 ->
  (forall j x r, nthN ss0 j = Some (x, r) -> 0 <= r) -> (forall j x r, nthN ss1 j = Some (x, r) -> 0 <= r) ->
  length s = length s2 -> (length s <= max_cards)%nat ->
  Permutation.Permutation (map fst ss1) (iota (length s)) ->
  vmix p g h s2 ss1 = Ret t -> vmix p g h s ss0 = Ret t ->
  forall a, (a < N.of_nat (length s))%N ->
  exists b c2 c d, nthN s2 a = Some c2 /\ nthN s b = Some c /\ 0 <= d < q /\ (fst c2 mod p, snd c2 mod p) = vmask p g h c d.
Proof.
  intros Hp Hq Hg Hh P0 P1 L Hn Perm M1 M0 a Ha.
  assert (I : In a (map fst ss1)).
  { apply (Permutation.Permutation_in a (Permutation.Permutation_sym Perm)). now apply in_iota. }
  apply In_nth_error in I. destruct I as [i Ei].
  assert (Li : (i < length (map fst ss1))%nat) by (apply nth_error_Some; congruence).
  rewrite (Permutation.Permutation_length Perm), iota_length in Li.
  destruct (cutchoose_extract_partial p q g h s s2 t ss0 ss1 Hp Hq Hg Hh P0 P1 L Hn M1 M0 i Li)
    as (a' & b & c2 & c & d & (r0 & A1) & A2 & _ & B2 & D & E).
  rewrite nth_error_map, A1 in Ei. cbn in Ei. injection Ei as <-.
  exists b, c2, c, d. repeat split; try assumption; lia.
Qed.
