(* SkcModel (C05): executable model of PedersenCommitmentScheme::TestMembership / Verify (src/PedersenCOM.cc, current
   code: c in (0,p) with c^q = 1; 0 <= r < q since 25cc964; the messages m_i are NOT range-checked) and of the decision
   structure of the non-interactive shuffle-of-known-content verifier GrothSKC::Verify_noninteractive(c, m, in,
   optimizations = false) (src/GrothVSSHE.cc:975-1170): challenges x, e = hash of the serialised inputs truncated to
   l_e_nizk bits, membership of c_d, c_a, c_Delta, range rules 0 <= z, f_i, z_Delta, f_Delta_i < q (25cc964), the two
   commitment equations  c^e c_d = com(z; f)  and  c_a^e c_Delta = com(z_Delta; f_Delta, 0),  and the product equation
   F_n = e * prod (m_i - x)  modulo q.  The hash is a function argument on the list of hashed integers
   (FsModel.fs_ser is injective).  Definitions only; proofs are in SkcLemmas.v. *)
From Coq Require Import ZArith List Bool.
From LT Require Import Zbase gen_Consts VtmfVerModel.
Import ListNotations.
Local Open Scope Z_scope.

(* commitment key: p, q, h, generators g_1..g_n; every base has a power table of bits(q) entries *)
Record pkey := mk_pkey { kp : Z; kq : Z; kh : Z; kg : list Z }.

Definition ktl (K : pkey) : Z := Z.min (bits (kq K)) TMCG_MAX_FPOWM_T.

Definition test_membership (K : pkey) (c : Z) : bool :=
  (0 <? c) && (c <? kp K) && (powm c (kq K) (kp K) =? 1).

(* g_i^{m_i}: generators with index below TMCG_MAX_FPOWM_N go through their table, the others through mpz_powm *)
Definition gen_pow (K : pkey) (idx : Z) (gi m : Z) : option Z :=
  if idx <? TMCG_MAX_FPOWM_N then fpowm gi (ktl K) gi m (kp K) else mpz_powm gi m (kp K).

(* c2 := c2 * g_i^{m_i} mod p over the messages; None = an exception (or GMP error) escapes *)
Fixpoint commit_loop (K : pkey) (idx : Z) (gs ms : list Z) (acc : Z) : option Z :=
  match ms with
  | [] => Some acc
  | m :: ms' =>
    match gs with
    | [] => None                                   (* assert(m.size() <= g.size()) *)
    | gi :: gs' =>
      match gen_pow K idx gi m with
      | None => None
      | Some t => commit_loop K (idx + 1) gs' ms' ((acc * t) mod kp K)
      end
    end
  end.

Definition recommit (K : pkey) (r : Z) (ms : list Z) : option Z :=
  match fpowm (kh K) (ktl K) (kh K) r (kp K) with
  | None => None
  | Some c0 => commit_loop K 0 (kg K) ms c0
  end.

(* PedersenCommitmentScheme::Verify(c, r, m) *)
Definition ped_verify (K : pkey) (c r : Z) (ms : list Z) : verdict :=
  if (r <? 0) || (kq K <=? r) then Reject
  else match recommit K r ms with
       | None => Throw
       | Some c2 => if (c <=? 0) || (kp K <=? c) then Reject else if c =? c2 then Accept else Reject
       end.

(* ---- shuffle of known content, non-interactive, without batch verification ---------------------------------- *)
Record skc_proof := mk_skc { s_cd : Z; s_cD : Z; s_ca : Z; s_f : list Z; s_z : Z; s_fD : list Z; s_zD : Z }.

Definition in_zq (q x : Z) : bool := (0 <=? x) && (x <? q).

Definition skc_x (H : list Z -> Z) (K : pkey) (le : Z) (ms : list Z) : Z :=
  H (kg K ++ ms ++ [kp K; kq K; kh K]) mod 2 ^ le.
Definition skc_e (H : list Z -> Z) (K : pkey) (le : Z) (ms : list Z) (x : Z) (P : skc_proof) : Z :=
  H (kg K ++ ms ++ [x; s_cd P; s_cD P; s_ca P]) mod 2 ^ le.

(* left-hand side F_n of the product equation; fds = f_Delta_1 .. f_Delta_{n-1} *)
Fixpoint prod_lhs (q ex einv : Z) (fs fds : list Z) (first : bool) (acc : Z) : Z :=
  match fs with
  | [] => acc
  | f :: fs' =>
    let t := (((f - ex) mod q) * acc) mod q in
    if first then prod_lhs q ex einv fs' fds false t
    else match fds with
         | d :: fds' => prod_lhs q ex einv fs' fds' false ((((t + d) mod q) * einv) mod q)
         | [] => prod_lhs q ex einv fs' [] false (((t mod q) * einv) mod q)
         end
  end.

Fixpoint prod_rhs (q x : Z) (ms : list Z) (acc : Z) : Z :=
  match ms with
  | [] => acc
  | m :: ms' => prod_rhs q x ms' ((acc * ((m - x) mod q)) mod q)
  end.

Definition skc_verify (H : list Z -> Z) (K : pkey) (le : Z) (c : Z) (ms : list Z) (P : skc_proof) : verdict :=
  let n := length ms in
  if negb ((length (s_f P) =? n)%nat && (S (length (s_fD P)) =? n)%nat) then Reject     (* the parser reads exactly n and n-1 values *)
  else
  let x := skc_x H K le ms in
  let e := skc_e H K le ms x P in
  if negb (test_membership K (s_cd P) && test_membership K (s_ca P) && test_membership K (s_cD P)) then Reject
  else if negb (in_zq (kq K) (s_z P)) then Reject
  else if negb (forallb (in_zq (kq K)) (s_f P)) then Reject
  else if negb (in_zq (kq K) (s_zD P)) then Reject
  else if negb (forallb (in_zq (kq K)) (s_fD P)) then Reject
  else match mpz_powm c e (kp K) with
       | None => Crash
       | Some ce =>
         match ped_verify K ((ce * s_cd P) mod kp K) (s_z P) (s_f P) with
         | Throw => Throw | Crash => Crash | Reject => Reject
         | Accept =>
           match mpz_powm (s_ca P) e (kp K) with
           | None => Crash
           | Some cae =>
             match ped_verify K ((cae * s_cD P) mod kp K) (s_zD P) (s_fD P ++ [0]) with
             | Throw => Throw | Crash => Crash | Reject => Reject
             | Accept =>
               match invm e (kq K) with
               | None => Crash                                     (* assert(mpz_invert(bar, e, com->q)) *)
               | Some einv =>
                 let ex := (e * x) mod kq K in
                 if (prod_rhs (kq K) x ms 1 * e) mod kq K =? prod_lhs (kq K) ex einv (s_f P) (s_fD P) true 1
                 then Accept else Reject
               end
             end
           end
         end
       end.
