From Coq Require Import Extraction ExtrOcamlBasic.
From LT Require Import Zbase CodecModel CheckGroupModel.
Extraction "model.ml" encode62 sizeinbase2 mpz_powm invm check_group_vtmf check_element check_group_gens
  qr_generator check_group_qr check_element_qr accepted_from trial_prime ustr0.
