(* CoinFlipModel: the two-party erasure-free coin flip of JareckiLysyanskayaEDCF as an I/O automaton
   (definitions only).
     JareckiLysyanskayaRVSS::Share_twoparty  JareckiLysyanskayaASTC.cc:806-887
     JareckiLysyanskayaEDCF::Flip_twoparty   JareckiLysyanskayaASTC.cc:1260-1372
     JareckiLysyanskayaRVSS::CheckElement    JareckiLysyanskayaASTC.cc:400-424
     tmcg_mpz_fspowm                         mpz_spowm.cc:267-330
     operator>>(istream&, mpz_ptr)           mpz_helper.cc:108-124 (text decoding = CodecModel.decode62)
   The party talks to an arbitrary peer; every line it writes and every line it reads is an event of
   the trace, in program order.  The decision part of the n-party Flip (complaints, sum over Qual)
   is modelled at the end (JareckiLysyanskayaASTC.cc:1170-1240). *)
From Coq Require Import ZArith NArith List Bool.
From LT Require Import gen_Consts Zbase CodecModel.
Import ListNotations.
Local Open Scope Z_scope.

Record group := mkGroup { gp : Z; gq : Z; gg : Z; gh : Z }.

(* mpz_sizeinbase(x, 2) for x >= 0 (1 for zero) *)
Definition bitlen (x : Z) : Z := if x =? 0 then 1 else Z.log2 x + 1.

(* tmcg_mpz_fspowm on a table precomputed with `tbits` entries (the remaining TMCG_MAX_FPOWM_T - tbits
   entries are zero).  None = a C++ exception leaves the function (exponent too large / mpz_invert failed;
   the inversion is attempted for every sign of x).  For x < 0 the result is the inverse of b^|x|. *)
Definition fspowm (tbits : Z) (b x p : Z) : option Z :=
  let ax := Z.abs x in
  if bitlen ax >? TMCG_MAX_FPOWM_T then None else
  let r := if bitlen ax <=? tbits then powm b ax p else 0 in
  match invm r p with
  | None => None
  | Some iv => Some ((if x <? 0 then iv else r) mod p)
  end.

(* number of table entries written by tmcg_mpz_fpowm_precompute(table, b, p, sizeinbase(q,2)) *)
Definition table_bits (G : group) : Z := Z.min (bitlen (gq G)) TMCG_MAX_FPOWM_T.

(* g^a h^b mod p with both fixed-base tables *)
Definition commit (G : group) (a b : Z) : option Z :=
  match fspowm (table_bits G) (gg G) a (gp G), fspowm (table_bits G) (gh G) b (gp G) with
  | Some x, Some y => Some ((x * y) mod gp G)
  | _, _ => None
  end.

(* CheckElement: 0 < a < p and a^q = 1 (mod p) *)
Definition check_element (G : group) (a : Z) : bool :=
  (0 <? a) && (a <? gp G) && (powm a (gq G) (gp G) =? 1).

(* one line offered by the peer: its text (without the newline) and whether the stream is still
   good() after getline (false: end of file reached before a newline) *)
Definition inmsg := (bytes * bool)%type.

Inductive parsed := PVal (v : Z) | PThrow | PFail.
(* operator>>: mpz_set_str failure throws std::runtime_error (whatever the stream state);
   otherwise the caller tests in.good() *)
Definition parse (m : inmsg) : parsed :=
  match decode62 (fst m) with
  | None => PThrow
  | Some v => if snd m then PVal v else PFail
  end.

Inductive event := Send (v : Z) | Recv (m : inmsg).
Inductive outcome := Coin (a : Z) | Reject | Throw.

Definition peer := list event -> inmsg.

(* what is on the wire for a Send: mpz_get_str in base 62 followed by std::endl *)
Definition wire (v : Z) : bytes := encode62 v.

Definition b2z (b : bool) : Z := if b then 1 else 0.

(* Flip_twoparty for party i with coins a, b (the values drawn for c_i and hatc_i);
   faulty = simulate_faulty_behaviour, frand = the bit simulate_faulty_randomizer.
   The result is the complete trace and the outcome. *)
Definition flip2 (G : group) (a b : Z) (faulty frand : bool) (P : peer) : list event * outcome :=
  match commit G a b with
  | None => ([], Throw)
  | Some C0 =>
    let C := C0 + b2z faulty in
    let t1 := [Send C] in
    let m1 := P t1 in
    let t2 := t1 ++ [Recv m1] in
    match parse m1 with
    | PThrow => (t2, Throw)
    | PFail => (t2, Reject)
    | PVal C' =>
      if negb (check_element G C') then (t2, Reject) else
      let sa := a + b2z faulty in
      let sb := b + b2z (faulty && frand) in
      let t3 := t2 ++ [Send sa; Send sb] in
      let m2 := P t3 in
      let t4 := t3 ++ [Recv m2] in
      match parse m2 with
      | PThrow => (t4, Throw)
      | PFail => (t4, Reject)
      | PVal a' =>
        if Z.abs a' >=? gq G then (t4, Reject) else
        let m3 := P t4 in
        let t5 := t4 ++ [Recv m3] in
        match parse m3 with
        | PThrow => (t5, Throw)
        | PFail => (t5, Reject)
        | PVal b' =>
          if Z.abs b' >=? gq G then (t5, Reject) else
          match commit G a' b' with
          | None => (t5, Throw)
          | Some lhs =>
            if lhs =? C' mod gp G then (t5, Coin (((0 + sa) mod gq G + a') mod gq G))
            else (t5, Reject)
          end
        end
      end
    end
  end.

(* party 0 adds its own share first, party 1 the peer's share first (loop over j = 0, 1); the
   value is the same and the model does not distinguish the roles *)

(* a peer that plays a fixed list of lines and then reports end of file *)
Definition eof : inmsg := ([], false).
Definition recvs (t : list event) : nat :=
  length (filter (fun e => match e with Recv _ => true | Send _ => false end) t).
Definition script_peer (l : list inmsg) : peer := fun t => nth (recvs t) l eof.

(* the three lines an honest party with coins a, b writes *)
Definition honest_lines (G : group) (a b : Z) : option (list inmsg) :=
  match commit G a b with
  | None => None
  | Some C => Some [(wire C, true); (wire a, true); (wire b, true)]
  end.

Definition sends (t : list event) : list Z :=
  flat_map (fun e => match e with Send v => [v] | Recv _ => [] end) t.

(* position of the first event satisfying f *)
Fixpoint first_index (f : event -> bool) (t : list event) : option nat :=
  match t with
  | [] => None
  | e :: r => if f e then Some O else option_map S (first_index f r)
  end.

(* ---- trapdoor extraction from two openings of one commitment ------------------------------ *)
(* log_g h = (a1 - a2) / (b2 - b1) mod q *)
Definition extract_log (q a1 b1 a2 b2 : Z) : option Z :=
  match invm ((b2 - b1) mod q) q with
  | Some iv => Some (((a1 - a2) mod q * iv) mod q)
  | None => None
  end.

(* ---- decision part of the n-party Flip ----------------------------------------------------- *)
(* what party i holds about another member j of Qual after the delivery loop:
   C_j0 and the two broadcast values (None = DeliverFrom failed) *)
Record opening := mkOpening { o_C : Z; o_a : option Z; o_hata : option Z }.

(* values of a_i[j], hata_i[j] after the loop at :1170-1202 (out-of-range values are replaced by 0,
   a failed first delivery skips the second) and whether a complaint was filed there *)
Definition recv_values (q : Z) (o : opening) : Z * Z * bool :=
  match o_a o with
  | None => (0, 0, true)
  | Some a =>
    let bad_a := Z.abs a >=? q in
    let a1 := if bad_a then 0 else a in
    match o_hata o with
    | None => (a1, 0, true)
    | Some b =>
      let bad_b := Z.abs b >=? q in
      (a1, (if bad_b then 0 else b), bad_a || bad_b)
    end
  end.

(* complaint against j after the check loop at :1203-1225; None = exception *)
Definition flipN_complaint (G : group) (o : opening) : option bool :=
  let '(a1, b1, c) := recv_values (gq G) o in
  match commit G a1 b1 with
  | None => None
  | Some lhs => Some (c || negb (lhs =? o_C o mod gp G))
  end.

(* the value that enters the sum for j: its own opening when there is no complaint, otherwise the
   value rec produced by RVSS::Reconstruct *)
Definition flipN_share (G : group) (o : opening) (rec : Z) : option Z :=
  match flipN_complaint G o with
  | None => None
  | Some true => Some rec
  | Some false => Some (fst (fst (recv_values (gq G) o)))
  end.

Definition flipN_sum (q : Z) (shares : list Z) : Z :=
  fold_left (fun acc x => (acc + x) mod q) shares 0.
