(* AioToy: a toy MAC and a toy cipher (key stream from the most recent handle operation, like a CFB register) meeting
   prims_ok: witness for non-vacuity and for the refuted IV statement. *)
From Coq Require Import ZArith NArith List Bool Lia.
From LT Require Import gen_Consts CodecModel CodecLemmas AioModel AioLemmas AioRoundtrip AioIntegrity AioProgress AioFits AioTheorems.
Import ListNotations.
Local Open Scope Z_scope.

Definition toy_key (h : chist) : N :=     (* depends on the most recent operation only, like a CFB register *)
  match h with
  | OpIV x :: _ | OpCtr x :: _ | OpData x :: _ => (fold_left N.add x 1) mod 256
  | [] => 1
  end%N.
Definition toyP : prims :=
  {| maclen := 2; mac := fun x => [(N.of_nat (length x)) mod 256; (fold_left N.add x 7) mod 256]%N; blklen := 2;
     c_enc := fun h p => map (fun b => if (b <? 256)%N then ((b + toy_key h) mod 256)%N else b) p;
     c_dec := fun h p => map (fun b => if (b <? 256)%N then ((b + 256 - toy_key h) mod 256)%N else b) p |}.

Lemma toy_prims_ok : prims_ok toyP.
Proof.
  assert (K : forall h, (toy_key h < 256)%N).
  { intros h. unfold toy_key. destruct h as [|[x|x|x] r]; try (apply N.mod_lt; discriminate). reflexivity. }
  constructor.
  - cbn. lia.
  - reflexivity.
  - intros h p F. cbn [toyP c_enc c_dec]. rewrite map_map. rewrite <- (map_id p) at 2. apply map_ext_in.
    intros b Hb. unfold isbytes in F. rewrite Forall_forall in F. specialize (F b Hb). specialize (K h).
    destruct (N.ltb_spec b 256); [|lia].
    destruct (N.ltb_spec ((b + toy_key h) mod 256) 256) as [_|X]; [|pose proof (N.mod_lt (b + toy_key h) 256); lia].
    destruct (N.ltb_spec (b + toy_key h) 256).
    + rewrite (N.mod_small (b + toy_key h)) by assumption.
      replace (b + toy_key h + 256 - toy_key h)%N with (b + 1 * 256)%N by lia.
      rewrite N.mod_add by discriminate. now apply N.mod_small.
    + replace ((b + toy_key h) mod 256)%N with (b + toy_key h - 256)%N
        by (apply N.mod_unique with 1%N; lia).
      replace (b + toy_key h - 256 + 256 - toy_key h)%N with b by lia. now apply N.mod_small.
  - intros h p. cbn. apply map_length.
  - intros h p F. cbn [toyP c_enc]. unfold isbytes in *. rewrite Forall_forall in *. intros x Hx.
    apply in_map_iff in Hx. destruct Hx as [b [<- Hb]]. specialize (F b Hb).
    destruct (N.ltb_spec b 256); [apply N.mod_lt; discriminate|lia].
Qed.


Lemma toy_link_fits : link_fits toyP.
Proof. unfold link_fits, rec_bound. vm_compute. split; [discriminate|reflexivity]. Qed.

Definition cfg_of (a e ch nb : bool) : cfg := {| auth := a; encr := e; chunked := ch; nonblock := nb |}.

(* "if only the IV block of an honest authenticated + encrypted wire is replaced (every record untouched), the deliveries
   are still a prefix of what was sent" -- false on a stream-mode (CFB-like) link: *)
Definition iv_free_integrity : Prop :=
  forall P c iv iv' ms w sst, prims_ok P -> length iv = blklen P -> length iv' = blklen P ->
    auth c = true -> encr c = true ->
    send_all P c iv (sstate0 c iv) ms = Some (w, sst) ->
    exists n, stream_deliveries P c iv rstate0 (iv' ++ skipn (blklen P) w) = firstn n ms.

Definition toy_c : cfg := cfg_of true true false false.
Definition toy_w : bytes := match send_all toyP toy_c [3; 9]%N (sstate0 toy_c [3; 9]%N) [5; 7; 9] with Some (w, _) => w | None => [] end.

(* the witness: IV [3;9] replaced by [4;9], all three records untouched: the first message is dropped (its MAC verifies,
   the sequence number advances, the plaintext is garbage), the second and third are delivered *)
Lemma iv_tamper_witness :
  send_all toyP toy_c [3; 9]%N (sstate0 toy_c [3; 9]%N) [5; 7; 9] <> None /\
  stream_deliveries toyP toy_c [3; 9]%N rstate0 ([3; 9]%N ++ skipn 2 toy_w) = [5; 7; 9] /\
  stream_deliveries toyP toy_c [3; 9]%N rstate0 ([4; 9]%N ++ skipn 2 toy_w) = [7; 9].
Proof. vm_compute. repeat split; try reflexivity. discriminate. Qed.

Definition toy_sst : sstate :=
  match send_all toyP toy_c [3; 9]%N (sstate0 toy_c [3; 9]%N) [5; 7; 9] with Some (_, x) => x | None => sstate0 toy_c [] end.
Lemma toy_send : send_all toyP toy_c [3; 9]%N (sstate0 toy_c [3; 9]%N) [5; 7; 9] = Some (toy_w, toy_sst).
Proof. vm_compute. reflexivity. Qed.

Theorem iv_tamper_refuted : ~ iv_free_integrity.
Proof.
  intros H. destruct iv_tamper_witness as (_ & _ & T).
  destruct (H toyP toy_c [3; 9]%N [4; 9]%N [5; 7; 9] toy_w toy_sst toy_prims_ok eq_refl eq_refl eq_refl eq_refl toy_send) as [n Hn].
  change (blklen toyP) with 2%nat in Hn. rewrite T in Hn.
  destruct n as [|[|[|[|n]]]]; cbn [firstn] in Hn; discriminate.
Qed.
