(* TmcgModel -- Gallina model of the quadratic-residue card encoding of SchindelhauerTMCG (C01).
   Definitions only.  A TMCG_Card / TMCG_CardSecret is a Players x TypeBits matrix z[k][w] (r[k][w], b[k][w]);
   it is modelled as a function of the two indices, the dimensions k and w are explicit (as in the class). *)
From Coq Require Import ZArith List Bool.
Import ListNotations.
Local Open Scope Z_scope.

Definition matrix : Type := nat -> nat -> Z.

(* TMCG_MaskValue, SchindelhauerTMCG.cc:231-254:  zz = z * r^2 * y^b (mod m), b taken modulo 2 *)
Definition mask_value (m y z r b : Z) : Z :=
  let zz := (((r * r) mod m) * z) mod m in
  if Z.odd b then (zz * y) mod m else zz.

(* TMCG_CreateOpenCard(TMCG_Card), :699-726: row 0 carries the bits of the type (y_0 for 1, 1 for 0) *)
Definition open_card_qr (ky : nat -> Z) (T : Z) : matrix :=
  fun i j => if Nat.eqb i 0 then (if Z.testbit T (Z.of_nat j) then ky 0%nat else 1) else 1.

(* TMCG_MaskCard(TMCG_Card), :833-851 *)
Definition mask_card (km ky : nat -> Z) (c r b : matrix) : matrix :=
  fun i j => mask_value (km i) (ky i) (c i j) (r i j) (b i j).

Fixpoint xor_upto (n : nat) (f : nat -> bool) : bool :=
  match n with
  | O => false
  | S n' => xorb (xor_upto n' f) (f n')
  end.

(* TMCG_CreateCardSecret, :743-793, second loop: row `index` becomes the XOR of all other rows *)
Definition complete_secret (k index : nat) (b : matrix) : matrix :=
  fun i j => if Nat.eqb i index
             then (if xor_upto k (fun i' => if Nat.eqb i' index then false else Z.odd (b i' j)) then 1 else 0)
             else b i j.

(* TMCG_SelfCardSecret, :1032-1049 (and what TMCG_VerifyCardSecret accepts from the others): the
   residuosity bit of every entry of row `index`; nqr i z = "z is not a quadratic residue modulo m_i" *)
Definition self_bits (nqr : nat -> Z -> bool) (c : matrix) : matrix :=
  fun i j => if nqr i (c i j) then 1 else 0.

Fixpoint type_sum (w : nat) (bit : nat -> bool) : Z :=
  match w with
  | O => 0
  | S w' => type_sum w' bit + (if bit w' then 2 ^ Z.of_nat w' else 0)
  end.

(* TMCG_TypeOfCard(TMCG_CardSecret), :1057-1077: bit w of the type = XOR over the players of b[k][w] *)
Definition type_of_card (k w : nat) (b : matrix) : Z :=
  type_sum w (fun j => xor_upto k (fun i => Z.odd (b i j))).

Fixpoint mask_chain (km ky : nat -> Z) (c : matrix) (chain : list (matrix * matrix)) : matrix :=
  match chain with
  | [] => c
  | (r, b) :: tl => mask_chain km ky (mask_card km ky c r b) tl
  end.

(* matrices from the vectors of vectors of the implementation (used by the correspondence driver) *)
Definition matrix_of (rows : list (list Z)) : matrix := fun i j => nth j (nth i rows []) 0.
Definition rows_of (k w : nat) (c : matrix) : list (list Z) :=
  map (fun i => map (fun j => c i j) (seq 0 w)) (seq 0 k).
