(* C19 -- OpenPGP encodings conform to the standard and round-trip.
   Property theorems only: each is closed by `exact <lemma>` and followed by Print Assumptions.
   The model (PgpCodecModel.v) is the reference written from RFC 4880; harness/c19.cc compares the real
   CallasDonnerhackeFinneyShawThayerRFC4880 functions with it octet for octet. *)
From Coq Require Import ZArith NArith List Lia.
From LT Require Import gen_Consts gen_Tables PgpCodecModel PgpCodecLemmas PgpArmorLemmas PgpSigModel PgpPacketModel PgpPacketLemmas.
Import ListNotations.
Local Open Scope N_scope.

(* the alphabet / reverse table compiled into the library are the ones of RFC 4880 6.3 *)
Theorem C19_radix64_alphabet : map r64_char (map N.of_nat (seq 0 64)) = src_tRadix64.
Proof. exact r64_alphabet_is_source. Qed.
Print Assumptions C19_radix64_alphabet.

Theorem C19_radix64_reverse_table :
  map (fun c => Z.of_N (r64_lookup c)) (map N.of_nat (seq 0 256)) = src_fRadix64.
Proof. exact r64_reverse_is_source. Qed.
Print Assumptions C19_radix64_reverse_table.

(* all octet strings, with and without line wrapping *)
Theorem C19_radix64_roundtrip : forall lb l, octets l -> radix64_decode (radix64_encode lb l) = l.
Proof. exact radix64_roundtrip. Qed.
Print Assumptions C19_radix64_roundtrip.

Theorem C19_radix64_line_length : (radix64_mc mod 4 = 0 /\ 0 < radix64_mc <= 76)%nat.
Proof. exact radix64_mc_ok. Qed.
Print Assumptions C19_radix64_line_length.

Theorem C19_crc24_parameters : crc24_init = 11994318 /\ crc24_poly = 25578747 /\ crc24 [] = 11994318.
Proof. exact crc24_parameters. Qed.
Print Assumptions C19_crc24_parameters.

Theorem C19_crc24_affine : forall a b c, length a = length b -> length b = length c ->
  crc24 (xor_octets (xor_octets a b) c) = N.lxor (N.lxor (crc24 a) (crc24 b)) (crc24 c).
Proof. exact crc24_affine. Qed.
Print Assumptions C19_crc24_affine.

Theorem C19_crc24_line_roundtrip : forall l,
  exists cs, crc24_encode l = PAD :: cs /\ length cs = 4%nat /\ radix64_decode cs = crc24_octets l.
Proof. exact crc24_line_roundtrip. Qed.
Print Assumptions C19_crc24_line_roundtrip.

(* body lengths: every length below 2^32 incl. the boundaries 191/192 and 8383/8384 *)
Theorem C19_pktlen_roundtrip : forall n rest lt, n < 4294967296 ->
  pktlen_decode (pktlen_encode n ++ rest) true lt = Some (LenDefinite n (length (pktlen_encode n))).
Proof. exact pktlen_roundtrip. Qed.
Print Assumptions C19_pktlen_roundtrip.

Theorem C19_pktlen_form : forall n,
  length (pktlen_encode n) = if n <? 192 then 1%nat else if n <? 8384 then 2%nat else 5%nat.
Proof. exact pktlen_encode_length. Qed.
Print Assumptions C19_pktlen_form.

Theorem C19_pktlen_shortest : forall l lt n k, octets l ->
  pktlen_decode l true lt = Some (LenDefinite n k) -> (length (pktlen_encode n) <= k)%nat.
Proof. exact pktlen_shortest. Qed.
Print Assumptions C19_pktlen_shortest.

Theorem C19_pktlen_consumed : forall l nf lt n k,
  pktlen_decode l nf lt = Some (LenDefinite n k) -> (1 <= k <= length l)%nat.
Proof. exact pktlen_consumed. Qed.
Print Assumptions C19_pktlen_consumed.

Theorem C19_pktlen_partial : forall l lt n, octets l ->
  pktlen_decode l true lt = Some (LenPartial n) ->
  exists a r, l = a :: r /\ 224 <= a < 255 /\ n = 2 ^ (a - 224) /\ n <= 1073741824.
Proof. exact pktlen_partial_spec. Qed.
Print Assumptions C19_pktlen_partial.

(* tag + length + body is split back into exactly tag and body *)
Theorem C19_packet_extract : forall tag body rest, tag < 64 -> len body < 4294967296 ->
  body_extract (packet tag body ++ rest) = Some (tag, firstn (length body) (body ++ rest)) /\
  firstn (length body) (body ++ rest) = body.
Proof. exact packet_extract. Qed.
Print Assumptions C19_packet_extract.

(* multiprecision integers incl. 0; the bit count must fit the two-octet field *)
Theorem C19_mpi_roundtrip : forall n rest, N.size n < 65536 ->
  mpi_decode (mpi_encode n ++ rest) = Some (n, length (mpi_encode n)).
Proof. exact mpi_roundtrip. Qed.
Print Assumptions C19_mpi_roundtrip.

Theorem C19_mpi_consumed : forall l v k, mpi_decode l = Some (v, k) -> (2 <= k <= length l)%nat.
Proof. exact mpi_consumed. Qed.
Print Assumptions C19_mpi_consumed.

(* all 256 coded S2K counts (a finite fact, decided by evaluation) *)
Theorem C19_s2k_count_all : forall c, c < 256 ->
  s2k_count c = s2k_count_c c /\ 1024 <= s2k_count c <= 65011712 /\ (c < 255 -> s2k_count c < s2k_count (c + 1)).
Proof. exact s2k_count_all. Qed.
Print Assumptions C19_s2k_count_all.

Theorem C19_s2k_stream_length : forall cnt nzp data, data <> [] ->
  len (s2k_stream cnt nzp data) = N.of_nat nzp + N.max cnt (len data).
Proof. exact s2k_stream_length. Qed.
Print Assumptions C19_s2k_stream_length.

(* ASCII armor: ArmorDecode (as implemented) applied to what ArmorEncode emits, every block type *)
Theorem C19_armor_roundtrip : forall ty data, octets data -> data <> [] ->
  armor_decode (armor_encode (Some ty) None [] data) = ArmOk ty data.
Proof. exact armor_roundtrip. Qed.
Print Assumptions C19_armor_roundtrip.

(* the full statement (all octet strings) is false: the block emitted for the empty string is refused *)
Theorem C19_armor_roundtrip_empty_refuted : forall ty, armor_decode (armor_encode (Some ty) None [] []) = ArmBadLayout.
Proof. exact armor_roundtrip_empty_refuted. Qed.
Print Assumptions C19_armor_roundtrip_empty_refuted.

(* refusals: any other checksum line, changed data under the old checksum, no blank line, a nested block *)
Theorem C19_armor_rejects_wrong_checksum : forall ty data c1 c2 c3 c4, octets data -> data <> [] ->
  Forall (fun c => plainb c = true) [c1; c2; c3; c4] -> [PAD; c1; c2; c3; c4] <> crc24_encode data ->
  armor_decode (txt ty (radix64_encode true data) [PAD; c1; c2; c3; c4]) = ArmBadChecksum.
Proof. exact armor_rejects_wrong_checksum. Qed.
Print Assumptions C19_armor_rejects_wrong_checksum.

Theorem C19_armor_rejects_changed_data : forall ty d1 d2, octets d1 -> octets d2 -> d2 <> [] ->
  crc24_encode d1 <> crc24_encode d2 ->
  armor_decode (txt ty (radix64_encode true d2) (crc24_encode d1)) = ArmBadChecksum.
Proof. exact armor_rejects_changed_data. Qed.
Print Assumptions C19_armor_rejects_changed_data.

Theorem C19_armor_rejects_missing_separator : forall ty data, octets data -> data <> [] ->
  armor_decode (head_g false ty ++ (radix64_encode true data ++ crlf ++ crc24_encode data) ++ tail_s ty) = ArmNoSeparator.
Proof. exact armor_rejects_missing_separator. Qed.
Print Assumptions C19_armor_rejects_missing_separator.

Theorem C19_armor_rejects_nested : forall ty d1 d2, octets d1 -> octets d2 ->
  armor_decode (head_s ty ++ armor_encode (Some ty) None [] d2
                ++ (radix64_encode true d1 ++ crlf ++ crc24_encode d1) ++ tail_s ty) = ArmNested.
Proof. exact armor_rejects_nested. Qed.
Print Assumptions C19_armor_rejects_nested.

(* packet level: PacketDecode (header and body decoders as implemented) applied to the RFC field encoders.
   One theorem for every packet type; wf_fields lists the side conditions per type (lengths of fixed fields, MPIs
   with a 16-bit bit count, non-zero where the decoder insists, non-empty data where it insists) *)
Theorem C19_packet_roundtrip : forall f rest, wf_fields f -> packet_decode (packet_of f ++ rest) = PdOk f.
Proof. exact packet_roundtrip. Qed.
Print Assumptions C19_packet_roundtrip.

Theorem C19_packet_roundtrip_key : forall tag nf v tm a km, (tag = 6 \/ tag = 14) -> (v = 4 \/ v = 5) -> tm < 4294967296 ->
  km_matches a km = true -> km_wf km ->
  decode_body tag nf (fields_body (PfKey tag v tm a km)) = PdOk (PfKey tag v tm a km).
Proof. exact roundtrip_key. Qed.
Print Assumptions C19_packet_roundtrip_key.

Theorem C19_packet_roundtrip_uid : forall nf u, decode_body 13 nf u = PdOk (PfUid u).
Proof. exact roundtrip_uid. Qed.
Print Assumptions C19_packet_roundtrip_uid.

Theorem C19_packet_roundtrip_signature : forall nf v ty pk h hashed unhashed left ms, (v = 4 \/ v = 5) ->
  len hashed < 65536 -> len unhashed < 65536 -> area_ok hashed = true -> area_ok unhashed = true ->
  length left = 2%nat -> sig_mpi_count pk = Some (length ms) -> Forall mpi_ok ms -> Forall (fun m => m <> 0) ms ->
  decode_body 2 nf (sig4_body v ty pk h hashed unhashed left ms) = PdOk (PfSig4 v ty pk h hashed unhashed left ms).
Proof. exact roundtrip_sig4. Qed.
Print Assumptions C19_packet_roundtrip_signature.

Theorem C19_packet_roundtrip_signature_v3 : forall nf ty tm issuer pk h left ms, tm < 4294967296 -> length issuer = 8%nat ->
  length left = 2%nat -> sig_mpi_count pk = Some (length ms) -> Forall mpi_ok ms -> Forall (fun m => m <> 0) ms ->
  decode_body 2 nf (sig3_body ty tm issuer pk h left ms) = PdOk (PfSig3 ty tm issuer pk h left ms).
Proof. exact roundtrip_sig3. Qed.
Print Assumptions C19_packet_roundtrip_signature_v3.

Theorem C19_subpacket_roundtrip : forall t crit d rest, t < 128 -> len d + 1 < 4294967296 ->
  subpkt_split (subpacket t crit d ++ rest) = Some (t, d, rest).
Proof. exact subpacket_roundtrip. Qed.
Print Assumptions C19_subpacket_roundtrip.

Theorem C19_packet_roundtrip_literal : forall nf fm fn tm d, tm < 4294967296 -> d <> [] ->
  decode_body 11 nf (lit_body fm fn tm d) = PdOk (PfLit fm fn tm d).
Proof. exact roundtrip_lit. Qed.
Print Assumptions C19_packet_roundtrip_literal.

(* the full statement (all data) is false: the literal packet of an empty document is refused (known finding) *)
Theorem C19_packet_roundtrip_literal_empty_refuted : forall nf fm fn tm, decode_body 11 nf (lit_body fm fn tm []) = PdError.
Proof. exact roundtrip_lit_empty_refuted. Qed.
Print Assumptions C19_packet_roundtrip_literal_empty_refuted.

Theorem C19_packet_roundtrip_compressed : forall nf a d, d <> [] -> decode_body 8 nf (comp_body a d) = PdOk (PfComp a d).
Proof. exact roundtrip_comp. Qed.
Print Assumptions C19_packet_roundtrip_compressed.

Theorem C19_packet_roundtrip_skesk : forall nf sk s e, s2k_ok s -> decode_body 3 nf (skesk4_body sk s e) = PdOk (PfSkesk4 sk s e).
Proof. exact roundtrip_skesk4. Qed.
Print Assumptions C19_packet_roundtrip_skesk.

Theorem C19_packet_roundtrip_skesk_v5 : forall nf sk ae s iv e, s2k_ok s -> length iv = aead_ivlen_n ae -> e <> [] ->
  decode_body 3 nf (skesk5_body sk ae s iv e) = PdOk (PfSkesk5 sk ae s iv e).
Proof. exact roundtrip_skesk5. Qed.
Print Assumptions C19_packet_roundtrip_skesk_v5.

Theorem C19_packet_roundtrip_pkesk : forall nf keyid a e, length keyid = 8%nat -> esk_matches a e = true -> esk_wf e ->
  decode_body 1 nf (pkesk_body keyid a e) = PdOk (PfPkesk keyid a e).
Proof. exact roundtrip_pkesk. Qed.
Print Assumptions C19_packet_roundtrip_pkesk.

Theorem C19_packet_roundtrip_seipd : forall nf d, d <> [] -> decode_body 18 nf (seipd_body d) = PdOk (PfSeipd d).
Proof. exact roundtrip_seipd. Qed.
Print Assumptions C19_packet_roundtrip_seipd.

Theorem C19_packet_roundtrip_aead : forall nf sk ae cs iv d, length iv = aead_ivlen_n ae -> d <> [] ->
  decode_body 20 nf (aead_body sk ae cs iv d) = PdOk (PfAead sk ae cs iv d).
Proof. exact roundtrip_aead. Qed.
Print Assumptions C19_packet_roundtrip_aead.

Theorem C19_packet_roundtrip_mdc : forall h, length h = 20%nat -> decode_body 19 true h = PdOk (PfMdc h).
Proof. exact roundtrip_mdc. Qed.
Print Assumptions C19_packet_roundtrip_mdc.

(* non-vacuity *)
Example C19_example_packet : wf_fields (PfKey 6 4 1600000000 19 (KmECsig [42; 134; 72; 206; 61; 3; 1; 7] 1234567))
  /\ packet_of (PfUid [65; 66]) = [205; 2; 65; 66].
Proof. split; [|reflexivity]. split; [vm_compute; reflexivity|]. repeat split; try (vm_compute; (reflexivity || lia)); auto. Qed.
Example C19_example_armor : txt ArmMessage (radix64_encode true [1]) (crc24_encode [1]) = armor_encode (Some ArmMessage) None [] [1]
  /\ armor_decode (armor_encode (Some ArmMessage) None [] [1]) = ArmOk ArmMessage [1].
Proof. vm_compute. split; reflexivity. Qed.
Example C19_nonvacuous_octets : octets [0; 255; 61; 13; 10].
Proof. unfold octets, octet. repeat constructor. Qed.
Example C19_example_radix64 : radix64_encode true [0x14; 0xFB; 0x9C; 0x03; 0xD9; 0x7E] = [70; 80; 117; 99; 65; 57; 108; 43].   (* RFC 4648 vector "FPucA9l+" *)
Proof. vm_compute. reflexivity. Qed.
Example C19_example_crc24 : crc24 [] = 0xB704CE.
Proof. vm_compute. reflexivity. Qed.
Example C19_example_pktlen : map pktlen_encode [191; 192; 8383; 8384; 4294967295]
  = [[191]; [192; 0]; [223; 255]; [255; 0; 0; 32; 192]; [255; 255; 255; 255; 255]].
Proof. vm_compute. reflexivity. Qed.
Example C19_example_s2k : s2k_count 96 = 65536 /\ s2k_count 0 = 1024 /\ s2k_count 255 = 65011712.
Proof. vm_compute. repeat split. Qed.
Example C19_example_mpi : mpi_encode 1 = [0; 1; 1] /\ mpi_encode 511 = [0; 9; 1; 255] /\ mpi_encode 0 = [0; 0].   (* RFC 4880 3.2 *)
Proof. vm_compute. repeat split. Qed.
