From Coq Require Import Extraction ExtrOcamlBasic.
From LT Require Import CodecModel.
Extraction "model.ml" encode62 decode62 strtoul_full export_vcard import_vcard export_vsecret import_vsecret
  export_tcard import_tcard export_tsecret import_tsecret export_tstack import_tstack export_tstacksecret import_tstacksecret export_pubkey import_pubkey export_vstack import_vstack export_vstacksecret import_vstacksecret.
