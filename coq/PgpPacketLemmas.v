(* C19 -- packet level round trips: decoding (as implemented) what the RFC field encoders produce *)
From Coq Require Import ZArith NArith List Bool Lia ZifyBool ZifyN.
From LT Require Import PgpCodecModel PgpCodecLemmas PgpSigModel PgpPacketModel.
Import ListNotations.
Local Open Scope N_scope.

Ltac Zify.zify_post_hook ::= Z.div_mod_to_equations.

(* ---------- helpers ---------- *)
Lemma firstn_app_exact {A} (a b : list A) : firstn (length a) (a ++ b) = a.
Proof. rewrite firstn_app, firstn_all, Nat.sub_diag. cbn. apply app_nil_r. Qed.
Lemma skipn_app_exact {A} (a b : list A) : skipn (length a) (a ++ b) = b.
Proof. rewrite skipn_app, skipn_all, Nat.sub_diag. reflexivity. Qed.
Lemma firstn_app_n {A} n (a b : list A) : length a = n -> firstn n (a ++ b) = a.
Proof. intros <-. apply firstn_app_exact. Qed.
Lemma skipn_app_n {A} n (a b : list A) : length a = n -> skipn n (a ++ b) = b.
Proof. intros <-. apply skipn_app_exact. Qed.

Lemma be_value_be4 v : v < 4294967296 -> be_value (be4 v) = v.
Proof.
  intro H. unfold be_value, be4. cbn [fold_left]. rewrite !N.shiftl_mul_pow2. change (2 ^ 8) with 256.
  assert (E : v = (((v / 16777216) mod 256 * 256 + (v / 65536) mod 256) * 256 + (v / 256) mod 256) * 256 + v mod 256).
  { change 16777216 with (256 * (256 * 256)). change 65536 with (256 * 256).
    rewrite <- !N.div_div by discriminate.
    set (a := v / 256) in *. set (b := a / 256) in *. set (c := b / 256) in *.
    assert (c < 256) by (unfold c, b, a; rewrite !N.div_div by discriminate; apply N.div_lt_upper_bound; [discriminate|exact H]).
    rewrite (N.mod_small c) by assumption.
    pose proof (N.div_mod v 256). pose proof (N.div_mod a 256). pose proof (N.div_mod b 256). fold a in H1. fold b in H2. fold c in H3.
    specialize (H1 ltac:(discriminate)). specialize (H2 ltac:(discriminate)). specialize (H3 ltac:(discriminate)).
    clearbody a b c. generalize dependent (v mod 256). generalize dependent (a mod 256). generalize dependent (b mod 256). intros; nia. }
  rewrite N.add_0_l. symmetry. exact E.
Qed.

Lemma be2_length_c v : length (be2 v) = 2%nat. Proof. reflexivity. Qed.
Lemma be4_length_c v : length (be4 v) = 4%nat. Proof. reflexivity. Qed.

Definition mpi_ok (n : N) : Prop := N.size n < 65536.

Lemma mpi_encode_len_ge n : n <> 0 -> (3 <= length (mpi_encode n))%nat.
Proof.
  intro H. rewrite mpi_encode_length. unfold mpi_octets.
  assert (1 <= N.size n) by (destruct n; [congruence|cbn; lia]).
  assert (1 <= (N.size n + 7) / 8) by (apply N.div_le_lower_bound; lia). lia.
Qed.

Lemma mpis_decode_enc ms rest : Forall mpi_ok ms ->
  mpis_decode (length ms) (concat (map mpi_encode ms) ++ rest) = Some (ms, rest).
Proof.
  induction ms as [|m ms IH]; intro H; [reflexivity|]. inversion_clear H as [|? ? Hm Hms].
  cbn [length mpis_decode map concat]. rewrite <- app_assoc. rewrite mpi_roundtrip by exact Hm.
  rewrite skipn_app_exact. now rewrite IH.
Qed.

Lemma mpis_decode_strict_enc ms rest : Forall mpi_ok ms -> Forall (fun m => m <> 0) ms ->
  mpis_decode_strict (length ms) (concat (map mpi_encode ms) ++ rest) = Some (ms, rest).
Proof.
  induction ms as [|m ms IH]; intros H Hz; [reflexivity|]. inversion_clear H as [|? ? Hm Hms]. inversion_clear Hz as [|? ? Hn Hzs].
  cbn [length mpis_decode_strict map concat]. rewrite <- app_assoc.
  pose proof (mpi_encode_len_ge m Hn).
  replace (length (mpi_encode m ++ concat (map mpi_encode ms) ++ rest) <=? 2)%nat with false by (rewrite app_length; lia).
  rewrite mpi_roundtrip by exact Hm. rewrite skipn_app_exact. now rewrite IH.
Qed.

(* ---------- simple containers ---------- *)
Theorem roundtrip_uid : forall nf u, decode_body 13 nf u = PdOk (PfUid u).
Proof. reflexivity. Qed.

Theorem roundtrip_sed : forall nf d, d <> [] -> decode_body 9 nf d = PdOk (PfSed d).
Proof. intros nf [|x d] H; [congruence|reflexivity]. Qed.

Theorem roundtrip_seipd : forall nf d, d <> [] -> decode_body 18 nf (seipd_body d) = PdOk (PfSeipd d).
Proof. intros nf [|x d] H; [congruence|reflexivity]. Qed.

Theorem roundtrip_mdc : forall h, length h = 20%nat -> decode_body 19 true h = PdOk (PfMdc h).
Proof. intros h H. unfold decode_body. cbn [N.eqb Pos.eqb orb negb]. now rewrite H. Qed.

Theorem roundtrip_comp : forall nf a d, d <> [] -> decode_body 8 nf (comp_body a d) = PdOk (PfComp a d).
Proof. intros nf a [|x d] H; [congruence|reflexivity]. Qed.

Theorem roundtrip_lit : forall nf fm fn tm d, tm < 4294967296 -> d <> [] ->
  decode_body 11 nf (lit_body fm fn tm d) = PdOk (PfLit fm fn tm d).
Proof.
  intros nf fm fn tm d Ht Hd. unfold decode_body. cbn [N.eqb Pos.eqb orb]. unfold decode_lit, lit_body, len.
  rewrite Nat2N.id. rewrite !app_length, be4_length_c.
  replace (length fn + (4 + length d) <? length fn + 4)%nat with false by lia.
  replace (length fn + 4)%nat with (length (fn ++ be4 tm)) by (rewrite app_length; reflexivity).
  rewrite app_assoc, skipn_app_exact. destruct d as [|x d]; [congruence|].
  rewrite <- app_assoc. rewrite firstn_app_exact, skipn_app_exact.
  rewrite (firstn_app_n 4) by reflexivity. now rewrite be_value_be4.
Qed.

(* a literal packet without data is what the encoder emits for an empty document, and the decoder refuses it *)
Theorem roundtrip_lit_empty_refuted : forall nf fm fn tm, decode_body 11 nf (lit_body fm fn tm []) = PdError.
Proof.
  intros. unfold decode_body. cbn [N.eqb Pos.eqb orb]. unfold decode_lit, lit_body, len. rewrite Nat2N.id.
  rewrite app_nil_r. destruct (length (fn ++ be4 tm) <? length fn + 4)%nat; [reflexivity|].
  replace (length fn + 4)%nat with (length (fn ++ be4 tm)) by (rewrite app_length; reflexivity).
  rewrite skipn_all. reflexivity.
Qed.

Theorem roundtrip_aead : forall nf sk ae cs iv d, length iv = aead_ivlen_n ae -> d <> [] ->
  decode_body 20 nf (aead_body sk ae cs iv d) = PdOk (PfAead sk ae cs iv d).
Proof.
  intros nf sk ae cs iv d Hiv Hd. unfold decode_body. cbn [N.eqb Pos.eqb orb]. unfold decode_aead, aead_body.
  cbn [N.eqb Pos.eqb negb]. rewrite <- Hiv. rewrite app_length.
  destruct d as [|x d]; [congruence|]. cbn [length].
  replace (length iv + S (length d) <=? length iv)%nat with false by lia.
  now rewrite firstn_app_exact, skipn_app_exact.
Qed.

(* ---------- symmetric-key encrypted session key ---------- *)
Definition s2k_ok (s : s2k_spec) : Prop :=
  match s with S2kSimple _ => True | S2kSalted _ salt => length salt = 8%nat | S2kIterated _ salt _ => length salt = 8%nat end.

Theorem roundtrip_skesk4 : forall nf sk s e, s2k_ok s -> decode_body 3 nf (skesk4_body sk s e) = PdOk (PfSkesk4 sk s e).
Proof.
  intros nf sk s e Hs. unfold decode_body. cbn [N.eqb Pos.eqb orb]. unfold decode_skesk, skesk4_body.
  destruct s as [h|h salt|h salt c]; cbn [s2k_octets app N.eqb Pos.eqb s2k_ok] in *.
  - reflexivity.
  - rewrite app_length, Hs. replace (8 + length e <? 8)%nat with false by lia.
    now rewrite (firstn_app_n 8), (skipn_app_n 8) by assumption.
  - rewrite <- app_assoc. rewrite !app_length, Hs. cbn [length]. replace (8 + (1 + length e) <? 9)%nat with false by lia.
    rewrite (firstn_app_n 8) by assumption. rewrite app_nth2 by lia. rewrite Hs, Nat.sub_diag. cbn [nth app].
    replace (skipn 9 (salt ++ c :: e)) with e; [reflexivity|].
    symmetry. replace (salt ++ c :: e) with ((salt ++ [c]) ++ e) by (rewrite <- app_assoc; reflexivity).
    apply skipn_app_n. rewrite app_length, Hs. reflexivity.
Qed.

Theorem roundtrip_skesk5 : forall nf sk ae s iv e, s2k_ok s -> length iv = aead_ivlen_n ae -> e <> [] ->
  decode_body 3 nf (skesk5_body sk ae s iv e) = PdOk (PfSkesk5 sk ae s iv e).
Proof.
  intros nf sk ae s iv e Hs Hiv He. unfold decode_body. cbn [N.eqb Pos.eqb orb]. unfold decode_skesk, skesk5_body.
  assert (Hl : (1 <= length e)%nat) by (destruct e; [congruence|cbn; lia]).
  destruct s as [h|h salt|h salt c]; cbn [s2k_octets app N.eqb Pos.eqb s2k_ok] in *; rewrite <- Hiv.
  - rewrite app_length. replace (length iv + length e <? length iv)%nat with false by lia.
    replace (length iv + length e =? length iv)%nat with false by lia.
    now rewrite firstn_app_exact, skipn_app_exact.
  - rewrite !app_length, Hs. replace (8 + (length iv + length e) <? 8 + length iv)%nat with false by lia.
    replace (8 + (length iv + length e) =? 8 + length iv)%nat with false by lia.
    rewrite (firstn_app_n 8), (skipn_app_n 8) by assumption. rewrite firstn_app_exact.
    replace (8 + length iv)%nat with (length (salt ++ iv)) by (rewrite app_length, Hs; reflexivity).
    rewrite app_assoc. now rewrite skipn_app_exact.
  - rewrite <- !app_assoc. rewrite !app_length, Hs. cbn [length].
    replace (8 + (1 + (length iv + length e)) <? 9 + length iv)%nat with false by lia.
    replace (8 + (1 + (length iv + length e)) =? 9 + length iv)%nat with false by lia.
    rewrite (firstn_app_n 8) by assumption. rewrite app_nth2 by lia. rewrite Hs, Nat.sub_diag. cbn [nth app].
    replace (skipn 9 (salt ++ c :: iv ++ e)) with (iv ++ e)
      by (symmetry; replace 9%nat with (length (salt ++ [c])) by (rewrite app_length, Hs; reflexivity);
          replace (salt ++ c :: iv ++ e) with ((salt ++ [c]) ++ iv ++ e) by (rewrite <- app_assoc; reflexivity);
          apply skipn_app_exact).
    rewrite firstn_app_exact.
    replace (salt ++ c :: iv ++ e) with ((salt ++ [c] ++ iv) ++ e) by (rewrite <- !app_assoc; reflexivity).
    replace (9 + length iv)%nat with (length (salt ++ [c] ++ iv)) by (rewrite !app_length, Hs; reflexivity).
    now rewrite skipn_app_exact.
Qed.

(* ---------- keys ---------- *)
Definition oid_ok (oid : list N) : Prop := (1 <= length oid <= 254)%nat.
Definition km_wf (km : key_material) : Prop :=
  match km with
  | KmRSA n e => mpi_ok n /\ mpi_ok e
  | KmElg p g y => mpi_ok p /\ mpi_ok g /\ mpi_ok y
  | KmDSA p q g y => mpi_ok p /\ mpi_ok q /\ mpi_ok g /\ mpi_ok y
  | KmECsig oid pk => oid_ok oid /\ mpi_ok pk
  | KmECDH oid pk _ _ => oid_ok oid /\ mpi_ok pk
  end.

Lemma md1 a r : mpi_ok a -> mpis_decode 1 (mpi_encode a ++ r) = Some ([a], r).
Proof. intro H. pose proof (mpis_decode_enc [a] r) as E. cbn [length map concat] in E. rewrite app_nil_r in E. apply E. repeat constructor; assumption. Qed.
Lemma md2 a b r : mpi_ok a -> mpi_ok b -> mpis_decode 2 (mpi_encode a ++ mpi_encode b ++ r) = Some ([a; b], r).
Proof. intros. pose proof (mpis_decode_enc [a; b] r) as E. cbn [length map concat] in E. rewrite app_nil_r, <- app_assoc in E. apply E. repeat constructor; assumption. Qed.
Lemma md3 a b c r : mpi_ok a -> mpi_ok b -> mpi_ok c ->
  mpis_decode 3 (mpi_encode a ++ mpi_encode b ++ mpi_encode c ++ r) = Some ([a; b; c], r).
Proof. intros. pose proof (mpis_decode_enc [a; b; c] r) as E. cbn [length map concat] in E. rewrite app_nil_r, <- !app_assoc in E. apply E. repeat constructor; assumption. Qed.
Lemma md4 a b c d r : mpi_ok a -> mpi_ok b -> mpi_ok c -> mpi_ok d ->
  mpis_decode 4 (mpi_encode a ++ mpi_encode b ++ mpi_encode c ++ mpi_encode d ++ r) = Some ([a; b; c; d], r).
Proof. intros. pose proof (mpis_decode_enc [a; b; c; d] r) as E. cbn [length map concat] in E. rewrite app_nil_r, <- !app_assoc in E. apply E. repeat constructor; assumption. Qed.

Lemma oid_split_enc oid r : oid_ok oid -> oid_split (len oid :: oid ++ r) = Some (oid, r).
Proof.
  unfold oid_ok, oid_split, len. intro H.
  replace (N.of_nat (length oid) =? 0) with false by lia. replace (N.of_nat (length oid) =? 255) with false by lia.
  cbn [orb]. rewrite app_length. replace (N.of_nat (length oid + length r) <? N.of_nat (length oid)) with false by lia.
  rewrite Nat2N.id. now rewrite firstn_app_exact, skipn_app_exact.
Qed.

Lemma mpi_len2 n : (2 <= length (mpi_encode n))%nat.
Proof. rewrite mpi_encode_length. lia. Qed.

Lemma km_octets_len km : km_wf km -> (4 <= length (km_octets km))%nat.
Proof.
  destruct km; cbn [km_octets km_wf]; intro H; rewrite ?app_length; cbn [length]; rewrite ?app_length;
    repeat match goal with |- context [length (mpi_encode ?x)] => pose proof (mpi_len2 x); generalize dependent (length (mpi_encode x)); intros end;
    try lia; unfold oid_ok in H; lia.
Qed.

Lemma key_decode_material time algo v tag km m0 : km_matches algo km = true -> km_wf km ->
  (* the algorithm dispatch of decode_key, on the key material octets *)
  (if (algo =? 1) || (algo =? 2) || (algo =? 3) then
     match mpis_decode 2 (km_octets km ++ m0) with Some ([n; e], _) => PdOk (PfKey tag v time algo (KmRSA n e)) | _ => PdError end
   else if algo =? 16 then
     match mpis_decode 3 (km_octets km ++ m0) with Some ([p; g; y], _) => PdOk (PfKey tag v time algo (KmElg p g y)) | _ => PdError end
   else if algo =? 17 then
     match mpis_decode 4 (km_octets km ++ m0) with Some ([p; q; g; y], _) => PdOk (PfKey tag v time algo (KmDSA p q g y)) | _ => PdError end
   else if algo =? 18 then
     match oid_split (km_octets km ++ m0) with
     | Some (oid, r2) =>
         match mpis_decode 1 r2 with
         | Some ([pk], [a; b; h; s]) => if (a =? 3) && (b =? 1) then PdOk (PfKey tag v time algo (KmECDH oid pk h s)) else PdError
         | _ => PdError
         end
     | None => PdError
     end
   else if (algo =? 19) || (algo =? 22) then
     match oid_split (km_octets km ++ m0) with
     | Some (oid, r2) => match mpis_decode 1 r2 with Some ([pk], _) => PdOk (PfKey tag v time algo (KmECsig oid pk)) | _ => PdError end
     | None => PdError
     end
   else PdUnsupported) = PdOk (PfKey tag v time algo km) \/ (exists o p h s, km = KmECDH o p h s /\ m0 <> []).
Proof.
  intros Hm Hw. destruct km as [n e|p g y|p q g y|oid pk|oid pk h s]; cbn [km_matches km_octets km_wf] in *.
  - left. rewrite Hm. rewrite <- app_assoc. destruct Hw. now rewrite md2.
  - left. apply N.eqb_eq in Hm. subst. cbn [N.eqb Pos.eqb orb]. rewrite <- !app_assoc. destruct Hw as [? [? ?]]. now rewrite md3.
  - left. apply N.eqb_eq in Hm. subst. cbn [N.eqb Pos.eqb orb]. rewrite <- !app_assoc. destruct Hw as [? [? [? ?]]]. now rewrite md4.
  - left. destruct Hw as [Ho Hp].
    assert (E : (algo =? 1) || (algo =? 2) || (algo =? 3) = false) by lia. rewrite E.
    replace (algo =? 16) with false by lia. replace (algo =? 17) with false by lia. replace (algo =? 18) with false by lia. rewrite Hm.
    cbn [app]. rewrite <- app_assoc. rewrite oid_split_enc by assumption. now rewrite md1.
  - destruct m0 as [|x m0]; [left|right; exists oid, pk, h, s; split; [reflexivity|discriminate]].
    apply N.eqb_eq in Hm. subst. cbn [N.eqb Pos.eqb orb]. destruct Hw as [Ho Hp].
    cbn [app]. rewrite app_nil_r. rewrite oid_split_enc by assumption. rewrite md1 by assumption. reflexivity.
Qed.

Theorem roundtrip_key : forall tag nf v tm a km, (tag = 6 \/ tag = 14) -> (v = 4 \/ v = 5) -> tm < 4294967296 ->
  km_matches a km = true -> km_wf km ->
  decode_body tag nf (fields_body (PfKey tag v tm a km)) = PdOk (PfKey tag v tm a km).
Proof.
  intros tag nf v tm a km Ht Hv Htm Hm Hw.
  assert (Hd : decode_body tag nf (fields_body (PfKey tag v tm a km)) = decode_key tag (fields_body (PfKey tag v tm a km))).
  { unfold decode_body. destruct Ht as [-> | ->]; reflexivity. }
  rewrite Hd. clear Hd. pose proof (km_octets_len km Hw) as Hl.
  pose proof (be_value_be4 tm Htm) as Eb. unfold be4 in Eb.
  destruct Hv as [-> | ->]; cbn [fields_body N.eqb Pos.eqb]; unfold key_body_v4, key_body_v5, decode_key, be4; cbn [app].
  - replace (length _ <? 10)%nat with false by (cbn [length]; lia). cbn [N.eqb Pos.eqb orb negb]. rewrite Eb.
    rewrite <- (app_nil_r (km_octets km)).
    destruct (key_decode_material tm a 4 tag km [] Hm Hw) as [E|[o [p [h [s [_ C]]]]]]; [exact E|congruence].
  - replace (length _ <? 10)%nat with false by (cbn [length]; lia). cbn [N.eqb Pos.eqb orb negb skipn]. rewrite Eb.
    rewrite <- (app_nil_r (km_octets km)).
    destruct (key_decode_material tm a 5 tag km [] Hm Hw) as [E|[o [p [h [s [_ C]]]]]]; [exact E|congruence].
Qed.

(* ---------- public-key encrypted session key ---------- *)
Lemma ms1 a r : mpi_ok a -> a <> 0 -> mpis_decode_strict 1 (mpi_encode a ++ r) = Some ([a], r).
Proof. intros. pose proof (mpis_decode_strict_enc [a] r) as E. cbn [length map concat] in E. rewrite app_nil_r in E. apply E; repeat constructor; assumption. Qed.
Lemma ms2 a b r : mpi_ok a -> mpi_ok b -> a <> 0 -> b <> 0 -> mpis_decode_strict 2 (mpi_encode a ++ mpi_encode b ++ r) = Some ([a; b], r).
Proof. intros. pose proof (mpis_decode_strict_enc [a; b] r) as E. cbn [length map concat] in E. rewrite app_nil_r, <- app_assoc in E. apply E; repeat constructor; assumption. Qed.

Definition esk_wf (e : esk_material) : Prop :=
  match e with
  | EskRSA me => mpi_ok me /\ 16777216 <= me                     (* the decoder wants a body of at least 16 octets *)
  | EskElg gk myk => mpi_ok gk /\ mpi_ok myk /\ gk <> 0 /\ myk <> 0
  | EskECDH epk w => mpi_ok epk /\ epk <> 0 /\ (2 <= length w <= 254)%nat
  end.

Lemma mpi_len_big n : 16777216 <= n -> (6 <= length (mpi_encode n))%nat.
Proof.
  intro H. rewrite mpi_encode_length. unfold mpi_octets.
  assert (25 <= N.size n).
  { destruct (N.le_gt_cases 25 (N.size n)) as [|C]; [assumption|]. exfalso.
    pose proof (N.size_gt n). assert (2 ^ N.size n <= 2 ^ 24) by (apply N.pow_le_mono_r; lia).
    change (2 ^ 24) with 16777216 in *. lia. }
  assert (4 <= (N.size n + 7) / 8) by (apply N.div_le_lower_bound; lia). lia.
Qed.

Theorem roundtrip_pkesk : forall nf keyid a e, length keyid = 8%nat -> esk_matches a e = true -> esk_wf e ->
  decode_body 1 nf (pkesk_body keyid a e) = PdOk (PfPkesk keyid a e).
Proof.
  intros nf keyid a e Hk Hm Hw. unfold decode_body. cbn [N.eqb Pos.eqb]. unfold decode_pkesk, pkesk_body.
  assert (Hl : (6 <= length (esk_octets e))%nat).
  { destruct e as [me|gk myk|epk w]; cbn [esk_octets esk_wf] in *.
    - now apply mpi_len_big.
    - destruct Hw as [? [? [Hg Hy]]]. rewrite app_length. pose proof (mpi_encode_len_ge gk Hg). pose proof (mpi_encode_len_ge myk Hy). lia.
    - destruct Hw as [? [Hg ?]]. rewrite app_length. cbn [length]. pose proof (mpi_encode_len_ge epk Hg). lia. }
  replace (length _ <? 16)%nat with false by (cbn [length]; rewrite app_length; cbn [length]; lia).
  cbn [N.eqb Pos.eqb negb]. rewrite (firstn_app_n 8), (skipn_app_n 8) by assumption.
  destruct e as [me|gk myk|epk w]; cbn [esk_matches esk_octets esk_wf] in *.
  - rewrite Hm. destruct Hw as [Ho Hb]. rewrite <- (app_nil_r (mpi_encode me)). rewrite ms1 by (try assumption; lia). reflexivity.
  - apply N.eqb_eq in Hm. subst. cbn [N.eqb Pos.eqb orb]. destruct Hw as [? [? [? ?]]].
    rewrite <- (app_nil_r (mpi_encode myk)). rewrite ms2 by assumption. reflexivity.
  - apply N.eqb_eq in Hm. subst. cbn [N.eqb Pos.eqb orb]. destruct Hw as [? [? Hwl]].
    rewrite ms1 by assumption. cbn [length]. replace (S (length w) <=? 2)%nat with false by lia.
    unfold len. replace (N.of_nat (length w) =? 0) with false by lia. replace (N.of_nat (length w) =? 255) with false by lia.
    cbn [orb]. rewrite N.ltb_irrefl. rewrite Nat2N.id, firstn_all. reflexivity.
Qed.

(* ---------- signatures ---------- *)
Theorem roundtrip_sig4 : forall nf v ty pk h hashed unhashed left ms, (v = 4 \/ v = 5) ->
  len hashed < 65536 -> len unhashed < 65536 -> area_ok hashed = true -> area_ok unhashed = true ->
  length left = 2%nat -> sig_mpi_count pk = Some (length ms) -> Forall mpi_ok ms -> Forall (fun m => m <> 0) ms ->
  decode_body 2 nf (sig4_body v ty pk h hashed unhashed left ms) = PdOk (PfSig4 v ty pk h hashed unhashed left ms).
Proof.
  intros nf v ty pk h hashed unhashed left ms Hv Hh Hu Ah Au Hl Hc Hok Hnz.
  unfold decode_body. cbn [N.eqb Pos.eqb]. unfold decode_sig, sig4_body.
  assert (Ev : v =? 3 = false) by (destruct Hv; subst; reflexivity). rewrite Ev.
  assert (Ev2 : (v =? 4) || (v =? 5) = true) by (destruct Hv; subst; reflexivity). rewrite Ev2.
  destruct left as [|l1 [|l2 [|? ?]]]; try discriminate.
  assert (Hms : (1 <= length ms)%nat).
  { unfold sig_mpi_count in Hc. destruct ((pk =? 1) || (pk =? 3)); [inversion Hc; lia|].
    destruct ((pk =? 17) || (pk =? 19) || (pk =? 22)); [inversion Hc; lia|discriminate]. }
  assert (Hml : (3 <= length (concat (map mpi_encode ms)))%nat).
  { destruct ms as [|m ms]; [cbn in Hms; lia|]. inversion_clear Hnz as [|? ? Hm _]. cbn [map concat]. rewrite app_length.
    pose proof (mpi_encode_len_ge m Hm). lia. }
  replace (length _ <? 12)%nat with false by (cbn [length]; rewrite !app_length, !be2_length_c; cbn [length]; lia).
  unfold be2 at 1. cbn [app].
  replace (N.to_nat ((len hashed / 256) mod 256 * 256 + len hashed mod 256)) with (length hashed) by (unfold len in *; lia).
  rewrite app_length. replace (length hashed + _ <? length hashed)%nat with false by lia.
  rewrite firstn_app_exact, skipn_app_exact, Ah. cbn [negb]. unfold be2. cbn [app].
  replace (N.to_nat ((len unhashed / 256) mod 256 * 256 + len unhashed mod 256)) with (length unhashed) by (unfold len in *; lia).
  rewrite app_length. replace (length unhashed + _ <? length unhashed)%nat with false by lia.
  rewrite firstn_app_exact, skipn_app_exact, Au. cbn [negb app]. rewrite Hc.
  rewrite <- (app_nil_r (concat (map mpi_encode ms))). rewrite mpis_decode_strict_enc by assumption. reflexivity.
Qed.

Theorem roundtrip_sig3 : forall nf ty tm issuer pk h left ms, tm < 4294967296 -> length issuer = 8%nat ->
  length left = 2%nat -> sig_mpi_count pk = Some (length ms) -> Forall mpi_ok ms -> Forall (fun m => m <> 0) ms ->
  decode_body 2 nf (sig3_body ty tm issuer pk h left ms) = PdOk (PfSig3 ty tm issuer pk h left ms).
Proof.
  intros nf ty tm issuer pk h left ms Htm Hi Hl Hc Hok Hnz.
  unfold decode_body. cbn [N.eqb Pos.eqb]. unfold decode_sig, sig3_body. cbn [N.eqb Pos.eqb].
  destruct left as [|l1 [|l2 [|? ?]]]; try discriminate.
  assert (Hms : (1 <= length ms)%nat).
  { unfold sig_mpi_count in Hc. destruct ((pk =? 1) || (pk =? 3)); [inversion Hc; lia|].
    destruct ((pk =? 17) || (pk =? 19) || (pk =? 22)); [inversion Hc; lia|discriminate]. }
  assert (Hml : (3 <= length (concat (map mpi_encode ms)))%nat).
  { destruct ms as [|m ms]; [cbn in Hms; lia|]. inversion_clear Hnz as [|? ? Hm _]. cbn [map concat]. rewrite app_length.
    pose proof (mpi_encode_len_ge m Hm). lia. }
  unfold be4. cbn [app].
  replace (length _ <? 22)%nat with false by (cbn [length]; rewrite !app_length; cbn [length]; lia).
  cbn [N.eqb Pos.eqb negb]. rewrite (firstn_app_n 8), (skipn_app_n 8) by assumption. cbn [app]. rewrite Hc.
  rewrite <- (app_nil_r (concat (map mpi_encode ms))). rewrite mpis_decode_strict_enc by assumption.
  pose proof (be_value_be4 tm Htm) as Eb. unfold be4 in Eb. rewrite Eb. reflexivity.
Qed.

(* the subpacket codec: what SubpacketEncode writes is split back into type and body *)
Theorem subpacket_roundtrip : forall t crit d rest, t < 128 -> len d + 1 < 4294967296 ->
  subpkt_split (subpacket t crit d ++ rest) = Some (t, d, rest).
Proof.
  intros t crit d rest Ht Hl. unfold subpacket.
  set (tb := if crit then N.lor t 128 else t).
  assert (Htb : tb mod 128 = t).
  { unfold tb. destruct crit; [|now apply N.mod_small].
    pose proof (forall_below 128 (fun t => (N.lor t 128) mod 128 =? t) eq_refl t Ht) as F. cbv beta in F. lia. }
  unfold pktlen_encode, subpkt_split.
  destruct (N.ltb_spec (len d + 1) 192) as [H1|H1].
  - cbn [app]. rewrite N.mod_small by lia. replace (len d + 1 <? 192) with true by lia.
    replace (len d + 1 =? 0) with false by lia. unfold len in *. rewrite app_length.
    replace (N.of_nat (length d + length rest) <? N.of_nat (length d) + 1 - 1) with false by lia.
    replace (N.to_nat (N.of_nat (length d) + 1 - 1)) with (length d) by lia.
    now rewrite Htb, firstn_app_exact, skipn_app_exact.
  - destruct (N.ltb_spec (len d + 1) 8384) as [H2|H2].
    + unfold be2. cbn [app].
      replace ((len d + 1 - 192 + 49152) / 256 mod 256 <? 192) with false by lia.
      replace ((len d + 1 - 192 + 49152) / 256 mod 256 <? 255) with true by lia.
      replace (((len d + 1 - 192 + 49152) / 256 mod 256 - 192) * 256 + (len d + 1 - 192 + 49152) mod 256 + 192) with (len d + 1) by lia.
      replace (len d + 1 =? 0) with false by lia. unfold len in *. rewrite app_length.
      replace (N.of_nat (length d + length rest) <? N.of_nat (length d) + 1 - 1) with false by lia.
      replace (N.to_nat (N.of_nat (length d) + 1 - 1)) with (length d) by lia.
      now rewrite Htb, firstn_app_exact, skipn_app_exact.
    + unfold be4. cbn [app]. cbn [N.ltb N.compare Pos.compare Pos.compare_cont].
      replace (u32 ((len d + 1) / 16777216 mod 256 * 16777216 + (len d + 1) / 65536 mod 256 * 65536 + (len d + 1) / 256 mod 256 * 256 + (len d + 1) mod 256)) with (len d + 1) by (unfold u32; lia).
      replace (len d + 1 =? 0) with false by lia. unfold len in *. rewrite app_length.
      replace (N.of_nat (length d + length rest) <? N.of_nat (length d) + 1 - 1) with false by lia.
      replace (N.to_nat (N.of_nat (length d) + 1 - 1)) with (length d) by lia.
      now rewrite Htb, firstn_app_exact, skipn_app_exact.
Qed.

(* ---------- whole packets ---------- *)
Definition wf_fields (f : packet_fields) : Prop :=
  len (fields_body f) < 4294967296 /\
  match f with
  | PfPkesk k a e => length k = 8%nat /\ esk_matches a e = true /\ esk_wf e
  | PfSig4 v ty pk h hs us l ms =>
      (v = 4 \/ v = 5) /\ len hs < 65536 /\ len us < 65536 /\ area_ok hs = true /\ area_ok us = true /\ length l = 2%nat /\
      sig_mpi_count pk = Some (length ms) /\ Forall mpi_ok ms /\ Forall (fun m => m <> 0) ms
  | PfSig3 ty tm i pk h l ms =>
      tm < 4294967296 /\ length i = 8%nat /\ length l = 2%nat /\ sig_mpi_count pk = Some (length ms) /\
      Forall mpi_ok ms /\ Forall (fun m => m <> 0) ms
  | PfSkesk4 _ s _ => s2k_ok s
  | PfSkesk5 _ ae s iv e => s2k_ok s /\ length iv = aead_ivlen_n ae /\ e <> []
  | PfKey tag v tm a km => (tag = 6 \/ tag = 14) /\ (v = 4 \/ v = 5) /\ tm < 4294967296 /\ km_matches a km = true /\ km_wf km
  | PfComp _ d => d <> []
  | PfSed d => d <> []
  | PfLit _ _ tm d => tm < 4294967296 /\ d <> []
  | PfUid _ => True
  | PfSeipd d => d <> []
  | PfMdc h => length h = 20%nat
  | PfAead _ ae _ iv d => length iv = aead_ivlen_n ae /\ d <> []
  end.

Lemma fields_tag_small f : wf_fields f -> fields_tag f < 64.
Proof. destruct f; cbn [fields_tag]; try lia. intros [_ [[-> | ->] _]]; lia. Qed.

Lemma roundtrip_body f : wf_fields f -> decode_body (fields_tag f) true (fields_body f) = PdOk f.
Proof.
  intros [_ H]. destruct f; cbn [fields_tag].
  - destruct H as [? [? ?]]. now apply roundtrip_pkesk.
  - destruct H as [? [? [? [? [? [? [? [? ?]]]]]]]]. now apply roundtrip_sig4.
  - destruct H as [? [? [? [? [? ?]]]]]. now apply roundtrip_sig3.
  - now apply roundtrip_skesk4.
  - destruct H as [? [? ?]]. now apply roundtrip_skesk5.
  - destruct H as [? [? [? [? ?]]]]. now apply roundtrip_key.
  - now apply roundtrip_comp.
  - now apply roundtrip_sed.
  - destruct H. now apply roundtrip_lit.
  - apply roundtrip_uid.
  - now apply roundtrip_seipd.
  - now apply roundtrip_mdc.
  - destruct H. now apply roundtrip_aead.
Qed.

(* PacketDecode (header + body, as implemented) recovers exactly the fields of every well-formed packet the model
   encoder writes, whatever follows the packet *)
Theorem packet_roundtrip : forall f rest, wf_fields f -> packet_decode (packet_of f ++ rest) = PdOk f.
Proof.
  intros f rest H. pose proof (fields_tag_small f H) as Ht. destruct H as [Hl H'].
  unfold packet_decode, packet_of.
  destruct (packet_extract (fields_tag f) (fields_body f) rest Ht Hl) as [E1 E2]. rewrite E1, E2.
  unfold packet. rewrite tag_encode_small by assumption. cbn [app].
  replace (64 <=? (fields_tag f + 192) mod 128) with true by lia.
  apply roundtrip_body. now split.
Qed.
