(* RbcBracha: the Bracha argument on the network model of RbcModel (C14): invariants of every schedule (fold_left gstep)
   giving agreement and integrity of the delivered values. *)
From Coq Require Import ZArith List Bool Lia.
From LT Require Import RbcModel RbcLemmas RbcOrder RbcStep RbcAgreement.
Import ListNotations.
Local Open Scope Z_scope.

Ltac split8 := refine (conj _ (conj _ (conj _ (conj _ (conj _ (conj _ (conj _ _))))))).

Section Local2.
Variables (n t : Z) (H : Z -> Z) (toolong : tagT -> Z -> bool) (skip : Z).
Notation deliver := (deliver n t skip H toolong).
Notation deliver_from := (deliver_from n t skip H toolong).
Notation pstep := (pstep n t H).
Notation valid := (valid H).

Lemma pstep_fbuf : forall st st' out r off x, pstep st st' out r off -> pstep st (set_fbuf st' x) out r off.
Proof. intros st st' out r off x P. exact P. Qed.

Lemma pstep_refl_fbuf : forall st x off, pstep st (set_fbuf st x) [] RNone off.
Proof.
  intros st x off. unfold RbcStep.pstep; proj. split8; auto; try (intros ? ? []); try discriminate.
Qed.

Lemma deliver_from_pstep : forall me st i off,
  let o := fst (deliver_from me st i off) in pstep st (o_st o) (o_sent o) (o_res o) off.
Proof.
  intros me st i off. unfold RbcModel.deliver_from.
  destruct ((i <? 0) || (i >=? n)).
  - cbn. pose proof (pstep_refl_fbuf st (fbuf st) off) as P. exact P.
  - destruct (take_chan (cur st) [] (fbuf st i)) as [[v rest]|].
    + cbn. apply pstep_refl_fbuf.
    + pose proof (deliver_pstep n t H toolong skip me st off) as P. cbv zeta in P.
      destruct (o_res (deliver me st off)) eqn:R; cbn; rewrite ?R; auto.
Qed.

(* a validated tag stays validated *)
Lemma valid_stable : forall st st' out r off tg, pstep st st' out r off -> valid st tg -> valid st' tg.
Proof.
  intros st st' out r off tg (Fm & _ & _ & Db & Mb & _) [[l R]|(d & D & M)].
  - left. exists l. apply Fm. exact R.
  - destruct (Db tg) as [E|[E _]]; [|congruence].
    destruct (Mb tg) as [E2|[E2|[(v & E2 & E3)|E2]]].
    + right. exists d. rewrite E, E2. auto.
    + right. exists d. rewrite E. split; auto. rewrite E2 in M. subst d. destruct (mbar st' tg); auto.
    + right. exists d. rewrite E. split; auto. rewrite E2. left. congruence.
    + left. exact E2.
Qed.
End Local2.

Lemma msg_eqb_eq : forall a b, msg_eqb a b = true -> a = b.
Proof. intros [a1 a2 a3 a4 a5] [b1 b2 b3 b4 b5]. unfold msg_eqb. cbn. intros E. b2p. subst. reflexivity. Qed.

Section Bracha.
Variables (n t skip : Z) (H : Z -> Z) (toolong : tagT -> Z -> bool) (byz : Z -> bool).
Notation gstep := (gstep n t skip H toolong byz).
Notation run := (grun n t skip H toolong byz).
Notation pstep := (pstep n t H).
Notation valid := (valid H).
Notation hon p := (honest n byz p = true).

(* the step of one party as the network invariants see it (also covers Broadcast and the channel switches) *)
Definition qstep (st st' : pst) (out : list (Z * msg)) (r : dres) (offer : option (Z * msg)) : Prop :=
  (forall k l tg, filt st k l tg = true -> filt st' k l tg = true) /\
  (forall tg d, ed st' tg d = ed st tg d \/
     exists l m, offer = Some (l, m) /\ tg = mtag m /\ d = m_pay m /\ m_act m = 2 /\ filt st FEcho l tg = false /\
                 ed st' tg d = ed st tg d + 1 /\ filt st' FEcho l tg = true) /\
  (forall tg d, rd st' tg d = rd st tg d \/
     exists l m, offer = Some (l, m) /\ tg = mtag m /\ d = m_pay m /\ m_act m = 3 /\ filt st FReady l tg = false /\
                 rd st' tg d = rd st tg d + 1 /\ filt st' FReady l tg = true) /\
  (forall tg, dbar st' tg = dbar st tg \/ (dbar st tg = None /\ exists d, dbar st' tg = Some d /\ rd st' tg d = 2 * t + 1)) /\
  (forall tg, mbar st' tg = mbar st tg \/ mbar st tg = None \/
              (exists v, mbar st' tg = Some v /\ dbar st' tg = Some (H v)) \/ retrieved st' tg) /\
  (forall dst x, In (dst, x) out ->
     (m_act x = 2 -> exists l m, offer = Some (l, m) /\ mtag x = mtag m /\ m_act m = 1 /\ m_j m = l /\
                                 filt st FSend l (mtag m) = false /\ filt st' FSend l (mtag m) = true /\ m_pay x = H (m_pay m)) /\
     (m_act x = 3 -> n - t <= ed st' (mtag x) (m_pay x) \/ t + 1 <= rd st' (mtag x) (m_pay x))) /\
  (forall who tg v, r = RDeliver who tg v -> mbar st' tg = Some v /\ (valid st' tg \/ In tg (dbuf st))) /\
  (forall tg, In tg (dbuf st') -> In tg (dbuf st) \/ valid st' tg).

Lemma pstep_qstep : forall st st' out r off, pstep st st' out r off -> qstep st st' out r off.
Proof.
  intros st st' out r off (A & B & C & D & E & F & G & I). unfold qstep. split8; auto.
  intros dst x J. destruct (F _ _ J) as (_ & X). exact X.
Qed.

Lemma qstep_valid_stable : forall st st' out r off tg, qstep st st' out r off -> valid st tg -> valid st' tg.
Proof.
  intros st st' out r off tg (Fm & _ & _ & Db & Mb & _) [[l R]|(d & D & M)].
  - left. exists l. apply Fm. exact R.
  - destruct (Db tg) as [E|[E _]]; [|congruence].
    destruct (Mb tg) as [E2|[E2|[(v & E2 & E3)|E2]]].
    + right. exists d. rewrite E, E2. auto.
    + right. exists d. rewrite E. split; auto. rewrite E2 in M. subst d. destruct (mbar st' tg); auto.
    + right. exists d. rewrite E. split; auto. rewrite E2. left. congruence.
    + left. exact E2.
Qed.

Definition proto_same (st st' : pst) : Prop :=
  filt st' = filt st /\ ed st' = ed st /\ rd st' = rd st /\ dbar st' = dbar st /\ mbar st' = mbar st /\ dbuf st' = dbuf st.

Lemma qstep_same : forall st st' out, proto_same st st' -> (forall dst x, In (dst, x) out -> m_act x = 1) ->
  qstep st st' out RNone None.
Proof.
  intros st st' out (E1 & E2 & E3 & E4 & E5 & E6) A. unfold qstep, RbcStep.valid, retrieved.
  rewrite E1, E2, E3, E4, E5, E6. split8; auto.
  - intros dst x I. apply A in I. split; intros; lia.
  - discriminate.
Qed.

Lemma can_recv_spec : forall g p l m, can_recv n byz g p l m = true ->
  0 <= l < n /\ (byz l = true \/ In (l, p, m) (gsent g)).
Proof.
  intros g p l m C. unfold can_recv, is_party in C. apply andb_true_iff in C. destruct C as [C1 C2].
  apply andb_true_iff in C1. destruct C1 as [C0 C1]. apply Z.leb_le in C0. apply Z.ltb_lt in C1. split; [lia|].
  apply orb_true_iff in C2. destruct C2 as [C2|C2]; auto. right.
  apply existsb_exists in C2. destruct C2 as ([[l' p'] m'] & I & E). unfold sent_eqb in E.
  apply andb_true_iff in E. destruct E as [E E3]. apply andb_true_iff in E. destruct E as [E1 E2].
  apply Z.eqb_eq in E1. apply Z.eqb_eq in E2. apply msg_eqb_eq in E3. subst. exact I.
Qed.

Definition tagged (p : Z) (out : list (Z * msg)) : list (Z * Z * msg) := map (fun dm => (p, fst dm, snd dm)) out.

Lemma gstep_cases : forall g e,
  gstep g e = g \/
  exists p st' out r offer,
    hon p /\ qstep (gp g p) st' out r offer /\
    (forall l m, offer = Some (l, m) -> can_recv n byz g p l m = true) /\
    gp (gstep g e) = updZ (gp g) p st' /\
    gsent (gstep g e) = gsent g ++ tagged p out /\
    glog (gstep g e) = glog g ++ log_of p r.
Proof.
  intros g e. destruct e; cbn [RbcModel.gstep].
  - destruct (honest n byz p) eqn:Hp; auto. right. unfold broadcast.
    set (s' := if fifo (gp g p) then sq (gp g p) + 1 else coin).
    exists p, (set_sq (gp g p) s'), (to_all n (Msg (cur (gp g p)) p s' 1 m)), RNone, None.
    split; [exact Hp|]. split; [|split; [discriminate|cbn; rewrite app_nil_r; auto]].
    apply qstep_same; [repeat split|]. intros dst x I. apply in_to_all in I. subst. reflexivity.
  - destruct (honest n byz p && can_recv n byz g p l m) eqn:G; auto. right. apply andb_true_iff in G. destruct G as [Hp C].
    eexists p, _, _, _, (Some (l, m)). split; [exact Hp|]. split; [apply pstep_qstep; apply (deliver_pstep n t H toolong skip)|].
    split; [intros l0 m0 E; inversion E; subst; exact C|]. cbn. auto.
  - destruct (honest n byz p) eqn:Hp; auto. right.
    eexists p, _, _, _, None. split; [exact Hp|]. split; [apply pstep_qstep; apply (deliver_pstep n t H toolong skip)|].
    split; [discriminate|]. cbn. auto.
  - destruct (honest n byz p && can_recv n byz g p l m) eqn:G; auto. right. apply andb_true_iff in G. destruct G as [Hp C].
    eexists p, _, _, _, (Some (l, m)). split; [exact Hp|].
    split; [apply pstep_qstep; apply (deliver_from_pstep n t H toolong skip p (gp g p) i (Some (l, m)))|].
    split; [intros l0 m0 E; inversion E; subst; exact C|]. unfold apply_from.
    destruct (snd (deliver_from n t skip H toolong p (gp g p) i (Some (l, m)))); cbn; auto.
  - destruct (honest n byz p) eqn:Hp; auto. right.
    eexists p, _, _, _, None. split; [exact Hp|].
    split; [apply pstep_qstep; apply (deliver_from_pstep n t H toolong skip p (gp g p) i None)|].
    split; [discriminate|]. unfold apply_from.
    destruct (snd (deliver_from n t skip H toolong p (gp g p) i None)); cbn; auto.
  - destruct (honest n byz p) eqn:Hp; auto. right.
    eexists p, _, [], RNone, None. split; [exact Hp|]. split; [|split; [discriminate|cbn; rewrite !app_nil_r; auto]].
    apply qstep_same; [unfold set_id; cbn; repeat split|intros ? ? []].
  - destruct (honest n byz p) eqn:Hp; auto. right.
    eexists p, _, [], RNone, None. split; [exact Hp|]. split; [|split; [discriminate|cbn; rewrite !app_nil_r; auto]].
    apply qstep_same; [unfold recover_id; destruct (recov (gp g p) id) as [[? ?]|]; cbn; repeat split|intros ? ? []].
  - destruct (honest n byz p) eqn:Hp; auto. right.
    eexists p, _, [], RNone, None. split; [exact Hp|]. split; [|split; [discriminate|cbn; rewrite !app_nil_r; auto]].
    apply qstep_same; [unfold unset_id; destruct (stack (gp g p)) as [|[[? ?] ?] ?]; cbn; repeat split|intros ? ? []].
Qed.

End Bracha.
