(* RbcBracha: the Bracha argument on the network model of RbcModel (C14): invariants of every schedule (fold_left gstep)
   giving agreement and integrity of the delivered values. *)
From Coq Require Import ZArith List Bool Lia.
From LT Require Import RbcModel RbcLemmas RbcOrder RbcStep RbcStep2 RbcStep3 RbcStep4 RbcAgreement.
Import ListNotations.
Local Open Scope Z_scope.

Ltac split8 := refine (conj _ (conj _ (conj _ (conj _ (conj _ (conj _ (conj _ _))))))).

Section Local2.
Variables (n t : Z) (H : Z -> Z) (toolong : tagT -> Z -> bool) (skip : Z).
Notation deliver := (deliver n t skip H toolong).
Notation deliver_from := (deliver_from n t skip H toolong).
Notation pstep := (pstep n t H).
Notation valid := (valid H).

Lemma pstep_fbuf : forall st st' out r off x, pstep st st' out r off -> pstep st (set_fbuf st' x) out r off.
Proof. intros st st' out r off x P. exact P. Qed.

Lemma pstep_refl_fbuf : forall st x off, pstep st (set_fbuf st x) [] RNone off.
Proof.
  intros st x off. unfold RbcStep.pstep; proj. split8; auto; try (intros ? ? []); try discriminate.
Qed.

Lemma deliver_from_pstep : forall me st i off,
  let o := fst (deliver_from me st i off) in pstep st (o_st o) (o_sent o) (o_res o) off.
Proof.
  intros me st i off. unfold RbcModel.deliver_from.
  destruct ((i <? 0) || (i >=? n)).
  - cbn. pose proof (pstep_refl_fbuf st (fbuf st) off) as P. exact P.
  - destruct (take_chan (cur st) [] (fbuf st i)) as [[v rest]|].
    + cbn. apply pstep_refl_fbuf.
    + pose proof (deliver_pstep n t H toolong skip me st off) as P. cbv zeta in P.
      destruct (o_res (deliver me st off)) eqn:R; cbn; rewrite ?R; auto.
Qed.

(* a validated tag stays validated *)
Lemma valid_stable : forall st st' out r off tg, pstep st st' out r off -> valid st tg -> valid st' tg.
Proof.
  intros st st' out r off tg (Fm & _ & _ & Db & Mb & _) [[l R]|(d & D & M)].
  - left. exists l. apply Fm. exact R.
  - destruct (Db tg) as [E|[E _]]; [|congruence].
    destruct (Mb tg) as [E2|[E2|[(v & E2 & E3)|E2]]].
    + right. exists d. rewrite E, E2. auto.
    + right. exists d. rewrite E. split; auto. rewrite E2 in M. subst d. destruct (mbar st' tg); auto.
    + right. exists d. rewrite E. split; auto. rewrite E2. left. congruence.
    + left. exact E2.
Qed.
End Local2.

Lemma msg_eqb_eq : forall a b, msg_eqb a b = true -> a = b.
Proof. intros [a1 a2 a3 a4 a5] [b1 b2 b3 b4 b5]. unfold msg_eqb. cbn. intros E. b2p. subst. reflexivity. Qed.

Section Bracha.
Variables (n t skip : Z) (H : Z -> Z) (toolong : tagT -> Z -> bool) (byz : Z -> bool).
Notation gstep := (gstep n t skip H toolong byz).
Notation run := (grun n t skip H toolong byz).
Notation pstep := (pstep n t H).
Notation valid := (valid H).
Notation hon p := (honest n byz p = true).

(* the step of one party as the network invariants see it (also covers Broadcast and the channel switches) *)
Definition qstep (st st' : pst) (out : list (Z * msg)) (r : dres) (offer : option (Z * msg)) : Prop :=
  (forall k l tg, filt st k l tg = true -> filt st' k l tg = true) /\
  (forall tg d, ed st' tg d = ed st tg d \/
     exists l m, offer = Some (l, m) /\ tg = mtag m /\ d = m_pay m /\ m_act m = 2 /\ filt st FEcho l tg = false /\
                 ed st' tg d = ed st tg d + 1 /\ filt st' FEcho l tg = true) /\
  (forall tg d, rd st' tg d = rd st tg d \/
     exists l m, offer = Some (l, m) /\ tg = mtag m /\ d = m_pay m /\ m_act m = 3 /\ filt st FReady l tg = false /\
                 rd st' tg d = rd st tg d + 1 /\ filt st' FReady l tg = true) /\
  (forall tg, dbar st' tg = dbar st tg \/ (dbar st tg = None /\ exists d, dbar st' tg = Some d /\ rd st' tg d = 2 * t + 1)) /\
  (forall tg, mbar st' tg = mbar st tg \/ mbar st tg = None \/
              (exists v, mbar st' tg = Some v /\ dbar st' tg = Some (H v)) \/ retrieved st' tg) /\
  (forall dst x, In (dst, x) out ->
     (m_act x = 2 -> exists l m, offer = Some (l, m) /\ mtag x = mtag m /\ m_act m = 1 /\ m_j m = l /\
                                 filt st FSend l (mtag m) = false /\ filt st' FSend l (mtag m) = true /\ m_pay x = H (m_pay m)) /\
     (m_act x = 3 -> n - t <= ed st' (mtag x) (m_pay x) \/ t + 1 <= rd st' (mtag x) (m_pay x))) /\
  (forall who tg v, r = RDeliver who tg v -> mbar st' tg = Some v /\ (valid st' tg \/ In tg (dbuf st))) /\
  (forall tg, In tg (dbuf st') -> In tg (dbuf st) \/ valid st' tg).

Lemma pstep_qstep : forall st st' out r off, pstep st st' out r off -> qstep st st' out r off.
Proof.
  intros st st' out r off (A & B & C & D & E & F & G & I). unfold qstep. split8; auto.
  intros dst x J. destruct (F _ _ J) as (_ & X). exact X.
Qed.

Lemma qstep_valid_stable : forall st st' out r off tg, qstep st st' out r off -> valid st tg -> valid st' tg.
Proof.
  intros st st' out r off tg (Fm & _ & _ & Db & Mb & _) [[l R]|(d & D & M)].
  - left. exists l. apply Fm. exact R.
  - destruct (Db tg) as [E|[E _]]; [|congruence].
    destruct (Mb tg) as [E2|[E2|[(v & E2 & E3)|E2]]].
    + right. exists d. rewrite E, E2. auto.
    + right. exists d. rewrite E. split; auto. rewrite E2 in M. subst d. destruct (mbar st' tg); auto.
    + right. exists d. rewrite E. split; auto. rewrite E2. left. congruence.
    + left. exact E2.
Qed.

Definition proto_same (st st' : pst) : Prop :=
  filt st' = filt st /\ ed st' = ed st /\ rd st' = rd st /\ dbar st' = dbar st /\ mbar st' = mbar st /\ dbuf st' = dbuf st.

Lemma qstep_same : forall st st' out, proto_same st st' -> (forall dst x, In (dst, x) out -> m_act x = 1) ->
  qstep st st' out RNone None.
Proof.
  intros st st' out (E1 & E2 & E3 & E4 & E5 & E6) A. unfold qstep, RbcStep.valid, retrieved.
  rewrite E1, E2, E3, E4, E5, E6. split8; auto.
  - intros dst x I. apply A in I. split; intros; lia.
  - discriminate.
Qed.

Lemma can_recv_spec : forall g p l m, can_recv n byz g p l m = true ->
  0 <= l < n /\ (byz l = true \/ In (l, p, m) (gsent g)).
Proof.
  intros g p l m C. unfold can_recv, is_party in C. apply andb_true_iff in C. destruct C as [C1 C2].
  apply andb_true_iff in C1. destruct C1 as [C0 C1]. apply Z.leb_le in C0. apply Z.ltb_lt in C1. split; [lia|].
  apply orb_true_iff in C2. destruct C2 as [C2|C2]; auto. right.
  apply existsb_exists in C2. destruct C2 as ([[l' p'] m'] & I & E). unfold sent_eqb in E.
  apply andb_true_iff in E. destruct E as [E E3]. apply andb_true_iff in E. destruct E as [E1 E2].
  apply Z.eqb_eq in E1. apply Z.eqb_eq in E2. apply msg_eqb_eq in E3. subst. exact I.
Qed.

Definition tagged (p : Z) (out : list (Z * msg)) : list (Z * Z * msg) := map (fun dm => (p, fst dm, snd dm)) out.

Lemma gstep_cases : forall g e,
  gstep g e = g \/
  exists p st' out r offer,
    hon p /\ qstep (gp g p) st' out r offer /\
    (forall l m, offer = Some (l, m) -> can_recv n byz g p l m = true) /\
    gp (gstep g e) = updZ (gp g) p st' /\
    gsent (gstep g e) = gsent g ++ tagged p out /\
    glog (gstep g e) = glog g ++ log_of p r.
Proof.
  intros g e. destruct e; cbn [RbcModel.gstep].
  - destruct (honest n byz p) eqn:Hp; auto. right. unfold broadcast.
    set (s' := if fifo (gp g p) then sq (gp g p) + 1 else coin).
    exists p, (set_sq (gp g p) s'), (to_all n (Msg (cur (gp g p)) p s' 1 m)), RNone, None.
    split; [exact Hp|]. split; [|split; [discriminate|cbn; rewrite app_nil_r; auto]].
    apply qstep_same; [repeat split|]. intros dst x I. apply in_to_all in I. subst. reflexivity.
  - destruct (honest n byz p && can_recv n byz g p l m) eqn:G; auto. right. apply andb_true_iff in G. destruct G as [Hp C].
    eexists p, _, _, _, (Some (l, m)). split; [exact Hp|]. split; [apply pstep_qstep; apply (deliver_pstep n t H toolong skip)|].
    split; [intros l0 m0 E; inversion E; subst; exact C|]. cbn. auto.
  - destruct (honest n byz p) eqn:Hp; auto. right.
    eexists p, _, _, _, None. split; [exact Hp|]. split; [apply pstep_qstep; apply (deliver_pstep n t H toolong skip)|].
    split; [discriminate|]. cbn. auto.
  - destruct (honest n byz p && can_recv n byz g p l m) eqn:G; auto. right. apply andb_true_iff in G. destruct G as [Hp C].
    eexists p, _, _, _, (Some (l, m)). split; [exact Hp|].
    split; [apply pstep_qstep; apply (deliver_from_pstep n t H toolong skip p (gp g p) i (Some (l, m)))|].
    split; [intros l0 m0 E; inversion E; subst; exact C|]. unfold apply_from.
    destruct (snd (deliver_from n t skip H toolong p (gp g p) i (Some (l, m)))); cbn; auto.
  - destruct (honest n byz p) eqn:Hp; auto. right.
    eexists p, _, _, _, None. split; [exact Hp|].
    split; [apply pstep_qstep; apply (deliver_from_pstep n t H toolong skip p (gp g p) i None)|].
    split; [discriminate|]. unfold apply_from.
    destruct (snd (deliver_from n t skip H toolong p (gp g p) i None)); cbn; auto.
  - destruct (honest n byz p) eqn:Hp; auto. right.
    eexists p, _, [], RNone, None. split; [exact Hp|]. split; [|split; [discriminate|cbn; rewrite !app_nil_r; auto]].
    apply qstep_same; [unfold set_id; cbn; repeat split|intros ? ? []].
  - destruct (honest n byz p) eqn:Hp; auto. right.
    eexists p, _, [], RNone, None. split; [exact Hp|]. split; [|split; [discriminate|cbn; rewrite !app_nil_r; auto]].
    apply qstep_same; [unfold recover_id; destruct (recov (gp g p) id) as [[? ?]|]; cbn; repeat split|intros ? ? []].
  - destruct (honest n byz p) eqn:Hp; auto. right.
    eexists p, _, [], RNone, None. split; [exact Hp|]. split; [|split; [discriminate|cbn; rewrite !app_nil_r; auto]].
    apply qstep_same; [unfold unset_id; destruct (stack (gp g p)) as [|[[? ?] ?] ?]; cbn; repeat split|intros ? ? []].
Qed.

(* ---- the invariants ---------------------------------------------------------------------------------- *)
Hypothesis n_gt_3t : 3 * t < n.
Hypothesis t_nonneg : 0 <= t.
Variable B : list Z.
Hypothesis B_small : Z.of_nat (length B) <= t.
Hypothesis B_byz : forall l, byz l = true -> In l B.

Definition has_msg (g : gst) (l p : Z) (tg : tagT) (a d : Z) : Prop :=
  byz l = true \/ exists m, In (l, p, m) (gsent g) /\ mtag m = tg /\ m_act m = a /\ m_pay m = d.

(* c distinct parties l, each with its first-time filter set at the party whose state is st, and each Byzantine or having
   really sent the counted message to p *)
Definition clist (g : gst) (st : pst) (p : Z) (k : fkind) (a : Z) (tg : tagT) (d c : Z) : Prop :=
  exists L, NoDup L /\ Z.of_nat (length L) = c /\
    forall l, In l L -> 0 <= l < n /\ filt st k l tg = true /\ has_msg g l p tg a d.

Definition count_ok (cnt : pst -> tagT -> Z -> Z) (k : fkind) (a : Z) (g : gst) : Prop :=
  forall p tg d, clist g (gp g p) p k a tg d (cnt (gp g p) tg d).

Definition lvalid (st : pst) (tg : tagT) (v : Z) : Prop :=
  retrieved st tg \/ exists d, dbar st tg = Some d /\ (H v = d \/ d = 0).

Definition I3a (g : gst) := forall q dst x, In (q, dst, x) (gsent g) -> m_act x = 2 -> filt (gp g q) FSend (m_j x) (mtag x) = true.
Definition I3 (g : gst) := forall q d1 x1 d2 x2, In (q, d1, x1) (gsent g) -> In (q, d2, x2) (gsent g) ->
  m_act x1 = 2 -> m_act x2 = 2 -> mtag x1 = mtag x2 -> m_pay x1 = m_pay x2.
Definition I4 (g : gst) := forall q dst x, In (q, dst, x) (gsent g) -> m_act x = 2 ->
  exists m, mtag m = mtag x /\ m_act m = 1 /\ m_pay x = H (m_pay m) /\ (byz (m_j x) = true \/ In (m_j x, q, m) (gsent g)).
Definition I5 (g : gst) := forall q dst x, In (q, dst, x) (gsent g) -> m_act x = 3 ->
  exists q', hon q' /\ n - t <= ed (gp g q') (mtag x) (m_pay x).
Definition I7 (g : gst) := forall q tg d, dbar (gp g q) tg = Some d -> 2 * t + 1 <= rd (gp g q) tg d.
Definition I8a (g : gst) := forall q tg, In tg (dbuf (gp g q)) -> valid (gp g q) tg.
Definition I8b (g : gst) := forall q tg v, In (q, tg, v) (glog g) -> lvalid (gp g q) tg v.

Definition INV (g : gst) : Prop :=
  count_ok ed FEcho 2 g /\ count_ok rd FReady 3 g /\ I3a g /\ I3 g /\ I4 g /\ I5 g /\ I7 g /\ I8a g /\ I8b g.

Lemma mtag_j : forall x y, mtag x = mtag y -> m_j x = m_j y.
Proof. intros x y E. unfold mtag in E. inversion E. reflexivity. Qed.

Lemma honest_of : forall l, 0 <= l < n -> ~ In l B -> hon l.
Proof.
  intros l R NB. unfold honest, is_party. destruct (byz l) eqn:Y; [exfalso; auto|].
  rewrite andb_true_r. apply andb_true_iff. split; [apply Z.leb_le|apply Z.ltb_lt]; lia.
Qed.

Section OneStep.
Variables (g g' : gst) (p : Z) (st' : pst) (out : list (Z * msg)) (r : dres) (offer : option (Z * msg)).
Hypothesis Hp : hon p.
Hypothesis Q : qstep (gp g p) st' out r offer.
Hypothesis CR : forall l m, offer = Some (l, m) -> can_recv n byz g p l m = true.
Hypothesis Egp : gp g' = updZ (gp g) p st'.
Hypothesis Esent : gsent g' = gsent g ++ tagged p out.
Hypothesis Elog : glog g' = glog g ++ log_of p r.

Lemma sent_mono : forall x, In x (gsent g) -> In x (gsent g').
Proof. intros x I. rewrite Esent. apply in_or_app. auto. Qed.

Lemma sent_new : forall q dst x, In (q, dst, x) (gsent g') -> In (q, dst, x) (gsent g) \/ (q = p /\ In (dst, x) out).
Proof.
  intros q dst x I. rewrite Esent in I. apply in_app_or in I. destruct I as [I|I]; auto.
  right. unfold tagged in I. apply in_map_iff in I. destruct I as ([d0 x0] & E & I). cbn in E. inversion E; subst. auto.
Qed.

Lemma state_cases : forall q, (q = p /\ gp g' q = st') \/ (q <> p /\ gp g' q = gp g q).
Proof.
  intros q. rewrite Egp. destruct (Z.eq_dec q p) as [->|N].
  - left. rewrite updZ_same. auto.
  - right. rewrite updZ_other; auto.
Qed.

Lemma has_msg_mono : forall l q tg a d, has_msg g l q tg a d -> has_msg g' l q tg a d.
Proof. intros l q tg a d [Y|(m & I & E)]; [left; auto|right; exists m; split; auto using sent_mono]. Qed.

Lemma clist_mono : forall st q k a tg d c, clist g st q k a tg d c -> clist g' st q k a tg d c.
Proof.
  intros st q k a tg d c (L & ND & Len & AL). exists L. split; [exact ND|]. split; [exact Len|].
  intros l I. destruct (AL l I) as (R & F & M). split; [exact R|]. split; [exact F|]. apply has_msg_mono. exact M.
Qed.

(* the counter after the step, justified by messages that were in the network BEFORE the step *)
Lemma count_old : forall (cnt : pst -> tagT -> Z -> Z) (k : fkind) (a : Z),
  count_ok cnt k a g ->
  (forall tg d, cnt st' tg d = cnt (gp g p) tg d \/
     exists l m, offer = Some (l, m) /\ tg = mtag m /\ d = m_pay m /\ m_act m = a /\ filt (gp g p) k l tg = false /\
                 cnt st' tg d = cnt (gp g p) tg d + 1 /\ filt st' k l tg = true) ->
  forall tg d, clist g st' p k a tg d (cnt st' tg d).
Proof.
  intros cnt k a CO C tg d. destruct Q as (Fm & _).
  destruct (CO p tg d) as (L & ND & Len & AL).
  destruct (C tg d) as [E|(l & m & Eo & Et & Ed & A & F0 & E & F1)].
  - exists L. rewrite E. split; [exact ND|]. split; [exact Len|].
    intros l I. destruct (AL l I) as (R & F & M). split; [exact R|]. split; [apply Fm; exact F|exact M].
  - exists (l :: L). split; [|split].
    + constructor; auto. intros I. destruct (AL l I) as (_ & F & _). congruence.
    + cbn [length]. lia.
    + intros l0 [<-|I].
      * destruct (can_recv_spec g p l m (CR l m Eo)) as (R & M). split; auto. split; auto.
        destruct M as [M|M]; [left; exact M|right]. exists m. auto.
      * destruct (AL l0 I) as (R & F & M). split; [exact R|]. split; [apply Fm; exact F|exact M].
Qed.

Lemma count_step : forall (cnt : pst -> tagT -> Z -> Z) (k : fkind) (a : Z),
  count_ok cnt k a g ->
  (forall tg d, cnt st' tg d = cnt (gp g p) tg d \/
     exists l m, offer = Some (l, m) /\ tg = mtag m /\ d = m_pay m /\ m_act m = a /\ filt (gp g p) k l tg = false /\
                 cnt st' tg d = cnt (gp g p) tg d + 1 /\ filt st' k l tg = true) ->
  count_ok cnt k a g'.
Proof.
  intros cnt k a CO C q tg d. destruct (state_cases q) as [[-> E]|[N E]]; rewrite E.
  - apply clist_mono. apply count_old; auto.
  - apply clist_mono. apply CO.
Qed.

Lemma ed_mono : forall q tg d, ed (gp g q) tg d <= ed (gp g' q) tg d.
Proof.
  intros q tg d. destruct (state_cases q) as [[-> E]|[N E]]; rewrite E; [|lia].
  destruct Q as (_ & C & _). destruct (C tg d) as [X|(? & ? & _ & _ & _ & _ & _ & X & _)]; lia.
Qed.
Lemma rd_mono : forall q tg d, rd (gp g q) tg d <= rd (gp g' q) tg d.
Proof.
  intros q tg d. destruct (state_cases q) as [[-> E]|[N E]]; rewrite E; [|lia].
  destruct Q as (_ & _ & C & _). destruct (C tg d) as [X|(? & ? & _ & _ & _ & _ & _ & X & _)]; lia.
Qed.

Lemma I3a_step : I3a g -> I3a g'.
Proof.
  intros IH q dst x I A. destruct Q as (Fm & _ & _ & _ & _ & S & _).
  apply sent_new in I. destruct I as [I|[-> I]].
  - destruct (state_cases q) as [[-> E]|[N E]]; rewrite E; [apply Fm|]; eapply IH; eauto.
  - destruct (state_cases p) as [[_ E]|[N _]]; [|congruence]. rewrite E.
    destruct (S _ _ I) as [S2 _]. destruct (S2 A) as (l & m & _ & T & _ & J & _ & F & _).
    rewrite T, (mtag_j _ _ T), J. exact F.
Qed.

Lemma I3_step : I3a g -> I3 g -> I3 g'.
Proof.
  intros IHa IH q d1 x1 d2 x2 I1 I2 A1 A2 T. destruct Q as (_ & _ & _ & _ & _ & S & _).
  apply sent_new in I1. apply sent_new in I2.
  destruct I1 as [I1|[-> I1]], I2 as [I2|[E2 I2]].
  - eapply IH; eauto.
  - subst q. exfalso. destruct (S _ _ I2) as [S2 _]. destruct (S2 A2) as (l & m & _ & T2 & _ & J & F & _).
    pose proof (IHa _ _ _ I1 A1) as X. rewrite T, T2, (mtag_j _ _ T), (mtag_j _ _ T2), J in X. congruence.
  - exfalso. destruct (S _ _ I1) as [S1 _]. destruct (S1 A1) as (l & m & _ & T1 & _ & J & F & _).
    pose proof (IHa _ _ _ I2 A2) as X. rewrite <- T, T1, <- (mtag_j _ _ T), (mtag_j _ _ T1), J in X. congruence.
  - destruct (S _ _ I1) as [S1 _]. destruct (S1 A1) as (l & m & Eo & _ & _ & _ & _ & _ & P1).
    destruct (S _ _ I2) as [S2 _]. destruct (S2 A2) as (l' & m' & Eo' & _ & _ & _ & _ & _ & P2).
    rewrite Eo in Eo'. inversion Eo'; subst. congruence.
Qed.

Lemma I4_step : I4 g -> I4 g'.
Proof.
  intros IH q dst x I A. destruct Q as (_ & _ & _ & _ & _ & S & _).
  apply sent_new in I. destruct I as [I|[-> I]].
  - destruct (IH _ _ _ I A) as (m & T & A1 & P & M). exists m. repeat split; auto.
    destruct M; [left|right]; auto using sent_mono.
  - destruct (S _ _ I) as [S2 _]. destruct (S2 A) as (l & m & Eo & T & A1 & J & _ & _ & P).
    exists m. repeat split; auto. rewrite (mtag_j _ _ T), J.
    destruct (can_recv_spec g p l m (CR l m Eo)) as (_ & [M|M]); [left|right]; auto using sent_mono.
Qed.

Lemma I5_step : count_ok rd FReady 3 g -> I5 g -> I5 g'.
Proof.
  intros C2 IH q dst x I A.
  assert (OLD : forall q0 d0 x0, In (q0, d0, x0) (gsent g) -> m_act x0 = 3 ->
                exists q', hon q' /\ n - t <= ed (gp g' q') (mtag x0) (m_pay x0)).
  { intros q0 d0 x0 I0 A0. destruct (IH _ _ _ I0 A0) as (q' & Hq & E). exists q'. split; auto.
    pose proof (ed_mono q' (mtag x0) (m_pay x0)). lia. }
  apply sent_new in I. destruct I as [I|[-> I]]; [eapply OLD; eauto|].
  destruct Q as (_ & _ & Cr & _ & _ & S & _).
  destruct (S _ _ I) as [_ S3]. destruct (S3 A) as [E|E].
  - exists p. split; auto. destruct (state_cases p) as [[_ X]|[N _]]; [|congruence]. rewrite X. exact E.
  - destruct (count_old rd FReady 3 C2 Cr (mtag x) (m_pay x)) as (L & ND & Len & AL).
    destruct (nodup_exceeds_honest B L ND) as (l0 & I0 & NB); [lia|].
    destruct (AL l0 I0) as (R & _ & [Y|(m' & Im & Tm & Am & Pm)]); [exfalso; auto|].
    destruct (OLD _ _ _ Im Am) as (q' & Hq & E'). exists q'. split; auto. rewrite <- Tm, <- Pm. exact E'.
Qed.

Lemma I7_step : I7 g -> I7 g'.
Proof.
  intros IH q tg d D. pose proof (rd_mono q tg d) as M.
  destruct (state_cases q) as [[-> E]|[N E]]; rewrite E in *; [|apply IH; exact D].
  destruct Q as (_ & _ & _ & Db & _). destruct (Db tg) as [X|(_ & d' & X & Y)].
  - rewrite X in D. apply IH in D. lia.
  - rewrite X in D. inversion D; subst. lia.
Qed.

Lemma I8a_step : I8a g -> I8a g'.
Proof.
  intros IH q tg I. destruct (state_cases q) as [[-> E]|[N E]]; rewrite E in *; [|apply IH; exact I].
  pose proof Q as Q0. destruct Q0 as (_ & _ & _ & _ & _ & _ & _ & Bf).
  destruct (Bf tg I) as [J|J]; auto. eapply qstep_valid_stable; eauto.
Qed.

Lemma lvalid_stable : forall tg v, lvalid (gp g p) tg v -> lvalid st' tg v.
Proof.
  intros tg v [[l R]|(d & D & X)]; destruct Q as (Fm & _ & _ & Db & _).
  - left. exists l. apply Fm. exact R.
  - right. exists d. split; auto. destruct (Db tg) as [E|[E _]]; congruence.
Qed.

Lemma I8b_step : I8a g -> I8b g -> I8b g'.
Proof.
  intros IHa IH q tg v I. rewrite Elog in I. apply in_app_or in I. destruct I as [I|I].
  - destruct (state_cases q) as [[-> E]|[N E]]; rewrite E; [apply lvalid_stable|]; apply IH; exact I.
  - destruct r as [|who tg0 v0|]; cbn in I; try contradiction. destruct I as [I|[]]. injection I as <- <- <-.
    destruct (state_cases p) as [[_ E]|[N _]]; [|congruence]. rewrite E.
    pose proof Q as Q0. destruct Q0 as (_ & _ & _ & _ & _ & _ & Dl & _).
    destruct (Dl who tg0 v0 eq_refl) as (M & V).
    assert (V' : valid st' tg0). { destruct V as [V|V]; auto. eapply qstep_valid_stable; eauto. }
    destruct V' as [R|(d & D & X)]; [left; exact R|right]. exists d. split; auto. rewrite M in X. exact X.
Qed.

Lemma INV_onestep : INV g -> INV g'.
Proof.
  intros (C1 & C2 & A3a & A3 & A4 & A5 & A7 & A8a & A8b).
  pose proof Q as Q0. destruct Q0 as (_ & Ce & Cr & _).
  unfold INV. repeat split.
  - apply count_step; auto.
  - apply count_step; auto.
  - apply I3a_step; auto.
  - apply I3_step; auto.
  - apply I4_step; auto.
  - apply I5_step; auto.
  - apply I7_step; auto.
  - apply I8a_step; auto.
  - apply I8b_step; auto.
Qed.
End OneStep.

Lemma INV_init : INV ginit.
Proof.
  unfold INV. repeat split.
  - intros p tg d. exists []. cbn. split; [constructor|]. split; [reflexivity|]. intros l [].
  - intros p tg d. exists []. cbn. split; [constructor|]. split; [reflexivity|]. intros l [].
  - intros q dst x [].
  - intros q d1 x1 d2 x2 [].
  - intros q dst x [].
  - intros q dst x [].
  - intros q tg d D. cbn in D. discriminate.
  - intros q tg [].
  - intros q tg v [].
Qed.

Lemma INV_step : forall g e, INV g -> INV (gstep g e).
Proof.
  intros g e I. destruct (gstep_cases g e) as [E|(p & st' & out & r & offer & Hp & Q & CR & E1 & E2 & E3)].
  - rewrite E. exact I.
  - eapply INV_onestep; eauto.
Qed.

Theorem INV_run : forall es, INV (run es).
Proof. intros es. apply (grun_ind n t skip H toolong byz); [exact INV_init|exact INV_step]. Qed.

(* ---- consequences --------------------------------------------------------------------------------------- *)
(* all r-ready messages in the network that honest parties sent for one tag carry the same digest *)
Lemma ready_digest_unique : forall g, INV g -> forall q1 d1 x1 q2 d2 x2,
  In (q1, d1, x1) (gsent g) -> In (q2, d2, x2) (gsent g) -> m_act x1 = 3 -> m_act x2 = 3 -> mtag x1 = mtag x2 ->
  m_pay x1 = m_pay x2.
Proof.
  intros g (C1 & _ & _ & A3 & _ & A5 & _) q1 d1 x1 q2 d2 x2 I1 I2 A1 A2 T.
  destruct (A5 _ _ _ I1 A1) as (p1 & _ & E1). destruct (A5 _ _ _ I2 A2) as (p2 & _ & E2).
  destruct (C1 p1 (mtag x1) (m_pay x1)) as (L1 & ND1 & Len1 & AL1).
  destruct (C1 p2 (mtag x2) (m_pay x2)) as (L2 & ND2 & Len2 & AL2).
  destruct (quorum_intersect_honest n t B L1 L2) as (l & J1 & J2 & NB); auto; try lia.
  { intros l J. apply AL1 in J. tauto. } { intros l J. apply AL2 in J. tauto. }
  destruct (AL1 l J1) as (_ & _ & [Y|(m1 & Im1 & Tm1 & Am1 & Pm1)]); [exfalso; auto|].
  destruct (AL2 l J2) as (_ & _ & [Y|(m2 & Im2 & Tm2 & Am2 & Pm2)]); [exfalso; auto|].
  rewrite <- Pm1, <- Pm2. eapply A3; eauto. congruence.
Qed.

(* an agreed digest is backed by an r-ready that an honest party really sent *)
Lemma dbar_has_ready : forall g, INV g -> forall p tg d, dbar (gp g p) tg = Some d ->
  exists l m, In (l, p, m) (gsent g) /\ mtag m = tg /\ m_act m = 3 /\ m_pay m = d.
Proof.
  intros g (_ & C2 & _ & _ & _ & _ & A7 & _) p tg d D. apply A7 in D.
  destruct (C2 p tg d) as (L & ND & Len & AL).
  destruct (nodup_exceeds_honest B L ND) as (l & J & NB); [lia|].
  destruct (AL l J) as (_ & _ & [Y|(m & Im & Tm & Am & Pm)]); [exfalso; auto|]. exists l, m. auto.
Qed.

Theorem dbar_agree : forall g, INV g -> forall p q tg d d',
  dbar (gp g p) tg = Some d -> dbar (gp g q) tg = Some d' -> d = d'.
Proof.
  intros g I p q tg d d' D1 D2.
  destruct (dbar_has_ready g I _ _ _ D1) as (l1 & m1 & I1 & T1 & A1 & P1).
  destruct (dbar_has_ready g I _ _ _ D2) as (l2 & m2 & I2 & T2 & A2 & P2).
  rewrite <- P1, <- P2. eapply ready_digest_unique; eauto. congruence.
Qed.

Theorem dbar_agree_run : forall es p q tg d d',
  dbar (gp (run es) p) tg = Some d -> dbar (gp (run es) q) tg = Some d' -> d = d'.
Proof. intros es. apply dbar_agree. apply INV_run. Qed.

(* an r-ready of an honest party goes back to an r-echo of a non-faulty party, which goes back to an r-send received on the
   link of the tag's sender *)
Lemma ready_has_send : forall g, INV g -> forall q dst x, In (q, dst, x) (gsent g) -> m_act x = 3 ->
  exists e m, mtag m = mtag x /\ m_act m = 1 /\ m_pay x = H (m_pay m) /\
              (byz (m_j x) = true \/ In (m_j x, e, m) (gsent g)).
Proof.
  intros g (C1 & _ & _ & _ & A4 & A5 & _) q dst x I A.
  destruct (A5 _ _ _ I A) as (p1 & _ & E1).
  destruct (C1 p1 (mtag x) (m_pay x)) as (L & ND & Len & AL).
  destruct (nodup_exceeds_honest B L ND) as (l & J & NB); [lia|].
  destruct (AL l J) as (_ & _ & [Y|(m1 & Im1 & Tm1 & Am1 & Pm1)]); [exfalso; auto|].
  destruct (A4 _ _ _ Im1 Am1) as (m & Tm & Am & Pm & M).
  exists l, m. rewrite <- (mtag_j _ _ Tm1). repeat split; try congruence; exact M.
Qed.

Hypothesis H_nonzero : forall m, H m <> 0.

Lemma dbar_nonzero : forall g, INV g -> forall p tg d, dbar (gp g p) tg = Some d -> d <> 0.
Proof.
  intros g I p tg d D. destruct (dbar_has_ready g I _ _ _ D) as (l & x & Ix & Tx & Ax & Px).
  destruct (ready_has_send g I _ _ _ Ix Ax) as (e & m & _ & _ & Pm & _). rewrite <- Px, Pm. apply H_nonzero.
Qed.

(* AGREEMENT: two honest deliveries of one slot (ID, sender, s) carry values with the same digest *)
Theorem agreement_digest : forall es p q tg v v',
  In (p, tg, v) (glog (run es)) -> In (q, tg, v') (glog (run es)) ->
  ~ retrieved (gp (run es) p) tg -> ~ retrieved (gp (run es) q) tg -> H v = H v'.
Proof.
  intros es p q tg v v' I1 I2 N1 N2. pose proof (INV_run es) as I.
  pose proof I as (_ & _ & _ & _ & _ & _ & _ & _ & A8b).
  destruct (A8b _ _ _ I1) as [R|(d1 & D1 & X1)]; [contradiction|].
  destruct (A8b _ _ _ I2) as [R|(d2 & D2 & X2)]; [contradiction|].
  pose proof (dbar_nonzero _ I _ _ _ D1). pose proof (dbar_nonzero _ I _ _ _ D2).
  pose proof (dbar_agree _ I _ _ _ _ _ D1 D2).
  destruct X1; [|contradiction]. destruct X2; [|contradiction]. congruence.
Qed.

(* INTEGRITY: a delivered slot of a non-faulty sender j was sent by j as r-send, with a value of the same digest *)
Theorem integrity_digest : forall es p id j s v,
  In (p, (id, j, s), v) (glog (run es)) -> ~ retrieved (gp (run es) p) (id, j, s) -> byz j = false ->
  exists e m, In (j, e, m) (gsent (run es)) /\ mtag m = (id, j, s) /\ m_act m = 1 /\ H (m_pay m) = H v.
Proof.
  intros es p id j s v I1 N1 Hj. pose proof (INV_run es) as I.
  pose proof I as (_ & _ & _ & _ & _ & _ & _ & _ & A8b).
  destruct (A8b _ _ _ I1) as [R|(d1 & D1 & X1)]; [contradiction|].
  pose proof (dbar_nonzero _ I _ _ _ D1). destruct X1 as [X1|]; [|contradiction].
  destruct (dbar_has_ready _ I _ _ _ D1) as (l & x & Ix & Tx & Ax & Px).
  destruct (ready_has_send _ I _ _ _ Ix Ax) as (e & m & Tm & Am & Pm & M).
  assert (J : m_j x = j). { unfold mtag in Tx. inversion Tx. reflexivity. }
  rewrite J in M. destruct M as [M|M]; [congruence|].
  exists e, m. repeat split; auto; congruence.
Qed.

(* r-send messages enter the network only through Broadcast calls of their sender *)
Lemma gstep_rsend : forall g e q dst m, In (q, dst, m) (gsent (gstep g e)) -> m_act m = 1 ->
  In (q, dst, m) (gsent g) \/
  exists v coin, e = EBcast q v coin /\ hon q /\ In (dst, m) (snd (broadcast n q (gp g q) v coin)).
Proof.
  assert (NEW : forall g p out q dst m, In (q, dst, m) (gsent g ++ map (fun dm : Z * msg => (p, fst dm, snd dm)) out) ->
                In (q, dst, m) (gsent g) \/ (q = p /\ In (dst, m) out)).
  { intros g p out q dst m I. apply in_app_or in I. destruct I as [I|I]; auto. right.
    apply in_map_iff in I. destruct I as ([d0 x0] & E & I). cbn in E. inversion E; subst. auto. }
  assert (PS : forall st st' out r off dst m, pstep st st' out r off -> In (dst, m) out -> m_act m = 1 -> False).
  { intros st st' out r off dst m (_ & _ & _ & _ & _ & S & _) I A. destruct (S _ _ I) as [N _]. auto. }
  intros g e q dst m I A. destruct e; cbn [RbcModel.gstep] in I.
  - destruct (honest n byz p) eqn:Hp; auto. unfold broadcast in *. cbn [gsent] in I. apply NEW in I.
    destruct I as [I|[-> I]]; auto. right. exists m0, coin. auto.
  - destruct (honest n byz p && can_recv n byz g p l m0); auto. unfold apply_out in I. cbn [gsent] in I. apply NEW in I.
    destruct I as [I|[-> I]]; auto. exfalso. eapply PS; eauto. apply (deliver_pstep n t H toolong skip).
  - destruct (honest n byz p); auto. unfold apply_out in I. cbn [gsent] in I. apply NEW in I.
    destruct I as [I|[-> I]]; auto. exfalso. eapply PS; eauto. apply (deliver_pstep n t H toolong skip).
  - destruct (honest n byz p && can_recv n byz g p l m0); auto. unfold apply_from, apply_out in I.
    destruct (snd (deliver_from n t skip H toolong p (gp g p) i (Some (l, m0)))); cbn [gsent] in I; apply NEW in I;
    (destruct I as [I|[-> I]]; auto; exfalso; eapply PS; eauto; apply (deliver_from_pstep n t H toolong skip)).
  - destruct (honest n byz p); auto. unfold apply_from, apply_out in I.
    destruct (snd (deliver_from n t skip H toolong p (gp g p) i None)); cbn [gsent] in I; apply NEW in I;
    (destruct I as [I|[-> I]]; auto; exfalso; eapply PS; eauto; apply (deliver_from_pstep n t H toolong skip)).
  - destruct (honest n byz p); auto.
  - destruct (honest n byz p); auto.
  - destruct (honest n byz p); auto.
Qed.

Theorem rsend_only_by_broadcast : forall es j dst m, In (j, dst, m) (gsent (run es)) -> m_act m = 1 ->
  exists es1 v coin es2, es = es1 ++ EBcast j v coin :: es2 /\ hon j /\
                         In (dst, m) (snd (broadcast n j (gp (run es1) j) v coin)).
Proof.
  induction es as [|e es IH] using rev_ind; intros j dst m I A.
  - cbn in I. contradiction.
  - unfold grun in I. rewrite fold_left_app in I. cbn [fold_left] in I.
    apply gstep_rsend in I; auto. destruct I as [I|(v & coin & -> & Hj & I)].
    + destruct (IH _ _ _ I A) as (es1 & v & coin & es2 & -> & Hj & J).
      exists es1, v, coin, (es2 ++ [e]). rewrite <- app_assoc. auto.
    + exists es, v, coin, []. auto.
Qed.

(* ==== second layer: slots fetched through the out-of-order handler (l-retrieve / l-deliver) ============== *)
Notation pstep2 := (pstep2 n t H).
Notation laccept := (laccept n t).
Notation svalid := (svalid n t H).

Lemma gstep_cases2 : forall g e,
  gstep g e = g \/
  exists p st' out r offer,
    hon p /\ qstep (gp g p) st' out r offer /\ pstep2 (gp g p) st' out r offer /\
    (forall l m, offer = Some (l, m) -> can_recv n byz g p l m = true) /\
    gp (gstep g e) = updZ (gp g) p st' /\
    gsent (gstep g e) = gsent g ++ tagged p out /\
    glog (gstep g e) = glog g ++ log_of p r.
Proof.
  intros g e. destruct e; cbn [RbcModel.gstep].
  - destruct (honest n byz p) eqn:Hp; auto. right. unfold broadcast.
    set (s' := if fifo (gp g p) then sq (gp g p) + 1 else coin).
    exists p, (set_sq (gp g p) s'), (to_all n (Msg (cur (gp g p)) p s' 1 m)), RNone, None.
    split; [exact Hp|]. split; [|split; [|split; [discriminate|cbn; rewrite app_nil_r; auto]]].
    + apply qstep_same; [repeat split|]. intros dst x I. apply in_to_all in I. subst. reflexivity.
    + apply pstep2_same; auto. intros dst x I. apply in_to_all in I. subst. cbn. lia.
  - destruct (honest n byz p && can_recv n byz g p l m) eqn:G; auto. right. apply andb_true_iff in G. destruct G as [Hp C].
    eexists p, _, _, _, (Some (l, m)). split; [exact Hp|]. split; [apply pstep_qstep; apply (deliver_pstep n t H toolong skip)|].
    split; [apply (deliver_pstep2 n t H toolong skip)|].
    split; [intros l0 m0 E; inversion E; subst; exact C|]. cbn. auto.
  - destruct (honest n byz p) eqn:Hp; auto. right.
    eexists p, _, _, _, None. split; [exact Hp|]. split; [apply pstep_qstep; apply (deliver_pstep n t H toolong skip)|].
    split; [apply (deliver_pstep2 n t H toolong skip)|].
    split; [discriminate|]. cbn. auto.
  - destruct (honest n byz p && can_recv n byz g p l m) eqn:G; auto. right. apply andb_true_iff in G. destruct G as [Hp C].
    eexists p, _, _, _, (Some (l, m)). split; [exact Hp|].
    split; [apply pstep_qstep; apply (deliver_from_pstep n t H toolong skip p (gp g p) i (Some (l, m)))|].
    split; [apply (deliver_from_pstep2 n t H toolong skip p (gp g p) i (Some (l, m)))|].
    split; [intros l0 m0 E; inversion E; subst; exact C|]. unfold apply_from.
    destruct (snd (deliver_from n t skip H toolong p (gp g p) i (Some (l, m)))); cbn; auto.
  - destruct (honest n byz p) eqn:Hp; auto. right.
    eexists p, _, _, _, None. split; [exact Hp|].
    split; [apply pstep_qstep; apply (deliver_from_pstep n t H toolong skip p (gp g p) i None)|].
    split; [apply (deliver_from_pstep2 n t H toolong skip p (gp g p) i None)|].
    split; [discriminate|]. unfold apply_from.
    destruct (snd (deliver_from n t skip H toolong p (gp g p) i None)); cbn; auto.
  - destruct (honest n byz p) eqn:Hp; auto. right.
    exists p, (set_id (gp g p) id f), [], RNone, None. split; [exact Hp|].
    split; [|split; [|split; [discriminate|cbn; rewrite !app_nil_r; auto]]].
    + apply qstep_same; [unfold set_id; cbn; repeat split|intros ? ? []].
    + apply pstep2_same; auto; intros ? ? [].
  - destruct (honest n byz p) eqn:Hp; auto. right.
    exists p, (recover_id (gp g p) id f), [], RNone, None. split; [exact Hp|].
    split; [|split; [|split; [discriminate|cbn; rewrite !app_nil_r; auto]]].
    + apply qstep_same; [unfold recover_id; destruct (recov (gp g p) id) as [[? ?]|]; cbn; repeat split|intros ? ? []].
    + apply pstep2_same; try (unfold recover_id; destruct (recov (gp g p) id) as [[? ?]|]; reflexivity); intros ? ? [].
  - destruct (honest n byz p) eqn:Hp; auto. right.
    exists p, (unset_id (gp g p) f), [], RNone, None. split; [exact Hp|].
    split; [|split; [|split; [discriminate|cbn; rewrite !app_nil_r; auto]]].
    + apply qstep_same; [unfold unset_id; destruct (stack (gp g p)) as [|[[? ?] ?] ?]; cbn; repeat split|intros ? ? []].
    + apply pstep2_same; try (unfold unset_id; destruct (stack (gp g p)) as [|[[? ?] ?] ?]; reflexivity); intros ? ? [].
Qed.

Definition echoed (g : gst) (q : Z) (tg : tagT) (d : Z) : Prop :=
  exists dst m, In (q, dst, m) (gsent g) /\ mtag m = tg /\ m_act m = 2 /\ m_pay m = d.
(* d is supported for tg: n - t distinct parties are Byzantine or have really echoed d *)
Definition Sup (g : gst) (tg : tagT) (d : Z) : Prop :=
  exists L, NoDup L /\ n - t <= Z.of_nat (length L) /\
    forall l, In l L -> 0 <= l < n /\ (byz l = true \/ echoed g l tg d).

Definition TH (g : gst) := forall q tg x, mbar (gp g q) tg = Some x -> echoed g q tg (H x) \/ Sup g tg (H x).
Definition OM (g : gst) := forall q dst m, In (q, dst, m) (gsent g) -> m_act m = 7 ->
  echoed g q (mtag m) (H (m_pay m)) \/ Sup g (mtag m) (H (m_pay m)).
Definition RH (g : gst) := forall p k tg, filt (gp g p) FDeliver k tg = true ->
  0 <= k < n /\ (byz k = true \/ exists m, In (k, p, m) (gsent g) /\ mtag m = tg /\ m_act m = 7 /\ m_pay m = rbuf (gp g p) tg k).
Definition J8a (g : gst) := forall q tg, In tg (dbuf (gp g q)) -> exists x, mbar (gp g q) tg = Some x /\ Sup g tg (H x).
Definition J8b (g : gst) := forall q tg v, In (q, tg, v) (glog g) -> Sup g tg (H v).
Definition INV2 (g : gst) : Prop := TH g /\ OM g /\ RH g /\ J8a g /\ J8b g.

Lemma Sup_unique : forall g, INV g -> forall tg d d', Sup g tg d -> Sup g tg d' -> d = d'.
Proof.
  intros g (_ & _ & _ & A3 & _) tg d d' (L1 & ND1 & Len1 & AL1) (L2 & ND2 & Len2 & AL2).
  destruct (quorum_intersect_honest n t B L1 L2) as (l & J1 & J2 & NB); auto.
  { intros l J. apply AL1 in J. tauto. } { intros l J. apply AL2 in J. tauto. }
  destruct (AL1 l J1) as (_ & [Y|(dst1 & m1 & Im1 & Tm1 & Am1 & Pm1)]); [exfalso; auto|].
  destruct (AL2 l J2) as (_ & [Y|(dst2 & m2 & Im2 & Tm2 & Am2 & Pm2)]); [exfalso; auto|].
  rewrite <- Pm1, <- Pm2. eapply A3; eauto. congruence.
Qed.

Lemma ready_Sup : forall g, INV g -> forall q dst x, In (q, dst, x) (gsent g) -> m_act x = 3 -> Sup g (mtag x) (m_pay x).
Proof.
  intros g (C1 & _ & _ & _ & _ & A5 & _) q dst x I A.
  destruct (A5 _ _ _ I A) as (p1 & _ & E1).
  destruct (C1 p1 (mtag x) (m_pay x)) as (L & ND & Len & AL).
  exists L. split; [exact ND|]. split; [lia|]. intros l J. destruct (AL l J) as (R & _ & [Y|(m & Im & Tm & Am & Pm)]).
  - split; auto.
  - split; auto. right. exists p1, m. auto.
Qed.

Lemma dbar_Sup : forall g, INV g -> forall p tg d, dbar (gp g p) tg = Some d -> Sup g tg d.
Proof.
  intros g I p tg d D. destruct (dbar_has_ready g I _ _ _ D) as (l & m & Im & Tm & Am & Pm).
  rewrite <- Tm, <- Pm. eapply ready_Sup; eauto.
Qed.

Lemma all_or : forall (P : Z -> Prop) (S : Prop) (L : list Z),
  (forall k, In k L -> P k \/ S) -> S \/ forall k, In k L -> P k.
Proof.
  intros P S. induction L as [|a r IH]; intros A.
  - right. intros k [].
  - destruct (A a (or_introl eq_refl)) as [Pa|Sa]; [|left; exact Sa].
    destruct IH as [Sr|Pr]; [intros k I; apply A; right; exact I|left; exact Sr|].
    right. intros k [<-|I]; auto.
Qed.

Lemma laccept_Sup : forall g, RH g -> OM g -> forall p tg x, laccept (gp g p) tg x -> Sup g tg (H x).
Proof.
  intros g Rh Om p tg x (L & ND & Len & AL).
  destruct (all_or (fun k => 0 <= k < n /\ (byz k = true \/ echoed g k tg (H x))) (Sup g tg (H x)) L) as [S|A]; auto.
  - intros k I. destruct (AL k I) as (F & R). destruct (Rh _ _ _ F) as (Rg & [Y|(m & Im & Tm & Am & Pm)]).
    + left. auto.
    + rewrite R in Pm. destruct (Om _ _ _ Im Am) as [E|S].
      * left. split; auto. right. rewrite Tm, Pm in E. exact E.
      * right. rewrite Tm, Pm in S. exact S.
  - exists L. auto.
Qed.

Lemma svalid_Sup : forall g, INV g -> RH g -> OM g -> forall p tg, svalid (gp g p) tg ->
  exists x, mbar (gp g p) tg = Some x /\ Sup g tg (H x).
Proof.
  intros g I Rh Om p tg [(d & D & M)|(x & M & LA)].
  - pose proof (dbar_nonzero g I _ _ _ D) as NZ. destruct (mbar (gp g p) tg) as [v|]; [|contradiction].
    destruct M as [M|M]; [|contradiction]. exists v. split; auto. rewrite M. eapply dbar_Sup; eauto.
  - exists x. split; auto. eapply laccept_Sup; eauto.
Qed.

Lemma log_of_in : forall p0 r0 q tg v, In (q, tg, v) (log_of p0 r0) -> q = p0 /\ exists who, r0 = RDeliver who tg v.
Proof.
  intros p0 r0 q tg v I. destruct r0 as [|who tg0 v0|]; cbn in I; try contradiction.
  destruct I as [I|[]]. injection I as <- <- <-. eauto.
Qed.

Section OneStep2.
Variables (g g' : gst) (p : Z) (st' : pst) (out : list (Z * msg)) (r : dres) (offer : option (Z * msg)).
Hypothesis Hp : hon p.
Hypothesis Q : qstep (gp g p) st' out r offer.
Hypothesis Q2 : pstep2 (gp g p) st' out r offer.
Hypothesis CR : forall l m, offer = Some (l, m) -> can_recv n byz g p l m = true.
Hypothesis Egp : gp g' = updZ (gp g) p st'.
Hypothesis Esent : gsent g' = gsent g ++ tagged p out.
Hypothesis Elog : glog g' = glog g ++ log_of p r.
Hypothesis Ig : INV g.
Hypothesis Ig' : INV g'.

Let smono := sent_mono g g' p out Esent.
Let scases := state_cases g g' p st' Egp.

Lemma snew : forall q dst x, In (q, dst, x) (gsent g') -> In (q, dst, x) (gsent g) \/ (q = p /\ In (dst, x) out).
Proof.
  intros q dst x I. rewrite Esent in I. apply in_app_or in I. destruct I as [I|I]; auto.
  right. unfold tagged in I. apply in_map_iff in I. destruct I as ([d0 x0] & E & I). cbn in E.
  injection E as <- <- <-. auto.
Qed.

Lemma echoed_mono : forall q tg d, echoed g q tg d -> echoed g' q tg d.
Proof. intros q tg d (dst & m & I & E). exists dst, m. split; auto. Qed.
Lemma Sup_mono : forall tg d, Sup g tg d -> Sup g' tg d.
Proof.
  intros tg d (L & ND & Len & AL). exists L. split; [exact ND|]. split; [exact Len|].
  intros l I. destruct (AL l I) as (R & [Y|E]); split; auto. right. apply echoed_mono. exact E.
Qed.

Lemma RH_step : RH g -> RH g'.
Proof.
  intros IH q k tg F. destruct (scases q) as [[-> E]|[N E]]; rewrite E in *.
  - destruct Q2 as (_ & _ & FD & _). destruct (FD k tg F) as [[F0 R0]|(m & Eo & Tm & Am & R0)].
    + destruct (IH _ _ _ F0) as (R & [Y|(m & Im & Tm & Am & Pm)]); split; auto.
      right. exists m. repeat split; auto. congruence.
    + destruct (can_recv_spec g p k m (CR k m Eo)) as (R & [Y|Im]); split; auto.
      right. exists m. repeat split; auto.
  - destruct (IH _ _ _ F) as (R & [Y|(m & Im & Tm & Am & Pm)]); split; auto.
    right. exists m. repeat split; auto.
Qed.

Lemma OM_step : TH g -> OM g -> OM g'.
Proof.
  intros Th IH q dst m I A. apply snew in I. destruct I as [I|[-> I]].
  - destruct (IH _ _ _ I A); [left; apply echoed_mono|right; apply Sup_mono]; auto.
  - destruct Q2 as (_ & S7 & _). pose proof (S7 _ _ I A) as M.
    destruct (Th _ _ _ M); [left; apply echoed_mono|right; apply Sup_mono]; auto.
Qed.

(* what the new payload of a tag is backed by *)
Lemma new_mbar_backed : RH g' -> OM g' -> forall tg x, mbar st' tg = Some x -> mbar (gp g p) tg <> Some x ->
  (mbar (gp g p) tg = None /\ echoed g' p tg (H x)) \/ Sup g' tg (H x).
Proof.
  intros Rh Om tg x M NE. destruct Q2 as (Mc & _). destruct (Mc tg) as [E|(x' & E & C)]; [congruence|].
  rewrite M in E. inversion E; subst x'. destruct C as [(N & id & j & s & -> & A)|[D|LA]].
  - left. split; auto. exists p, (Msg id j s 2 (H x)). split; [|repeat split].
    rewrite Esent. apply in_or_app. right. unfold tagged. apply in_map_iff. exists (p, Msg id j s 2 (H x)). split; auto.
    apply A. apply range_in. unfold honest, is_party in Hp. b2p. lia.
  - right. apply (dbar_Sup g' Ig' p). destruct (scases p) as [[_ X]|[X _]]; [|congruence]. rewrite X. exact D.
  - right. apply (laccept_Sup g' Rh Om p). destruct (scases p) as [[_ X]|[X _]]; [|congruence]. rewrite X. exact LA.
Qed.

Lemma TH_step : RH g' -> OM g' -> TH g -> TH g'.
Proof.
  intros Rh Om IH q tg x M. destruct (scases q) as [[-> E]|[N E]]; rewrite E in *.
  - assert (DE : mbar (gp g p) tg = Some x \/ mbar (gp g p) tg <> Some x).
    { destruct (mbar (gp g p) tg) as [y|]; [destruct (Z.eq_dec y x); [left; congruence|right; congruence]|right; discriminate]. }
    destruct DE as [Y|Y].
    + destruct (IH _ _ _ Y); [left; apply echoed_mono|right; apply Sup_mono]; auto.
    + destruct (new_mbar_backed Rh Om tg x M Y) as [[_ X]|X]; auto.
  - destruct (IH _ _ _ M); [left; apply echoed_mono|right; apply Sup_mono]; auto.
Qed.

Lemma dbuf_carry : RH g' -> OM g' -> J8a g -> forall tg, In tg (dbuf (gp g p)) ->
  exists x, mbar st' tg = Some x /\ Sup g' tg (H x).
Proof.
  intros Rh Om IH tg I. destruct (IH _ _ I) as (x & M & S).
  destruct Q2 as (Mc & _). destruct (Mc tg) as [E|(x' & E & C)].
  - exists x. split; [congruence|apply Sup_mono; exact S].
  - exists x'. split; auto. destruct (Z.eq_dec x' x) as [->|NE]; [apply Sup_mono; exact S|].
    assert (NN : mbar (gp g p) tg <> Some x') by congruence.
    destruct (new_mbar_backed Rh Om tg x' E NN) as [[N _]|X]; [congruence|exact X].
Qed.

Lemma J8a_step : RH g' -> OM g' -> J8a g -> J8a g'.
Proof.
  intros Rh Om IH q tg I. destruct (scases q) as [[-> E]|[N E]]; rewrite E in *.
  - pose proof Q2 as Q2'. destruct Q2' as (_ & _ & _ & _ & Bf). destruct (Bf tg I) as [J|J].
    + apply dbuf_carry; auto.
    + destruct (svalid_Sup g' Ig' Rh Om p tg) as (x & M & S).
      { destruct (scases p) as [[_ X]|[X _]]; [|congruence]. rewrite X. exact J. }
      exists x. split; auto. destruct (scases p) as [[_ X]|[X _]]; [|congruence]. rewrite X in M. exact M.
  - destruct (IH _ _ I) as (x & M & S). exists x. split; auto. apply Sup_mono. exact S.
Qed.

Lemma J8b_step : RH g' -> OM g' -> J8a g -> J8b g -> J8b g'.
Proof.
  intros Rh Om IHa IH q tg v I. rewrite Elog in I. apply in_app_or in I. destruct I as [I|I].
  - apply Sup_mono. eapply IH; eauto.
  - apply log_of_in in I. destruct I as (-> & who & Er).
    pose proof Q2 as Q2'. destruct Q2' as (_ & _ & _ & Dl & _). destruct (Dl who tg v Er) as (M & [V|V]).
    + destruct (svalid_Sup g' Ig' Rh Om p tg) as (x & M' & S).
      { destruct (scases p) as [[_ X]|[X _]]; [|congruence]. rewrite X. exact V. }
      destruct (scases p) as [[_ X]|[X _]]; [|congruence]. rewrite X in M'. congruence.
    + destruct (dbuf_carry Rh Om IHa tg V) as (x & M' & S). congruence.
Qed.

Lemma INV2_onestep : INV2 g -> INV2 g'.
Proof.
  intros (Th & Om & Rh & A8a & A8b).
  assert (Rh' : RH g') by (apply RH_step; auto).
  assert (Om' : OM g') by (apply OM_step; auto).
  unfold INV2. split; [apply TH_step; auto|]. split; [exact Om'|]. split; [exact Rh'|].
  split; [apply J8a_step; auto|apply J8b_step; auto].
Qed.
End OneStep2.

Lemma INV2_init : INV2 ginit.
Proof.
  unfold INV2. split; [|split; [|split; [|split]]].
  - intros q tg x M. cbn in M. discriminate.
  - intros q dst m [].
  - intros q k tg F. cbn in F. discriminate.
  - intros q tg [].
  - intros q tg v [].
Qed.

Lemma INV2_step : forall g e, INV g -> INV2 g -> INV2 (gstep g e).
Proof.
  intros g e I I2. destruct (gstep_cases2 g e) as [E|(p & st' & out & r & offer & Hp & Q & Q2 & CR & E1 & E2 & E3)].
  - rewrite E. exact I2.
  - eapply INV2_onestep; eauto. apply INV_step. exact I.
Qed.

Theorem INV2_run : forall es, INV (run es) /\ INV2 (run es).
Proof.
  intros es. apply (grun_ind n t skip H toolong byz (fun g => INV g /\ INV2 g)).
  - split; [exact INV_init|exact INV2_init].
  - intros g e [I I2]. split; [apply INV_step; exact I|apply INV2_step; auto].
Qed.

(* AGREEMENT, every slot: two honest deliveries of one slot carry values with the same digest *)
Theorem agreement_digest_full : forall es p q tg v v',
  In (p, tg, v) (glog (run es)) -> In (q, tg, v') (glog (run es)) -> H v = H v'.
Proof.
  intros es p q tg v v' I1 I2. destruct (INV2_run es) as (I & _ & _ & _ & _ & A8b).
  eapply Sup_unique; eauto.
Qed.

(* INTEGRITY, every slot *)
Theorem integrity_digest_full : forall es p id j s v,
  In (p, (id, j, s), v) (glog (run es)) -> byz j = false ->
  exists e m, In (j, e, m) (gsent (run es)) /\ mtag m = (id, j, s) /\ m_act m = 1 /\ H (m_pay m) = H v.
Proof.
  intros es p id j s v I1 Hj. destruct (INV2_run es) as (I & _ & _ & _ & _ & A8b).
  destruct (A8b _ _ _ I1) as (L & ND & Len & AL).
  destruct (nodup_exceeds_honest B L ND) as (l & J & NB); [lia|].
  destruct (AL l J) as (_ & [Y|(dst & x & Ix & Tx & Ax & Px)]); [exfalso; auto|].
  destruct I as (_ & _ & _ & _ & A4 & _).
  destruct (A4 _ _ _ Ix Ax) as (m & Tm & Am & Pm & M).
  assert (Jx : m_j x = j). { unfold mtag in Tx. inversion Tx. reflexivity. }
  rewrite Jx in M. destruct M as [M|M]; [congruence|].
  exists l, m. repeat split; auto; congruence.
Qed.

(* ==== third layer: totality of the agreed digest ========================================================== *)
Notation pstep3 := (pstep3 n t toolong).
Notation rcond := (rcond n t).

Lemma gstep_cases3 : forall g e,
  gstep g e = g \/
  exists p st' out r offer,
    hon p /\ qstep (gp g p) st' out r offer /\ pstep3 (gp g p) st' out offer /\
    (forall l m, offer = Some (l, m) -> can_recv n byz g p l m = true) /\
    gp (gstep g e) = updZ (gp g) p st' /\
    gsent (gstep g e) = gsent g ++ tagged p out /\
    glog (gstep g e) = glog g ++ log_of p r.
Proof.
  intros g e. destruct e; cbn [RbcModel.gstep].
  - destruct (honest n byz p) eqn:Hp; auto. right. unfold broadcast.
    set (s' := if fifo (gp g p) then sq (gp g p) + 1 else coin).
    exists p, (set_sq (gp g p) s'), (to_all n (Msg (cur (gp g p)) p s' 1 m)), RNone, None.
    split; [exact Hp|]. split; [|split; [|split; [discriminate|cbn; rewrite app_nil_r; auto]]].
    + apply qstep_same; [repeat split|]. intros dst x I. apply in_to_all in I. subst. reflexivity.
    + apply pstep3_same; auto. intros dst x I. apply in_to_all in I. subst. cbn. discriminate.
  - destruct (honest n byz p && can_recv n byz g p l m) eqn:G; auto. right. apply andb_true_iff in G. destruct G as [Hp C].
    eexists p, _, _, _, (Some (l, m)). split; [exact Hp|]. split; [apply pstep_qstep; apply (deliver_pstep n t H toolong skip)|].
    split; [apply (deliver_pstep3 n t H toolong skip)|].
    split; [intros l0 m0 E; inversion E; subst; exact C|]. cbn. auto.
  - destruct (honest n byz p) eqn:Hp; auto. right.
    eexists p, _, _, _, None. split; [exact Hp|]. split; [apply pstep_qstep; apply (deliver_pstep n t H toolong skip)|].
    split; [apply (deliver_pstep3 n t H toolong skip)|].
    split; [discriminate|]. cbn. auto.
  - destruct (honest n byz p && can_recv n byz g p l m) eqn:G; auto. right. apply andb_true_iff in G. destruct G as [Hp C].
    eexists p, _, _, _, (Some (l, m)). split; [exact Hp|].
    split; [apply pstep_qstep; apply (deliver_from_pstep n t H toolong skip p (gp g p) i (Some (l, m)))|].
    split; [apply (deliver_from_pstep3 n t H toolong skip p (gp g p) i (Some (l, m)))|].
    split; [intros l0 m0 E; inversion E; subst; exact C|]. unfold apply_from.
    destruct (snd (deliver_from n t skip H toolong p (gp g p) i (Some (l, m)))); cbn; auto.
  - destruct (honest n byz p) eqn:Hp; auto. right.
    eexists p, _, _, _, None. split; [exact Hp|].
    split; [apply pstep_qstep; apply (deliver_from_pstep n t H toolong skip p (gp g p) i None)|].
    split; [apply (deliver_from_pstep3 n t H toolong skip p (gp g p) i None)|].
    split; [discriminate|]. unfold apply_from.
    destruct (snd (deliver_from n t skip H toolong p (gp g p) i None)); cbn; auto.
  - destruct (honest n byz p) eqn:Hp; auto. right.
    exists p, (set_id (gp g p) id f), [], RNone, None. split; [exact Hp|].
    split; [|split; [|split; [discriminate|cbn; rewrite !app_nil_r; auto]]].
    + apply qstep_same; [unfold set_id; cbn; repeat split|intros ? ? []].
    + apply pstep3_same; auto; intros ? ? [].
  - destruct (honest n byz p) eqn:Hp; auto. right.
    exists p, (recover_id (gp g p) id f), [], RNone, None. split; [exact Hp|].
    split; [|split; [|split; [discriminate|cbn; rewrite !app_nil_r; auto]]].
    + apply qstep_same; [unfold recover_id; destruct (recov (gp g p) id) as [[? ?]|]; cbn; repeat split|intros ? ? []].
    + apply pstep3_same; try (unfold recover_id; destruct (recov (gp g p) id) as [[? ?]|]; reflexivity); intros ? ? [].
  - destruct (honest n byz p) eqn:Hp; auto. right.
    exists p, (unset_id (gp g p) f), [], RNone, None. split; [exact Hp|].
    split; [|split; [|split; [discriminate|cbn; rewrite !app_nil_r; auto]]].
    + apply qstep_same; [unfold unset_id; destruct (stack (gp g p)) as [|[[? ?] ?] ?]; cbn; repeat split|intros ? ? []].
    + apply pstep3_same; try (unfold unset_id; destruct (stack (gp g p)) as [|[[? ?] ?] ?]; reflexivity); intros ? ? [].
Qed.

Definition sent_ready (g : gst) (l q : Z) (tg : tagT) (d : Z) : Prop :=
  exists m, In (l, q, m) (gsent g) /\ mtag m = tg /\ m_act m = 3 /\ m_pay m = d.

Definition G0 (g : gst) := forall q l tg, filt (gp g q) FReady l tg = true ->
  byz l = true \/ exists m, In (l, q, m) (gsent g) /\ mtag m = tg /\ m_act m = 3.
Definition G1 (g : gst) := forall l dst x, In (l, dst, x) (gsent g) -> m_act x = 3 -> forall i, 0 <= i < n -> In (l, i, x) (gsent g).
Definition G2 (g : gst) := 0 < t -> forall q tg d, rcond (gp g q) tg d -> exists dst, sent_ready g q dst tg d.
Definition G3 (g : gst) := forall q tg d, 2 * t + 1 <= rd (gp g q) tg d -> dbar (gp g q) tg <> None.
Definition G4 (g : gst) := forall q tg d, toolong tg d = false ->
  exists L, NoDup L /\ Z.of_nat (length L) = rd (gp g q) tg d /\
    (forall l, In l L -> filt (gp g q) FReady l tg = true) /\
    (forall l, filt (gp g q) FReady l tg = true -> byz l = false -> sent_ready g l q tg d -> In l L).
Definition INV3 (g : gst) : Prop := G0 g /\ G1 g /\ G2 g /\ G3 g /\ G4 g.

Section OneStep3.
Variables (g g' : gst) (p : Z) (st' : pst) (out : list (Z * msg)) (r : dres) (offer : option (Z * msg)).
Hypothesis Hp : hon p.
Hypothesis Q : qstep (gp g p) st' out r offer.
Hypothesis Q3 : pstep3 (gp g p) st' out offer.
Hypothesis CR : forall l m, offer = Some (l, m) -> can_recv n byz g p l m = true.
Hypothesis Egp : gp g' = updZ (gp g) p st'.
Hypothesis Esent : gsent g' = gsent g ++ tagged p out.
Hypothesis Ig' : INV g'.

Let smono := sent_mono g g' p out Esent.
Let scases := state_cases g g' p st' Egp.
Let snew3 := snew g g' p out Esent.

Lemma sent_ready_mono : forall l q tg d, sent_ready g l q tg d -> sent_ready g' l q tg d.
Proof. intros l q tg d (m & I & E). exists m. split; auto. Qed.

Lemma G0_step : G0 g -> G0 g'.
Proof.
  intros IH q l tg F. destruct (scases q) as [[-> E]|[N E]]; rewrite E in *.
  - destruct (filt (gp g p) FReady l tg) eqn:F0.
    + destruct (IH _ _ _ F0) as [Y|(m & I & X)]; auto. right. exists m. auto.
    + destruct Q3 as (_ & _ & _ & _ & Fc & _). destruct (Fc _ _ F0 F) as (m & Eo & Tm & Am & _).
      destruct (can_recv_spec g p l m (CR l m Eo)) as (_ & [Y|I]); auto. right. exists m. auto.
  - destruct (IH _ _ _ F) as [Y|(m & I & X)]; auto. right. exists m. auto.
Qed.

Lemma G1_step : G1 g -> G1 g'.
Proof.
  intros IH l dst x I A i Ri. apply snew3 in I. destruct I as [I|[-> I]].
  - apply smono. eapply IH; eauto.
  - destruct Q3 as (Al & _). rewrite Esent. apply in_or_app. right. unfold tagged. apply in_map_iff.
    exists (i, x). split; auto. eapply Al; eauto. apply range_in. exact Ri.
Qed.

Lemma G2_step : G2 g -> G2 g'.
Proof.
  intros IH T0 q tg d C. destruct (scases q) as [[-> E]|[N E]]; rewrite E in *.
  - destruct Q3 as (_ & Tr & _). destruct (Tr T0 tg d C) as [C0|(dst & x & I & Tx & Ax & Px)].
    + destruct (IH T0 _ _ _ C0) as (dst & S). exists dst. apply sent_ready_mono. exact S.
    + exists dst, x. split; auto. rewrite Esent. apply in_or_app. right. unfold tagged. apply in_map_iff. exists (dst, x). auto.
  - destruct (IH T0 _ _ _ C) as (dst & S). exists dst. apply sent_ready_mono. exact S.
Qed.

Lemma G3_step : G3 g -> G3 g'.
Proof.
  intros IH q tg d C. destruct (scases q) as [[-> E]|[N E]]; rewrite E in *; [|eapply IH; eauto].
  destruct Q3 as (_ & _ & Dt & Dk & _). destruct (Dt tg d C) as [C0|X]; auto. apply Dk. eapply IH; eauto.
Qed.

Lemma G4_step : G0 g -> G4 g -> G4 g'.
Proof.
  intros I0 IH q tg d TL. destruct (scases q) as [[-> E]|[N E]]; rewrite E in *.
  - destruct (IH p tg d TL) as (L & ND & Len & AF & AC).
    pose proof Q as Q0. destruct Q0 as (Fm & _ & Cr & _).
    pose proof Q3 as Q30. destruct Q30 as (_ & _ & _ & _ & Fc & _).
    (* a peer whose filter is set after the step, not faulty, and that sent ready(tg,d): old filter -> already in L *)
    assert (OLD : forall l, filt (gp g p) FReady l tg = true -> byz l = false -> sent_ready g' l p tg d -> In l L).
    { intros l F0 Nb (m & Im & Tm & Am & Pm). apply AC; auto.
      destruct (I0 _ _ _ F0) as [Y|(m0 & I0m & T0m & A0m)]; [congruence|].
      exists m0. repeat split; auto. rewrite <- Pm.
      eapply (ready_digest_unique g' Ig'); eauto. congruence. }
    destruct (Cr tg d) as [Er|(l & m & Eo & Et & Ed & Am & F0 & Er & F1)].
    + exists L. split; [exact ND|]. split; [congruence|]. split; [intros l I; apply Fm; auto|].
      intros l F Nb S. destruct (filt (gp g p) FReady l tg) eqn:F0; [apply OLD; auto|].
      exfalso. destruct (Fc _ _ F0 F) as (m & Eo & Tm & Am & C).
      destruct (can_recv_spec g p l m (CR l m Eo)) as (_ & [Y|Im]); [congruence|].
      destruct S as (m2 & Im2 & Tm2 & Am2 & Pm2).
      assert (Pd : m_pay m = d).
      { rewrite <- Pm2. eapply (ready_digest_unique g' Ig'); eauto. congruence. }
      rewrite Pd in C. destruct C as [C|C]; [congruence|lia].
    + exists (l :: L). split; [|split; [|split]].
      * constructor; auto. intros I. apply AF in I. congruence.
      * cbn [length]. lia.
      * intros l0 [<-|I]; auto.
      * intros l0 F Nb S. destruct (filt (gp g p) FReady l0 tg) eqn:F00; [right; apply OLD; auto|].
        destruct (Fc _ _ F00 F) as (m' & Eo' & _). rewrite Eo in Eo'. inversion Eo'. left. auto.
  - destruct (IH q tg d TL) as (L & ND & Len & AF & AC). exists L. split; [exact ND|]. split; [exact Len|]. split; [exact AF|].
    intros l F Nb (m & Im & Tm & Am & Pm). apply AC; auto.
    (* the filter was set by a ready that l really sent before; l sends one digest per tag *)
    destruct (I0 _ _ _ F) as [Y|(m0 & I0m & T0m & A0m)]; [congruence|].
    exists m0. repeat split; auto. rewrite <- Pm.
    eapply (ready_digest_unique g' Ig'); eauto. congruence.
Qed.
End OneStep3.

Lemma INV3_init : INV3 ginit.
Proof.
  unfold INV3. split; [|split; [|split; [|split]]].
  - intros q l tg F. cbn in F. discriminate.
  - intros l dst x [].
  - intros T0 q tg d [C|C]; unfold ginit, pinit in C; cbn [gp rd ed] in C; lia.
  - intros q tg d C. unfold ginit, pinit in C. cbn [gp rd ed] in C. lia.
  - intros q tg d TL. exists []. cbn. split; [constructor|]. split; [reflexivity|]. split; [intros l []|].
    intros l F. discriminate.
Qed.

Lemma INV3_step : forall g e, INV g -> INV3 g -> INV3 (gstep g e).
Proof.
  intros g e I (A0 & A1 & A2 & A3 & A4).
  destruct (gstep_cases3 g e) as [E|(p & st' & out & r & offer & Hp & Q & Q3 & CR & E1 & E2 & E3)].
  - rewrite E. unfold INV3. auto.
  - pose proof (INV_step g e I) as I'. unfold INV3. split; [|split; [|split; [|split]]].
    + eapply G0_step; eauto.
    + eapply G1_step; eauto.
    + eapply G2_step; eauto.
    + eapply G3_step; eauto.
    + eapply G4_step; eauto.
Qed.

Theorem INV3_run : forall es, INV (run es) /\ INV3 (run es).
Proof.
  intros es. apply (grun_ind n t skip H toolong byz (fun g => INV g /\ INV3 g)).
  - split; [exact INV_init|exact INV3_init].
  - intros g e [I I3]. split; [apply INV_step; exact I|apply INV3_step; auto].
Qed.

(* an echo quorum makes a party send r-ready unless it already had t+1 readys (the t = 0 case of the ready rule) *)
Definition G2e (g : gst) := forall q tg d, n - t <= ed (gp g q) tg d ->
  (exists dst, sent_ready g q dst tg d) \/ t + 1 <= rd (gp g q) tg d.

Lemma G2e_step : forall g e, G2e g -> G2e (gstep g e).
Proof.
  intros g e IH.
  destruct (gstep_cases3 g e) as [E|(p & st' & out & r & offer & Hp & Q & Q3 & CR & E1 & E2 & E3)]; [rewrite E; exact IH|].
  intros q tg d C.
  assert (MONO : forall q0 dst, sent_ready g q0 dst tg d -> sent_ready (gstep g e) q0 dst tg d).
  { intros q0 dst (m & I & X). exists m. split; auto. rewrite E2. apply in_or_app. auto. }
  destruct (state_cases g (gstep g e) p st' E1 q) as [[-> E]|[N E]]; rewrite E in *.
  - destruct Q3 as (_ & _ & _ & _ & _ & Et). destruct Q as (_ & _ & Cr & _).
    assert (RM : rd (gp g p) tg d <= rd st' tg d).
    { destruct (Cr tg d) as [X|(? & ? & _ & _ & _ & _ & _ & X & _)]; lia. }
    destruct (Et tg d C) as [C0|[(dst & x & I & Tx & Ax & Px)|C0]]; auto.
    + destruct (IH _ _ _ C0) as [(dst & S)|R]; [left; exists dst; apply MONO; exact S|right; lia].
    + left. exists dst, x. split; auto. rewrite E2. apply in_or_app. right. unfold tagged. apply in_map_iff. exists (dst, x). auto.
  - destruct (IH _ _ _ C) as [(dst & S)|R]; [left; exists dst; apply MONO; exact S|right; exact R].
Qed.

Theorem G2e_run : forall es, G2e (run es).
Proof.
  intros es. apply (grun_ind n t skip H toolong byz G2e); [|exact G2e_step].
  intros q tg d C. unfold ginit, pinit in C. cbn [gp ed] in C. lia.
Qed.

(* every r-ready an honest party sent has been handed over to its honest receivers *)
Definition ready_quiescent (g : gst) : Prop :=
  forall l q m, In (l, q, m) (gsent g) -> m_act m = 3 -> hon q -> filt (gp g q) FReady l (mtag m) = true.

Definition notB (l : Z) : bool := negb (existsb (Z.eqb l) B).
Lemma notB_spec : forall l, notB l = true <-> ~ In l B.
Proof.
  intros l. unfold notB. rewrite negb_true_iff. split.
  - intros E I. apply in_existsb_eqb in I. congruence.
  - intros N. destruct (existsb (Z.eqb l) B) eqn:E; auto. apply in_existsb_eqb in E. contradiction.
Qed.
Lemma filter_notB_length : forall L, NoDup L -> (length L <= length (filter notB L) + length B)%nat.
Proof.
  intros L ND.
  assert (S : (length (filter notB L) + length (filter (fun l => negb (notB l)) L) = length L)%nat).
  { clear. induction L as [|a r IH]; cbn; auto. destruct (notB a); cbn; lia. }
  assert (I : incl (filter (fun l => negb (notB l)) L) B).
  { intros l J. apply filter_In in J. destruct J as [_ J]. apply negb_true_iff in J.
    destruct (in_dec Z.eq_dec l B); auto. apply notB_spec in n0. congruence. }
  apply NoDup_incl_length in I; [lia|]. apply NoDup_filter. exact ND.
Qed.

Hypothesis toolong_ok : forall tg x, toolong tg (H x) = false.

(* TOTALITY of the agreed digest: once every r-ready has been handed over, a digest accepted by one honest party
   (2t+1 r-ready, the precondition of every delivery on the Bracha path) is accepted by every honest party *)
Theorem totality_digest : forall es p q tg d,
  ready_quiescent (run es) -> dbar (gp (run es) p) tg = Some d -> hon q -> dbar (gp (run es) q) tg = Some d.
Proof.
  intros es p q tg d QU D Hq. destruct (INV3_run es) as (I & A0 & A1 & A2 & A3 & A4).
  set (g := run es) in *.
  (* the digest is a hash value, hence not over-long *)
  assert (TL : toolong tg d = false).
  { destruct (dbar_has_ready g I _ _ _ D) as (l & x & Ix & Tx & Ax & Px).
    destruct (ready_has_send g I _ _ _ Ix Ax) as (e & m & _ & _ & Pm & _). rewrite <- Px, Pm. apply toolong_ok. }
  (* the readys p has counted *)
  pose proof I as (_ & C2 & _ & _ & _ & _ & A7 & _).
  pose proof (A7 _ _ _ D) as R7.
  destruct (C2 p tg d) as (Lp & NDp & Lenp & ALp).
  (* whoever is not faulty and sent ready(tg,d) to anybody is in the list of every honest party *)
  assert (K : forall q', hon q' -> forall L, (forall l, filt (gp g q') FReady l tg = true -> byz l = false ->
                                              sent_ready g l q' tg d -> In l L) ->
              forall l, 0 <= q' < n -> ~ In l B -> (exists dst, sent_ready g l dst tg d) -> In l L).
  { intros q' Hq' L AC l Rq NB (dst & m & Im & Tm & Am & Pm).
    assert (Nb : byz l = false). { destruct (byz l) eqn:Y; auto. exfalso. auto. }
    pose proof (A1 _ _ _ Im Am q' Rq) as Iq. apply AC; auto.
    - rewrite <- Tm. eapply QU; eauto.
    - exists m. auto. }
  assert (RANGE : forall q', hon q' -> 0 <= q' < n).
  { intros q' Hq'. unfold honest, is_party in Hq'. b2p. lia. }
  (* every honest party has t+1 readys *)
  assert (E1 : forall q', hon q' -> t + 1 <= rd (gp g q') tg d).
  { intros q' Hq'. destruct (A4 q' tg d TL) as (L & ND & Len & AF & AC).
    assert (INC : incl (filter notB Lp) L).
    { intros l J. apply filter_In in J. destruct J as [J NB]. apply notB_spec in NB.
      destruct (ALp l J) as (_ & _ & [Y|(m & Im & Tm & Am & Pm)]); [exfalso; auto|].
      apply (K q' Hq' L AC l (RANGE q' Hq') NB). exists p, m. auto. }
    apply NoDup_incl_length in INC; [|apply NoDup_filter; exact NDp].
    pose proof (filter_notB_length Lp NDp). lia. }
  (* the list of all non-faulty parties *)
  set (All := filter notB (range n)).
  assert (NDA : NoDup All) by (apply NoDup_filter; apply range_nodup).
  assert (LA : n - t <= Z.of_nat (length All)).
  { pose proof (filter_notB_length (range n) (range_nodup n)) as X. unfold All.
    unfold range in X at 1. rewrite map_length, seq_length in X. lia. }
  destruct (A4 q tg d TL) as (L & ND & Len & AF & AC).
  assert (Q2t : 2 * t + 1 <= rd (gp g q) tg d).
  { destruct (Z.eq_dec t 0) as [T0|T0]; [specialize (E1 q Hq); lia|].
    assert (INC : incl All L).
    { intros l J. apply filter_In in J. destruct J as [J NB]. apply notB_spec in NB. apply range_in in J.
      apply (K q Hq L AC l (RANGE q Hq) NB).
      apply A2; [lia|]. left. apply E1. apply honest_of; auto. }
    apply NoDup_incl_length in INC; auto. lia. }
  pose proof (A3 _ _ _ Q2t) as NN. destruct (dbar (gp g q) tg) as [d'|] eqn:Dq; [|congruence].
  f_equal. eapply (dbar_agree g I); eauto.
Qed.

(* ==== fourth layer: the delivery clause on the FIFO root channel ========================================== *)
Notation pstep4 := (pstep4 n t H toolong skip).

Definition noswitch (e : event) : bool :=
  match e with ESetID _ _ _ | ERecoverID _ _ _ | EUnsetID _ _ => false | _ => true end.

Definition bcfact (p : Z) (st st' : pst) (out : list (Z * msg)) : Prop :=
  (sq st' = sq st /\ forall dst x, In (dst, x) out -> m_act x <> 1) \/
  (exists v, out = to_all n (Msg (cur st) p (sq st') 1 v) /\ (fifo st = true -> sq st' = sq st + 1)).

Lemma pstep_no_rsend : forall st st' out r off, pstep st st' out r off -> forall dst x, In (dst, x) out -> m_act x <> 1.
Proof. intros st st' out r off (_ & _ & _ & _ & _ & S & _) dst x I. destruct (S _ _ I) as [N _]. exact N. Qed.

Lemma deliver_from_sq : forall me st i off, sq (o_st (fst (deliver_from n t skip H toolong me st i off))) = sq st.
Proof.
  intros me st i off. unfold RbcModel.deliver_from. destruct ((i <? 0) || (i >=? n)); [reflexivity|].
  destruct (take_chan (cur st) [] (fbuf st i)) as [[v rest]|]; [reflexivity|].
  pose proof (deliver_spec n t skip H toolong me st off) as [(_ & C2 & _) _].
  destruct (o_res (deliver n t skip H toolong me st off)); cbn; auto.
Qed.

Lemma gstep_cases4 : forall g e, noswitch e = true ->
  gstep g e = g \/
  exists p st' out r offer,
    hon p /\ qstep (gp g p) st' out r offer /\ pstep2 (gp g p) st' out r offer /\ pstep3 (gp g p) st' out offer /\
    pstep4 (gp g p) st' out r offer /\
    cur st' = cur (gp g p) /\ fifo st' = fifo (gp g p) /\ dres_ok skip (gp g p) st' r /\ bcfact p (gp g p) st' out /\
    (forall l m, offer = Some (l, m) -> can_recv n byz g p l m = true) /\
    gp (gstep g e) = updZ (gp g) p st' /\
    gsent (gstep g e) = gsent g ++ tagged p out /\
    glog (gstep g e) = glog g ++ log_of p r.
Proof.
  intros g e NS. destruct e; try discriminate; cbn [RbcModel.gstep].
  - destruct (honest n byz p) eqn:Hp; auto. right. unfold broadcast.
    set (s' := if fifo (gp g p) then sq (gp g p) + 1 else coin).
    exists p, (set_sq (gp g p) s'), (to_all n (Msg (cur (gp g p)) p s' 1 m)), RNone, None.
    split; [exact Hp|]. split; [|split; [|split; [|split; [|split; [reflexivity|split; [reflexivity|split; [cbn; auto|split; [|split; [discriminate|cbn; rewrite app_nil_r; auto]]]]]]]]].
    5: { right. exists m. split; [reflexivity|]. intros F. unfold s'. cbn. rewrite F. reflexivity. }
    + apply qstep_same; [repeat split|]. intros dst x I. apply in_to_all in I. subst. reflexivity.
    + apply pstep2_same; auto. intros dst x I. apply in_to_all in I. subst. cbn. lia.
    + apply pstep3_same; auto. intros dst x I. apply in_to_all in I. subst. cbn. discriminate.
    + apply pstep4_same; auto. intros dst x I. apply in_to_all in I. subst. cbn. auto.
  - destruct (honest n byz p && can_recv n byz g p l m) eqn:G; auto. right. apply andb_true_iff in G. destruct G as [Hp C].
    pose proof (deliver_spec n t skip H toolong p (gp g p) (Some (l, m))) as [(C1 & C2 & C3 & _) DR].
    eexists p, _, _, _, (Some (l, m)). split; [exact Hp|]. split; [apply pstep_qstep; apply (deliver_pstep n t H toolong skip)|].
    split; [apply (deliver_pstep2 n t H toolong skip)|]. split; [apply (deliver_pstep3 n t H toolong skip)|].
    split; [apply (deliver_pstep4 n t H toolong skip)|]. split; [symmetry; exact C1|]. split; [symmetry; exact C3|]. split; [exact DR|].
    split; [left; split; [symmetry; exact C2|eapply pstep_no_rsend; apply (deliver_pstep n t H toolong skip)]|].
    split; [intros l0 m0 E; inversion E; subst; exact C|]. cbn. auto.
  - destruct (honest n byz p) eqn:Hp; auto. right.
    pose proof (deliver_spec n t skip H toolong p (gp g p) None) as [(C1 & C2 & C3 & _) DR].
    eexists p, _, _, _, None. split; [exact Hp|]. split; [apply pstep_qstep; apply (deliver_pstep n t H toolong skip)|].
    split; [apply (deliver_pstep2 n t H toolong skip)|]. split; [apply (deliver_pstep3 n t H toolong skip)|].
    split; [apply (deliver_pstep4 n t H toolong skip)|]. split; [symmetry; exact C1|]. split; [symmetry; exact C3|]. split; [exact DR|].
    split; [left; split; [symmetry; exact C2|eapply pstep_no_rsend; apply (deliver_pstep n t H toolong skip)]|].
    split; [discriminate|]. cbn. auto.
  - destruct (honest n byz p && can_recv n byz g p l m) eqn:G; auto. right. apply andb_true_iff in G. destruct G as [Hp C].
    pose proof (deliver_from_spec n t skip H toolong p (gp g p) i (Some (l, m))) as DS. cbv zeta in DS. destruct DS as (C1 & C3 & DR & _).
    eexists p, _, _, _, (Some (l, m)). split; [exact Hp|].
    split; [apply pstep_qstep; apply (deliver_from_pstep n t H toolong skip p (gp g p) i (Some (l, m)))|].
    split; [apply (deliver_from_pstep2 n t H toolong skip p (gp g p) i (Some (l, m)))|].
    split; [apply (deliver_from_pstep3 n t H toolong skip p (gp g p) i (Some (l, m)))|].
    split; [apply (deliver_from_pstep4 n t H toolong skip p (gp g p) i (Some (l, m)))|].
    split; [exact C1|]. split; [exact C3|]. split; [exact DR|].
    split; [left; split; [apply deliver_from_sq|eapply pstep_no_rsend; apply (deliver_from_pstep n t H toolong skip p (gp g p) i (Some (l, m)))]|].
    split; [intros l0 m0 E; inversion E; subst; exact C|]. unfold apply_from.
    destruct (snd (deliver_from n t skip H toolong p (gp g p) i (Some (l, m)))); cbn; auto.
  - destruct (honest n byz p) eqn:Hp; auto. right.
    pose proof (deliver_from_spec n t skip H toolong p (gp g p) i None) as DS. cbv zeta in DS. destruct DS as (C1 & C3 & DR & _).
    eexists p, _, _, _, None. split; [exact Hp|].
    split; [apply pstep_qstep; apply (deliver_from_pstep n t H toolong skip p (gp g p) i None)|].
    split; [apply (deliver_from_pstep2 n t H toolong skip p (gp g p) i None)|].
    split; [apply (deliver_from_pstep3 n t H toolong skip p (gp g p) i None)|].
    split; [apply (deliver_from_pstep4 n t H toolong skip p (gp g p) i None)|].
    split; [exact C1|]. split; [exact C3|]. split; [exact DR|].
    split; [left; split; [apply deliver_from_sq|eapply pstep_no_rsend; apply (deliver_from_pstep n t H toolong skip p (gp g p) i None)]|].
    split; [discriminate|]. unfold apply_from.
    destruct (snd (deliver_from n t skip H toolong p (gp g p) i None)); cbn; auto.
Qed.

Hypothesis Hskip : skip = 0.
Hypothesis H_inj : forall a b, H a = H b -> a = b.

(* every party sits on the FIFO root channel (runs without channel switches) *)
Definition NS (g : gst) := forall p, cur (gp g p) = 0 /\ fifo (gp g p) = true.
(* the delivery counter and the log: delivered slots of sender w are exactly 1 .. deliver_s[w]-1 *)
Definition DL (g : gst) :=
  (forall q id w s v, In (q, (id, w, s), v) (glog g) -> id = 0 /\ 1 <= s < dls (gp g q) w) /\
  (forall q w s, 1 <= s < dls (gp g q) w -> exists v, In (q, (0, w, s), v) (glog g)) /\
  (forall q w, 1 <= dls (gp g q) w).
Definition K1 (g : gst) := forall p dst x, In (p, dst, x) (gsent g) -> m_act x <> 1 -> m_act x <> 6 -> 0 <= m_j x < n /\ 1 <= m_s x.
Definition K2 (g : gst) := forall p dst x, In (p, dst, x) (gsent g) -> m_act x = 2 -> forall i, 0 <= i < n -> In (p, i, x) (gsent g).
Definition K3 (g : gst) := forall p dst x, In (p, dst, x) (gsent g) -> m_act x = 2 -> mbar (gp g p) (mtag x) <> None.
(* r-send messages of a party on the FIFO channel: numbered 1 .. s, one payload per number, sent to everybody *)
Definition U0 (g : gst) := forall j dst m, In (j, dst, m) (gsent g) -> m_act m = 1 -> m_id m = 0 /\ m_j m = j /\ 1 <= m_s m <= sq (gp g j).
Definition U1 (g : gst) := forall j d1 m1 d2 m2, In (j, d1, m1) (gsent g) -> In (j, d2, m2) (gsent g) ->
  m_act m1 = 1 -> m_act m2 = 1 -> mtag m1 = mtag m2 -> m_pay m1 = m_pay m2.
Definition U2 (g : gst) := forall j, 0 <= sq (gp g j) /\
  forall s, 1 <= s <= sq (gp g j) -> exists v, forall i, 0 <= i < n -> In (j, i, Msg 0 j s 1 v) (gsent g).

Definition INV4a (g : gst) : Prop := NS g /\ DL g /\ K1 g /\ K2 g /\ K3 g /\ U0 g /\ U1 g /\ U2 g.

Section OneStep4.
Variables (g g' : gst) (p : Z) (st' : pst) (out : list (Z * msg)) (r : dres) (offer : option (Z * msg)).
Hypothesis Hp : hon p.
Hypothesis Q : qstep (gp g p) st' out r offer.
Hypothesis Q2 : pstep2 (gp g p) st' out r offer.
Hypothesis Q3 : pstep3 (gp g p) st' out offer.
Hypothesis Q4 : pstep4 (gp g p) st' out r offer.
Hypothesis Ecur : cur st' = cur (gp g p).
Hypothesis Efifo : fifo st' = fifo (gp g p).
Hypothesis DR : dres_ok skip (gp g p) st' r.
Hypothesis BC : bcfact p (gp g p) st' out.
Hypothesis CR : forall l m, offer = Some (l, m) -> can_recv n byz g p l m = true.
Hypothesis Egp : gp g' = updZ (gp g) p st'.
Hypothesis Esent : gsent g' = gsent g ++ tagged p out.
Hypothesis Elog : glog g' = glog g ++ log_of p r.
Hypothesis NSg : NS g.

Let smono4 := sent_mono g g' p out Esent.
Let scases4 := state_cases g g' p st' Egp.
Let snew4 := snew g g' p out Esent.

Lemma in_tagged : forall dst x, In (dst, x) out -> In (p, dst, x) (gsent g').
Proof. intros dst x I. rewrite Esent. apply in_or_app. right. unfold tagged. apply in_map_iff. exists (dst, x). auto. Qed.

Lemma p_range : 0 <= p < n.
Proof. unfold honest, is_party in Hp. b2p. lia. Qed.

Lemma NS_step : NS g'.
Proof.
  intros q. destruct (scases4 q) as [[-> E]|[N E]]; rewrite E; [|apply NSg].
  destruct (NSg p) as [C F]. split; congruence.
Qed.

(* what a step does to the delivery counters (fifo_skip = 0) *)
Lemma dls_step : (r = RNone \/ r = RThrow) /\ dls st' = dls (gp g p) \/
  exists who s v, r = RDeliver who (0, who, s) v /\ s = dls (gp g p) who /\ dls st' = updZ (dls (gp g p)) who (s + 1).
Proof.
  destruct (NSg p) as [C F]. unfold dres_ok in DR. destruct r as [|who tg v|].
  - left. split; [auto|apply DR; exact Hskip].
  - right. destruct DR as ((s & -> & _ & S) & _ & D). rewrite C. exists who, s, v.
    split; [reflexivity|]. split; [apply S; auto|]. rewrite (D Hskip). rewrite <- (S F Hskip). reflexivity.
  - left. split; [auto|apply DR; exact Hskip].
Qed.

Lemma DL_step : DL g -> DL g'.
Proof.
  intros (A & Bq & C). unfold DL. split; [|split].
  - intros q id w s v I. rewrite Elog in I. apply in_app_or in I. destruct I as [I|I].
    + destruct (A _ _ _ _ _ I) as (-> & R). split; auto.
      destruct (scases4 q) as [[-> E]|[N E]]; rewrite E; auto.
      destruct dls_step as [[_ D]|(who & s0 & v0 & _ & -> & D)]; rewrite D; auto.
      unfold updZ. destruct (w =? who) eqn:X; b2p; subst; lia.
    + apply log_of_in in I. destruct I as (-> & who & Er).
      destruct dls_step as [[[D|D] _]|(who' & s0 & v0 & Er' & -> & D)]; try congruence.
      rewrite Er in Er'. inversion Er'; subst. split; auto.
      destruct (scases4 p) as [[_ E]|[N _]]; [|congruence]. rewrite E, D, updZ_same. pose proof (C p who'). lia.
  - intros q w s R. destruct (scases4 q) as [[-> E]|[N E]]; rewrite E in R.
    + destruct dls_step as [[_ D]|(who & s0 & v0 & Er & -> & D)]; rewrite D in R.
      * destruct (Bq _ _ _ R) as (v & I). exists v. rewrite Elog. apply in_or_app. auto.
      * unfold updZ in R. destruct (w =? who) eqn:X; b2p.
        -- subst w. destruct (Z.eq_dec s (dls (gp g p) who)) as [->|NE].
           ++ exists v0. rewrite Elog, Er. apply in_or_app. right. cbn. auto.
           ++ destruct (Bq p who s) as (v & I); [lia|]. exists v. rewrite Elog. apply in_or_app. auto.
        -- destruct (Bq _ _ _ R) as (v & I). exists v. rewrite Elog. apply in_or_app. auto.
    + destruct (Bq _ _ _ R) as (v & I). exists v. rewrite Elog. apply in_or_app. auto.
  - intros q w. destruct (scases4 q) as [[-> E]|[N E]]; rewrite E; auto.
    destruct dls_step as [[_ D]|(who & s0 & v0 & _ & -> & D)]; rewrite D; auto.
    unfold updZ. destruct (w =? who) eqn:X; b2p; subst; auto. pose proof (C p who). lia.
Qed.

Lemma K1_step : K1 g -> K1 g'.
Proof.
  intros IH q dst x I N1 N6. apply snew4 in I. destruct I as [I|[-> I]]; [eapply IH; eauto|].
  destruct Q4 as (W & _). eapply W; eauto.
Qed.

Lemma K2_step : K2 g -> K2 g'.
Proof.
  intros IH q dst x I A i Ri. apply snew4 in I. destruct I as [I|[-> I]].
  - apply smono4. eapply IH; eauto.
  - destruct Q4 as (_ & _ & Ea & _). destruct (Ea _ _ I A) as (Al & _). apply in_tagged. apply Al. apply range_in. exact Ri.
Qed.

Lemma mbar_keep : forall tg, mbar (gp g p) tg <> None -> mbar st' tg <> None.
Proof. intros tg N. destruct Q2 as (Mc & _). destruct (Mc tg) as [E|(x & E & _)]; congruence. Qed.

Lemma K3_step : K3 g -> K3 g'.
Proof.
  intros IH q dst x I A. apply snew4 in I. destruct I as [I|[-> I]].
  - destruct (scases4 q) as [[-> E]|[N E]]; rewrite E; [apply mbar_keep|]; eapply IH; eauto.
  - destruct (scases4 p) as [[_ E]|[N _]]; [|congruence]. rewrite E.
    destruct Q4 as (_ & _ & Ea & _). destruct (Ea _ _ I A) as (_ & v & M & _). congruence.
Qed.

Lemma U0_step : U2 g -> U0 g -> U0 g'.
Proof.
  intros A2 IH j dst m I A. apply snew4 in I. destruct I as [I|[-> I]].
  - destruct (IH _ _ _ I A) as (E1 & E2 & E3). repeat split; auto; try lia.
    destruct (scases4 j) as [[-> E]|[N E]]; rewrite E; [|lia].
    destruct BC as [[S _]|(v & _ & S)]; [lia|]. destruct (NSg p) as [_ F]. rewrite (S F). lia.
  - destruct (scases4 p) as [[_ E]|[N _]]; [|congruence]. rewrite E.
    destruct BC as [[_ S]|(v & -> & S)]; [exfalso; eapply S; eauto|].
    apply in_to_all in I. subst m. cbn. destruct (NSg p) as [C F]. rewrite (S F), C.
    destruct (A2 p) as [P0 _]. repeat split; auto; lia.
Qed.

Lemma U1_step : U0 g -> U1 g -> U1 g'.
Proof.
  intros A0 IH j d1 m1 d2 m2 I1 I2 A1 A2 T. apply snew4 in I1. apply snew4 in I2.
  assert (OLDNEW : forall mo mn d d', In (p, d, mo) (gsent g) -> m_act mo = 1 -> In (d', mn) out -> m_act mn = 1 ->
                   mtag mo = mtag mn -> False).
  { intros mo mn d d' Io Ao In_ An Tn. destruct (A0 _ _ _ Io Ao) as (_ & _ & S).
    destruct BC as [[_ X]|(v & -> & X)]; [eapply X; eauto|].
    apply in_to_all in In_. subst mn. unfold mtag in Tn. cbn in Tn. inversion Tn.
    destruct (NSg p) as [_ F]. rewrite (X F) in *. lia. }
  destruct I1 as [I1|[-> I1]], I2 as [I2|[E2 I2]].
  - eapply IH; eauto.
  - subst j. exfalso. eapply OLDNEW; eauto.
  - exfalso. eapply (OLDNEW m2 m1); eauto.
  - destruct BC as [[_ X]|(v & -> & X)]; [exfalso; eapply X; eauto|].
    apply in_to_all in I1. apply in_to_all in I2. congruence.
Qed.

Lemma U2_step : U2 g -> U2 g'.
Proof.
  intros IH j. destruct (IH j) as [P0 Al]. destruct (scases4 j) as [[-> E]|[N E]]; rewrite E.
  - destruct BC as [[S _]|(v & Eo & S)].
    + rewrite S. split; auto. intros s R. destruct (Al s R) as (v & Av). exists v. intros i Ri. apply smono4. auto.
    + destruct (NSg p) as [C F]. rewrite (S F). split; [lia|]. intros s R.
      destruct (Z.eq_dec s (sq (gp g p) + 1)) as [->|NE].
      * exists v. intros i Ri. apply in_tagged. rewrite Eo, (S F), C. unfold to_all. apply in_map_iff. exists i.
        split; auto. apply range_in. exact Ri.
      * destruct (Al s) as (v' & Av); [lia|]. exists v'. intros i Ri. apply smono4. auto.
  - split; auto. intros s R. destruct (Al s R) as (v & Av). exists v. intros i Ri. apply smono4. auto.
Qed.

Lemma INV4a_onestep : INV4a g -> INV4a g'.
Proof.
  intros (_ & A1 & A2 & A3 & A4 & A5 & A6 & A7). unfold INV4a.
  split; [apply NS_step|]. split; [apply DL_step; auto|]. split; [apply K1_step; auto|]. split; [apply K2_step; auto|].
  split; [apply K3_step; auto|]. split; [apply U0_step; auto|]. split; [apply U1_step; auto|apply U2_step; auto].
Qed.
End OneStep4.

Lemma INV4a_init : INV4a ginit.
Proof.
  unfold INV4a. split; [|split; [|split; [|split; [|split; [|split; [|split]]]]]].
  - intros p. cbn. auto.
  - unfold DL. split; [|split].
    + intros q id w s v [].
    + intros q w s R. cbn in R. lia.
    + intros q w. cbn. lia.
  - intros p dst x [].
  - intros p dst x [].
  - intros p dst x [].
  - intros j dst m [].
  - intros j d1 m1 d2 m2 [].
  - intros j. cbn. split; [lia|]. intros s R. lia.
Qed.

Lemma INV4a_step : forall g e, noswitch e = true -> INV4a g -> INV4a (gstep g e).
Proof.
  intros g e NSe I.
  destruct (gstep_cases4 g e NSe) as [E|(p & st' & out & r & offer & Hp & Q & Q2 & Q3 & Q4 & C1 & C3 & DR & BC & CR & E1 & E2 & E3)].
  - rewrite E. exact I.
  - eapply INV4a_onestep; eauto. destruct I as (X & _). exact X.
Qed.

(* induction over runs without channel switches *)
Lemma grun_ind_ns : forall (P : gst -> Prop), P ginit -> (forall g e, noswitch e = true -> P g -> P (gstep g e)) ->
  forall es, forallb noswitch es = true -> P (run es).
Proof.
  intros P P0 PS es. unfold grun.
  assert (G : forall l g, forallb noswitch l = true -> P g -> P (fold_left gstep l g)).
  { induction l as [|e r IH]; cbn; auto. intros g F Pg. apply andb_true_iff in F. destruct F as [F1 F2]. apply IH; auto. }
  intros F. apply G; auto.
Qed.


(* ---- layer 4b: from r-send to delivery attempt ------------------------------------------------------------- *)
(* a supported digest of a tag whose sender is not faulty is the digest of what that sender sent *)
Lemma Sup_send_digest : forall g, INV g -> U1 g -> forall k id s d, Sup g (id, k, s) d -> byz k = false ->
  forall dst m, In (k, dst, m) (gsent g) -> m_act m = 1 -> mtag m = (id, k, s) -> d = H (m_pay m).
Proof.
  intros g I A1 k id s d (L & ND & Len & AL) Nb dst m Im Am Tm.
  destruct (nodup_exceeds_honest B L ND) as (l & J & NB); [lia|].
  destruct (AL l J) as (_ & [Y|(dst' & x & Ix & Tx & Ax & Px)]); [exfalso; auto|].
  pose proof I as (_ & _ & _ & _ & A4 & _).
  destruct (A4 _ _ _ Ix Ax) as (m' & Tm' & Am' & Pm' & M).
  assert (Jx : m_j x = k). { unfold mtag in Tx. inversion Tx. reflexivity. }
  rewrite Jx in M. destruct M as [M|M]; [congruence|].
  rewrite <- Px, Pm'. f_equal. eapply A1; eauto. congruence.
Qed.

Definition sent_echo (g : gst) (l q : Z) (tg : tagT) (d : Z) : Prop :=
  exists m, In (l, q, m) (gsent g) /\ mtag m = tg /\ m_act m = 2 /\ m_pay m = d.

Definition K5 (g : gst) := forall q k id s, filt (gp g q) FSend k (id, k, s) = true -> byz k = false ->
  exists v, (exists dst m, In (k, dst, m) (gsent g) /\ mtag m = (id, k, s) /\ m_act m = 1 /\ m_pay m = v) /\
            mbar (gp g q) (id, k, s) = Some v /\ echoed g q (id, k, s) (H v).
Definition G0e (g : gst) := forall q l tg, filt (gp g q) FEcho l tg = true ->
  byz l = true \/ exists m, In (l, q, m) (gsent g) /\ mtag m = tg /\ m_act m = 2.
Definition G4e (g : gst) := forall q tg d, toolong tg d = false ->
  exists L, NoDup L /\ Z.of_nat (length L) = ed (gp g q) tg d /\
    (forall l, In l L -> filt (gp g q) FEcho l tg = true) /\
    (forall l, filt (gp g q) FEcho l tg = true -> byz l = false -> sent_echo g l q tg d -> In l L).

Definition RQa (g : gst) := forall q dst x, In (q, dst, x) (gsent g) -> m_act x = 4 -> dbar (gp g q) (mtag x) = Some (m_pay x).
Definition RQb (g : gst) := forall q dst x, In (q, dst, x) (gsent g) -> m_act x = 4 -> forall i, 0 <= i <= 2 * t -> In (q, i, x) (gsent g).
Definition K9 (g : gst) := forall l q tg, filt (gp g l) FRequest q tg = true ->
  byz q = true \/ exists m, In (q, l, m) (gsent g) /\ mtag m = tg /\ m_act m = 4.
(* when a request was sent, an echo quorum for the requested digest existed; its honest members answer when asked *)
Definition RQc (g : gst) := forall q dst x, In (q, dst, x) (gsent g) -> m_act x = 4 ->
  exists W, NoDup W /\ n - t <= Z.of_nat (length W) /\
    forall l, In l W -> 0 <= l < n /\
      (byz l = true \/ (echoed g l (mtag x) (m_pay x) /\
                       (filt (gp g l) FRequest q (mtag x) = true -> exists a, In (l, q, a) (gsent g) /\ m_act a = 5 /\ mtag a = mtag x))).
Definition K10 (g : gst) := forall l q a, In (l, q, a) (gsent g) -> m_act a = 5 ->
  (byz q = true \/ exists m, In (q, l, m) (gsent g) /\ m_act m = 4 /\ mtag m = mtag a) /\
  (echoed g l (mtag a) (H (m_pay a)) \/ Sup g (mtag a) (H (m_pay a))).
(* a delivery attempt was made for tg at q: delivered, waiting in the deliver buffer, or dropped as obsolete *)
Definition TD (g : gst) (q : Z) (tg : tagT) : Prop :=
  (exists v, In (q, tg, v) (glog g)) \/ In tg (dbuf (gp g q)) \/ obsolete (gp g q) tg = true.
Definition K11 (g : gst) := forall q l tg, filt (gp g q) FAnswer l tg = true -> byz l = false ->
  TD g q tg \/ exists a db, In (l, q, a) (gsent g) /\ m_act a = 5 /\ mtag a = tg /\ dbar (gp g q) tg = Some db /\ db <> H (m_pay a).
Definition K12 (g : gst) := forall q tg, dbar (gp g q) tg <> None ->
  TD g q tg \/ exists x, m_act x = 4 /\ mtag x = tg /\ forall i, 0 <= i <= 2 * t -> In (q, i, x) (gsent g).

Definition has_dbar (g : gst) (tg : tagT) : Prop := exists p' d, dbar (gp g p') tg = Some d.
(* on the FIFO root channel every delivery, every deliver-buffer entry and every l-deliver answer for a root-channel tag goes
   back to a party that fixed a digest by 2t+1 r-ready *)
Definition K13 (g : gst) :=
  (forall q w s v, In (q, (0, w, s), v) (glog g) -> has_dbar g (0, w, s)) /\
  (forall q w s, In (0, w, s) (dbuf (gp g q)) -> has_dbar g (0, w, s)) /\
  (forall l dst x, In (l, dst, x) (gsent g) -> m_act x = 7 -> m_id x = 0 -> has_dbar g (mtag x)).

Section OneStep4b.
Variables (g g' : gst) (p : Z) (st' : pst) (out : list (Z * msg)) (r : dres) (offer : option (Z * msg)).
Hypothesis Hp : hon p.
Hypothesis Q : qstep (gp g p) st' out r offer.
Hypothesis Q2 : pstep2 (gp g p) st' out r offer.
Hypothesis Q3 : pstep3 (gp g p) st' out offer.
Hypothesis Q4 : pstep4 (gp g p) st' out r offer.
Hypothesis Ecur : cur st' = cur (gp g p).
Hypothesis Efifo : fifo st' = fifo (gp g p).
Hypothesis DR : dres_ok skip (gp g p) st' r.
Hypothesis CR : forall l m, offer = Some (l, m) -> can_recv n byz g p l m = true.
Hypothesis Egp : gp g' = updZ (gp g) p st'.
Hypothesis Esent : gsent g' = gsent g ++ tagged p out.
Hypothesis Elog : glog g' = glog g ++ log_of p r.
Hypothesis Ig : INV g.
Hypothesis Ig' : INV g'.
Hypothesis I2g : INV2 g.
Hypothesis I2g' : INV2 g'.
Hypothesis I4g : INV4a g.
Hypothesis I4g' : INV4a g'.

Let smonob := sent_mono g g' p out Esent.
Let scasesb := state_cases g g' p st' Egp.
Let snewb := snew g g' p out Esent.
Let in_taggedb := in_tagged g g' p out Esent.
Let p_rangeb := p_range p Hp.

Lemma byz_p : byz p = false.
Proof. pose proof Hp as X. unfold honest in X. apply andb_true_iff in X. destruct X as [_ X]. apply negb_true_iff in X. exact X. Qed.

Lemma gp_p : gp g' p = st'.
Proof. destruct (scasesb p) as [[_ E]|[N _]]; [exact E|congruence]. Qed.

Lemma echoed_monob : forall q tg d, echoed g q tg d -> echoed g' q tg d.
Proof. intros q tg d (dst & m & I & E). exists dst, m. split; auto. Qed.

(* a payload that replaces a stored one is supported *)
Lemma changed_mbar_Sup : forall tg x x', mbar (gp g p) tg = Some x -> mbar st' tg = Some x' -> x' <> x -> Sup g' tg (H x').
Proof.
  intros tg x x' M M' NE. destruct I2g' as (_ & Om' & Rh' & _).
  destruct Q2 as (Mc & _). destruct (Mc tg) as [E|(y & E & C)]; [congruence|].
  rewrite M' in E. inversion E; subst y. destruct C as [(N & _)|[D|LA]]; [congruence| |].
  - apply (dbar_Sup g' Ig' p). rewrite gp_p. exact D.
  - apply (laccept_Sup g' Rh' Om' p). rewrite gp_p. exact LA.
Qed.

Lemma K5_step : K5 g -> K5 g'.
Proof.
  intros IH q k id s F Nb. pose proof I4g' as (_ & _ & _ & _ & _ & _ & A1' & _).
  pose proof I4g as (_ & _ & _ & _ & _ & _ & A1 & _).
  assert (OLD : forall q0, filt (gp g q0) FSend k (id, k, s) = true ->
            exists v, (exists dst m, In (k, dst, m) (gsent g') /\ mtag m = (id, k, s) /\ m_act m = 1 /\ m_pay m = v) /\
                      mbar (gp g q0) (id, k, s) = Some v /\ echoed g' q0 (id, k, s) (H v)).
  { intros q0 F0. destruct (IH _ _ _ _ F0 Nb) as (v & (dst & m & Im & Em) & M & E).
    exists v. split; [exists dst, m; auto|]. split; auto. apply echoed_monob. exact E. }
  destruct (scasesb q) as [[-> E]|[N E]]; rewrite E in *; [|apply OLD; exact F].
  destruct (filt (gp g p) FSend k (id, k, s)) eqn:F0.
  - destruct (OLD p F0) as (v & (dst & m & Im & Tm & Am & Pm) & M & Ec).
    exists v. split; [exists dst, m; auto|]. split; auto.
    destruct (mbar st' (id, k, s)) as [x'|] eqn:M'.
    + destruct (Z.eq_dec x' v) as [->|NE]; auto. exfalso.
      pose proof (changed_mbar_Sup _ _ _ M M' NE) as S.
      pose proof (Sup_send_digest g' Ig' A1' k id s _ S Nb dst m Im Am Tm) as X. apply H_inj in X. congruence.
    + exfalso. apply (mbar_keep g p st' out r offer Q2 (id, k, s)); congruence.
  - destruct Q4 as (_ & Sc & _). destruct (Sc _ _ F0 F) as (m & Eo & Tm & Am & C).
    destruct (can_recv_spec g p k m (CR k m Eo)) as (_ & [Y|Im]); [congruence|].
    destruct C as [C|[(x & Mx & NE)|(Al & M')]].
    + exfalso. apply C. unfold mtag in Tm. inversion Tm. reflexivity.
    + exfalso. destruct I2g as (Th & _). destruct (Th _ _ _ Mx) as [Ec|S].
      * destruct Ec as (dst & e & Ie & Te & Ae & _). pose proof Ig as (_ & _ & A3a & _).
        pose proof (A3a _ _ _ Ie Ae) as X. rewrite Te in X.
        assert (Je : m_j e = k). { unfold mtag in Te. inversion Te. reflexivity. } rewrite Je in X. congruence.
      * pose proof (Sup_send_digest g Ig A1 k id s _ S Nb p m Im Am (eq_sym Tm)) as X. apply H_inj in X. congruence.
    + exists (m_pay m). split; [exists p, m; auto|]. split; auto.
      exists p, (Msg (m_id m) (m_j m) (m_s m) 2 (H (m_pay m))). split; [|repeat split; auto].
      apply in_taggedb. apply Al. apply range_in. exact p_rangeb.
Qed.

Lemma G0e_step : G0e g -> G0e g'.
Proof.
  intros IH q l tg F. destruct (scasesb q) as [[-> E]|[N E]]; rewrite E in *.
  - destruct (filt (gp g p) FEcho l tg) eqn:F0.
    + destruct (IH _ _ _ F0) as [Y|(m & I & X)]; auto. right. exists m. auto.
    + destruct Q4 as (_ & _ & _ & _ & _ & _ & _ & _ & Fc & _). destruct (Fc _ _ F0 F) as (m & Eo & Tm & Am & _).
      destruct (can_recv_spec g p l m (CR l m Eo)) as (_ & [Y|I]); auto. right. exists m. auto.
  - destruct (IH _ _ _ F) as [Y|(m & I & X)]; auto. right. exists m. auto.
Qed.

Lemma echo_unique' : forall l d1 m1 d2 m2, In (l, d1, m1) (gsent g') -> In (l, d2, m2) (gsent g') ->
  m_act m1 = 2 -> m_act m2 = 2 -> mtag m1 = mtag m2 -> m_pay m1 = m_pay m2.
Proof. pose proof Ig' as (_ & _ & _ & A3 & _). exact A3. Qed.

Lemma G4e_step : G0e g -> G4e g -> G4e g'.
Proof.
  intros I0 IH q tg d TL. destruct (scasesb q) as [[-> E]|[N E]]; rewrite E in *.
  - destruct (IH p tg d TL) as (L & ND & Len & AF & AC).
    pose proof Q as Q0. destruct Q0 as (Fm & Ce & _).
    pose proof Q4 as Q40. destruct Q40 as (_ & _ & _ & _ & _ & _ & _ & _ & Fc & _).
    assert (OLD : forall l, filt (gp g p) FEcho l tg = true -> byz l = false -> sent_echo g' l p tg d -> In l L).
    { intros l F0 Nb (m & Im & Tm & Am & Pm). apply AC; auto.
      destruct (I0 _ _ _ F0) as [Y|(m0 & I0m & T0m & A0m)]; [congruence|].
      exists m0. repeat split; auto. rewrite <- Pm. eapply echo_unique'; eauto. congruence. }
    destruct (Ce tg d) as [Er|(l & m & Eo & Et & Ed & Am & F0 & Er & F1)].
    + exists L. split; [exact ND|]. split; [congruence|]. split; [intros l I; apply Fm; auto|].
      intros l F Nb S. destruct (filt (gp g p) FEcho l tg) eqn:F0; [apply OLD; auto|].
      exfalso. destruct (Fc _ _ F0 F) as (m & Eo & Tm & Am & C).
      destruct (can_recv_spec g p l m (CR l m Eo)) as (_ & [Y|Im]); [congruence|].
      destruct S as (m2 & Im2 & Tm2 & Am2 & Pm2).
      assert (Pd : m_pay m = d). { rewrite <- Pm2. eapply echo_unique'; eauto. congruence. }
      rewrite Pd in C. destruct C as [C|C]; [congruence|lia].
    + exists (l :: L). split; [|split; [|split]].
      * constructor; auto. intros I. apply AF in I. congruence.
      * cbn [length]. lia.
      * intros l0 [<-|I]; auto.
      * intros l0 F Nb S. destruct (filt (gp g p) FEcho l0 tg) eqn:F00; [right; apply OLD; auto|].
        destruct (Fc _ _ F00 F) as (m' & Eo' & _). rewrite Eo in Eo'. inversion Eo'. left. auto.
  - destruct (IH q tg d TL) as (L & ND & Len & AF & AC). exists L. split; [exact ND|]. split; [exact Len|]. split; [exact AF|].
    intros l F Nb (m & Im & Tm & Am & Pm). apply AC; auto.
    destruct (I0 _ _ _ F) as [Y|(m0 & I0m & T0m & A0m)]; [congruence|].
    exists m0. repeat split; auto. rewrite <- Pm. eapply echo_unique'; eauto. congruence.
Qed.

Lemma dbar_stable : forall tg d, dbar (gp g p) tg = Some d -> dbar st' tg = Some d.
Proof. intros tg d D. destruct Q as (_ & _ & _ & Db & _). destruct (Db tg) as [E|[E _]]; congruence. Qed.

Lemma RQa_step : RQa g -> RQa g'.
Proof.
  intros IH q dst x I A. apply snewb in I. destruct I as [I|[-> I]].
  - destruct (scasesb q) as [[-> E]|[N E]]; rewrite E; [apply dbar_stable|]; eapply IH; eauto.
  - rewrite gp_p. destruct Q4 as (_ & _ & _ & _ & _ & _ & Qc & _). destruct (Qc _ _ I A) as (D & _). exact D.
Qed.

Lemma RQb_step : RQb g -> RQb g'.
Proof.
  intros IH q dst x I A i Ri. apply snewb in I. destruct I as [I|[-> I]].
  - apply smonob. eapply IH; eauto.
  - destruct Q4 as (_ & _ & _ & _ & _ & _ & Qc & _). destruct (Qc _ _ I A) as (_ & _ & _ & Al). apply in_taggedb. auto.
Qed.

Lemma K9_step : K9 g -> K9 g'.
Proof.
  intros IH l q tg F. destruct (scasesb l) as [[-> E]|[N E]]; rewrite E in *.
  - destruct (filt (gp g p) FRequest q tg) eqn:F0.
    + destruct (IH _ _ _ F0) as [Y|(m & I & X)]; auto. right. exists m. auto.
    + destruct Q4 as (_ & _ & _ & Rc & _). destruct (Rc _ _ F0 F) as (m & Eo & Tm & Am & _).
      destruct (can_recv_spec g p q m (CR q m Eo)) as (_ & [Y|I]); auto. right. exists m. auto.
  - destruct (IH _ _ _ F) as [Y|(m & I & X)]; auto. right. exists m. auto.
Qed.

(* no request of p for tg is in the network while p has not fixed the digest; hence nobody has processed one *)
Lemma no_request_yet : RQa g -> K9 g -> forall tg, dbar (gp g p) tg = None -> forall l, filt (gp g' l) FRequest p tg = true -> False.
Proof.
  intros Ra A9 tg D0 l F.
  assert (OLD : forall l0, filt (gp g l0) FRequest p tg = true -> False).
  { intros l0 F0. destruct (A9 _ _ _ F0) as [Y|(m & I & Tm & Am)]; [rewrite byz_p in Y; discriminate|].
    pose proof (Ra _ _ _ I Am) as X. rewrite Tm in X. congruence. }
  destruct (scasesb l) as [[-> E]|[N E]]; rewrite E in *; [|eapply OLD; eauto].
  destruct (filt (gp g p) FRequest p tg) eqn:F0; [eapply OLD; eauto|].
  destruct Q4 as (_ & _ & _ & Rc & _). destruct (Rc _ _ F0 F) as (m & Eo & Tm & Am & _).
  destruct (can_recv_spec g p p m (CR p m Eo)) as (_ & [Y|I]); [rewrite byz_p in Y; discriminate|].
  pose proof (Ra _ _ _ I Am) as X. rewrite <- Tm in X. congruence.
Qed.

Lemma RQc_step : RQa g -> K9 g -> RQc g -> RQc g'.
Proof.
  intros Ra A9 IH q dst x I A. apply snewb in I. destruct I as [I|[-> I]].
  - destruct (IH _ _ _ I A) as (W & ND & Len & AW). exists W. split; [exact ND|]. split; [exact Len|].
    intros l J. destruct (AW l J) as (R & [Y|(Ec & An)]); split; auto. right. split; [apply echoed_monob; exact Ec|].
    intros F. destruct (scasesb l) as [[-> E]|[N E]]; rewrite E in *.
    + destruct (filt (gp g p) FRequest q (mtag x)) eqn:F0.
      * destruct (An eq_refl) as (a & Ia & Ea). exists a. split; auto.
      * pose proof Q4 as Q40. destruct Q40 as (_ & _ & _ & Rc & _). destruct (Rc _ _ F0 F) as (m & Eo & Tm & Am & C).
        destruct C as [C|(v & Mv & Iv)].
        -- exfalso. pose proof I4g as (_ & _ & _ & _ & A3 & _). destruct Ec as (d0 & e & Ie & Te & Ae & _).
           pose proof (A3 _ _ _ Ie Ae) as X. rewrite Te in X. congruence.
        -- exists (Msg (m_id m) (m_j m) (m_s m) 5 v). split; [apply in_taggedb; exact Iv|]. split; [reflexivity|]. rewrite Tm. reflexivity.
    + destruct (An F) as (a & Ia & Ea). exists a. split; auto.
  - pose proof Q4 as Q40. destruct Q40 as (_ & _ & _ & _ & _ & _ & Qc & _). destruct (Qc _ _ I A) as (D1 & D0 & Rd & _).
    assert (DN : dbar (gp g p) (mtag x) = None).
    { destruct D0 as [D0|D0]; auto. exfalso. pose proof Ig as (_ & _ & _ & _ & _ & _ & A7 & _). apply A7 in D0. lia. }
    assert (S : Sup g' (mtag x) (m_pay x)). { apply (dbar_Sup g' Ig' p). rewrite gp_p. exact D1. }
    destruct S as (L & ND & Len & AL). exists L. split; [exact ND|]. split; [exact Len|].
    intros l J. destruct (AL l J) as (R & [Y|Ec]); split; auto. right. split; auto.
    intros F. exfalso. eapply no_request_yet; eauto.
Qed.

Lemma K10_step : K10 g -> K10 g'.
Proof.
  intros IH l q a I A. apply snewb in I. destruct I as [I|[-> I]].
  - destruct (IH _ _ _ I A) as (R & S). split.
    + destruct R as [Y|(m & Im & E)]; auto. right. exists m. auto.
    + destruct S; [left; apply echoed_monob|right; apply (Sup_mono g g' p out Esent)]; auto.
  - destruct Q4 as (_ & _ & _ & _ & Ac & _). destruct (Ac _ _ I A) as (m & Eo & Am & Tm & Mv). split.
    + destruct (can_recv_spec g p q m (CR q m Eo)) as (_ & [Y|Im]); auto. right. exists m. auto.
    + destruct I2g as (Th & _). destruct (Th _ _ _ Mv); [left; apply echoed_monob|right; apply (Sup_mono g g' p out Esent)]; auto.
Qed.

Lemma obsolete_stable : forall tg, obsolete (gp g p) tg = true -> obsolete st' tg = true.
Proof.
  intros [[id who] s] O. unfold obsolete in *. rewrite Ecur, Efifo. b2p. rewrite H0, H2, Z.eqb_refl. cbn.
  apply Z.ltb_lt. pose proof I4g as (NSg & _).
  destruct (dls_step g g' p st' out r offer Q Q2 Q4 DR Elog NSg) as [[_ D]|(w & s0 & v0 & _ & -> & D)]; rewrite D; [lia|].
  unfold updZ. destruct (who =? w) eqn:X; b2p; subst; lia.
Qed.

Lemma TD_stable : forall q tg, TD g q tg -> TD g' q tg.
Proof.
  intros q tg [(v & I)|[I|O]].
  - left. exists v. rewrite Elog. apply in_or_app. auto.
  - destruct (scasesb q) as [[-> E]|[N E]]; [|right; left; rewrite E; exact I].
    destruct Q4 as (_ & _ & _ & _ & _ & _ & _ & _ & _ & Bc & _). destruct (Bc tg I) as [J|[(who & v & Er)|O]].
    + right. left. rewrite E. exact J.
    + left. exists v. rewrite Elog, Er. apply in_or_app. right. cbn. auto.
    + right. right. rewrite E. apply obsolete_stable. exact O.
  - right. right. destruct (scasesb q) as [[-> E]|[N E]]; rewrite E; auto. apply obsolete_stable. exact O.
Qed.

Lemma tried_TD : forall tg, tried st' r tg -> TD g' p tg.
Proof.
  intros tg [(who & v & Er)|I].
  - left. exists v. rewrite Elog, Er. apply in_or_app. right. cbn. auto.
  - right. left. rewrite gp_p. exact I.
Qed.

Lemma K11_step : RQa g -> K10 g -> K11 g -> K11 g'.
Proof.
  intros Ra A10 IH q l tg F Nb.
  assert (OLD : forall q0, filt (gp g q0) FAnswer l tg = true ->
                TD g' q0 tg \/ exists a db, In (l, q0, a) (gsent g') /\ m_act a = 5 /\ mtag a = tg /\ dbar (gp g q0) tg = Some db /\ db <> H (m_pay a)).
  { intros q0 F0. destruct (IH _ _ _ F0 Nb) as [T|(a & db & Ia & Aa & Ta & D & NE)]; [left; apply TD_stable; exact T|].
    right. exists a, db. repeat split; auto. }
  destruct (scasesb q) as [[-> E]|[N E]]; rewrite E in *.
  - destruct (filt (gp g p) FAnswer l tg) eqn:F0.
    + destruct (OLD p F0) as [T|(a & db & Ia & Aa & Ta & D & NE)]; [left; exact T|].
      right. exists a, db. repeat split; auto. apply dbar_stable. exact D.
    + destruct Q4 as (_ & _ & _ & _ & _ & Fc & _). destruct (Fc _ _ F0 F) as (m & Eo & Tm & Am & C).
      destruct (can_recv_spec g p l m (CR l m Eo)) as (_ & [Y|Im]); [congruence|].
      destruct C as [C|[(db & D & NE)|T]].
      * exfalso. destruct (A10 _ _ _ Im Am) as ([Y|(m' & Im' & Am' & Tm')] & _); [rewrite byz_p in Y; discriminate|].
        pose proof (Ra _ _ _ Im' Am') as X. rewrite Tm', <- Tm in X. congruence.
      * right. exists m, db. repeat split; auto. apply dbar_stable. exact D.
      * left. apply tried_TD. exact T.
  - destruct (OLD q F) as [T|(a & db & Ia & Aa & Ta & D & NE)]; [left; exact T|]. right. exists a, db. repeat split; auto.
Qed.

Lemma K12_step : K12 g -> K12 g'.
Proof.
  intros IH q tg D.
  assert (OLD : forall q0, dbar (gp g q0) tg <> None ->
                TD g' q0 tg \/ exists x, m_act x = 4 /\ mtag x = tg /\ forall i, 0 <= i <= 2 * t -> In (q0, i, x) (gsent g')).
  { intros q0 D0. destruct (IH _ _ D0) as [T|(x & Ax & Tx & Al)]; [left; apply TD_stable; exact T|].
    right. exists x. repeat split; auto. }
  destruct (scasesb q) as [[-> E]|[N E]]; rewrite E in *; [|apply OLD; exact D].
  destruct (dbar (gp g p) tg) as [d0|] eqn:D0; [apply OLD; congruence|].
  destruct Q4 as (_ & _ & _ & _ & _ & _ & _ & Dc & _). destruct (Dc tg D0 D) as [(x & Ax & Tx & Al)|[T|(Er & DZ)]].
  - right. exists x. repeat split; auto.
  - left. apply tried_TD. exact T.
  - exfalso. apply (dbar_nonzero g' Ig' p tg 0); [rewrite gp_p; exact DZ|reflexivity].
Qed.

Lemma has_dbar_mono : forall tg, has_dbar g tg -> has_dbar g' tg.
Proof.
  intros tg (p' & d & D). destruct (scasesb p') as [[-> E]|[N E]].
  - exists p, d. rewrite E. apply dbar_stable. exact D.
  - exists p', d. rewrite E. exact D.
Qed.

Lemma K13_step : K13 g -> K13 g'.
Proof.
  intros (Aa & Ab & Ac). pose proof I4g as (NSg & (_ & DLb & _) & _).
  assert (C' : forall l dst x, In (l, dst, x) (gsent g') -> m_act x = 7 -> m_id x = 0 -> has_dbar g' (mtag x)).
  { intros l dst x I A7 Id. apply snewb in I. destruct I as [I|[-> I]]; [apply has_dbar_mono; eapply Ac; eauto|].
    pose proof Q4 as Q40. destruct Q40 as (W & _ & _ & _ & _ & _ & _ & _ & _ & _ & Lc).
    destruct (NSg p) as [_ F]. pose proof (Lc _ _ I A7 Hskip F) as LT.
    destruct (W _ _ I) as (_ & S1); [lia|lia|].
    destruct (DLb p (m_j x) (m_s x)) as (v & Iv); [lia|].
    apply has_dbar_mono. unfold mtag. rewrite Id. eapply Aa; eauto. }
  (* a tag validated at p in this step *)
  assert (SV : forall w s, svalid st' (0, w, s) -> has_dbar g' (0, w, s)).
  { intros w s [(d & D & _)|(x & M & (L & ND & Len & AL))].
    - exists p, d. rewrite gp_p. exact D.
    - destruct (nodup_exceeds_honest B L ND) as (l & J & NB); [lia|].
      destruct (AL l J) as (F & _). destruct I2g' as (_ & _ & Rh' & _).
      destruct (Rh' p l (0, w, s)) as (_ & [Y|(m & Im & Tm & Am & _)]); [rewrite gp_p; exact F|exfalso; auto|].
      rewrite <- Tm. eapply C'; eauto. unfold mtag in Tm. inversion Tm. reflexivity. }
  split; [|split]; auto.
  - intros q w s v I. rewrite Elog in I. apply in_app_or in I. destruct I as [I|I]; [apply has_dbar_mono; eapply Aa; eauto|].
    apply log_of_in in I. destruct I as (-> & who & Er).
    pose proof Q2 as Q20. destruct Q20 as (_ & _ & _ & Dl & _). destruct (Dl _ _ _ Er) as (_ & [V|V]); auto.
    apply has_dbar_mono. eapply Ab; eauto.
  - intros q w s I. destruct (scasesb q) as [[-> E]|[N E]]; rewrite E in *; [|apply has_dbar_mono; eapply Ab; eauto].
    pose proof Q2 as Q20. destruct Q20 as (_ & _ & _ & _ & Bf). destruct (Bf _ I) as [J|J]; auto.
    apply has_dbar_mono. eapply Ab; eauto.
Qed.

Definition INV4b_ (g0 : gst) : Prop :=
  K5 g0 /\ G0e g0 /\ G4e g0 /\ RQa g0 /\ RQb g0 /\ K9 g0 /\ RQc g0 /\ K10 g0 /\ K11 g0 /\ K12 g0 /\ K13 g0.

Lemma INV4b_onestep : INV4b_ g -> INV4b_ g'.
Proof.
  intros (A1 & A2 & A3 & A4 & A5 & A6 & A7 & A8 & A9 & A10 & A11). unfold INV4b_.
  split; [apply K5_step; auto|]. split; [apply G0e_step; auto|]. split; [apply G4e_step; auto|].
  split; [apply RQa_step; auto|]. split; [apply RQb_step; auto|]. split; [apply K9_step; auto|].
  split; [apply RQc_step; auto|]. split; [apply K10_step; auto|]. split; [apply K11_step; auto|].
  split; [apply K12_step; auto|apply K13_step; auto].
Qed.

End OneStep4b.

Lemma INV4b_init : INV4b_ ginit.
Proof.
  unfold INV4b_. split; [|split; [|split; [|split; [|split; [|split; [|split; [|split; [|split; [|split]]]]]]]]].
  - intros q k id s F. cbn in F. discriminate.
  - intros q l tg F. cbn in F. discriminate.
  - intros q tg d TL. exists []. cbn. split; [constructor|]. split; [reflexivity|]. split; [intros l []|]. intros l F. discriminate.
  - intros q dst x [].
  - intros q dst x [].
  - intros l q tg F. cbn in F. discriminate.
  - intros q dst x [].
  - intros l q a [].
  - intros q l tg F. cbn in F. discriminate.
  - intros q tg D. cbn in D. congruence.
  - split; [|split].
    + intros q w s v [].
    + intros q w s [].
    + intros l dst x [].
Qed.

Definition ALL (g : gst) : Prop := INV g /\ INV2 g /\ INV3 g /\ INV4a g /\ INV4b_ g.

Lemma ALL_step : forall g e, noswitch e = true -> ALL g -> ALL (gstep g e).
Proof.
  intros g e NSe (I1 & I2 & I3 & I4 & I5).
  pose proof (INV_step g e I1) as I1'. pose proof (INV2_step g e I1 I2) as I2'. pose proof (INV3_step g e I1 I3) as I3'.
  pose proof (INV4a_step g e NSe I4) as I4'.
  unfold ALL. split; [exact I1'|]. split; [exact I2'|]. split; [exact I3'|]. split; [exact I4'|].
  destruct (gstep_cases4 g e NSe) as [E|(p & st' & out & r & offer & Hp & Q & Q2 & Q3 & Q4 & C1 & C3 & DR & BC & CR & E1 & E2 & E3)].
  - rewrite E. exact I5.
  - eapply INV4b_onestep; eauto.
Qed.

Theorem ALL_run : forall es, forallb noswitch es = true -> ALL (run es).
Proof.
  apply grun_ind_ns.
  - unfold ALL. split; [exact INV_init|]. split; [exact INV2_init|]. split; [exact INV3_init|]. split; [exact INV4a_init|exact INV4b_init].
  - exact ALL_step.
Qed.

(* ---- the full liveness clause of C14, as a statement (NOT proved; totality_digest above is the part that is) -------- *)
Definition kind_of (a : Z) : fkind :=
  if a =? 1 then FSend else if a =? 2 then FEcho else if a =? 3 then FReady else if a =? 4 then FRequest else FAnswer.
(* every protocol message addressed to an honest party has been processed by it *)
Definition handed_over (g : gst) : Prop :=
  forall l q m, In (l, q, m) (gsent g) -> hon q -> 1 <= m_act m <= 5 -> filt (gp g q) (kind_of (m_act m)) l (mtag m) = true.
(* ... and no party has a deliverable entry left in its deliver buffer *)
Definition buffers_drained (g : gst) : Prop :=
  forall q, hon q -> forall tg, In tg (dbuf (gp g q)) -> deliverable (gp g q) tg = false.
Definition delivery_at_quiescence_statement : Prop :=
  forall es id, handed_over (run es) -> buffers_drained (run es) ->
    (forall q, hon q -> cur (gp (run es) q) = id /\ fifo (gp (run es) q) = true) ->
    (* validity: every broadcast of an honest sender on the channel is delivered by every honest party *)
    (forall j dst s v, hon j -> In (j, dst, Msg id j s 1 v) (gsent (run es)) ->
       forall q, hon q -> In (q, (id, j, s), v) (glog (run es))) /\
    (* totality: a slot delivered by one honest party is delivered by all *)
    (forall p j s v, In (p, (id, j, s), v) (glog (run es)) -> forall q, hon q -> exists v', In (q, (id, j, s), v') (glog (run es))).

(* ---- the delivery clause at quiescence (FIFO root channel) ------------------------------------------------ *)
Lemma intersect_honest_gen : forall (L1 L2 : list Z), NoDup L1 -> NoDup L2 ->
  (forall l, In l L1 -> 0 <= l < n) -> (forall l, In l L2 -> 0 <= l < n) ->
  n + Z.of_nat (length B) < Z.of_nat (length L1) + Z.of_nat (length L2) ->
  exists l, In l L1 /\ In l L2 /\ ~ In l B.
Proof.
  intros L1 L2 ND1 ND2 R1 R2 Len.
  set (C := filter (fun l => existsb (Z.eqb l) L2) L1).
  set (D := filter (fun l => negb (existsb (Z.eqb l) L2)) L1).
  assert (LC : (length C + length D = length L1)%nat).
  { unfold C, D. clear. induction L1 as [|a r IH]; cbn; auto. destruct (existsb (Z.eqb a) L2); cbn; lia. }
  assert (NDD : NoDup (D ++ L2)).
  { apply NoDup_app_disjoint; auto.
    - apply NoDup_filter; auto.
    - intros x Ix I2. apply filter_In in Ix. destruct Ix as [_ Ix]. apply negb_true_iff in Ix.
      apply in_existsb_eqb in I2. congruence. }
  assert (LD : Z.of_nat (length (D ++ L2)) <= n).
  { apply bounded_nodup_length; auto; [lia|]. intros l I. apply in_app_or in I. destruct I as [I|I]; auto.
    apply filter_In in I. destruct I as [I _]. auto. }
  rewrite app_length in LD.
  assert (NC : NoDup C) by (apply NoDup_filter; auto).
  destruct (nodup_exceeds_honest B C NC) as (l & Il & Nl); [lia|].
  apply filter_In in Il. destruct Il as [I1 I2]. apply in_existsb_eqb in I2. eauto.
Qed.

(* a party that has fixed the digest of a slot has attempted its delivery once everything is handed over *)
Lemma dbar_TD : forall g, ALL g -> handed_over g -> forall q tg d, hon q -> dbar (gp g q) tg = Some d -> TD g q tg.
Proof.
  intros g (I & I2 & _ & I4 & (_ & _ & _ & Ra & Rb & _ & Rc & A10 & A11 & A12 & _)) HO q tg d Hq D.
  destruct (A12 q tg) as [T|(x & Ax & Tx & Al)]; [congruence|exact T|].
  assert (I0 : In (q, 0, x) (gsent g)) by (apply Al; lia).
  pose proof (Ra _ _ _ I0 Ax) as Dx. rewrite Tx, D in Dx. inversion Dx as [Pd]. clear Dx.
  destruct (Rc _ _ _ I0 Ax) as (W & NDW & LenW & AW). rewrite Tx, <- Pd in AW.
  destruct (intersect_honest_gen W (range (2 * t + 1))) as (l & JW & J2 & NB); auto.
  { apply range_nodup. } { intros l J. apply AW in J. tauto. } { intros l J. apply range_in in J. lia. }
  { unfold range at 1. rewrite map_length, seq_length. lia. }
  apply range_in in J2. destruct (AW l JW) as (Rl & [Y|(Ec & An)]); [exfalso; auto|].
  assert (Hl : hon l) by (apply honest_of; auto).
  assert (Nbl : byz l = false). { destruct (byz l) eqn:Y; auto. exfalso; auto. }
  assert (Iq : In (q, l, x) (gsent g)) by (apply Al; lia).
  pose proof (HO _ _ _ Iq Hl) as F. rewrite Ax, Tx in F. cbn in F. specialize (F ltac:(lia)).
  destruct (An F) as (a & Ia & Aa & Ta).
  pose proof (HO _ _ _ Ia Hq) as Fa. rewrite Aa, Ta in Fa. cbn in Fa. specialize (Fa ltac:(lia)).
  destruct (A11 _ _ _ Fa Nbl) as [T|(a' & db & Ia' & Aa' & Ta' & Db & NE)]; [exact T|].
  exfalso. rewrite D in Db. inversion Db; subst db. apply NE.
  destruct (A10 _ _ _ Ia' Aa') as (_ & [E'|S']); rewrite Ta' in *.
  - pose proof I as (_ & _ & _ & A3 & _).
    destruct Ec as (d1 & e1 & Ie1 & Te1 & Ae1 & Pe1). destruct E' as (d2 & e2 & Ie2 & Te2 & Ae2 & Pe2).
    rewrite <- Pe1, <- Pe2. eapply A3; eauto. congruence.
  - eapply (Sup_unique g I); eauto. eapply dbar_Sup; eauto.
Qed.

(* the deliver buffer drains in sequence order *)
Lemma TD_delivered : forall g, ALL g -> buffers_drained g -> forall q w s, hon q -> 1 <= s -> TD g q (0, w, s) ->
  (forall s', 1 <= s' < s -> exists v, In (q, (0, w, s'), v) (glog g)) -> exists v, In (q, (0, w, s), v) (glog g).
Proof.
  intros g (_ & _ & _ & (NSg & (DLa & DLb & DLc) & _) & _) BD q w s Hq S1 T IH.
  destruct (NSg q) as [C F].
  assert (LT : s < dls (gp g q) w -> exists v, In (q, (0, w, s), v) (glog g)) by (intros; apply DLb; lia).
  destruct T as [T|[T|T]]; auto.
  - pose proof (BD q Hq _ T) as ND. unfold deliverable in ND. rewrite C, F in ND. cbn in ND. rewrite orb_false_r in ND.
    apply Z.eqb_neq in ND. destruct (Z.lt_ge_cases s (dls (gp g q) w)) as [X|X]; auto.
    exfalso. pose proof (DLc q w) as D1. destruct (IH (dls (gp g q) w)) as (v & Iv); [lia|].
    apply DLa in Iv. lia.
  - unfold obsolete in T. rewrite C, F in T. cbn in T. apply Z.ltb_lt in T. auto.
Qed.

(* TOTALITY on the FIFO root channel: what one honest party has delivered, every honest party has delivered *)
Theorem totality_at_quiescence : forall es, forallb noswitch es = true ->
  handed_over (run es) -> buffers_drained (run es) ->
  forall p tg v, In (p, tg, v) (glog (run es)) -> forall q, hon q -> In (q, tg, v) (glog (run es)).
Proof.
  intros es NSes HO BD. pose proof (ALL_run es NSes) as A. set (g := run es) in *.
  pose proof A as (I & I2 & I3 & (NSg & (DLa & DLb & DLc) & _) & (_ & _ & _ & _ & _ & _ & _ & _ & _ & _ & (A13 & _))).
  assert (RQ : ready_quiescent g).
  { intros l q m Im Am Hq. pose proof (HO _ _ _ Im Hq) as F. rewrite Am in F. cbn in F. apply F. lia. }
  (* existence, by induction on the sequence number *)
  assert (EX : forall k : nat, forall w s p v, (Z.to_nat s <= k)%nat -> In (p, (0, w, s), v) (glog g) ->
               forall q, hon q -> exists v', In (q, (0, w, s), v') (glog g)).
  { induction k as [|k IHk]; intros w s p v Sk Ip q Hq.
    - apply DLa in Ip. lia.
    - pose proof (DLa _ _ _ _ _ Ip) as (_ & Rs).
      destruct (A13 _ _ _ _ Ip) as (p' & d & Dp).
      assert (Dq : dbar (gp g q) (0, w, s) = Some d).
      { unfold g. eapply totality_digest; eauto. }
      apply (TD_delivered g A BD q w s Hq); [lia|eapply dbar_TD; eauto|].
      intros s' Rs'. destruct (DLb p w s') as (v1 & I1); [lia|].
      eapply (IHk w s' p v1); eauto. lia. }
  intros p [[id w] s] v Ip q Hq. pose proof (DLa _ _ _ _ _ Ip) as (-> & _).
  destruct (EX (Z.to_nat s) w s p v (le_n _) Ip q Hq) as (v' & Iq).
  assert (v' = v); [|subst; exact Iq].
  apply H_inj. unfold g in *. eapply agreement_digest_full; eauto.
Qed.


Lemma All_length : n - t <= Z.of_nat (length (filter notB (range n))).
Proof.
  pose proof (filter_notB_length (range n) (range_nodup n)) as X.
  unfold range in X at 1. rewrite map_length, seq_length in X. lia.
Qed.

(* VALIDITY, first part: every honest party attempts the delivery of every slot an honest sender broadcast *)
Lemma slot_TD : forall g, ALL g -> G2e g -> handed_over g -> forall j dst s v, hon j ->
  In (j, dst, Msg 0 j s 1 v) (gsent g) -> forall q, hon q -> TD g q (0, j, s).
Proof.
  intros g A A2e HO j dst s v Hj Im q Hq.
  pose proof A as (I & I2 & (A0 & A1 & A2 & A3 & A4) & (NSg & _ & K1g & K2g & _ & U0g & U1g & U2g) & (K5g & G0eg & G4eg & _)).
  set (tg := (0, j, s)). set (d := H v).
  assert (Nbj : byz j = false). { unfold honest in Hj. b2p. destruct (byz j); auto; discriminate. }
  assert (Nbq : byz q = false). { unfold honest in Hq. b2p. destruct (byz q); auto; discriminate. }
  assert (RANGE : forall q', hon q' -> 0 <= q' < n). { intros q' Hq'. unfold honest, is_party in Hq'. b2p. lia. }
  (* (a) the r-send went to everybody *)
  assert (SA : forall i, 0 <= i < n -> In (j, i, Msg 0 j s 1 v) (gsent g)).
  { destruct (U0g _ _ _ Im eq_refl) as (_ & _ & Rs). cbn in Rs. destruct (U2g j) as (_ & Al).
    destruct (Al s Rs) as (v' & Av). intros i Ri. specialize (Av i Ri).
    assert (v' = v); [|subst; exact Av]. eapply (U1g j _ (Msg 0 j s 1 v') _ (Msg 0 j s 1 v)); eauto. }
  (* (b) every honest party echoed H v *)
  assert (EC : forall q', hon q' -> echoed g q' tg d).
  { intros q' Hq'. pose proof (HO _ _ _ (SA q' (RANGE q' Hq')) Hq') as F. cbn in F. specialize (F ltac:(lia)).
    destruct (K5g q' j 0 s F Nbj) as (v1 & (dst1 & m1 & Im1 & Tm1 & Am1 & Pm1) & _ & E1).
    assert (v1 = v); [|subst; exact E1].
    rewrite <- Pm1. eapply (U1g j _ m1 _ (Msg 0 j s 1 v)); eauto. }
  assert (TL : toolong tg d = false) by apply toolong_ok.
  (* (c) every honest party has the echo quorum *)
  assert (ED : forall q', hon q' -> n - t <= ed (gp g q') tg d).
  { intros q' Hq'. destruct (G4eg q' tg d TL) as (L & ND & Len & AF & AC).
    assert (INC : incl (filter notB (range n)) L).
    { intros l J. apply filter_In in J. destruct J as [J NB]. apply notB_spec in NB. apply range_in in J.
      assert (Hl : hon l) by (apply honest_of; auto).
      assert (Nbl : byz l = false). { destruct (byz l) eqn:Y; auto. exfalso; auto. }
      destruct (EC l Hl) as (dst' & e & Ie & Te & Ae & Pe).
      pose proof (K2g _ _ _ Ie Ae q' (RANGE q' Hq')) as Iq.
      pose proof (HO _ _ _ Iq Hq') as F. rewrite Ae, Te in F. cbn in F. specialize (F ltac:(lia)).
      apply AC; auto. exists e. auto. }
    apply NoDup_incl_length in INC; [|apply NoDup_filter; apply range_nodup].
    pose proof All_length. lia. }
  (* (d)-(e) the ready quorum *)
  destruct (A4 q tg d TL) as (L & ND & Len & AF & AC).
  assert (CNT : forall l, hon l -> (exists dst', sent_ready g l dst' tg d) -> In l L).
  { intros l Hl (dst' & x & Ix & Tx & Ax & Px).
    assert (Nbl : byz l = false). { unfold honest in Hl. b2p. destruct (byz l); auto; discriminate. }
    pose proof (A1 _ _ _ Ix Ax q (RANGE q Hq)) as Iq.
    pose proof (HO _ _ _ Iq Hq) as F. rewrite Ax, Tx in F. cbn in F. specialize (F ltac:(lia)).
    apply AC; auto. exists x. auto. }
  assert (R2 : 2 * t + 1 <= rd (gp g q) tg d).
  { destruct (Z_lt_le_dec 0 t) as [T0|T0].
    - assert (INC : incl (filter notB (range n)) L).
      { intros l J. apply filter_In in J. destruct J as [J NB]. apply notB_spec in NB. apply range_in in J.
        assert (Hl : hon l) by (apply honest_of; auto). apply CNT; auto. apply A2; auto. right. apply ED. exact Hl. }
      apply NoDup_incl_length in INC; [|apply NoDup_filter; apply range_nodup].
      pose proof All_length as AL. lia.
    - assert (T0' : t = 0) by lia. destruct (A2e q tg d (ED q Hq)) as [S|R]; [|lia].
      pose proof (CNT q Hq S) as Jq. destruct L as [|a r]; [contradiction|]. cbn [length] in Len. lia. }
  pose proof (A3 _ _ _ R2) as NN. destruct (dbar (gp g q) tg) as [d'|] eqn:Dq; [|congruence].
  (* (g) payload retrieval / delivery attempt *)
  eapply dbar_TD; eauto.
Qed.

(* VALIDITY on the FIFO root channel: every broadcast of an honest sender has been delivered by every honest party *)
Theorem validity_at_quiescence : forall es, forallb noswitch es = true ->
  handed_over (run es) -> buffers_drained (run es) ->
  forall j dst s v, hon j -> In (j, dst, Msg 0 j s 1 v) (gsent (run es)) ->
  forall q, hon q -> In (q, (0, j, s), v) (glog (run es)).
Proof.
  intros es NSes HO BD j dst s v Hj Im q Hq. pose proof (ALL_run es NSes) as A. pose proof (G2e_run es) as A2e. set (g := run es) in *.
  pose proof A as (I & (_ & _ & _ & _ & J8bg) & _ & (NSg & _ & _ & _ & _ & U0g & U1g & U2g) & _).
  assert (Nbj : byz j = false). { unfold honest in Hj. b2p. destruct (byz j); auto; discriminate. }
  destruct (U2g j) as (_ & Al).
  assert (EX : forall k : nat, forall s0, (Z.to_nat s0 <= k)%nat -> 1 <= s0 <= sq (gp g j) ->
               exists v', In (q, (0, j, s0), v') (glog g)).
  { induction k as [|k IHk]; intros s0 Sk Rs; [lia|].
    destruct (Al s0 Rs) as (v0 & Av).
    apply (TD_delivered g A BD q j s0 Hq); [lia| |].
    - eapply (slot_TD g A A2e HO j 0 s0 v0); eauto. apply Av. unfold honest, is_party in Hq. b2p. lia.
    - intros s' Rs'. apply IHk; lia. }
  destruct (U0g _ _ _ Im eq_refl) as (_ & _ & Rs). cbn in Rs.
  destruct (EX (Z.to_nat s) s (le_n _) Rs) as (v' & Iq).
  assert (v' = v); [|subst; exact Iq].
  apply H_inj. pose proof (J8bg _ _ _ Iq) as S.
  apply (Sup_send_digest g I U1g j 0 s _ S Nbj dst (Msg 0 j s 1 v) Im); reflexivity.
Qed.


End Bracha.

(* ---- the property statements with a collision-free digest hash ------------------------------------------- *)
Section Final.
Variables (n t skip : Z) (H : Z -> Z) (toolong : tagT -> Z -> bool) (byz : Z -> bool).
Hypothesis n_gt_3t : 3 * t < n.
Hypothesis t_nonneg : 0 <= t.
Variable B : list Z.
Hypothesis B_small : Z.of_nat (length B) <= t.
Hypothesis B_byz : forall l, byz l = true -> In l B.
Hypothesis H_nonzero : forall m, H m <> 0.
Hypothesis H_inj : forall a b, H a = H b -> a = b.
Notation run := (grun n t skip H toolong byz).

Theorem agreement : forall es p q tg v v',
  In (p, tg, v) (glog (run es)) -> In (q, tg, v') (glog (run es)) -> v = v'.
Proof. intros. apply H_inj. eapply agreement_digest_full; eauto. Qed.

Theorem integrity : forall es p id j s v,
  In (p, (id, j, s), v) (glog (run es)) -> byz j = false ->
  exists es1 coin es2 dst, es = es1 ++ EBcast j v coin :: es2 /\
    In (dst, Msg id j s 1 v) (snd (broadcast n j (gp (run es1) j) v coin)).
Proof.
  intros es p id j s v I Hj.
  destruct (integrity_digest_full n t skip H toolong byz n_gt_3t t_nonneg B B_small B_byz H_nonzero es p id j s v I Hj)
    as (e & m & Im & Tm & Am & Pm).
  apply H_inj in Pm.
  destruct (rsend_only_by_broadcast n t skip H toolong byz es j e m Im Am) as (es1 & v0 & coin & es2 & E & _ & J).
  assert (M : m = Msg id j s 1 v).
  { destruct m as [a b c d f]. unfold mtag in Tm. cbn in *. inversion Tm; subst. reflexivity. }
  subst m. assert (v0 = v).
  { unfold broadcast in J. cbn in J. apply in_to_all in J. inversion J. reflexivity. }
  subst v0. exists es1, coin, es2, e. auto.
Qed.

(* the values handed out by the sender-specific call agree as well: they are Deliver deliveries of the same party *)
Theorem agreement_deliverfrom : forall es p q c i v v' s,
  In (p, c, i, v) (gapi (run es)) -> In (q, (c, i, s), v') (glog (run es)) ->
  exists s', In (p, (c, i, s'), v) (glog (run es)) /\ (s' = s -> v = v').
Proof.
  intros es p q c i v v' s I1 I2. destruct (deliverfrom_isolation_run n t skip H toolong byz es p c i v I1) as (s' & J).
  exists s'. split; auto. intros ->. eapply agreement; eauto.
Qed.
End Final.

(* ---- a real n = 4, t = 1 run for the non-vacuity examples: P0 broadcasts 42 on the FIFO root channel, everybody delivers -- *)
Definition Hodd (x : Z) : Z := 2 * x + 1.          (* injective, never 0 *)
Definition full_events : list event :=
  let snd_ := Msg 0 0 1 1 42 in let ech := Msg 0 0 1 2 85 in let rdy := Msg 0 0 1 3 85 in
  EBcast 0 42 0 ::
  map (fun p => ERecv p 0 snd_) [0;1;2;3] ++
  flat_map (fun p => map (fun l => ERecv p l ech) [0;1;2]) [0;1;2;3] ++
  flat_map (fun p => map (fun l => ERecv p l rdy) [1;2;3]) [0;1;2;3].
Notation full_run := (grun 4 1 0 Hodd (fun _ _ => false) (fun _ => false) full_events).

Lemma full_run_log : glog full_run = [(0, (0, 0, 1), 42); (1, (0, 0, 1), 42); (2, (0, 0, 1), 42); (3, (0, 0, 1), 42)].
Proof. vm_compute. reflexivity. Qed.
Lemma full_run_not_retrieved : forall p, In p [0;1;2;3] -> ~ retrieved (gp full_run p) (0, 0, 1).
Proof.
  intros p [<-|[<-|[<-|[<-|[]]]]] [l E]; vm_compute in E; discriminate.
Qed.
Lemma Hodd_inj : forall a b, Hodd a = Hodd b -> a = b.
Proof. unfold Hodd. intros. lia. Qed.
Lemma Hodd_nonzero : forall m, Hodd m <> 0.
Proof. unfold Hodd. intros. lia. Qed.

(* the same run with every r-ready handed over: meets the premises of totality_digest *)
Definition quiet_events : list event := full_events ++ map (fun p => ERecv p 0 (Msg 0 0 1 3 85)) [0;1;2;3].
Notation quiet_run := (grun 4 1 0 Hodd (fun _ _ => false) (fun _ => false) quiet_events).
Definition rq_check (g : gst) : bool :=
  forallb (fun e : Z * Z * msg => match e with (l, q, m) =>
             if m_act m =? 3 then filt (gp g q) FReady l (mtag m) else true end) (gsent g).
Lemma rq_check_sound : forall n byz g, rq_check g = true -> ready_quiescent n byz g.
Proof.
  intros n byz g C l q m I A _. unfold rq_check in C. rewrite forallb_forall in C. specialize (C _ I). cbn in C.
  rewrite A in C. cbn in C. exact C.
Qed.
Lemma quiet_run_quiescent : ready_quiescent 4 (fun _ => false) quiet_run.
Proof. apply rq_check_sound. vm_compute. reflexivity. Qed.
Lemma quiet_run_dbar : dbar (gp quiet_run 0) (0, 0, 1) = Some 85.
Proof. vm_compute. reflexivity. Qed.

(* ---- a fully quiescent n = 4, t = 1 run: every message handed over, deliver buffers empty ------------------------ *)
Definition done_events : list event :=
  let snd_ := Msg 0 0 1 1 42 in let ech := Msg 0 0 1 2 85 in let rdy := Msg 0 0 1 3 85 in
  EBcast 0 42 0 ::
  map (fun p => ERecv p 0 snd_) [0;1;2;3] ++
  flat_map (fun p => map (fun l => ERecv p l ech) [0;1;2;3]) [0;1;2;3] ++
  flat_map (fun p => map (fun l => ERecv p l rdy) [0;1;2;3]) [0;1;2;3].
Notation done_run := (grun 4 1 0 Hodd (fun _ _ => false) (fun _ => false) done_events).

Definition ho_check (g : gst) : bool :=
  forallb (fun e : Z * Z * msg => match e with (l, q, m) =>
             if (1 <=? m_act m) && (m_act m <=? 5) then filt (gp g q) (kind_of (m_act m)) l (mtag m) else true end) (gsent g).
Lemma ho_check_sound : forall n byz g, ho_check g = true -> handed_over n byz g.
Proof.
  intros n byz g C l q m I _ R. unfold ho_check in C. rewrite forallb_forall in C. specialize (C _ I). cbn in C.
  destruct ((1 <=? m_act m) && (m_act m <=? 5)) eqn:X; auto. apply andb_false_iff in X. destruct X as [X|X]; b2p; lia.
Qed.
Definition bd_check (n : Z) (g : gst) : bool :=
  forallb (fun q => forallb (fun tg => negb (deliverable (gp g q) tg)) (dbuf (gp g q))) (range n).
Lemma bd_check_sound : forall n byz g, bd_check n g = true -> buffers_drained n byz g.
Proof.
  intros n byz g C q Hq tg I. unfold bd_check in C. rewrite forallb_forall in C.
  assert (Rq : In q (range n)). { apply range_in. unfold honest, is_party in Hq. b2p. lia. }
  specialize (C q Rq). rewrite forallb_forall in C. specialize (C tg I). apply negb_true_iff in C. exact C.
Qed.
Lemma done_run_quiescent : forallb noswitch done_events = true /\
  handed_over 4 (fun _ => false) done_run /\ buffers_drained 4 (fun _ => false) done_run.
Proof.
  split; [vm_compute; reflexivity|]. split; [apply ho_check_sound|apply bd_check_sound]; vm_compute; reflexivity.
Qed.
Lemma done_run_log : glog done_run = [(0, (0, 0, 1), 42); (1, (0, 0, 1), 42); (2, (0, 0, 1), 42); (3, (0, 0, 1), 42)].
Proof. vm_compute. reflexivity. Qed.

(* ---- finding F10: with channel switches totality FAILS (the out-of-order handler answers across channels) ------------ *)
Definition byz3 (l : Z) : bool := l =? 3.
Definition hon3 : list Z := [0; 1; 2].
(* the faulty P3 behaving like an honest sender of slot (id, 3, s) with value v, everything handed over among P0..P2 *)
Definition bcast3 (id s v : Z) : list event :=
  map (fun p => ERecv p 3 (Msg id 3 s 1 v)) hon3 ++
  flat_map (fun p => map (fun l => ERecv p l (Msg id 3 s 2 (Hodd v))) hon3) hon3 ++
  flat_map (fun p => map (fun l => ERecv p l (Msg id 3 s 3 (Hodd v))) hon3) hon3.
Definition cross_events : list event :=
  [ESetID 0 7 true; ESetID 1 8 true; ESetID 2 8 true] ++          (* P0 on channel 7, P1 and P2 on channel 8 *)
  bcast3 8 1 50 ++                                                 (* slot (8,3,1): deliver_s[3] = 2 at P1, P2 *)
  [ERecv 1 3 (Msg 7 3 1 1 51); ERecv 2 3 (Msg 7 3 1 1 51)] ++      (* payload of (7,3,1) to P1, P2 only: no quorum ever *)
  flat_map (fun p => map (fun l => ERecv p l (Msg 7 3 1 2 (Hodd 51))) [1; 2]) hon3 ++
  bcast3 7 2 52 ++                                                 (* slot (7,3,2) properly: P0 buffers it and asks for slot 1 *)
  [EIdle 0; ERecv 1 0 (Msg 7 3 1 6 6); ERecv 2 0 (Msg 7 3 1 6 6);  (* P1, P2 answer although they sit on channel 8 *)
   ERecv 0 1 (Msg 7 3 1 7 51); ERecv 0 2 (Msg 7 3 1 7 51); ERecv 0 3 (Msg 7 3 1 7 51); EIdle 0;   (* P0 delivers slots 1, 2 *)
   EUnsetID 1 true; ESetID 1 7 true; EUnsetID 2 true; ESetID 2 7 true; EIdle 1; EIdle 2].         (* P1, P2 come to channel 7 *)
Notation cross_run := (grun 4 1 0 Hodd (fun _ _ => false) byz3 cross_events).

Definition ho_check_hon (n : Z) (byz : Z -> bool) (g : gst) : bool :=
  forallb (fun e : Z * Z * msg => match e with (l, q, m) =>
             if honest n byz q && (1 <=? m_act m) && (m_act m <=? 5) then filt (gp g q) (kind_of (m_act m)) l (mtag m) else true end) (gsent g).
Lemma ho_check_hon_sound : forall n byz g, ho_check_hon n byz g = true -> handed_over n byz g.
Proof.
  intros n byz g C l q m I Hq R. unfold ho_check_hon in C. rewrite forallb_forall in C. specialize (C _ I). cbn in C.
  rewrite Hq in C. cbn in C. destruct ((1 <=? m_act m) && (m_act m <=? 5)) eqn:X; auto.
  apply andb_false_iff in X. destruct X as [X|X]; b2p; lia.
Qed.

Lemma cross_run_log : glog cross_run = [(1, (8, 3, 1), 50); (2, (8, 3, 1), 50); (0, (7, 3, 1), 51); (0, (7, 3, 2), 52)].
Proof. vm_compute. reflexivity. Qed.

(* one faulty party out of four, every protocol message between honest parties handed over, deliver buffers drained, all honest
   parties on the FIFO channel 7: P0 has delivered slot (7,3,1), P1 never will *)
Theorem totality_with_switches_refuted : ~ delivery_at_quiescence_statement 4 1 0 Hodd (fun _ _ => false) byz3.
Proof.
  intros S. specialize (S cross_events 7).
  assert (HO : handed_over 4 byz3 cross_run) by (apply ho_check_hon_sound; vm_compute; reflexivity).
  assert (BD : buffers_drained 4 byz3 cross_run) by (apply bd_check_sound; vm_compute; reflexivity).
  assert (CH : forall q, honest 4 byz3 q = true -> cur (gp cross_run q) = 7 /\ fifo (gp cross_run q) = true).
  { intros q Hq. unfold honest, is_party, byz3 in Hq. b2p.
    assert (Q3 : q = 0 \/ q = 1 \/ q = 2) by lia. destruct Q3 as [E | [E | E]]; rewrite E; vm_compute; auto. }
  destruct (S HO BD CH) as [_ T].
  assert (I0 : In (0, (7, 3, 1), 51) (glog cross_run)) by (rewrite cross_run_log; cbn; auto).
  destruct (T 0 3 1 51 I0 1 eq_refl) as (v' & I1). rewrite cross_run_log in I1. cbn in I1.
  repeat (destruct I1 as [I1|I1]; [discriminate I1|]). exact I1.
Qed.
